import AvgProofs.MeanMergeErr
import AvgProofs.MomentsFold
import AvgModel.MomentsN

/-!
# Forward error of the mean kept by `define_moments!` (R2 carrier), every merge tree

* `Moments.add N s x` updates `(avg, n)` by literally the text of `Mean.add` (`Moments.add_meanState`,
  `Moments.fold_meanState`: any carrier, `rfl`), so `mean_fold_error` transfers to add-only streams for
  every order `N` (`moments_mean_fold_error`).
* `Moments.merge N s o` (both non-empty) computes `avg' = s.avg + (n_b / n) * (o.avg - s.avg)`: at the R2
  carrier four rounded operations - the quotient of the two exactly converted counts, the difference,
  the product, the sum. `moments_merge_round_error`: they move the result by at most
  `A u (7 + 12u + 8u² + 2u³)` away from the exact `a + t (b - a)` when `|a|, |b| ≤ A`, `0 ≤ t ≤ 1`
  (`≤ 8 u A` for `u ≤ 1/16`: `moments_merge_round_error_8`).
* `moments_mean_merge_error`: one merge keeps an error budget of `B` per observation provided
  `8 u (M + B n) ≤ B`.
* `moments_mean_mtree_error_gen`, `moments_mean_mtree_error` (constant `11`, `n u ≤ 1/64`): every merge
  tree, every order `N`.
-/
open Avg
variable {K : Type} [Field K] [LinearOrder K] [IsStrictOrderedRing K]

/-! ## the `(avg, n)` half of `define_moments!` is `Mean` (any carrier) -/
namespace Avg
section anyCarrier
set_option linter.unusedSectionVars false
variable {α : Type} [Add α] [Sub α] [Mul α] [Div α] [Neg α] [NatCast α]

/-- the mean and the count of a `define_moments!` state, as a `Mean` state -/
def Moments.meanState (s : Moments α) : Mean α := ⟨s.avg, s.n⟩

/-- `Moments.add` updates `(avg, n)` exactly as `Mean.add` does: same operations, same order -/
theorem Moments.add_meanState (N : Nat) (s : Moments α) (x : α) :
    (Moments.add N s x).meanState = s.meanState.add x := rfl

theorem Moments.new_meanState (N : Nat) : (Moments.new N : Moments α).meanState = Mean.new := rfl

/-- the `(avg, n)` half of the `define_moments!` fold is the `Mean` fold, bit for bit on any carrier -/
theorem Moments.fold_meanState (N : Nat) (xs : List α) (s : Moments α) :
    (xs.foldl (Moments.add N) s).meanState = xs.foldl Mean.add s.meanState := by
  induction xs generalizing s with
  | nil => rfl
  | cons x xs ih => rw [List.foldl_cons, List.foldl_cons, ih, Moments.add_meanState]

/-- evaluation of a merge tree with `define_moments!(T, N)`, any carrier -/
abbrev Moments.evalTree (N : Nat) (t : MTree α) : Moments α :=
  t.eval (Moments.new N) (Moments.add N) (Moments.merge N)

/-- A merge tree without data (all chunks empty) evaluates to the empty state, any carrier. -/
theorem Moments.mtree_eval_empty (N : Nat) (t : MTree α) (h : t.flatten = []) :
    Moments.evalTree N t = Moments.new N := by
  induction t with
  | leaf xs => rw [MTree.flatten_leaf] at h; subst h; rfl
  | node l r ihl ihr =>
    rw [MTree.flatten_node, List.append_eq_nil_iff] at h
    show Moments.merge N (Moments.evalTree N l) (Moments.evalTree N r) = _
    rw [ihl h.1, ihr h.2]
    exact Moments.merge_empty _ _ _ rfl

end anyCarrier
end Avg

/-- unary minus on the R2 carrier is exact (a sign flip), as in IEEE arithmetic. The theorems below hold
for *any* `Neg (RF2 r)`: the mean of `define_moments!` never uses negation. -/
instance RF2.instNeg {r : Rnd2 K} : Neg (RF2 r) := ⟨fun a => ⟨-a.val⟩⟩

/-! ## add-only streams -/

/-- Forward error of the running mean of `define_moments!(T, N)`, every order `N`, all stream lengths:
the count is exact and `|avg_n - mean| ≤ 2(2w+u)·M·n` as long as `w + n·u ≤ 1/2`, `w = (2u+u²)(1+u)`
(the statement of `mean_fold_error`, transferred). -/
theorem moments_mean_fold_error (r : Rnd2 K) [Neg (RF2 r)] (N : Nat) (M : K) (hM : 0 ≤ M)
    (xs : List (RF2 r)) (hb : ∀ x ∈ xs, |x.val| ≤ M)
    (hsmall : (2*r.u + r.u^2) * (1 + r.u) + xs.length * r.u ≤ 1/2) :
    (xs.foldl (Moments.add N) (Moments.new N)).n = xs.length ∧
    |(xs.foldl (Moments.add N) (Moments.new N)).avg.val - meanK (xs.map RF2.val)|
      ≤ 2 * M * (2 * ((2*r.u + r.u^2) * (1 + r.u)) + r.u) * xs.length := by
  have h := mean_fold_error r M hM xs hb hsmall
  rw [← Moments.new_meanState N, ← Moments.fold_meanState] at h
  exact h

/-! ## one merge -/

/-- The four roundings of `fl(a + fl(fl t * fl(b - a)))`, where `fl t` is the rounded quotient
`n_b / n`: for `|a|, |b| ≤ A` and `0 ≤ t ≤ 1` the result is within `A·u·(7 + 12u + 8u² + 2u³)` of the
exact convex combination `a + t (b - a)`. -/
theorem moments_merge_round_error
    (fl : K → K) (u : K) (hu0 : 0 ≤ u) (hfl : ∀ t, |fl t - t| ≤ u * |t|)
    (A a b t : K) (ht0 : 0 ≤ t) (ht1 : t ≤ 1) (ha : |a| ≤ A) (hb : |b| ≤ A) :
    |fl (a + fl (fl t * fl (b - a))) - (a + t * (b - a))|
      ≤ A * u * (7 + 12*u + 8*u^2 + 2*u^3) := by
  have hA : 0 ≤ A := le_trans (abs_nonneg _) ha
  set ρ := fl t with hρ
  set d := fl (b - a) with hd
  set p := fl (ρ * d) with hp
  -- the quotient
  have e1 : |ρ - t| ≤ u * t := by
    have := hfl t; rwa [abs_of_nonneg ht0] at this
  have hρb : |ρ| ≤ (1 + u) * t := by
    have : ρ = (ρ - t) + t := by ring
    rw [this]
    calc _ ≤ |ρ - t| + |t| := abs_add_le _ _
      _ ≤ u * t + t := by rw [abs_of_nonneg ht0]; linarith
      _ = (1 + u) * t := by ring
  -- the difference
  have hba : |b - a| ≤ 2 * A := by
    calc |b - a| ≤ |b| + |a| := abs_sub _ _
      _ ≤ 2 * A := by linarith
  have e2 : |d - (b - a)| ≤ u * (2 * A) := by
    refine le_trans (hfl _) ?_; gcongr
  have hdb : |d| ≤ (1 + u) * (2 * A) := by
    have : d = (d - (b - a)) + (b - a) := by ring
    rw [this]
    calc _ ≤ |d - (b - a)| + |b - a| := abs_add_le _ _
      _ ≤ u * (2 * A) + 2 * A := by linarith
      _ = (1 + u) * (2 * A) := by ring
  -- the product
  have hρd : |ρ * d| ≤ ((1 + u) * t) * ((1 + u) * (2 * A)) := by
    rw [abs_mul]; gcongr
  have e3 : |p - ρ * d| ≤ u * (((1 + u) * t) * ((1 + u) * (2 * A))) := by
    refine le_trans (hfl _) ?_; gcongr
  have hmid : |ρ * d - t * (b - a)| ≤ (u * t) * ((1 + u) * (2 * A)) + t * (u * (2 * A)) := by
    have : ρ * d - t * (b - a) = (ρ - t) * d + t * (d - (b - a)) := by ring
    rw [this]
    calc _ ≤ |(ρ - t) * d| + |t * (d - (b - a))| := abs_add_le _ _
      _ = |ρ - t| * |d| + t * |d - (b - a)| := by rw [abs_mul, abs_mul, abs_of_nonneg ht0]
      _ ≤ _ := by gcongr
  have hpe : |p - t * (b - a)| ≤ 2 * A * (3*u + 3*u^2 + u^3) := by
    have : p - t * (b - a) = (p - ρ * d) + (ρ * d - t * (b - a)) := by ring
    rw [this]
    have hw : 0 ≤ 2 * A * (3*u + 3*u^2 + u^3) := by positivity
    calc _ ≤ |p - ρ * d| + |ρ * d - t * (b - a)| := abs_add_le _ _
      _ ≤ u * (((1 + u) * t) * ((1 + u) * (2 * A)))
            + ((u * t) * ((1 + u) * (2 * A)) + t * (u * (2 * A))) := by linarith
      _ = t * (2 * A * (3*u + 3*u^2 + u^3)) := by ring
      _ ≤ 1 * (2 * A * (3*u + 3*u^2 + u^3)) := by gcongr
      _ = _ := one_mul _
  -- the exact value is a convex combination
  have hconv : |a + t * (b - a)| ≤ A := by
    have : a + t * (b - a) = (1 - t) * a + t * b := by ring
    rw [this]
    have h1t : 0 ≤ 1 - t := by linarith
    calc _ ≤ |(1 - t) * a| + |t * b| := abs_add_le _ _
      _ = (1 - t) * |a| + t * |b| := by rw [abs_mul, abs_mul, abs_of_nonneg h1t, abs_of_nonneg ht0]
      _ ≤ (1 - t) * A + t * A := by gcongr
      _ = A := by ring
  have hs : |a + p| ≤ A + 2 * A * (3*u + 3*u^2 + u^3) := by
    have : a + p = (a + t * (b - a)) + (p - t * (b - a)) := by ring
    rw [this]
    calc _ ≤ |a + t * (b - a)| + |p - t * (b - a)| := abs_add_le _ _
      _ ≤ _ := by linarith
  have e4 : |fl (a + p) - (a + p)| ≤ u * (A + 2 * A * (3*u + 3*u^2 + u^3)) := by
    refine le_trans (hfl _) ?_; gcongr
  have : fl (a + p) - (a + t * (b - a)) = (fl (a + p) - (a + p)) + (p - t * (b - a)) := by ring
  rw [this]
  calc _ ≤ |fl (a + p) - (a + p)| + |p - t * (b - a)| := abs_add_le _ _
    _ ≤ u * (A + 2 * A * (3*u + 3*u^2 + u^3)) + 2 * A * (3*u + 3*u^2 + u^3) := by linarith
    _ = A * u * (7 + 12*u + 8*u^2 + 2*u^3) := by ring

/-- For `u ≤ 1/16` the four roundings cost at most `8 u A`. -/
theorem moments_merge_round_error_8
    (fl : K → K) (u : K) (hu0 : 0 ≤ u) (hu1 : u ≤ 1/16) (hfl : ∀ t, |fl t - t| ≤ u * |t|)
    (A a b t : K) (ht0 : 0 ≤ t) (ht1 : t ≤ 1) (ha : |a| ≤ A) (hb : |b| ≤ A) :
    |fl (a + fl (fl t * fl (b - a))) - (a + t * (b - a))| ≤ 8 * u * A := by
  have hA : 0 ≤ A := le_trans (abs_nonneg _) ha
  refine le_trans (moments_merge_round_error fl u hu0 hfl A a b t ht0 ht1 ha hb) ?_
  have h2 : u^2 ≤ u / 16 := by nlinarith
  have h3 : u^3 ≤ u / 256 := by nlinarith
  have h1 : 7 + 12*u + 8*u^2 + 2*u^3 ≤ 8 := by nlinarith
  have h0 : 0 ≤ A * u := by positivity
  calc A * u * (7 + 12*u + 8*u^2 + 2*u^3) ≤ A * u * 8 := by gcongr
    _ = 8 * u * A := by ring

/-- `Moments.merge` of two non-empty states at the R2 carrier: the mean takes four rounded operations. -/
theorem Moments.merge_avg_val (r : Rnd2 K) [Neg (RF2 r)] (N : Nat) (a b : Moments (RF2 r))
    (ha : a.n ≠ 0) (hb : b.n ≠ 0) :
    (Moments.merge N a b).avg.val
      = r.fl (a.avg.val + r.fl (r.fl ((b.n : K) / ((a.n + b.n : Nat) : K))
          * r.fl (b.avg.val - a.avg.val))) := by
  rw [Moments.merge, if_neg hb, if_neg ha]; rfl

/-- **One merge step of `define_moments!`.** `a`, `b` are states (R2 carrier, any order `N`) that
summarise the chunks `xs`, `ys` (exact counts; all `|x| ≤ M`) with an error of the mean of at most `B`
per observation. If `u ≤ 1/16` and `8 u (M + B n) ≤ B` for the total count `n`, the merged state
summarises `xs ++ ys` with an error of at most `B` per observation. Empty chunks (the early returns of
`merge`) included. -/
theorem moments_mean_merge_error (r : Rnd2 K) [Neg (RF2 r)] (N : Nat) (M B : K) (hM : 0 ≤ M)
    (hB : 0 ≤ B) (hu : r.u ≤ 1/16)
    (a b : Moments (RF2 r)) (xs ys : List K)
    (hxs : ∀ x ∈ xs, |x| ≤ M) (hys : ∀ y ∈ ys, |y| ≤ M)
    (han : a.n = xs.length) (hbn : b.n = ys.length)
    (hae : |a.avg.val - meanK xs| ≤ B * (xs.length : K))
    (hbe : |b.avg.val - meanK ys| ≤ B * (ys.length : K))
    (hsmall : 8 * r.u * (M + B * ((xs ++ ys).length : K)) ≤ B) :
    (Moments.merge N a b).n = (xs ++ ys).length ∧
    |(Moments.merge N a b).avg.val - meanK (xs ++ ys)| ≤ B * ((xs ++ ys).length : K) := by
  by_cases hy : ys = []
  · subst hy
    have h0 : b.n = 0 := by simpa using hbn
    rw [Moments.merge_empty N a b h0, List.append_nil]
    exact ⟨han, hae⟩
  by_cases hx : xs = []
  · subst hx
    have h0 : a.n = 0 := by simpa using han
    have h1 : b.n ≠ 0 := by rw [hbn]; exact fun h => hy (List.length_eq_zero_iff.mp h)
    rw [Moments.empty_merge N a b h0 h1, List.nil_append]
    exact ⟨hbn, hbe⟩
  have han0 : a.n ≠ 0 := by rw [han]; exact fun h => hx (List.length_eq_zero_iff.mp h)
  have hbn0 : b.n ≠ 0 := by rw [hbn]; exact fun h => hy (List.length_eq_zero_iff.mp h)
  refine ⟨?_, ?_⟩
  · have := Moments.len_merge N a b
    simp only [Moments.len] at this
    rw [this, han, hbn, List.length_append]
  rw [Moments.merge_avg_val r N a b han0 hbn0, han, hbn, meanK_append xs ys hx hy,
    List.length_append, Nat.cast_add]
  have hu0 := r.u_nonneg
  set na : K := (xs.length : K) with hna
  set nb : K := (ys.length : K) with hnb
  have hna1 : 1 ≤ na := by
    rw [hna]; exact_mod_cast List.length_pos_of_ne_nil hx
  have hnb1 : 1 ≤ nb := by
    rw [hnb]; exact_mod_cast List.length_pos_of_ne_nil hy
  have hnapos : 0 < na := by linarith
  have hnbpos : 0 < nb := by linarith
  have hnpos : 0 < na + nb := by linarith
  rw [List.length_append, Nat.cast_add] at hsmall
  set μa := meanK xs with hμa
  set μb := meanK ys with hμb
  have hμab : |μa| ≤ M := abs_mean_le xs M hM hxs
  have hμbb : |μb| ≤ M := abs_mean_le ys M hM hys
  set A := M + B * (na + nb) with hA
  have haA : |a.avg.val| ≤ A := by
    have : a.avg.val = μa + (a.avg.val - μa) := by ring
    rw [this]
    calc _ ≤ |μa| + |a.avg.val - μa| := abs_add_le _ _
      _ ≤ M + B * na := by linarith
      _ ≤ A := by rw [hA]; nlinarith
  have hbA : |b.avg.val| ≤ A := by
    have : b.avg.val = μb + (b.avg.val - μb) := by ring
    rw [this]
    calc _ ≤ |μb| + |b.avg.val - μb| := abs_add_le _ _
      _ ≤ M + B * nb := by linarith
      _ ≤ A := by rw [hA]; nlinarith
  set t := nb / (na + nb) with ht
  have ht0 : 0 ≤ t := by positivity
  have ht1 : t ≤ 1 := by rw [ht, div_le_one hnpos]; linarith
  have hround := moments_merge_round_error_8 r.fl r.u hu0 hu r.err A a.avg.val b.avg.val t
    ht0 ht1 haA hbA
  set q := r.fl (a.avg.val + r.fl (r.fl t * r.fl (b.avg.val - a.avg.val))) with hq
  set T := a.avg.val + t * (b.avg.val - a.avg.val) with hT
  -- the exactly merged value: convex combination of the two errors
  have hconv : |T - (na * μa + nb * μb) / (na + nb)| ≤ B * (na + nb - 1) := by
    have : T - (na * μa + nb * μb) / (na + nb)
        = (na * (a.avg.val - μa) + nb * (b.avg.val - μb)) / (na + nb) := by
      rw [hT, ht]; field_simp; ring
    rw [this, abs_div, abs_of_pos hnpos, div_le_iff₀ hnpos]
    have hcross : 0 ≤ na * (nb - 1) + nb * (na - 1) := by
      have h1 : 0 ≤ na * (nb - 1) := mul_nonneg hnapos.le (by linarith)
      have h2 : 0 ≤ nb * (na - 1) := mul_nonneg hnbpos.le (by linarith)
      linarith
    calc _ ≤ |na * (a.avg.val - μa)| + |nb * (b.avg.val - μb)| := abs_add_le _ _
      _ = na * |a.avg.val - μa| + nb * |b.avg.val - μb| := by
          rw [abs_mul, abs_mul, abs_of_pos hnapos, abs_of_pos hnbpos]
      _ ≤ na * (B * na) + nb * (B * nb) := by gcongr
      _ ≤ B * (na + nb - 1) * (na + nb) := by nlinarith [mul_nonneg hB hcross]
  have : q - (na * μa + nb * μb) / (na + nb)
      = (q - T) + (T - (na * μa + nb * μb) / (na + nb)) := by ring
  rw [this]
  calc _ ≤ |q - T| + |T - (na * μa + nb * μb) / (na + nb)| := abs_add_le _ _
    _ ≤ 8 * r.u * A + B * (na + nb - 1) := by linarith
    _ ≤ B + B * (na + nb - 1) := by linarith
    _ = B * (na + nb) := by ring

/-! ## every merge tree -/

/-- **Every merge tree, general constant.** Let `w = (2u+u²)(1+u)`. For every order `N`, every
per-observation budget `B ≥ 2M(2w+u)` (the add-only constant), `u ≤ 1/16`, and every merge tree `t` over
`n` observations with `|x| ≤ M`, `w + n u ≤ 1/2` and `8u(M + B n) ≤ B`: the count is exact and
`|avg - mean| ≤ B n`. Any shape, any chunk sizes, empty chunks included. -/
theorem moments_mean_mtree_error_gen (r : Rnd2 K) [Neg (RF2 r)] (N : Nat) (M B : K) (hM : 0 ≤ M)
    (hu : r.u ≤ 1/16)
    (hB : 2 * M * (2 * ((2*r.u + r.u^2) * (1 + r.u)) + r.u) ≤ B) :
    ∀ t : MTree (RF2 r), (∀ x ∈ t.flatten, |x.val| ≤ M) →
      (2*r.u + r.u^2) * (1 + r.u) + (t.flatten.length : K) * r.u ≤ 1/2 →
      8 * r.u * (M + B * (t.flatten.length : K)) ≤ B →
      (Moments.evalTree N t).n = t.flatten.length ∧
      |(Moments.evalTree N t).avg.val - meanK (t.flatten.map RF2.val)|
        ≤ B * (t.flatten.length : K) := by
  have hu0 := r.u_nonneg
  have hB0 : 0 ≤ B := le_trans (by positivity) hB
  intro t
  induction t with
  | leaf xs =>
    intro hb hs1 _
    rw [MTree.flatten_leaf] at *
    show (xs.foldl (Moments.add N) (Moments.new N)).n = _ ∧ _
    obtain ⟨h1, h2⟩ := moments_mean_fold_error r N M hM xs hb hs1
    refine ⟨h1, le_trans h2 ?_⟩
    gcongr
  | node l rt ihl ihr =>
    intro hb hs1 hs2
    rw [MTree.flatten_node] at *
    rw [List.length_append, Nat.cast_add] at hs1 hs2
    have hl0 : (0:K) ≤ (l.flatten.length : K) := Nat.cast_nonneg _
    have hr0 : (0:K) ≤ (rt.flatten.length : K) := Nat.cast_nonneg _
    obtain ⟨hln, hle⟩ := ihl (fun x hx => hb x (List.mem_append_left _ hx))
      (by nlinarith) (by nlinarith [mul_nonneg hu0 (mul_nonneg hB0 hr0)])
    obtain ⟨hrn, hre⟩ := ihr (fun x hx => hb x (List.mem_append_right _ hx))
      (by nlinarith) (by nlinarith [mul_nonneg hu0 (mul_nonneg hB0 hl0)])
    rw [List.map_append]
    have key := moments_mean_merge_error r N M B hM hB0 hu
      (Moments.evalTree N l) (Moments.evalTree N rt)
      (l.flatten.map RF2.val) (rt.flatten.map RF2.val)
      (by intro x hx; rw [List.mem_map] at hx; obtain ⟨z, hz, rfl⟩ := hx
          exact hb z (List.mem_append_left _ hz))
      (by intro x hx; rw [List.mem_map] at hx; obtain ⟨z, hz, rfl⟩ := hx
          exact hb z (List.mem_append_right _ hz))
      (by rw [List.length_map]; exact hln) (by rw [List.length_map]; exact hrn)
      (by rw [List.length_map]; exact hle) (by rw [List.length_map]; exact hre)
      (by rw [List.length_append, List.length_map, List.length_map, Nat.cast_add]; exact hs2)
    rw [List.length_append, List.length_map, List.length_map] at key
    rw [List.length_append]
    exact key

/-- **Every merge tree, explicit constant 11.** For every order `N` and every merge tree `t` (any
shape, any chunk sizes, empty chunks included) over `n` observations with `|x| ≤ M`, in the standard
model of rounding with unit roundoff `u`, if `n u ≤ 1/64` then the count is exact and
`|avg - mean| ≤ 11 u M n`. -/
theorem moments_mean_mtree_error (r : Rnd2 K) [Neg (RF2 r)] (N : Nat) (M : K) (hM : 0 ≤ M)
    (t : MTree (RF2 r))
    (hb : ∀ x ∈ t.flatten, |x.val| ≤ M) (hsmall : (t.flatten.length : K) * r.u ≤ 1/64) :
    (Moments.evalTree N t).n = t.flatten.length ∧
    |(Moments.evalTree N t).avg.val - meanK (t.flatten.map RF2.val)|
      ≤ 11 * r.u * M * (t.flatten.length : K) := by
  have hu0 := r.u_nonneg
  by_cases he : t.flatten = []
  · rw [Moments.mtree_eval_empty N t he, he]
    simp [Moments.new, meanK]
    exact (Nat.cast_zero : ((0:Nat):K) = 0)
  have hn1 : (1:K) ≤ (t.flatten.length : K) := by
    exact_mod_cast List.length_pos_of_ne_nil he
  have hu : r.u ≤ 1/64 := by nlinarith
  have hu2 : r.u^2 ≤ r.u / 64 := by nlinarith
  have hu3 : r.u^3 ≤ r.u / 4096 := by nlinarith
  have huM : 0 ≤ r.u * M := mul_nonneg hu0 hM
  refine moments_mean_mtree_error_gen r N M (11 * r.u * M) hM (by linarith) ?_ t hb ?_ ?_
  · have : 2 * (2 * ((2*r.u + r.u^2) * (1 + r.u)) + r.u) ≤ 11 * r.u := by nlinarith
    calc 2 * M * (2 * ((2*r.u + r.u^2) * (1 + r.u)) + r.u)
        = M * (2 * (2 * ((2*r.u + r.u^2) * (1 + r.u)) + r.u)) := by ring
      _ ≤ M * (11 * r.u) := by gcongr
      _ = 11 * r.u * M := by ring
  · nlinarith
  · have h1 : 8 * r.u * (M + 11 * r.u * M * (t.flatten.length : K))
        = 8 * (r.u * M) + 88 * ((r.u * M) * ((t.flatten.length : K) * r.u)) := by ring
    have h2 : (r.u * M) * ((t.flatten.length : K) * r.u) ≤ (r.u * M) * (1/64) := by gcongr
    rw [h1]; linarith

#print axioms Avg.Moments.fold_meanState
#print axioms moments_mean_fold_error
#print axioms moments_merge_round_error
#print axioms moments_mean_merge_error
#print axioms moments_mean_mtree_error_gen
#print axioms moments_mean_mtree_error
