import AvgProofs.KurtErrHardy4
import AvgProofs.KurtErrHardy2
import AvgProofs.KurtErrEnv

/-!
# The scales `V4p`, `VD4` of the rounding errors of `sum_4` against `Q = Σ(x_i - mean)⁴`

With Hardy's and Copson's inequalities for the exponent 4 (`AvgProofs/KurtErrHardy4.lean`), Hardy's
inequality for the exponent 2 and the power-mean inequality, for every stream (no hypothesis on the data):

* `VA4_le_Q`: `VA4 ≤ (2696/81)·Q`,  * `VB4_le_Q`: `VB4 ≤ (1510/27)·Q`,
* `VC4_le_Q`: `VC4 ≤ (32452/81)·Q`,  * `VD4_le_Q`: `VD4 ≤ (1298080/81)·Q`,
* `V4p_VD4_le_Q`: `V4p + VD4 ≤ 16516·Q`,
* `kurt_envelope_rel`: `|sum_4 - Q| ≤ N·u·Q·(132128 + (1200 + 5538·N/n)·(M/σ))` for `σ > 0`, `n·σ² = T`,
  `N·u·M ≤ σ`: a bound of the *relative* error of `sum_4`, linear in the conditioning `M/σ`.

The constants are those of the inequalities used (the factor 40 of `V3p ≤ 40·V3`, the factor 8 between
the third absolute moment of a prefix about its own mean and about the mean of the stream, Copson's
`4⁴`), not sharp; for typical data `V4p + VD4` is a small multiple of `Q`.
-/
open Avg MSpec Finset VarSpec SkewSpec KurtSpec SkewErr

namespace KurtErr
variable {K : Type} [Field K] [LinearOrder K] [IsStrictOrderedRing K]

/-- `|x_k - mean| + (mean of |x_i - mean|, i < k)`: the bound of `|d_k|` -/
def bb (vs : List K) (k : ℕ) : K := adev vs k + amean (adev vs) k

theorem bb_nonneg (vs : List K) (k : ℕ) : 0 ≤ bb vs k :=
  add_nonneg (adev_nonneg vs k) (amean_nonneg (adev_nonneg vs) k)

/-- a sum over `1 ≤ k < n` is at most the sum of the shifted sequence over `i < n` -/
theorem sum_pos_le_shift (f : ℕ → K) (hf : ∀ k, 0 ≤ f k) (n : ℕ) :
    ∑ k ∈ range n, (if k = 0 then 0 else f k) ≤ ∑ i ∈ range n, f (i + 1) := by
  rcases Nat.eq_zero_or_pos n with h | h
  · rw [h]; simp
  · obtain ⟨n', hn'⟩ : ∃ n', n = n' + 1 := ⟨n - 1, by omega⟩
    rw [hn', sum_range_succ' (fun k => if k = 0 then 0 else f k) n',
      sum_range_succ (fun i => f (i + 1)) n']
    simp only [Nat.add_eq_zero_iff, one_ne_zero, and_false, if_false, if_true, add_zero]
    linarith [hf (n' + 1)]

/-- `Σ_{i<n} a_{i+1}⁴ ≤ Q` -/
theorem sum_adev4_shift_le (vs : List K) :
    ∑ i ∈ range vs.length, (adev vs (i + 1))^4 ≤ Q vs := by
  rw [Q_eq_sum_adev]
  have h := sum_range_succ' (fun i => (adev vs i)^4) vs.length
  rw [sum_range_succ, adev_beyond vs (le_refl _)] at h
  have h0 : 0 ≤ (adev vs 0)^4 := pow_nonneg (adev_nonneg vs 0) 4
  simp only [ne_eq, OfNat.ofNat_ne_zero, not_false_eq_true, zero_pow, add_zero] at h
  linarith

/-- `Σ_{m<n} α_{m+1}⁴ ≤ (256/81)·Q` (Hardy) -/
theorem sum_amean4_le (vs : List K) :
    ∑ m ∈ range vs.length, (amean (adev vs) (m + 1))^4 ≤ 256/81 * Q vs := by
  rw [Q_eq_sum_adev]; exact hardy4 (adev_nonneg vs) vs.length

/-- `Σ_{i<n} (a_{i+1} + α_{i+1})⁴ ≤ (2696/81)·Q` -/
theorem sum_bb4_le (vs : List K) :
    ∑ i ∈ range vs.length, (bb vs (i + 1))^4 ≤ 2696/81 * Q vs := by
  have h : ∑ i ∈ range vs.length, (bb vs (i + 1))^4
      ≤ ∑ i ∈ range vs.length,
          (8 * (adev vs (i + 1))^4 + 8 * (amean (adev vs) (i + 1))^4) := by
    apply sum_le_sum
    intro i _
    have := add_pow4_le (adev vs (i + 1)) (amean (adev vs) (i + 1))
    unfold bb
    linarith
  rw [sum_add_distrib, ← mul_sum, ← mul_sum] at h
  have h1 := sum_adev4_shift_le vs
  have h2 := sum_amean4_le vs
  linarith

/-- **`VA4 ≤ (2696/81)·Q`** -/
theorem VA4_le_Q (vs : List K) : VA4 vs ≤ 2696/81 * Q vs := by
  have hterm : ∀ k ∈ range vs.length, incA4 k (dev vs k)
      ≤ (if k = 0 then 0 else (bb vs k)^4) := by
    intro k hk
    have hk' := mem_range.mp hk
    unfold incA4
    split_ifs with h0
    · subst h0; simp [cQ]
    · have hk1 : 1 ≤ k := Nat.one_le_iff_ne_zero.mpr h0
      have hd := abs_dev_le_adev vs k hk1 hk'
      have hc0 := cQ_nonneg (K := K) k
      have hc1 := cQ_le_one (K := K) k
      have e : (dev vs k)^4 = |dev vs k|^4 := by
        rw [← abs_pow, abs_of_nonneg (by positivity : 0 ≤ (dev vs k)^4)]
      rw [e]
      calc |dev vs k|^4 * cQ k ≤ (bb vs k)^4 * 1 := by
            unfold bb; gcongr
        _ = (bb vs k)^4 := mul_one _
  unfold VA4
  refine le_trans (sum_le_sum hterm) ?_
  exact le_trans (sum_pos_le_shift (fun k => (bb vs k)^4) (fun k => pow_nonneg (bb_nonneg vs k) 4) _)
    (sum_bb4_le vs)

/-- squares of the absolute deviations -/
def asq (vs : List K) (i : ℕ) : K := (adev vs i)^2

theorem asq_nonneg (vs : List K) (i : ℕ) : 0 ≤ asq vs i := sq_nonneg _

/-- `Σ_{m<n} (running mean of a², m+1 terms)² ≤ 4·Q` (Hardy, exponent 2) -/
theorem sum_ameansq_le (vs : List K) :
    ∑ m ∈ range vs.length, (amean (asq vs) (m + 1))^2 ≤ 4 * Q vs := by
  have h := hardy2 (asq_nonneg vs) vs.length
  rw [Q_eq_sum_adev]
  refine le_trans h (le_of_eq ?_)
  congr 1
  apply sum_congr rfl
  intro i _
  unfold asq; ring

/-- **`VB4 ≤ (1510/27)·Q`** -/
theorem VB4_le_Q (vs : List K) : VB4 vs ≤ 1510/27 * Q vs := by
  have hterm : ∀ k ∈ range vs.length, incB4 k (dev vs k) (T (vs.take k))
      ≤ (if k = 0 then 0 else 3/2 * ((bb vs k)^4 + (amean (asq vs) k)^2)) := by
    intro k hk
    have hk' := mem_range.mp hk
    unfold incB4
    split_ifs with h0
    · subst h0; simp [T_nil]
    · have hk1 : 1 ≤ k := Nat.one_le_iff_ne_zero.mpr h0
      have hkK : (1 : K) ≤ k := by exact_mod_cast hk1
      have hkpos : (0 : K) < k := by linarith
      have hd := abs_dev_le_adev vs k hk1 hk'
      have hT := T_take_le_sum vs k (le_of_lt hk')
      have hT0 := T_nonneg (vs.take k)
      have hb0 := bb_nonneg vs k
      have hβ0 := amean_nonneg (asq_nonneg vs) k
      have hsq : (dev vs k)^2 ≤ (bb vs k)^2 := by
        rw [← sq_abs]; unfold bb; gcongr
      -- T_k/(k+1)² ≤ β_k/2
      have hβ : T (vs.take k) / ((k : K) + 1)^2 ≤ amean (asq vs) k / 2 := by
        have e : amean (asq vs) k = (∑ i ∈ range k, (adev vs i)^2) / (k : K) := rfl
        rw [e, div_div, div_le_div_iff₀ (by positivity) (by positivity)]
        have h2 : (k : K) * 2 ≤ ((k : K) + 1)^2 := by nlinarith [sq_nonneg ((k : K) - 1)]
        have hS0 : 0 ≤ ∑ i ∈ range k, (adev vs i)^2 := sum_nonneg (fun i _ => sq_nonneg _)
        exact mul_le_mul hT h2 (by positivity) hS0
      calc 6 * (dev vs k)^2 * T (vs.take k) / ((k : K) + 1)^2
          = 6 * (dev vs k)^2 * (T (vs.take k) / ((k : K) + 1)^2) := by ring
        _ ≤ 6 * (bb vs k)^2 * (amean (asq vs) k / 2) := by gcongr
        _ ≤ 3/2 * ((bb vs k)^4 + (amean (asq vs) k)^2) := by
            nlinarith [sq_nonneg ((bb vs k)^2 - amean (asq vs) k)]
  unfold VB4
  refine le_trans (sum_le_sum hterm) ?_
  have hsh := sum_pos_le_shift (fun k => 3/2 * ((bb vs k)^4 + (amean (asq vs) k)^2))
    (fun k => by
      have := pow_nonneg (bb_nonneg vs k) 4
      positivity) vs.length
  refine le_trans hsh ?_
  rw [← mul_sum, sum_add_distrib]
  have h1 := sum_bb4_le vs
  have h2 := sum_ameansq_le vs
  linarith

/-- `Σ_{i<k} |x_i - mean|³` -/
def S3 (vs : List K) (k : ℕ) : K := ∑ i ∈ range k, (adev vs i)^3

theorem S3_nonneg (vs : List K) (k : ℕ) : 0 ≤ S3 vs k :=
  sum_nonneg (fun i _ => pow_nonneg (adev_nonneg vs i) 3)

/-- the third absolute moment of a prefix about its own mean is at most 8 times that about the mean of
the stream -/
theorem sum_abs_cube_take_le (vs : List K) (k : ℕ) (hk1 : 1 ≤ k) (hk : k ≤ vs.length) :
    ∑ i ∈ range k, |vs.getD i (mean vs) - mean (vs.take k)|^3 ≤ 8 * S3 vs k := by
  have hkpos : (0 : K) < k := by exact_mod_cast hk1
  have hm := abs_mean_take_sub_le vs k hk1 hk
  have hα0 := amean_nonneg (adev_nonneg vs) k
  have hterm : ∀ i ∈ range k, |vs.getD i (mean vs) - mean (vs.take k)|^3
      ≤ 4 * (adev vs i)^3 + 4 * (amean (adev vs) k)^3 := by
    intro i _
    have ha := adev_nonneg vs i
    have e : vs.getD i (mean vs) - mean (vs.take k)
        = (vs.getD i (mean vs) - mean vs) - (mean (vs.take k) - mean vs) := by ring
    have h1 : |vs.getD i (mean vs) - mean (vs.take k)| ≤ adev vs i + amean (adev vs) k := by
      rw [e]
      exact le_trans (abs_sub _ _) (add_le_add (le_refl _) hm)
    calc |vs.getD i (mean vs) - mean (vs.take k)|^3 ≤ (adev vs i + amean (adev vs) k)^3 := by
          gcongr
      _ ≤ 4 * ((adev vs i)^3 + (amean (adev vs) k)^3) := add_cube_le _ _ ha hα0
      _ = 4 * (adev vs i)^3 + 4 * (amean (adev vs) k)^3 := by ring
  refine le_trans (sum_le_sum hterm) ?_
  rw [sum_add_distrib, ← mul_sum, sum_const, card_range, nsmul_eq_mul]
  -- k·α_k³ ≤ S3_k
  have hpm := psum_cube_le (adev_nonneg vs) k
  have hkα : (k : K) * (amean (adev vs) k)^3 ≤ S3 vs k := by
    unfold amean
    rw [div_pow]
    have e : (k : K) * ((psum (adev vs) k)^3 / (k : K)^3) = (psum (adev vs) k)^3 / (k : K)^2 := by
      field_simp
    rw [e, div_le_iff₀ (by positivity)]
    calc (psum (adev vs) k)^3 ≤ (k : K)^2 * ∑ i ∈ range k, (adev vs i)^3 := hpm
      _ = S3 vs k * (k : K)^2 := by unfold S3; ring
  unfold S3 at hkα ⊢
  linarith

/-- `V3` of a prefix (about its own mean) is at most `8·Σ_{i<k}|x_i - mean|³` -/
theorem V3_take_le (vs : List K) (k : ℕ) (hk1 : 1 ≤ k) (hk : k ≤ vs.length) :
    V3 (vs.take k) ≤ 8 * S3 vs k := by
  have h := sum_take_eq vs (mean vs) (fun x => |x - mean (vs.take k)|^3) k hk
  unfold V3
  rw [h]
  exact sum_abs_cube_take_le vs k hk1 hk

/-- `|U|` of a prefix is at most `8·Σ_{i<k}|x_i - mean|³` -/
theorem absU_take_le (vs : List K) (k : ℕ) (hk1 : 1 ≤ k) (hk : k ≤ vs.length) :
    |U (vs.take k)| ≤ 8 * S3 vs k := by
  have h := sum_take_eq vs (mean vs) (fun x => (x - mean (vs.take k))^3) k hk
  unfold U sumPow
  rw [h]
  refine le_trans (abs_sum_le_sum_abs _ _) ?_
  refine le_trans (le_of_eq ?_) (sum_abs_cube_take_le vs k hk1 hk)
  apply sum_congr rfl
  intro i _
  rw [abs_pow]

/-- the double sum of the bounds of `VC4` and `VD4`, after exchanging the order of summation and applying
Copson's inequality: `Σ_{k<n} (b_k/k)·Σ_{i<k} a_i³ ≤ (8113/648)·Q` -/
theorem tail_core (vs : List K) :
    ∑ k ∈ range vs.length, bb vs k / (k : K) * S3 vs k ≤ 8113/648 * Q vs := by
  have hb0 : ∀ k, 0 ≤ bb vs k := bb_nonneg vs
  have ha0 : ∀ i, 0 ≤ adev vs i := adev_nonneg vs
  have e : ∑ k ∈ range vs.length, bb vs k / (k : K) * S3 vs k
      = ∑ i ∈ range vs.length, (adev vs i)^3 * tail (bb vs) vs.length i :=
    sum_tail_swap (bb vs) (fun i => (adev vs i)^3) vs.length
  rw [e]
  have h1 : ∑ i ∈ range vs.length, (adev vs i)^3 * tail (bb vs) vs.length i
      ≤ ∑ i ∈ range vs.length, (12 * (adev vs i)^4 + 1/16384 * (tail (bb vs) vs.length i)^4) :=
    sum_le_sum (fun i _ => young4_tail _ _)
  rw [sum_add_distrib, ← mul_sum, ← mul_sum, ← Q_eq_sum_adev] at h1
  have c := copson4 hb0 vs.length
  have s := sum_bb4_le vs
  linarith

/-- **`VC4 ≤ (32452/81)·Q`** -/
theorem VC4_le_Q (vs : List K) : VC4 vs ≤ 32452/81 * Q vs := by
  have hterm : ∀ k ∈ range vs.length, incC4 k (dev vs k) (U (vs.take k))
      ≤ 32 * (bb vs k / (k : K) * S3 vs k) := by
    intro k hk
    have hk' := mem_range.mp hk
    unfold incC4
    rcases Nat.eq_zero_or_pos k with h0 | h0
    · subst h0; simp [U_nil]
    · have hkpos : (0 : K) < k := by exact_mod_cast h0
      have hd := abs_dev_le_adev vs k h0 hk'
      have hU := absU_take_le vs k h0 (le_of_lt hk')
      have hS := S3_nonneg vs k
      have hb := bb_nonneg vs k
      calc 4 * |dev vs k| * |U (vs.take k)| / ((k : K) + 1)
          ≤ 4 * bb vs k * (8 * S3 vs k) / (k : K) := by
            unfold bb at hb ⊢
            gcongr
            linarith
        _ = 32 * (bb vs k / (k : K) * S3 vs k) := by ring
  unfold VC4
  refine le_trans (sum_le_sum hterm) ?_
  rw [← mul_sum]
  have := tail_core vs
  linarith

/-- **`VD4 ≤ (1298080/81)·Q`** -/
theorem VD4_le_Q (vs : List K) : VD4 vs ≤ 1298080/81 * Q vs := by
  have hterm : ∀ k ∈ range vs.length, incD4 k (dev vs k) (V3p (vs.take k))
      ≤ 1280 * (bb vs k / (k : K) * S3 vs k) := by
    intro k hk
    have hk' := mem_range.mp hk
    unfold incD4
    rcases Nat.eq_zero_or_pos k with h0 | h0
    · subst h0; simp [V3p, VA, VB]
    · have hkpos : (0 : K) < k := by exact_mod_cast h0
      have hd := abs_dev_le_adev vs k h0 hk'
      have hV : V3p (vs.take k) ≤ 40 * (8 * S3 vs k) :=
        le_trans (V3p_le_V3 (vs.take k))
          (mul_le_mul_of_nonneg_left (V3_take_le vs k h0 (le_of_lt hk')) (by norm_num))
      have hV0 := V3p_nonneg (vs.take k)
      have hS := S3_nonneg vs k
      have hb := bb_nonneg vs k
      calc 4 * |dev vs k| * V3p (vs.take k) / ((k : K) + 1)
          ≤ 4 * bb vs k * (40 * (8 * S3 vs k)) / (k : K) := by
            unfold bb at hb ⊢
            gcongr
            linarith
        _ = 1280 * (bb vs k / (k : K) * S3 vs k) := by ring
  unfold VD4
  refine le_trans (sum_le_sum hterm) ?_
  rw [← mul_sum]
  have := tail_core vs
  linarith

/-- **`V4p + VD4 ≤ 16516·Q`**: the scales of the rounding errors of `sum_4` are at most a constant times
`Σ(x - mean)⁴`, for every stream. -/
theorem V4p_VD4_le_Q (vs : List K) : V4p vs + VD4 vs ≤ 16516 * Q vs := by
  unfold V4p
  have h1 := VA4_le_Q vs
  have h2 := VB4_le_Q vs
  have h3 := VC4_le_Q vs
  have h4 := VD4_le_Q vs
  have hQ := Q_nonneg vs
  linarith

/-- **Relative forward error of `sum_4`.** `n ≥ 1`, `σ > 0` with `n·σ² = T` (the population standard
deviation), `N·u·M ≤ σ` (`N = n + 10`):
`|sum_4 - Q| ≤ N·u·Q·(132128 + (1200 + 5538·N/n)·(M/σ))`. -/
theorem kurt_envelope_rel (r : Rnd2 K) (M : K) (hM : 0 ≤ M) (xs : List (RF2 r)) (hne : xs ≠ [])
    (hb : ∀ x ∈ xs, |x.val| ≤ M) (hsmall : ((xs.length : K) + 28) * r.u ≤ 1/64)
    (σ : K) (hσ : 0 < σ) (hvar : (xs.length : K) * σ^2 = T (xs.map RF2.val))
    (hcond : ((xs.length : K) + 10) * r.u * M ≤ σ) :
    |(xs.foldl Kurtosis.add Kurtosis.new).sum_4.val - Q (xs.map RF2.val)|
      ≤ ((xs.length : K) + 10) * r.u * Q (xs.map RF2.val)
          * (132128 + (1200 + 5538 * (((xs.length : K) + 10) / (xs.length : K))) * (M / σ)) := by
  have hu := r.u_nonneg
  have hn0 : (0 : K) ≤ xs.length := Nat.cast_nonneg _
  have h := kurt_envelope_Q r M hM xs hne hb hsmall σ hσ hvar hcond
  have hv := V4p_VD4_le_Q (xs.map RF2.val)
  have hc : 0 ≤ ((xs.length : K) + 10) * r.u := by positivity
  refine le_trans h ?_
  have h1 : 8 * (V4p (xs.map RF2.val) + VD4 (xs.map RF2.val)) ≤ 8 * (16516 * Q (xs.map RF2.val)) := by
    gcongr
  calc ((xs.length : K) + 10) * r.u
        * (8 * (V4p (xs.map RF2.val) + VD4 (xs.map RF2.val))
          + (1200 + 5538 * (((xs.length : K) + 10) / (xs.length : K))) * (M / σ)
              * Q (xs.map RF2.val))
      ≤ ((xs.length : K) + 10) * r.u
        * (8 * (16516 * Q (xs.map RF2.val))
          + (1200 + 5538 * (((xs.length : K) + 10) / (xs.length : K))) * (M / σ)
              * Q (xs.map RF2.val)) := by gcongr
    _ = ((xs.length : K) + 10) * r.u * Q (xs.map RF2.val)
          * (132128 + (1200 + 5538 * (((xs.length : K) + 10) / (xs.length : K))) * (M / σ)) := by
        ring

end KurtErr

#print axioms KurtErr.VA4_le_Q
#print axioms KurtErr.VB4_le_Q
#print axioms KurtErr.VC4_le_Q
#print axioms KurtErr.VD4_le_Q
#print axioms KurtErr.V4p_VD4_le_Q
#print axioms KurtErr.kurt_envelope_rel
