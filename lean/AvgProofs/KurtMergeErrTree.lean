import AvgProofs.KurtMergeErrState
import AvgProofs.KurtMergeErrLeaf

/-!
# Forward error of `sum_4` through every merge tree: the square-root-free invariant

Carrier `RF2 r` (standard model of rounding). `KurtMerge.kurt_mtree_inv`: for every merge tree `t` (any shape,
any chunk sizes, empty and one-element chunks included; leaves folded with `Kurtosis.add`, nodes merged with
`Kurtosis.merge`) over `n` observations with `|x| ≤ M`, `u ≤ 1/1856`, `n·u ≤ 1/64`, `B` a per-observation budget
of the mean kept by every merge tree, and any `Λ, κ ≥ 0` with `B² ≤ Λ·κ`:

`|sum_4 - Q| ≤ (1+u)^(4n)·G4(n, V4T t, V3S t, T)`,
`G4(n,V4,V3,T) = 30·u·n·V4 + 14·B·n·V3 + 27·B²·n²·T + (25/2)·B²·Λ·n³·T + (25/2)·B²·κ·n⁴ + 6·B⁴·n⁵`.
-/
open Avg MSpec Finset VarSpec SkewSpec KurtSpec SkewErr SkewMerge

namespace Avg
variable {α : Type} [Add α] [Sub α] [Mul α] [Div α] [NatCast α]

/-- A merge tree without data (all chunks empty) evaluates to the empty `Kurtosis`, any carrier. -/
theorem Kurtosis.mtree_eval_empty (t : MTree α) (h : t.flatten = []) :
    Kurtosis.evalTree t = Kurtosis.new := by
  induction t with
  | leaf xs => rw [MTree.flatten_leaf] at h; subst h; rfl
  | node l r ihl ihr =>
    rw [MTree.flatten_node, List.append_eq_nil_iff] at h
    show Kurtosis.merge (Kurtosis.evalTree l) (Kurtosis.evalTree r) = _
    rw [ihl h.1, ihr h.2]
    exact Kurtosis.merge_empty _ _ rfl
end Avg

namespace KurtMerge
variable {K : Type} [Field K] [LinearOrder K] [IsStrictOrderedRing K]

/-- the new errors of one merge (as in `sum4_merge_error`, with the budgets `B·n_x`, `B·n_y` of the two means)
are at most `stepX4`, the form of `superadd4` -/
theorem stepX_le (gA gB gC B nx ny δ w Tx Ty Ux Uy Vx Vy D2x D2y D3x D3y : K) (_hgA : 0 ≤ gA)
    (hgB : 0 ≤ gB) (hgC : 0 ≤ gC) (hB : 0 ≤ B) (hnx : 0 < nx) (hny : 0 < ny) (_hw : 0 ≤ w)
    (hTx : 0 ≤ Tx) (hTy : 0 ≤ Ty) (hUx : |Ux| ≤ Vx) (hUy : |Uy| ≤ Vy) :
    gA * (δ^4 * w) + gB * (6 * (δ / (nx + ny))^2 * (nx * nx * Ty + ny * ny * Tx))
        + gC * (4 * (|δ| / (nx + ny)) * (nx * |Uy| + ny * |Ux|))
        + (1 + gA) * (w * (4 * |δ|^3 * (B * nx + B * ny) + 6 * δ^2 * (B * nx + B * ny)^2
            + 4 * |δ| * (B * nx + B * ny)^3 + (B * nx + B * ny)^4))
        + (1 + gB) * (6 / (nx + ny)^2
            * ((2 * |δ| * (B * nx + B * ny) + (B * nx + B * ny)^2) * (nx * nx * Ty + ny * ny * Tx)
                + (|δ| + (B * nx + B * ny))^2 * (nx * nx * D2y + ny * ny * D2x)))
        + (1 + gC) * (4 / (nx + ny)
            * ((B * nx + B * ny) * (nx * |Uy| + ny * |Ux|)
                + (|δ| + (B * nx + B * ny)) * (nx * D3y + ny * D3x)))
      ≤ stepX4 gA gB gC B nx ny |δ| w (6 * (δ / (nx + ny))^2 * (nx * nx * Ty + ny * ny * Tx))
          (4 * (|δ| / (nx + ny)) * (nx * Vy + ny * Vx)) (nx * Ty + ny * Tx)
          (nx * nx * Ty + ny * ny * Tx) (nx * Vy + ny * Vx)
          (6 / (nx + ny)^2 * ((|δ| + B * (nx + ny))^2 * (nx * nx * D2y + ny * ny * D2x)))
          (4 / (nx + ny) * ((|δ| + B * (nx + ny)) * (nx * D3y + ny * D3x))) := by
  have hn : 0 < nx + ny := by positivity
  have hd0 : 0 ≤ |δ| := abs_nonneg δ
  have hε : B * nx + B * ny = B * (nx + ny) := by ring
  have hsq : δ^2 = |δ|^2 := (sq_abs δ).symm
  have hq4 : δ^4 = |δ|^4 := by
    have : δ^4 = (δ^2)^2 := by ring
    rw [this, hsq]; ring
  rw [hε]
  unfold stepX4
  have tA : gA * (δ^4 * w) = gA * (|δ|^4 * w) := by rw [hq4]
  have tC : gC * (4 * (|δ| / (nx + ny)) * (nx * |Uy| + ny * |Ux|))
      ≤ gC * (4 * (|δ| / (nx + ny)) * (nx * Vy + ny * Vx)) := by gcongr
  have tAs : w * (4 * |δ|^3 * (B * (nx + ny)) + 6 * δ^2 * (B * (nx + ny))^2
        + 4 * |δ| * (B * (nx + ny))^3 + (B * (nx + ny))^4)
      = w * (4 * |δ|^3 * (B * (nx + ny)) + 6 * |δ|^2 * (B * (nx + ny))^2
        + 4 * |δ| * (B * (nx + ny))^3 + (B * (nx + ny))^4) := by rw [hsq]
  have hK : (nx * nx * Ty + ny * ny * Tx) / (nx + ny) ≤ nx * Ty + ny * Tx := by
    rw [div_le_iff₀ hn]
    have h1 : 0 ≤ nx * ny * Ty := by positivity
    have h2 : 0 ≤ nx * ny * Tx := by positivity
    have e : (nx * Ty + ny * Tx) * (nx + ny) - (nx * nx * Ty + ny * ny * Tx)
        = nx * ny * Ty + nx * ny * Tx := by ring
    linarith
  have tB : 6 / (nx + ny)^2
        * ((2 * |δ| * (B * (nx + ny)) + (B * (nx + ny))^2) * (nx * nx * Ty + ny * ny * Tx)
            + (|δ| + B * (nx + ny))^2 * (nx * nx * D2y + ny * ny * D2x))
      ≤ 12 * (B * (|δ| * (nx * Ty + ny * Tx))) + 6 * (B^2 * (nx * nx * Ty + ny * ny * Tx))
        + 6 / (nx + ny)^2 * ((|δ| + B * (nx + ny))^2 * (nx * nx * D2y + ny * ny * D2x)) := by
    have e : 6 / (nx + ny)^2
          * ((2 * |δ| * (B * (nx + ny)) + (B * (nx + ny))^2) * (nx * nx * Ty + ny * ny * Tx)
              + (|δ| + B * (nx + ny))^2 * (nx * nx * D2y + ny * ny * D2x))
        = 12 * (B * (|δ| * ((nx * nx * Ty + ny * ny * Tx) / (nx + ny))))
          + 6 * (B^2 * (nx * nx * Ty + ny * ny * Tx))
          + 6 / (nx + ny)^2 * ((|δ| + B * (nx + ny))^2 * (nx * nx * D2y + ny * ny * D2x)) := by
      field_simp
      ring
    rw [e]
    have : B * (|δ| * ((nx * nx * Ty + ny * ny * Tx) / (nx + ny))) ≤ B * (|δ| * (nx * Ty + ny * Tx)) := by
      gcongr
    linarith
  have tCs : 4 / (nx + ny) * (B * (nx + ny) * (nx * |Uy| + ny * |Ux|)
        + (|δ| + B * (nx + ny)) * (nx * D3y + ny * D3x))
      ≤ 4 * (B * (nx * Vy + ny * Vx))
        + 4 / (nx + ny) * ((|δ| + B * (nx + ny)) * (nx * D3y + ny * D3x)) := by
    have e : 4 / (nx + ny) * (B * (nx + ny) * (nx * |Uy| + ny * |Ux|)
          + (|δ| + B * (nx + ny)) * (nx * D3y + ny * D3x))
        = 4 * (B * (nx * |Uy| + ny * |Ux|))
          + 4 / (nx + ny) * ((|δ| + B * (nx + ny)) * (nx * D3y + ny * D3x)) := by
      field_simp
    rw [e]
    have : B * (nx * |Uy| + ny * |Ux|) ≤ B * (nx * Vy + ny * Vx) := by gcongr
    linarith
  rw [tA, tAs]
  have hB' := mul_le_mul_of_nonneg_left tB (by linarith : 0 ≤ 1 + gB)
  have hC' := mul_le_mul_of_nonneg_left tCs (by linarith : 0 ≤ 1 + gC)
  linarith

/-- the sum of squares kept inside `Kurtosis` through a merge tree, in the form needed by `z2_bound` -/
theorem tree_D2k (r : Rnd2 K) (M B : K) (hM : 0 ≤ M) (hu64 : r.u ≤ 1/64)
    (hB : 2 * M * (2 * ((2*r.u + r.u^2) * (1 + r.u)) + r.u) ≤ B) (t : MTree (RF2 r))
    (hb : ∀ x ∈ t.flatten, |x.val| ≤ M) (hnu : (t.flatten.length : K) * r.u ≤ 1/64)
    (hs1 : (2*r.u + r.u^2) * (1 + r.u) + (t.flatten.length : K) * r.u ≤ 1/2)
    (hs2 : 5 * r.u * (M + B * (t.flatten.length : K)) ≤ B) :
    ∀ Λ κ : K, 0 ≤ Λ → 0 ≤ κ → B^2 ≤ Λ * κ →
      |(Kurtosis.evalTree t).avg.avg.sum_2.val - T (t.flatten.map RF2.val)|
        ≤ 32/31 * VarMerge.G r.u B Λ κ (t.flatten.length : K) (T (t.flatten.map RF2.val)) := by
  rw [Kurtosis.mtree_avg]
  exact tree_D2 r M B hM hu64 hB t hb hnu hs1 hs2

/-- the third-order sum kept inside `Kurtosis` through a merge tree, in the form needed by `z3_bound` -/
theorem tree_D3k (r : Rnd2 K) (M B : K) (hM : 0 ≤ M) (hu' : r.u ≤ 1/1856)
    (hB : 2 * M * (2 * ((2*r.u + r.u^2) * (1 + r.u)) + r.u) ≤ B) (t : MTree (RF2 r))
    (hb : ∀ x ∈ t.flatten, |x.val| ≤ M) (hnu : (t.flatten.length : K) * r.u ≤ 1/64)
    (hs2 : 5 * r.u * (M + B * (t.flatten.length : K)) ≤ B) :
    ∀ Λ κ : K, 0 ≤ Λ → 0 ≤ κ → B^2 ≤ Λ * κ →
      |(Kurtosis.evalTree t).avg.sum_3.val - U (t.flatten.map RF2.val)|
        ≤ 64/61 * G3 r.u B Λ κ (t.flatten.length : K) (V3S (t.map RF2.val)) (T (t.flatten.map RF2.val)) := by
  intro Λ κ hΛ hκ hΛκ
  have hu := r.u_nonneg
  have hB0 : 0 ≤ B := le_trans (by positivity) hB
  rw [Kurtosis.mtree_avg]
  have h := skew_mtree_inv r M B Λ κ hM hu' hB hΛ hκ hΛκ t hb hnu hs2
  refine le_trans h ?_
  have hG := G3_nonneg r.u B Λ κ (t.flatten.length : K) (V3T (t.map RF2.val)) (T (t.flatten.map RF2.val))
    hu hB0 hΛ hκ (Nat.cast_nonneg _) (V3T_nonneg _) (T_nonneg _)
  have hmono := G3_mono_V r.u B Λ κ (t.flatten.length : K) (V3T (t.map RF2.val)) (V3S (t.map RF2.val))
    (T (t.flatten.map RF2.val)) hu (Nat.cast_nonneg _) (V3T_le_V3S _)
  have hlead := lead3_le r.u hu t.flatten.length hnu
  calc (1 + r.u)^(3 * t.flatten.length)
        * G3 r.u B Λ κ (t.flatten.length : K) (V3T (t.map RF2.val)) (T (t.flatten.map RF2.val))
      ≤ 64/61 * G3 r.u B Λ κ (t.flatten.length : K) (V3T (t.map RF2.val)) (T (t.flatten.map RF2.val)) := by
        gcongr
    _ ≤ _ := by gcongr

/-- the new errors of one merge of the chunks `xs`, `ys` in the form of `superadd4`; `D2x, D2y, D3x, D3y` the
absolute errors of the operands' `sum_2` and `sum_3`, `V3x`, `V3y` their third-order scales -/
def nodeX (u B : K) (xs ys : List K) (V3x V3y D2x D2y D3x D3y : K) : K :=
  stepX4 (g u 28) (g u 14) (g u 8) B (xs.length : K) (ys.length : K) |mean ys - mean xs| (w4 xs ys)
    (6 * ((mean ys - mean xs) / ((xs.length : K) + (ys.length : K)))^2
      * ((xs.length : K) * (xs.length : K) * T ys + (ys.length : K) * (ys.length : K) * T xs))
    (4 * (|mean ys - mean xs| / ((xs.length : K) + (ys.length : K)))
      * ((xs.length : K) * V3y + (ys.length : K) * V3x))
    ((xs.length : K) * T ys + (ys.length : K) * T xs)
    ((xs.length : K) * (xs.length : K) * T ys + (ys.length : K) * (ys.length : K) * T xs)
    ((xs.length : K) * V3y + (ys.length : K) * V3x)
    (6 / ((xs.length : K) + (ys.length : K))^2
      * ((|mean ys - mean xs| + B * ((xs.length : K) + (ys.length : K)))^2
          * ((xs.length : K) * (xs.length : K) * D2y + (ys.length : K) * (ys.length : K) * D2x)))
    (4 / ((xs.length : K) + (ys.length : K))
      * ((|mean ys - mean xs| + B * ((xs.length : K) + (ys.length : K)))
          * ((xs.length : K) * D3y + (ys.length : K) * D3x)))

theorem nodeX_nonneg (u B : K) (xs ys : List K) (V3x V3y D2x D2y D3x D3y : K) (hu : 0 ≤ u) (hB : 0 ≤ B)
    (hV3x : 0 ≤ V3x) (hV3y : 0 ≤ V3y) (h2x : 0 ≤ D2x) (h2y : 0 ≤ D2y) (h3x : 0 ≤ D3x) (h3y : 0 ≤ D3y) :
    0 ≤ nodeX u B xs ys V3x V3y D2x D2y D3x D3y := by
  have := T_nonneg xs
  have := T_nonneg ys
  unfold nodeX
  exact stepX4_nonneg _ _ _ _ _ _ _ _ _ _ _ _ _ _ _ (g_nonneg hu 28) (g_nonneg hu 14) (g_nonneg hu 8)
    hB (by positivity) (by positivity) (abs_nonneg _) (w4_nonneg xs ys) (by positivity) (by positivity)
    (by positivity) (by positivity) (by positivity) (by positivity) (by positivity)

/-- the new errors of one merge as they come out of `sum4_merge_error` are at most `nodeX` -/
theorem nodeX_ge (u B : K) (xs ys : List K) (V3x V3y D2x D2y D3x D3y : K) (hu : 0 ≤ u) (hB : 0 ≤ B)
    (hx : xs ≠ []) (hy : ys ≠ []) (hUl : |U xs| ≤ V3x) (hUr : |U ys| ≤ V3y) :
    g u 28 * crossP4 xs ys + g u 14 * crossQ4 xs ys + g u 8 * absR4 xs ys
        + (1 + g u 28) * (w4 xs ys * (4 * |mean ys - mean xs|^3 * (B * (xs.length : K) + B * (ys.length : K))
            + 6 * (mean ys - mean xs)^2 * (B * (xs.length : K) + B * (ys.length : K))^2
            + 4 * |mean ys - mean xs| * (B * (xs.length : K) + B * (ys.length : K))^3
            + (B * (xs.length : K) + B * (ys.length : K))^4))
        + (1 + g u 14) * (6 / ((xs.length : K) + (ys.length : K))^2
            * ((2 * |mean ys - mean xs| * (B * (xs.length : K) + B * (ys.length : K))
                  + (B * (xs.length : K) + B * (ys.length : K))^2) * mixK xs ys
                + (|mean ys - mean xs| + (B * (xs.length : K) + B * (ys.length : K)))^2
                  * ((xs.length : K) * (xs.length : K) * D2y + (ys.length : K) * (ys.length : K) * D2x)))
        + (1 + g u 8) * (4 / ((xs.length : K) + (ys.length : K))
            * ((B * (xs.length : K) + B * (ys.length : K)) * mixU xs ys
                + (|mean ys - mean xs| + (B * (xs.length : K) + B * (ys.length : K)))
                  * ((xs.length : K) * D3y + (ys.length : K) * D3x)))
      ≤ nodeX u B xs ys V3x V3y D2x D2y D3x D3y := by
  have hl : (0 : K) < xs.length := by exact_mod_cast List.length_pos_of_ne_nil hx
  have hr : (0 : K) < ys.length := by exact_mod_cast List.length_pos_of_ne_nil hy
  exact stepX_le (g u 28) (g u 14) (g u 8) B (xs.length : K) (ys.length : K) (mean ys - mean xs) (w4 xs ys)
    (T xs) (T ys) (U xs) (U ys) V3x V3y D2x D2y D3x D3y (g_nonneg hu 28) (g_nonneg hu 14)
    (g_nonneg hu 8) hB hl hr (w4_nonneg xs ys) (T_nonneg xs) (T_nonneg ys) hUl hUr

/-- the super-additivity of the envelope at a node of the tree -/
theorem node_sup4 (u B Λ κ : K) (xs ys : List K) (V3x V3y V4x V4y D2x D2y D3x D3y : K)
    (hu0 : 0 ≤ u) (hu' : u ≤ 1/1856) (hB0 : 0 ≤ B) (hΛ : 0 ≤ Λ) (hκ : 0 ≤ κ) (hΛκ : B^2 ≤ Λ * κ)
    (hx : xs ≠ []) (hy : ys ≠ [])
    (hD2l : ∀ Λ κ : K, 0 ≤ Λ → 0 ≤ κ → B^2 ≤ Λ * κ → D2x ≤ 32/31 * VarMerge.G u B Λ κ (xs.length : K) (T xs))
    (hD2r : ∀ Λ κ : K, 0 ≤ Λ → 0 ≤ κ → B^2 ≤ Λ * κ → D2y ≤ 32/31 * VarMerge.G u B Λ κ (ys.length : K) (T ys))
    (hD3l : ∀ Λ κ : K, 0 ≤ Λ → 0 ≤ κ → B^2 ≤ Λ * κ → D3x ≤ 64/61 * G3 u B Λ κ (xs.length : K) V3x (T xs))
    (hD3r : ∀ Λ κ : K, 0 ≤ Λ → 0 ≤ κ → B^2 ≤ Λ * κ → D3y ≤ 64/61 * G3 u B Λ κ (ys.length : K) V3y (T ys))
    (hV3x0 : 0 ≤ V3x) (hV3y0 : 0 ≤ V3y) (hV4x0 : 0 ≤ V4x) (hV4y0 : 0 ≤ V4y)
    (hnu : ((xs.length : K) + (ys.length : K)) * u ≤ 1/64) :
    G4 u B Λ κ (xs.length : K) V4x V3x (T xs) + G4 u B Λ κ (ys.length : K) V4y V3y (T ys)
        + nodeX u B xs ys V3x V3y D2x D2y D3x D3y + 4 * u * (V4x + V4y + absJ4 xs ys V3x V3y)
      ≤ G4 u B Λ κ ((xs.length : K) + (ys.length : K)) (V4x + V4y + absJ4 xs ys V3x V3y)
          (V3x + V3y + absJS xs ys) (T (xs ++ ys)) := by
  have hlnat : 1 ≤ xs.length := List.length_pos_of_ne_nil hx
  have hrnat : 1 ≤ ys.length := List.length_pos_of_ne_nil hy
  have hl1 : (1 : K) ≤ xs.length := by exact_mod_cast hlnat
  have hr1 : (1 : K) ≤ ys.length := by exact_mod_cast hrnat
  have hn : (0 : K) < (xs.length : K) + (ys.length : K) := by linarith
  set δ := mean ys - mean xs with hδ
  have hg28 : g u 28 ≤ 55 * u := le_trans (g_mono hu0 (by norm_num)) (g54_le u hu0 hu')
  have hg14 : g u 14 ≤ 76/5 * u := le_trans (g_mono hu0 (by norm_num)) (g15_le u hu0 hu')
  have hg8 := g8_le u hu0 hu'
  have hZ2 := z2_bound u B (32/31) (xs.length : K) (ys.length : K) (T xs) (T ys) D2x D2y
    (|δ| + B * ((xs.length : K) + (ys.length : K))) hu0 hB0 (by norm_num)
    (by linarith) (by linarith) (T_nonneg xs) (T_nonneg ys) (by positivity) hD2l hD2r
  have hZ3 := z3_bound u B (64/61) (xs.length : K) (ys.length : K) (T xs) (T ys) V3x V3y D3x D3y
    (|δ| + B * ((xs.length : K) + (ys.length : K))) hu0 hB0 (by norm_num)
    (by linarith) (by linarith) (T_nonneg xs) (T_nonneg ys) hV3x0 hV3y0 (by positivity) hD3l hD3r
  have hne : (xs.length : K) + (ys.length : K) ≠ 0 := hn.ne'
  have hQa0 : 0 ≤ 6 * (δ / ((xs.length : K) + (ys.length : K)))^2
      * ((xs.length : K) * (xs.length : K) * T ys + (ys.length : K) * (ys.length : K) * T xs) := by
    have := T_nonneg xs
    have := T_nonneg ys
    positivity
  have hRa0 : 0 ≤ 4 * (|δ| / ((xs.length : K) + (ys.length : K)))
      * ((xs.length : K) * V3y + (ys.length : K) * V3x) := by positivity
  have hsup := superadd4 u B Λ κ (g u 28) (g u 14) (g u 8) (32/31) (64/61) (xs.length : K)
    (ys.length : K) (T xs) (T ys) V3x V3y V4x V4y |δ|
    ((xs.length : K) * (ys.length : K) / ((xs.length : K) + (ys.length : K)))
    ((xs.length : K) * (ys.length : K) / ((xs.length : K) + (ys.length : K))^2)
    (w4 xs ys)
    (6 * (δ / ((xs.length : K) + (ys.length : K)))^2
      * ((xs.length : K) * (xs.length : K) * T ys + (ys.length : K) * (ys.length : K) * T xs))
    (4 * (|δ| / ((xs.length : K) + (ys.length : K))) * ((xs.length : K) * V3y + (ys.length : K) * V3x))
    (absQ xs ys)
    (6 / ((xs.length : K) + (ys.length : K))^2
      * ((|δ| + B * ((xs.length : K) + (ys.length : K)))^2
          * ((xs.length : K) * (xs.length : K) * D2y + (ys.length : K) * (ys.length : K) * D2x)))
    (4 / ((xs.length : K) + (ys.length : K))
      * ((|δ| + B * ((xs.length : K) + (ys.length : K)))
          * ((xs.length : K) * D3y + (ys.length : K) * D3x)))
    hu0 hu' hB0 hΛ hκ hΛκ (g_nonneg hu0 28) hg28 (g_nonneg hu0 14) hg14 (g_nonneg hu0 8) hg8
    (by norm_num) le_rfl (by norm_num) le_rfl
    hl1 hr1 hnu (T_nonneg xs) (T_nonneg ys) hV3x0 hV3y0 hV4x0 hV4y0 (abs_nonneg _)
    (by field_simp) (by field_simp) (w4_nonneg xs ys) (w4_le_mergeW xs ys hx)
    hQa0 (by rw [sq_abs]; field_simp) hRa0 (by field_simp) (absQ_mul xs ys hx) hZ2 hZ3
  -- the scales of the node
  have hq4 : |δ|^4 = δ^4 := by
    have : δ^4 = (δ^2)^2 := by ring
    rw [this, ← sq_abs δ]; ring
  have hJ4 : |δ|^4 * w4 xs ys + 6 * (δ / ((xs.length : K) + (ys.length : K)))^2
        * ((xs.length : K) * (xs.length : K) * T ys + (ys.length : K) * (ys.length : K) * T xs)
      + 4 * (|δ| / ((xs.length : K) + (ys.length : K))) * ((xs.length : K) * V3y + (ys.length : K) * V3x)
      = absJ4 xs ys V3x V3y := by
    rw [hq4]; rfl
  have hJS : |δ|^3 * ((xs.length : K) * (ys.length : K) / ((xs.length : K) + (ys.length : K)))
      + absQ xs ys = absJS xs ys := rfl
  have hTa : T xs + T ys
      + |δ|^2 * ((xs.length : K) * (ys.length : K) / ((xs.length : K) + (ys.length : K)))
      = T (xs ++ ys) := by
    rw [T_append xs ys hx hy, sq_abs]; rfl
  rw [hJ4, hJS, hTa] at hsup
  exact hsup

/-- **One node of the tree.** Two non-empty chunks `xs`, `ys` summarised by the states `sl`, `sr` with exact
counts, means within `B·n_x`, `B·n_y`, sums of squares within `(32/31)·G` and third-order sums within
`(64/61)·G3` (scales `V3x ≥ |U xs|`, `V3y ≥ |U ys|`) for every admissible pair of parameters, `sum_4` within
`(1+u)^(4n)·G4` with scales `V4x ≥ |Q xs|`, `V4y ≥ |Q ys|`: the merged `sum_4` is within
`(1+u)^(4(n_x+n_y))·G4(n_x+n_y, V4x+V4y+J4, V3x+V3y+JS, T(xs++ys))`. -/
theorem node_step4 (r : Rnd2 K) (B Λ κ : K) (hu' : r.u ≤ 1/1856) (hB0 : 0 ≤ B)
    (hΛ : 0 ≤ Λ) (hκ : 0 ≤ κ) (hΛκ : B^2 ≤ Λ * κ) (sl sr : Kurtosis (RF2 r)) (xs ys : List K)
    (V3x V3y V4x V4y : K) (hx : xs ≠ []) (hy : ys ≠ [])
    (hsn : sl.avg.avg.avg.n = xs.length) (hon : sr.avg.avg.avg.n = ys.length)
    (hle : |sl.avg.avg.avg.avg.val - mean xs| ≤ B * (xs.length : K))
    (hre : |sr.avg.avg.avg.avg.val - mean ys| ≤ B * (ys.length : K))
    (hD2l : ∀ Λ κ : K, 0 ≤ Λ → 0 ≤ κ → B^2 ≤ Λ * κ →
      |sl.avg.avg.sum_2.val - T xs| ≤ 32/31 * VarMerge.G r.u B Λ κ (xs.length : K) (T xs))
    (hD2r : ∀ Λ κ : K, 0 ≤ Λ → 0 ≤ κ → B^2 ≤ Λ * κ →
      |sr.avg.avg.sum_2.val - T ys| ≤ 32/31 * VarMerge.G r.u B Λ κ (ys.length : K) (T ys))
    (hD3l : ∀ Λ κ : K, 0 ≤ Λ → 0 ≤ κ → B^2 ≤ Λ * κ →
      |sl.avg.sum_3.val - U xs| ≤ 64/61 * G3 r.u B Λ κ (xs.length : K) V3x (T xs))
    (hD3r : ∀ Λ κ : K, 0 ≤ Λ → 0 ≤ κ → B^2 ≤ Λ * κ →
      |sr.avg.sum_3.val - U ys| ≤ 64/61 * G3 r.u B Λ κ (ys.length : K) V3y (T ys))
    (hUl : |U xs| ≤ V3x) (hUr : |U ys| ≤ V3y) (hQl : |Q xs| ≤ V4x) (hQr : |Q ys| ≤ V4y)
    (hEl : |sl.sum_4.val - Q xs|
      ≤ (1 + r.u)^(4 * xs.length) * G4 r.u B Λ κ (xs.length : K) V4x V3x (T xs))
    (hEr : |sr.sum_4.val - Q ys|
      ≤ (1 + r.u)^(4 * ys.length) * G4 r.u B Λ κ (ys.length : K) V4y V3y (T ys))
    (hnu : ((xs.length : K) + (ys.length : K)) * r.u ≤ 1/64) :
    |(sl.merge sr).sum_4.val - Q (xs ++ ys)|
      ≤ (1 + r.u)^(4 * (xs.length + ys.length))
          * G4 r.u B Λ κ ((xs.length : K) + (ys.length : K)) (V4x + V4y + absJ4 xs ys V3x V3y)
              (V3x + V3y + absJS xs ys) (T (xs ++ ys)) := by
  have hu0 := r.u_nonneg
  have hlnat : 1 ≤ xs.length := List.length_pos_of_ne_nil hx
  have hrnat : 1 ≤ ys.length := List.length_pos_of_ne_nil hy
  have hV3x0 : 0 ≤ V3x := le_trans (abs_nonneg _) hUl
  have hV3y0 : 0 ≤ V3y := le_trans (abs_nonneg _) hUr
  have hV4x0 : 0 ≤ V4x := le_trans (abs_nonneg _) hQl
  have hV4y0 : 0 ≤ V4y := le_trans (abs_nonneg _) hQr
  have step := sum4_merge_error r (by linarith) sl sr xs ys hx hy hsn hon _ _ hle hre
  refine le_trans step ?_
  have hsup := node_sup4 r.u B Λ κ xs ys V3x V3y V4x V4y |sl.avg.avg.sum_2.val - T xs|
    |sr.avg.avg.sum_2.val - T ys| |sl.avg.sum_3.val - U xs| |sr.avg.sum_3.val - U ys| hu0 hu' hB0 hΛ hκ hΛκ
    hx hy hD2l hD2r hD3l hD3r hV3x0 hV3y0 hV4x0 hV4y0 hnu
  have hXle := nodeX_ge r.u B xs ys V3x V3y |sl.avg.avg.sum_2.val - T xs|
    |sr.avg.avg.sum_2.val - T ys| |sl.avg.sum_3.val - U xs| |sr.avg.sum_3.val - U ys| hu0 hB0 hx hy hUl hUr
  have hX0 := nodeX_nonneg r.u B xs ys V3x V3y |sl.avg.avg.sum_2.val - T xs|
    |sr.avg.avg.sum_2.val - T ys| |sl.avg.sum_3.val - U xs| |sr.avg.sum_3.val - U ys| hu0 hB0 hV3x0 hV3y0
    (abs_nonneg _) (abs_nonneg _) (abs_nonneg _) (abs_nonneg _)
  set X := nodeX r.u B xs ys V3x V3y |sl.avg.avg.sum_2.val - T xs|
    |sr.avg.avg.sum_2.val - T ys| |sl.avg.sum_3.val - U xs| |sr.avg.sum_3.val - U ys| with hXdef
  have hV'0 : 0 ≤ V4x + V4y + absJ4 xs ys V3x V3y := by
    have := absJ4_nonneg xs ys V3x V3y hV3x0 hV3y0; linarith
  -- the four targets of the rounded additions
  obtain ⟨t1, t2, t3, t4⟩ := abs_targets_le xs ys
  have hRV := absR4_le_absRV xs ys V3x V3y hUl hUr
  have hP0 := crossP4_nonneg xs ys
  have hQ0 := crossQ4_nonneg xs ys
  have hR0 := absR4_nonneg xs ys
  have hJdef : absJ4 xs ys V3x V3y = crossP4 xs ys + crossQ4 xs ys + absRV xs ys V3x V3y := rfl
  have ha1 : |Q ys + crossP4 xs ys| ≤ V4x + V4y + absJ4 xs ys V3x V3y := by
    rw [hJdef]; linarith
  have ha2 : |Q ys + crossP4 xs ys + crossQ4 xs ys| ≤ V4x + V4y + absJ4 xs ys V3x V3y := by
    rw [hJdef]; linarith
  have ha3 : |Q ys + crossP4 xs ys + crossQ4 xs ys + crossR4 xs ys|
      ≤ V4x + V4y + absJ4 xs ys V3x V3y := by
    rw [hJdef]; linarith
  have ha4 : |Q (xs ++ ys)| ≤ V4x + V4y + absJ4 xs ys V3x V3y := by
    rw [hJdef]; linarith
  have hfin := node_arith4 r.u B Λ κ V3x V3y V4x V4y (T xs) (T ys) (V4x + V4y + absJ4 xs ys V3x V3y)
    (V3x + V3y + absJS xs ys) (T (xs ++ ys)) |sl.sum_4.val - Q xs| |sr.sum_4.val - Q ys| X
    |Q ys + crossP4 xs ys| |Q ys + crossP4 xs ys + crossQ4 xs ys|
    |Q ys + crossP4 xs ys + crossQ4 xs ys + crossR4 xs ys| |Q (xs ++ ys)|
    xs.length ys.length hlnat hrnat hu0 hB0 hΛ hκ hV3x0 hV3y0 hV4x0 hV4y0 (T_nonneg xs) (T_nonneg ys)
    hX0 hV'0 ha1 ha2 ha3 ha4 hEl hEr hsup
  refine le_trans ?_ hfin
  have hc4 : (0 : K) ≤ (1 + r.u)^4 := by positivity
  have := mul_le_mul_of_nonneg_left
    (add_le_add_left hXle (|sl.sum_4.val - Q xs| + |sr.sum_4.val - Q ys|)) hc4
  linarith

end KurtMerge

#print axioms KurtMerge.node_sup4
#print axioms KurtMerge.node_step4
