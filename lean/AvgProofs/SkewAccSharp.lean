import AvgProofs.SkewAccErr

/-!
# The accessor `Skewness.skewness`: sharp treatment of the denominator

`SkewAccErr.skew_core` bounds the denominator `sqrtfl(fl(fl(S·S)·S))` through `|√a - √b| ≤ |a-b|/√b`, which
does not see that the square root halves a small relative error. Here the denominator is enclosed on both
sides,

`√(T³)·(1-ε₂)√(1-ε₂)·(1-u)² ≤ D' ≤ √(T³)·(1+ε₂)√(1+ε₂)·(1+u)²`   (`denom_between`),

and a rounded quotient with a two-sided enclosure of the denominator is analysed exactly
(`quot_round_error_sharp`: only the *lower* end appears in the bound, thanks to
`1/L + 1/H ≥ 2` when `L·H ≤ 1`). Result (`skew_core_sharp`), for every `0 ≤ ε₂ < 1`, `u < 1`:

`|skewness() - √c·U/√(T³)| ≤ (√c·V/√(T³))·((1+ε₃)(1+u)³/((1-ε₂)√(1-ε₂)(1-u)²) - 1)`,

to first order `ε₃ + (3/2)·ε₂ + 5·u` times the scale.

* `inv_lo_le_quarter`: `1/((1-ε)√(1-ε)) ≤ 1 + (9/4)·ε` for `0 ≤ ε ≤ 1/4` (by squaring; no `rpow`);
  `inv_lo_le_small`: `≤ 1 + (8/5)·ε` for `ε ≤ 1/32`.
* `skew_factor_sharp_quarter`: `ε₂ ≤ 1/4`, `u ≤ 1/1856` ⟹ factor `≤ (63/40)·ε₃ + (9/4)·ε₂ + 8·u`;
  `skew_factor_sharp_small`: `ε₂ ≤ 1/32` ⟹ `≤ (1053/1000)·ε₃ + (8/5)·ε₂ + (53/10)·u`.
-/
open Avg MSpec VarSpec SkewSpec SkewErr

namespace SkewAcc

/-- a rounded non-negative number lies between `(1-u)·t` and `(1+u)·t` -/
theorem fl_between (r : Rnd2 ℝ) {t : ℝ} (ht : 0 ≤ t) :
    (1 - r.u) * t ≤ r.fl t ∧ r.fl t ≤ (1 + r.u) * t := by
  have e := r.err t
  rw [abs_of_nonneg ht] at e
  have := abs_le.mp e
  constructor <;> linarith [this.1, this.2]

/-- the rounded square root of a non-negative number lies between `(1-u)·√t` and `(1+u)·√t` -/
theorem sqrtfl_between {r : Rnd2 ℝ} (q : RndSqrt r) {t : ℝ} (ht : 0 ≤ t) :
    (1 - r.u) * Real.sqrt t ≤ q.sqrtfl t ∧ q.sqrtfl t ≤ (1 + r.u) * Real.sqrt t := by
  have := abs_le.mp (q.err t ht)
  constructor <;> linarith [this.1, this.2]

theorem sqrt_cube_eq (x : ℝ) (hx : 0 ≤ x) : Real.sqrt (x * x * x) = x * Real.sqrt x := by
  rw [Real.sqrt_mul (mul_self_nonneg x), Real.sqrt_mul_self hx]

theorem sqrt_mul3 (A B C : ℝ) (hA : 0 ≤ A) (hB : 0 ≤ B) :
    Real.sqrt (A * B * C) = Real.sqrt A * Real.sqrt B * Real.sqrt C := by
  rw [Real.sqrt_mul (mul_nonneg hA hB), Real.sqrt_mul hA]

/-- **Two-sided enclosure of the denominator** `D' = sqrtfl(fl(fl(S·S)·S))` when `|S - T| ≤ ε₂·T`,
`0 ≤ ε₂ ≤ 1`, `u ≤ 1`, `T > 0`. -/
theorem denom_between (r : Rnd2 ℝ) (q : RndSqrt r) (S T ε₂ : ℝ) (hT : 0 < T) (hε : 0 ≤ ε₂)
    (hε1 : ε₂ ≤ 1) (hu1 : r.u ≤ 1) (hS : |S - T| ≤ ε₂ * T) :
    Real.sqrt (T * T * T) * ((1 - ε₂) * Real.sqrt (1 - ε₂)) * ((1 - r.u) * (1 - r.u))
        ≤ q.sqrtfl (r.fl (r.fl (S * S) * S))
    ∧ q.sqrtfl (r.fl (r.fl (S * S) * S))
        ≤ Real.sqrt (T * T * T) * ((1 + ε₂) * Real.sqrt (1 + ε₂)) * ((1 + r.u) * (1 + r.u)) := by
  have hu := r.u_nonneg
  have h1u : 0 ≤ 1 - r.u := by linarith
  have h1e : 0 ≤ 1 - ε₂ := by linarith
  obtain ⟨hSl, hSu⟩ := abs_le.mp hS
  have hSlo : (1 - ε₂) * T ≤ S := by linarith
  have hShi : S ≤ (1 + ε₂) * T := by linarith
  have hlo0 : 0 ≤ (1 - ε₂) * T := by positivity
  have hS0 : 0 ≤ S := le_trans hlo0 hSlo
  -- S·S
  have hSSlo : ((1 - ε₂) * T) * ((1 - ε₂) * T) ≤ S * S := mul_le_mul hSlo hSlo hlo0 hS0
  have hSShi : S * S ≤ ((1 + ε₂) * T) * ((1 + ε₂) * T) :=
    mul_le_mul hShi hShi hS0 (by positivity)
  obtain ⟨ha1l, ha1u⟩ := fl_between r (mul_self_nonneg S)
  have ha1lo : (1 - r.u) * (((1 - ε₂) * T) * ((1 - ε₂) * T)) ≤ r.fl (S * S) :=
    le_trans (mul_le_mul_of_nonneg_left hSSlo h1u) ha1l
  have ha1hi : r.fl (S * S) ≤ (1 + r.u) * (((1 + ε₂) * T) * ((1 + ε₂) * T)) :=
    le_trans ha1u (mul_le_mul_of_nonneg_left hSShi (by linarith))
  have ha10 : 0 ≤ r.fl (S * S) := le_trans (by positivity) ha1lo
  -- ·S
  have hplo : (1 - r.u) * (((1 - ε₂) * T) * ((1 - ε₂) * T)) * ((1 - ε₂) * T) ≤ r.fl (S * S) * S :=
    mul_le_mul ha1lo hSlo hlo0 ha10
  have hphi : r.fl (S * S) * S ≤ (1 + r.u) * (((1 + ε₂) * T) * ((1 + ε₂) * T)) * ((1 + ε₂) * T) :=
    mul_le_mul ha1hi hShi hS0 (by positivity)
  have hp0 : 0 ≤ r.fl (S * S) * S := mul_nonneg ha10 hS0
  obtain ⟨ha2l, ha2u⟩ := fl_between r hp0
  have ha2lo : (T * T * T) * (((1 - ε₂) * (1 - ε₂)) * (1 - ε₂)) * ((1 - r.u) * (1 - r.u))
      ≤ r.fl (r.fl (S * S) * S) := by
    refine le_trans (le_of_eq ?_) (le_trans (mul_le_mul_of_nonneg_left hplo h1u) ha2l)
    ring
  have ha2hi : r.fl (r.fl (S * S) * S)
      ≤ (T * T * T) * (((1 + ε₂) * (1 + ε₂)) * (1 + ε₂)) * ((1 + r.u) * (1 + r.u)) := by
    refine le_trans (le_trans ha2u (mul_le_mul_of_nonneg_left hphi (by linarith))) (le_of_eq ?_)
    ring
  have ha20 : 0 ≤ r.fl (r.fl (S * S) * S) := le_trans (by positivity) ha2lo
  -- square roots
  have hsqlo : Real.sqrt (T * T * T) * ((1 - ε₂) * Real.sqrt (1 - ε₂)) * (1 - r.u)
      ≤ Real.sqrt (r.fl (r.fl (S * S) * S)) := by
    refine le_trans (le_of_eq ?_) (Real.sqrt_le_sqrt ha2lo)
    rw [sqrt_mul3 (T * T * T) ((1 - ε₂) * (1 - ε₂) * (1 - ε₂)) ((1 - r.u) * (1 - r.u))
      (by positivity) (mul_nonneg (mul_nonneg h1e h1e) h1e), sqrt_cube_eq (1 - ε₂) h1e,
      Real.sqrt_mul_self h1u]
  have hsqhi : Real.sqrt (r.fl (r.fl (S * S) * S))
      ≤ Real.sqrt (T * T * T) * ((1 + ε₂) * Real.sqrt (1 + ε₂)) * (1 + r.u) := by
    refine le_trans (Real.sqrt_le_sqrt ha2hi) (le_of_eq ?_)
    rw [sqrt_mul3 (T * T * T) ((1 + ε₂) * (1 + ε₂) * (1 + ε₂)) ((1 + r.u) * (1 + r.u))
      (by positivity) (by positivity), sqrt_cube_eq (1 + ε₂) (by linarith),
      Real.sqrt_mul_self (by linarith)]
  obtain ⟨hDl, hDu⟩ := sqrtfl_between q ha20
  constructor
  · refine le_trans (le_of_eq ?_) (le_trans (mul_le_mul_of_nonneg_left hsqlo h1u) hDl)
    ring
  · refine le_trans (le_trans hDu (mul_le_mul_of_nonneg_left hsqhi (by linarith))) (le_of_eq ?_)
    ring

/-- `1/L + 1/H ≥ 2` for positive `L`, `H` with `L·H ≤ 1` -/
theorem inv_add_inv_ge_two (L H : ℝ) (hL : 0 < L) (hH : 0 < H) (hLH : L * H ≤ 1) :
    2 ≤ 1 / L + 1 / H := by
  have hp : 0 < L * H := mul_pos hL hH
  have key : 2 * (L * H) ≤ L + H := by
    by_contra hcon
    rw [not_le] at hcon
    have h1 : (L + H)^2 < (2 * (L * H))^2 := by
      have : 0 < L + H := by linarith
      nlinarith
    have h2 : (2 * (L * H))^2 ≤ 4 * (L * H) := by nlinarith
    nlinarith [sq_nonneg (L - H)]
  rw [div_add_div _ _ hL.ne' hH.ne', le_div_iff₀ hp]
  linarith

/-- **A rounded quotient, two-sided enclosure of the denominator.** `D₀ ≤ ℓ·D'`, `h·D' ≤ D₀`
(so `D₀/D' ∈ [h, ℓ]`), `ℓ + h ≥ 2`; `|N₀| ≤ B`, `|N' - N₀| ≤ a·B`, `|N'| ≤ (1+a)·B`:
`|fl(N'/D') - N₀/D₀| ≤ (B/D₀)·((1+a)(1+u)·ℓ - 1)`. -/
theorem quot_round_error_sharp (r : Rnd2 ℝ) (N' N₀ D' D₀ B a ℓ h : ℝ) (hD₀ : 0 < D₀) (hD' : 0 < D')
    (ha : 0 ≤ a) (hℓ : D₀ ≤ ℓ * D') (hh : h * D' ≤ D₀) (hℓh : 2 ≤ ℓ + h)
    (hN₀ : |N₀| ≤ B) (hN : |N' - N₀| ≤ a * B) (hN' : |N'| ≤ (1 + a) * B) :
    |r.fl (N' / D') - N₀ / D₀| ≤ B / D₀ * ((1 + a) * (1 + r.u) * ℓ - 1) := by
  have hu := r.u_nonneg
  have hB : 0 ≤ B := le_trans (abs_nonneg _) hN₀
  set t := D₀ / D' with ht
  have ht0 : 0 < t := div_pos hD₀ hD'
  have htℓ : t ≤ ℓ := by rw [ht, div_le_iff₀ hD']; exact hℓ
  have hth : h ≤ t := by rw [ht, le_div_iff₀ hD']; exact hh
  have hX : N' / D' = N' * t / D₀ := by rw [ht]; field_simp
  have e : r.fl (N' / D') - N₀ / D₀
      = ((r.fl (N' / D') - N' / D') * D₀ + (N' - N₀) * t + N₀ * (t - 1)) / D₀ := by
    rw [hX]; field_simp; ring
  have h1 : |(r.fl (N' / D') - N' / D') * D₀| ≤ r.u * ((1 + a) * B) * t := by
    rw [abs_mul, abs_of_pos hD₀]
    have := r.err (N' / D')
    rw [hX, abs_div, abs_mul, abs_of_pos hD₀, abs_of_pos ht0] at this
    rw [hX]
    calc |r.fl (N' * t / D₀) - N' * t / D₀| * D₀ ≤ (r.u * (|N'| * t / D₀)) * D₀ := by gcongr
      _ = r.u * |N'| * t := by field_simp
      _ ≤ r.u * ((1 + a) * B) * t := by gcongr
  have h2 : |(N' - N₀) * t| ≤ a * B * t := by
    rw [abs_mul, abs_of_pos ht0]; gcongr
  have h3 : |N₀ * (t - 1)| ≤ B * |t - 1| := by
    rw [abs_mul]; gcongr
  -- the scalar inequality
  have hc1 : 1 ≤ (1 + a) * (1 + r.u) := by nlinarith [mul_nonneg ha hu]
  have hscal : (r.u * (1 + a) + a) * t + |t - 1| ≤ (1 + a) * (1 + r.u) * ℓ - 1 := by
    set c := (1 + a) * (1 + r.u) with hc
    have hc' : r.u * (1 + a) + a = c - 1 := by rw [hc]; ring
    rw [hc']
    rcases le_total 1 t with h1t | h1t
    · rw [abs_of_nonneg (by linarith)]
      have : c * t ≤ c * ℓ := by gcongr
      linarith
    · rw [abs_of_nonpos (by linarith)]
      have : (c - 1) * (ℓ - t) ≥ 0 := mul_nonneg (by linarith) (by linarith)
      nlinarith
  have hnum : |(r.fl (N' / D') - N' / D') * D₀ + (N' - N₀) * t + N₀ * (t - 1)|
      ≤ B * ((1 + a) * (1 + r.u) * ℓ - 1) := by
    calc _ ≤ |(r.fl (N' / D') - N' / D') * D₀| + |(N' - N₀) * t| + |N₀ * (t - 1)| := by
          refine le_trans (abs_add_le _ _) ?_
          gcongr
          exact abs_add_le _ _
      _ ≤ r.u * ((1 + a) * B) * t + a * B * t + B * |t - 1| := by linarith
      _ = B * ((r.u * (1 + a) + a) * t + |t - 1|) := by ring
      _ ≤ B * ((1 + a) * (1 + r.u) * ℓ - 1) := by gcongr
  rw [e, abs_div, abs_of_pos hD₀]
  calc _ ≤ B * ((1 + a) * (1 + r.u) * ℓ - 1) / D₀ := by gcongr
    _ = B / D₀ * ((1 + a) * (1 + r.u) * ℓ - 1) := by ring

/-- **Both branches of `skewness()`, real numbers only, sharp form.** `c ≥ 0`, `T > 0`, `|U| ≤ V`,
`|S - T| ≤ ε₂·T` with `0 ≤ ε₂ < 1`, `|S3 - U| ≤ ε₃·V`, `u < 1`. The value returned is within
`(√c·V/√(T³))·((1+ε₃)(1+u)³/((1-ε₂)√(1-ε₂)(1-u)²) - 1)` of `√c·U/√(T³)`. -/
theorem skew_core_sharp (r : Rnd2 ℝ) (q : RndSqrt r) (c T U V S S3 ε₂ ε₃ : ℝ) (hc : 0 ≤ c)
    (hT : 0 < T) (hUV : |U| ≤ V) (hε₂ : 0 ≤ ε₂) (hε₂1 : ε₂ < 1) (hε₃ : 0 ≤ ε₃) (hu1 : r.u < 1)
    (hS : |S - T| ≤ ε₂ * T) (hS3 : |S3 - U| ≤ ε₃ * V) :
    |(if S3 = 0 then 0
        else r.fl (r.fl (q.sqrtfl c * S3) / q.sqrtfl (r.fl (r.fl (S * S) * S))))
        - Real.sqrt c * U / Real.sqrt (T * T * T)|
      ≤ Real.sqrt c * V / Real.sqrt (T * T * T)
          * ((1 + ε₃) * (1 + r.u)^3
              / ((1 - ε₂) * Real.sqrt (1 - ε₂) * ((1 - r.u) * (1 - r.u))) - 1) := by
  have hu := r.u_nonneg
  have hV : 0 ≤ V := le_trans (abs_nonneg _) hUV
  have hpos3 : 0 < T * T * T := by positivity
  set D₀ := Real.sqrt (T * T * T) with hD₀
  have hD₀pos : 0 < D₀ := Real.sqrt_pos.mpr hpos3
  set rc := Real.sqrt c with hrc
  have hrc0 : 0 ≤ rc := Real.sqrt_nonneg c
  have hBD : 0 ≤ rc * V / D₀ := by positivity
  have h1e : 0 < 1 - ε₂ := by linarith
  have h1u : 0 < 1 - r.u := by linarith
  set lo := (1 - ε₂) * Real.sqrt (1 - ε₂) with hlo
  set hi := (1 + ε₂) * Real.sqrt (1 + ε₂) with hhi
  have hlopos : 0 < lo := mul_pos h1e (Real.sqrt_pos.mpr h1e)
  have hhipos : 0 < hi := mul_pos (by linarith) (Real.sqrt_pos.mpr (by linarith))
  set L := lo * ((1 - r.u) * (1 - r.u)) with hL
  set H := hi * ((1 + r.u) * (1 + r.u)) with hH
  have hLpos : 0 < L := by positivity
  have hHpos : 0 < H := by positivity
  have hlohi : lo * hi ≤ 1 := by
    have e : lo * hi = ((1 - ε₂) * (1 + ε₂)) * Real.sqrt ((1 - ε₂) * (1 + ε₂)) := by
      rw [hlo, hhi, Real.sqrt_mul h1e.le]; ring
    have h1 : (1 - ε₂) * (1 + ε₂) ≤ 1 := by nlinarith
    have h0 : 0 ≤ (1 - ε₂) * (1 + ε₂) := by nlinarith
    have h2 : Real.sqrt ((1 - ε₂) * (1 + ε₂)) ≤ 1 := by
      rw [Real.sqrt_le_left (by norm_num)]; linarith
    rw [e]
    calc _ ≤ 1 * 1 := mul_le_mul h1 h2 (Real.sqrt_nonneg _) (by norm_num)
      _ = 1 := by ring
  have hLH : L * H ≤ 1 := by
    have e : L * H = (lo * hi) * (((1 - r.u) * (1 + r.u)) * ((1 - r.u) * (1 + r.u))) := by
      rw [hL, hH]; ring
    have h1 : (1 - r.u) * (1 + r.u) ≤ 1 := by nlinarith
    have h0 : 0 ≤ (1 - r.u) * (1 + r.u) := by nlinarith
    rw [e]
    calc _ ≤ 1 * (1 * 1) := mul_le_mul hlohi (mul_le_mul h1 h1 h0 (by norm_num))
            (mul_nonneg h0 h0) (by norm_num)
      _ = 1 := by ring
  have hL1 : L ≤ 1 := by
    have hs1 : 1 ≤ Real.sqrt (1 + ε₂) := by
      rw [Real.le_sqrt (by norm_num) (by linarith)]; linarith
    have hhi1 : 1 ≤ hi := one_le_mul_of_one_le_of_one_le (by linarith) hs1
    have huu : 1 ≤ (1 + r.u) * (1 + r.u) :=
      one_le_mul_of_one_le_of_one_le (by linarith) (by linarith)
    have hH1 : 1 ≤ H := one_le_mul_of_one_le_of_one_le hhi1 huu
    exact le_trans (le_mul_of_one_le_right hLpos.le hH1) hLH
  have h13 : (1:ℝ) ≤ (1 + r.u)^3 := one_le_pow₀ (by linarith)
  have hfac : ε₃ ≤ (1 + ε₃) * (1 + r.u)^3 / L - 1 := by
    have hX0 : 0 ≤ (1 + ε₃) * (1 + r.u)^3 := by positivity
    have h1 : (1 + ε₃) ≤ (1 + ε₃) * (1 + r.u)^3 :=
      le_mul_of_one_le_right (by linarith) h13
    have h2 : (1 + ε₃) * (1 + r.u)^3 ≤ (1 + ε₃) * (1 + r.u)^3 / L := by
      rw [le_div_iff₀ hLpos]
      exact mul_le_of_le_one_right hX0 hL1
    linarith
  split_ifs with h0
  · have hU : |U| ≤ ε₃ * V := by
      rw [h0, zero_sub, abs_neg] at hS3; exact hS3
    rw [zero_sub, abs_neg, abs_div, abs_mul, abs_of_nonneg hrc0, abs_of_pos hD₀pos]
    calc rc * |U| / D₀ ≤ rc * (ε₃ * V) / D₀ := by gcongr
      _ = rc * V / D₀ * ε₃ := by ring
      _ ≤ rc * V / D₀ * ((1 + ε₃) * (1 + r.u)^3 / L - 1) := by gcongr
  · obtain ⟨hDlo, hDhi⟩ := denom_between r q S T ε₂ hT hε₂ hε₂1.le hu1.le hS
    set D' := q.sqrtfl (r.fl (r.fl (S * S) * S)) with hD'
    have hDlo' : D₀ * L ≤ D' := by
      refine le_trans (le_of_eq ?_) hDlo; rw [hL, hlo]; ring
    have hDhi' : D' ≤ D₀ * H := by
      refine le_trans hDhi (le_of_eq ?_); rw [hH, hhi]; ring
    have hD'pos : 0 < D' := lt_of_lt_of_le (by positivity) hDlo'
    have hℓ : D₀ ≤ (1 / L) * D' := by
      rw [one_div, ← div_eq_inv_mul, le_div_iff₀ hLpos]; exact hDlo'
    have hh : (1 / H) * D' ≤ D₀ := by
      rw [one_div, ← div_eq_inv_mul, div_le_iff₀ hHpos]; exact hDhi'
    have hℓh := inv_add_inv_ge_two L H hLpos hHpos hLH
    have hsq : |q.sqrtfl c - rc| ≤ r.u * rc := q.err c hc
    obtain ⟨hN, hN'⟩ := num_round_error r (q.sqrtfl c) rc U V S3 ε₃ hrc0 hsq hUV hS3
    set a := (1 + ε₃) * (1 + r.u)^2 - 1 with hadef
    have ha : 0 ≤ a := by
      have h2 : (1:ℝ) ≤ (1 + r.u)^2 := one_le_pow₀ (by linarith)
      have : 1 ≤ (1 + ε₃) * (1 + r.u)^2 := one_le_mul_of_one_le_of_one_le (by linarith) h2
      rw [hadef]; linarith
    have hN'' : |r.fl (q.sqrtfl c * S3)| ≤ (1 + a) * (rc * V) := by
      rw [hadef]; refine le_trans hN' (le_of_eq ?_); ring
    have hN₀ : |rc * U| ≤ rc * V := by
      rw [abs_mul, abs_of_nonneg hrc0]; exact mul_le_mul_of_nonneg_left hUV hrc0
    have hq := quot_round_error_sharp r _ (rc * U) D' D₀ (rc * V) a (1 / L) (1 / H) hD₀pos hD'pos ha
      hℓ hh hℓh hN₀ hN hN''
    refine le_trans hq (le_of_eq ?_)
    rw [hadef]
    field_simp
    ring

/-! ## numerals -/

/-- `1/((1-ε)√(1-ε)) ≤ 1 + (9/4)·ε` for `0 ≤ ε ≤ 1/4` -/
theorem inv_lo_le_quarter (ε : ℝ) (h0 : 0 ≤ ε) (h1 : ε ≤ 1/4) :
    1 / ((1 - ε) * Real.sqrt (1 - ε)) ≤ 1 + 9/4 * ε := by
  have hs : 1 - ε/2 - ε^2/4 ≤ Real.sqrt (1 - ε) := by
    apply Real.le_sqrt_of_sq_le
    nlinarith [mul_nonneg h0 h0, mul_nonneg (mul_nonneg h0 h0) h0]
  have hpos : 0 < (1 - ε) * Real.sqrt (1 - ε) :=
    mul_pos (by linarith) (Real.sqrt_pos.mpr (by linarith))
  rw [div_le_iff₀ hpos]
  have h2 : (1 - ε) * (1 - ε/2 - ε^2/4) ≤ (1 - ε) * Real.sqrt (1 - ε) :=
    mul_le_mul_of_nonneg_left hs (by linarith)
  have h3 : 1 ≤ (1 + 9/4 * ε) * ((1 - ε) * (1 - ε/2 - ε^2/4)) := by
    have e : (1 + 9/4 * ε) * ((1 - ε) * (1 - ε/2 - ε^2/4)) - 1
        = ε * (3/4 - 25/8 * ε + 13/16 * ε^2 + 9/16 * ε^3) := by ring
    have : 0 ≤ 3/4 - 25/8 * ε + 13/16 * ε^2 + 9/16 * ε^3 := by
      nlinarith [mul_nonneg h0 h0, mul_nonneg (mul_nonneg h0 h0) h0]
    nlinarith [mul_nonneg h0 this]
  calc 1 ≤ (1 + 9/4 * ε) * ((1 - ε) * (1 - ε/2 - ε^2/4)) := h3
    _ ≤ (1 + 9/4 * ε) * ((1 - ε) * Real.sqrt (1 - ε)) :=
        mul_le_mul_of_nonneg_left h2 (by linarith)

/-- `1/((1-ε)√(1-ε)) ≤ 1 + (8/5)·ε` for `0 ≤ ε ≤ 1/32` -/
theorem inv_lo_le_small (ε : ℝ) (h0 : 0 ≤ ε) (h1 : ε ≤ 1/32) :
    1 / ((1 - ε) * Real.sqrt (1 - ε)) ≤ 1 + 8/5 * ε := by
  have hs : 1 - ε/2 - ε^2/4 ≤ Real.sqrt (1 - ε) := by
    apply Real.le_sqrt_of_sq_le
    nlinarith [mul_nonneg h0 h0, mul_nonneg (mul_nonneg h0 h0) h0]
  have hpos : 0 < (1 - ε) * Real.sqrt (1 - ε) :=
    mul_pos (by linarith) (Real.sqrt_pos.mpr (by linarith))
  rw [div_le_iff₀ hpos]
  have h2 : (1 - ε) * (1 - ε/2 - ε^2/4) ≤ (1 - ε) * Real.sqrt (1 - ε) :=
    mul_le_mul_of_nonneg_left hs (by linarith)
  have h3 : 1 ≤ (1 + 8/5 * ε) * ((1 - ε) * (1 - ε/2 - ε^2/4)) := by
    have e : (1 + 8/5 * ε) * ((1 - ε) * (1 - ε/2 - ε^2/4)) - 1
        = ε * (1/10 - 43/20 * ε + 13/20 * ε^2 + 2/5 * ε^3) := by ring
    have : 0 ≤ 1/10 - 43/20 * ε + 13/20 * ε^2 + 2/5 * ε^3 := by
      nlinarith [mul_nonneg h0 h0, mul_nonneg (mul_nonneg h0 h0) h0]
    nlinarith [mul_nonneg h0 this]
  calc 1 ≤ (1 + 8/5 * ε) * ((1 - ε) * (1 - ε/2 - ε^2/4)) := h3
    _ ≤ (1 + 8/5 * ε) * ((1 - ε) * Real.sqrt (1 - ε)) :=
        mul_le_mul_of_nonneg_left h2 (by linarith)

/-- the `u`-part of the factor: `(1+u)³/(1-u)² ≤ 1 + (251/50)·u` for `u ≤ 1/1856` -/
theorem u_part_le (u : ℝ) (hu : 0 ≤ u) (hu' : u ≤ 1/1856) :
    (1 + u)^3 / ((1 - u) * (1 - u)) ≤ 1 + 251/50 * u := by
  have hpos : 0 < (1 - u) * (1 - u) := by
    have : 0 < 1 - u := by linarith
    positivity
  rw [div_le_iff₀ hpos]
  nlinarith [mul_nonneg hu hu, mul_nonneg (mul_nonneg hu hu) hu]

/-- the sharp factor from a linear bound `1/lo ≤ 1 + c·ε₂`, `c·ε₂ ≤ d` -/
theorem skew_factor_sharp_aux (u ε₂ ε₃ c d invlo : ℝ) (hu : 0 ≤ u) (hu' : u ≤ 1/1856) (hε₂ : 0 ≤ ε₂)
    (hε₃ : 0 ≤ ε₃) (hc : 0 ≤ c) (hd : c * ε₂ ≤ d) (hinv0 : 0 ≤ invlo) (hinv : invlo ≤ 1 + c * ε₂) :
    (1 + ε₃) * ((1 + u)^3 / ((1 - u) * (1 - u))) * invlo - 1
      ≤ (1 + d + 251/50 * (1 + d) / 1856) * ε₃ + c * ε₂ + 251/50 * (1 + d) * u := by
  have hup := u_part_le u hu hu'
  have hup0 : 0 ≤ (1 + u)^3 / ((1 - u) * (1 - u)) := by
    have : 0 < 1 - u := by linarith
    positivity
  have hd0 : 0 ≤ d := le_trans (mul_nonneg hc hε₂) hd
  have h1 : (1 + u)^3 / ((1 - u) * (1 - u)) * invlo ≤ (1 + 251/50 * u) * (1 + c * ε₂) :=
    mul_le_mul hup hinv hinv0 (by linarith)
  have h2 : (1 + 251/50 * u) * (1 + c * ε₂) ≤ 1 + c * ε₂ + 251/50 * (1 + d) * u := by
    nlinarith [mul_nonneg hu (mul_nonneg hc hε₂)]
  have h3 : 1 + c * ε₂ + 251/50 * (1 + d) * u ≤ 1 + d + 251/50 * (1 + d) / 1856 := by
    have : 251/50 * (1 + d) * u ≤ 251/50 * (1 + d) * (1/1856) := by
      have : 0 ≤ 251/50 * (1 + d) := by positivity
      gcongr
    linarith
  set y := (1 + u)^3 / ((1 - u) * (1 - u)) * invlo with hy
  have hy' : y ≤ 1 + c * ε₂ + 251/50 * (1 + d) * u := le_trans h1 h2
  have e : (1 + ε₃) * ((1 + u)^3 / ((1 - u) * (1 - u))) * invlo - 1 = ε₃ * y + (y - 1) := by
    rw [hy]; ring
  rw [e]
  have : ε₃ * y ≤ ε₃ * (1 + d + 251/50 * (1 + d) / 1856) := by
    have := le_trans hy' h3
    gcongr
  linarith

/-- **Sharp factor, `ε₂ ≤ 1/4`** (`u ≤ 1/1856`):
`(1+ε₃)(1+u)³/((1-ε₂)√(1-ε₂)(1-u)²) - 1 ≤ (63/40)·ε₃ + (9/4)·ε₂ + 8·u`. -/
theorem skew_factor_sharp_quarter (u ε₂ ε₃ : ℝ) (hu : 0 ≤ u) (hu' : u ≤ 1/1856) (hε₂ : 0 ≤ ε₂)
    (hε₂' : ε₂ ≤ 1/4) (hε₃ : 0 ≤ ε₃) :
    (1 + ε₃) * (1 + u)^3 / ((1 - ε₂) * Real.sqrt (1 - ε₂) * ((1 - u) * (1 - u))) - 1
      ≤ 63/40 * ε₃ + 9/4 * ε₂ + 8 * u := by
  have hpos : 0 < (1 - ε₂) * Real.sqrt (1 - ε₂) :=
    mul_pos (by linarith) (Real.sqrt_pos.mpr (by linarith))
  have h := skew_factor_sharp_aux u ε₂ ε₃ (9/4) (9/16) (1 / ((1 - ε₂) * Real.sqrt (1 - ε₂))) hu hu'
    hε₂ hε₃ (by norm_num) (by linarith) (by positivity) (inv_lo_le_quarter ε₂ hε₂ hε₂')
  have e : (1 + ε₃) * (1 + u)^3 / ((1 - ε₂) * Real.sqrt (1 - ε₂) * ((1 - u) * (1 - u)))
      = (1 + ε₃) * ((1 + u)^3 / ((1 - u) * (1 - u))) * (1 / ((1 - ε₂) * Real.sqrt (1 - ε₂))) := by
    have : (1 - u) ≠ 0 := by linarith
    field_simp
  rw [e]
  refine le_trans h ?_
  nlinarith

/-- **Sharp factor, `ε₂ ≤ 1/32`** (`u ≤ 1/1856`):
`(1+ε₃)(1+u)³/((1-ε₂)√(1-ε₂)(1-u)²) - 1 ≤ (1053/1000)·ε₃ + (8/5)·ε₂ + (53/10)·u`. -/
theorem skew_factor_sharp_small (u ε₂ ε₃ : ℝ) (hu : 0 ≤ u) (hu' : u ≤ 1/1856) (hε₂ : 0 ≤ ε₂)
    (hε₂' : ε₂ ≤ 1/32) (hε₃ : 0 ≤ ε₃) :
    (1 + ε₃) * (1 + u)^3 / ((1 - ε₂) * Real.sqrt (1 - ε₂) * ((1 - u) * (1 - u))) - 1
      ≤ 1053/1000 * ε₃ + 8/5 * ε₂ + 53/10 * u := by
  have hpos : 0 < (1 - ε₂) * Real.sqrt (1 - ε₂) :=
    mul_pos (by linarith) (Real.sqrt_pos.mpr (by linarith))
  have h := skew_factor_sharp_aux u ε₂ ε₃ (8/5) (1/20) (1 / ((1 - ε₂) * Real.sqrt (1 - ε₂))) hu hu'
    hε₂ hε₃ (by norm_num) (by linarith) (by positivity) (inv_lo_le_small ε₂ hε₂ hε₂')
  have e : (1 + ε₃) * (1 + u)^3 / ((1 - ε₂) * Real.sqrt (1 - ε₂) * ((1 - u) * (1 - u)))
      = (1 + ε₃) * ((1 + u)^3 / ((1 - u) * (1 - u))) * (1 / ((1 - ε₂) * Real.sqrt (1 - ε₂))) := by
    have : (1 - u) ≠ 0 := by linarith
    field_simp
  rw [e]
  refine le_trans h ?_
  nlinarith

/-! ## the accessor on a state -/

/-- **The accessor on a state, sharp general form.** A non-empty state whose `sum_2`, `sum_3` approximate
`T > 0` and `U` with `|sum_2 - T| ≤ ε₂·T` (`0 ≤ ε₂ < 1`), `|sum_3 - U| ≤ ε₃·V`, `|U| ≤ V`; `u < 1`:
`|skewness() - √n·U/√(T³)| ≤ (√n·V/√(T³))·((1+ε₃)(1+u)³/((1-ε₂)√(1-ε₂)(1-u)²) - 1)`. -/
theorem skewness_error_sharp {r : Rnd2 ℝ} [FloatOps (RF2 r)] (q : RndSqrt r) (hs : SqrtIs q)
    (heq : ValEqb r) (s : Skewness (RF2 r)) (hn : s.avg.avg.n ≠ 0) (T U V ε₂ ε₃ : ℝ) (hT : 0 < T)
    (hUV : |U| ≤ V) (hε₂ : 0 ≤ ε₂) (hε₂1 : ε₂ < 1) (hε₃ : 0 ≤ ε₃) (hu1 : r.u < 1)
    (hS : |s.avg.sum_2.val - T| ≤ ε₂ * T) (hS3 : |s.sum_3.val - U| ≤ ε₃ * V) :
    |s.skewness.val - Real.sqrt (s.avg.avg.n : ℝ) * U / Real.sqrt (T * T * T)|
      ≤ Real.sqrt (s.avg.avg.n : ℝ) * V / Real.sqrt (T * T * T)
          * ((1 + ε₃) * (1 + r.u)^3
              / ((1 - ε₂) * Real.sqrt (1 - ε₂) * ((1 - r.u) * (1 - r.u))) - 1) := by
  rw [skewness_val q hs heq s hn]
  exact skew_core_sharp r q _ T U V _ _ ε₂ ε₃ (Nat.cast_nonneg _) hT hUV hε₂ hε₂1 hε₃ hu1 hS hS3

end SkewAcc

#print axioms SkewAcc.denom_between
#print axioms SkewAcc.quot_round_error_sharp
#print axioms SkewAcc.skew_core_sharp
#print axioms SkewAcc.skew_factor_sharp_quarter
#print axioms SkewAcc.skew_factor_sharp_small
#print axioms SkewAcc.skewness_error_sharp
