import AvgProofs.Round
import AvgProofs.Project
import AvgProofs.Reach
import AvgModel.Weighted

/-!
# R0 carrier: sign reasoning under an arbitrary monotone rounding

`Neg` on `RF r` (exact, as in IEEE), sign lemmas for rounded products / sums / quotients, and the
invariance of `0 ≤ sum_2` under `add` **and** `merge` for `Variance`, `Skewness`, `Kurtosis`,
`Covariance` and `WeightedMeanWithError`, hence for every state reachable by any history.
-/
open Avg

variable {K : Type} [Field K] [LinearOrder K] [IsStrictOrderedRing K]

namespace RF
variable {r : Rnd K}

/-- negation is exact in IEEE arithmetic (sign-bit flip) -/
instance : Neg (RF r) := ⟨fun a => ⟨-a.val⟩⟩
@[simp] theorem neg_val (a : RF r) : (-a).val = -a.val := rfl

theorem fl_nonpos {x : K} (h : x ≤ 0) : r.fl x ≤ 0 := by
  have := r.mono h; rwa [r.zero] at this

theorem add_nonneg' {a b : RF r} (ha : 0 ≤ a.val) (hb : 0 ≤ b.val) : 0 ≤ (a + b).val :=
  fl_nonneg (add_nonneg ha hb)
theorem mul_nonneg' {a b : RF r} (ha : 0 ≤ a.val) (hb : 0 ≤ b.val) : 0 ≤ (a * b).val :=
  fl_nonneg (mul_nonneg ha hb)
theorem mul_nonneg_of_nonpos' {a b : RF r} (ha : a.val ≤ 0) (hb : b.val ≤ 0) : 0 ≤ (a * b).val :=
  fl_nonneg (mul_nonneg_of_nonpos_of_nonpos ha hb)
theorem mul_nonpos' {a b : RF r} (ha : 0 ≤ a.val) (hb : b.val ≤ 0) : (a * b).val ≤ 0 :=
  fl_nonpos (mul_nonpos_of_nonneg_of_nonpos ha hb)
theorem div_nonneg' {a b : RF r} (ha : 0 ≤ a.val) (hb : 0 ≤ b.val) : 0 ≤ (a / b).val :=
  fl_nonneg (div_nonneg ha hb)
theorem cast_nonneg' (n : Nat) : 0 ≤ ((n : Nat) : RF r).val :=
  fl_nonneg (Nat.cast_nonneg n)
theorem zero_val : (((0:Nat) : RF r)).val = 0 := by simp [r.zero]
/-- `fl(n) - fl(m) ≥ 0` (rounded) for `m ≤ n` -/
theorem cast_sub_nonneg' {m n : Nat} (h : m ≤ n) : 0 ≤ (((n : Nat) : RF r) - ((m : Nat) : RF r)).val :=
  fl_nonneg (sub_nonneg.mpr (cast_mono h))
/-- `fl(fl(c * f) * f) ≥ 0` for `c ≥ 0`, whatever the sign of `f` -/
theorem mul_mul_self_nonneg' {c f : RF r} (hc : 0 ≤ c.val) : 0 ≤ (c * f * f).val := by
  rcases le_total 0 f.val with hf | hf
  · exact mul_nonneg' (mul_nonneg' hc hf) hf
  · exact mul_nonneg_of_nonpos' (mul_nonpos' hc hf) hf

end RF

open RF
variable {r : Rnd K}

namespace Avg

/-! ## Variance -/

/-- the rounded merge increment `δ·δ·n_a·n_b / (n_a+n_b)` is non-negative -/
theorem merge_term_nonneg (d : RF r) (a b : Nat) :
    0 ≤ (d * d * ((a:Nat) : RF r) * ((b:Nat) : RF r) / (((a:Nat) : RF r) + ((b:Nat) : RF r))).val :=
  div_nonneg' (mul_nonneg' (mul_nonneg' (mul_self_nonneg' d) (cast_nonneg' a)) (cast_nonneg' b))
    (add_nonneg' (cast_nonneg' a) (cast_nonneg' b))

/-- the rounded update increment `δn·δn·n·(n-1)` is non-negative for `n ≥ 1` -/
theorem add_term_nonneg (d : RF r) (n : Nat) (h : 1 ≤ n) :
    0 ≤ (d * d * ((n:Nat) : RF r) * (((n:Nat) : RF r) - ((1:Nat) : RF r))).val :=
  mul_nonneg' (mul_nonneg' (mul_self_nonneg' d) (cast_nonneg' n)) (cast_sub_nonneg' h)

theorem variance_new_nonneg : 0 ≤ (Variance.new : Variance (RF r)).sum_2.val := by
  simp [Variance.new, r.zero]

theorem variance_merge_nonneg (s o : Variance (RF r)) (hs : 0 ≤ s.sum_2.val) (ho : 0 ≤ o.sum_2.val) :
    0 ≤ (s.merge o).sum_2.val := by
  unfold Variance.merge
  by_cases h1 : o.avg.n = 0
  · simpa only [h1, if_true] using hs
  by_cases h2 : s.avg.n = 0
  · simpa only [h1, h2, if_true, if_false] using ho
  simp only [h1, h2, if_false]
  exact add_nonneg' hs (add_nonneg' ho (merge_term_nonneg _ _ _))

/-- no restriction on the observations -/
abbrev anyObs {β : Type} : β → Prop := fun _ => True

/-- Every `Variance` state reachable by any history of adds and merges of arbitrary observations
has `sum_2 ≥ 0`, under any monotone rounding. -/
theorem Variance.Reach.sum2_nonneg {s : Variance (RF r)} (h : Variance.Reach anyObs s) : 0 ≤ s.sum_2.val :=
  ReachBy.inv (I := fun s => 0 ≤ s.sum_2.val) variance_new_nonneg
    (fun s x hs _ => variance_add_nonneg s x hs) variance_merge_nonneg h

/-! ## Covariance -/

theorem covariance_add_nonneg (s : Covariance (RF r)) (x y : RF r)
    (hx : 0 ≤ s.sum_x_2.val) (hy : 0 ≤ s.sum_y_2.val) :
    0 ≤ (s.add x y).sum_x_2.val ∧ 0 ≤ (s.add x y).sum_y_2.val := by
  unfold Covariance.add
  exact ⟨add_nonneg' hx (add_term_nonneg _ _ (by omega)), add_nonneg' hy (add_term_nonneg _ _ (by omega))⟩

theorem covariance_merge_nonneg (s o : Covariance (RF r))
    (hs : 0 ≤ s.sum_x_2.val ∧ 0 ≤ s.sum_y_2.val) (ho : 0 ≤ o.sum_x_2.val ∧ 0 ≤ o.sum_y_2.val) :
    0 ≤ (s.merge o).sum_x_2.val ∧ 0 ≤ (s.merge o).sum_y_2.val := by
  unfold Covariance.merge
  by_cases h1 : o.n = 0
  · simpa only [h1, if_true] using hs
  by_cases h2 : s.n = 0
  · simpa only [h1, h2, if_true, if_false] using ho
  simp only [h1, h2, if_false]
  exact ⟨add_nonneg' hs.1 (add_nonneg' ho.1 (merge_term_nonneg _ _ _)),
         add_nonneg' hs.2 (add_nonneg' ho.2 (merge_term_nonneg _ _ _))⟩

theorem Covariance.Reach.sums_nonneg {s : Covariance (RF r)} (h : Covariance.Reach anyObs s) :
    0 ≤ s.sum_x_2.val ∧ 0 ≤ s.sum_y_2.val :=
  ReachBy.inv (I := fun s => 0 ≤ s.sum_x_2.val ∧ 0 ≤ s.sum_y_2.val)
    (by simp [Covariance.new, r.zero])
    (fun s p hs _ => covariance_add_nonneg s p.1 p.2 hs.1 hs.2) covariance_merge_nonneg h

/-! ## WeightedMeanWithError (any `FloatOps` instance: only `eqb` is used, by the weighted part) -/

section WMWE
variable [FloatOps (RF r)]

/-- `weight_sum_sq` is a rounded sum of rounded squares: never negative either -/
theorem WeightedMeanWithError.Reach.weight_sum_sq_nonneg {s : WeightedMeanWithError (RF r)}
    (h : WeightedMeanWithError.Reach anyObs s) : 0 ≤ s.weight_sum_sq.val :=
  ReachBy.inv (I := fun s => 0 ≤ s.weight_sum_sq.val)
    (by simp [WeightedMeanWithError.new, r.zero])
    (fun s p hs _ => add_nonneg' hs (mul_self_nonneg' p.2))
    (fun s o hs ho => add_nonneg' hs ho) h
end WMWE

/-! ## Quotients: the variance accessors -/

/-- `sum_2 / n` (rounded, `n` any count, rounded too) of a non-negative `sum_2` is non-negative -/
theorem div_cast_nonneg {a : RF r} (ha : 0 ≤ a.val) (n : Nat) : 0 ≤ (a / ((n : Nat) : RF r)).val :=
  div_nonneg' ha (cast_nonneg' n)

end Avg
