import AvgProofs.KurtMergeErrSpec
import AvgProofs.SkewMergeErrV3
import AvgProofs.KurtErrV4Hardy

/-!
# The scales `V3S`, `V4T` of a merge tree against `V3 = Σ|x - mean|³` and `Q = Σ(x - mean)⁴`

* `KurtMerge.V3S_le_V3`: `V3S t ≤ (320 + 10·height t)·V3(t.flatten)` - as for `SkewMerge.V3T` (`V3L ≤ 40·V3` at a
  leaf by `VR ≤ (35/2)·V3`, `VB ≤ (45/2)·V3`; the proof of `SkewMerge.absJ_le_V3c` bounds `|δ|³·w3a` by
  `|δ|³·n_x·n_y/n` first, so the node costs the same `10·Σ|x - c|³`).
* `KurtMerge.absJ4_le_Q4c`: one node costs at most `(35 + 11·C)·Σ_{node}(x - c)⁴` about any centre `c` when the
  third-order scales of the two children are at most `C·Σ|x - c|³` (Jensen for the two chunk means; Young
  `a²b² ≤ (a⁴+b⁴)/2` for the term in `T`, `a·b³ ≤ a⁴/4 + 3b⁴/4` for the term in `V3S`).
* `KurtMerge.V4T_le_Q`: `V4T t ≤ (257840 + 3555·h + 55·h²)·Q(t.flatten)`, `h = height t`. The leaves cost `16115·16`
  (`VA4 ≤ (2696/81)·Q`, `VB4 ≤ (1510/27)·Q`, `VE4 ≤ (1298080/81)·Q` about the own mean of the chunk, by Hardy and
  Copson for the exponent 4, and `Σ(x - own mean)⁴ ≤ 16·Σ(x - c)⁴`); a node whose children have height at most `H`
  costs `35 + 11·(320 + 10·H)`: the third cross term carries the third-order scales of the children, which grow
  linearly with their height, hence the quadratic growth.
-/
open Avg MSpec Finset VarSpec SkewSpec KurtSpec SkewErr KurtErr SkewMerge

namespace KurtMerge
variable {K : Type} [Field K] [LinearOrder K] [IsStrictOrderedRing K]

/-! ## the third-order scale -/

theorem V3L_le_V3 (vs : List K) : V3L vs ≤ 40 * V3 vs := by
  have h1 := VR_le_V3 vs
  have h2 := VB_le_V3 vs
  unfold V3L; linarith

/-- **One node of `V3S` costs at most ten times the sum of the absolute cubes of its data about any centre.** -/
theorem absJS_le_V3c (xs ys : List K) (hx : xs ≠ []) (hy : ys ≠ []) (c : K) :
    absJS xs ys ≤ 10 * V3c (xs ++ ys) c := by
  have hnx : (0 : K) < xs.length := by exact_mod_cast List.length_pos_of_ne_nil hx
  have hny : (0 : K) < ys.length := by exact_mod_cast List.length_pos_of_ne_nil hy
  set nx : K := (xs.length : K) with hnxd
  set ny : K := (ys.length : K) with hnyd
  have hn : 0 < nx + ny := by positivity
  set δ := mean ys - mean xs with hδ
  set D := |δ| with hD
  have hD0 : 0 ≤ D := abs_nonneg _
  have hjx := jensen_cube xs c
  have hjy := jensen_cube ys c
  rw [← hnxd] at hjx
  rw [← hnyd] at hjy
  have hVx := V3c_nonneg xs c
  have hVy := V3c_nonneg ys c
  rw [V3c_append]
  have hδ3 : D^3 ≤ 4 * (|mean ys - c|^3 + |mean xs - c|^3) := by
    have := abs_add_cube_le (mean ys - c) (c - mean xs)
    have e : mean ys - c + (c - mean xs) = δ := by rw [hδ]; ring
    rw [e, abs_sub_comm c (mean xs)] at this
    exact this
  set q := nx * ny / (nx + ny) with hq
  have hq0 : 0 ≤ q := by positivity
  have hqx : q ≤ nx := by
    rw [hq, div_le_iff₀ hn]; nlinarith
  have hqy : q ≤ ny := by
    rw [hq, div_le_iff₀ hn]; nlinarith
  have hDq : D^3 * q ≤ 4 * (V3c xs c + V3c ys c) := by
    have h1 : |mean ys - c|^3 * q ≤ |mean ys - c|^3 * ny := by gcongr
    have h2 : |mean xs - c|^3 * q ≤ |mean xs - c|^3 * nx := by gcongr
    calc D^3 * q ≤ 4 * (|mean ys - c|^3 + |mean xs - c|^3) * q := by gcongr
      _ = 4 * (|mean ys - c|^3 * q + |mean xs - c|^3 * q) := by ring
      _ ≤ 4 * (|mean ys - c|^3 * ny + |mean xs - c|^3 * nx) := by gcongr
      _ ≤ 4 * (V3c xs c + V3c ys c) := by linarith
  set db := D * nx / (nx + ny) with hdb
  set da := D * ny / (nx + ny) with hda
  have hdb0 : 0 ≤ db := by positivity
  have hda0 : 0 ≤ da := by positivity
  have hyy := young_sum ys db c hdb0
  have hyx := young_sum xs da c hda0
  rw [← hnyd] at hyy
  rw [← hnxd] at hyx
  have hTy := T_le_sumPow ys c
  have hTx := T_le_sumPow xs c
  have hcube : ny * (db^3 / 3) + nx * (da^3 / 3) ≤ D^3 * q / 3 := by
    have e : ny * (db^3 / 3) + nx * (da^3 / 3)
        = D^3 * q / 3 * ((nx^2 + ny^2) / (nx + ny)^2) := by
      rw [hdb, hda, hq]; field_simp
    rw [e]
    have h1 : (nx^2 + ny^2) / (nx + ny)^2 ≤ 1 := by
      rw [div_le_one (by positivity)]; nlinarith
    have h0 : 0 ≤ D^3 * q / 3 := by positivity
    nlinarith
  have hQ : absQ xs ys ≤ D^3 * q + 2 * (V3c xs c + V3c ys c) := by
    have e : absQ xs ys = 3 * (db * T ys + da * T xs) := by
      unfold absQ mixH
      rw [← hnxd, ← hnyd, ← hδ, ← hD, hdb, hda]; field_simp
    rw [e]
    have h1 : db * T ys ≤ db * sumPow ys c 2 := by gcongr
    have h2 : da * T xs ≤ da * sumPow xs c 2 := by gcongr
    linarith
  have hJ : absJS xs ys = D^3 * q + absQ xs ys := rfl
  rw [hJ]
  linarith

/-- for every centre `c`: `V3S t ≤ (320 + 10·height t)·Σ|x - c|³` -/
theorem V3S_le_V3c (t : MTree K) (c : K) :
    V3S t ≤ (320 + 10 * (height t : K)) * V3c t.flatten c := by
  induction t with
  | leaf xs =>
    rw [V3S_leaf, MTree.flatten_leaf]
    have h1 := V3L_le_V3 xs
    have h2 := V3_le_V3c xs c
    simp only [height, Nat.cast_zero, mul_zero, add_zero]
    linarith
  | node l r ihl ihr =>
    rw [V3S_node, MTree.flatten_node, V3c_append]
    have hVl := V3c_nonneg l.flatten c
    have hVr := V3c_nonneg r.flatten c
    have hhl : (height l : K) ≤ (max (height l) (height r) : ℕ) := by
      exact_mod_cast le_max_left _ _
    have hhr : (height r : K) ≤ (max (height l) (height r) : ℕ) := by
      exact_mod_cast le_max_right _ _
    have hJ : absJS l.flatten r.flatten ≤ 10 * (V3c l.flatten c + V3c r.flatten c) := by
      by_cases hy : r.flatten = []
      · have h0 : absJS l.flatten r.flatten = 0 := by rw [hy, absJS_nil_right]
        rw [h0]; linarith
      by_cases hx : l.flatten = []
      · have h0 : absJS l.flatten r.flatten = 0 := by rw [hx, absJS_nil_left]
        rw [h0]; linarith
      have := absJS_le_V3c l.flatten r.flatten hx hy c
      rwa [V3c_append] at this
    have e : ((height (MTree.node l r) : ℕ) : K) = ((max (height l) (height r) : ℕ) : K) + 1 := by
      simp [height]
    rw [e]
    set h := ((max (height l) (height r) : ℕ) : K) with hh
    have h1 : (320 + 10 * (height l : K)) * V3c l.flatten c ≤ (320 + 10 * h) * V3c l.flatten c := by
      gcongr
    have h2 : (320 + 10 * (height r : K)) * V3c r.flatten c ≤ (320 + 10 * h) * V3c r.flatten c := by
      gcongr
    nlinarith

/-- **`V3S t ≤ (320 + 10·height t)·V3`**, `V3 = Σ|x - mean|³` over the whole data. -/
theorem V3S_le_V3 (t : MTree K) : V3S t ≤ (320 + 10 * (height t : K)) * V3 t.flatten := by
  rw [V3_eq_V3c]; exact V3S_le_V3c t _

/-! ## fourth powers about an arbitrary centre -/

/-- `Σ (x - c)⁴` about an arbitrary centre -/
def Q4c (vs : List K) (c : K) : K := sumPow vs c 4

omit [LinearOrder K] [IsStrictOrderedRing K] in
theorem Q_eq_Q4c (vs : List K) : Q vs = Q4c vs (mean vs) := rfl

theorem Q4c_append (xs ys : List K) (c : K) : Q4c (xs ++ ys) c = Q4c xs c + Q4c ys c :=
  sumPow_append xs ys c 4

theorem Q4c_nonneg (vs : List K) (c : K) : 0 ≤ Q4c vs c := sumPow_four_nonneg vs c

/-- tangent line of the convex function `y⁴` at `e` -/
theorem pow4_tangent (y e : K) : e^4 + 4 * e^3 * (y - e) ≤ y^4 := by
  have h : y^4 - (e^4 + 4 * e^3 * (y - e)) = (y - e)^2 * ((y + e)^2 + 2 * e^2) := by ring
  have : 0 ≤ (y - e)^2 * ((y + e)^2 + 2 * e^2) := by positivity
  linarith

/-- **Jensen for fourth powers**: `n·(mean - c)⁴ ≤ Σ(x - c)⁴` -/
theorem jensen_pow4 (vs : List K) (c : K) : (vs.length : K) * (mean vs - c)^4 ≤ Q4c vs c := by
  set e := mean vs - c with he
  have hpt : ∀ x ∈ vs, e^4 - 4 * e^3 * e + 4 * e^3 * (x - c) ≤ (x - c)^4 := by
    intro x _
    have := pow4_tangent (x - c) e
    linarith
  have hsum := List.sum_le_sum hpt
  have e1 : (vs.map (fun x => e^4 - 4 * e^3 * e + 4 * e^3 * (x - c))).sum
      = (vs.length : K) * e^4 := by
    rw [sum_affine, sumPow_one]
    by_cases hnil : vs = []
    · subst hnil; simp
    have hn : (vs.length : K) ≠ 0 := by simp [hnil]
    have hm : vs.sum = (vs.length : K) * mean vs := by
      unfold mean; field_simp
    rw [hm, he]; ring
  rw [e1] at hsum
  exact hsum

/-- the sum of the fourth powers about the own mean is at most 16 times that about any centre -/
theorem Q_le_Q4c (vs : List K) (c : K) : Q vs ≤ 16 * Q4c vs c := by
  have hpt : ∀ x ∈ vs, (x - mean vs)^4 ≤ 8 * (mean vs - c)^4 + 8 * (x - c)^4 := by
    intro x _
    have := add_pow4_le (x - c) (c - mean vs)
    have e : x - c + (c - mean vs) = x - mean vs := by ring
    have e2 : (c - mean vs)^4 = (mean vs - c)^4 := by ring
    rw [e, e2] at this
    linarith
  have hsum := List.sum_le_sum hpt
  rw [sum_map_affine vs (8 * (mean vs - c)^4) 8 (fun x => (x - c)^4)] at hsum
  have hj := jensen_pow4 vs c
  have : Q vs ≤ (vs.length : K) * (8 * (mean vs - c)^4) + 8 * Q4c vs c := hsum
  linarith

/-- Young's inequality `a²·b² ≤ a⁴/2 + b⁴/2` summed over a list -/
theorem young22_sum (vs : List K) (a c : K) :
    a^2 * sumPow vs c 2 ≤ (vs.length : K) * (a^4 / 2) + 1/2 * Q4c vs c := by
  have hpt : ∀ x ∈ vs, a^2 * (x - c)^2 ≤ a^4 / 2 + 1/2 * (x - c)^4 := by
    intro x _
    nlinarith [sq_nonneg (a^2 - (x - c)^2)]
  have hsum := List.sum_le_sum hpt
  rw [sum_map_affine vs (a^4 / 2) (1/2) (fun x => (x - c)^4)] at hsum
  have e1 : (vs.map (fun x => a^2 * (x - c)^2)).sum = a^2 * sumPow vs c 2 := by
    unfold sumPow; rw [List.sum_map_mul_left]
  rw [e1] at hsum
  exact hsum

/-- Young's inequality `a·|b|³ ≤ a⁴/4 + 3b⁴/4` summed over a list -/
theorem young13_sum (vs : List K) (a c : K) (_ha : 0 ≤ a) :
    a * V3c vs c ≤ (vs.length : K) * (a^4 / 4) + 3/4 * Q4c vs c := by
  have hpt : ∀ x ∈ vs, a * |x - c|^3 ≤ a^4 / 4 + 3/4 * (x - c)^4 := by
    intro x _
    have h := young4 |x - c| a
    have e : |x - c|^4 = (x - c)^4 := by
      have : (x - c)^4 = ((x - c)^2)^2 := by ring
      rw [this, ← sq_abs (x - c)]; ring
    rw [e] at h
    linarith
  have hsum := List.sum_le_sum hpt
  rw [sum_map_affine vs (a^4 / 4) (3/4) (fun x => (x - c)^4)] at hsum
  have e1 : (vs.map (fun x => a * |x - c|^3)).sum = a * V3c vs c := by
    unfold V3c; rw [List.sum_map_mul_left]
  rw [e1] at hsum
  exact hsum

/-- `q = n_x·n_y/n ≤ n_x, n_y` -/
theorem q_le (nx ny : K) (hnx : 0 < nx) (hny : 0 < ny) :
    0 ≤ nx * ny / (nx + ny) ∧ nx * ny / (nx + ny) ≤ nx ∧ nx * ny / (nx + ny) ≤ ny := by
  have hn : 0 < nx + ny := by positivity
  refine ⟨by positivity, ?_, ?_⟩
  · rw [div_le_iff₀ hn]; nlinarith
  · rw [div_le_iff₀ hn]; nlinarith

/-- `n_y·(D·n_x/n)⁴ + n_x·(D·n_y/n)⁴ ≤ D⁴·n_x·n_y/n` -/
theorem four_weights (nx ny D : K) (hnx : 0 < nx) (hny : 0 < ny) (_hD : 0 ≤ D) :
    ny * (D * nx / (nx + ny))^4 + nx * (D * ny / (nx + ny))^4 ≤ D^4 * (nx * ny / (nx + ny)) := by
  have hn : 0 < nx + ny := by positivity
  have e : ny * (D * nx / (nx + ny))^4 + nx * (D * ny / (nx + ny))^4
      = D^4 * (nx * ny / (nx + ny)) * ((nx^3 + ny^3) / (nx + ny)^3) := by
    field_simp
  rw [e]
  have h1 : (nx^3 + ny^3) / (nx + ny)^3 ≤ 1 := by
    rw [div_le_one (by positivity)]
    have : 0 ≤ nx * ny * (nx + ny) := by positivity
    nlinarith
  have h0 : 0 ≤ D^4 * (nx * ny / (nx + ny)) := by positivity
  nlinarith

/-- `D⁴·q ≤ 8·(Q4_x + Q4_y)` from Jensen for the two chunk means -/
theorem Dq4_le (nx ny q D mx my Q4x Q4y : K) (hq0 : 0 ≤ q) (hqx : q ≤ nx) (hqy : q ≤ ny)
    (hmx : 0 ≤ mx) (hmy : 0 ≤ my) (hjx : nx * mx ≤ Q4x) (hjy : ny * my ≤ Q4y)
    (hδ4 : D^4 ≤ 8 * (my + mx)) : D^4 * q ≤ 8 * (Q4x + Q4y) := by
  have h1 : my * q ≤ my * ny := by gcongr
  have h2 : mx * q ≤ mx * nx := by gcongr
  calc D^4 * q ≤ 8 * (my + mx) * q := by gcongr
    _ = 8 * (my * q + mx * q) := by ring
    _ ≤ 8 * (my * ny + mx * nx) := by gcongr
    _ ≤ 8 * (Q4x + Q4y) := by linarith

/-- the arithmetic of one node: the three parts against `D⁴·q` and the fourth powers -/
theorem node4_sum (C Dq Q4 P Qc R : K) (hC : 0 ≤ C) (hDq : Dq ≤ 8 * Q4)
    (hP : P ≤ Dq) (hQc : Qc ≤ 3 * Dq + 3 * Q4) (hR : R ≤ C * Dq + 3 * C * Q4) :
    P + Qc + R ≤ (35 + 11 * C) * Q4 := by
  have hCD : C * Dq ≤ C * (8 * Q4) := by gcongr
  nlinarith

/-- **One node of `V4T` costs at most `(35 + 11·C)` times the sum of the fourth powers of its data about any
centre**, when the third-order scales of the children are at most `C` times their sums of absolute cubes. -/
theorem absJ4_le_Q4c (xs ys : List K) (hx : xs ≠ []) (hy : ys ≠ []) (c C Vx Vy : K) (hC : 0 ≤ C)
    (_hVx0 : 0 ≤ Vx) (_hVy0 : 0 ≤ Vy) (hVx : Vx ≤ C * V3c xs c) (hVy : Vy ≤ C * V3c ys c) :
    absJ4 xs ys Vx Vy ≤ (35 + 11 * C) * Q4c (xs ++ ys) c := by
  have hnx : (0 : K) < xs.length := by exact_mod_cast List.length_pos_of_ne_nil hx
  have hny : (0 : K) < ys.length := by exact_mod_cast List.length_pos_of_ne_nil hy
  have hw := w4_le_mergeW xs ys hx
  have hw0 := w4_nonneg xs ys
  set nx : K := (xs.length : K) with hnxd
  set ny : K := (ys.length : K) with hnyd
  have hn : 0 < nx + ny := by positivity
  set δ := mean ys - mean xs with hδ
  set D := |δ| with hD
  have hD0 : 0 ≤ D := abs_nonneg _
  have hD4 : δ^4 = D^4 := by
    have : δ^4 = (δ^2)^2 := by ring
    rw [this, ← sq_abs δ]; ring
  have hD2 : δ^2 = D^2 := (sq_abs δ).symm
  have hjx := jensen_pow4 xs c
  have hjy := jensen_pow4 ys c
  rw [← hnxd] at hjx
  rw [← hnyd] at hjy
  have hQx := Q4c_nonneg xs c
  have hQy := Q4c_nonneg ys c
  rw [Q4c_append]
  have hδ4 : D^4 ≤ 8 * ((mean ys - c)^4 + (mean xs - c)^4) := by
    have := add_pow4_le (mean ys - c) (c - mean xs)
    have e : mean ys - c + (c - mean xs) = δ := by rw [hδ]; ring
    have e2 : (c - mean xs)^4 = (mean xs - c)^4 := by ring
    rw [e, e2, hD4] at this
    exact this
  set q := nx * ny / (nx + ny) with hq
  obtain ⟨hq0, hqx, hqy⟩ := q_le nx ny hnx hny
  rw [← hq] at hq0 hqx hqy
  have hDq : D^4 * q ≤ 8 * (Q4c xs c + Q4c ys c) :=
    Dq4_le nx ny q D ((mean xs - c)^4) ((mean ys - c)^4) (Q4c xs c) (Q4c ys c) hq0 hqx hqy
      (by positivity) (by positivity) hjx hjy hδ4
  -- the first part
  have hP : crossP4 xs ys ≤ D^4 * q := by
    unfold crossP4
    rw [← hδ, hD4]
    have : w4 xs ys ≤ q := hw
    gcongr
  -- the weights of the two other parts
  set db := D * nx / (nx + ny) with hdb
  set da := D * ny / (nx + ny) with hda
  have hdb0 : 0 ≤ db := by positivity
  have hda0 : 0 ≤ da := by positivity
  have hfour : ny * db^4 + nx * da^4 ≤ D^4 * q := four_weights nx ny D hnx hny hD0
  -- the second part, by Young
  have hTy := T_le_sumPow ys c
  have hTx := T_le_sumPow xs c
  have h22y := young22_sum ys db c
  have h22x := young22_sum xs da c
  rw [← hnyd] at h22y
  rw [← hnxd] at h22x
  have hQc : crossQ4 xs ys ≤ 3 * (D^4 * q) + 3 * (Q4c xs c + Q4c ys c) := by
    have e : crossQ4 xs ys = 6 * (db^2 * T ys + da^2 * T xs) := by
      unfold crossQ4 mixK
      rw [← hnxd, ← hnyd, ← hδ, div_pow, hD2, hdb, hda]; field_simp
    rw [e]
    have h1 : db^2 * T ys ≤ db^2 * sumPow ys c 2 := by gcongr
    have h2 : da^2 * T xs ≤ da^2 * sumPow xs c 2 := by gcongr
    linarith
  -- the third part, by Young
  have h13y := young13_sum ys db c hdb0
  have h13x := young13_sum xs da c hda0
  rw [← hnyd] at h13y
  rw [← hnxd] at h13x
  have hR : absRV xs ys Vx Vy ≤ C * (D^4 * q) + 3 * C * (Q4c xs c + Q4c ys c) := by
    have e : absRV xs ys Vx Vy = 4 * (db * Vy + da * Vx) := by
      unfold absRV
      rw [← hnxd, ← hnyd, ← hδ, ← hD, hdb, hda]; field_simp
    rw [e]
    have h1 : db * Vy ≤ C * (db * V3c ys c) := by
      calc db * Vy ≤ db * (C * V3c ys c) := by gcongr
        _ = C * (db * V3c ys c) := by ring
    have h2 : da * Vx ≤ C * (da * V3c xs c) := by
      calc da * Vx ≤ da * (C * V3c xs c) := by gcongr
        _ = C * (da * V3c xs c) := by ring
    have h3 : C * (db * V3c ys c) ≤ C * (ny * (db^4 / 4) + 3/4 * Q4c ys c) := by gcongr
    have h4 : C * (da * V3c xs c) ≤ C * (nx * (da^4 / 4) + 3/4 * Q4c xs c) := by gcongr
    have h5 : C * (ny * db^4 + nx * da^4) ≤ C * (D^4 * q) := by gcongr
    have e5 : C * (ny * (db^4 / 4) + 3/4 * Q4c ys c) + C * (nx * (da^4 / 4) + 3/4 * Q4c xs c)
        = 1/4 * (C * (ny * db^4 + nx * da^4)) + 3/4 * C * (Q4c xs c + Q4c ys c) := by ring
    linarith
  unfold absJ4
  exact node4_sum C (D^4 * q) (Q4c xs c + Q4c ys c) _ _ _ hC hDq hP hQc hR

/-! ## the fourth-order scale -/

/-- **`VE4 ≤ (1298080/81)·Q`** (as `KurtErr.VD4_le_Q`, with `V3L ≤ 40·V3` in the place of `V3p ≤ 40·V3`) -/
theorem VE4_le_Q (vs : List K) : VE4 vs ≤ 1298080/81 * Q vs := by
  have hterm : ∀ k ∈ range vs.length, incD4 k (dev vs k) (V3L (vs.take k))
      ≤ 1280 * (bb vs k / (k : K) * S3 vs k) := by
    intro k hk
    have hk' := mem_range.mp hk
    unfold incD4
    rcases Nat.eq_zero_or_pos k with h0 | h0
    · subst h0; simp [V3L_nil]
    · have hkpos : (0 : K) < k := by exact_mod_cast h0
      have hd := abs_dev_le_adev vs k h0 hk'
      have hV : V3L (vs.take k) ≤ 40 * (8 * S3 vs k) :=
        le_trans (V3L_le_V3 (vs.take k))
          (mul_le_mul_of_nonneg_left (V3_take_le vs k h0 (le_of_lt hk')) (by norm_num))
      have hV0 := V3L_nonneg (vs.take k)
      have hS := S3_nonneg vs k
      have hb := bb_nonneg vs k
      calc 4 * |dev vs k| * V3L (vs.take k) / ((k : K) + 1)
          ≤ 4 * bb vs k * (40 * (8 * S3 vs k)) / (k : K) := by
            unfold bb at hb ⊢
            gcongr
            linarith
        _ = 1280 * (bb vs k / (k : K) * S3 vs k) := by ring
  unfold VE4
  refine le_trans (sum_le_sum hterm) ?_
  rw [← mul_sum]
  have := tail_core vs
  linarith

/-- the leaf scale of fourth order is at most `16115·Q` -/
theorem V4L_le_Q (vs : List K) : V4L vs ≤ 16115 * Q vs := by
  unfold V4L
  have h1 := VA4_le_Q vs
  have h2 := VB4_le_Q vs
  have h3 := VE4_le_Q vs
  have hQ := Q_nonneg vs
  linarith

/-- for every centre `c`: `V4T t ≤ (257840 + 3555·h + 55·h²)·Σ(x - c)⁴`, `h = height t` -/
theorem V4T_le_Q4c (t : MTree K) (c : K) :
    V4T t ≤ (257840 + 3555 * (height t : K) + 55 * (height t : K)^2) * Q4c t.flatten c := by
  induction t with
  | leaf xs =>
    rw [V4T_leaf, MTree.flatten_leaf]
    have h1 := V4L_le_Q xs
    have h2 := Q_le_Q4c xs c
    simp only [height, Nat.cast_zero, mul_zero, add_zero]
    have : (0 : K)^2 = 0 := by norm_num
    rw [this, mul_zero, add_zero]
    linarith
  | node l r ihl ihr =>
    rw [V4T_node, MTree.flatten_node, Q4c_append]
    have hQl := Q4c_nonneg l.flatten c
    have hQr := Q4c_nonneg r.flatten c
    have hhl : (height l : K) ≤ (max (height l) (height r) : ℕ) := by
      exact_mod_cast le_max_left _ _
    have hhr : (height r : K) ≤ (max (height l) (height r) : ℕ) := by
      exact_mod_cast le_max_right _ _
    have hl0 : (0 : K) ≤ (height l : K) := Nat.cast_nonneg _
    have hr0 : (0 : K) ≤ (height r : K) := Nat.cast_nonneg _
    have e : ((height (MTree.node l r) : ℕ) : K) = ((max (height l) (height r) : ℕ) : K) + 1 := by
      simp [height]
    rw [e]
    set h := ((max (height l) (height r) : ℕ) : K) with hh
    have hh0 : 0 ≤ h := le_trans hl0 hhl
    have hJ : absJ4 l.flatten r.flatten (V3S l) (V3S r)
        ≤ (35 + 11 * (320 + 10 * h)) * (Q4c l.flatten c + Q4c r.flatten c) := by
      by_cases hy : r.flatten = []
      · have h0 : absJ4 l.flatten r.flatten (V3S l) (V3S r) = 0 := by
          rw [hy, V3S_empty r hy, absJ4_nil_right]
        rw [h0]; positivity
      by_cases hx : l.flatten = []
      · have h0 : absJ4 l.flatten r.flatten (V3S l) (V3S r) = 0 := by
          rw [hx, V3S_empty l hx, absJ4_nil_left]
        rw [h0]; positivity
      have hVl : V3S l ≤ (320 + 10 * h) * V3c l.flatten c := by
        refine le_trans (V3S_le_V3c l c) ?_
        have := V3c_nonneg l.flatten c
        gcongr
      have hVr : V3S r ≤ (320 + 10 * h) * V3c r.flatten c := by
        refine le_trans (V3S_le_V3c r c) ?_
        have := V3c_nonneg r.flatten c
        gcongr
      have := absJ4_le_Q4c l.flatten r.flatten hx hy c (320 + 10 * h) (V3S l) (V3S r) (by positivity)
        (V3S_nonneg l) (V3S_nonneg r) hVl hVr
      rwa [Q4c_append] at this
    have hsl : (height l : K)^2 ≤ h^2 := by gcongr
    have hsr : (height r : K)^2 ≤ h^2 := by gcongr
    have h1 : (257840 + 3555 * (height l : K) + 55 * (height l : K)^2) * Q4c l.flatten c
        ≤ (257840 + 3555 * h + 55 * h^2) * Q4c l.flatten c := by gcongr
    have h2 : (257840 + 3555 * (height r : K) + 55 * (height r : K)^2) * Q4c r.flatten c
        ≤ (257840 + 3555 * h + 55 * h^2) * Q4c r.flatten c := by gcongr
    have e2 : (257840 + 3555 * (h + 1) + 55 * (h + 1)^2) * (Q4c l.flatten c + Q4c r.flatten c)
        = (257840 + 3555 * h + 55 * h^2) * Q4c l.flatten c
          + (257840 + 3555 * h + 55 * h^2) * Q4c r.flatten c
          + (35 + 11 * (320 + 10 * h)) * (Q4c l.flatten c + Q4c r.flatten c)
          + 55 * (Q4c l.flatten c + Q4c r.flatten c) := by ring
    rw [e2]
    have : 0 ≤ 55 * (Q4c l.flatten c + Q4c r.flatten c) := by positivity
    linarith

/-- **`V4T t ≤ (257840 + 3555·h + 55·h²)·Q`**, `Q = Σ(x - mean)⁴` over the whole data, `h = height t`. -/
theorem V4T_le_Q (t : MTree K) :
    V4T t ≤ (257840 + 3555 * (height t : K) + 55 * (height t : K)^2) * Q t.flatten := by
  rw [Q_eq_Q4c]; exact V4T_le_Q4c t _

end KurtMerge

#print axioms KurtMerge.V3S_le_V3
#print axioms KurtMerge.absJ4_le_Q4c
#print axioms KurtMerge.V4T_le_Q
