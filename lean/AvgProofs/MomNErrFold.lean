import AvgProofs.MomNErrSpec
import AvgProofs.MomentsVarErr
import AvgProofs.SkewErrFold

/-!
# The third-order entry `m[1]` of `define_moments!` under the standard model of rounding: induction

`mom3_fold_error_gen`: every order `N ≥ 3`, every add-only stream `xs` at the carrier `RF2 r` (negation exact):
if for every prefix `ys` the running mean is within `E |ys|` of the exact mean and the computed `m[0]` within
`F |ys|` of the exact sum of squares, then with `n = |xs|`, `γ_i = (1+u)^i - 1`

`|m[1] - U| ≤ (1+u)^(2n)·Σ_{i<n} [ γ18·|d_i|³cM_i + γ6·3|d_i|T_i/(i+1)
      + (1+γ18)·cM_i·(3d_i²E_i + 3|d_i|E_i² + E_i³) + (1+γ6)·(3/(i+1))·(|d_i|F_i + E_i·T_i + E_i·F_i) ]
      + ((1+u)^(2n) - 1)·V3m`.

Two rounded additions per step (`fl(fl(m1 + P) + Q)`), hence the exponent `2n`.
-/
open Avg MSpec Finset VarSpec SkewSpec SkewErr MomVarErr

namespace MomNErr
variable {K : Type} [Field K] [LinearOrder K] [IsStrictOrderedRing K]

/-- the contribution of one observation (index `i`, deviation `d`, exact sum of squares `Ti` of its
predecessors) to the error bound of `m[1]` -/
def stepTermM (u : K) (E F : ℕ → K) (i : ℕ) (d Ti : K) : K :=
  g u 18 * incAM i d + g u 6 * incB i d Ti
    + (1 + g u 18) * (cM i * (3 * d^2 * E i + 3 * |d| * (E i)^2 + (E i)^3))
    + (1 + g u 6) * (3 / ((i : K) + 1) * (|d| * F i + E i * Ti + E i * F i))

/-- the accumulated bound: sum of `stepTermM` over the stream -/
def errSumM (u : K) (E F : ℕ → K) (vs : List K) : K :=
  ∑ i ∈ range vs.length, stepTermM u E F i (dev vs i) (T (vs.take i))

omit [IsStrictOrderedRing K] in
theorem errSumM_snoc (u : K) (E F : ℕ → K) (vs : List K) (x : K) :
    errSumM u E F (vs ++ [x]) = errSumM u E F vs + stepTermM u E F vs.length (x - mean vs) (T vs) :=
  sum_pref_snoc (fun i d t => stepTermM u E F i d t) vs x

theorem stepTermM_nonneg {u : K} (hu : 0 ≤ u) {E F : ℕ → K} (hE : ∀ i, 0 ≤ E i) (hF : ∀ i, 0 ≤ F i)
    (i : ℕ) (d Ti : K) (hT : 0 ≤ Ti) : 0 ≤ stepTermM u E F i d Ti := by
  have h18 := g_nonneg hu 18
  have h6 := g_nonneg hu 6
  have hA := incAM_nonneg i d
  have hB := incB_nonneg i d Ti hT
  have hc := cM_nonneg (K := K) i
  have hEi := hE i
  have hFi := hF i
  unfold stepTermM
  positivity

/-- the algebra of one induction step -/
theorem mom3_absorb (u P S X V V' W1 W2 D : K) (hu : 0 ≤ u) (hP : 1 ≤ P) (hX : 0 ≤ X)
    (hVV : V ≤ V') (hW1 : W1 ≤ V') (hW2 : W2 ≤ V') (hD : D ≤ P * S + (P - 1) * V) :
    (1 + u)^2 * (D + X) + (1 + u) * u * W1 + u * W2
      ≤ ((1 + u)^2 * P) * (S + X) + ((1 + u)^2 * P - 1) * V' := by
  have h1 : D + X ≤ P * S + (P - 1) * V' + P * X := by
    have : (P - 1) * V ≤ (P - 1) * V' := mul_le_mul_of_nonneg_left hVV (by linarith)
    have : X ≤ P * X := by nlinarith
    linarith
  have h2 := mul_le_mul_of_nonneg_left h1 (by positivity : 0 ≤ (1 + u)^2)
  have h3 : (1 + u) * u * W1 ≤ (1 + u) * u * V' := mul_le_mul_of_nonneg_left hW1 (by positivity)
  have h4 : u * W2 ≤ u * V' := mul_le_mul_of_nonneg_left hW2 hu
  have e : ((1 + u)^2 * P) * (S + X) + ((1 + u)^2 * P - 1) * V'
      = (1 + u)^2 * (P * S + (P - 1) * V' + P * X) + (1 + u) * u * V' + u * V' := by ring
  rw [e]; linarith

/-- the algebra of `mom3_step_bd` -/
theorem step_arith (u D a1 ΔA ΔA' b1 ΔB ΔB' gA gB W W2 : K) (hu : 0 ≤ u) (hgA : 0 ≤ gA)
    (hgB : 0 ≤ gB) (hb1 : 0 ≤ b1) (hΔB : 0 ≤ ΔB) (hA : ΔA ≤ ΔA') (hB : ΔB ≤ ΔB') :
    (1 + u) * ((1 + u) * (D + gA * a1 + (1 + gA) * ΔA) + u * W + gB * b1 + (1 + gB) * ΔB) + u * W2
      ≤ (1 + u)^2 * (D + (gA * a1 + gB * b1 + (1 + gA) * ΔA' + (1 + gB) * ΔB'))
        + (1 + u) * u * W + u * W2 := by
  have qA := mul_le_mul_of_nonneg_left hA (by linarith : 0 ≤ 1 + gA)
  have qB := mul_le_mul_of_nonneg_left hB (by linarith : 0 ≤ 1 + gB)
  have hb0 : 0 ≤ gB * b1 + (1 + gB) * ΔB := by positivity
  have hb : gB * b1 + (1 + gB) * ΔB ≤ (1 + u) * (gB * b1 + (1 + gB) * ΔB) := by nlinarith
  have h1u : 0 ≤ 1 + u := by linarith
  have hin : (1 + u) * (D + gA * a1 + (1 + gA) * ΔA) + u * W + gB * b1 + (1 + gB) * ΔB
      ≤ (1 + u) * (D + (gA * a1 + gB * b1 + (1 + gA) * ΔA' + (1 + gB) * ΔB')) + u * W := by
    have := mul_le_mul_of_nonneg_left (add_le_add qA qB) h1u
    linarith
  have := mul_le_mul_of_nonneg_left hin h1u
  have e : (1 + u)^2 * (D + (gA * a1 + gB * b1 + (1 + gA) * ΔA' + (1 + gB) * ΔB'))
      = (1 + u) * ((1 + u) * (D + (gA * a1 + gB * b1 + (1 + gA) * ΔA' + (1 + gB) * ΔB'))) := by ring
  rw [e]; linarith

/-- the one-step lemma with the errors of the mean and of `m[0]` replaced by bounds -/
theorem mom3_step_bd (r : Rnd2 K) (E F : ℕ → K) (i : ℕ) (x a μ m0 Tv m1 Uv : K) (hT : 0 ≤ Tv)
    (he : |a - μ| ≤ E i) (hD : |m0 - Tv| ≤ F i) :
    let k : K := (i : K) + 1
    let P := r.fl (r.fl (r.fl (r.fl (r.fl (r.fl (k - 1) * -(r.fl (1 / k))) * -(r.fl (1 / k)))
                * -(r.fl (1 / k)))
              + r.fl (r.fl (r.fl (r.fl (k - 1) * r.fl (1 / k)) * r.fl (r.fl (k - 1) * r.fl (1 / k)))
                  * r.fl (r.fl (k - 1) * r.fl (1 / k))))
          * r.fl (r.fl (r.fl (x - a) * r.fl (x - a)) * r.fl (x - a)))
    let Q := r.fl (r.fl (3 * m0) * r.fl (1 * r.fl (-(r.fl (x - a)) * r.fl (1 / k))))
    |r.fl (r.fl (m1 + P) + Q)
        - (Uv + ((x - μ)^3 * cA i - 3 * (x - μ) * Tv / ((i : K) + 1)))|
      ≤ (1 + r.u)^2 * (|m1 - Uv| + stepTermM r.u E F i (x - μ) Tv)
        + (1 + r.u) * r.u * |Uv + (x - μ)^3 * cA i|
        + r.u * |Uv + ((x - μ)^3 * cA i - 3 * (x - μ) * Tv / ((i : K) + 1))| := by
  intro k P Q
  have hu := r.u_nonneg
  have hi0 : (0 : K) ≤ i := Nat.cast_nonneg i
  have hk1 : (1 : K) ≤ (i : K) + 1 := by linarith
  have hkpos : (0 : K) < (i : K) + 1 := by linarith
  have hc' : ((i : K) + 1 - 1) * ((i : K) + 1 - 2) / ((i : K) + 1)^2 = cA i := by
    unfold cA; congr 1; ring
  have step := mom3_step_error r.fl r.u hu r.err x a μ m0 Tv m1 Uv ((i : K) + 1) hk1 hT
  simp only [hc', cab_succ] at step
  refine le_trans step ?_
  have h18 := g_nonneg hu 18
  have h6 := g_nonneg hu 6
  have hcM := cM_nonneg (K := K) i
  have he0 : 0 ≤ |a - μ| := abs_nonneg _
  have hD0 : 0 ≤ |m0 - Tv| := abs_nonneg _
  have hd0 : 0 ≤ |x - μ| := abs_nonneg _
  have hBs : |3 * (x - μ) * Tv / ((i : K) + 1)| = incB i (x - μ) Tv := by
    unfold incB
    rw [abs_div, abs_mul, abs_mul, abs_of_pos hkpos, abs_of_nonneg hT,
      abs_of_pos (by norm_num : (0:K) < 3)]
  have hsq : (a - μ)^2 ≤ (E i)^2 := by
    rw [← sq_abs (a - μ)]; gcongr
  have hcu : |a - μ|^3 ≤ (E i)^3 := by gcongr
  have hE0 : 0 ≤ E i := le_trans he0 he
  have hΔA : cM i * (3 * (x - μ)^2 * |a - μ| + 3 * |x - μ| * (a - μ)^2 + |a - μ|^3)
      ≤ cM i * (3 * (x - μ)^2 * E i + 3 * |x - μ| * (E i)^2 + (E i)^3) := by gcongr
  have hΔB : 3 / ((i : K) + 1) * (|x - μ| * |m0 - Tv| + |a - μ| * Tv + |a - μ| * |m0 - Tv|)
      ≤ 3 / ((i : K) + 1) * (|x - μ| * F i + E i * Tv + E i * F i) := by gcongr
  rw [hBs]
  have hB0 := incB_nonneg i (x - μ) Tv hT
  have hΔB0 : 0 ≤ 3 / ((i : K) + 1) * (|x - μ| * |m0 - Tv| + |a - μ| * Tv + |a - μ| * |m0 - Tv|) := by
    positivity
  unfold stepTermM incAM
  exact step_arith r.u _ _ _ _ _ _ _ _ _ _ _ hu h18 h6 hB0 hΔB0 hΔA hΔB

section fold
variable {r : Rnd2 K} [Neg (RF2 r)]

theorem mfold_new_m1 (N : Nat) : (mfold N ([] : List (RF2 r))).m1.val = 0 := by
  show (Moments.new N : Moments (RF2 r)).m1.val = 0
  rw [Moments.new_m1]
  exact (Nat.cast_zero : ((0 : ℕ) : K) = 0)

/-- **General induction.** -/
theorem mom3_fold_error_gen (hneg : NegExact r) (N : Nat) (hN : 3 ≤ N) (E F : ℕ → K)
    (hE0 : ∀ i, 0 ≤ E i) (hF0 : ∀ i, 0 ≤ F i) :
    ∀ xs : List (RF2 r),
      (∀ ys, ys <+: xs →
        |(ys.foldl Mean.add Mean.new).avg.val - mean (ys.map RF2.val)| ≤ E ys.length) →
      (∀ ys, ys <+: xs → |(mfold N ys).m0.val - T (ys.map RF2.val)| ≤ F ys.length) →
      |(mfold N xs).m1.val - U (xs.map RF2.val)|
        ≤ (1 + r.u)^(2 * xs.length) * errSumM r.u E F (xs.map RF2.val)
          + ((1 + r.u)^(2 * xs.length) - 1) * V3m (xs.map RF2.val) := by
  intro xs
  induction xs using List.reverseRecOn with
  | nil =>
    intro _ _
    rw [mfold_new_m1]
    simp [U_nil, errSumM]
  | append_singleton xs x ih =>
    intro hE hF
    have hu := r.u_nonneg
    have ih' := ih (fun ys hys => hE ys (hys.trans (List.prefix_append xs [x])))
      (fun ys hys => hF ys (hys.trans (List.prefix_append xs [x])))
    have hmean := hE xs (List.prefix_append xs [x])
    have hvar := hF xs (List.prefix_append xs [x])
    have hfold : mfold N (xs ++ [x]) = Moments.add N (mfold N xs) x := by
      unfold mfold
      rw [List.foldl_append, List.foldl_cons, List.foldl_nil]
    rw [hfold, List.map_append, List.map_cons, List.map_nil, List.length_append,
      List.length_singleton]
    set s := mfold N xs with hs
    set vs := xs.map RF2.val with hvs
    have hlen : vs.length = xs.length := by simp [hvs]
    have hn : s.n = xs.length := mfold_n N xs
    rw [← mfold_avg N xs] at hmean
    rw [moments_m1_add_val r hneg N hN, hn, U_snoc, errSumM_snoc, hlen]
    push_cast
    have step := mom3_step_bd r E F xs.length x.val s.avg.val (mean vs) s.m0.val (T vs)
      s.m1.val (U vs) (T_nonneg vs) hmean hvar
    simp only at step
    refine le_trans step ?_
    have hW1 : |U vs + (x.val - mean vs)^3 * cA xs.length| ≤ V3m (vs ++ [x.val]) := by
      have := abs_U_add_le vs x.val
      rwa [hlen] at this
    have hW2 : |U vs + ((x.val - mean vs)^3 * cA xs.length
        - 3 * (x.val - mean vs) * T vs / ((xs.length : K) + 1))| ≤ V3m (vs ++ [x.val]) := by
      have := abs_U_snoc_le vs x.val
      rwa [hlen] at this
    have hst := stepTermM_nonneg hu hE0 hF0 xs.length (x.val - mean vs) (T vs) (T_nonneg vs)
    have hab := mom3_absorb r.u ((1 + r.u)^(2 * xs.length)) (errSumM r.u E F vs)
      (stepTermM r.u E F xs.length (x.val - mean vs) (T vs)) (V3m vs) (V3m (vs ++ [x.val]))
      _ _ |s.m1.val - U vs| hu (RE.one_le_pow hu _) hst (V3m_mono vs x.val) hW1 hW2 ih'
    have epow : (1 + r.u)^(2 * (xs.length + 1)) = (1 + r.u)^2 * (1 + r.u)^(2 * xs.length) := by
      rw [Nat.mul_succ, pow_add, mul_comm]
    rw [epow]
    exact hab

end fold
end MomNErr

#print axioms MomNErr.mom3_fold_error_gen
