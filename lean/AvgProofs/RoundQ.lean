import AvgProofs.OrdCarrier
import Mathlib.Algebra.Order.Field.Basic
import Mathlib.Algebra.Order.AbsoluteValue.Basic
import Mathlib.Order.Monotone.Basic
import Mathlib.Tactic.Positivity
import Mathlib.Tactic.Linarith
import Mathlib.Tactic.Ring
import Mathlib.Tactic.NormNum

/-!
# A floating-point-like carrier for the P² estimator: `RQ r`

`RndQ K` is an abstract rounding of an ordered field `K`: a monotone, idempotent map `fl : K → K`
(a projection onto the set of *representable* numbers, `fl x = x`) with relative error at most
`u ≤ 1/4` (the standard model without underflow/overflow; round-to-nearest, directed roundings and any
precision of at least 2 bits qualify). Nothing else is assumed, in particular `fl` need not be odd.

`RQ r` wraps a value of `K`; `+ - * /` are the exact operation followed by `r.fl`; the integer casts
are exact (the casts the estimator performs are of marker positions and their small differences,
exactly representable below 2^53); the order is that of the values.
-/
open Avg

/-- Abstract rounding: monotone projection with relative error `u ≤ 1/4`. -/
structure RndQ (K : Type) [Field K] [LinearOrder K] [IsStrictOrderedRing K] where
  fl : K → K
  mono : Monotone fl
  idem : ∀ x, fl (fl x) = fl x
  u : K
  u_nonneg : 0 ≤ u
  u_le : u ≤ 1 / 4
  err : ∀ t, |fl t - t| ≤ u * |t|

/-- Carrier: elements of `K`, every arithmetic operation followed by `r.fl`. -/
structure RQ {K : Type} [Field K] [LinearOrder K] [IsStrictOrderedRing K] (r : RndQ K) where
  val : K

namespace RndQ
variable {K : Type} [Field K] [LinearOrder K] [IsStrictOrderedRing K] (r : RndQ K)

theorem fl_zero : r.fl 0 = 0 := by
  have h := r.err 0
  simp only [abs_zero, mul_zero, sub_zero] at h
  exact abs_eq_zero.mp (le_antisymm h (abs_nonneg _))

theorem fl_nonneg {x : K} (h : 0 ≤ x) : 0 ≤ r.fl x := by
  have := r.mono h; rwa [r.fl_zero] at this

theorem fl_nonpos {x : K} (h : x ≤ 0) : r.fl x ≤ 0 := by
  have := r.mono h; rwa [r.fl_zero] at this

/-- `|fl t| ≤ (1+u) |t|` -/
theorem abs_fl_le (t : K) : |r.fl t| ≤ (1 + r.u) * |t| := by
  have h := r.err t
  have : |r.fl t| ≤ |r.fl t - t| + |t| := by
    have := abs_add_le (r.fl t - t) t
    simpa using this
  linarith

/-- three successive roundings and a division by at least 2 in between do not increase the modulus:
`(1+u)³ / 2 ≤ 125/128 < 1`. -/
theorem abs_three_round_le (x d k : K) (hd : |d| = 1) (hk : 2 ≤ |k|) :
    |r.fl (r.fl (d * r.fl x) / k)| ≤ |x| := by
  have hu := r.u_nonneg
  have hu4 := r.u_le
  have h1 : |r.fl x| ≤ (1 + r.u) * |x| := r.abs_fl_le x
  have h2 : |r.fl (d * r.fl x)| ≤ (1 + r.u) * |r.fl x| := by
    have := r.abs_fl_le (d * r.fl x)
    rwa [abs_mul, hd, one_mul] at this
  have h3 : |r.fl (r.fl (d * r.fl x) / k)| ≤ (1 + r.u) * (|r.fl (d * r.fl x)| / |k|) := by
    have := r.abs_fl_le (r.fl (d * r.fl x) / k)
    rwa [abs_div] at this
  have hkpos : 0 < |k| := by linarith
  have h4 : |r.fl (d * r.fl x)| / |k| ≤ |r.fl (d * r.fl x)| / 2 :=
    div_le_div_of_nonneg_left (abs_nonneg _) (by norm_num) hk
  have hx := abs_nonneg x
  have h1u : 0 ≤ 1 + r.u := by linarith
  have hc : (1 + r.u) * ((1 + r.u) * ((1 + r.u) * |x|) / 2) ≤ |x| := by
    have hcube : (1 + r.u) ^ 3 ≤ 2 := by
      have h54 : 1 + r.u ≤ 5 / 4 := by linarith
      calc (1 + r.u) ^ 3 ≤ (5 / 4 : K) ^ 3 := pow_le_pow_left₀ h1u h54 3
        _ ≤ 2 := by norm_num
    have : (1 + r.u) * ((1 + r.u) * ((1 + r.u) * |x|) / 2) = (1 + r.u) ^ 3 / 2 * |x| := by ring
    rw [this]
    have : (1 + r.u) ^ 3 / 2 ≤ 1 := by linarith
    calc (1 + r.u) ^ 3 / 2 * |x| ≤ 1 * |x| := mul_le_mul_of_nonneg_right this hx
      _ = |x| := one_mul _
  calc |r.fl (r.fl (d * r.fl x) / k)|
      ≤ (1 + r.u) * (|r.fl (d * r.fl x)| / |k|) := h3
    _ ≤ (1 + r.u) * (|r.fl (d * r.fl x)| / 2) := mul_le_mul_of_nonneg_left h4 h1u
    _ ≤ (1 + r.u) * ((1 + r.u) * |r.fl x| / 2) := by
        apply mul_le_mul_of_nonneg_left _ h1u
        exact div_le_div_of_nonneg_right h2 (by norm_num)
    _ ≤ (1 + r.u) * ((1 + r.u) * ((1 + r.u) * |x|) / 2) := by
        apply mul_le_mul_of_nonneg_left _ h1u
        apply div_le_div_of_nonneg_right _ (by norm_num)
        exact mul_le_mul_of_nonneg_left h1 h1u
    _ ≤ |x| := hc

/-- The rounded linear step *upwards*: from a representable `a` towards a representable `b ≥ a`,
`fl(a + fl(fl(1 * fl(b - a)) / k))` with `k ≥ 2` stays in `[a, b]`. -/
theorem step_up_between (a b k : K) (hab : a ≤ b) (hk : 2 ≤ k) (ha : r.fl a = a) (hb : r.fl b = b) :
    a ≤ r.fl (a + r.fl (r.fl (1 * r.fl (b - a)) / k))
    ∧ r.fl (a + r.fl (r.fl (1 * r.fl (b - a)) / k)) ≤ b := by
  have hk0 : 0 ≤ k := by linarith
  have hx : 0 ≤ b - a := sub_nonneg.mpr hab
  have hw0 : 0 ≤ r.fl (r.fl (1 * r.fl (b - a)) / k) := by
    apply r.fl_nonneg
    apply div_nonneg _ hk0
    apply r.fl_nonneg
    rw [one_mul]
    exact r.fl_nonneg hx
  have hw := r.abs_three_round_le (b - a) 1 k abs_one (by rw [abs_of_nonneg hk0]; exact hk)
  rw [abs_of_nonneg hw0, abs_of_nonneg hx] at hw
  constructor
  · calc a = r.fl a := ha.symm
      _ ≤ _ := r.mono (by linarith)
  · calc _ ≤ r.fl b := r.mono (by linarith)
      _ = b := hb

/-- The rounded linear step *downwards*: from a representable `a` towards a representable `b ≤ a`,
`fl(a + fl(fl(-1 * fl(b - a)) / k))` with `k ≤ -2` stays in `[b, a]`. -/
theorem step_down_between (a b k : K) (hba : b ≤ a) (hk : k ≤ -2) (ha : r.fl a = a) (hb : r.fl b = b) :
    b ≤ r.fl (a + r.fl (r.fl (-1 * r.fl (b - a)) / k))
    ∧ r.fl (a + r.fl (r.fl (-1 * r.fl (b - a)) / k)) ≤ a := by
  have hk0 : k ≤ 0 := by linarith
  have hx : b - a ≤ 0 := sub_nonpos.mpr hba
  have hw0 : r.fl (r.fl (-1 * r.fl (b - a)) / k) ≤ 0 := by
    apply r.fl_nonpos
    apply div_nonpos_of_nonneg_of_nonpos _ hk0
    apply r.fl_nonneg
    have := r.fl_nonpos hx
    linarith
  have hw := r.abs_three_round_le (b - a) (-1) k (by rw [abs_neg, abs_one])
    (by rw [abs_of_nonpos hk0]; linarith)
  rw [abs_of_nonpos hw0, abs_of_nonpos hx] at hw
  constructor
  · calc b = r.fl b := hb.symm
      _ ≤ _ := r.mono (by linarith)
  · calc _ ≤ r.fl a := r.mono (by linarith)
      _ = a := ha

end RndQ

namespace RQ
variable {K : Type} [Field K] [LinearOrder K] [IsStrictOrderedRing K] {r : RndQ K}

instance : Add (RQ r) := ⟨fun a b => ⟨r.fl (a.val + b.val)⟩⟩
instance : Sub (RQ r) := ⟨fun a b => ⟨r.fl (a.val - b.val)⟩⟩
instance : Mul (RQ r) := ⟨fun a b => ⟨r.fl (a.val * b.val)⟩⟩
instance : Div (RQ r) := ⟨fun a b => ⟨r.fl (a.val / b.val)⟩⟩
/-- integer casts are exact (positions and their differences are small integers) -/
instance : NatCast (RQ r) := ⟨fun n => ⟨(n : K)⟩⟩
instance : IntCast (RQ r) := ⟨fun n => ⟨(n : K)⟩⟩

@[simp] theorem add_val (a b : RQ r) : (a + b).val = r.fl (a.val + b.val) := rfl
@[simp] theorem sub_val (a b : RQ r) : (a - b).val = r.fl (a.val - b.val) := rfl
@[simp] theorem mul_val (a b : RQ r) : (a * b).val = r.fl (a.val * b.val) := rfl
@[simp] theorem div_val (a b : RQ r) : (a / b).val = r.fl (a.val / b.val) := rfl
@[simp] theorem natCast_val (n : Nat) : ((n : RQ r)).val = (n : K) := rfl
@[simp] theorem intCast_val (n : Int) : ((n : RQ r)).val = (n : K) := rfl

theorem ext' {a b : RQ r} (h : a.val = b.val) : a = b := by
  cases a; cases b; simp only at h; subst h; rfl

theorem val_injective : Function.Injective (fun a : RQ r => a.val) := fun _ _ h => ext' h

/-- the order of the values -/
instance : LinearOrder (RQ r) := LinearOrder.lift' (fun a : RQ r => a.val) val_injective

theorem le_iff (a b : RQ r) : a ≤ b ↔ a.val ≤ b.val := Iff.rfl
theorem lt_iff (a b : RQ r) : a < b ↔ a.val < b.val := Iff.rfl

/-- `x` is a floating-point number of the format: rounding does not change it -/
def Rep (x : RQ r) : Prop := r.fl x.val = x.val

theorem rep_add (a b : RQ r) : Rep (a + b) := r.idem _
theorem rep_sub (a b : RQ r) : Rep (a - b) := r.idem _
theorem rep_mul (a b : RQ r) : Rep (a * b) := r.idem _
theorem rep_div (a b : RQ r) : Rep (a / b) := r.idem _
theorem rep_zero : Rep ((0 : Nat) : RQ r) := by
  show r.fl ((0 : Nat) : K) = ((0 : Nat) : K)
  rw [Nat.cast_zero]; exact r.fl_zero

/-- a default `FloatOps` reading of the carrier (comparisons of the values; the rest is junk the
quantile estimator never consults, `ceilInt` is a parameter) -/
@[reducible] def floatOps (ceilf : RQ r → Int) : FloatOps (RQ r) :=
  ordFloatOps (RQ r) ⟨0⟩ ⟨0⟩ ⟨0⟩ id id ceilf

theorem floatOps_laws (ceilf : RQ r → Int) : @OrdLaws (RQ r) _ (floatOps ceilf) :=
  ordFloatOps_laws (RQ r) ⟨0⟩ ⟨0⟩ ⟨0⟩ id id ceilf

end RQ
