import AvgModel.Quantile
import AvgModel.Spec
import AvgProofs.OrdCarrier
import Mathlib.Tactic.SplitIfs
import Mathlib.Tactic.Linarith

/-!
# `Quantile.add` against the P² specification, one observation at a time

Any carrier: `adjust` is literally box B.3 (`adjust_eq_psqAdjust`), frame facts (which slots `adjust`
and `cell` can touch), bookkeeping of `n[4]` and `dm`, the shape of the state in the first phase.
Linear order (`OrdLaws`): the cell search + `for i in k..5` is boxes B.1/B.2 when the heights are
sorted (`cell_eq_spec`), hence `add = psqStep`.
-/
open Avg Avg.Spec
set_option linter.unusedSectionVars false
set_option linter.unusedSimpArgs false

namespace Avg
variable {α : Type} [Add α] [Sub α] [Mul α] [Div α] [NatCast α] [IntCast α] [FloatOps α]

/-- the model state read as a P² state; the sample count is `n[4]` -/
def Quantile.toPSq (s : Quantile α) : PSq α := ⟨s.q, s.n, s.m, s.dm, s.n.a4.toNat⟩

/-- heights non-decreasing -/
def Sorted5 {β : Type} [LE β] (q : V5 β) : Prop := q.a0 ≤ q.a1 ∧ q.a1 ≤ q.a2 ∧ q.a2 ≤ q.a3 ∧ q.a3 ≤ q.a4

/-- positions strictly increasing -/
def StrictIncr5 (n : V5 Int) : Prop := n.a0 < n.a1 ∧ n.a1 < n.a2 ∧ n.a2 < n.a3 ∧ n.a3 < n.a4

/-! ## `adjust` is box B.3, on any carrier -/

theorem parabolic_eq (s : Quantile α) (i : Nat) (sg : Int) :
    s.parabolic i sg = psqParabolic s.q s.n i sg := rfl

theorem linear_eq (s : Quantile α) (i : Nat) (sg : Int) :
    s.linear i sg = psqLinear s.q s.n i sg := rfl

/-- the new height of marker `i` chosen by `move` -/
def Quantile.moveVal (s : Quantile α) (i : Nat) (sg : Int) : α :=
  if FloatOps.lt (s.q.get (i-1)) (s.parabolic i sg) && FloatOps.lt (s.parabolic i sg) (s.q.get (i+1))
  then s.parabolic i sg else s.linear i sg

theorem move_eq (s : Quantile α) (i : Nat) (sg : Int) :
    s.move i sg = { s with q := s.q.set i (s.moveVal i sg), n := s.n.set i (s.n.get i + sg) } := rfl

/-- `adjust i` either leaves the state alone or moves marker `i` by one position, up only if the gap
to the right neighbour is at least 2, down only if the gap to the left neighbour is at least 2. -/
theorem adjust_cases (s : Quantile α) (i : Nat) :
    s.adjust i = s
    ∨ (2 ≤ s.n.get (i+1) - s.n.get i ∧ s.adjust i = s.move i 1)
    ∨ (s.n.get (i-1) - s.n.get i ≤ -2 ∧ s.adjust i = s.move i (-1)) := by
  unfold Quantile.adjust
  simp only []
  split_ifs with h1 h2
  · right; left
    simp only [Bool.and_eq_true, decide_eq_true_eq] at h1
    exact ⟨by omega, rfl⟩
  · right; right
    simp only [Bool.and_eq_true, decide_eq_true_eq] at h2
    exact ⟨by omega, rfl⟩
  · left; rfl

theorem adjust_eq_psqAdjust (s : Quantile α) (i : Nat) :
    s.adjust i = { s with q := (psqAdjust s.q s.n s.m i).1, n := (psqAdjust s.q s.n s.m i).2 } := by
  unfold Quantile.adjust psqAdjust
  by_cases h1 : (fle ((1:Nat):α) (s.m.get i - ((s.n.get i : Int) : α))
      && decide (s.n.get (i+1) - s.n.get i > 1)) = true
  · simp only [h1, if_true]
    rfl
  · by_cases h2 : (fle (s.m.get i - ((s.n.get i : Int) : α)) (((-1:Int)):α)
        && decide (s.n.get (i-1) - s.n.get i < -1)) = true
    · simp only [h1, h2, if_true, if_false]
      rfl
    · simp only [h1, h2, if_false]
      rfl

/-! ## frame facts -/

@[simp] theorem V5.set_a0 {β : Type} (v : V5 β) (i : Nat) (x : β) (hi : 1 ≤ i) : (v.set i x).a0 = v.a0 := by
  match i, hi with
  | 1, _ => rfl
  | 2, _ => rfl
  | 3, _ => rfl
  | (_+4), _ => rfl

theorem V5.set_a4 {β : Type} (v : V5 β) (i : Nat) (x : β) (hi : i ≤ 3) : (v.set i x).a4 = v.a4 := by
  match i, hi with
  | 0, _ => rfl
  | 1, _ => rfl
  | 2, _ => rfl
  | 3, _ => rfl

theorem move_q_a0 (s : Quantile α) (i : Nat) (sg : Int) (hi : 1 ≤ i) : (s.move i sg).q.a0 = s.q.a0 := by
  rw [move_eq]; exact V5.set_a0 _ _ _ hi
theorem move_n_a0 (s : Quantile α) (i : Nat) (sg : Int) (hi : 1 ≤ i) : (s.move i sg).n.a0 = s.n.a0 := by
  rw [move_eq]; exact V5.set_a0 _ _ _ hi
theorem move_q_a4 (s : Quantile α) (i : Nat) (sg : Int) (hi : i ≤ 3) : (s.move i sg).q.a4 = s.q.a4 := by
  rw [move_eq]; exact V5.set_a4 _ _ _ hi
theorem move_n_a4 (s : Quantile α) (i : Nat) (sg : Int) (hi : i ≤ 3) : (s.move i sg).n.a4 = s.n.a4 := by
  rw [move_eq]; exact V5.set_a4 _ _ _ hi

theorem adjust_q_a0 (s : Quantile α) (i : Nat) (hi : 1 ≤ i) : (s.adjust i).q.a0 = s.q.a0 := by
  rcases adjust_cases s i with h | ⟨_, h⟩ | ⟨_, h⟩ <;> rw [h]
  · exact move_q_a0 s i 1 hi
  · exact move_q_a0 s i (-1) hi
theorem adjust_n_a0 (s : Quantile α) (i : Nat) (hi : 1 ≤ i) : (s.adjust i).n.a0 = s.n.a0 := by
  rcases adjust_cases s i with h | ⟨_, h⟩ | ⟨_, h⟩ <;> rw [h]
  · exact move_n_a0 s i 1 hi
  · exact move_n_a0 s i (-1) hi
theorem adjust_q_a4 (s : Quantile α) (i : Nat) (hi : i ≤ 3) : (s.adjust i).q.a4 = s.q.a4 := by
  rcases adjust_cases s i with h | ⟨_, h⟩ | ⟨_, h⟩ <;> rw [h]
  · exact move_q_a4 s i 1 hi
  · exact move_q_a4 s i (-1) hi
theorem adjust_n_a4 (s : Quantile α) (i : Nat) (hi : i ≤ 3) : (s.adjust i).n.a4 = s.n.a4 := by
  rcases adjust_cases s i with h | ⟨_, h⟩ | ⟨_, h⟩ <;> rw [h]
  · exact move_n_a4 s i 1 hi
  · exact move_n_a4 s i (-1) hi
theorem adjust_m (s : Quantile α) (i : Nat) : (s.adjust i).m = s.m := by
  rcases adjust_cases s i with h | ⟨_, h⟩ | ⟨_, h⟩ <;> rw [h] <;> rfl
theorem adjust_dm (s : Quantile α) (i : Nat) : (s.adjust i).dm = s.dm := by
  rcases adjust_cases s i with h | ⟨_, h⟩ | ⟨_, h⟩ <;> rw [h] <;> rfl

/-- the cell index is one of 1..4: never 0 (this is the `fix:` for the new-minimum branch) -/
theorem cell_k_bounds (q : V5 α) (x : α) : 1 ≤ (Quantile.cell q x).2 ∧ (Quantile.cell q x).2 ≤ 4 := by
  unfold Quantile.cell
  split_ifs <;> simp

theorem cell_a0 (q : V5 α) (x : α) :
    (Quantile.cell q x).1.a0 = if FloatOps.lt x q.a0 then x else q.a0 := by
  unfold Quantile.cell
  split_ifs <;> rfl

theorem cell_a4 (q : V5 α) (x : α) :
    (Quantile.cell q x).1.a4 = if FloatOps.lt x q.a0 then q.a4 else if FloatOps.lt q.a4 x then x else q.a4 := by
  unfold Quantile.cell
  split_ifs <;> rfl

theorem incrFrom_a0 (k : Nat) (n : V5 Int) (hk : 1 ≤ k) : (incrFrom k n).a0 = n.a0 := by
  have : ¬ k ≤ 0 := by omega
  simp [incrFrom, this]

theorem incrFrom_a4 (k : Nat) (n : V5 Int) (hk : k ≤ 4) : (incrFrom k n).a4 = n.a4 + 1 := by
  simp [incrFrom, hk]

/-! ## the second phase of `add` -/

/-- the state handed to the three `adjust` calls -/
def Quantile.afterCell (s : Quantile α) (x : α) : Quantile α :=
  { s with q := (Quantile.cell s.q x).1, n := incrFrom (Quantile.cell s.q x).2 s.n,
           m := V5.zipWith (· + ·) s.m s.dm }

theorem add_large (s : Quantile α) (x : α) (h : 5 ≤ s.n.a4) :
    s.add x = (((s.afterCell x).adjust 1).adjust 2).adjust 3 := by
  have h' : ¬ s.n.a4 < 5 := by omega
  unfold Quantile.add
  simp only [h', if_false]
  rfl

theorem add_small (s : Quantile α) (x : α) (h : s.n.a4 < 5) :
    s.add x = { s with
      q := if s.n.a4 + 1 = 5 then V5.ofList x (sortBy FloatOps.ordLt (s.q.set s.n.a4.toNat x).toList)
           else s.q.set s.n.a4.toNat x,
      n := { s.n with a4 := s.n.a4 + 1 } } := by
  unfold Quantile.add
  simp only [h, if_true]

/-- `add` never touches `dm` -/
theorem add_dm (s : Quantile α) (x : α) : (s.add x).dm = s.dm := by
  by_cases h : s.n.a4 < 5
  · rw [add_small s x h]
  · rw [add_large s x (by omega), adjust_dm, adjust_dm, adjust_dm]; rfl

/-- `add` increments `n[4]`, in both phases -/
theorem add_n_a4 (s : Quantile α) (x : α) : (s.add x).n.a4 = s.n.a4 + 1 := by
  by_cases h : s.n.a4 < 5
  · rw [add_small s x h]
  · rw [add_large s x (by omega), adjust_n_a4 _ 3 (by omega), adjust_n_a4 _ 2 (by omega),
      adjust_n_a4 _ 1 (by omega)]
    exact incrFrom_a4 _ _ (cell_k_bounds s.q x).2

/-- `n[0]` is never touched, in either phase -/
theorem add_n_a0_any (s : Quantile α) (x : α) : (s.add x).n.a0 = s.n.a0 := by
  by_cases h : s.n.a4 < 5
  · rw [add_small s x h]
  · rw [add_large s x (by omega), adjust_n_a0 _ 3 (by omega), adjust_n_a0 _ 2 (by omega),
      adjust_n_a0 _ 1 (by omega)]
    exact incrFrom_a0 _ _ (cell_k_bounds s.q x).1

/-- in the second phase `n[0]` is never touched -/
theorem add_n_a0 (s : Quantile α) (x : α) (h : 5 ≤ s.n.a4) : (s.add x).n.a0 = s.n.a0 := by
  rw [add_large s x h, adjust_n_a0 _ 3 (by omega), adjust_n_a0 _ 2 (by omega),
    adjust_n_a0 _ 1 (by omega)]
  exact incrFrom_a0 _ _ (cell_k_bounds s.q x).1

theorem add_q_a0 (s : Quantile α) (x : α) (h : 5 ≤ s.n.a4) :
    (s.add x).q.a0 = if FloatOps.lt x s.q.a0 then x else s.q.a0 := by
  rw [add_large s x h, adjust_q_a0 _ 3 (by omega), adjust_q_a0 _ 2 (by omega),
    adjust_q_a0 _ 1 (by omega)]
  exact cell_a0 s.q x

theorem add_q_a4 (s : Quantile α) (x : α) (h : 5 ≤ s.n.a4) :
    (s.add x).q.a4 = if FloatOps.lt x s.q.a0 then s.q.a4 else if FloatOps.lt s.q.a4 x then x else s.q.a4 := by
  rw [add_large s x h, adjust_q_a4 _ 3 (by omega), adjust_q_a4 _ 2 (by omega),
    adjust_q_a4 _ 1 (by omega)]
  exact cell_a4 s.q x

/-- box B with the code's own cell search: any carrier -/
theorem add_large_psqAdjust (s : Quantile α) (x : α) (h : 5 ≤ s.n.a4) :
    let q0 := (Quantile.cell s.q x).1
    let n0 := incrFrom (Quantile.cell s.q x).2 s.n
    let np := V5.zipWith (· + ·) s.m s.dm
    let a1 := psqAdjust q0 n0 np 1
    let a2 := psqAdjust a1.1 a1.2 np 2
    let a3 := psqAdjust a2.1 a2.2 np 3
    s.add x = ⟨a3.1, a3.2, np, s.dm⟩ := by
  intro q0 n0 np a1 a2 a3
  rw [add_large s x h, adjust_eq_psqAdjust, adjust_eq_psqAdjust, adjust_eq_psqAdjust]
  rfl

theorem psqStep_unfold (t : PSq α) (x : α) :
    let np := V5.zipWith (· + ·) t.np t.dn
    let a1 := psqAdjust (psqHeights t.q x) (psqPositions t.q x t.n) np 1
    let a2 := psqAdjust a1.1 a1.2 np 2
    let a3 := psqAdjust a2.1 a2.2 np 3
    psqStep t x = ⟨a3.1, a3.2, np, t.dn, t.count + 1⟩ := rfl

/-! ## the first phase of `add`: the state after k < 5 observations -/

/-- what `Quantile.new p` returns when it does not panic -/
def Quantile.init (p : α) : Quantile α :=
  { q := ⟨((0:Nat):α), ((0:Nat):α), ((0:Nat):α), ((0:Nat):α), ((0:Nat):α)⟩
    n := ⟨1, 2, 3, 4, 0⟩
    m := ⟨((1:Nat):α), ((1:Nat):α) + ((2:Nat):α) * p, ((1:Nat):α) + ((4:Nat):α) * p,
          ((3:Nat):α) + ((2:Nat):α) * p, ((5:Nat):α)⟩
    dm := ⟨((0:Nat):α), p / ((2:Nat):α), p, (((1:Nat):α) + p) / ((2:Nat):α), ((1:Nat):α)⟩ }

theorem new_eq (p : α) :
    Quantile.new p = if fle ((0:Nat):α) p && fle p ((1:Nat):α) then .val (Quantile.init p) else .panic := rfl

theorem new_val {p : α} {s0 : Quantile α} (h : Quantile.new p = .val s0) : s0 = Quantile.init p := by
  rw [new_eq] at h
  split_ifs at h
  injection h with h; exact h.symm

theorem init_add1 (p a : α) : (Quantile.init p).add a =
    { Quantile.init p with q := ⟨a, ((0:Nat):α), ((0:Nat):α), ((0:Nat):α), ((0:Nat):α)⟩, n := ⟨1,2,3,4,1⟩ } := rfl
theorem init_add2 (p a b : α) : ((Quantile.init p).add a).add b =
    { Quantile.init p with q := ⟨a, b, ((0:Nat):α), ((0:Nat):α), ((0:Nat):α)⟩, n := ⟨1,2,3,4,2⟩ } := rfl
theorem init_add3 (p a b c : α) : (((Quantile.init p).add a).add b).add c =
    { Quantile.init p with q := ⟨a, b, c, ((0:Nat):α), ((0:Nat):α)⟩, n := ⟨1,2,3,4,3⟩ } := rfl
theorem init_add4 (p a b c d : α) : ((((Quantile.init p).add a).add b).add c).add d =
    { Quantile.init p with q := ⟨a, b, c, d, ((0:Nat):α)⟩, n := ⟨1,2,3,4,4⟩ } := rfl
theorem init_add5 (p a b c d e : α) : (((((Quantile.init p).add a).add b).add c).add d).add e =
    { Quantile.init p with q := V5.ofList e (sortBy FloatOps.ordLt [a, b, c, d, e]), n := ⟨1,2,3,4,5⟩ } := rfl

theorem V5.ofList_default {β : Type} (d d' : β) (l : List β) (h : l.length = 5) :
    V5.ofList d l = V5.ofList d' l := by
  match l, h with
  | [_, _, _, _, _], _ => rfl

/-- Box A: after the first five observations the state is `psqInit` (any carrier). -/
theorem init_fold5 (p : α) (xs : List α) (h : xs.length = 5) :
    (xs.foldl Quantile.add (Quantile.init p)).toPSq = psqInit p xs := by
  match xs, h with
  | [a, b, c, d, e], _ =>
    show ((((((Quantile.init p).add a).add b).add c).add d).add e).toPSq = _
    rw [init_add5]
    unfold psqInit Quantile.toPSq
    rw [V5.ofList_default e p _ (by rw [sortBy_length]; rfl)]
    rfl

end Avg

/-! ## boxes B.1/B.2: the cell search on sorted heights, over a linear order -/
namespace Avg
variable {K : Type} [LinearOrder K] [FloatOps K] [OrdLaws K]

theorem cell_eq_spec (q : V5 K) (x : K) (n : V5 Int) (h : Sorted5 q) :
    (Quantile.cell q x).1 = psqHeights q x ∧
    incrFrom (Quantile.cell q x).2 n = psqPositions q x n := by
  obtain ⟨h01, h12, h23, h34⟩ := h
  unfold Quantile.cell psqHeights psqPositions incrFrom
  simp only [OrdLaws.lt_eq, decide_eq_true_eq]
  by_cases c0 : x < q.a0
  · have c1 : x < q.a1 := lt_of_lt_of_le c0 h01
    have c2 : x < q.a2 := lt_of_lt_of_le c1 h12
    have c3 : x < q.a3 := lt_of_lt_of_le c2 h23
    have c4 : x < q.a4 := lt_of_lt_of_le c3 h34
    simp [c0, c1, c2, c3, not_lt.mpr (le_of_lt c4)]
  · simp only [c0, if_false]
    by_cases c1 : x < q.a1
    · have c2 : x < q.a2 := lt_of_lt_of_le c1 h12
      have c3 : x < q.a3 := lt_of_lt_of_le c2 h23
      have c4 : x < q.a4 := lt_of_lt_of_le c3 h34
      simp [c1, c2, c3, not_lt.mpr (le_of_lt c4)]
    · by_cases c2 : x < q.a2
      · have c3 : x < q.a3 := lt_of_lt_of_le c2 h23
        have c4 : x < q.a4 := lt_of_lt_of_le c3 h34
        simp [c1, c2, c3, not_lt.mpr (le_of_lt c4)]
      · by_cases c3 : x < q.a3
        · have c4 : x < q.a4 := lt_of_lt_of_le c3 h34
          simp [c1, c2, c3, not_lt.mpr (le_of_lt c4)]
        · by_cases c4 : x < q.a4
          · simp [c1, c2, c3, c4, not_lt.mpr (le_of_lt c4)]
          · by_cases c5 : q.a4 < x
            · simp [c1, c2, c3, c4, c5]
            · simp [c1, c2, c3, c4, c5]

variable [Add K] [Sub K] [Mul K] [Div K] [NatCast K] [IntCast K]

/-- One observation in the second phase: the model's `add` is box B of the P² algorithm, on every
ordered carrier with arbitrary arithmetic, provided the heights are sorted. -/
theorem add_toPSq_eq_psqStep (s : Quantile K) (x : K) (h5 : 5 ≤ s.n.a4) (hs : Sorted5 s.q) :
    (s.add x).toPSq = psqStep s.toPSq x := by
  have hn := add_n_a4 s x
  have hc := cell_eq_spec s.q x s.n hs
  have ha := add_large_psqAdjust s x h5
  simp only at ha
  rw [hc.1, hc.2] at ha
  rw [psqStep_unfold]
  simp only [Quantile.toPSq] at *
  rw [hn, ha]
  have : (s.n.a4 + 1).toNat = s.n.a4.toNat + 1 := by omega
  rw [this]

end Avg
