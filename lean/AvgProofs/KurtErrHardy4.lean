import AvgProofs.SkewErrHardy

/-!
# Hardy's and Copson's inequalities for the exponent 4, in any ordered field

For a non-negative sequence `a_0, a_1, …` with running means `α_m = (a_0 + … + a_{m-1})/m`:

* `hardy4`:  `Σ_{m<M} α_{m+1}⁴ ≤ (256/81)·Σ_{m<M} a_m⁴`   (Hardy's inequality, `p = 4`, constant `(p/(p-1))^p`).
* `copson4`: with the tails `γ_i = Σ_{i<k<n} b_k/k`:  `Σ_{i<n} γ_i⁴ ≤ 256·Σ_{i<n} b_{i+1}⁴`
  (Copson's dual inequality, `p = 4`, constant `p^p`).
* `psum_cube_le`: `(a_0 + … + a_{k-1})³ ≤ k²·(a_0³ + … + a_{k-1}³)` (power mean).

As for the exponent 3 (`AvgProofs/SkewErrHardy.lean`) both proofs are Elliott's telescoping argument and
every step is a polynomial inequality (`3p⁴ - 4p³q + q⁴ = (p-q)²(3p² + 2pq + q²) ≥ 0` and weighted
versions), so no real powers or roots are needed.
-/
open Finset SkewErr

namespace KurtErr
variable {K : Type} [Field K] [LinearOrder K] [IsStrictOrderedRing K]

/-- `4p³q ≤ 3p⁴ + q⁴` -/
theorem young4 (p q : K) : 4 * p^3 * q ≤ 3 * p^4 + q^4 := by
  have h : 3 * p^4 + q^4 - 4 * p^3 * q = (p - q)^2 * (2 * p^2 + (p + q)^2) := by ring
  have : 0 ≤ (p - q)^2 * (2 * p^2 + (p + q)^2) := by positivity
  linarith

/-- `p³a ≤ (9/16)p⁴ + (16/27)a⁴` (equality at `a = 3p/4`) -/
theorem young4_hardy (p a : K) : p^3 * a ≤ 9/16 * p^4 + 16/27 * a^4 := by
  have h : 9/16 * p^4 + 16/27 * a^4 - p^3 * a
      = (a - 3/4 * p)^2 * (16/27 * a^2 + 8/9 * a * p + p^2) := by ring
  have hq : 0 ≤ 16/27 * a^2 + 8/9 * a * p + p^2 := by
    have e : 16/27 * a^2 + 8/9 * a * p + p^2 = (p + 4/9 * a)^2 + 32/81 * a^2 := by ring
    rw [e]; positivity
  have : 0 ≤ (a - 3/4 * p)^2 * (16/27 * a^2 + 8/9 * a * p + p^2) := mul_nonneg (sq_nonneg _) hq
  linarith

/-- `γ³b ≤ (3/16)γ⁴ + 16b⁴` (equality at `b = γ/4`) -/
theorem young4_copson (γ b : K) : γ^3 * b ≤ 3/16 * γ^4 + 16 * b^4 := by
  have h : 3/16 * γ^4 + 16 * b^4 - γ^3 * b = (b - 1/4 * γ)^2 * (16 * b^2 + 8 * b * γ + 3 * γ^2) := by
    ring
  have hq : 0 ≤ 16 * b^2 + 8 * b * γ + 3 * γ^2 := by
    have e : 16 * b^2 + 8 * b * γ + 3 * γ^2 = (4 * b + γ)^2 + 2 * γ^2 := by ring
    rw [e]; positivity
  have : 0 ≤ (b - 1/4 * γ)^2 * (16 * b^2 + 8 * b * γ + 3 * γ^2) := mul_nonneg (sq_nonneg _) hq
  linarith

/-- `a³γ ≤ 12a⁴ + γ⁴/16384` (equality at `γ = 16a`) -/
theorem young4_tail (a γ : K) : a^3 * γ ≤ 12 * a^4 + 1/16384 * γ^4 := by
  have h := young4 (2 * a) (γ / 8)
  have e1 : 4 * (2 * a)^3 * (γ / 8) = 4 * (a^3 * γ) := by ring
  have e2 : 3 * (2 * a)^4 + (γ / 8)^4 = 4 * (12 * a^4 + 1/16384 * γ^4) := by ring
  rw [e1, e2] at h
  linarith

/-- `(p + q)⁴ ≤ 8(p⁴ + q⁴)` -/
theorem add_pow4_le (p q : K) : (p + q)^4 ≤ 8 * (p^4 + q^4) := by
  have h : 8 * (p^4 + q^4) - (p + q)^4 = (p - q)^2 * (7 * p^2 + 10 * p * q + 7 * q^2) := by ring
  have hq : 0 ≤ 7 * p^2 + 10 * p * q + 7 * q^2 := by
    have e : 7 * p^2 + 10 * p * q + 7 * q^2 = 5 * (p + q)^2 + 2 * p^2 + 2 * q^2 := by ring
    rw [e]; positivity
  have : 0 ≤ (p - q)^2 * (7 * p^2 + 10 * p * q + 7 * q^2) := mul_nonneg (sq_nonneg _) hq
  linarith

/-! ## Hardy -/

/-- Elliott's telescoping step, summed -/
theorem hardy4_core {a : ℕ → K} (_ha : ∀ i, 0 ≤ a i) (M : ℕ) :
    ∑ m ∈ range M, (amean a (m + 1))^4 + (M : K) / 3 * (amean a M)^4
      ≤ 4/3 * ∑ m ∈ range M, (amean a (m + 1))^3 * a m := by
  induction M with
  | zero => simp
  | succ M ih =>
    rw [sum_range_succ, sum_range_succ]
    have hM : (0 : K) ≤ M := Nat.cast_nonneg M
    have hy := young4 (amean a (M + 1)) (amean a M)
    rw [amean_rec a M]
    set p := amean a (M + 1)
    set q := amean a M
    push_cast
    have hy' := mul_nonneg hM (sub_nonneg.mpr hy)
    nlinarith

/-- **Hardy's inequality, exponent 4**: `Σ_{m<M} α_{m+1}⁴ ≤ (256/81)·Σ_{m<M} a_m⁴`. -/
theorem hardy4 {a : ℕ → K} (ha : ∀ i, 0 ≤ a i) (M : ℕ) :
    ∑ m ∈ range M, (amean a (m + 1))^4 ≤ 256/81 * ∑ m ∈ range M, (a m)^4 := by
  have hc := hardy4_core ha M
  have hlast : 0 ≤ (M : K) / 3 * (amean a M)^4 := by positivity
  have hy : ∑ m ∈ range M, (amean a (m + 1))^3 * a m
      ≤ ∑ m ∈ range M, (9/16 * (amean a (m + 1))^4 + 16/27 * (a m)^4) :=
    sum_le_sum (fun m _ => young4_hardy _ _)
  rw [sum_add_distrib, ← mul_sum, ← mul_sum] at hy
  linarith

/-! ## Copson -/

/-- Elliott's telescoping step for the dual inequality, summed -/
theorem copson4_core {γ : ℕ → K} (_hγ : ∀ i, 0 ≤ γ i) (L : ℕ) :
    ∑ i ∈ range L, (γ i)^4
      ≤ 4 * ∑ i ∈ range L, (γ i)^3 * (((i : K) + 1) * (γ i - γ (i + 1))) + (L : K) * (γ L)^4 := by
  induction L with
  | zero => simp
  | succ L ih =>
    rw [sum_range_succ, sum_range_succ]
    have hL : (0 : K) ≤ L := Nat.cast_nonneg L
    have hy := young4 (γ L) (γ (L + 1))
    push_cast
    have hy' := mul_nonneg (by linarith : (0 : K) ≤ (L : K) + 1) (sub_nonneg.mpr hy)
    nlinarith

/-- **Copson's inequality, exponent 4**: `Σ_{i<n} γ_i⁴ ≤ 256·Σ_{i<n} b_{i+1}⁴`. -/
theorem copson4 {b : ℕ → K} (hb : ∀ k, 0 ≤ b k) (n : ℕ) :
    ∑ i ∈ range n, (tail b n i)^4 ≤ 256 * ∑ i ∈ range n, (b (i + 1))^4 := by
  have hγ := tail_nonneg hb n
  have hc := copson4_core hγ n
  rw [tail_top, zero_pow (by norm_num), mul_zero, add_zero] at hc
  have h1 : ∑ i ∈ range n, (tail b n i)^3 * (((i : K) + 1) * (tail b n i - tail b n (i + 1)))
      ≤ ∑ i ∈ range n, (tail b n i)^3 * b (i + 1) :=
    sum_le_sum (fun i _ => mul_le_mul_of_nonneg_left (tail_diff_le hb n i) (pow_nonneg (hγ i) 3))
  have hy : ∑ i ∈ range n, (tail b n i)^3 * b (i + 1)
      ≤ ∑ i ∈ range n, (3/16 * (tail b n i)^4 + 16 * (b (i + 1))^4) :=
    sum_le_sum (fun i _ => young4_copson _ _)
  rw [sum_add_distrib, ← mul_sum, ← mul_sum] at hy
  linarith

/-! ## power mean -/

/-- `(a_0 + … + a_{k-1})³ ≤ k²·(a_0³ + … + a_{k-1}³)` for `a_i ≥ 0` -/
theorem psum_cube_le {a : ℕ → K} (ha : ∀ i, 0 ≤ a i) (k : ℕ) :
    (psum a k)^3 ≤ (k : K)^2 * ∑ i ∈ range k, (a i)^3 := by
  unfold psum
  set S1 := ∑ i ∈ range k, a i with hS1
  set S2 := ∑ i ∈ range k, (a i)^2 with hS2
  set S3 := ∑ i ∈ range k, (a i)^3 with hS3
  have hS1n : 0 ≤ S1 := sum_nonneg (fun i _ => ha i)
  have hS2n : 0 ≤ S2 := sum_nonneg (fun i _ => sq_nonneg _)
  have hS3n : 0 ≤ S3 := sum_nonneg (fun i _ => pow_nonneg (ha i) 3)
  have c1 : S2^2 ≤ S1 * S3 := by
    apply sum_sq_le_sum_mul_sum_of_sq_le_mul
    · intro i _; exact ha i
    · intro i _; exact pow_nonneg (ha i) 3
    · intro i _; apply le_of_eq; ring
  have c2 : S1^2 ≤ (k : K) * S2 := by
    have h := sum_sq_le_sum_mul_sum_of_sq_le_mul (range k) (r := a) (f := fun _ => (1 : K))
      (g := fun i => (a i)^2) (fun _ _ => zero_le_one) (fun i _ => sq_nonneg _)
      (fun i _ => by simp)
    simpa using h
  have hk0 : (0 : K) ≤ k := Nat.cast_nonneg _
  rcases eq_or_lt_of_le hS1n with h0 | hpos
  · rw [← h0]; simp only [ne_eq, OfNat.ofNat_ne_zero, not_false_eq_true, zero_pow]; positivity
  · have h4 : S1^4 ≤ (k : K)^2 * (S1 * S3) := by
      calc S1^4 = (S1^2)^2 := by ring
        _ ≤ ((k : K) * S2)^2 := by gcongr
        _ = (k : K)^2 * S2^2 := by ring
        _ ≤ (k : K)^2 * (S1 * S3) := by gcongr
    have : S1 * S1^3 ≤ S1 * ((k : K)^2 * S3) := by
      calc S1 * S1^3 = S1^4 := by ring
        _ ≤ (k : K)^2 * (S1 * S3) := h4
        _ = S1 * ((k : K)^2 * S3) := by ring
    exact le_of_mul_le_mul_left this hpos

end KurtErr

#print axioms KurtErr.hardy4
#print axioms KurtErr.copson4
#print axioms KurtErr.psum_cube_le
