import AvgProofs.SampleStatErrRel
import AvgProofs.SqrtErr
import Mathlib.Analysis.SpecialFunctions.Pow.Real
import Mathlib.Analysis.Convex.SpecificFunctions.Basic

/-!
# Rounded `powf(·, 1.5)`; multiplicative closeness through `sqrt` and `x ↦ x^(3/2)`

* `RndPow15 r`: a function `powfl` with `|powfl t - t^(3/2)| ≤ ρ·t^(3/2)` for `t ≥ 0`. `powf` is *not*
  correctly rounded in general, hence a separate accuracy `ρ` (`ρ = u` for a correctly rounded `powf`,
  `ρ = 2u` for a faithful one; `flPow15`: the exact power followed by `r.fl`; `exactPow15`: `ρ = 0`).
  `Pow15Is p`: the `FloatOps (RF2 r)` instance computes `pow15` with `p.powfl`.
* `rf2SqrtPowFloatOps r q p`: `sqrt` is `q.sqrtfl`, `pow15` is `p.powfl`, comparisons compare values.
* `MC.sqrt`, `MC.rpow15`, `MC.sqrtfl`, `MC.powfl`.
* `inv_rpow15_le`: `(1/(1-ε))^(3/2) ≤ 1/(1 - (3/2)·ε)` (Bernoulli).
-/
open Avg

/-- a rounded `x ↦ x^(3/2)` of relative accuracy `ρ` on `t ≥ 0` -/
structure RndPow15 (r : Rnd2 ℝ) where
  powfl : ℝ → ℝ
  ρ : ℝ
  ρ_nonneg : 0 ≤ ρ
  err : ∀ t, 0 ≤ t → |powfl t - t ^ ((3:ℝ)/2)| ≤ ρ * t ^ ((3:ℝ)/2)

/-- the exact power (accuracy `0`) -/
noncomputable def exactPow15 (r : Rnd2 ℝ) : RndPow15 r :=
  ⟨fun t => t ^ ((3:ℝ)/2), 0, le_refl _, fun t _ => by simp⟩

/-- the exact power followed by the rounding `r.fl` (a correctly rounded `powf`): accuracy `u` -/
noncomputable def flPow15 (r : Rnd2 ℝ) : RndPow15 r :=
  ⟨fun t => r.fl (t ^ ((3:ℝ)/2)), r.u, r.u_nonneg, fun t ht => by
    have := r.err (t ^ ((3:ℝ)/2))
    rwa [abs_of_nonneg (Real.rpow_nonneg ht _)] at this⟩

/-- the `FloatOps` instance computes `powf(·, 1.5)` with `p.powfl` (on the values) -/
def Pow15Is {r : Rnd2 ℝ} (p : RndPow15 r) [FloatOps (RF2 r)] : Prop :=
  ∀ a : RF2 r, (FloatOps.pow15 a).val = p.powfl a.val

/-- `FloatOps` on the R2 carrier over ℝ with a rounded square root and a rounded `powf(·, 1.5)`;
comparisons compare the values -/
@[reducible] noncomputable def rf2SqrtPowFloatOps (r : Rnd2 ℝ) (q : RndSqrt r) (p : RndPow15 r) :
    FloatOps (RF2 r) where
  nan := ⟨0⟩
  posInf := ⟨0⟩
  negInf := ⟨0⟩
  sqrt := fun a => ⟨q.sqrtfl a.val⟩
  pow15 := fun a => ⟨p.powfl a.val⟩
  lt := fun a b => decide (a.val < b.val)
  eqb := fun a b => decide (a.val = b.val)
  isNaN := fun _ => false
  fmin := fun a b => if a.val ≤ b.val then a else b
  fmax := fun a b => if a.val ≤ b.val then b else a
  ceilInt := fun _ => 0
  ordLt := fun a b => decide (a.val < b.val)

theorem rf2SqrtPowFloatOps_sqrtIs (r : Rnd2 ℝ) (q : RndSqrt r) (p : RndPow15 r) :
    @SqrtIs r q (rf2SqrtPowFloatOps r q p) := fun _ => rfl

theorem rf2SqrtPowFloatOps_pow15Is (r : Rnd2 ℝ) (q : RndSqrt r) (p : RndPow15 r) :
    @Pow15Is r p (rf2SqrtPowFloatOps r q p) := fun _ => rfl

namespace SSE
namespace MC

/-- square roots: the factor takes a square root -/
theorem sqrt {Φ a b : ℝ} (hΦ : 0 < Φ) (h : MC Φ a b) (hb : 0 ≤ b) :
    MC (Real.sqrt Φ) (Real.sqrt a) (Real.sqrt b) := by
  obtain ⟨φ, f1, f2, f3⟩ := h
  have hφ := factor_pos hΦ f1
  refine ⟨Real.sqrt φ, ?_, Real.sqrt_le_sqrt f2, by rw [f3, Real.sqrt_mul hb]⟩
  rw [← Real.sqrt_inv]; exact Real.sqrt_le_sqrt f1

/-- `x ↦ x^(3/2)`: the factor is raised to the power `3/2` -/
theorem rpow15 {Φ a b : ℝ} (hΦ : 0 < Φ) (h : MC Φ a b) (hb : 0 ≤ b) :
    MC (Φ ^ ((3:ℝ)/2)) (a ^ ((3:ℝ)/2)) (b ^ ((3:ℝ)/2)) := by
  obtain ⟨φ, f1, f2, f3⟩ := h
  have hφ := factor_pos hΦ f1
  refine ⟨φ ^ ((3:ℝ)/2), ?_, Real.rpow_le_rpow hφ.le f2 (by norm_num),
    by rw [f3, Real.mul_rpow hb hφ.le]⟩
  rw [← Real.inv_rpow hΦ.le]
  exact Real.rpow_le_rpow (inv_pos.mpr hΦ).le f1 (by norm_num)

/-- one rounded square root: factor `1/(1-u)` -/
theorem sqrtfl {r : Rnd2 ℝ} (q : RndSqrt r) (hu1 : r.u < 1) {t : ℝ} (ht : 0 ≤ t) :
    MC (1 - r.u)⁻¹ (q.sqrtfl t) (Real.sqrt t) := by
  apply of_rel r.u_nonneg hu1
  rw [abs_of_nonneg (Real.sqrt_nonneg t)]; exact q.err t ht

/-- one rounded `powf(·, 1.5)`: factor `1/(1-ρ)` -/
theorem powfl {r : Rnd2 ℝ} (p : RndPow15 r) (hρ1 : p.ρ < 1) {t : ℝ} (ht : 0 ≤ t) :
    MC (1 - p.ρ)⁻¹ (p.powfl t) (t ^ ((3:ℝ)/2)) := by
  apply of_rel p.ρ_nonneg hρ1
  rw [abs_of_nonneg (Real.rpow_nonneg ht _)]; exact p.err t ht

end MC

/-- `(1/(1-ε))^(3/2) ≤ 1/(1 - (3/2)·ε)` for `0 ≤ ε`, `(3/2)·ε < 1` (Bernoulli's inequality) -/
theorem inv_rpow15_le {ε : ℝ} (_hε : 0 ≤ ε) (hε1 : 3/2 * ε < 1) :
    ((1 - ε)⁻¹) ^ ((3:ℝ)/2) ≤ (1 - 3/2 * ε)⁻¹ := by
  have h1 : 0 < 1 - ε := by linarith
  rw [Real.inv_rpow h1.le]
  apply inv_anti₀ (by linarith)
  have := one_add_mul_self_le_rpow_one_add (s := -ε) (by linarith) (p := (3:ℝ)/2) (by norm_num)
  have e : 1 + -ε = 1 - ε := by ring
  rw [e] at this
  linarith

theorem one_le_rpow15 {Φ : ℝ} (h : 1 ≤ Φ) : 1 ≤ Φ ^ ((3:ℝ)/2) :=
  Real.one_le_rpow h (by norm_num)

/-- `√(Φ·Φ) = Φ` -/
theorem sqrt_mul_self' {Φ : ℝ} (h : 0 ≤ Φ) : Real.sqrt (Φ * Φ) = Φ := Real.sqrt_mul_self h

end SSE
