import AvgProofs.RoundMoments

/-!
# R0 carrier: the variance accessors of states with non-negative sums of squares

Any `FloatOps` instance on `RF r` (its `nan` is only returned in the guarded branches).
-/
open Avg RF

variable {K : Type} [Field K] [LinearOrder K] [IsStrictOrderedRing K] {r : Rnd K} [FloatOps (RF r)]

namespace Avg

theorem Variance.accessors_nonneg (s : Variance (RF r)) (h : 0 ≤ s.sum_2.val) :
    (s.avg.n ≠ 0 → 0 ≤ s.populationVariance.val) ∧ (2 ≤ s.avg.n → 0 ≤ s.sampleVariance.val)
    ∧ (s.avg.n ≠ 0 → 0 ≤ s.varianceOfMean.val) := by
  have hsv : 2 ≤ s.avg.n → 0 ≤ s.sampleVariance.val := by
    intro h2
    simp only [Variance.sampleVariance, not_lt.mpr h2, if_false]
    exact div_cast_nonneg h _
  refine ⟨?_, hsv, ?_⟩
  · intro hn
    simp only [Variance.populationVariance, hn, if_false]
    exact div_cast_nonneg h _
  · intro hn
    by_cases h1 : s.avg.n = 1
    · simp only [Variance.varianceOfMean, h1, if_true]
      exact cast_nonneg' 0
    · simp only [Variance.varianceOfMean, hn, h1, if_false]
      exact div_cast_nonneg (hsv (by omega)) _

/-- `error()` is the square root of a non-negative number -/
theorem Variance.error_sqrt_nonneg (s : Variance (RF r)) (h : 0 ≤ s.sum_2.val) (hn : s.avg.n ≠ 0) :
    ∃ v : RF r, 0 ≤ v.val ∧ s.error = FloatOps.sqrt v :=
  ⟨s.varianceOfMean, (Variance.accessors_nonneg s h).2.2 hn, rfl⟩

theorem Covariance.accessors_nonneg (s : Covariance (RF r)) (h : 0 ≤ s.sum_x_2.val ∧ 0 ≤ s.sum_y_2.val) :
    (s.n ≠ 0 → 0 ≤ s.populationVarianceX.val ∧ 0 ≤ s.populationVarianceY.val)
    ∧ (2 ≤ s.n → 0 ≤ s.sampleVarianceX.val ∧ 0 ≤ s.sampleVarianceY.val) := by
  constructor
  · intro hn
    simp only [Covariance.populationVarianceX, Covariance.populationVarianceY, hn, if_false]
    exact ⟨div_cast_nonneg h.1 _, div_cast_nonneg h.2 _⟩
  · intro h2
    simp only [Covariance.sampleVarianceX, Covariance.sampleVarianceY, not_lt.mpr h2, if_false]
    exact ⟨div_cast_nonneg h.1 _, div_cast_nonneg h.2 _⟩

theorem Moments.accessors_nonneg (s : Moments (RF r)) (h : s.M0Nonneg) :
    (0 < s.n → 0 ≤ (s.cmRaw 2).val) ∧ (2 ≤ s.n → 0 ≤ s.sampleVariance.val) := by
  obtain ⟨m0, rest, hm, h0⟩ := h
  constructor
  · intro hn
    simp only [Moments.cmRaw, hn, if_true, hm, Nat.sub_self, List.getD_cons_zero]
    exact div_cast_nonneg h0 _
  · intro h2
    simp only [Moments.sampleVariance, not_lt.mpr h2, if_false, hm, List.getD_cons_zero]
    exact div_cast_nonneg h0 _

/-- `variance_of_weighted_mean = sample_variance · (Σw² / (Σw)²)`: a rounded product of non-negatives -/
theorem WeightedMeanWithError.varianceOfWeightedMean_nonneg (s : WeightedMeanWithError (RF r))
    (h2 : 0 ≤ s.unweighted_avg.sum_2.val) (hq : 0 ≤ s.weight_sum_sq.val)
    (hn : 2 ≤ s.unweighted_avg.avg.n)
    (hw : FloatOps.eqb s.weighted_avg.sumWeights ((0:Nat) : RF r) = false) :
    0 ≤ s.varianceOfWeightedMean.val := by
  simp only [WeightedMeanWithError.varianceOfWeightedMean, hw, Bool.false_eq_true, if_false]
  exact mul_nonneg' ((Variance.accessors_nonneg _ h2).2.1 hn) (div_nonneg' hq (mul_self_nonneg' _))

end Avg
