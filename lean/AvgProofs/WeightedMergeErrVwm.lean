import AvgProofs.WeightedMergeErrSums
import AvgProofs.VomMergeErr
import AvgProofs.WeightedErrSqrt

/-!
# `variance_of_weighted_mean` and `error` of `WeightedMeanWithError` through every merge tree

`variance_of_weighted_mean = fl(sample_variance · fl(Ŵ2/fl(Ŵ·Ŵ)))`. The `sample_variance` is that of the
inner `Variance`, which through any merge tree is bit for bit the `Variance` evaluation of the same tree over
the samples (`WeightedMeanWithError.mtree_unweighted_avg`), so `VarMerge.samplevar_mtree_error_lin`
(`Props.C02c.sample_variance_mtree_forward_error`) applies; the factor is `WMergeErr.invefflen_tree_MB_n`.

`n` observations, `e` empty chunks, `N = n + e`, `s² = T/(n-1)`, `φ = Σw²/(Σw)²`, `N·u ≤ 1/64`, `n ≥ 2`:

* `vwm_tree_val`: what the accessor computes; `vwm_tree_nonneg`: it is `≥ 0`;
* `vwm_tree_error`: `|vwm - s²·φ| ≤ ((14·n + 9·N)·u·s² + 40·n·u·M·σ + 105·n²·u²·M²)·φ`;
* `vwm_tree_envelope`: `≤ (23·N·u·s² + 93·n·u·M·σ)·φ` when `2·n·u·M ≤ σ`;
* `wmwe_tree_error_envelope` (ℝ, rounded square root): `|error - √V| ≤ (24·N + 94·n·M/σ)·u·√V`.
-/
open Avg MSpec VarSpec
set_option linter.unusedSectionVars false

variable {K : Type} [Field K] [LinearOrder K] [IsStrictOrderedRing K]

namespace WMergeErr

/-- the numerals: `A = 12nu·s2 + 35nu·Mσ + 92n²u²M²` (sample variance through a merge tree), `ε = 8Nu` (the
factor), `2 ≤ n ≤ N`, `N·u ≤ 1/64` -/
theorem vwm_tree_arith (u n N s2 M σ φ : K) (hu0 : 0 ≤ u) (hn : 2 ≤ n) (hnN : n ≤ N) (hsmall : N * u ≤ 1/64)
    (hs2 : 0 ≤ s2) (hM : 0 ≤ M) (hσ : 0 ≤ σ) (hφ : 0 ≤ φ) :
    ((1 + u) * (1 + 8 * (N * u)) * (12 * n * u * s2 + 35 * n * u * M * σ + 92 * n^2 * u^2 * M^2)
        + (8 * (N * u) + u * (1 + 8 * (N * u))) * s2) * φ
      ≤ ((14 * n + 9 * N) * u * s2 + 40 * n * u * M * σ + 105 * n^2 * u^2 * M^2) * φ := by
  apply mul_le_mul_of_nonneg_right _ hφ
  have hN0 : 0 ≤ N := by linarith
  have hn0 : 0 ≤ n := by linarith
  have hNu : 0 ≤ N * u := mul_nonneg hN0 hu0
  have h2u : 2 * u ≤ N * u := mul_le_mul_of_nonneg_right (by linarith) hu0
  have hu128 : u ≤ 1/128 := by linarith
  have hc : (1 + u) * (1 + 8 * (N * u)) ≤ 1161/1024 := by
    have h1 : 1 + u ≤ 129/128 := by linarith
    have h2 : 1 + 8 * (N * u) ≤ 9/8 := by linarith
    calc (1 + u) * (1 + 8 * (N * u)) ≤ (129/128) * (9/8) :=
          mul_le_mul h1 h2 (by linarith) (by norm_num)
      _ = 1161/1024 := by norm_num
  have hc' : u * (1 + 8 * (N * u)) ≤ 9/16 * (N * u) := by
    have h1 : 1 + 8 * (N * u) ≤ 9/8 := by linarith
    calc u * (1 + 8 * (N * u)) ≤ u * (9/8) := mul_le_mul_of_nonneg_left h1 hu0
      _ ≤ (1/2 * (N * u)) * (9/8) := by nlinarith
      _ = _ := by ring
  have hA0 : 0 ≤ 12 * n * u * s2 + 35 * n * u * M * σ + 92 * n^2 * u^2 * M^2 := by positivity
  have t1 := mul_le_mul_of_nonneg_right hc hA0
  have t2 := mul_le_mul_of_nonneg_right hc' hs2
  have a1 : 0 ≤ n * u * s2 := by positivity
  have a2 : 0 ≤ n * u * M * σ := by positivity
  have a3 : 0 ≤ n^2 * u^2 * M^2 := by positivity
  have a4 : 0 ≤ N * u * s2 := by positivity
  nlinarith

section general
variable {r : Rnd2 K} [FloatOps (RF2 r)]

/-- the count of the inner `Variance` tree -/
theorem inner_count (t : MTree (RF2 r × RF2 r)) :
    (Variance.evalTree (t.map Prod.fst)).avg.n = (t.map Prod.fst).flatten.length := by
  rw [← WeightedMeanWithError.mtree_unweighted_avg, wmwe_tree_n, MTree.flatten_map, List.length_map]

/-- what `variance_of_weighted_mean` computes after a merge tree when the stored weight sum is not zero:
`fl(sample_variance · fl(Ŵ2/fl(Ŵ·Ŵ)))`, the sample variance being that of the `Variance` tree over the
samples -/
theorem vwm_tree_val (heq : ValEqb r) (t : MTree (RF2 r × RF2 r))
    (hne0 : (WeightedMean.evalTree t).weight_sum.val ≠ 0) :
    (WeightedMeanWithError.evalTree t).varianceOfWeightedMean.val
      = r.fl ((Variance.evalTree (t.map Prod.fst)).sampleVariance.val
          * r.fl ((WeightedMeanWithError.evalTree t).weight_sum_sq.val
              / r.fl ((WeightedMean.evalTree t).weight_sum.val
                    * (WeightedMean.evalTree t).weight_sum.val))) := by
  have h0K : ((0:Nat) : K) = 0 := Nat.cast_zero
  have hws := WeightedMeanWithError.mtree_weighted_avg t
  have hun := WeightedMeanWithError.mtree_unweighted_avg t
  have heqb : FloatOps.eqb (WeightedMeanWithError.evalTree t).weighted_avg.sumWeights
      ((0:Nat) : RF2 r) = false := by
    cases hh : FloatOps.eqb (WeightedMeanWithError.evalTree t).weighted_avg.sumWeights ((0:Nat) : RF2 r)
    · rfl
    · exfalso
      have := (heq _ _).mp hh
      rw [hws] at this
      exact hne0 (this.trans h0K)
  unfold WeightedMeanWithError.varianceOfWeightedMean
  simp only [heqb, Bool.false_eq_true, if_false]
  unfold WeightedMeanWithError.sampleVariance
  rw [hun, hws]
  rfl

/-- the computed `variance_of_weighted_mean` is `≥ 0` after every merge tree with weights `≥ 0`, positive total
weight and `n ≥ 2` (any samples; `u < 1`) -/
theorem vwm_tree_nonneg (heq : ValEqb r) (hu1 : r.u < 1) (t : MTree (RF2 r × RF2 r))
    (h2 : 2 ≤ t.flatten.length) (hw : ∀ p ∈ t.flatten, 0 ≤ p.2.val) (hpos : 0 < W (pairVals t.flatten)) :
    0 ≤ (WeightedMeanWithError.evalTree t).varianceOfWeightedMean.val := by
  have h1u : 0 < 1 - r.u := by linarith
  obtain ⟨_, hW⟩ := tree_wsum_MB heq hu1 t hw
  obtain ⟨hW20, hW2⟩ := tree_wsumsq_MB heq hu1 t hw
  have hŴpos := hW.pos (pow_pos h1u _) hpos
  rw [vwm_tree_val heq t hŴpos.ne']
  have hfl : (t.map Prod.fst).flatten.length = t.flatten.length := by
    rw [MTree.flatten_map, List.length_map]
  apply fl_nonneg r hu1.le
  apply mul_nonneg
  · rw [VarMerge.samplevar_mtree_val _ (by rw [hfl]; exact h2) (inner_count t)]
    apply fl_nonneg r hu1.le
    exact div_nonneg (VomMerge.mtree_sum2_nonneg r hu1.le _) (Nat.cast_nonneg _)
  · apply fl_nonneg r hu1.le
    apply div_nonneg (hW2.nonneg (pow_pos h1u _).le hW20)
    apply fl_nonneg r hu1.le
    exact mul_self_nonneg _

/-- **`variance_of_weighted_mean` through every merge tree.** `n ≥ 2` observations `(x, w)`, `w ≥ 0`, `Σw > 0`,
`|x| ≤ M` (all samples), `e` empty chunks, `(n+e)·u ≤ 1/64`, `s² = T/(n-1)`, any `σ ≥ 0` with `s² ≤ σ²`,
`φ = Σw²/(Σw)²`:
`|variance_of_weighted_mean - s²·φ| ≤ ((14·n + 9·(n+e))·u·s² + 40·n·u·M·σ + 105·n²·u²·M²)·φ`. -/
theorem vwm_tree_error (heq : ValEqb r) (M : K) (hM : 0 ≤ M) (t : MTree (RF2 r × RF2 r))
    (h2 : 2 ≤ t.flatten.length) (hw : ∀ p ∈ t.flatten, 0 ≤ p.2.val) (hpos : 0 < W (pairVals t.flatten))
    (hb : ∀ p ∈ t.flatten, |p.1.val| ≤ M)
    (hsmall : ((t.flatten.length : K) + (t.emptyLeaves : K)) * r.u ≤ 1/64)
    (σ : K) (hσ : 0 ≤ σ)
    (hvar : T ((t.flatten.map Prod.fst).map RF2.val) / ((t.flatten.length - 1 : ℕ) : K) ≤ σ^2) :
    |(WeightedMeanWithError.evalTree t).varianceOfWeightedMean.val
        - T ((t.flatten.map Prod.fst).map RF2.val) / ((t.flatten.length - 1 : ℕ) : K)
            * (W2 (pairVals t.flatten) / (W (pairVals t.flatten) * W (pairVals t.flatten)))|
      ≤ ((14 * (t.flatten.length : K) + 9 * ((t.flatten.length : K) + (t.emptyLeaves : K))) * r.u
            * (T ((t.flatten.map Prod.fst).map RF2.val) / ((t.flatten.length - 1 : ℕ) : K))
          + 40 * (t.flatten.length : K) * r.u * M * σ + 105 * (t.flatten.length : K)^2 * r.u^2 * M^2)
        * (W2 (pairVals t.flatten) / (W (pairVals t.flatten) * W (pairVals t.flatten))) := by
  have hu0 := r.u_nonneg
  have hn2 : (2:K) ≤ (t.flatten.length : K) := by exact_mod_cast h2
  have he0 : (0:K) ≤ (t.emptyLeaves : K) := Nat.cast_nonneg _
  have hnu : (t.flatten.length : K) * r.u ≤ 1/64 := by nlinarith
  have hu1 : r.u < 1 := by nlinarith
  have hfl : (t.map Prod.fst).flatten = t.flatten.map Prod.fst := MTree.flatten_map _ _
  have hb' : ∀ x ∈ (t.map Prod.fst).flatten, |x.val| ≤ M := by
    intro x hx
    rw [hfl, List.mem_map] at hx
    obtain ⟨p, hp, rfl⟩ := hx
    exact hb p hp
  have hsv := VarMerge.samplevar_mtree_error_lin M hM (t.map Prod.fst)
    (by rw [hfl, List.length_map]; exact h2) hb' (by rw [hfl, List.length_map]; exact hnu) σ hσ
    (by rw [hfl, List.length_map]; exact hvar)
  rw [hfl, List.length_map] at hsv
  obtain ⟨_, hW⟩ := tree_wsum_MB heq hu1 t hw
  have hŴpos := hW.pos (pow_pos (by linarith) _) hpos
  rw [vwm_tree_val heq t hŴpos.ne']
  have hφMB := invefflen_tree_MB_n heq hu1 t hw hpos
  have hW2pos : 0 < W2 (pairVals t.flatten) := W2_pos hpos.ne'
  have hφ0 : 0 ≤ W2 (pairVals t.flatten) / (W (pairVals t.flatten) * W (pairVals t.flatten)) :=
    div_nonneg hW2pos.le (mul_nonneg hpos.le hpos.le)
  have hrat := ratio_within_8 r.u (((t.flatten.length : K) + (t.emptyLeaves : K)) * r.u) hu0 hu1.le
    (t.flatten.length + t.emptyLeaves + 1 + 1) (2 * t.flatten.length + 1)
    (by push_cast; nlinarith) (by linarith)
  have hφerr := hφMB.abs_sub_le hφ0
    (ε := 8 * (((t.flatten.length : K) + (t.emptyLeaves : K)) * r.u)) hrat.1 hrat.2
  have hs20 : 0 ≤ T ((t.flatten.map Prod.fst).map RF2.val) / ((t.flatten.length - 1 : ℕ) : K) :=
    div_nonneg (T_nonneg _) (Nat.cast_nonneg _)
  have hprod := vwm_product_error r.fl r.u hu0 r.err _ _ _ _ _ _ hs20 hφ0 hsv hφerr
  refine le_trans hprod ?_
  exact vwm_tree_arith r.u (t.flatten.length : K) ((t.flatten.length : K) + (t.emptyLeaves : K)) _ M σ _
    hu0 hn2 (by linarith) hsmall hs20 hM hσ hφ0

/-- **Relative to `s² + M·σ`.** If moreover `2·n·u·M ≤ σ`:
`|variance_of_weighted_mean - s²·φ| ≤ (23·(n+e)·u·s² + 93·n·u·M·σ)·φ`. -/
theorem vwm_tree_envelope (heq : ValEqb r) (M : K) (hM : 0 ≤ M) (t : MTree (RF2 r × RF2 r))
    (h2 : 2 ≤ t.flatten.length) (hw : ∀ p ∈ t.flatten, 0 ≤ p.2.val) (hpos : 0 < W (pairVals t.flatten))
    (hb : ∀ p ∈ t.flatten, |p.1.val| ≤ M)
    (hsmall : ((t.flatten.length : K) + (t.emptyLeaves : K)) * r.u ≤ 1/64)
    (σ : K) (hσ : 0 ≤ σ)
    (hvar : T ((t.flatten.map Prod.fst).map RF2.val) / ((t.flatten.length - 1 : ℕ) : K) ≤ σ^2)
    (hcond : 2 * (t.flatten.length : K) * r.u * M ≤ σ) :
    |(WeightedMeanWithError.evalTree t).varianceOfWeightedMean.val
        - T ((t.flatten.map Prod.fst).map RF2.val) / ((t.flatten.length - 1 : ℕ) : K)
            * (W2 (pairVals t.flatten) / (W (pairVals t.flatten) * W (pairVals t.flatten)))|
      ≤ (23 * ((t.flatten.length : K) + (t.emptyLeaves : K)) * r.u
            * (T ((t.flatten.map Prod.fst).map RF2.val) / ((t.flatten.length - 1 : ℕ) : K))
          + 93 * (t.flatten.length : K) * r.u * M * σ)
        * (W2 (pairVals t.flatten) / (W (pairVals t.flatten) * W (pairVals t.flatten))) := by
  have hu0 := r.u_nonneg
  have hn0 : (0:K) ≤ (t.flatten.length : K) := Nat.cast_nonneg _
  have he0 : (0:K) ≤ (t.emptyLeaves : K) := Nat.cast_nonneg _
  refine le_trans (vwm_tree_error heq M hM t h2 hw hpos hb hsmall σ hσ hvar) ?_
  have hφ0 : 0 ≤ W2 (pairVals t.flatten) / (W (pairVals t.flatten) * W (pairVals t.flatten)) :=
    div_nonneg (W2_nonneg _) (mul_nonneg hpos.le hpos.le)
  apply mul_le_mul_of_nonneg_right _ hφ0
  have hnuM : 0 ≤ (t.flatten.length : K) * r.u * M := by positivity
  have h1 : 105 * (t.flatten.length : K)^2 * r.u^2 * M^2
      ≤ 105/2 * ((t.flatten.length : K) * r.u * M) * σ := by
    have : (t.flatten.length : K) * r.u * M * (2 * ((t.flatten.length : K) * r.u * M))
        ≤ (t.flatten.length : K) * r.u * M * σ := mul_le_mul_of_nonneg_left (by linarith) hnuM
    nlinarith
  have h2' : 0 ≤ (t.flatten.length : K) * r.u * M * σ := by positivity
  have hs20 : 0 ≤ T ((t.flatten.map Prod.fst).map RF2.val) / ((t.flatten.length - 1 : ℕ) : K) :=
    div_nonneg (T_nonneg _) (Nat.cast_nonneg _)
  have h3 : 0 ≤ (t.emptyLeaves : K) * r.u
      * (T ((t.flatten.map Prod.fst).map RF2.val) / ((t.flatten.length - 1 : ℕ) : K)) := by positivity
  nlinarith

end general

section real
variable {r : Rnd2 ℝ} [FloatOps (RF2 r)]

/-- **`error` of the weighted mean through every merge tree.** Over ℝ with a correctly rounded square root:
`n ≥ 2` observations `(x, w)`, `w ≥ 0`, `Σw > 0`, `|x| ≤ M`, `e` empty chunks, `N = n + e`, `N·u ≤ 1/64`,
`s² = T/(n-1) > 0`, `σ = √(s²)`, `2·n·u·M ≤ σ`; `V = s²·Σw²/(Σw)²`:
`|variance_of_weighted_mean - V| ≤ (23·N + 93·n·M/σ)·u·V` and `|error - √V| ≤ (24·N + 94·n·M/σ)·u·√V`. -/
theorem wmwe_tree_error_envelope (q : RndSqrt r) (hs : SqrtIs q) (heq : ValEqb r) (M : ℝ) (hM : 0 ≤ M)
    (t : MTree (RF2 r × RF2 r)) (h2 : 2 ≤ t.flatten.length) (hw : ∀ p ∈ t.flatten, 0 ≤ p.2.val)
    (hpos : 0 < W (pairVals t.flatten)) (hb : ∀ p ∈ t.flatten, |p.1.val| ≤ M)
    (hsmall : ((t.flatten.length : ℝ) + (t.emptyLeaves : ℝ)) * r.u ≤ 1/64)
    (hs2 : 0 < T ((t.flatten.map Prod.fst).map RF2.val) / ((t.flatten.length - 1 : ℕ) : ℝ))
    (hcond : 2 * (t.flatten.length : ℝ) * r.u * M
      ≤ Real.sqrt (T ((t.flatten.map Prod.fst).map RF2.val) / ((t.flatten.length - 1 : ℕ) : ℝ))) :
    |(WeightedMeanWithError.evalTree t).varianceOfWeightedMean.val
        - T ((t.flatten.map Prod.fst).map RF2.val) / ((t.flatten.length - 1 : ℕ) : ℝ)
            * (W2 (pairVals t.flatten) / (W (pairVals t.flatten) * W (pairVals t.flatten)))|
      ≤ (23 * ((t.flatten.length : ℝ) + (t.emptyLeaves : ℝ)) + 93 * (t.flatten.length : ℝ)
            * (M / Real.sqrt (T ((t.flatten.map Prod.fst).map RF2.val) / ((t.flatten.length - 1 : ℕ) : ℝ))))
          * r.u
          * (T ((t.flatten.map Prod.fst).map RF2.val) / ((t.flatten.length - 1 : ℕ) : ℝ)
            * (W2 (pairVals t.flatten) / (W (pairVals t.flatten) * W (pairVals t.flatten))))
    ∧ |(WeightedMeanWithError.evalTree t).error.val
        - Real.sqrt (T ((t.flatten.map Prod.fst).map RF2.val) / ((t.flatten.length - 1 : ℕ) : ℝ)
            * (W2 (pairVals t.flatten) / (W (pairVals t.flatten) * W (pairVals t.flatten))))|
      ≤ (24 * ((t.flatten.length : ℝ) + (t.emptyLeaves : ℝ)) + 94 * (t.flatten.length : ℝ)
            * (M / Real.sqrt (T ((t.flatten.map Prod.fst).map RF2.val) / ((t.flatten.length - 1 : ℕ) : ℝ))))
          * r.u
          * Real.sqrt (T ((t.flatten.map Prod.fst).map RF2.val) / ((t.flatten.length - 1 : ℕ) : ℝ)
              * (W2 (pairVals t.flatten) / (W (pairVals t.flatten) * W (pairVals t.flatten)))) := by
  have hu := r.u_nonneg
  have hn2 : (2:ℝ) ≤ (t.flatten.length : ℝ) := by exact_mod_cast h2
  have he0 : (0:ℝ) ≤ (t.emptyLeaves : ℝ) := Nat.cast_nonneg _
  set n : ℝ := (t.flatten.length : ℝ) with hn
  set N : ℝ := n + (t.emptyLeaves : ℝ) with hN
  have hnN : n ≤ N := by linarith
  have hu128 : r.u ≤ 1/128 := by nlinarith
  have hu1 : r.u < 1 := by linarith
  set v := T ((t.flatten.map Prod.fst).map RF2.val) / ((t.flatten.length - 1 : ℕ) : ℝ) with hv
  set σ := Real.sqrt v with hσ
  have hσpos : 0 < σ := Real.sqrt_pos.mpr hs2
  have hsq : σ^2 = v := Real.sq_sqrt hs2.le
  have hW2pos : 0 < W2 (pairVals t.flatten) := W2_pos hpos.ne'
  set φ := W2 (pairVals t.flatten) / (W (pairVals t.flatten) * W (pairVals t.flatten)) with hφ
  have hφpos : 0 < φ := div_pos hW2pos (mul_pos hpos hpos)
  have hVpos : 0 < v * φ := mul_pos hs2 hφpos
  have hk0 : 0 ≤ M / σ := div_nonneg hM hσpos.le
  set k := M / σ with hk
  have hMk : M = k * σ := by rw [hk]; field_simp
  have herr := vwm_tree_envelope heq M hM t h2 hw hpos hb hsmall σ hσpos.le (le_of_eq hsq.symm) hcond
  rw [← hv, ← hφ, ← hn, ← hN] at herr
  have hrel : |(WeightedMeanWithError.evalTree t).varianceOfWeightedMean.val - v * φ|
      ≤ ((23 * N + 93 * n * k) * r.u) * (v * φ) := by
    refine le_trans herr (le_of_eq ?_)
    rw [hMk, ← hsq]; ring
  refine ⟨hrel, ?_⟩
  rw [wmwe_error_val q hs]
  have h3 := sqrtfl_error_rel q _ _ _ (vwm_tree_nonneg heq hu1 t h2 hw hpos) hVpos hrel
  refine le_trans h3 ?_
  apply mul_le_mul_of_nonneg_right _ (Real.sqrt_nonneg _)
  have hnu2 : 2 * r.u ≤ N * r.u := mul_le_mul_of_nonneg_right (by linarith) hu
  have a1 : 0 ≤ N * r.u := by positivity
  have a2 : 0 ≤ n * r.u * k := by positivity
  have b1 : r.u * (N * r.u) ≤ 1/128 * (N * r.u) := mul_le_mul_of_nonneg_right hu128 a1
  have b2 : r.u * (n * r.u * k) ≤ 1/128 * (n * r.u * k) := mul_le_mul_of_nonneg_right hu128 a2
  nlinarith

end real
end WMergeErr

#print axioms WMergeErr.vwm_tree_val
#print axioms WMergeErr.vwm_tree_nonneg
#print axioms WMergeErr.vwm_tree_error
#print axioms WMergeErr.vwm_tree_envelope
#print axioms WMergeErr.wmwe_tree_error_envelope
