import AvgProofs.CovMergeErrTree
import AvgProofs.VarMergeErrLin
import AvgProofs.CovErrEnvelope

/-!
# Forward error of `sum_prod` through every merge tree: symbolic form and numerals

`n` pairs, `|x| ≤ Mx`, `|y| ≤ My`, `C = Σ(x-mean x)(y-mean y)`, `T_x`, `T_y` the exact sums of squares,
`L = t.neLeaves` the number of non-empty chunks, `ε ≥ 0` a bound on `|avg_y after the first pair - y_0|`
for the first pair of every chunk (`CovMerge.FirstEps t ε`); `Rxy, Rx, Ry ≥ 0` with `T_x·T_y ≤ Rxy²`,
`n·T_x ≤ Rx²`, `n·T_y ≤ Ry²`.

* `CovMerge.cov_mtree_error_sym`: symbolic in the budgets `Bx`, `By` of the means (`Rx, Ry > 0`):
  `|sum_prod - C| ≤ (1+u)^(2n)·((19/4)·u·n·Rxy + (4/5)·Bx·n·Ry + (3/2)·By·n·Rx + (2/5)·Bx·By·n³ + (6/5)·ε·Mx·L)`.
* `CovMerge.cov_mtree_error_lin` (`n·u ≤ 1/64`):
  `|sum_prod - C| ≤ 5·n·u·Rxy + (17/2)·n·u·Mx·Ry + 16·n·u·My·Rx + 44·n³·u²·Mx·My + (5/4)·ε·Mx·L`
  (add-only stream, `CovErr.cov_fold_error_lin`: `5, 7, 16, 38` and `12·u·Mx·My` for its single chunk).
* `CovMerge.cov_mtree_error_exact`: every chunk `FirstExact` - the last term disappears.
* `CovMerge.cov_mtree_error_std`: standard model only - the last term is `4·u·Mx·My·L`.
-/
open Avg MSpec Finset VarSpec CovSpec CovErr VarMerge

namespace CovMerge
variable {K : Type} [Field K] [LinearOrder K] [IsStrictOrderedRing K]

/-- `ε` bounds the error of the `y`-mean after the first pair of every chunk of the tree -/
def FirstEps {r : Rnd2 K} (t : MTree (RF2 r × RF2 r)) (ε : K) : Prop :=
  ∀ ps ∈ t.chunks, ∀ p, ps.head? = some p →
    |((Covariance.new : Covariance (RF2 r)).add p.1 p.2).avg_y.val - p.2.val| ≤ ε

/-- the `y`-mean after the first pair of every chunk is the `y` of that pair (true of IEEE arithmetic;
not a consequence of the standard model) -/
def ChunksFirstExact {r : Rnd2 K} (t : MTree (RF2 r × RF2 r)) : Prop :=
  ∀ ps ∈ t.chunks, FirstExact ps

theorem firstEps_of_exact {r : Rnd2 K} {t : MTree (RF2 r × RF2 r)} (h : ChunksFirstExact t) :
    FirstEps t 0 := fun ps hps => h1_of_firstExact (h ps hps)

/-- every element of a chunk is an element of the data -/
theorem mem_flatten_of_mem_chunk {α : Type} (t : MTree α) (ps : List α) (hps : ps ∈ t.chunks)
    (p : α) (hp : p ∈ ps) : p ∈ t.flatten := by
  rw [← MTree.flatten_chunks]
  exact List.mem_flatten.mpr ⟨ps, hps, hp⟩

/-- in the standard model `ε = γ₃·My` always works -/
theorem firstEps_std {r : Rnd2 K} {t : MTree (RF2 r × RF2 r)} {My : K}
    (hby : ∀ p ∈ t.flatten, |p.2.val| ≤ My) : FirstEps t (gam3 r.u * My) := by
  intro ps hps
  exact h1_std (fun p hp => hby p (mem_flatten_of_mem_chunk t ps hps p hp))

/-- the value of the `x`-mean after the first pair, operation by operation -/
theorem first_avg_x_val (r : Rnd2 K) (x y : RF2 r) :
    ((Covariance.new : Covariance (RF2 r)).add x y).avg_x.val
      = r.fl (0 + r.fl (r.fl (x.val - 0) / 1)) := by
  have h : ((Covariance.new : Covariance (RF2 r)).add x y).avg_x.val
      = r.fl (((0 : ℕ) : K) + r.fl (r.fl (x.val - ((0 : ℕ) : K)) / ((0 + 1 : ℕ) : K))) := rfl
  rw [h]; simp

/-- a bound valid with every positive slack `c·δ` is valid without -/
theorem le_of_forall_pos_lin (e A c : K) (hc : 0 ≤ c) (h : ∀ δ, 0 < δ → e ≤ A + c * δ) : e ≤ A := by
  by_contra hlt
  rw [not_le] at hlt
  have hd : 0 < e - A := by linarith
  have hc1 : 0 < 2 * (c + 1) := by linarith
  have := h ((e - A) / (2 * (c + 1))) (div_pos hd hc1)
  have hle : c * ((e - A) / (2 * (c + 1))) ≤ (e - A) / 2 := by
    rw [← mul_div_assoc, div_le_iff₀ hc1]
    nlinarith
  linarith

/-- **Every merge tree, symbolic in the budgets of the means.** -/
theorem cov_mtree_error_sym (r : Rnd2 K) (Mx My Bx By ε : K) (hMx : 0 ≤ Mx) (hMy : 0 ≤ My)
    (hu64 : r.u ≤ 1/64) (hBx : Bm r.u Mx ≤ Bx) (hBy : Bm r.u My ≤ By) (hε : 0 ≤ ε)
    (t : MTree (RF2 r × RF2 r)) (hne : t.flatten ≠ [])
    (hbx : ∀ p ∈ t.flatten, |p.1.val| ≤ Mx) (hby : ∀ p ∈ t.flatten, |p.2.val| ≤ My)
    (hs1 : (2*r.u + r.u^2) * (1 + r.u) + (t.flatten.length : K) * r.u ≤ 1/2)
    (hs2x : 5 * r.u * (Mx + Bx * (t.flatten.length : K)) ≤ Bx)
    (hs2y : 5 * r.u * (My + By * (t.flatten.length : K)) ≤ By)
    (hfirst : FirstEps t ε)
    (Rxy Rx Ry : K) (hRxy : 0 ≤ Rxy) (hRx : 0 < Rx) (hRy : 0 < Ry)
    (hxy : T (fsts (vals t.flatten)) * T (snds (vals t.flatten)) ≤ Rxy^2)
    (hx : (t.flatten.length : K) * T (fsts (vals t.flatten)) ≤ Rx^2)
    (hy : (t.flatten.length : K) * T (snds (vals t.flatten)) ≤ Ry^2) :
    |(Covariance.evalTree t).sum_prod.val - Cxy (vals t.flatten)|
      ≤ (1 + r.u)^(2 * t.flatten.length)
          * (19/4 * r.u * (t.flatten.length : K) * Rxy + 4/5 * Bx * (t.flatten.length : K) * Ry
              + 3/2 * By * (t.flatten.length : K) * Rx + 2/5 * Bx * By * (t.flatten.length : K)^3
              + 6/5 * (ε * Mx) * (t.neLeaves : K)) := by
  have hu0 := r.u_nonneg
  have hBx0 : 0 ≤ Bx := le_trans (Bm_nonneg hu0 hMx) hBx
  have hBy0 : 0 ≤ By := le_trans (Bm_nonneg hu0 hMy) hBy
  have hn1 : (1 : K) ≤ t.flatten.length := by exact_mod_cast List.length_pos_of_ne_nil hne
  set n : K := (t.flatten.length : K) with hn
  have hnpos : 0 < n := by linarith
  set Tx := T (fsts (vals t.flatten)) with hTx
  set Ty := T (snds (vals t.flatten)) with hTy
  have hTx0 : 0 ≤ Tx := T_nonneg _
  have hTy0 : 0 ≤ Ty := T_nonneg _
  have hP0 : 0 ≤ (1 + r.u)^(2 * t.flatten.length) := by positivity
  have hG : GT (tvals t) ≤ Rxy := GT_le (tvals t) Rxy hRxy (by rw [tvals_flatten]; exact hxy)
  have hG0 := GT_nonneg (tvals t)
  have main := cov_mtree_inv r Mx My Bx By (Bx * n / Ry) (Bx * Ry / n) (By * n / Rx) (By * Rx / n) ε
    hMx hMy hu64 hBx hBy (by positivity) (by positivity) (by positivity) (by positivity)
    (by
      have : Bx * n / Ry * (Bx * Ry / n) = Bx^2 := by field_simp
      rw [this])
    (by
      have : By * n / Rx * (By * Rx / n) = By^2 := by field_simp
      rw [this]) hε t hbx hby hs1 hs2x hs2y hfirst
  refine le_trans main (mul_le_mul_of_nonneg_left ?_ hP0)
  show GC r.u Bx By (Bx * n / Ry) (Bx * Ry / n) (By * n / Rx) (By * Rx / n) (ε * Mx) n (GT (tvals t))
      Tx Ty (t.neLeaves : K)
    ≤ 19/4 * r.u * n * Rxy + 4/5 * Bx * n * Ry + 3/2 * By * n * Rx + 2/5 * Bx * By * n^3
        + 6/5 * (ε * Mx) * (t.neLeaves : K)
  unfold GC
  have a0 : 19/4 * r.u * n * GT (tvals t) ≤ 19/4 * r.u * n * Rxy := by gcongr
  have a1 : 2/5 * (Bx * n / Ry) * n * Ty ≤ 2/5 * Bx * n * Ry := by
    have : 2/5 * (Bx * n / Ry) * n * Ty = 2/5 * Bx * n * (n * Ty) / Ry := by field_simp
    rw [this, div_le_iff₀ hRy]
    calc 2/5 * Bx * n * (n * Ty) ≤ 2/5 * Bx * n * Ry^2 := by gcongr
      _ = 2/5 * Bx * n * Ry * Ry := by ring
  have a2 : 2/5 * (Bx * Ry / n) * n^2 = 2/5 * Bx * n * Ry := by field_simp
  have a3 : 3/4 * (By * n / Rx) * n * Tx ≤ 3/4 * By * n * Rx := by
    have : 3/4 * (By * n / Rx) * n * Tx = 3/4 * By * n * (n * Tx) / Rx := by field_simp
    rw [this, div_le_iff₀ hRx]
    calc 3/4 * By * n * (n * Tx) ≤ 3/4 * By * n * Rx^2 := by gcongr
      _ = 3/4 * By * n * Rx * Rx := by ring
  have a4 : 3/4 * (By * Rx / n) * n^2 = 3/4 * By * n * Rx := by field_simp
  linarith

/-- numerals of `cov_mtree_error_lin` -/
theorem mtree_lin_arith_cov (P Bx By u Mx My n Rxy Rx Ry E L : K) (hu : 0 ≤ u) (hMx : 0 ≤ Mx)
    (hMy : 0 ≤ My) (hn : 0 ≤ n) (hRxy : 0 ≤ Rxy) (hRx : 0 ≤ Rx) (hRy : 0 ≤ Ry) (hE : 0 ≤ E)
    (hL : 0 ≤ L) (hP : P ≤ 32/31) (hBx : Bx = 41/4 * u * Mx) (hBy : By = 41/4 * u * My) :
    P * (19/4 * u * n * Rxy + 4/5 * Bx * n * Ry + 3/2 * By * n * Rx + 2/5 * Bx * By * n^3
          + 6/5 * E * L)
      ≤ 5 * n * u * Rxy + 17/2 * n * u * Mx * Ry + 16 * n * u * My * Rx
        + 44 * n^3 * u^2 * Mx * My + 5/4 * E * L := by
  have a1 : 0 ≤ n * u * Rxy := by positivity
  have a2 : 0 ≤ n * u * Mx * Ry := by positivity
  have a3 : 0 ≤ n * u * My * Rx := by positivity
  have a4 : 0 ≤ n^3 * u^2 * Mx * My := by positivity
  have a5 : 0 ≤ E * L := by positivity
  have h0 : 0 ≤ 19/4 * u * n * Rxy + 4/5 * Bx * n * Ry + 3/2 * By * n * Rx + 2/5 * Bx * By * n^3
      + 6/5 * E * L := by
    rw [hBx, hBy]; positivity
  calc P * (19/4 * u * n * Rxy + 4/5 * Bx * n * Ry + 3/2 * By * n * Rx + 2/5 * Bx * By * n^3
          + 6/5 * E * L)
      ≤ 32/31 * (19/4 * u * n * Rxy + 4/5 * Bx * n * Ry + 3/2 * By * n * Rx + 2/5 * Bx * By * n^3
          + 6/5 * E * L) := by gcongr
    _ = 32/31 * 19/4 * (n * u * Rxy) + 32/31 * 4/5 * 41/4 * (n * u * Mx * Ry)
          + 32/31 * 3/2 * 41/4 * (n * u * My * Rx)
          + 32/31 * 2/5 * (41/4)^2 * (n^3 * u^2 * Mx * My) + 32/31 * 6/5 * (E * L) := by
        rw [hBx, hBy]; ring
    _ ≤ 5 * (n * u * Rxy) + 17/2 * (n * u * Mx * Ry) + 16 * (n * u * My * Rx)
          + 44 * (n^3 * u^2 * Mx * My) + 5/4 * (E * L) := by
        have : (32:K)/31 * 19/4 ≤ 5 := by norm_num
        have : (32:K)/31 * 4/5 * 41/4 ≤ 17/2 := by norm_num
        have : (32:K)/31 * 3/2 * 41/4 ≤ 16 := by norm_num
        have : (32:K)/31 * 2/5 * (41/4)^2 ≤ 44 := by norm_num
        have : (32:K)/31 * 6/5 ≤ 5/4 := by norm_num
        gcongr
    _ = _ := by ring

/-- the positive-`Rx, Ry` form of `cov_mtree_error_lin` -/
theorem cov_mtree_error_lin_pos (r : Rnd2 K) (Mx My ε : K) (hMx : 0 ≤ Mx) (hMy : 0 ≤ My)
    (hε : 0 ≤ ε) (t : MTree (RF2 r × RF2 r)) (hne : t.flatten ≠ [])
    (hbx : ∀ p ∈ t.flatten, |p.1.val| ≤ Mx) (hby : ∀ p ∈ t.flatten, |p.2.val| ≤ My)
    (hsmall : (t.flatten.length : K) * r.u ≤ 1/64) (hfirst : FirstEps t ε)
    (Rxy Rx Ry : K) (hRxy : 0 ≤ Rxy) (hRx : 0 < Rx) (hRy : 0 < Ry)
    (hxy : T (fsts (vals t.flatten)) * T (snds (vals t.flatten)) ≤ Rxy^2)
    (hx : (t.flatten.length : K) * T (fsts (vals t.flatten)) ≤ Rx^2)
    (hy : (t.flatten.length : K) * T (snds (vals t.flatten)) ≤ Ry^2) :
    |(Covariance.evalTree t).sum_prod.val - Cxy (vals t.flatten)|
      ≤ 5 * (t.flatten.length : K) * r.u * Rxy + 17/2 * (t.flatten.length : K) * r.u * Mx * Ry
        + 16 * (t.flatten.length : K) * r.u * My * Rx
        + 44 * (t.flatten.length : K)^3 * r.u^2 * Mx * My + 5/4 * (ε * Mx) * (t.neLeaves : K) := by
  have hu := r.u_nonneg
  have hn1 : (1 : K) ≤ t.flatten.length := by exact_mod_cast List.length_pos_of_ne_nil hne
  have hu64 : r.u ≤ 1/64 := by nlinarith
  have hw : (2*r.u + r.u^2) * (1 + r.u) ≤ 33/16 * r.u := by nlinarith
  have hs2 : ∀ M : K, 0 ≤ M →
      5 * r.u * (M + 41/4 * r.u * M * (t.flatten.length : K)) ≤ 41/4 * r.u * M := by
    intro M hM
    have huM : 0 ≤ r.u * M := by positivity
    have h1 : 5 * r.u * (M + 41/4 * r.u * M * (t.flatten.length : K))
        = 5 * (r.u * M) + 205/4 * ((r.u * M) * ((t.flatten.length : K) * r.u)) := by ring
    have h2 : (r.u * M) * ((t.flatten.length : K) * r.u) ≤ (r.u * M) * (1/64) := by gcongr
    rw [h1]; linarith
  have main := cov_mtree_error_sym r Mx My (41/4 * r.u * Mx) (41/4 * r.u * My) ε hMx hMy hu64
    (Bm_le r.u Mx hu hMx hu64) (Bm_le r.u My hu hMy hu64) hε t hne hbx hby (by linarith)
    (hs2 Mx hMx) (hs2 My hMy) hfirst Rxy Rx Ry hRxy hRx hRy hxy hx hy
  refine le_trans main ?_
  exact mtree_lin_arith_cov _ (41/4 * r.u * Mx) (41/4 * r.u * My) r.u Mx My _ Rxy Rx Ry (ε * Mx)
    (t.neLeaves : K) hu hMx hMy (by linarith) hRxy hRx.le hRy.le (by positivity) (Nat.cast_nonneg _)
    (lead_le r.u hu _ hsmall) rfl rfl

/-- **Forward error of `sum_prod` through every merge tree, linear in the conditioning.** Standard model
of rounding with unit roundoff `u`; every merge tree `t` of pairs (any shape, any chunk sizes, empty
chunks included; leaves folded with `Covariance.add`, nodes merged with `Covariance.merge`) over `n` pairs
with `|x| ≤ Mx`, `|y| ≤ My`, `n·u ≤ 1/64`; `ε ≥ 0` a bound on `|avg_y after the first pair - y_0|` for the
first pair of every chunk, `L` the number of non-empty chunks; any `Rxy, Rx, Ry ≥ 0` with
`T_x·T_y ≤ Rxy²`, `n·T_x ≤ Rx²`, `n·T_y ≤ Ry²`:
`|sum_prod - C| ≤ 5·n·u·Rxy + (17/2)·n·u·Mx·Ry + 16·n·u·My·Rx + 44·n³·u²·Mx·My + (5/4)·ε·Mx·L`. -/
theorem cov_mtree_error_lin (r : Rnd2 K) (Mx My ε : K) (hMx : 0 ≤ Mx) (hMy : 0 ≤ My)
    (hε : 0 ≤ ε) (t : MTree (RF2 r × RF2 r))
    (hbx : ∀ p ∈ t.flatten, |p.1.val| ≤ Mx) (hby : ∀ p ∈ t.flatten, |p.2.val| ≤ My)
    (hsmall : (t.flatten.length : K) * r.u ≤ 1/64) (hfirst : FirstEps t ε)
    (Rxy Rx Ry : K) (hRxy : 0 ≤ Rxy) (hRx : 0 ≤ Rx) (hRy : 0 ≤ Ry)
    (hxy : T (fsts (vals t.flatten)) * T (snds (vals t.flatten)) ≤ Rxy^2)
    (hx : (t.flatten.length : K) * T (fsts (vals t.flatten)) ≤ Rx^2)
    (hy : (t.flatten.length : K) * T (snds (vals t.flatten)) ≤ Ry^2) :
    |(Covariance.evalTree t).sum_prod.val - Cxy (vals t.flatten)|
      ≤ 5 * (t.flatten.length : K) * r.u * Rxy + 17/2 * (t.flatten.length : K) * r.u * Mx * Ry
        + 16 * (t.flatten.length : K) * r.u * My * Rx
        + 44 * (t.flatten.length : K)^3 * r.u^2 * Mx * My + 5/4 * (ε * Mx) * (t.neLeaves : K) := by
  have hu := r.u_nonneg
  have hL0 : (0 : K) ≤ (t.neLeaves : K) := Nat.cast_nonneg _
  have hn0 : (0 : K) ≤ (t.flatten.length : K) := Nat.cast_nonneg _
  by_cases hnil : t.flatten = []
  · rw [Covariance.mtree_eval_empty t hnil, hnil]
    have h0 : (Covariance.new : Covariance (RF2 r)).sum_prod.val = 0 :=
      (Nat.cast_zero : ((0 : ℕ) : K) = 0)
    have : 0 ≤ 5/4 * (ε * Mx) * (t.neLeaves : K) := by positivity
    simpa [h0, vals, Cxy_nil] using this
  set n : K := (t.flatten.length : K) with hn
  apply le_of_forall_pos_lin _ _ (17/2 * n * r.u * Mx + 16 * n * r.u * My) (by positivity)
  intro δ hδ
  have h := cov_mtree_error_lin_pos r Mx My ε hMx hMy hε t hnil hbx hby hsmall hfirst Rxy (Rx + δ)
    (Ry + δ) hRxy (by linarith) (by linarith) hxy
    (le_trans hx (by nlinarith)) (le_trans hy (by nlinarith))
  refine le_trans h (le_of_eq ?_)
  ring

/-- **`sum_prod` through every merge tree, first pair of every chunk exact** (the target form):
`|sum_prod - C| ≤ 5·n·u·Rxy + (17/2)·n·u·Mx·Ry + 16·n·u·My·Rx + 44·n³·u²·Mx·My`. -/
theorem cov_mtree_error_exact (r : Rnd2 K) (Mx My : K) (hMx : 0 ≤ Mx) (hMy : 0 ≤ My)
    (t : MTree (RF2 r × RF2 r))
    (hbx : ∀ p ∈ t.flatten, |p.1.val| ≤ Mx) (hby : ∀ p ∈ t.flatten, |p.2.val| ≤ My)
    (hsmall : (t.flatten.length : K) * r.u ≤ 1/64) (hfirst : ChunksFirstExact t)
    (Rxy Rx Ry : K) (hRxy : 0 ≤ Rxy) (hRx : 0 ≤ Rx) (hRy : 0 ≤ Ry)
    (hxy : T (fsts (vals t.flatten)) * T (snds (vals t.flatten)) ≤ Rxy^2)
    (hx : (t.flatten.length : K) * T (fsts (vals t.flatten)) ≤ Rx^2)
    (hy : (t.flatten.length : K) * T (snds (vals t.flatten)) ≤ Ry^2) :
    |(Covariance.evalTree t).sum_prod.val - Cxy (vals t.flatten)|
      ≤ 5 * (t.flatten.length : K) * r.u * Rxy + 17/2 * (t.flatten.length : K) * r.u * Mx * Ry
        + 16 * (t.flatten.length : K) * r.u * My * Rx
        + 44 * (t.flatten.length : K)^3 * r.u^2 * Mx * My := by
  have h := cov_mtree_error_lin r Mx My 0 hMx hMy le_rfl t hbx hby hsmall (firstEps_of_exact hfirst)
    Rxy Rx Ry hRxy hRx hRy hxy hx hy
  simpa using h

/-- **`sum_prod` through every merge tree, standard model only**: the same `+ 4·u·Mx·My·L`, `L` the number
of non-empty chunks (each chunk starts with a first pair, whose `y`-mean costs three roundings in the
standard model). -/
theorem cov_mtree_error_std (r : Rnd2 K) (Mx My : K) (hMx : 0 ≤ Mx) (hMy : 0 ≤ My)
    (t : MTree (RF2 r × RF2 r))
    (hbx : ∀ p ∈ t.flatten, |p.1.val| ≤ Mx) (hby : ∀ p ∈ t.flatten, |p.2.val| ≤ My)
    (hsmall : (t.flatten.length : K) * r.u ≤ 1/64)
    (Rxy Rx Ry : K) (hRxy : 0 ≤ Rxy) (hRx : 0 ≤ Rx) (hRy : 0 ≤ Ry)
    (hxy : T (fsts (vals t.flatten)) * T (snds (vals t.flatten)) ≤ Rxy^2)
    (hx : (t.flatten.length : K) * T (fsts (vals t.flatten)) ≤ Rx^2)
    (hy : (t.flatten.length : K) * T (snds (vals t.flatten)) ≤ Ry^2) :
    |(Covariance.evalTree t).sum_prod.val - Cxy (vals t.flatten)|
      ≤ 5 * (t.flatten.length : K) * r.u * Rxy + 17/2 * (t.flatten.length : K) * r.u * Mx * Ry
        + 16 * (t.flatten.length : K) * r.u * My * Rx
        + 44 * (t.flatten.length : K)^3 * r.u^2 * Mx * My
        + 4 * r.u * Mx * My * (t.neLeaves : K) := by
  have hu := r.u_nonneg
  have hL0 : (0 : K) ≤ (t.neLeaves : K) := Nat.cast_nonneg _
  by_cases hnil : t.flatten = []
  · rw [Covariance.mtree_eval_empty t hnil, hnil]
    have h0 : (Covariance.new : Covariance (RF2 r)).sum_prod.val = 0 :=
      (Nat.cast_zero : ((0 : ℕ) : K) = 0)
    have : 0 ≤ 4 * r.u * Mx * My * (t.neLeaves : K) := by positivity
    simpa [h0, vals, Cxy_nil] using this
  have hn1 : (1 : K) ≤ t.flatten.length := by exact_mod_cast List.length_pos_of_ne_nil hnil
  have hu64 : r.u ≤ 1/64 := by nlinarith
  have hg := gam3_le r.u hu hu64
  have hg0 := gam3_nonneg hu
  have h := cov_mtree_error_lin r Mx My (gam3 r.u * My) hMx hMy (by positivity) t hbx hby hsmall
    (firstEps_std hby) Rxy Rx Ry hRxy hRx hRy hxy hx hy
  refine le_trans h ?_
  have hML : 0 ≤ My * Mx * (t.neLeaves : K) := by positivity
  have : 5/4 * (gam3 r.u * My * Mx) * (t.neLeaves : K) ≤ 4 * r.u * Mx * My * (t.neLeaves : K) := by
    calc 5/4 * (gam3 r.u * My * Mx) * (t.neLeaves : K)
        = 5/4 * gam3 r.u * (My * Mx * (t.neLeaves : K)) := by ring
      _ ≤ 5/4 * (49/16 * r.u) * (My * Mx * (t.neLeaves : K)) := by gcongr
      _ ≤ 4 * r.u * (My * Mx * (t.neLeaves : K)) := by
          have : 0 ≤ r.u * (My * Mx * (t.neLeaves : K)) := by positivity
          nlinarith
      _ = 4 * r.u * Mx * My * (t.neLeaves : K) := by ring
  linarith

end CovMerge

#print axioms CovMerge.cov_mtree_error_sym
#print axioms CovMerge.cov_mtree_error_lin
#print axioms CovMerge.cov_mtree_error_exact
#print axioms CovMerge.cov_mtree_error_std
