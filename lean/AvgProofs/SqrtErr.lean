import AvgProofs.VarErrAccess
import AvgProofs.WeightedMeanErr
import Mathlib.Analysis.Real.Sqrt

/-!
# The rounding model with a correctly rounded square root; `variance_of_mean` and `error`

* `RndSqrt r`: a function `sqrtfl` with `|sqrtfl t - √t| ≤ u·√t` for `t ≥ 0` (IEEE `sqrt` is correctly
  rounded), `rf2SqrtFloatOps r q`: the `FloatOps (RF2 r)` whose `sqrt` is `sqrtfl` on the values and whose
  comparisons compare the values.
* `fl_nonneg`, `var_fold_sum2_nonneg`: at `RF2 r` with `u ≤ 1` the stored sum of squares is `≥ 0` after any
  add-only stream (so `variance_of_mean ≥ 0` and `error` is the square root of a non-negative number).
* `vom_val`, `vom_error_sharp`: `variance_of_mean = fl(fl(S/(n-1))/n)`;
  `|variance_of_mean - v| ≤ (13/2)·n·u·v + ((99/25)·n·u·M·σ + (94/25)·n²u²M²)/(n-1)`, `v = T/((n-1)n)`.
* `abs_sqrt_sub_sqrt_le`, `sqrtfl_error_rel`, `sqrtfl_error_abs`: the square root of a perturbed argument.
-/
open Avg MSpec VarSpec
set_option linter.unusedSectionVars false

/-- a correctly rounded square root for the rounding `r`: relative error at most `u` on `t ≥ 0` -/
structure RndSqrt (r : Rnd2 ℝ) where
  sqrtfl : ℝ → ℝ
  err : ∀ t, 0 ≤ t → |sqrtfl t - Real.sqrt t| ≤ r.u * Real.sqrt t

/-- `FloatOps` on the R2 carrier over ℝ: `sqrt` is the rounded square root of the value, comparisons are the
exact comparisons of the values (the remaining members are fillers as in `rf2FloatOps`) -/
@[reducible] noncomputable def rf2SqrtFloatOps (r : Rnd2 ℝ) (q : RndSqrt r) : FloatOps (RF2 r) where
  nan := ⟨0⟩
  posInf := ⟨0⟩
  negInf := ⟨0⟩
  sqrt := fun a => ⟨q.sqrtfl a.val⟩
  pow15 := id
  lt := fun a b => decide (a.val < b.val)
  eqb := fun a b => decide (a.val = b.val)
  isNaN := fun _ => false
  fmin := fun a b => if a.val ≤ b.val then a else b
  fmax := fun a b => if a.val ≤ b.val then b else a
  ceilInt := fun _ => 0
  ordLt := fun a b => decide (a.val < b.val)

theorem rf2SqrtFloatOps_valEqb (r : Rnd2 ℝ) (q : RndSqrt r) :
    @ValEqb ℝ _ _ _ r (rf2SqrtFloatOps r q) := fun a b => by
  show decide (a.val = b.val) = true ↔ a.val = b.val
  exact decide_eq_true_iff

/-- the exact square root is a `RndSqrt` for every rounding -/
noncomputable def exactSqrt (r : Rnd2 ℝ) : RndSqrt r :=
  ⟨Real.sqrt, fun t _ => by
    rw [sub_self, abs_zero]; exact mul_nonneg r.u_nonneg (Real.sqrt_nonneg _)⟩

/-- the square root followed by the rounding `r.fl` is a `RndSqrt` -/
noncomputable def flSqrt (r : Rnd2 ℝ) : RndSqrt r :=
  ⟨fun t => r.fl (Real.sqrt t), fun t _ => by
    have := r.err (Real.sqrt t); rwa [abs_of_nonneg (Real.sqrt_nonneg _)] at this⟩

section general
variable {K : Type} [Field K] [LinearOrder K] [IsStrictOrderedRing K]

theorem fl_nonneg (r : Rnd2 K) (hu1 : r.u ≤ 1) {t : K} (ht : 0 ≤ t) : 0 ≤ r.fl t := by
  have e := r.err t
  rw [abs_of_nonneg ht] at e
  have := (abs_le.mp e).1
  nlinarith [mul_nonneg (sub_nonneg.mpr hu1) ht]

/-- `Variance.add` keeps `sum_2 ≥ 0` at `RF2 r` (`u ≤ 1`): the increment is a rounded product of rounded
non-negative factors -/
theorem var_add_sum2_nonneg (r : Rnd2 K) (hu1 : r.u ≤ 1) (s : Variance (RF2 r)) (x : RF2 r)
    (h : 0 ≤ s.sum_2.val) : 0 ≤ (s.add x).sum_2.val := by
  rw [VarErr.sum2_add_val]
  have hk : (1:K) ≤ ((s.avg.n + 1 : ℕ) : K) := by push_cast; linarith [(Nat.cast_nonneg s.avg.n : (0:K) ≤ _)]
  apply fl_nonneg r hu1
  apply add_nonneg h
  apply fl_nonneg r hu1
  apply mul_nonneg
  · apply fl_nonneg r hu1
    apply mul_nonneg _ (by linarith)
    apply fl_nonneg r hu1
    exact mul_self_nonneg _
  · apply fl_nonneg r hu1; linarith

theorem var_fold_sum2_nonneg (r : Rnd2 K) (hu1 : r.u ≤ 1) (xs : List (RF2 r)) :
    0 ≤ (xs.foldl Variance.add Variance.new).sum_2.val := by
  induction xs using List.reverseRecOn with
  | nil => exact le_of_eq (Nat.cast_zero : ((0:ℕ):K) = 0).symm
  | append_singleton xs x ih =>
    rw [List.foldl_append, List.foldl_cons, List.foldl_nil]
    exact var_add_sum2_nonneg r hu1 _ x ih

variable {r : Rnd2 K} [FloatOps (RF2 r)]

/-- what `variance_of_mean` computes at `RF2 r` for `n ≥ 2`: `fl(fl(sum_2/(n-1))/n)` -/
theorem vom_val (xs : List (RF2 r)) (h2 : 2 ≤ xs.length) :
    (xs.foldl Variance.add Variance.new).varianceOfMean.val
      = r.fl (r.fl ((xs.foldl Variance.add Variance.new).sum_2.val / ((xs.length - 1 : ℕ) : K))
          / (xs.length : K)) := by
  have hn := Variance.fold_n_ve xs
  have hsv := VarErr.samplevar_val xs h2
  unfold Variance.varianceOfMean
  rw [hn, if_neg (by omega), if_neg (by omega)]
  show r.fl ((xs.foldl Variance.add Variance.new).sampleVariance.val / (xs.length : K)) = _
  rw [hsv]

theorem vom_nonneg (hu1 : r.u ≤ 1) (xs : List (RF2 r)) (h2 : 2 ≤ xs.length) :
    0 ≤ (xs.foldl Variance.add Variance.new).varianceOfMean.val := by
  rw [vom_val xs h2]
  apply fl_nonneg r hu1
  apply div_nonneg _ (Nat.cast_nonneg _)
  apply fl_nonneg r hu1
  exact div_nonneg (var_fold_sum2_nonneg r hu1 xs) (Nat.cast_nonneg _)

/-- **`variance_of_mean`.** `n ≥ 2`, `|x_i| ≤ M`, `(n+28)·u ≤ 1/64`, `v = T/((n-1)·n)` the exact value, any
`σ ≥ 0` with `T/n ≤ σ²` (population variance):
`|variance_of_mean - v| ≤ (13/2)·n·u·v + ((99/25)·n·u·M·σ + (94/25)·n²·u²·M²)/(n-1)`. -/
theorem vom_error_sharp (M : K) (hM : 0 ≤ M) (xs : List (RF2 r)) (h2 : 2 ≤ xs.length)
    (hb : ∀ x ∈ xs, |x.val| ≤ M) (hsmall : ((xs.length : K) + 28) * r.u ≤ 1/64)
    (σ : K) (hσ : 0 ≤ σ) (hvar : T (xs.map RF2.val) / (xs.length : K) ≤ σ^2) :
    |(xs.foldl Variance.add Variance.new).varianceOfMean.val
        - T (xs.map RF2.val) / ((xs.length - 1 : ℕ) : K) / (xs.length : K)|
      ≤ 13/2 * xs.length * r.u * (T (xs.map RF2.val) / ((xs.length - 1 : ℕ) : K) / (xs.length : K))
        + (99/25 * xs.length * r.u * M * σ + 94/25 * (xs.length : K)^2 * r.u^2 * M^2)
            / ((xs.length - 1 : ℕ) : K) := by
  have hu := r.u_nonneg
  have hn2 : (2 : K) ≤ xs.length := by exact_mod_cast h2
  rw [vom_val xs h2]
  have hm : ((xs.length - 1 : ℕ) : K) = (xs.length : K) - 1 := by
    rw [Nat.cast_sub (by omega)]; simp
  rw [hm]
  set n : K := (xs.length : K) with hn
  have hnpos : 0 < n := by linarith
  have hmpos : 0 < n - 1 := by linarith
  set Tn := T (xs.map RF2.val) with hTn
  have hT0 : 0 ≤ Tn := T_nonneg _
  have hu1920 : r.u ≤ 1/1920 := by
    have := mul_le_mul_of_nonneg_right (by linarith : (30:K) ≤ n + 28) hu
    linarith
  have hu2 : r.u^2 ≤ r.u * (1/1920) := by rw [sq]; exact mul_le_mul_of_nonneg_left hu1920 hu
  have hnu2 : 2 * r.u ≤ n * r.u := mul_le_mul_of_nonneg_right hn2 hu
  have hTle : Tn ≤ n * σ^2 := by rwa [div_le_iff₀ hnpos, mul_comm] at hvar
  have hd := VarErr.var_fold_error_sharp_num r M hM xs hb hsmall (n * σ) (by positivity)
    (by rw [mul_pow]; nlinarith)
  set S := (xs.foldl Variance.add Variance.new).sum_2.val with hS
  set D := |S - Tn| with hD
  have hD0 : 0 ≤ D := abs_nonneg _
  have h1 := VarErr.div_round_error r S Tn (n - 1) hmpos hT0
  have h2' := VarErr.div_round_error r (r.fl (S / (n - 1))) (Tn / (n - 1)) n hnpos
    (div_nonneg hT0 hmpos.le)
  refine le_trans h2' ?_
  rw [div_le_iff₀ hnpos]
  have h3 : (1 + r.u) * |r.fl (S / (n - 1)) - Tn / (n - 1)| + r.u * (Tn / (n - 1))
      ≤ ((1 + r.u)^2 * D + (2 * r.u + r.u^2) * Tn) / (n - 1) := by
    calc _ ≤ (1 + r.u) * (((1 + r.u) * D + r.u * Tn) / (n - 1)) + r.u * (Tn / (n - 1)) := by gcongr
      _ = _ := by field_simp; ring
  refine le_trans h3 ?_
  rw [div_le_iff₀ hmpos]
  have e1 : (13/2 * n * r.u * (Tn / (n - 1) / n)
        + (99/25 * n * r.u * M * σ + 94/25 * n^2 * r.u^2 * M^2) / (n - 1)) * n * (n - 1)
      = 13/2 * n * r.u * Tn + 99/25 * n^2 * r.u * M * σ + 94/25 * n^3 * r.u^2 * M^2 := by
    field_simp
    ring
  rw [e1]
  have hc : (1 + r.u)^2 ≤ 901/900 := by
    have : (1 + r.u)^2 = 1 + 2 * r.u + r.u^2 := by ring
    rw [this]; linarith
  have hd' : D ≤ 109/20 * n * r.u * Tn + 79/20 * n * r.u * M * (n * σ) + 15/4 * n^3 * r.u^2 * M^2 := hd
  have hB0 : 0 ≤ 109/20 * n * r.u * Tn + 79/20 * n * r.u * M * (n * σ) + 15/4 * n^3 * r.u^2 * M^2 := by
    positivity
  have hD' : (1 + r.u)^2 * D ≤ 901/900 * (109/20 * n * r.u * Tn + 79/20 * n * r.u * M * (n * σ)
        + 15/4 * n^3 * r.u^2 * M^2) := mul_le_mul hc hd' hD0 (by norm_num)
  have a2 : 0 ≤ n^2 * r.u * M * σ := by positivity
  have a3 : 0 ≤ n^3 * r.u^2 * M^2 := by positivity
  have a4 : 0 ≤ n * r.u * Tn := by positivity
  have t1 : (2 * r.u + r.u^2) * Tn ≤ 1001/1000 * (n * r.u * Tn) := by
    have : 2 * r.u + r.u^2 ≤ 1001/1000 * (n * r.u) := by linarith
    calc _ ≤ (1001/1000 * (n * r.u)) * Tn := mul_le_mul_of_nonneg_right this hT0
      _ = _ := by ring
  have e2 : 79/20 * n * r.u * M * (n * σ) = 79/20 * (n^2 * r.u * M * σ) := by ring
  rw [e2] at hD'
  linarith

end general

/-! ## square roots -/

/-- `|√a - √b| ≤ |a - b|/√b` for `a ≥ 0`, `b > 0` -/
theorem abs_sqrt_sub_sqrt_le (a b : ℝ) (ha : 0 ≤ a) (hb : 0 < b) :
    |Real.sqrt a - Real.sqrt b| ≤ |a - b| / Real.sqrt b := by
  have hsb : 0 < Real.sqrt b := Real.sqrt_pos.mpr hb
  have hsa : 0 ≤ Real.sqrt a := Real.sqrt_nonneg a
  rw [le_div_iff₀ hsb]
  have e : a - b = (Real.sqrt a - Real.sqrt b) * (Real.sqrt a + Real.sqrt b) := by
    have h1 := Real.mul_self_sqrt ha
    have h2 := Real.mul_self_sqrt hb.le
    nlinarith
  rw [e, abs_mul, abs_of_pos (by linarith : 0 < Real.sqrt a + Real.sqrt b)]
  exact mul_le_mul_of_nonneg_left (by linarith) (abs_nonneg _)

/-- the rounded square root of a perturbed argument, absolute form: `a ≥ 0`, `b > 0`, `|a - b| ≤ B`:
`|sqrtfl a - √b| ≤ (1+u)·B/√b + u·√b` -/
theorem sqrtfl_error_abs {r : Rnd2 ℝ} (q : RndSqrt r) (a b B : ℝ) (ha : 0 ≤ a) (hb : 0 < b)
    (hB : |a - b| ≤ B) :
    |q.sqrtfl a - Real.sqrt b| ≤ (1 + r.u) * (B / Real.sqrt b) + r.u * Real.sqrt b := by
  have hu := r.u_nonneg
  have hsb : 0 < Real.sqrt b := Real.sqrt_pos.mpr hb
  have h1 : |Real.sqrt a - Real.sqrt b| ≤ B / Real.sqrt b :=
    le_trans (abs_sqrt_sub_sqrt_le a b ha hb) (by gcongr)
  have h2 : Real.sqrt a ≤ Real.sqrt b + B / Real.sqrt b := by
    have := (abs_le.mp h1).2; linarith
  have h3 := q.err a ha
  have : q.sqrtfl a - Real.sqrt b = (q.sqrtfl a - Real.sqrt a) + (Real.sqrt a - Real.sqrt b) := by ring
  rw [this]
  calc _ ≤ |q.sqrtfl a - Real.sqrt a| + |Real.sqrt a - Real.sqrt b| := abs_add_le _ _
    _ ≤ r.u * (Real.sqrt b + B / Real.sqrt b) + B / Real.sqrt b :=
        add_le_add (le_trans h3 (by gcongr)) h1
    _ = _ := by ring

/-- relative form: `|a - b| ≤ η·b` gives `|sqrtfl a - √b| ≤ ((1+u)·η + u)·√b` -/
theorem sqrtfl_error_rel {r : Rnd2 ℝ} (q : RndSqrt r) (a b η : ℝ) (ha : 0 ≤ a) (hb : 0 < b)
    (hη : |a - b| ≤ η * b) :
    |q.sqrtfl a - Real.sqrt b| ≤ ((1 + r.u) * η + r.u) * Real.sqrt b := by
  have hsb : 0 < Real.sqrt b := Real.sqrt_pos.mpr hb
  refine le_trans (sqrtfl_error_abs q a b (η * b) ha hb hη) (le_of_eq ?_)
  have : η * b / Real.sqrt b = η * Real.sqrt b := by
    rw [mul_div_assoc]; congr 1
    rw [div_eq_iff hsb.ne']; exact (Real.mul_self_sqrt hb.le).symm
  rw [this]; ring

/-- the `FloatOps` instance takes square roots with `q.sqrtfl` (on the values) -/
def SqrtIs {r : Rnd2 ℝ} (q : RndSqrt r) [FloatOps (RF2 r)] : Prop :=
  ∀ a : RF2 r, (FloatOps.sqrt a).val = q.sqrtfl a.val

theorem rf2SqrtFloatOps_sqrtIs (r : Rnd2 ℝ) (q : RndSqrt r) : @SqrtIs r q (rf2SqrtFloatOps r q) :=
  fun _ => rfl

/-- what `Variance.error` computes when the instance takes square roots with `q.sqrtfl` -/
theorem variance_error_val {r : Rnd2 ℝ} (q : RndSqrt r) [FloatOps (RF2 r)] (hs : SqrtIs q)
    (s : Variance (RF2 r)) : s.error.val = q.sqrtfl s.varianceOfMean.val := hs _
