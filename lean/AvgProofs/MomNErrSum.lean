import AvgProofs.MomNErrFold
import AvgProofs.SkewErrSum

/-!
# Bounding the accumulated error terms of `m[1]`

`stepTermM_le`, `errSumM_le`: as `SkewErr.stepTerm_le`, `SkewErr.errSum_le`, with the coefficient `cM` in place
of `cA` (only `0 ≤ c_i ≤ i/(i+1)` is used) and the rounding counts 18 / 6 in place of 12 / 5.
-/
open Avg MSpec Finset VarSpec SkewSpec SkewErr

namespace MomNErr
variable {K : Type} [Field K] [LinearOrder K] [IsStrictOrderedRing K]

theorem stepTermM_le (u : K) (hu : 0 ≤ u) (E F : ℕ → K) (i : ℕ) (d Ti Tn n Eb η a1 a2 a3 : K)
    (hTi : 0 ≤ Ti) (hTn : Ti ≤ Tn) (hin : (i : K) + 1 ≤ n)
    (hE0 : 0 ≤ E i) (hEb : E i ≤ Eb) (hEη : E i ≤ η * ((i : K) + 1))
    (hF0 : 0 ≤ F i) (hF : F i ≤ a1 * i * Ti + a2 * i + a3 * (i : K)^3)
    (ha1 : 0 ≤ a1) (ha2 : 0 ≤ a2) (ha3 : 0 ≤ a3) (hη : 0 ≤ η) :
    stepTermM u E F i d Ti ≤
      g u 18 * incAM i d + (g u 6 + (1 + g u 6) * (a1 * n)) * incB i d Ti
      + (1 + g u 18) * (3 * Eb) * (d^2 * ((i : K) / ((i : K) + 1)))
      + ((1 + g u 18) * (3 * Eb^2) + (1 + g u 6) * (3 * (a2 + a3 * n^2)))
          * (|d| * ((i : K) / ((i : K) + 1)))
      + ((1 + g u 18) * Eb^3 + (1 + g u 6) * (3 * η * Tn))
      + (1 + g u 6) * (3 * η * (a1 * Tn + a2 + a3 * n^2)) * i := by
  have hi0 : (0 : K) ≤ i := Nat.cast_nonneg i
  have hp : (0 : K) < (i : K) + 1 := by linarith
  have hn0 : 0 ≤ n := by linarith
  have hiN : (i : K) ≤ n := by linarith
  have hTn0 : 0 ≤ Tn := le_trans hTi hTn
  have hEb0 : 0 ≤ Eb := le_trans hE0 hEb
  have h18 := g_nonneg hu 18
  have h6 := g_nonneg hu 6
  have hd0 : 0 ≤ |d| := abs_nonneg d
  set ρ : K := (i : K) / ((i : K) + 1) with hρ
  have hρ0 : 0 ≤ ρ := ratio_nonneg i
  have hc0 := cM_nonneg (K := K) i
  have hcρ : cM i ≤ ρ := cM_le_ratio i
  have hc1 : (cM i : K) ≤ 1 := cM_le_one i
  -- the quotient E_i/(i+1)
  have hq : E i / ((i : K) + 1) ≤ η := by rw [div_le_iff₀ hp]; exact hEη
  have hq0 : 0 ≤ E i / ((i : K) + 1) := by positivity
  -- p1
  have p1 : cM i * (3 * d^2 * E i + 3 * |d| * (E i)^2 + (E i)^3)
      ≤ 3 * Eb * (d^2 * ρ) + 3 * Eb^2 * (|d| * ρ) + Eb^3 := by
    have a : cM i * (3 * d^2 * E i) ≤ ρ * (3 * d^2 * Eb) := by gcongr
    have b : cM i * (3 * |d| * (E i)^2) ≤ ρ * (3 * |d| * Eb^2) := by gcongr
    have c : cM i * (E i)^3 ≤ 1 * Eb^3 := by gcongr
    calc cM i * (3 * d^2 * E i + 3 * |d| * (E i)^2 + (E i)^3)
        = cM i * (3 * d^2 * E i) + cM i * (3 * |d| * (E i)^2) + cM i * (E i)^3 := by ring
      _ ≤ ρ * (3 * d^2 * Eb) + ρ * (3 * |d| * Eb^2) + 1 * Eb^3 := by linarith
      _ = 3 * Eb * (d^2 * ρ) + 3 * Eb^2 * (|d| * ρ) + Eb^3 := by ring
  -- p2
  have hFi : F i ≤ (i : K) * (a1 * Ti + a2 + a3 * (i : K)^2) := by
    calc F i ≤ a1 * i * Ti + a2 * i + a3 * (i : K)^3 := hF
      _ = (i : K) * (a1 * Ti + a2 + a3 * (i : K)^2) := by ring
  have hi2 : (i : K)^2 ≤ n^2 := by gcongr
  have p2 : 3 / ((i : K) + 1) * (|d| * F i)
      ≤ (a1 * n) * incB i d Ti + 3 * (a2 + a3 * n^2) * (|d| * ρ) := by
    have e : 3 / ((i : K) + 1) * (|d| * ((i : K) * (a1 * Ti + a2 + a3 * (i : K)^2)))
        = (a1 * i) * incB i d Ti + 3 * (a2 + a3 * (i : K)^2) * (|d| * ρ) := by
      unfold incB; rw [hρ]; ring
    have hB0 := incB_nonneg i d Ti hTi
    calc 3 / ((i : K) + 1) * (|d| * F i)
        ≤ 3 / ((i : K) + 1) * (|d| * ((i : K) * (a1 * Ti + a2 + a3 * (i : K)^2))) := by gcongr
      _ = (a1 * i) * incB i d Ti + 3 * (a2 + a3 * (i : K)^2) * (|d| * ρ) := e
      _ ≤ (a1 * n) * incB i d Ti + 3 * (a2 + a3 * n^2) * (|d| * ρ) := by gcongr
  -- p3
  have p3 : 3 / ((i : K) + 1) * (E i * Ti) ≤ 3 * η * Tn := by
    calc 3 / ((i : K) + 1) * (E i * Ti) = 3 * (E i / ((i : K) + 1)) * Ti := by ring
      _ ≤ 3 * η * Tn := by gcongr
  -- p4
  have p4 : 3 / ((i : K) + 1) * (E i * F i) ≤ 3 * η * (a1 * Tn + a2 + a3 * n^2) * i := by
    have hb : a1 * Ti + a2 + a3 * (i : K)^2 ≤ a1 * Tn + a2 + a3 * n^2 := by gcongr
    have hb0 : 0 ≤ a1 * Ti + a2 + a3 * (i : K)^2 := by positivity
    calc 3 / ((i : K) + 1) * (E i * F i) = 3 * (E i / ((i : K) + 1)) * F i := by ring
      _ ≤ 3 * η * ((i : K) * (a1 * Ti + a2 + a3 * (i : K)^2)) := by gcongr
      _ ≤ 3 * η * ((i : K) * (a1 * Tn + a2 + a3 * n^2)) := by gcongr
      _ = 3 * η * (a1 * Tn + a2 + a3 * n^2) * i := by ring
  unfold stepTermM
  have q1 := mul_le_mul_of_nonneg_left p1 (by linarith : 0 ≤ 1 + g u 18)
  have q2 := mul_le_mul_of_nonneg_left p2 (by linarith : 0 ≤ 1 + g u 6)
  have q3 := mul_le_mul_of_nonneg_left p3 (by linarith : 0 ≤ 1 + g u 6)
  have q4 := mul_le_mul_of_nonneg_left p4 (by linarith : 0 ≤ 1 + g u 6)
  have e : (1 + g u 6) * (3 / ((i : K) + 1) * (|d| * F i + E i * Ti + E i * F i))
      = (1 + g u 6) * (3 / ((i : K) + 1) * (|d| * F i))
        + (1 + g u 6) * (3 / ((i : K) + 1) * (E i * Ti))
        + (1 + g u 6) * (3 / ((i : K) + 1) * (E i * F i)) := by ring
  rw [e]
  linarith

/-- **The accumulated bound.** -/
theorem errSumM_le (u : K) (hu : 0 ≤ u) (E F : ℕ → K) (vs : List K) (Eb η a1 a2 a3 R₀ : K)
    (hE0 : ∀ i, 0 ≤ E i) (hEb : ∀ i, i < vs.length → E i ≤ Eb)
    (hEη : ∀ i, i < vs.length → E i ≤ η * ((i : K) + 1))
    (hF0 : ∀ i, 0 ≤ F i)
    (hF : ∀ i, i < vs.length → F i ≤ a1 * i * T (vs.take i) + a2 * i + a3 * (i : K)^3)
    (ha1 : 0 ≤ a1) (ha2 : 0 ≤ a2) (ha3 : 0 ≤ a3) (hη : 0 ≤ η)
    (hR : 0 ≤ R₀) (hRT : (vs.length : K) * T vs ≤ R₀^2) :
    errSumM u E F vs ≤
      g u 18 * VAM vs + (g u 6 + (1 + g u 6) * (a1 * vs.length)) * VB vs
      + (1 + g u 18) * (3 * Eb) * T vs
      + ((1 + g u 18) * (3 * Eb^2) + (1 + g u 6) * (3 * (a2 + a3 * (vs.length : K)^2))) * R₀
      + ((1 + g u 18) * Eb^3 + (1 + g u 6) * (3 * η * T vs)) * vs.length
      + (1 + g u 6) * (3 * η * (a1 * T vs + a2 + a3 * (vs.length : K)^2))
          * ((vs.length : K)^2 / 2) := by
  have h18 := g_nonneg hu 18
  have h6 := g_nonneg hu 6
  have hT0 := T_nonneg vs
  have hn0 : (0 : K) ≤ vs.length := Nat.cast_nonneg _
  have hterm : ∀ i ∈ range vs.length, stepTermM u E F i (dev vs i) (T (vs.take i)) ≤
      g u 18 * incAM i (dev vs i)
      + (g u 6 + (1 + g u 6) * (a1 * vs.length)) * incB i (dev vs i) (T (vs.take i))
      + (1 + g u 18) * (3 * Eb) * ((dev vs i)^2 * ((i : K) / ((i : K) + 1)))
      + ((1 + g u 18) * (3 * Eb^2) + (1 + g u 6) * (3 * (a2 + a3 * (vs.length : K)^2)))
          * (|dev vs i| * ((i : K) / ((i : K) + 1)))
      + ((1 + g u 18) * Eb^3 + (1 + g u 6) * (3 * η * T vs))
      + (1 + g u 6) * (3 * η * (a1 * T vs + a2 + a3 * (vs.length : K)^2)) * i := by
    intro i hi
    have hi' := mem_range.mp hi
    have hin : (i : K) + 1 ≤ vs.length := by exact_mod_cast hi'
    exact stepTermM_le u hu E F i (dev vs i) (T (vs.take i)) (T vs) vs.length Eb η a1 a2 a3
      (T_nonneg _) (T_take_le vs i) hin (hE0 i) (hEb i hi') (hEη i hi') (hF0 i) (hF i hi')
      ha1 ha2 ha3 hη
  refine le_trans (sum_le_sum hterm) ?_
  simp only [sum_add_distrib, ← mul_sum, sum_const, card_range, nsmul_eq_mul]
  have hW := W_le vs R₀ hR hRT
  have hS := sum_id_le (K := K) vs.length
  have eVAM : ∑ i ∈ range vs.length, incAM i (dev vs i) = VAM vs := rfl
  have eVB : ∑ i ∈ range vs.length, incB i (dev vs i) (T (vs.take i)) = VB vs := rfl
  have eT : ∑ i ∈ range vs.length, (dev vs i)^2 * ((i : K) / ((i : K) + 1)) = T vs :=
    (T_eq_sum vs).symm
  have eW : ∑ i ∈ range vs.length, |dev vs i| * ((i : K) / ((i : K) + 1)) = W vs := rfl
  rw [eVAM, eVB, eT, eW]
  have c4 : 0 ≤ (1 + g u 18) * (3 * Eb^2) + (1 + g u 6) * (3 * (a2 + a3 * (vs.length : K)^2)) := by
    positivity
  have c6 : 0 ≤ (1 + g u 6) * (3 * η * (a1 * T vs + a2 + a3 * (vs.length : K)^2)) := by positivity
  have m4 := mul_le_mul_of_nonneg_left hW c4
  have m6 := mul_le_mul_of_nonneg_left hS c6
  have ecomm : (1 + g u 18) * ((vs.length : K) * Eb^3)
        + (1 + g u 6) * (3 * η * ((vs.length : K) * T vs))
      = ((1 + g u 18) * Eb^3 + (1 + g u 6) * (3 * η * T vs)) * vs.length := by ring
  linarith

end MomNErr

#print axioms MomNErr.errSumM_le
