import AvgModel.Moments4
import Mathlib.Algebra.Order.Field.Basic
import Mathlib.Algebra.Order.AbsoluteValue.Basic
import Mathlib.Tactic.Positivity
import Mathlib.Tactic.Linarith
import Mathlib.Tactic.Ring
import Mathlib.Tactic.FieldSimp
import Mathlib.Tactic.GCongr
import Mathlib.Data.Nat.Cast.Order.Field

/-! One step of Welford's mean under the standard model of rounding:
    a' = fl(a + fl(fl(x - a)/k)),  |fl t - t| ≤ u|t|. -/
variable {K : Type} [Field K] [LinearOrder K] [IsStrictOrderedRing K]

theorem welford_step_error
    (fl : K → K) (u : K) (hu0 : 0 ≤ u) (hfl : ∀ t, |fl t - t| ≤ u * |t|)
    (M : K) (hM : 0 ≤ M) (a μ x : K) (k : K) (hk : 1 ≤ k)
    (hx : |x| ≤ M) (hμ : |μ| ≤ M) :
    let w := (2*u + u^2) * (1 + u)
    let e := a - μ
    let a' := fl (a + fl (fl (x - a) / k))
    let μ' := μ + (x - μ) / k
    |a' - μ'| ≤ |e| * (1 - 1/k) + w * (2*M + |e|) / k + u * (M + |e|) := by
  intro w e a' μ'
  have hkpos : 0 < k := lt_of_lt_of_le one_pos hk
  have hk1 : 0 ≤ 1 - 1/k := by
    rw [sub_nonneg, div_le_one hkpos]; exact hk
  -- the three rounding errors
  set y1 := fl (x - a) with hy1
  set y2 := fl (y1 / k) with hy2
  have h1 := hfl (x - a)
  have h2 := hfl (y1 / k)
  have h3 := hfl (a + y2)
  -- bounds on magnitudes
  have hxa : |x - a| ≤ 2*M + |e| := by
    have : x - a = x - μ - e := by simp [e]
    rw [this]
    calc |x - μ - e| ≤ |x - μ| + |e| := abs_sub _ _
      _ ≤ (|x| + |μ|) + |e| := by gcongr; exact abs_sub _ _
      _ ≤ 2*M + |e| := by linarith
  have ha : |a| ≤ M + |e| := by
    have : a = μ + e := by simp [e]
    rw [this]
    calc |μ + e| ≤ |μ| + |e| := abs_add_le _ _
      _ ≤ M + |e| := by linarith
  have he0 : 0 ≤ |e| := abs_nonneg _
  -- ε1, ε2, ε3
  set ε1 := y1 - (x - a) with hε1
  set ε2 := y2 - y1 / k with hε2
  set ε3 := fl (a + y2) - (a + y2) with hε3
  have b1 : |ε1| ≤ u * (2*M + |e|) := le_trans h1 (by gcongr)
  have hy1b : |y1| ≤ (1 + u) * (2*M + |e|) := by
    have : y1 = (x - a) + ε1 := by simp [ε1]
    rw [this]
    calc |x - a + ε1| ≤ |x - a| + |ε1| := abs_add_le _ _
      _ ≤ (2*M + |e|) + u * (2*M + |e|) := by linarith
      _ = (1 + u) * (2*M + |e|) := by ring
  have b2 : |ε2| ≤ u * ((1 + u) * (2*M + |e|)) / k := by
    refine le_trans h2 ?_
    rw [abs_div, abs_of_pos hkpos, mul_div_assoc]
    gcongr
  -- a + (x-a)/k is a convex combination
  have hconv : |a + (x - a)/k| ≤ M + |e| := by
    have : a + (x - a)/k = a * (1 - 1/k) + x * (1/k) := by field_simp; ring
    rw [this]
    have hk2 : 0 ≤ 1/k := by positivity
    calc |a * (1 - 1/k) + x * (1/k)| ≤ |a * (1 - 1/k)| + |x * (1/k)| := abs_add_le _ _
      _ = |a| * (1 - 1/k) + |x| * (1/k) := by rw [abs_mul, abs_mul, abs_of_nonneg hk1, abs_of_nonneg hk2]
      _ ≤ (M + |e|) * (1 - 1/k) + (M + |e|) * (1/k) := by
          gcongr; linarith
      _ = M + |e| := by ring
  have hay2 : a + y2 = (a + (x - a)/k) + (ε1 / k + ε2) := by
    simp only [ε1, ε2]; ring
  have b12 : |ε1 / k + ε2| ≤ (2*u + u^2) * (2*M + |e|) / k := by
    calc |ε1 / k + ε2| ≤ |ε1 / k| + |ε2| := abs_add_le _ _
      _ = |ε1| / k + |ε2| := by rw [abs_div, abs_of_pos hkpos]
      _ ≤ u * (2*M + |e|) / k + u * ((1 + u) * (2*M + |e|)) / k := by gcongr
      _ = (2*u + u^2) * (2*M + |e|) / k := by ring
  have b3 : |ε3| ≤ u * ((M + |e|) + (2*u + u^2) * (2*M + |e|) / k) := by
    refine le_trans h3 ?_
    gcongr
    rw [hay2]
    calc _ ≤ |a + (x - a)/k| + |ε1 / k + ε2| := abs_add_le _ _
      _ ≤ _ := by linarith
  -- assemble
  have key : a' - μ' = e * (1 - 1/k) + (ε1 / k + ε2) + ε3 := by
    have h_a' : a' = (a + y2) + ε3 := by simp only [ε3]; ring
    rw [h_a', hay2]
    simp only [μ', e]
    field_simp
    ring
  rw [key]
  calc |e * (1 - 1/k) + (ε1 / k + ε2) + ε3|
      ≤ |e * (1 - 1/k)| + |ε1 / k + ε2| + |ε3| := by
        refine le_trans (abs_add_le _ _) ?_
        gcongr
        exact abs_add_le _ _
    _ = |e| * (1 - 1/k) + |ε1 / k + ε2| + |ε3| := by rw [abs_mul, abs_of_nonneg hk1]
    _ ≤ |e| * (1 - 1/k) + (2*u + u^2) * (2*M + |e|) / k
          + u * ((M + |e|) + (2*u + u^2) * (2*M + |e|) / k) := by linarith
    _ = |e| * (1 - 1/k) + w * (2*M + |e|) / k + u * (M + |e|) := by
        simp only [w]; ring

#print axioms welford_step_error
