import AvgModel.Moments4
import AvgModel.Weighted
import AvgModel.MomentsN
import AvgProofs.Project

/-!
# States reachable by any history of `add`s and `merge`s

`ReachBy nw ad mg P s`: the state `s` is obtained from the empty estimator `nw` by finitely many
`ad`ds of observations satisfying `P` and `mg` (merges) of states obtained in the same way - in any
order and any nesting (adds after merges, merges of merges, merges with empty states, ...).
Every fold over a list and every binary merge tree over chunks is such a history.
Import-free of Mathlib, any carrier.
-/
namespace Avg

inductive ReachBy {σ β : Type} (nw : σ) (ad : σ → β → σ) (mg : σ → σ → σ) (P : β → Prop) : σ → Prop
  | new : ReachBy nw ad mg P nw
  | add (s : σ) (x : β) : ReachBy nw ad mg P s → P x → ReachBy nw ad mg P (ad s x)
  | merge (s o : σ) : ReachBy nw ad mg P s → ReachBy nw ad mg P o → ReachBy nw ad mg P (mg s o)

namespace ReachBy
variable {σ τ β γ : Type} {nw : σ} {ad : σ → β → σ} {mg : σ → σ → σ} {P : β → Prop}

/-- a property that holds initially and is preserved by `add` and `merge` holds of every reachable state -/
theorem inv {I : σ → Prop} (h0 : I nw) (ha : ∀ s x, I s → P x → I (ad s x))
    (hm : ∀ s o, I s → I o → I (mg s o)) {s : σ} (h : ReachBy nw ad mg P s) : I s := by
  induction h with
  | new => exact h0
  | add s x _ hx ih => exact ha s x ih hx
  | merge s o _ _ ihs iho => exact hm s o ihs iho

/-- a projection that commutes with `new`, `add`, `merge` maps reachable states to reachable states -/
theorem map {nw' : τ} {ad' : τ → γ → τ} {mg' : τ → τ → τ} {P' : γ → Prop} (f : σ → τ) (g : β → γ)
    (h0 : f nw = nw') (ha : ∀ s x, f (ad s x) = ad' (f s) (g x))
    (hm : ∀ s o, f (mg s o) = mg' (f s) (f o)) (hP : ∀ x, P x → P' (g x))
    {s : σ} (h : ReachBy nw ad mg P s) : ReachBy nw' ad' mg' P' (f s) := by
  induction h with
  | new => rw [h0]; exact ReachBy.new
  | add s x _ hx ih => rw [ha]; exact ReachBy.add _ _ ih (hP x hx)
  | merge s o _ _ ihs iho => rw [hm]; exact ReachBy.merge _ _ ihs iho

/-- adding a whole list, one observation at a time, to a reachable state -/
theorem foldl {s : σ} (h : ReachBy nw ad mg P s) (xs : List β) (hxs : ∀ x ∈ xs, P x) :
    ReachBy nw ad mg P (xs.foldl ad s) := by
  induction xs generalizing s with
  | nil => exact h
  | cons x xs ih =>
    exact ih (ReachBy.add _ _ h (hxs x (List.mem_cons_self ..)))
      (fun y hy => hxs y (List.mem_cons_of_mem _ hy))
end ReachBy

/-! ## The estimators. `P` restricts the observations (use `fun _ => True` for "no restriction"). -/

section
variable {α : Type} [Add α] [Sub α] [Mul α] [Div α] [NatCast α]

abbrev Mean.Reach (P : α → Prop) : Mean α → Prop := ReachBy Mean.new Mean.add Mean.merge P
abbrev Variance.Reach (P : α → Prop) : Variance α → Prop := ReachBy Variance.new Variance.add Variance.merge P
abbrev Skewness.Reach (P : α → Prop) : Skewness α → Prop := ReachBy Skewness.new Skewness.add Skewness.merge P
abbrev Kurtosis.Reach (P : α → Prop) : Kurtosis α → Prop := ReachBy Kurtosis.new Kurtosis.add Kurtosis.merge P
/-- observations are pairs `(x, y)` -/
abbrev Covariance.Reach (P : α × α → Prop) : Covariance α → Prop :=
  ReachBy Covariance.new (fun s p => s.add p.1 p.2) Covariance.merge P
abbrev Moments.Reach [Neg α] (N : Nat) (P : α → Prop) : Moments α → Prop :=
  ReachBy (Moments.new N) (Moments.add N) (Moments.merge N) P

theorem Kurtosis.Reach.avg {P : α → Prop} {s : Kurtosis α} (h : Kurtosis.Reach P s) : Skewness.Reach P s.avg :=
  ReachBy.map (fun s => s.avg) id rfl Kurtosis.add_avg Kurtosis.merge_avg (fun _ h => h) h
theorem Skewness.Reach.avg {P : α → Prop} {s : Skewness α} (h : Skewness.Reach P s) : Variance.Reach P s.avg :=
  ReachBy.map (fun s => s.avg) id rfl Skewness.add_avg Skewness.merge_avg (fun _ h => h) h
theorem Variance.Reach.avg {P : α → Prop} {s : Variance α} (h : Variance.Reach P s) : Mean.Reach P s.avg :=
  ReachBy.map (fun s => s.avg) id rfl Variance.add_avg Variance.merge_avg (fun _ h => h) h

/-- the `x` half of a `Covariance` state is a `Mean` state, updated and merged exactly as `Mean` is -/
def Covariance.meanXState (s : Covariance α) : Mean α := ⟨s.avg_x, s.n⟩
/-- the `y` half likewise -/
def Covariance.meanYState (s : Covariance α) : Mean α := ⟨s.avg_y, s.n⟩

theorem Covariance.merge_meanXState (s o : Covariance α) :
    (s.merge o).meanXState = s.meanXState.merge o.meanXState := by
  unfold Covariance.merge Mean.merge Covariance.meanXState
  by_cases h1 : o.n = 0
  · simp only [h1, if_true]
  · by_cases h2 : s.n = 0
    · simp only [h1, h2, if_true, if_false]
    · simp only [h1, h2, if_false]
theorem Covariance.merge_meanYState (s o : Covariance α) :
    (s.merge o).meanYState = s.meanYState.merge o.meanYState := by
  unfold Covariance.merge Mean.merge Covariance.meanYState
  by_cases h1 : o.n = 0
  · simp only [h1, if_true]
  · by_cases h2 : s.n = 0
    · simp only [h1, h2, if_true, if_false]
    · simp only [h1, h2, if_false]

theorem Covariance.Reach.meanX {P : α × α → Prop} {Q : α → Prop} (hPQ : ∀ p, P p → Q p.1)
    {s : Covariance α} (h : Covariance.Reach P s) : Mean.Reach Q s.meanXState :=
  ReachBy.map Covariance.meanXState (fun p => p.1) rfl (fun _ _ => rfl) Covariance.merge_meanXState hPQ h
theorem Covariance.Reach.meanY {P : α × α → Prop} {Q : α → Prop} (hPQ : ∀ p, P p → Q p.2)
    {s : Covariance α} (h : Covariance.Reach P s) : Mean.Reach Q s.meanYState :=
  ReachBy.map Covariance.meanYState (fun p => p.2) rfl (fun _ _ => rfl) Covariance.merge_meanYState hPQ h
end

section
variable {α : Type} [Add α] [Sub α] [Mul α] [Div α] [NatCast α] [FloatOps α]

/-- observations are pairs `(sample, weight)` -/
abbrev WeightedMean.Reach (P : α × α → Prop) : WeightedMean α → Prop :=
  ReachBy WeightedMean.new (fun s p => s.add p.1 p.2) WeightedMean.merge P
abbrev WeightedMeanWithError.Reach (P : α × α → Prop) : WeightedMeanWithError α → Prop :=
  ReachBy WeightedMeanWithError.new (fun s p => s.add p.1 p.2) WeightedMeanWithError.merge P

theorem WeightedMeanWithError.Reach.unweighted {P : α × α → Prop} {Q : α → Prop} (hPQ : ∀ p, P p → Q p.1)
    {s : WeightedMeanWithError α} (h : WeightedMeanWithError.Reach P s) : Variance.Reach Q s.unweighted_avg :=
  ReachBy.map (fun s => s.unweighted_avg) (fun p => p.1) rfl (fun _ _ => rfl) (fun _ _ => rfl) hPQ h
theorem WeightedMeanWithError.Reach.weighted {P : α × α → Prop}
    {s : WeightedMeanWithError α} (h : WeightedMeanWithError.Reach P s) : WeightedMean.Reach P s.weighted_avg :=
  ReachBy.map (fun s => s.weighted_avg) id rfl (fun _ _ => rfl) (fun _ _ => rfl) (fun _ h => h) h
end

end Avg
