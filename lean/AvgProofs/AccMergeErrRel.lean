import AvgProofs.VarMergeErrLin
import AvgProofs.SkewMergeErrLin
import AvgProofs.SkewMergeErrV3
import AvgProofs.KurtMergeErrLin
import AvgProofs.KurtMergeErrV4
import AvgProofs.MergeEmpty

/-!
# The stored sums after EVERY merge tree, in the form the accessors `skewness()` / `kurtosis()` need

Carrier `RF2 r` over an ordered field `K`; `σ > 0` the population standard deviation (`n·σ² = T`); `n·u·M ≤ σ`.

* `Mean.mtree_n` (any carrier): the count after any merge tree is exact, hence also the counts inside
  `Variance`, `Skewness`, `Kurtosis` (`Skewness.mtree_n`, `Kurtosis.mtree_n`).
* `sum2_mtree_rel`: `|sum_2 - T| ≤ n·u·(10 + 62·(M/σ))·T` - the *relative* error of `sum_2` after any merge tree
  (from `VarMerge.var_mtree_error_lin` with `R₀ = n·σ`).
* `sum3_mtree_abs`: `|sum_3 - U| ≤ n·u·(16·V3T + 2526·(M/σ)·(n·σ³))` - the *absolute* error of `sum_3`
  (`SkewMerge.skew_mtree_envelope` rewritten; `U` can vanish, `V3T` and `n·σ³` do not).
* `sum4_mtree_abs`: `|sum_4 - Q| ≤ n·u·(32·V4T + 154·(M/σ)·(σ·V3S) + 108276·(M/σ)·(n·σ⁴))`
  (`KurtMerge.kurt_mtree_envelope` rewritten).
* `sum4_mtree_rel`: `|sum_4 - Q| ≤ n·u·(32·(257840 + 3555h + 55h²) + (157556 + 1540h)·(M/σ))·Q`, `h` the height.
* `ne_nil_of_T_pos`, `cond_of_eps`: side conditions implied by the smallness hypotheses.
-/
open Avg MSpec Finset VarSpec SkewSpec KurtSpec SkewErr SkewMerge KurtMerge

namespace Avg
variable {α : Type} [Add α] [Sub α] [Mul α] [Div α] [NatCast α]

/-- Any carrier: the count kept by `Mean` through any merge tree is the number of observations. -/
theorem Mean.mtree_n (t : MTree α) : (Mean.evalTree t).n = t.flatten.length := by
  induction t with
  | leaf xs =>
    show (xs.foldl Mean.add Mean.new).n = xs.length
    rw [Mean.fold_n_ve]; show 0 + xs.length = xs.length; omega
  | node l r ihl ihr =>
    show ((Mean.evalTree l).merge (Mean.evalTree r)).n = (l.flatten ++ r.flatten).length
    have := Mean.len_merge (Mean.evalTree l) (Mean.evalTree r)
    unfold Mean.len at this
    rw [this, ihl, ihr, List.length_append]

/-- Any carrier: the count inside `Skewness` after any merge tree. -/
theorem Skewness.mtree_n (t : MTree α) : (Skewness.evalTree t).avg.avg.n = t.flatten.length := by
  rw [Skewness.mtree_avg, Variance.mtree_avg]; exact Mean.mtree_n t

/-- Any carrier: the count inside `Kurtosis` after any merge tree. -/
theorem Kurtosis.mtree_n (t : MTree α) : (Kurtosis.evalTree t).avg.avg.avg.n = t.flatten.length := by
  rw [Kurtosis.mtree_avg]; exact Skewness.mtree_n t

end Avg

namespace AccMerge
variable {K : Type} [Field K] [LinearOrder K] [IsStrictOrderedRing K]

/-- a list with positive spread is not empty -/
theorem ne_nil_of_T_pos (vs : List K) (h : 0 < T vs) : vs ≠ [] := by
  intro h0; rw [h0, T_nil] at h; exact lt_irrefl _ h

/-- **`sum_2` after any merge tree, relative form.** `|x| ≤ M`, `n·u ≤ 1/64`, `σ > 0` with `n·σ² = T`,
`n·u·M ≤ σ`:  `|sum_2 - T| ≤ n·u·(10 + 62·(M/σ))·T`. -/
theorem sum2_mtree_rel (r : Rnd2 K) (M : K) (hM : 0 ≤ M) (t : MTree (RF2 r))
    (hb : ∀ x ∈ t.flatten, |x.val| ≤ M) (hnu : (t.flatten.length : K) * r.u ≤ 1/64)
    (σ : K) (hσ : 0 < σ) (hvar : (t.flatten.length : K) * σ^2 = T (t.flatten.map RF2.val))
    (hcond : (t.flatten.length : K) * r.u * M ≤ σ) :
    |(Variance.evalTree t).sum_2.val - T (t.flatten.map RF2.val)|
      ≤ (t.flatten.length : K) * r.u * (10 + 62 * (M / σ)) * T (t.flatten.map RF2.val) := by
  have hu := r.u_nonneg
  set n : K := (t.flatten.length : K) with hn
  have hn0 : 0 ≤ n := Nat.cast_nonneg _
  have hRT : n * T (t.flatten.map RF2.val) ≤ (n * σ)^2 := by
    rw [← hvar]; exact le_of_eq (by ring)
  have main := VarMerge.var_mtree_error_lin r M hM t hb hnu (n * σ) (by positivity) hRT
  refine le_trans main ?_
  rw [← hvar]
  have h2 : 17 * n * r.u * M * (n * σ) = n * r.u * (17 * (M / σ)) * (n * σ^2) := by
    field_simp
  have h3 : 45 * n^3 * r.u^2 * M^2 ≤ n * r.u * (45 * (M / σ)) * (n * σ^2) := by
    have hnuM0 : 0 ≤ n * r.u * M := by positivity
    calc 45 * n^3 * r.u^2 * M^2 = 45 * n^2 * r.u * M * (n * r.u * M) := by ring
      _ ≤ 45 * n^2 * r.u * M * σ := by gcongr
      _ = n * r.u * (45 * (M / σ)) * (n * σ^2) := by field_simp
  have e : n * r.u * (10 + 62 * (M / σ)) * (n * σ^2)
      = 10 * n * r.u * (n * σ^2) + n * r.u * (17 * (M / σ)) * (n * σ^2)
        + n * r.u * (45 * (M / σ)) * (n * σ^2) := by ring
  rw [e, h2]
  linarith

/-- **`sum_3` after any merge tree, absolute form.** `|x| ≤ M`, `(n+28)·u ≤ 1/64`, `σ > 0` with `n·σ² = T`,
`n·u·M ≤ σ`:  `|sum_3 - U| ≤ n·u·(16·V3T + 2526·(M/σ)·(n·σ³))`. -/
theorem sum3_mtree_abs (r : Rnd2 K) (M : K) (hM : 0 ≤ M) (t : MTree (RF2 r))
    (hb : ∀ x ∈ t.flatten, |x.val| ≤ M) (hsmall : ((t.flatten.length : K) + 28) * r.u ≤ 1/64)
    (σ : K) (hσ : 0 < σ) (hvar : (t.flatten.length : K) * σ^2 = T (t.flatten.map RF2.val))
    (hcond : (t.flatten.length : K) * r.u * M ≤ σ) :
    |(Skewness.evalTree t).sum_3.val - U (t.flatten.map RF2.val)|
      ≤ (t.flatten.length : K) * r.u
          * (16 * V3T (t.map RF2.val) + 2526 * (M / σ) * ((t.flatten.length : K) * σ^3)) := by
  refine le_trans (skew_mtree_envelope r M hM t hb hsmall σ hσ.le (le_of_eq hvar.symm) hcond)
    (le_of_eq ?_)
  field_simp

/-- **`sum_4` after any merge tree, absolute form in the scales of the tree.** Same hypotheses:
`|sum_4 - Q| ≤ n·u·(32·V4T + 154·(M/σ)·(σ·V3S) + 108276·(M/σ)·(n·σ⁴))`. -/
theorem sum4_mtree_abs (r : Rnd2 K) (M : K) (hM : 0 ≤ M) (t : MTree (RF2 r))
    (hb : ∀ x ∈ t.flatten, |x.val| ≤ M) (hsmall : ((t.flatten.length : K) + 28) * r.u ≤ 1/64)
    (σ : K) (hσ : 0 < σ) (hvar : (t.flatten.length : K) * σ^2 = T (t.flatten.map RF2.val))
    (hcond : (t.flatten.length : K) * r.u * M ≤ σ) :
    |(Kurtosis.evalTree t).sum_4.val - Q (t.flatten.map RF2.val)|
      ≤ (t.flatten.length : K) * r.u
          * (32 * V4T (t.map RF2.val) + 154 * (M / σ) * (σ * V3S (t.map RF2.val))
              + 108276 * (M / σ) * ((t.flatten.length : K) * σ^4)) := by
  refine le_trans (kurt_mtree_envelope r M hM t hb hsmall σ hσ.le (le_of_eq hvar.symm) hcond)
    (le_of_eq ?_)
  field_simp

/-- **`sum_4` after any merge tree, relative form** (the statement of `Props.C02f.sum4_mtree_relative_error`).
`n ≥ 1` observations with `|x| ≤ M`, `(n+28)·u ≤ 1/64`, `σ > 0` with `n·σ² = T`, `n·u·M ≤ σ`; height `h`:
`|sum_4 - Q| ≤ n·u·( 32·(257840 + 3555·h + 55·h²) + (157556 + 1540·h)·(M/σ) )·Q`. -/
theorem sum4_mtree_rel (r : Rnd2 K) (M : K) (hM : 0 ≤ M) (t : MTree (RF2 r))
    (hne : t.flatten ≠ []) (hb : ∀ x ∈ t.flatten, |x.val| ≤ M)
    (hsmall : ((t.flatten.length : K) + 28) * r.u ≤ 1/64)
    (σ : K) (hσ : 0 < σ) (hvar : (t.flatten.length : K) * σ^2 = T (t.flatten.map RF2.val))
    (hcond : (t.flatten.length : K) * r.u * M ≤ σ) :
    |(Kurtosis.evalTree t).sum_4.val - Q (t.flatten.map RF2.val)|
      ≤ (t.flatten.length : K) * r.u
          * (32 * (257840 + 3555 * (height t : K) + 55 * (height t : K)^2)
              + (157556 + 1540 * (height t : K)) * (M / σ)) * Q (t.flatten.map RF2.val) := by
  have hu := r.u_nonneg
  set vs := t.flatten.map RF2.val with hvs
  have hvne : vs ≠ [] := by simpa [hvs] using hne
  have hvl : (vs.length : K) = (t.flatten.length : K) := by simp [hvs]
  set n : K := (t.flatten.length : K) with hn
  have hn0 : 0 ≤ n := Nat.cast_nonneg _
  have hh0 : (0 : K) ≤ (height t : K) := Nat.cast_nonneg _
  have main := kurt_mtree_envelope r M hM t hb hsmall σ hσ.le (le_of_eq hvar.symm) hcond
  refine le_trans main ?_
  have hV4 := V4T_le_Q (t.map RF2.val)
  have hV3 := V3S_le_V3 (t.map RF2.val)
  rw [height_map, MTree.flatten_map] at hV4 hV3
  have hQ0 := Q_nonneg vs
  have hV30 := V3_nonneg vs
  have hsv : σ * V3 vs ≤ Q vs := KurtErr.sigma_V3_le vs hvne σ (by rw [hvl]; exact le_of_eq hvar)
  have hs4 : n * σ^4 ≤ Q vs := by
    have := KurtErr.sigma4_le vs hvne σ (by rw [hvl]; exact le_of_eq hvar)
    rwa [hvl] at this
  have hMσ : 0 ≤ M / σ := by positivity
  have hnu0 : 0 ≤ n * r.u := by positivity
  have h1 : 32 * n * r.u * V4T (t.map RF2.val)
      ≤ n * r.u * (32 * (257840 + 3555 * (height t : K) + 55 * (height t : K)^2)) * Q vs := by
    calc 32 * n * r.u * V4T (t.map RF2.val)
        ≤ 32 * n * r.u * ((257840 + 3555 * (height t : K) + 55 * (height t : K)^2) * Q vs) := by gcongr
      _ = _ := by ring
  have h2 : 154 * n * r.u * M * V3S (t.map RF2.val)
      ≤ n * r.u * ((49280 + 1540 * (height t : K)) * (M / σ)) * Q vs := by
    have hMV : M * V3 vs ≤ (M / σ) * Q vs := by
      calc M * V3 vs = (M / σ) * (σ * V3 vs) := by field_simp
        _ ≤ (M / σ) * Q vs := by gcongr
    calc 154 * n * r.u * M * V3S (t.map RF2.val)
        ≤ 154 * n * r.u * M * ((320 + 10 * (height t : K)) * V3 vs) := by gcongr
      _ = 154 * (n * r.u) * (320 + 10 * (height t : K)) * (M * V3 vs) := by ring
      _ ≤ 154 * (n * r.u) * (320 + 10 * (height t : K)) * ((M / σ) * Q vs) := by gcongr
      _ = _ := by ring
  have h3 : 108276 * n^2 * r.u * M * σ^3 ≤ n * r.u * (108276 * (M / σ)) * Q vs := by
    calc 108276 * n^2 * r.u * M * σ^3 = 108276 * (n * r.u) * (M / σ) * (n * σ^4) := by
          field_simp
      _ ≤ 108276 * (n * r.u) * (M / σ) * Q vs := by gcongr
      _ = _ := by ring
  have e : n * r.u * (32 * (257840 + 3555 * (height t : K) + 55 * (height t : K)^2)
        + (157556 + 1540 * (height t : K)) * (M / σ)) * Q vs
      = n * r.u * (32 * (257840 + 3555 * (height t : K) + 55 * (height t : K)^2)) * Q vs
        + n * r.u * ((49280 + 1540 * (height t : K)) * (M / σ)) * Q vs
        + n * r.u * (108276 * (M / σ)) * Q vs := by ring
  rw [e]
  linarith

/-- from `n·u·(a + b·(M/σ)) ≤ c` with `b ≥ c > 0`, `a ≥ 0`: `n·u·M ≤ σ` -/
theorem cond_of_eps (n u M σ a b c : K) (hn : 0 ≤ n) (hu : 0 ≤ u) (hM : 0 ≤ M) (hσ : 0 < σ)
    (ha : 0 ≤ a) (hc : 0 < c) (hbc : c ≤ b) (h : n * u * (a + b * (M / σ)) ≤ c) :
    n * u * M ≤ σ := by
  have hnu : 0 ≤ n * u := mul_nonneg hn hu
  have hMσ : 0 ≤ M / σ := div_nonneg hM hσ.le
  have h1 : c * (n * u * (M / σ)) ≤ c := by
    have : c * (n * u * (M / σ)) ≤ n * u * (a + b * (M / σ)) := by
      have h2 : c * (n * u * (M / σ)) ≤ b * (n * u * (M / σ)) :=
        mul_le_mul_of_nonneg_right hbc (mul_nonneg hnu hMσ)
      have h3 : 0 ≤ n * u * a := mul_nonneg hnu ha
      nlinarith
    linarith
  have h2 : n * u * (M / σ) ≤ 1 := by
    by_contra hcon
    rw [not_le] at hcon
    have := mul_lt_mul_of_pos_left hcon hc
    linarith
  have e : n * u * M = n * u * (M / σ) * σ := by field_simp
  rw [e]
  calc n * u * (M / σ) * σ ≤ 1 * σ := mul_le_mul_of_nonneg_right h2 hσ.le
    _ = σ := one_mul σ

end AccMerge

#print axioms Avg.Mean.mtree_n
#print axioms Avg.Skewness.mtree_n
#print axioms Avg.Kurtosis.mtree_n
#print axioms AccMerge.sum2_mtree_rel
#print axioms AccMerge.sum3_mtree_abs
#print axioms AccMerge.sum4_mtree_abs
#print axioms AccMerge.sum4_mtree_rel
#print axioms AccMerge.cond_of_eps
