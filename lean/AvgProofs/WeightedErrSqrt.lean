import AvgProofs.WeightedSumsErr
import AvgProofs.SqrtErr

/-!
# `WeightedMeanWithError.error = sqrtfl(variance_of_weighted_mean)`

* `vwm_nonneg`: at `RF2 r` (`u < 1`) the computed `variance_of_weighted_mean` of an add-only stream with
  weights `≥ 0`, positive total weight and `n ≥ 2` is `≥ 0`.
* `wmwe_error_val`: the accessor with an instance that takes square roots with `q.sqrtfl`.
* `wmwe_error_envelope`: `|error - √V| ≤ 16·n·(1 + M/σ)·u·√V`, `V = s²·Σw²/(Σw)²`, `σ = √(s²)`, when `2·n·u·M ≤ σ`.
-/
open Avg MSpec VarSpec
set_option linter.unusedSectionVars false

section general
variable {K : Type} [Field K] [LinearOrder K] [IsStrictOrderedRing K] {r : Rnd2 K} [FloatOps (RF2 r)]

theorem vwm_nonneg (heq : ValEqb r) (hu1 : r.u < 1) (ps : List (RF2 r × RF2 r)) (h2 : 2 ≤ ps.length)
    (hw : ∀ p ∈ ps, 0 ≤ p.2.val) (hpos : 0 < W (pairVals ps)) :
    0 ≤ (ps.foldl WeightedMeanWithError.addP WeightedMeanWithError.new).varianceOfWeightedMean.val := by
  obtain ⟨_, hW⟩ := wsum_fold_MB hu1.le ps hw
  obtain ⟨hW20, hW2⟩ := wsumsq_fold_MB hu1.le ps
  have h1u : 0 < 1 - r.u := by linarith
  have hŴpos := hW.pos (pow_pos h1u _) hpos
  rw [vwm_val heq ps hŴpos.ne']
  have hlen : (ps.map Prod.fst).length = ps.length := List.length_map _
  apply fl_nonneg r hu1.le
  apply mul_nonneg
  · rw [VarErr.samplevar_val _ (by rw [hlen]; exact h2)]
    apply fl_nonneg r hu1.le
    exact div_nonneg (var_fold_sum2_nonneg r hu1.le _) (Nat.cast_nonneg _)
  · apply fl_nonneg r hu1.le
    apply div_nonneg (hW2.nonneg (pow_pos h1u _).le hW20)
    apply fl_nonneg r hu1.le
    exact mul_self_nonneg _

end general

section real
variable {r : Rnd2 ℝ} [FloatOps (RF2 r)]

/-- what `WeightedMeanWithError.error` computes when the instance takes square roots with `q.sqrtfl` -/
theorem wmwe_error_val (q : RndSqrt r) (hs : SqrtIs q) (s : WeightedMeanWithError (RF2 r)) :
    s.error.val = q.sqrtfl s.varianceOfWeightedMean.val := hs _

/-- **`error` of the weighted mean.** Over ℝ: `n ≥ 2` observations `(x, w)`, `w ≥ 0`, `Σw > 0`, `|x| ≤ M`,
`s² = T/(n-1) > 0`, `σ = √(s²)`, `(n+28)·u ≤ 1/64`, `2·n·u·M ≤ σ`; `V = s²·Σw²/(Σw)²`:
`|error - √V| ≤ 16·n·(1 + M/σ)·u·√V`. -/
theorem wmwe_error_envelope (q : RndSqrt r) (hs : SqrtIs q) (heq : ValEqb r) (M : ℝ) (hM : 0 ≤ M)
    (ps : List (RF2 r × RF2 r)) (h2 : 2 ≤ ps.length) (hw : ∀ p ∈ ps, 0 ≤ p.2.val)
    (hpos : 0 < W (pairVals ps)) (hb : ∀ p ∈ ps, |p.1.val| ≤ M)
    (hsmall : ((ps.length : ℝ) + 28) * r.u ≤ 1/64)
    (hs2 : 0 < T ((ps.map Prod.fst).map RF2.val) / ((ps.length - 1 : ℕ) : ℝ))
    (hcond : 2 * (ps.length : ℝ) * r.u * M
      ≤ Real.sqrt (T ((ps.map Prod.fst).map RF2.val) / ((ps.length - 1 : ℕ) : ℝ))) :
    |(ps.foldl WeightedMeanWithError.addP WeightedMeanWithError.new).error.val
        - Real.sqrt (T ((ps.map Prod.fst).map RF2.val) / ((ps.length - 1 : ℕ) : ℝ)
            * (W2 (pairVals ps) / (W (pairVals ps) * W (pairVals ps))))|
      ≤ 16 * ps.length
          * (1 + M / Real.sqrt (T ((ps.map Prod.fst).map RF2.val) / ((ps.length - 1 : ℕ) : ℝ))) * r.u
          * Real.sqrt (T ((ps.map Prod.fst).map RF2.val) / ((ps.length - 1 : ℕ) : ℝ)
              * (W2 (pairVals ps) / (W (pairVals ps) * W (pairVals ps)))) := by
  have hu := r.u_nonneg
  have hn2 : (2:ℝ) ≤ (ps.length : ℝ) := by exact_mod_cast h2
  have hu1920 : r.u ≤ 1/1920 := by
    have := mul_le_mul_of_nonneg_right (by linarith : (30:ℝ) ≤ (ps.length : ℝ) + 28) hu
    linarith
  have hu1 : r.u < 1 := by linarith
  set v := T ((ps.map Prod.fst).map RF2.val) / ((ps.length - 1 : ℕ) : ℝ) with hv
  set σ := Real.sqrt v with hσ
  have hσpos : 0 < σ := Real.sqrt_pos.mpr hs2
  have hsq : σ^2 = v := Real.sq_sqrt hs2.le
  have hW2pos : 0 < W2 (pairVals ps) := W2_pos hpos.ne'
  set φ := W2 (pairVals ps) / (W (pairVals ps) * W (pairVals ps)) with hφ
  have hφpos : 0 < φ := div_pos hW2pos (mul_pos hpos hpos)
  have hVpos : 0 < v * φ := mul_pos hs2 hφpos
  have hk0 : 0 ≤ M / σ := div_nonneg hM hσpos.le
  set k := M / σ with hk
  have hMk : M = k * σ := by rw [hk]; field_simp
  have herr := vwm_fold_error heq M hM ps h2 hw hpos hb hsmall σ hσpos.le (le_of_eq hsq.symm)
  rw [← hv, ← hφ] at herr
  have hnuM : 0 ≤ (ps.length : ℝ) * r.u * M := by positivity
  have h9 : 9 * (ps.length : ℝ)^2 * r.u^2 * M^2 ≤ 9/2 * ((ps.length : ℝ) * r.u * M) * σ := by
    have : (ps.length : ℝ) * r.u * M * (2 * ((ps.length : ℝ) * r.u * M)) ≤ (ps.length : ℝ) * r.u * M * σ :=
      mul_le_mul_of_nonneg_left (by linarith) hnuM
    nlinarith
  have hrel : |(ps.foldl WeightedMeanWithError.addP WeightedMeanWithError.new).varianceOfWeightedMean.val
      - v * φ| ≤ ((123/8 + 27/2 * k) * (ps.length : ℝ) * r.u) * (v * φ) := by
    refine le_trans herr ?_
    have e : ((123/8 + 27/2 * k) * (ps.length : ℝ) * r.u) * (v * φ)
        = (123/8 * (ps.length : ℝ) * r.u * v + 27/2 * ((ps.length : ℝ) * r.u * M) * σ) * φ := by
      rw [hMk, ← hsq]; ring
    rw [e]
    apply mul_le_mul_of_nonneg_right _ hφpos.le
    linarith
  rw [wmwe_error_val q hs]
  have h3 := sqrtfl_error_rel q _ _ _ (vwm_nonneg heq hu1 ps h2 hw hpos) hVpos hrel
  refine le_trans h3 ?_
  apply mul_le_mul_of_nonneg_right _ (Real.sqrt_nonneg _)
  have hnu2 : 2 * r.u ≤ (ps.length : ℝ) * r.u := mul_le_mul_of_nonneg_right hn2 hu
  have a1 : 0 ≤ (ps.length : ℝ) * r.u := by positivity
  have a2 : 0 ≤ (ps.length : ℝ) * r.u * k := by positivity
  have b1 : r.u * ((ps.length : ℝ) * r.u) ≤ 1/1920 * ((ps.length : ℝ) * r.u) :=
    mul_le_mul_of_nonneg_right hu1920 a1
  have b2 : r.u * ((ps.length : ℝ) * r.u * k) ≤ 1/1920 * ((ps.length : ℝ) * r.u * k) :=
    mul_le_mul_of_nonneg_right hu1920 a2
  nlinarith

end real
