import AvgProofs.CovErrLin
import AvgProofs.VarErrSharp

/-!
# Sharper constants for the forward error of `sum_prod`

Uses `mean_fold_error_sharp` (`|avg_k - mean_k| ≤ β·(k + 37/4)`, `β = (65/128)·u·M`, `= 0` for `k = 0`)
for both running means, and treats the `y`-mean of the *first* pair separately: `ε` is any bound on
`|avg_y after the first pair - y_0|`.

* `first_y_error`: in the standard model `ε = γ₃·|y_0|` (three roundings: `y_0 - 0`, `/1`, `0 +`).
  In IEEE arithmetic these three operations are exact and `ε = 0`.
* `cov_fold_error_sharp` - symbolic.
* `cov_fold_error_sharp_num` - numerals: for `(n+28)·u ≤ 1/64`,
  `|sum_prod - C| ≤ (21/5)·n·u·Rxy + (79/40)·n·u·Mx·Ry + (21/5)·n·u·My·Rx + (39/10)·n³·u²·Mx·My
      + (21/20)·ε·Mx`.
-/
open Avg MSpec Finset VarSpec CovSpec VarErr

namespace CovErr
variable {K : Type} [Field K] [LinearOrder K] [IsStrictOrderedRing K]

/-- bound on the error of the running `y`-mean after `i` pairs: `0` before the first, `ε` after the
first, `β(i + 37/4)` from the second on -/
def EsY (β ε : K) (i : ℕ) : K := if i = 0 then 0 else if i = 1 then ε else β * ((i : K) + 37/4)

theorem EsY_nonneg {β ε : K} (hβ : 0 ≤ β) (hε : 0 ≤ ε) (i : ℕ) : 0 ≤ EsY β ε i := by
  unfold EsY; split_ifs <;> positivity

/-- the value of the `y`-mean after the first pair, operation by operation -/
theorem first_avg_y_val (r : Rnd2 K) (x y : RF2 r) :
    ((Covariance.new : Covariance (RF2 r)).add x y).avg_y.val
      = r.fl (0 + r.fl (r.fl (y.val - 0) / 1)) := by
  have h : ((Covariance.new : Covariance (RF2 r)).add x y).avg_y.val
      = r.fl (((0 : ℕ) : K) + r.fl (r.fl (y.val - ((0 : ℕ) : K)) / ((0 + 1 : ℕ) : K))) := rfl
  rw [h]; simp

/-- **The `y`-mean of the first pair in the standard model**: three roundings,
`|avg_y - y_0| ≤ γ₃·|y_0|`. -/
theorem first_y_error (r : Rnd2 K) (x y : RF2 r) :
    |((Covariance.new : Covariance (RF2 r)).add x y).avg_y.val - y.val| ≤ gam3 r.u * |y.val| := by
  rw [first_avg_y_val]
  have hu := r.u_nonneg
  have h1 : RE r.u 1 (r.fl (y.val - 0)) y.val := by
    have := (RE.refl r.u (y.val - 0)).round r.fl hu r.err
    simpa using this
  have h2 : RE r.u 2 (r.fl (r.fl (y.val - 0) / 1)) y.val := by
    have := (h1.div_exact 1).round r.fl hu r.err
    simpa using this
  have h3 : RE r.u 3 (r.fl (0 + r.fl (r.fl (y.val - 0) / 1))) y.val := by
    have := h2.round r.fl hu r.err
    simpa using this
  exact h3

/-- the hypotheses of the general theorem, from `mean_fold_error_sharp` (`x`-coordinates) -/
theorem mean_prefix_sharp_x (r : Rnd2 K) (M : K) (hM : 0 ≤ M) (ps : List (RF2 r × RF2 r))
    (hb : ∀ p ∈ ps, |p.1.val| ≤ M) (hsmall : ((ps.length : K) + 28) * r.u ≤ 1/64) :
    ∀ qs, qs <+: ps →
      |(qs.foldl (fun (s : Covariance (RF2 r)) p => s.add p.1 p.2) Covariance.new).avg_x.val
          - mean (fsts (vals qs))| ≤ Esharp (65/128 * r.u * M) qs.length := by
  intro qs hqs
  have h := mean_prefix_sharp r M hM (ps.map Prod.fst)
    (by
      intro x hx
      rw [List.mem_map] at hx
      obtain ⟨p, hp, rfl⟩ := hx
      exact hb p hp)
    (by rw [List.length_map]; exact hsmall) (qs.map Prod.fst) (List.IsPrefix.map Prod.fst hqs)
  rw [Covariance.fold_avg_x, fsts_vals]
  rw [List.length_map] at h
  exact h

/-- the hypotheses of the general theorem, from `mean_fold_error_sharp` (`y`-coordinates), with the
first pair treated separately -/
theorem mean_prefix_sharp_y (r : Rnd2 K) (M : K) (hM : 0 ≤ M) (ps : List (RF2 r × RF2 r))
    (hb : ∀ p ∈ ps, |p.2.val| ≤ M) (hsmall : ((ps.length : K) + 28) * r.u ≤ 1/64)
    (ε : K)
    (h1 : ∀ p, ps.head? = some p →
      |((Covariance.new : Covariance (RF2 r)).add p.1 p.2).avg_y.val - p.2.val| ≤ ε) :
    ∀ qs, qs <+: ps →
      |(qs.foldl (fun (s : Covariance (RF2 r)) p => s.add p.1 p.2) Covariance.new).avg_y.val
          - mean (snds (vals qs))| ≤ EsY (65/128 * r.u * M) ε qs.length := by
  intro qs hqs
  by_cases hl : qs.length = 1
  · obtain ⟨p, rfl⟩ := List.length_eq_one_iff.mp hl
    have hhead : ps.head? = some p := by
      obtain ⟨t, rfl⟩ := hqs
      rfl
    have := h1 p hhead
    have hm : mean (snds (vals [p])) = p.2.val := by simp [vals, snds, mean]
    rw [hm]
    simp only [List.foldl_cons, List.foldl_nil, List.length_singleton, EsY]
    simpa using this
  · have h := mean_prefix_sharp r M hM (ps.map Prod.snd)
      (by
        intro x hx
        rw [List.mem_map] at hx
        obtain ⟨p, hp, rfl⟩ := hx
        exact hb p hp)
      (by rw [List.length_map]; exact hsmall) (qs.map Prod.snd) (List.IsPrefix.map Prod.snd hqs)
    rw [Covariance.fold_avg_y, snds_vals]
    rw [List.length_map] at h
    have he : EsY (65/128 * r.u * M) ε qs.length = Esharp (65/128 * r.u * M) qs.length := by
      unfold EsY Esharp
      simp only [hl, if_false]
    rw [he]
    exact h

/-! ## the sums -/

/-- for `i ≥ 1`: `(i + 1 + 37/4)·(i+1)/i ≤ i + 43/2` -/
theorem lift_EsY_le (β ε : K) (hβ : 0 ≤ β) (i : ℕ) :
    lift (fun j => EsY β ε (j + 1)) i ≤ β * (if i = 0 then 0 else ((i : K) + 43/2)) := by
  unfold lift
  by_cases h : i = 0
  · simp [h]
  · have h' : i + 1 ≠ 1 := by omega
    simp only [h, if_false, EsY, Nat.succ_ne_zero, h']
    have hi : (1 : K) ≤ i := by exact_mod_cast Nat.one_le_iff_ne_zero.mpr h
    have hipos : (0 : K) < i := by linarith
    push_cast
    rw [mul_assoc]
    gcongr
    rw [← mul_div_assoc, div_le_iff₀ hipos]
    nlinarith

/-- `Σ_{1≤i<n} (i + 43/2)² ≤ 64·n³` -/
theorem sum_lift_sharp_aux (n : ℕ) :
    ∑ i ∈ range n, (if i = 0 then (0:K) else ((i : K) + 43/2))^2 ≤ 64 * (n : K)^3 := by
  induction n with
  | zero => simp
  | succ n ih =>
    rw [sum_range_succ]
    rcases Nat.eq_zero_or_pos n with h0 | hpos
    · subst h0; simp
    · rcases Nat.eq_or_lt_of_le hpos with h1 | h2
      · rw [← h1]
        norm_num [sum_range_succ]
      · have hn2 : (2 : K) ≤ n := by exact_mod_cast h2
        have hne : n ≠ 0 := by omega
        simp only [hne, if_false]
        push_cast
        nlinarith

theorem sum_lift_EsY_sq_le (β ε : K) (hβ : 0 ≤ β) (hε : 0 ≤ ε) (n : ℕ) :
    ∑ i ∈ range n, (lift (fun j => EsY β ε (j + 1)) i)^2 ≤ β^2 * (64 * (n : K)^3) := by
  calc ∑ i ∈ range n, (lift (fun j => EsY β ε (j + 1)) i)^2
      ≤ ∑ i ∈ range n, β^2 * (if i = 0 then (0:K) else ((i : K) + 43/2))^2 := by
        apply sum_le_sum
        intro i _
        have h0 := lift_nonneg (E := fun j => EsY β ε (j + 1)) (fun j => EsY_nonneg hβ hε _) i
        have h1 := lift_EsY_le β ε hβ i
        rw [← mul_pow]
        gcongr
    _ = β^2 * ∑ i ∈ range n, (if i = 0 then (0:K) else ((i : K) + 43/2))^2 := by rw [mul_sum]
    _ ≤ β^2 * (64 * (n : K)^3) := by
        have := sum_lift_sharp_aux (K := K) n
        gcongr

/-- `Σ_{1≤i<n} (i + 37/4)(i + 41/4) ≤ (29/2)·n³` -/
theorem sum_prod_sharp_aux (n : ℕ) :
    ∑ i ∈ range n, (if i = 0 then (0:K) else ((i : K) + 37/4) * ((i : K) + 41/4))
      ≤ 29/2 * (n : K)^3 := by
  induction n with
  | zero => simp
  | succ n ih =>
    rw [sum_range_succ]
    rcases Nat.eq_zero_or_pos n with h0 | hpos
    · subst h0; simp; norm_num
    · rcases Nat.eq_or_lt_of_le hpos with h1 | h2
      · rw [← h1]
        norm_num [sum_range_succ]
      · have hn2 : (2 : K) ≤ n := by exact_mod_cast h2
        have hne : n ≠ 0 := by omega
        simp only [hne, if_false]
        push_cast
        nlinarith

theorem sum_Esharp_EsY_le (βx βy ε : K) (n : ℕ) (hβx : 0 ≤ βx) (hβy : 0 ≤ βy) :
    ∑ i ∈ range n, Esharp βx i * EsY βy ε (i + 1) ≤ βx * βy * (29/2 * (n : K)^3) := by
  have hpt : ∀ i ∈ range n, Esharp βx i * EsY βy ε (i + 1)
      = (βx * βy) * (if i = 0 then (0:K) else ((i : K) + 37/4) * ((i : K) + 41/4)) := by
    intro i _
    unfold Esharp EsY
    by_cases h : i = 0
    · simp [h]
    · have h' : i + 1 ≠ 1 := by omega
      simp only [h, if_false, Nat.succ_ne_zero, h']
      push_cast
      ring
  rw [sum_congr rfl hpt, ← mul_sum]
  have := sum_prod_sharp_aux (K := K) n
  gcongr

/-- **Sharp symbolic form.** `n ≥ 1`, `(n+28)·u ≤ 1/64`, `βx = (65/128)·u·Mx`, `βy = (65/128)·u·My`,
`ε ≥ 0` a bound on the error of the `y`-mean after the first pair; for all `Rxy, RA, RB ≥ 0` with
`T_x·T_y ≤ Rxy²`, `βx²·Q(n)·T_y ≤ RA²`, `βy²·64n³·T_x ≤ RB²`:
`|sum_prod - C| ≤ (1+u)^n·((γ₃+n·u)·Rxy + (1+γ₃)·(RA + RB + ε·Mx + βx·βy·(29/2)·n³))`. -/
theorem cov_fold_error_sharp (r : Rnd2 K) (Mx My : K) (hMx : 0 ≤ Mx) (hMy : 0 ≤ My)
    (ps : List (RF2 r × RF2 r)) (hne : ps ≠ [])
    (hbx : ∀ p ∈ ps, |p.1.val| ≤ Mx) (hby : ∀ p ∈ ps, |p.2.val| ≤ My)
    (hsmall : ((ps.length : K) + 28) * r.u ≤ 1/64)
    (ε : K) (hε : 0 ≤ ε)
    (h1 : ∀ p, ps.head? = some p →
      |((Covariance.new : Covariance (RF2 r)).add p.1 p.2).avg_y.val - p.2.val| ≤ ε)
    (Rxy RA RB : K) (hRxy : 0 ≤ Rxy) (hRA : 0 ≤ RA) (hRB : 0 ≤ RB)
    (hxy : T (fsts (vals ps)) * T (snds (vals ps)) ≤ Rxy^2)
    (hA : (65/128 * r.u * Mx)^2 * Qc (ps.length : K) * T (snds (vals ps)) ≤ RA^2)
    (hB : (65/128 * r.u * My)^2 * (64 * (ps.length : K)^3) * T (fsts (vals ps)) ≤ RB^2) :
    |(ps.foldl (fun (s : Covariance (RF2 r)) p => s.add p.1 p.2) Covariance.new).sum_prod.val
        - Cxy (vals ps)|
      ≤ (1 + r.u)^ps.length *
          ((gam3 r.u + ps.length * r.u) * Rxy
            + (1 + gam3 r.u) * (RA + RB + ε * Mx
                + (65/128 * r.u * Mx) * (65/128 * r.u * My) * (29/2 * (ps.length : K)^3))) := by
  have hu := r.u_nonneg
  have hn : 1 ≤ ps.length := List.length_pos_of_ne_nil hne
  set βx := 65/128 * r.u * Mx with hβx
  set βy := 65/128 * r.u * My with hβy
  have hβx0 : 0 ≤ βx := by positivity
  have hβy0 : 0 ≤ βy := by positivity
  have hTx0 := T_nonneg (fsts (vals ps))
  have hTy0 := T_nonneg (snds (vals ps))
  have hsumB := sum_lift_EsY_sq_le βy ε hβy0 hε ps.length
  have hsumC := sum_Esharp_EsY_le βx βy ε ps.length hβx0 hβy0
  have hd0 : |dev (fsts (vals ps)) 0| ≤ Mx := by
    apply abs_dev_zero_le _ Mx hMx
    intro v hv
    rw [fsts_vals, List.mem_map] at hv
    obtain ⟨x, hx, rfl⟩ := hv
    rw [List.mem_map] at hx
    obtain ⟨p, hp, rfl⟩ := hx
    exact hbx p hp
  have hcs := cov_fold_error_cs r (Esharp βx) (EsY βy ε) (Esharp_nonneg hβx0)
    (EsY_nonneg hβy0 hε) ps
    (mean_prefix_sharp_x r Mx hMx ps hbx hsmall) (mean_prefix_sharp_y r My hMy ps hby hsmall ε h1)
    Rxy RA RB hRxy hRA hRB hxy
    (by rw [sum_Esharp_sq _ _ hn]; exact hA) (le_trans (by gcongr) hB)
  refine le_trans hcs ?_
  have hg := gam3_nonneg hu
  have hE1 : EsY βy ε 1 * |dev (fsts (vals ps)) 0| ≤ ε * Mx := by
    have : EsY βy ε 1 = ε := by simp [EsY]
    rw [this]; gcongr
  gcongr

/-- the last algebraic step of `cov_fold_error_sharp_num` -/
theorem sharp_arith_cov (P γ u Mx My n Rxy Rx Ry ε : K) (hu : 0 ≤ u) (hMx : 0 ≤ Mx)
    (hMy : 0 ≤ My) (hn : 1 ≤ n) (hRxy : 0 ≤ Rxy) (hRx : 0 ≤ Rx) (hRy : 0 ≤ Ry) (hε : 0 ≤ ε)
    (hP0 : 0 ≤ P) (hP : P ≤ 33/32) (hγ : γ ≤ 49/16 * u) (hu64 : u ≤ 1/1856) :
    P * ((γ + n * u) * Rxy + (1 + γ) * (15/4 * (65/128 * u * Mx) * n * Ry
          + 8 * (65/128 * u * My) * n * Rx + ε * Mx
          + (65/128 * u * Mx) * (65/128 * u * My) * (29/2 * n^3)))
      ≤ 21/5 * n * u * Rxy + 79/40 * n * u * Mx * Ry + 21/5 * n * u * My * Rx
        + 39/10 * n^3 * u^2 * Mx * My + 21/20 * ε * Mx := by
  have hn0 : 0 ≤ n := by linarith
  have h1γ : 1 + γ ≤ 1 + 49/29696 := by linarith
  have t1 : (γ + n * u) * Rxy ≤ (65/16 * (n * u)) * Rxy := by
    have : u ≤ n * u := by nlinarith
    gcongr; linarith
  have hX0 : 0 ≤ 15/4 * (65/128 * u * Mx) * n * Ry + 8 * (65/128 * u * My) * n * Rx + ε * Mx
      + (65/128 * u * Mx) * (65/128 * u * My) * (29/2 * n^3) := by positivity
  have t2 : (1 + γ) * (15/4 * (65/128 * u * Mx) * n * Ry + 8 * (65/128 * u * My) * n * Rx + ε * Mx
          + (65/128 * u * Mx) * (65/128 * u * My) * (29/2 * n^3))
      ≤ (1 + 49/29696) * (15/4 * (65/128 * u * Mx) * n * Ry + 8 * (65/128 * u * My) * n * Rx
          + ε * Mx + (65/128 * u * Mx) * (65/128 * u * My) * (29/2 * n^3)) := by
    gcongr
  have hnonneg : 0 ≤ (65/16 * (n * u)) * Rxy
      + (1 + 49/29696) * (15/4 * (65/128 * u * Mx) * n * Ry + 8 * (65/128 * u * My) * n * Rx
          + ε * Mx + (65/128 * u * Mx) * (65/128 * u * My) * (29/2 * n^3)) := by
    positivity
  calc P * ((γ + n * u) * Rxy + (1 + γ) * (15/4 * (65/128 * u * Mx) * n * Ry
          + 8 * (65/128 * u * My) * n * Rx + ε * Mx
          + (65/128 * u * Mx) * (65/128 * u * My) * (29/2 * n^3)))
      ≤ P * ((65/16 * (n * u)) * Rxy
          + (1 + 49/29696) * (15/4 * (65/128 * u * Mx) * n * Ry + 8 * (65/128 * u * My) * n * Rx
            + ε * Mx + (65/128 * u * Mx) * (65/128 * u * My) * (29/2 * n^3))) := by
        gcongr
    _ ≤ 33/32 * ((65/16 * (n * u)) * Rxy
          + (1 + 49/29696) * (15/4 * (65/128 * u * Mx) * n * Ry + 8 * (65/128 * u * My) * n * Rx
            + ε * Mx + (65/128 * u * Mx) * (65/128 * u * My) * (29/2 * n^3))) := by
        gcongr
    _ ≤ 21/5 * n * u * Rxy + 79/40 * n * u * Mx * Ry + 21/5 * n * u * My * Rx
        + 39/10 * n^3 * u^2 * Mx * My + 21/20 * ε * Mx := by
        have a1 : 0 ≤ n * u * Rxy := by positivity
        have a2 : 0 ≤ n * u * Mx * Ry := by positivity
        have a3 : 0 ≤ n * u * My * Rx := by positivity
        have a4 : 0 ≤ n^3 * u^2 * Mx * My := by positivity
        have a5 : 0 ≤ ε * Mx := by positivity
        nlinarith

/-- **Sharp numerals.** `|x_i| ≤ Mx`, `|y_i| ≤ My`, `(n+28)·u ≤ 1/64`, `ε ≥ 0` a bound on the error of
the `y`-mean after the first pair, any `Rxy, Rx, Ry ≥ 0` with `T_x·T_y ≤ Rxy²`, `n·T_x ≤ Rx²`,
`n·T_y ≤ Ry²`:
`|sum_prod - C| ≤ (21/5)·n·u·Rxy + (79/40)·n·u·Mx·Ry + (21/5)·n·u·My·Rx + (39/10)·n³·u²·Mx·My
    + (21/20)·ε·Mx`. -/
theorem cov_fold_error_sharp_num (r : Rnd2 K) (Mx My : K) (hMx : 0 ≤ Mx) (hMy : 0 ≤ My)
    (ps : List (RF2 r × RF2 r))
    (hbx : ∀ p ∈ ps, |p.1.val| ≤ Mx) (hby : ∀ p ∈ ps, |p.2.val| ≤ My)
    (hsmall : ((ps.length : K) + 28) * r.u ≤ 1/64)
    (ε : K) (hε : 0 ≤ ε)
    (h1 : ∀ p, ps.head? = some p →
      |((Covariance.new : Covariance (RF2 r)).add p.1 p.2).avg_y.val - p.2.val| ≤ ε)
    (Rxy Rx Ry : K) (hRxy : 0 ≤ Rxy) (hRx : 0 ≤ Rx) (hRy : 0 ≤ Ry)
    (hxy : T (fsts (vals ps)) * T (snds (vals ps)) ≤ Rxy^2)
    (hx : (ps.length : K) * T (fsts (vals ps)) ≤ Rx^2)
    (hy : (ps.length : K) * T (snds (vals ps)) ≤ Ry^2) :
    |(ps.foldl (fun (s : Covariance (RF2 r)) p => s.add p.1 p.2) Covariance.new).sum_prod.val
        - Cxy (vals ps)|
      ≤ 21/5 * ps.length * r.u * Rxy + 79/40 * ps.length * r.u * Mx * Ry
        + 21/5 * ps.length * r.u * My * Rx + 39/10 * (ps.length : K)^3 * r.u^2 * Mx * My
        + 21/20 * ε * Mx := by
  have hu := r.u_nonneg
  by_cases hnil : ps = []
  · subst hnil
    have h0 : (Covariance.new : Covariance (RF2 r)).sum_prod.val = 0 :=
      (Nat.cast_zero : ((0 : ℕ) : K) = 0)
    have : 0 ≤ 21/20 * ε * Mx := by positivity
    simpa [h0, vals, Cxy_nil] using this
  have hnat : 1 ≤ ps.length := List.length_pos_of_ne_nil hnil
  have hn1 : (1 : K) ≤ ps.length := by exact_mod_cast hnat
  set n : K := (ps.length : K) with hn
  have hn0 : 0 ≤ n := by linarith
  have hu1856 : r.u ≤ 1/1856 := by nlinarith
  have hu64 : r.u ≤ 1/64 := by linarith
  have hnu : n * r.u ≤ 1/64 := by nlinarith
  set Tx := T (fsts (vals ps)) with hTx
  set Ty := T (snds (vals ps)) with hTy
  have hTx0 : 0 ≤ Tx := T_nonneg _
  have hTy0 : 0 ≤ Ty := T_nonneg _
  set βx := 65/128 * r.u * Mx with hβx
  set βy := 65/128 * r.u * My with hβy
  have hβx0 : 0 ≤ βx := by positivity
  have hβy0 : 0 ≤ βy := by positivity
  have hQle := Qc_le (K := K) ps.length hnat
  have hQ0 := Qc_nonneg (K := K) ps.length hnat
  have hA : βx^2 * Qc n * Ty ≤ (15/4 * βx * n * Ry)^2 := by
    have h2 : (15/4 * βx * n * Ry)^2 = (βx^2 * n^2 * (225/16)) * Ry^2 := by ring
    rw [h2]
    have h4 : 0 ≤ n * Ty := by positivity
    calc βx^2 * Qc n * Ty ≤ βx^2 * (14 * n^3) * Ty := by gcongr
      _ = (βx^2 * n^2 * 14) * (n * Ty) := by ring
      _ ≤ (βx^2 * n^2 * (225/16)) * (n * Ty) := by
          have : 0 ≤ βx^2 * n^2 := by positivity
          nlinarith
      _ ≤ (βx^2 * n^2 * (225/16)) * Ry^2 := by gcongr
  have hB : βy^2 * (64 * n^3) * Tx ≤ (8 * βy * n * Rx)^2 := by
    have h2 : (8 * βy * n * Rx)^2 = (βy^2 * n^2 * 64) * Rx^2 := by ring
    rw [h2]
    calc βy^2 * (64 * n^3) * Tx = (βy^2 * n^2 * 64) * (n * Tx) := by ring
      _ ≤ (βy^2 * n^2 * 64) * Rx^2 := by gcongr
  have main := cov_fold_error_sharp r Mx My hMx hMy ps hnil hbx hby hsmall ε hε h1 Rxy
    (15/4 * βx * n * Ry) (8 * βy * n * Rx) hRxy (by positivity) (by positivity) hxy hA hB
  refine le_trans main ?_
  have hP : (1 + r.u)^ps.length ≤ 33/32 := by
    have := one_add_pow_le r.u hu ps.length (by linarith)
    linarith
  exact sharp_arith_cov _ _ r.u Mx My n Rxy Rx Ry ε hu hMx hMy hn1 hRxy hRx hRy hε
    (by positivity) hP (gam3_le r.u hu hu64) hu1856

end CovErr

#print axioms CovErr.first_y_error
#print axioms CovErr.cov_fold_error_sharp
#print axioms CovErr.cov_fold_error_sharp_num
