import AvgProofs.MeanErr2
import AvgProofs.HistConstWidth
import Mathlib.Tactic.Ring
import Mathlib.Tactic.Linarith
import Mathlib.Tactic.Positivity
import Mathlib.Tactic.GCongr
import Mathlib.Tactic.FieldSimp

/-!
# `with_const_width` under the standard model of rounding (carrier `RF2 r`)

Edge `i` is `fl(start + fl(fl(fl(end - start) / LEN) * i))` (the casts of `LEN` and `i` are exact).
With `M = max |start| |end|` and `u` the unit roundoff,

  `|edge_i - (start + i (end - start) / LEN)| ≤ M (7u + 12u² + 8u³ + 2u⁴)`      (no hypothesis on `u`)

and this polynomial is attained in the model (`start = -M`, `end = M`, `i = LEN`, `fl t = (1+u) t`),
see `cw_edge_err_sharp`. It is `≤ 8 u M` as soon as `12u + 8u² + 2u³ ≤ 1`, e.g. for `u ≤ 1/16`
(`u ≤ 1/8` is *not* enough: `cw_edge_not_8u_at_eighth`).
-/
open Avg
namespace Avg
variable {K : Type} [Field K] [LinearOrder K] [IsStrictOrderedRing K]

/-- the error polynomial `2(1+u)⁴ - (1+u) - 1` -/
def cwPoly (u : K) : K := 7 * u + 12 * u ^ 2 + 8 * u ^ 3 + 2 * u ^ 4

theorem cwPoly_le_8u (u : K) (hu : 0 ≤ u) (h16 : u ≤ 1 / 16) : cwPoly u ≤ 8 * u := by
  unfold cwPoly
  have h2 : u ^ 2 ≤ u * (1 / 16) := by rw [pow_two]; gcongr
  have h3 : u ^ 3 ≤ u * (1 / 16) ^ 2 := by
    rw [show u ^ 3 = u * u ^ 2 by ring]; gcongr
  have h4 : u ^ 4 ≤ u * (1 / 16) ^ 3 := by
    rw [show u ^ 4 = u * u ^ 3 by ring]; gcongr
  nlinarith

/-- scalar form of the four-rounding error analysis -/
theorem cw_edge_err_aux (fl : K → K) (u : K) (hu : 0 ≤ u) (err : ∀ t, |fl t - t| ≤ u * |t|)
    (s e L i M : K) (hL : 0 < L) (hi0 : 0 ≤ i) (hiL : i ≤ L) (hs : |s| ≤ M) (he : |e| ≤ M) :
    |fl (s + fl (fl (fl (e - s) / L) * i)) - (s + i * (e - s) / L)| ≤ M * cwPoly u := by
  have hM : 0 ≤ M := le_trans (abs_nonneg _) hs
  set c := i / L with hc
  have hc0 : 0 ≤ c := div_nonneg hi0 hL.le
  have hc1 : c ≤ 1 := by rw [hc, div_le_one hL]; exact hiL
  have hic : i = c * L := by rw [hc]; field_simp
  set w := e - s with hw
  have hwM : |w| ≤ 2 * M := by
    calc |w| ≤ |e| + |s| := abs_sub _ _
      _ ≤ 2 * M := by linarith
  -- exact edge
  have hxeq : s + i * w / L = s + c * w := by rw [hc]; field_simp
  have hxM : |s + c * w| ≤ M := by
    have : s + c * w = (1 - c) * s + c * e := by rw [hw]; ring
    rw [this]
    calc |(1 - c) * s + c * e| ≤ |(1 - c) * s| + |c * e| := abs_add_le _ _
      _ = (1 - c) * |s| + c * |e| := by
          rw [abs_mul, abs_mul, abs_of_nonneg hc0, abs_of_nonneg (by linarith : 0 ≤ 1 - c)]
      _ ≤ (1 - c) * M + c * M := by
          have h1 : 0 ≤ 1 - c := by linarith
          gcongr
      _ = M := by ring
  -- subtraction
  set d := fl w with hd
  have hdw : |d - w| ≤ u * |w| := err w
  have hdabs : |d| ≤ (1 + u) * |w| := by
    calc |d| = |(d - w) + w| := by ring_nf
      _ ≤ |d - w| + |w| := abs_add_le _ _
      _ ≤ (1 + u) * |w| := by linarith
  -- division, then exact multiplication by i
  set q := fl (d / L) with hq
  have hqd : |q - d / L| ≤ u * |d / L| := err (d / L)
  have htd : |q * i - d * c| ≤ u * |d| * c := by
    have : q * i - d * c = (q - d / L) * i := by rw [hc]; field_simp
    rw [this, abs_mul, abs_of_nonneg hi0]
    calc |q - d / L| * i ≤ (u * |d / L|) * i := by gcongr
      _ = u * |d| * c := by rw [abs_div, abs_of_pos hL, hc]; field_simp
  have htabs : |q * i| ≤ (1 + u) * (|d| * c) := by
    calc |q * i| = |(q * i - d * c) + d * c| := by ring_nf
      _ ≤ |q * i - d * c| + |d * c| := abs_add_le _ _
      _ = |q * i - d * c| + |d| * c := by rw [abs_mul, abs_of_nonneg hc0]
      _ ≤ (1 + u) * (|d| * c) := by linarith
  -- multiplication
  set p := fl (q * i) with hp
  have hpt : |p - q * i| ≤ u * |q * i| := err (q * i)
  set a := |w| * c with ha
  set b := |d| * c with hb
  have ha0 : 0 ≤ a := mul_nonneg (abs_nonneg _) hc0
  have hb0 : 0 ≤ b := mul_nonneg (abs_nonneg _) hc0
  have haM : a ≤ 2 * M := by
    calc a ≤ (2 * M) * 1 := by rw [ha]; gcongr
      _ = 2 * M := mul_one _
  have hba : b ≤ (1 + u) * a := by
    calc b ≤ ((1 + u) * |w|) * c := by rw [hb]; gcongr
      _ = (1 + u) * a := by rw [ha]; ring
  have hdcw : |d * c - c * w| ≤ u * a := by
    have : d * c - c * w = (d - w) * c := by ring
    rw [this, abs_mul, abs_of_nonneg hc0]
    calc |d - w| * c ≤ (u * |w|) * c := by gcongr
      _ = u * a := by rw [ha]; ring
  have h1u : 0 ≤ 1 + u := by linarith
  have hpc : |p - c * w| ≤ ((1 + u) ^ 3 - 1) * a := by
    calc |p - c * w| = |(p - q * i) + (q * i - d * c) + (d * c - c * w)| := by ring_nf
      _ ≤ |p - q * i| + |q * i - d * c| + |d * c - c * w| := abs_add_three _ _ _
      _ ≤ u * ((1 + u) * b) + u * b + u * a := by
          have : u * |q * i| ≤ u * ((1 + u) * b) := by gcongr
          have h2 : u * |d| * c = u * b := by rw [hb]; ring
          linarith
      _ ≤ u * ((1 + u) * ((1 + u) * a)) + u * ((1 + u) * a) + u * a := by gcongr
      _ = ((1 + u) ^ 3 - 1) * a := by ring
  have hcube : 0 ≤ (1 + u) ^ 3 - 1 := by
    have : (1 + u) ^ 3 - 1 = u * (3 + 3 * u + u ^ 2) := by ring
    rw [this]; positivity
  set A := ((1 + u) ^ 3 - 1) * (2 * M) with hA
  have hpA : |p - c * w| ≤ A := le_trans hpc (by rw [hA]; gcongr)
  -- addition
  have hv : |fl (s + p) - (s + p)| ≤ u * |s + p| := err (s + p)
  have hsp : |s + p| ≤ M + A := by
    calc |s + p| = |(s + c * w) + (p - c * w)| := by ring_nf
      _ ≤ |s + c * w| + |p - c * w| := abs_add_le _ _
      _ ≤ M + A := by linarith
  rw [hxeq]
  calc |fl (s + p) - (s + c * w)| = |(fl (s + p) - (s + p)) + (p - c * w)| := by ring_nf
    _ ≤ |fl (s + p) - (s + p)| + |p - c * w| := abs_add_le _ _
    _ ≤ u * (M + A) + A := by
        have : u * |s + p| ≤ u * (M + A) := by gcongr
        linarith
    _ = M * cwPoly u := by rw [hA, cwPoly]; ring

/-! ## the carrier `RF2 r` -/
section rf2
variable {r : Rnd2 K}

/-- the value of edge `i` in `RF2 r`: four roundings, exact casts -/
theorem withConstWidth_edge_val2 (LEN : Nat) (s e : RF2 r) (i : Nat) (hi : i ≤ LEN) :
    ∃ v, (Hist.withConstWidth LEN s e).range[i]? = some v ∧
      v.val = r.fl (s.val + r.fl (r.fl (r.fl (e.val - s.val) / (LEN : K)) * (i : K))) :=
  ⟨_, withConstWidth_getElem? LEN s e i hi, rfl⟩

theorem withConstWidth_edge_err (LEN : Nat) (hLEN : 1 ≤ LEN) (s e : RF2 r) (i : Nat) (hi : i ≤ LEN) :
    ∃ v, (Hist.withConstWidth LEN s e).range[i]? = some v ∧
      |v.val - (s.val + (i : K) * (e.val - s.val) / (LEN : K))|
        ≤ max |s.val| |e.val| * cwPoly r.u := by
  obtain ⟨v, hv, hval⟩ := withConstWidth_edge_val2 LEN s e i hi
  refine ⟨v, hv, ?_⟩
  rw [hval]
  apply cw_edge_err_aux r.fl r.u r.u_nonneg r.err
  · exact_mod_cast hLEN
  · exact Nat.cast_nonneg _
  · exact_mod_cast hi
  · exact le_max_left _ _
  · exact le_max_right _ _

theorem fl2_zero (r : Rnd2 K) : r.fl 0 = 0 := by
  have := r.err 0
  simp only [abs_zero, mul_zero, sub_zero] at this
  exact abs_eq_zero.mp (le_antisymm this (abs_nonneg _))

/-- edge 0 is `fl(start + fl(step * 0)) = fl(start)` -/
theorem withConstWidth_first2 (LEN : Nat) (s e : RF2 r) :
    ∃ v, (Hist.withConstWidth LEN s e).range[0]? = some v ∧ v.val = r.fl s.val := by
  obtain ⟨v, hv, hval⟩ := withConstWidth_edge_val2 LEN s e 0 (Nat.zero_le _)
  refine ⟨v, hv, ?_⟩
  rw [hval, Nat.cast_zero, mul_zero, fl2_zero, add_zero]

theorem RF2.ext' {a b : RF2 r} (h : a.val = b.val) : a = b := by
  cases a; cases b; simp only at h; subst h; rfl

end rf2

/-! ## sharpness -/

/-- the rounding `t ↦ (1+u) t` on ℚ -/
def scaleRnd (u : ℚ) (hu : 0 ≤ u) : Rnd2 ℚ where
  fl t := (1 + u) * t
  u := u
  u_nonneg := hu
  err t := by
    have : (1 + u) * t - t = u * t := by ring
    rw [this, abs_mul, abs_of_nonneg hu]

/-- the polynomial bound is attained: `start = -1`, `end = 1`, `LEN = i = 1`, `fl t = (1+u) t` -/
theorem cw_edge_err_sharp (u : ℚ) (hu : 0 ≤ u) :
    ∃ v, (Hist.withConstWidth 1 (⟨-1⟩ : RF2 (scaleRnd u hu)) ⟨1⟩).range[1]? = some v ∧
      v.val - 1 = cwPoly u := by
  obtain ⟨v, hv, hval⟩ := withConstWidth_edge_val2 (r := scaleRnd u hu) 1 ⟨-1⟩ ⟨1⟩ 1 (le_refl _)
  refine ⟨v, hv, ?_⟩
  rw [hval]
  simp only [scaleRnd, cwPoly, Nat.cast_one]
  ring

/-- with `u = 1/8` the error can exceed `8 u M` -/
theorem cw_edge_not_8u_at_eighth :
    ∃ (r : Rnd2 ℚ) (s e v : RF2 r), r.u = 1 / 8 ∧
      (Hist.withConstWidth 1 s e).range[1]? = some v ∧
      8 * r.u * max |s.val| |e.val| < |v.val - (s.val + (1 : ℚ) * (e.val - s.val) / 1)| := by
  obtain ⟨v, hv, hval⟩ := cw_edge_err_sharp (1 / 8) (by norm_num)
  refine ⟨scaleRnd (1 / 8) (by norm_num), ⟨-1⟩, ⟨1⟩, v, rfl, hv, ?_⟩
  have hv1 : v.val = 1 + cwPoly (1 / 8 : ℚ) := by linarith
  have : (scaleRnd (1 / 8) (by norm_num)).u = 1 / 8 := rfl
  rw [hv1, this]
  norm_num [cwPoly]

end Avg
