import AvgProofs.RangeE
import AvgModel.Histogram
import Mathlib.Algebra.Order.BigOperators.Group.List
import Mathlib.Algebra.BigOperators.Group.List.Basic

/-!
# E carrier: list means, effective sample size, multinomial bin variance

* the arithmetic mean of a non-empty list lies between any bounds of its elements;
* `Σ w x / Σ w` likewise, for non-negative weights with positive sum;
* `1 ≤ (Σw)²/Σw² ≤ #{w > 0} ≤ n` (Cauchy-Schwarz), and `WeightedMeanWithError.effectiveLen` of every
  reachable state is that quotient;
* `0 ≤ k (1 - k/N) ≤ N/4`.
-/
open Avg MSpec

variable {K : Type} [Field K] [LinearOrder K] [IsStrictOrderedRing K]

/-! ## Plain mean -/

theorem list_sum_bounds {lo hi : K} (xs : List K) (h : ∀ x ∈ xs, lo ≤ x ∧ x ≤ hi) :
    (xs.length : K) * lo ≤ xs.sum ∧ xs.sum ≤ (xs.length : K) * hi := by
  induction xs with
  | nil => simp
  | cons x xs ih =>
    have hx := h x (List.mem_cons_self ..)
    have := ih (fun y hy => h y (List.mem_cons_of_mem _ hy))
    simp only [List.length_cons, List.sum_cons, Nat.cast_add, Nat.cast_one]
    constructor <;> linarith [this.1, this.2, hx.1, hx.2]

/-- the mean of a non-empty list lies between any lower and upper bound of its elements -/
theorem mean_mem_range {lo hi : K} (xs : List K) (hne : xs ≠ []) (h : ∀ x ∈ xs, lo ≤ x ∧ x ≤ hi) :
    lo ≤ mean xs ∧ mean xs ≤ hi := by
  have hn : (0:K) < (xs.length : K) := by exact_mod_cast List.length_pos_of_ne_nil hne
  have hb := list_sum_bounds xs h
  unfold mean
  rw [le_div_iff₀ hn, div_le_iff₀ hn]
  constructor <;> linarith [hb.1, hb.2]

/-! ## Weighted mean, closed form. Observations are pairs `(x, w)`. -/

/-- `Σ w` -/
def wSum (ps : List (K × K)) : K := (ps.map (fun p => p.2)).sum
/-- `Σ w x` -/
def wxSum (ps : List (K × K)) : K := (ps.map (fun p => p.2 * p.1)).sum

theorem wxSum_bounds {lo hi : K} (ps : List (K × K)) (h : ∀ p ∈ ps, WeightedObs lo hi p) :
    0 ≤ wSum ps ∧ wSum ps * lo ≤ wxSum ps ∧ wxSum ps ≤ wSum ps * hi := by
  induction ps with
  | nil => simp [wSum, wxSum]
  | cons p ps ih =>
    obtain ⟨h0, hr⟩ := h p (List.mem_cons_self ..)
    obtain ⟨i0, i1, i2⟩ := ih (fun q hq => h q (List.mem_cons_of_mem _ hq))
    simp only [wSum, wxSum, List.map_cons, List.sum_cons] at *
    rcases eq_or_lt_of_le h0 with hz | hp
    · rw [← hz]; simp only [zero_mul, zero_add]; exact ⟨i0, i1, i2⟩
    · have a1 := mul_nonneg h0 (sub_nonneg.mpr (hr hp).1)
      have a2 := mul_nonneg h0 (sub_nonneg.mpr (hr hp).2)
      refine ⟨add_nonneg h0 i0, ?_, ?_⟩ <;> linarith

/-- `Σ w x / Σ w` lies between any bounds of the observations that have positive weight, for
non-negative weights with positive sum -/
theorem weighted_mean_mem_range {lo hi : K} (ps : List (K × K)) (h : ∀ p ∈ ps, WeightedObs lo hi p)
    (hpos : 0 < wSum ps) : lo ≤ wxSum ps / wSum ps ∧ wxSum ps / wSum ps ≤ hi := by
  obtain ⟨_, h1, h2⟩ := wxSum_bounds ps h
  rw [le_div_iff₀ hpos, div_le_iff₀ hpos]
  constructor <;> linarith

/-! ## Effective sample size -/

/-- `Σ w²` (as the crate accumulates it: `w * w`) -/
def sqSum (ws : List K) : K := (ws.map (fun w => w * w)).sum

theorem sqSum_nonneg (ws : List K) : 0 ≤ sqSum ws :=
  List.sum_nonneg (by simp only [List.mem_map]; rintro _ ⟨w, _, rfl⟩; exact mul_self_nonneg w)

theorem sumPow_two_nonneg (xs : List K) (c : K) : 0 ≤ sumPow xs c 2 :=
  List.sum_nonneg (by simp only [List.mem_map]; rintro _ ⟨w, _, rfl⟩; exact sq_nonneg _)

/-- Cauchy-Schwarz: `(Σw)² ≤ n Σw²`, any signs -/
theorem sq_sum_le_length_mul_sqSum (ws : List K) : ws.sum * ws.sum ≤ (ws.length : K) * sqSum ws := by
  by_cases hne : ws = []
  · subst hne; simp [sqSum]
  have hn : (0:K) < (ws.length : K) := by exact_mod_cast List.length_pos_of_ne_nil hne
  have e0 : sqSum ws = sumPow ws 0 2 := by
    unfold sqSum sumPow; congr 1; apply List.map_congr_left; intro w _; ring
  have e1 := shift2 ws 0 (mean ws)
  rw [sumPow_one_mean, sumPow_zero] at e1
  have e2 : (ws.length : K) * mean ws = ws.sum := by unfold mean; field_simp
  have h2 := sumPow_two_nonneg ws (mean ws)
  rw [e0, e1]
  have : ws.sum * ws.sum = (ws.length : K) * ((mean ws - 0)^2 * (ws.length : K)) := by
    rw [← e2]; ring
  rw [this]
  apply mul_le_mul_of_nonneg_left _ hn.le
  linarith

/-- for non-negative weights `Σw² ≤ (Σw)²` -/
theorem sqSum_le_sq_sum (ws : List K) (h : ∀ w ∈ ws, 0 ≤ w) : sqSum ws ≤ ws.sum * ws.sum := by
  induction ws with
  | nil => simp [sqSum]
  | cons w ws ih =>
    have hw := h w (List.mem_cons_self ..)
    have hws : ∀ v ∈ ws, 0 ≤ v := fun v hv => h v (List.mem_cons_of_mem _ hv)
    have hS : 0 ≤ ws.sum := List.sum_nonneg hws
    have := ih hws
    simp only [sqSum, List.map_cons, List.sum_cons] at *
    nlinarith [mul_nonneg hw hS]

omit [IsStrictOrderedRing K] in
/-- dropping the zero weights changes neither sum -/
theorem filter_pos_sums (ws : List K) (h : ∀ w ∈ ws, 0 ≤ w) :
    (ws.filter (fun w => 0 < w)).sum = ws.sum ∧ sqSum (ws.filter (fun w => 0 < w)) = sqSum ws := by
  induction ws with
  | nil => simp
  | cons w ws ih =>
    have hw := h w (List.mem_cons_self ..)
    obtain ⟨i1, i2⟩ := ih (fun v hv => h v (List.mem_cons_of_mem _ hv))
    rcases eq_or_lt_of_le hw with hz | hp
    · subst hz
      simp only [sqSum] at i2 ⊢
      simp [i1, i2]
    · simp only [sqSum] at i2 ⊢
      simp [hp, i1, i2]

/-- `1 ≤ (Σw)²/Σw² ≤ #{w > 0} ≤ n` for non-negative weights with positive sum -/
theorem effective_len_bounds (ws : List K) (h : ∀ w ∈ ws, 0 ≤ w) (hpos : 0 < ws.sum) :
    1 ≤ ws.sum * ws.sum / sqSum ws
    ∧ ws.sum * ws.sum / sqSum ws ≤ ((ws.filter (fun w => 0 < w)).length : K)
    ∧ (ws.filter (fun w => 0 < w)).length ≤ ws.length := by
  have hcs := sq_sum_le_length_mul_sqSum (ws.filter (fun w => 0 < w))
  obtain ⟨f1, f2⟩ := filter_pos_sums ws h
  rw [f1, f2] at hcs
  have hsq : 0 < ws.sum * ws.sum := mul_pos hpos hpos
  have hq : 0 < sqSum ws := by
    rcases eq_or_lt_of_le (sqSum_nonneg ws) with hz | hp
    · rw [← hz, mul_zero] at hcs; exact absurd hsq (not_lt.mpr hcs)
    · exact hp
  refine ⟨?_, ?_, List.length_filter_le _ _⟩
  · rw [one_le_div hq]; exact sqSum_le_sq_sum ws h
  · rw [div_le_iff₀ hq]; exact hcs

/-! ### `WeightedMeanWithError`: the three accumulators are `n`, `Σw`, `Σw²` after any history -/

namespace Avg
section WMWE
variable [FloatOps K]

/-- the state has seen exactly the (non-negative) weights `ws` -/
def WeightedMeanWithError.SawWeights (s : WeightedMeanWithError K) (ws : List K) : Prop :=
  (∀ w ∈ ws, 0 ≤ w) ∧ s.unweighted_avg.avg.n = ws.length
  ∧ s.weighted_avg.weight_sum = ws.sum ∧ s.weight_sum_sq = sqSum ws

omit [LinearOrder K] [IsStrictOrderedRing K] in
theorem WeightedMean.add_weight_sum (s : WeightedMean K) (x w : K) :
    (s.add x w).weight_sum = s.weight_sum + w := by
  unfold WeightedMean.add
  cases h : FloatOps.eqb (s.weight_sum + w) ((0:Nat):K) <;> simp only [h, Bool.false_eq_true, if_true, if_false]

omit [IsStrictOrderedRing K] in
theorem WeightedMean.merge_weight_sum (heq : ∀ a b : K, FloatOps.eqb a b = true ↔ a = b)
    (s o : WeightedMean K) : (s.merge o).weight_sum = s.weight_sum + o.weight_sum := by
  unfold WeightedMean.merge WeightedMean.isEmpty
  by_cases h1 : o.weight_sum = 0
  · have : FloatOps.eqb o.weight_sum ((0:Nat):K) = true := (heq _ _).mpr (by simpa using h1)
    simp only [this, if_true]; rw [h1, add_zero]
  have h1' : FloatOps.eqb o.weight_sum ((0:Nat):K) = false := eqb_false_of_ne heq (by simpa using h1)
  by_cases h2 : s.weight_sum = 0
  · have : FloatOps.eqb s.weight_sum ((0:Nat):K) = true := (heq _ _).mpr (by simpa using h2)
    simp only [h1', this, Bool.false_eq_true, if_true, if_false]; rw [h2, zero_add]
  have h2' : FloatOps.eqb s.weight_sum ((0:Nat):K) = false := eqb_false_of_ne heq (by simpa using h2)
  simp only [h1', h2', Bool.false_eq_true, if_false]

omit [LinearOrder K] [IsStrictOrderedRing K] [FloatOps K] in
theorem Variance.merge_n (s o : Variance K) : (s.merge o).avg.n = s.avg.n + o.avg.n := by
  unfold Variance.merge Mean.merge
  by_cases h1 : o.avg.n = 0
  · simp only [h1, if_true, Nat.add_zero]
  by_cases h2 : s.avg.n = 0
  · simp only [h1, h2, if_true, if_false, Nat.zero_add]
  simp only [h1, h2, if_false]

omit [IsStrictOrderedRing K] in
/-- Every `WeightedMeanWithError` state reachable by any history of adds with non-negative weights
and merges has `len = n`, `weight_sum = Σw`, `weight_sum_sq = Σw²` for the list of weights it saw. -/
theorem WeightedMeanWithError.Reach.sawWeights (heq : ∀ a b : K, FloatOps.eqb a b = true ↔ a = b)
    {s : WeightedMeanWithError K} (h : WeightedMeanWithError.Reach (fun p => 0 ≤ p.2) s) :
    ∃ ws, s.SawWeights ws := by
  refine ReachBy.inv (I := fun s => ∃ ws, s.SawWeights ws) ⟨[], ?_⟩ ?_ ?_ h
  · simp [WeightedMeanWithError.SawWeights, WeightedMeanWithError.new, WeightedMean.new, Variance.new,
      Mean.new, sqSum]
  · rintro s p ⟨ws, h0, hn, hw, hq⟩ hp
    refine ⟨p.2 :: ws, ?_, ?_, ?_, ?_⟩
    · intro w hw'; rcases List.mem_cons.mp hw' with rfl | h'; exacts [hp, h0 w h']
    · show s.unweighted_avg.avg.n + 1 = (p.2 :: ws).length
      rw [hn]; rfl
    · show (s.weighted_avg.add p.1 p.2).weight_sum = (p.2 :: ws).sum
      rw [WeightedMean.add_weight_sum, hw, List.sum_cons, add_comm]
    · show s.weight_sum_sq + p.2 * p.2 = sqSum (p.2 :: ws)
      rw [hq]; simp only [sqSum, List.map_cons, List.sum_cons]; exact add_comm _ _
  · rintro s o ⟨ws, h0, hn, hw, hq⟩ ⟨vs, g0, gn, gw, gq⟩
    refine ⟨ws ++ vs, ?_, ?_, ?_, ?_⟩
    · intro w hw'; rcases List.mem_append.mp hw' with h' | h'; exacts [h0 w h', g0 w h']
    · show (s.unweighted_avg.merge o.unweighted_avg).avg.n = (ws ++ vs).length
      rw [Variance.merge_n, hn, gn, List.length_append]
    · show (s.weighted_avg.merge o.weighted_avg).weight_sum = (ws ++ vs).sum
      rw [WeightedMean.merge_weight_sum heq, hw, gw, List.sum_append]
    · show s.weight_sum_sq + o.weight_sum_sq = sqSum (ws ++ vs)
      rw [hq, gq]; simp [sqSum]

/-- hence `1 ≤ effective_len ≤ len` whenever the total weight is positive -/
theorem WeightedMeanWithError.Reach.effectiveLen_bounds (heq : ∀ a b : K, FloatOps.eqb a b = true ↔ a = b)
    {s : WeightedMeanWithError K} (h : WeightedMeanWithError.Reach (fun p => 0 ≤ p.2) s)
    (hpos : 0 < s.sumWeights) : 1 ≤ s.effectiveLen ∧ s.effectiveLen ≤ (s.len : K) := by
  obtain ⟨ws, h0, hn, hw, hq⟩ := WeightedMeanWithError.Reach.sawWeights heq h
  have hpos' : 0 < ws.sum := by rw [← hw]; exact hpos
  have hne : ws ≠ [] := by rintro rfl; simp at hpos'
  have hlen : 0 < ws.length := List.length_pos_of_ne_nil hne
  have hemp : s.isEmpty = false := by
    simp only [WeightedMeanWithError.isEmpty, Variance.isEmpty, Mean.isEmpty, hn]
    simpa using hne
  obtain ⟨b1, b2, b3⟩ := effective_len_bounds ws h0 hpos'
  have e : s.effectiveLen = ws.sum * ws.sum / sqSum ws := by
    simp only [WeightedMeanWithError.effectiveLen, hemp, Bool.false_eq_true, if_false,
      WeightedMean.sumWeights, hw, hq]
  have e2 : (s.len : K) = (ws.length : K) := by
    simp only [WeightedMeanWithError.len, Variance.len, hn]
  rw [e, e2]
  exact ⟨b1, b2.trans (by exact_mod_cast b3)⟩
end WMWE
end Avg

/-! ## Histogram bin variance -/

/-- `0 ≤ k(1 - k/N) ≤ N/4` for counts `0 ≤ k ≤ N`, `N > 0` -/
theorem multinomialVariance_range (k N : Nat) (hN : 0 < N) (hk : k ≤ N) :
    0 ≤ multinomialVariance ((k : Nat) : K) (((1:Nat):K) / ((N : Nat) : K))
    ∧ multinomialVariance ((k : Nat) : K) (((1:Nat):K) / ((N : Nat) : K)) ≤ (N : K) / 4 := by
  have hN' : (0:K) < (N : K) := by exact_mod_cast hN
  have hk0 : (0:K) ≤ (k : K) := Nat.cast_nonneg k
  have hk' : (k : K) ≤ (N : K) := by exact_mod_cast hk
  have e : multinomialVariance ((k : Nat) : K) (((1:Nat):K) / ((N : Nat) : K))
      = (k : K) * ((N : K) - (k : K)) / (N : K) := by
    simp only [multinomialVariance, Nat.cast_one]; field_simp
  rw [e]
  constructor
  · exact div_nonneg (mul_nonneg hk0 (sub_nonneg.mpr hk')) hN'.le
  · rw [div_le_iff₀ hN']
    nlinarith [sq_nonneg ((N : K) - 2 * (k : K))]

theorem getD_le_foldl_add (l : List Nat) (i init : Nat) : l.getD i 0 + init ≤ l.foldl (· + ·) init := by
  induction l generalizing i init with
  | nil => simp
  | cons a l ih =>
    cases i with
    | zero =>
      have := ih (l.length) (init + a)
      simp only [List.foldl_cons, List.getD_cons_zero]
      have h0 : l.getD l.length 0 = 0 := by simp
      omega
    | succ i =>
      have := ih i (init + a)
      simp only [List.foldl_cons, List.getD_cons_succ]
      omega

namespace Avg
/-- every bin variance of a non-empty histogram lies in `[0, total/4]` -/
theorem Hist.variance_range (h : Hist K) (i : Nat) (hi : i < h.bin.length) (ht : 0 < h.total) :
    ∃ v, h.variance i = .val v ∧ 0 ≤ v ∧ v ≤ (h.total : K) / 4 := by
  have hk : h.bin.getD i 0 ≤ h.total := by
    have := getD_le_foldl_add h.bin i 0; simpa [Hist.total] using this
  refine ⟨multinomialVariance ((h.bin.getD i 0 : Nat) : K) (((1:Nat):K) / ((h.total : Nat) : K)), ?_, ?_⟩
  · simp only [Hist.variance, hi, if_true]
  · exact multinomialVariance_range _ _ ht hk

/-- the same for the whole vector returned by `variances()` -/
theorem Hist.variances_range [FloatOps K] (h : Hist K) (ht : 0 < h.total) :
    ∀ v ∈ h.variances, 0 ≤ v ∧ v ≤ (h.total : K) / 4 := by
  intro v hv
  simp only [Hist.variances, Hist.iter, List.map_map, List.mem_map, List.mem_range] at hv
  obtain ⟨i, _, rfl⟩ := hv
  have hk : h.bin.getD i 0 ≤ h.total := by
    have := getD_le_foldl_add h.bin i 0; simpa [Hist.total] using this
  exact multinomialVariance_range _ _ ht hk
end Avg
