import AvgProofs.CovErrProj
import AvgProofs.MomentsTree

/-!
# The `(avg_x, n, sum_x_2)` and `(avg_y, n, sum_y_2)` parts of `Covariance` through `merge` and through
# every merge tree are `Variance` states (any carrier, no arithmetic: all by unfolding)

`Covariance.merge` computes

* `avg_x = (len_self * s.avg_x + len_other * o.avg_x) / len_total` - the text of `Mean.merge`,
* `sum_x_2 = s.sum_x_2 + (o.sum_x_2 + delta_x*delta_x * len_self * len_other / len_total)` with
  `delta_x = o.avg_x - s.avg_x`, `len_total = len_self + len_other` - the text of `Variance.merge`
  (same association: `((((δ·δ)·n_s)·n_o)/n)`, inner sum first, then the outer sum),
* the same early returns (`o.n = 0 ⟹ s`, `s.n = 0 ⟹ o`) and the count `s.n + o.n`.

No operation order differs. Hence (`Covariance.merge_varXState`) the `x` part of a merged state is the
`Variance.merge` of the `x` parts, and (`Covariance.mtree_varXState`) after EVERY merge tree over pairs
the triple `(avg_x, n, sum_x_2)` is bit for bit what `Variance` computes through the same tree (same
shape, same chunks) over the first components; likewise `y`.
-/
namespace Avg
variable {α : Type} [Add α] [Sub α] [Mul α] [Div α] [NatCast α]

/-- the early return of `Covariance.merge` for an empty right operand (no `FloatOps` needed) -/
theorem Covariance.merge_empty' (a o : Covariance α) (h : o.n = 0) : a.merge o = a := by
  unfold Covariance.merge; rw [if_pos h]
/-- the early return of `Covariance.merge` for an empty left operand -/
theorem Covariance.empty_merge' (s a : Covariance α) (hs : s.n = 0) (h : a.n ≠ 0) : s.merge a = a := by
  unfold Covariance.merge; rw [if_neg h, if_pos hs]

/-- the count of a merged state (all three branches) -/
theorem Covariance.merge_n (s o : Covariance α) : (s.merge o).n = s.n + o.n := by
  unfold Covariance.merge
  by_cases h1 : o.n = 0
  · rw [if_pos h1, h1]; rfl
  · by_cases h2 : s.n = 0
    · rw [if_neg h1, if_pos h2, h2, Nat.zero_add]
    · rw [if_neg h1, if_neg h2]

/-- **One `merge`, bit for bit**: the `x` part of `s.merge o` is `Variance.merge` of the `x` parts. -/
theorem Covariance.merge_varXState (s o : Covariance α) :
    (s.merge o).varXState = s.varXState.merge o.varXState := by
  unfold Covariance.merge Variance.merge Mean.merge Covariance.varXState
  by_cases h1 : o.n = 0
  · simp only [h1, if_true]
  · by_cases h2 : s.n = 0
    · simp only [h1, h2, if_true, if_false]
    · simp only [h1, h2, if_false]

/-- likewise the `y` part -/
theorem Covariance.merge_varYState (s o : Covariance α) :
    (s.merge o).varYState = s.varYState.merge o.varYState := by
  unfold Covariance.merge Variance.merge Mean.merge Covariance.varYState
  by_cases h1 : o.n = 0
  · simp only [h1, if_true]
  · by_cases h2 : s.n = 0
    · simp only [h1, h2, if_true, if_false]
    · simp only [h1, h2, if_false]

/-- **Every merge tree, bit for bit**: the fields `(avg_x, n, sum_x_2)` of `Covariance` after any merge
tree over pairs are the fields `(avg, n, sum_2)` of `Variance` after the same tree over the first
components. -/
theorem Covariance.mtree_varXState (t : MTree (α × α)) :
    (Covariance.evalTree t).varXState = Variance.evalTree (t.map Prod.fst) := by
  induction t with
  | leaf ps => simp only [MTree.eval_leaf, MTree.map_leaf, Covariance.fold_varXState]; rfl
  | node l r ihl ihr =>
    simp only [MTree.eval_node, MTree.map_node, Covariance.merge_varXState] at *; rw [ihl, ihr]

/-- likewise `(avg_y, n, sum_y_2)` and the second components -/
theorem Covariance.mtree_varYState (t : MTree (α × α)) :
    (Covariance.evalTree t).varYState = Variance.evalTree (t.map Prod.snd) := by
  induction t with
  | leaf ps => simp only [MTree.eval_leaf, MTree.map_leaf, Covariance.fold_varYState]; rfl
  | node l r ihl ihr =>
    simp only [MTree.eval_node, MTree.map_node, Covariance.merge_varYState] at *; rw [ihl, ihr]

theorem Covariance.mtree_sum_x_2 (t : MTree (α × α)) :
    (Covariance.evalTree t).sum_x_2 = (Variance.evalTree (t.map Prod.fst)).sum_2 :=
  congrArg Variance.sum_2 (Covariance.mtree_varXState t)
theorem Covariance.mtree_sum_y_2 (t : MTree (α × α)) :
    (Covariance.evalTree t).sum_y_2 = (Variance.evalTree (t.map Prod.snd)).sum_2 :=
  congrArg Variance.sum_2 (Covariance.mtree_varYState t)
theorem Covariance.mtree_avg_x (t : MTree (α × α)) :
    (Covariance.evalTree t).avg_x = (Variance.evalTree (t.map Prod.fst)).avg.avg :=
  congrArg (fun v => v.avg.avg) (Covariance.mtree_varXState t)
theorem Covariance.mtree_avg_y (t : MTree (α × α)) :
    (Covariance.evalTree t).avg_y = (Variance.evalTree (t.map Prod.snd)).avg.avg :=
  congrArg (fun v => v.avg.avg) (Covariance.mtree_varYState t)
theorem Covariance.mtree_n_x (t : MTree (α × α)) :
    (Covariance.evalTree t).n = (Variance.evalTree (t.map Prod.fst)).avg.n :=
  congrArg (fun v => v.avg.n) (Covariance.mtree_varXState t)

/-- any carrier: the count kept by `Covariance` through any merge tree is the number of pairs -/
theorem Covariance.mtree_n (t : MTree (α × α)) : (Covariance.evalTree t).n = t.flatten.length := by
  induction t with
  | leaf ps => exact Covariance.fold_n_new ps
  | node l r ihl ihr =>
    show (Covariance.merge (Covariance.evalTree l) (Covariance.evalTree r)).n = _
    rw [Covariance.merge_n, MTree.flatten_node, List.length_append, ihl, ihr]

/-- a merge tree without data evaluates to the empty `Covariance` -/
theorem Covariance.mtree_eval_empty (t : MTree (α × α)) (h : t.flatten = []) :
    Covariance.evalTree t = Covariance.new := by
  induction t with
  | leaf xs => rw [MTree.flatten_leaf] at h; subst h; rfl
  | node l r ihl ihr =>
    rw [MTree.flatten_node, List.append_eq_nil_iff] at h
    show Covariance.merge (Covariance.evalTree l) (Covariance.evalTree r) = _
    rw [ihl h.1, ihr h.2]
    exact Covariance.merge_empty' _ _ rfl

end Avg
