import AvgProofs.SqrtErr
import AvgProofs.SkewErrEnv

/-!
# The accessor `Skewness.skewness` under the standard model of rounding with a rounded square root

For a non-empty state `skewness()` returns `0` when `sum_3 == 0` and otherwise

`fl( fl(sqrtfl(n)·sum_3) / sqrtfl( fl(fl(sum_2·sum_2)·sum_2) ) )`   (`skewness_val`).

The exact value is `g = √n·U/(T·√T)` (`= m₃/σ³`, `m₃ = U/n`, `σ = √(T/n)`: `skew_exact_eq`).

* `ra_mul`, `ra_round` - products and roundings of approximations with arbitrary relative errors;
* `cube_round_error` - `|fl(fl(S·S)·S) - T³| ≤ ((1+ε₂)³(1+u)² - 1)·T³` when `|S - T| ≤ ε₂·T`;
* `num_round_error` - the numerator `fl(sqrtfl(c)·S3)` against `√c·U`, errors relative to `V ≥ |U|`;
* `quot_round_error` - a rounded quotient of perturbed numerator and denominator;
* `skew_core` - real numbers only: with `|S - T| ≤ ε₂·T`, `|S3 - U| ≤ ε₃·V`, `|U| ≤ V`,
  `z = (1+ε₂)³(1+u)³ - 1 < 1`, both branches of the accessor are within
  `(√c·V/√(T³))·((1+ε₃)(1+u)³ - 1 + z)/(1 - z)` of `√c·U/√(T³)`;
* `skew_factor_le` - numerals: `ε₂ ≤ 1/32`, `u ≤ 1/1856` ⟹ the factor is `≤ (10/9)·(1.003·ε₃ + 3.2·ε₂ + 6.5·u)`;
* `skewness_error_gen` - the accessor on a `Skewness (RF2 r)` state;
* `abs_U_le_V3`, `skew_exact_eq` - `|U| ≤ V3`; `√n·X/√(T³) = (X/n)/σ³` for `σ = √(T/n)`;
* `sum2_rel` - `|sum_2 - T| ≤ 8·n·u·T + 8·n²·u·M·σ` (`= 8·n·κ·u·T`) for add-only streams (`n·u·M ≤ σ`).
The envelope for add-only streams is assembled in `Props/C03d.lean`.
-/
open Avg MSpec VarSpec SkewSpec SkewErr
set_option linter.unusedSectionVars false

namespace SkewAcc

/-! ## relative approximations with arbitrary error levels -/

/-- product of two approximations: relative errors `α`, `β` give `(1+α)(1+β) - 1` -/
theorem ra_mul {a' a b' b α β : ℝ} (hα : 0 ≤ α)
    (ha : |a' - a| ≤ α * |a|) (hb : |b' - b| ≤ β * |b|) :
    |a' * b' - a * b| ≤ ((1 + α) * (1 + β) - 1) * |a * b| := by
  have e : a' * b' - a * b = a * (b' - b) + (a' - a) * b + (a' - a) * (b' - b) := by ring
  rw [e, abs_mul a b]
  have h1 : |a * (b' - b)| ≤ |a| * (β * |b|) := by rw [abs_mul]; gcongr
  have h2 : |(a' - a) * b| ≤ (α * |a|) * |b| := by rw [abs_mul]; gcongr
  have h3 : |(a' - a) * (b' - b)| ≤ (α * |a|) * (β * |b|) := by rw [abs_mul]; gcongr
  calc |a * (b' - b) + (a' - a) * b + (a' - a) * (b' - b)|
      ≤ |a * (b' - b)| + |(a' - a) * b| + |(a' - a) * (b' - b)| := by
        refine le_trans (abs_add_le _ _) ?_
        gcongr
        exact abs_add_le _ _
    _ ≤ |a| * (β * |b|) + (α * |a|) * |b| + (α * |a|) * (β * |b|) := by linarith
    _ = ((1 + α) * (1 + β) - 1) * (|a| * |b|) := by ring

/-- one rounding of an approximation: relative error `α` becomes `(1+α)(1+u) - 1` -/
theorem ra_round (r : Rnd2 ℝ) {x y α : ℝ} (h : |x - y| ≤ α * |y|) :
    |r.fl x - y| ≤ ((1 + α) * (1 + r.u) - 1) * |y| := by
  have hu := r.u_nonneg
  have hx : |x| ≤ (1 + α) * |y| := by
    have : x = y + (x - y) := by ring
    rw [this]
    calc |y + (x - y)| ≤ |y| + |x - y| := abs_add_le _ _
      _ ≤ |y| + α * |y| := by linarith
      _ = (1 + α) * |y| := by ring
  have e : r.fl x - y = (r.fl x - x) + (x - y) := by ring
  rw [e]
  calc |(r.fl x - x) + (x - y)| ≤ |r.fl x - x| + |x - y| := abs_add_le _ _
    _ ≤ r.u * |x| + α * |y| := add_le_add (r.err x) h
    _ ≤ r.u * ((1 + α) * |y|) + α * |y| := by gcongr
    _ = ((1 + α) * (1 + r.u) - 1) * |y| := by ring

/-- the rounded cube `fl(fl(S·S)·S)` of an approximation `S` of `T > 0` with relative error `ε₂` -/
theorem cube_round_error (r : Rnd2 ℝ) (S T ε₂ : ℝ) (hT : 0 < T) (hε : 0 ≤ ε₂)
    (hS : |S - T| ≤ ε₂ * T) :
    |r.fl (r.fl (S * S) * S) - T * T * T| ≤ ((1 + ε₂)^3 * (1 + r.u)^2 - 1) * (T * T * T) := by
  have hu := r.u_nonneg
  have hS' : |S - T| ≤ ε₂ * |T| := by rwa [abs_of_pos hT]
  have h1 := ra_mul hε hS' hS'
  have h2 := ra_round r h1
  have hα : 0 ≤ (1 + ((1 + ε₂) * (1 + ε₂) - 1)) * (1 + r.u) - 1 := by nlinarith [mul_nonneg hε hε, mul_nonneg hε hu]
  have h3 := ra_mul hα h2 hS'
  have h4 := ra_round r h3
  have hpos : 0 < T * T * T := by positivity
  rw [abs_of_pos hpos] at h4
  refine le_trans h4 (le_of_eq ?_)
  ring

/-- the numerator: `fl(sq·S3)` with `|sq - √c| ≤ u·√c`, `|S3 - U| ≤ ε₃·V`, `|U| ≤ V`; errors relative to
`√c·V` -/
theorem num_round_error (r : Rnd2 ℝ) (sq rc U V S3 ε₃ : ℝ) (hrc : 0 ≤ rc)
    (hsq : |sq - rc| ≤ r.u * rc) (hUV : |U| ≤ V) (hS3 : |S3 - U| ≤ ε₃ * V) :
    |r.fl (sq * S3) - rc * U| ≤ ((1 + ε₃) * (1 + r.u)^2 - 1) * (rc * V)
      ∧ |r.fl (sq * S3)| ≤ (1 + ε₃) * (1 + r.u)^2 * (rc * V) := by
  have hu := r.u_nonneg
  have hV : 0 ≤ V := le_trans (abs_nonneg _) hUV
  have hS3b : |S3| ≤ (1 + ε₃) * V := by
    have : S3 = U + (S3 - U) := by ring
    rw [this]
    calc |U + (S3 - U)| ≤ |U| + |S3 - U| := abs_add_le _ _
      _ ≤ V + ε₃ * V := add_le_add hUV hS3
      _ = (1 + ε₃) * V := by ring
  have hp : |sq * S3 - rc * U| ≤ ((1 + ε₃) * (1 + r.u) - 1) * (rc * V) := by
    have e : sq * S3 - rc * U = rc * (S3 - U) + (sq - rc) * S3 := by ring
    rw [e]
    calc |rc * (S3 - U) + (sq - rc) * S3| ≤ |rc * (S3 - U)| + |(sq - rc) * S3| := abs_add_le _ _
      _ ≤ rc * (ε₃ * V) + (r.u * rc) * ((1 + ε₃) * V) := by
          rw [abs_mul, abs_mul, abs_of_nonneg hrc]
          gcongr
      _ = ((1 + ε₃) * (1 + r.u) - 1) * (rc * V) := by ring
  have hpb : |sq * S3| ≤ (1 + ε₃) * (1 + r.u) * (rc * V) := by
    have hsqb : |sq| ≤ (1 + r.u) * rc := by
      have : sq = rc + (sq - rc) := by ring
      rw [this]
      calc |rc + (sq - rc)| ≤ |rc| + |sq - rc| := abs_add_le _ _
        _ ≤ rc + r.u * rc := by rw [abs_of_nonneg hrc]; linarith
        _ = (1 + r.u) * rc := by ring
    rw [abs_mul]
    calc |sq| * |S3| ≤ ((1 + r.u) * rc) * ((1 + ε₃) * V) := by gcongr
      _ = (1 + ε₃) * (1 + r.u) * (rc * V) := by ring
  have hfl := r.err (sq * S3)
  have hflb : |r.fl (sq * S3) - sq * S3| ≤ r.u * ((1 + ε₃) * (1 + r.u) * (rc * V)) :=
    le_trans hfl (by gcongr)
  constructor
  · have e : r.fl (sq * S3) - rc * U = (r.fl (sq * S3) - sq * S3) + (sq * S3 - rc * U) := by ring
    rw [e]
    calc _ ≤ |r.fl (sq * S3) - sq * S3| + |sq * S3 - rc * U| := abs_add_le _ _
      _ ≤ r.u * ((1 + ε₃) * (1 + r.u) * (rc * V)) + ((1 + ε₃) * (1 + r.u) - 1) * (rc * V) :=
          add_le_add hflb hp
      _ = ((1 + ε₃) * (1 + r.u)^2 - 1) * (rc * V) := by ring
  · have e : r.fl (sq * S3) = (r.fl (sq * S3) - sq * S3) + sq * S3 := by ring
    rw [e]
    calc _ ≤ |r.fl (sq * S3) - sq * S3| + |sq * S3| := abs_add_le _ _
      _ ≤ r.u * ((1 + ε₃) * (1 + r.u) * (rc * V)) + (1 + ε₃) * (1 + r.u) * (rc * V) :=
          add_le_add hflb hpb
      _ = (1 + ε₃) * (1 + r.u)^2 * (rc * V) := by ring

/-- **A rounded quotient of a perturbed numerator and a perturbed denominator.** `|N₀| ≤ B`,
`|N' - N₀| ≤ a·B`, `|N'| ≤ (1+a)·B`, `|D' - D₀| ≤ z·D₀`, `D₀ > 0`, `z < 1`:
`|fl(N'/D') - N₀/D₀| ≤ (B/D₀)·((1+a)(1+u) - 1 + z)/(1 - z)`. -/
theorem quot_round_error (r : Rnd2 ℝ) (N' N₀ D' D₀ B a z : ℝ) (hD₀ : 0 < D₀)
    (hz1 : z < 1) (hN₀ : |N₀| ≤ B) (hN : |N' - N₀| ≤ a * B) (hN' : |N'| ≤ (1 + a) * B)
    (hD : |D' - D₀| ≤ z * D₀) :
    |r.fl (N' / D') - N₀ / D₀| ≤ B / D₀ * (((1 + a) * (1 + r.u) - 1 + z) / (1 - z)) := by
  have hu := r.u_nonneg
  have hB : 0 ≤ B := le_trans (abs_nonneg _) hN₀
  have h1z : 0 < 1 - z := by linarith
  have hlb : (1 - z) * D₀ ≤ D' := by
    have := (abs_le.mp hD).1; linarith
  have hlbpos : 0 < (1 - z) * D₀ := mul_pos h1z hD₀
  have hD'pos : 0 < D' := lt_of_lt_of_le hlbpos hlb
  -- everything over D'
  have e : r.fl (N' / D') - N₀ / D₀
      = ((r.fl (N' / D') - N' / D') * D' + (N' - N₀) + N₀ * ((D₀ - D') / D₀)) / D' := by
    field_simp
    ring
  have h1 : |(r.fl (N' / D') - N' / D') * D'| ≤ r.u * ((1 + a) * B) := by
    rw [abs_mul, abs_of_pos hD'pos]
    have := r.err (N' / D')
    rw [abs_div, abs_of_pos hD'pos] at this
    calc |r.fl (N' / D') - N' / D'| * D' ≤ (r.u * (|N'| / D')) * D' := by gcongr
      _ = r.u * |N'| := by field_simp
      _ ≤ r.u * ((1 + a) * B) := by gcongr
  have h3 : |N₀ * ((D₀ - D') / D₀)| ≤ B * z := by
    rw [abs_mul, abs_div, abs_of_pos hD₀, abs_sub_comm]
    have : |D' - D₀| / D₀ ≤ z := by rw [div_le_iff₀ hD₀]; exact hD
    gcongr
  have hnum : |(r.fl (N' / D') - N' / D') * D' + (N' - N₀) + N₀ * ((D₀ - D') / D₀)|
      ≤ B * ((1 + a) * (1 + r.u) - 1 + z) := by
    calc _ ≤ |(r.fl (N' / D') - N' / D') * D'| + |N' - N₀| + |N₀ * ((D₀ - D') / D₀)| := by
          refine le_trans (abs_add_le _ _) ?_
          gcongr
          exact abs_add_le _ _
      _ ≤ r.u * ((1 + a) * B) + a * B + B * z := by linarith
      _ = B * ((1 + a) * (1 + r.u) - 1 + z) := by ring
  have hc0 : 0 ≤ B * ((1 + a) * (1 + r.u) - 1 + z) := le_trans (abs_nonneg _) hnum
  rw [e, abs_div, abs_of_pos hD'pos]
  calc _ ≤ B * ((1 + a) * (1 + r.u) - 1 + z) / D' := by gcongr
    _ ≤ B * ((1 + a) * (1 + r.u) - 1 + z) / ((1 - z) * D₀) := by gcongr
    _ = B / D₀ * (((1 + a) * (1 + r.u) - 1 + z) / (1 - z)) := by field_simp

/-! ## the accessor on real numbers -/

/-- **Both branches of `skewness()`, real numbers only.** `c ≥ 0` (the count), `T > 0`, `|U| ≤ V`; the stored
`S`, `S3` with `|S - T| ≤ ε₂·T`, `|S3 - U| ≤ ε₃·V`; `z = (1+ε₂)³(1+u)³ - 1 < 1`. Then the value returned -
`0` if `S3 = 0`, else `fl(fl(sqrtfl(c)·S3)/sqrtfl(fl(fl(S·S)·S)))` - is within
`(√c·V/√(T³))·((1+ε₃)(1+u)³ - 1 + z)/(1 - z)` of `√c·U/√(T³)`. -/
theorem skew_core (r : Rnd2 ℝ) (q : RndSqrt r) (c T U V S S3 ε₂ ε₃ : ℝ) (hc : 0 ≤ c) (hT : 0 < T)
    (hUV : |U| ≤ V) (hε₂ : 0 ≤ ε₂) (hε₃ : 0 ≤ ε₃) (hS : |S - T| ≤ ε₂ * T)
    (hS3 : |S3 - U| ≤ ε₃ * V) (hz : (1 + ε₂)^3 * (1 + r.u)^3 - 1 < 1) :
    |(if S3 = 0 then 0
        else r.fl (r.fl (q.sqrtfl c * S3) / q.sqrtfl (r.fl (r.fl (S * S) * S))))
        - Real.sqrt c * U / Real.sqrt (T * T * T)|
      ≤ Real.sqrt c * V / Real.sqrt (T * T * T)
          * (((1 + ε₃) * (1 + r.u)^3 - 1 + ((1 + ε₂)^3 * (1 + r.u)^3 - 1))
              / (1 - ((1 + ε₂)^3 * (1 + r.u)^3 - 1))) := by
  have hu := r.u_nonneg
  have hV : 0 ≤ V := le_trans (abs_nonneg _) hUV
  set z := (1 + ε₂)^3 * (1 + r.u)^3 - 1 with hzdef
  have hz0 : 0 ≤ z := by
    have h1 : (1:ℝ) ≤ (1 + ε₂)^3 := one_le_pow₀ (by linarith)
    have h2 : (1:ℝ) ≤ (1 + r.u)^3 := one_le_pow₀ (by linarith)
    have := mul_le_mul h1 h2 (by norm_num) (by positivity)
    rw [hzdef]; linarith
  have h1z : 0 < 1 - z := by linarith
  have hpos3 : 0 < T * T * T := by positivity
  set D₀ := Real.sqrt (T * T * T) with hD₀
  have hD₀pos : 0 < D₀ := Real.sqrt_pos.mpr hpos3
  set rc := Real.sqrt c with hrc
  have hrc0 : 0 ≤ rc := Real.sqrt_nonneg c
  have hBD : 0 ≤ rc * V / D₀ := by positivity
  have hfac : ε₃ ≤ ((1 + ε₃) * (1 + r.u)^3 - 1 + z) / (1 - z) := by
    rw [le_div_iff₀ h1z]
    have h2 : (1:ℝ) ≤ (1 + r.u)^3 := one_le_pow₀ (by linarith)
    have : ε₃ ≤ (1 + ε₃) * (1 + r.u)^3 - 1 := by nlinarith
    nlinarith
  split_ifs with h0
  · -- the shortcut: `sum_3 == 0` returns `0`
    have hU : |U| ≤ ε₃ * V := by
      rw [h0, zero_sub, abs_neg] at hS3; exact hS3
    rw [zero_sub, abs_neg, abs_div, abs_mul, abs_of_nonneg hrc0, abs_of_pos hD₀pos]
    calc rc * |U| / D₀ ≤ rc * (ε₃ * V) / D₀ := by gcongr
      _ = rc * V / D₀ * ε₃ := by ring
      _ ≤ rc * V / D₀ * (((1 + ε₃) * (1 + r.u)^3 - 1 + z) / (1 - z)) := by gcongr
  · -- smallness consequences
    have hε1 : ε₂ ≤ 1 := by
      by_contra hcon
      rw [not_le] at hcon
      have h1 : (8:ℝ) ≤ (1 + ε₂)^3 := by nlinarith [sq_nonneg ε₂]
      have h2 : (1:ℝ) ≤ (1 + r.u)^3 := one_le_pow₀ (by linarith)
      have : (8:ℝ) ≤ (1 + ε₂)^3 * (1 + r.u)^3 := by nlinarith
      rw [hzdef] at hz; linarith
    have hu1 : r.u ≤ 1 := by
      by_contra hcon
      rw [not_le] at hcon
      have h1 : (8:ℝ) ≤ (1 + r.u)^3 := by nlinarith [sq_nonneg r.u]
      have h2 : (1:ℝ) ≤ (1 + ε₂)^3 := one_le_pow₀ (by linarith)
      have : (8:ℝ) ≤ (1 + ε₂)^3 * (1 + r.u)^3 := by nlinarith
      rw [hzdef] at hz; linarith
    have hS0 : 0 ≤ S := by
      have := (abs_le.mp hS).1
      nlinarith
    -- the denominator
    have ha0 : 0 ≤ r.fl (r.fl (S * S) * S) :=
      fl_nonneg r hu1 (mul_nonneg (fl_nonneg r hu1 (mul_self_nonneg S)) hS0)
    have hcube := cube_round_error r S T ε₂ hT hε₂ hS
    have hD := sqrtfl_error_rel q _ _ _ ha0 hpos3 hcube
    have hzz : (1 + r.u) * ((1 + ε₂)^3 * (1 + r.u)^2 - 1) + r.u = z := by rw [hzdef]; ring
    rw [hzz] at hD
    -- the numerator
    have hsq : |q.sqrtfl c - rc| ≤ r.u * rc := q.err c hc
    obtain ⟨hN, hN'⟩ := num_round_error r (q.sqrtfl c) rc U V S3 ε₃ hrc0 hsq hUV hS3
    set a := (1 + ε₃) * (1 + r.u)^2 - 1 with hadef
    have hN'' : |r.fl (q.sqrtfl c * S3)| ≤ (1 + a) * (rc * V) := by
      rw [hadef]; refine le_trans hN' (le_of_eq ?_); ring
    have hN₀ : |rc * U| ≤ rc * V := by
      rw [abs_mul, abs_of_nonneg hrc0]; gcongr
    have hq := quot_round_error r _ (rc * U) _ D₀ (rc * V) a z hD₀pos hz hN₀ hN hN'' hD
    refine le_trans hq (le_of_eq ?_)
    rw [hadef]
    ring

/-- numerals for `skew_core`: `ε₂ ≤ 1/32`, `u ≤ 1/1856` give the factor
`≤ (10/9)·((1003/1000)·ε₃ + (16/5)·ε₂ + (13/2)·u)` -/
theorem skew_factor_le (u ε₂ ε₃ : ℝ) (hu : 0 ≤ u) (hu' : u ≤ 1/1856) (hε₂ : 0 ≤ ε₂)
    (hε₂' : ε₂ ≤ 1/32) (hε₃ : 0 ≤ ε₃) :
    (1 + ε₂)^3 * (1 + u)^3 - 1 < 1 ∧
    ((1 + ε₃) * (1 + u)^3 - 1 + ((1 + ε₂)^3 * (1 + u)^3 - 1)) / (1 - ((1 + ε₂)^3 * (1 + u)^3 - 1))
      ≤ 10/9 * (1003/1000 * ε₃ + 16/5 * ε₂ + 13/2 * u) := by
  have hu3 : (1 + u)^3 ≤ 1 + 3002/1000 * u := by nlinarith [mul_nonneg hu hu, mul_nonneg (mul_nonneg hu hu) hu]
  have hu3' : (1 + u)^3 ≤ 1 + 2/1000 := by nlinarith
  have he3 : (1 + ε₂)^3 ≤ 1 + 31/10 * ε₂ := by
    nlinarith [mul_nonneg hε₂ hε₂, mul_nonneg (mul_nonneg hε₂ hε₂) hε₂]
  have h13 : (1:ℝ) ≤ (1 + u)^3 := one_le_pow₀ (by linarith)
  have h1e : (1:ℝ) ≤ (1 + ε₂)^3 := one_le_pow₀ (by linarith)
  have hz : (1 + ε₂)^3 * (1 + u)^3 - 1 ≤ 311/100 * ε₂ + 301/100 * u := by
    have : (1 + ε₂)^3 * (1 + u)^3 ≤ (1 + 31/10 * ε₂) * (1 + 3002/1000 * u) := by gcongr
    nlinarith [mul_nonneg hε₂ hu]
  have hz' : (1 + ε₂)^3 * (1 + u)^3 - 1 ≤ 1/10 := by linarith
  refine ⟨by linarith, ?_⟩
  have h1z : 0 < 1 - ((1 + ε₂)^3 * (1 + u)^3 - 1) := by linarith
  rw [div_le_iff₀ h1z]
  have hA : (1 + ε₃) * (1 + u)^3 - 1 ≤ 1002/1000 * ε₃ + 3002/1000 * u := by
    nlinarith [mul_nonneg hε₃ hu]
  have hR0 : 0 ≤ 1003/1000 * ε₃ + 16/5 * ε₂ + 13/2 * u := by positivity
  have : 9/10 ≤ 1 - ((1 + ε₂)^3 * (1 + u)^3 - 1) := by linarith
  calc (1 + ε₃) * (1 + u)^3 - 1 + ((1 + ε₂)^3 * (1 + u)^3 - 1)
      ≤ 1003/1000 * ε₃ + 16/5 * ε₂ + 13/2 * u := by linarith
    _ = 10/9 * (1003/1000 * ε₃ + 16/5 * ε₂ + 13/2 * u) * (9/10) := by ring
    _ ≤ 10/9 * (1003/1000 * ε₃ + 16/5 * ε₂ + 13/2 * u)
          * (1 - ((1 + ε₂)^3 * (1 + u)^3 - 1)) := by gcongr

/-! ## the accessor on a state -/

section state
variable {r : Rnd2 ℝ} [FloatOps (RF2 r)]

/-- **What `skewness()` computes at `RF2 r`** for a non-empty state, when the instance takes square roots
with `q.sqrtfl` and `==` compares values: `0` if `sum_3 = 0`, else
`fl(fl(sqrtfl(n)·sum_3)/sqrtfl(fl(fl(sum_2·sum_2)·sum_2)))`. -/
theorem skewness_val (q : RndSqrt r) (hs : SqrtIs q) (heq : ValEqb r) (s : Skewness (RF2 r))
    (hn : s.avg.avg.n ≠ 0) :
    s.skewness.val =
      if s.sum_3.val = 0 then 0
      else r.fl (r.fl (q.sqrtfl (s.avg.avg.n : ℝ) * s.sum_3.val)
            / q.sqrtfl (r.fl (r.fl (s.avg.sum_2.val * s.avg.sum_2.val) * s.avg.sum_2.val))) := by
  have h0 : ((0:Nat) : RF2 r).val = 0 := (Nat.cast_zero : ((0 : ℕ) : ℝ) = 0)
  unfold Skewness.skewness
  rw [if_neg hn]
  by_cases h : s.sum_3.val = 0
  · have : FloatOps.eqb s.sum_3 ((0:Nat) : RF2 r) = true := (heq _ _).mpr (by rw [h, h0])
    rw [if_pos this, if_pos h, h0]
  · have : ¬ FloatOps.eqb s.sum_3 ((0:Nat) : RF2 r) = true := by
      intro hc; exact h (by rw [(heq _ _).mp hc, h0])
    rw [if_neg this, if_neg h]
    show r.fl (r.fl ((FloatOps.sqrt ((s.avg.avg.n : ℕ) : RF2 r)).val * s.sum_3.val)
        / (FloatOps.sqrt (s.avg.sum_2 * s.avg.sum_2 * s.avg.sum_2)).val) = _
    rw [hs, hs]
    rfl

/-- **The accessor on a state, general form.** A non-empty state whose `sum_2`, `sum_3` approximate `T > 0`
and `U` with `|sum_2 - T| ≤ ε₂·T`, `|sum_3 - U| ≤ ε₃·V`, `|U| ≤ V`; `z = (1+ε₂)³(1+u)³ - 1 < 1`:
`|skewness() - √n·U/√(T³)| ≤ (√n·V/√(T³))·((1+ε₃)(1+u)³ - 1 + z)/(1 - z)`. -/
theorem skewness_error_gen (q : RndSqrt r) (hs : SqrtIs q) (heq : ValEqb r) (s : Skewness (RF2 r))
    (hn : s.avg.avg.n ≠ 0) (T U V ε₂ ε₃ : ℝ) (hT : 0 < T) (hUV : |U| ≤ V) (hε₂ : 0 ≤ ε₂)
    (hε₃ : 0 ≤ ε₃) (hS : |s.avg.sum_2.val - T| ≤ ε₂ * T) (hS3 : |s.sum_3.val - U| ≤ ε₃ * V)
    (hz : (1 + ε₂)^3 * (1 + r.u)^3 - 1 < 1) :
    |s.skewness.val - Real.sqrt (s.avg.avg.n : ℝ) * U / Real.sqrt (T * T * T)|
      ≤ Real.sqrt (s.avg.avg.n : ℝ) * V / Real.sqrt (T * T * T)
          * (((1 + ε₃) * (1 + r.u)^3 - 1 + ((1 + ε₂)^3 * (1 + r.u)^3 - 1))
              / (1 - ((1 + ε₂)^3 * (1 + r.u)^3 - 1))) := by
  rw [skewness_val q hs heq s hn]
  exact skew_core r q _ T U V _ _ ε₂ ε₃ (Nat.cast_nonneg _) hT hUV hε₂ hε₃ hS hS3 hz

end state

/-! ## exact side -/

theorem abs_list_sum_le (l : List ℝ) : |l.sum| ≤ (l.map (fun x => |x|)).sum := by
  induction l with
  | nil => simp
  | cons x l ih =>
    simp only [List.sum_cons, List.map_cons]
    exact le_trans (abs_add_le _ _) (by linarith)

/-- `|Σ(x - mean)³| ≤ Σ|x - mean|³` -/
theorem abs_U_le_V3 (vs : List ℝ) : |U vs| ≤ V3 vs := by
  unfold U sumPow V3
  refine le_trans (abs_list_sum_le _) (le_of_eq ?_)
  rw [List.map_map]
  congr 1
  apply List.map_congr_left
  intro x _
  simp [abs_pow]

/-- `√(T³) = n·σ³·/√n`-type identities: with `σ = √(T/n)`, `n > 0`, `T ≥ 0`:
`√n·X/√(T·T·T) = (X/n)/σ³`. -/
theorem skew_exact_eq (n T X : ℝ) (hn : 0 < n) (hT : 0 < T) :
    Real.sqrt n * X / Real.sqrt (T * T * T) = X / n / (Real.sqrt (T / n))^3 := by
  have hrn : 0 < Real.sqrt n := Real.sqrt_pos.mpr hn
  have hrT : 0 < Real.sqrt T := Real.sqrt_pos.mpr hT
  have h1 : Real.sqrt (T * T * T) = T * Real.sqrt T := by
    rw [Real.sqrt_mul (mul_self_nonneg T), Real.sqrt_mul_self hT.le]
  have h2 : Real.sqrt (T / n) = Real.sqrt T / Real.sqrt n := Real.sqrt_div hT.le n
  have hn2 : Real.sqrt n * Real.sqrt n = n := Real.mul_self_sqrt hn.le
  have hT2 : Real.sqrt T * Real.sqrt T = T := Real.mul_self_sqrt hT.le
  rw [h1, h2]
  have hnn : n ≠ 0 := hn.ne'
  field_simp
  rw [Real.sq_sqrt hT.le, Real.sq_sqrt hn.le]
  ring

/-! ## the stored `sum_2`, relative form -/

/-- **`sum_2` in relative form.** Add-only stream, `|x_i| ≤ M`, `(n+28)·u ≤ 1/64`, `σ ≥ 0` with `n·σ² = T`
(the population standard deviation) and `n·u·M ≤ σ`:
`|sum_2 - T| ≤ 8·n·u·T + 8·n²·u·M·σ`  (`= 8·n·κ·u·T` with `κ = 1 + M/σ`, since `T·M/σ = n·M·σ`). -/
theorem sum2_rel {K : Type} [Field K] [LinearOrder K] [IsStrictOrderedRing K] (r : Rnd2 K) (M : K)
    (hM : 0 ≤ M) (xs : List (RF2 r)) (hb : ∀ x ∈ xs, |x.val| ≤ M)
    (hsmall : ((xs.length : K) + 28) * r.u ≤ 1/64) (σ : K) (hσ : 0 ≤ σ)
    (hvar : (xs.length : K) * σ^2 = T (xs.map RF2.val)) (hcond : (xs.length : K) * r.u * M ≤ σ) :
    |(xs.foldl Variance.add Variance.new).sum_2.val - T (xs.map RF2.val)|
      ≤ 8 * xs.length * r.u * T (xs.map RF2.val) + 8 * (xs.length : K)^2 * r.u * M * σ := by
  have hu := r.u_nonneg
  have hn0 : (0 : K) ≤ xs.length := Nat.cast_nonneg _
  have h := VarErr.var_fold_error_sharp_num r M hM xs hb hsmall ((xs.length : K) * σ)
    (by positivity) (by rw [← hvar]; exact le_of_eq (by ring))
  refine le_trans h ?_
  set n : K := (xs.length : K)
  set Tn := T (xs.map RF2.val)
  have hT0 : 0 ≤ Tn := T_nonneg _
  have h3 : n^3 * r.u^2 * M^2 ≤ n^2 * r.u * M * σ := by
    have : 0 ≤ n * r.u * M := by positivity
    calc n^3 * r.u^2 * M^2 = n * (n * r.u * M) * (n * r.u * M) := by ring
      _ ≤ n * (n * r.u * M) * σ := by gcongr
      _ = n^2 * r.u * M * σ := by ring
  have a1 : 0 ≤ n * r.u * Tn := by positivity
  have a2 : 0 ≤ n^2 * r.u * M * σ := by positivity
  nlinarith

end SkewAcc

#print axioms SkewAcc.skew_core
#print axioms SkewAcc.skew_factor_le
#print axioms SkewAcc.skewness_val
#print axioms SkewAcc.skewness_error_gen
#print axioms SkewAcc.sum2_rel
