import AvgProofs.Project
import AvgModel.MomentsN
import AvgModel.Weighted
import AvgModel.Histogram
/-! Merging with an empty estimator, any carrier, by unfolding: the early returns of `merge`.
`X.merge_new`: `a.merge new = a`; `X.new_merge_cases`: `new.merge a` is `a`, or `a` is empty and the result is `new`. -/
set_option linter.unusedSectionVars false
namespace Avg
variable {α : Type} [Add α] [Sub α] [Mul α] [Div α] [NatCast α]

/-! ## Mean .. Kurtosis -/

theorem Mean.merge_empty (a o : Mean α) (h : o.n = 0) : a.merge o = a := by
  unfold Mean.merge; rw [if_pos h]
theorem Mean.empty_merge (s a : Mean α) (hs : s.n = 0) (h : a.n ≠ 0) : s.merge a = a := by
  unfold Mean.merge; rw [if_neg h, if_pos hs]
theorem Mean.new_merge_cases (a : Mean α) :
    Mean.new.merge a = a ∨ (a.n = 0 ∧ Mean.new.merge a = Mean.new) := by
  by_cases h : a.n = 0
  · exact Or.inr ⟨h, Mean.merge_empty _ _ h⟩
  · exact Or.inl (Mean.empty_merge _ _ rfl h)
theorem Mean.len_merge (a b : Mean α) : (a.merge b).len = a.len + b.len := by
  unfold Mean.merge Mean.len
  by_cases h1 : b.n = 0
  · rw [if_pos h1, h1]; rfl
  · by_cases h2 : a.n = 0
    · rw [if_neg h1, if_pos h2, h2, Nat.zero_add]
    · rw [if_neg h1, if_neg h2]

theorem Variance.merge_empty (a o : Variance α) (h : o.avg.n = 0) : a.merge o = a := by
  unfold Variance.merge; rw [if_pos h]
theorem Variance.empty_merge (s a : Variance α) (hs : s.avg.n = 0) (h : a.avg.n ≠ 0) : s.merge a = a := by
  unfold Variance.merge; rw [if_neg h, if_pos hs]
theorem Variance.new_merge_cases (a : Variance α) :
    Variance.new.merge a = a ∨ (a.avg.n = 0 ∧ Variance.new.merge a = Variance.new) := by
  by_cases h : a.avg.n = 0
  · exact Or.inr ⟨h, Variance.merge_empty _ _ h⟩
  · exact Or.inl (Variance.empty_merge _ _ rfl h)
theorem Variance.len_merge (a b : Variance α) : (a.merge b).len = a.len + b.len := by
  unfold Variance.len; rw [Variance.merge_avg]; exact Mean.len_merge _ _

theorem Skewness.merge_empty (a o : Skewness α) (h : o.avg.avg.n = 0) : a.merge o = a := by
  unfold Skewness.merge; rw [if_pos h]
theorem Skewness.empty_merge (s a : Skewness α) (hs : s.avg.avg.n = 0) (h : a.avg.avg.n ≠ 0) : s.merge a = a := by
  unfold Skewness.merge; rw [if_neg h, if_pos hs]
theorem Skewness.new_merge_cases (a : Skewness α) :
    Skewness.new.merge a = a ∨ (a.avg.avg.n = 0 ∧ Skewness.new.merge a = Skewness.new) := by
  by_cases h : a.avg.avg.n = 0
  · exact Or.inr ⟨h, Skewness.merge_empty _ _ h⟩
  · exact Or.inl (Skewness.empty_merge _ _ rfl h)
theorem Skewness.len_merge (a b : Skewness α) : (a.merge b).len = a.len + b.len := by
  unfold Skewness.len; rw [Skewness.merge_avg]; exact Variance.len_merge _ _

theorem Kurtosis.merge_empty (a o : Kurtosis α) (h : o.avg.avg.avg.n = 0) : a.merge o = a := by
  unfold Kurtosis.merge; rw [if_pos h]
theorem Kurtosis.empty_merge (s a : Kurtosis α) (hs : s.avg.avg.avg.n = 0) (h : a.avg.avg.avg.n ≠ 0) :
    s.merge a = a := by
  unfold Kurtosis.merge; rw [if_neg h, if_pos hs]
theorem Kurtosis.new_merge_cases (a : Kurtosis α) :
    Kurtosis.new.merge a = a ∨ (a.avg.avg.avg.n = 0 ∧ Kurtosis.new.merge a = Kurtosis.new) := by
  by_cases h : a.avg.avg.avg.n = 0
  · exact Or.inr ⟨h, Kurtosis.merge_empty _ _ h⟩
  · exact Or.inl (Kurtosis.empty_merge _ _ rfl h)
theorem Kurtosis.len_merge (a b : Kurtosis α) : (a.merge b).len = a.len + b.len := by
  unfold Kurtosis.len; rw [Kurtosis.merge_avg]; exact Skewness.len_merge _ _

/-! ## `define_moments!` -/

theorem Moments.merge_empty [Neg α] (N : Nat) (a o : Moments α) (h : o.n = 0) : Moments.merge N a o = a := by
  unfold Moments.merge; rw [if_pos h]
theorem Moments.empty_merge [Neg α] (N : Nat) (s a : Moments α) (hs : s.n = 0) (h : a.n ≠ 0) :
    Moments.merge N s a = a := by
  unfold Moments.merge; rw [if_neg h, if_pos hs]
theorem Moments.new_merge_cases [Neg α] (N M : Nat) (a : Moments α) :
    Moments.merge N (Moments.new M) a = a
    ∨ (a.n = 0 ∧ Moments.merge N (Moments.new M) a = Moments.new M) := by
  by_cases h : a.n = 0
  · exact Or.inr ⟨h, Moments.merge_empty _ _ _ h⟩
  · exact Or.inl (Moments.empty_merge _ _ _ rfl h)
theorem Moments.len_merge [Neg α] (N : Nat) (a b : Moments α) :
    (Moments.merge N a b).len = a.len + b.len := by
  unfold Moments.merge Moments.len
  by_cases h1 : b.n = 0
  · rw [if_pos h1, h1]; rfl
  · by_cases h2 : a.n = 0
    · rw [if_neg h1, if_pos h2, h2, Nat.zero_add]
    · rw [if_neg h1, if_neg h2]

/-! ## Covariance, WeightedMean -/
section weighted
variable [FloatOps α]

theorem Covariance.merge_empty (a o : Covariance α) (h : o.n = 0) : a.merge o = a := by
  unfold Covariance.merge; rw [if_pos h]
theorem Covariance.empty_merge (s a : Covariance α) (hs : s.n = 0) (h : a.n ≠ 0) : s.merge a = a := by
  unfold Covariance.merge; rw [if_neg h, if_pos hs]
theorem Covariance.new_merge_cases (a : Covariance α) :
    Covariance.new.merge a = a ∨ (a.n = 0 ∧ Covariance.new.merge a = Covariance.new) := by
  by_cases h : a.n = 0
  · exact Or.inr ⟨h, Covariance.merge_empty _ _ h⟩
  · exact Or.inl (Covariance.empty_merge _ _ rfl h)
theorem Covariance.len_merge (a b : Covariance α) : (a.merge b).len = a.len + b.len := by
  unfold Covariance.merge Covariance.len
  by_cases h1 : b.n = 0
  · rw [if_pos h1, h1]; rfl
  · by_cases h2 : a.n = 0
    · rw [if_neg h1, if_pos h2, h2, Nat.zero_add]
    · rw [if_neg h1, if_neg h2]

theorem WeightedMean.merge_empty (a o : WeightedMean α) (h : o.isEmpty = true) : a.merge o = a := by
  unfold WeightedMean.merge; rw [if_pos h]
theorem WeightedMean.empty_merge (s a : WeightedMean α) (hs : s.isEmpty = true) (h : a.isEmpty = false) :
    s.merge a = a := by
  unfold WeightedMean.merge
  rw [if_neg (by rw [h]; exact Bool.false_ne_true), if_pos hs]
/-- `new` is empty as soon as `0 == 0` on the carrier -/
theorem WeightedMean.new_isEmpty (h00 : FloatOps.eqb ((0:Nat):α) ((0:Nat):α) = true) :
    (WeightedMean.new : WeightedMean α).isEmpty = true := h00
theorem WeightedMean.new_merge_cases (h00 : FloatOps.eqb ((0:Nat):α) ((0:Nat):α) = true) (a : WeightedMean α) :
    WeightedMean.new.merge a = a ∨ (a.isEmpty = true ∧ WeightedMean.new.merge a = WeightedMean.new) := by
  cases h : a.isEmpty
  · exact Or.inl (WeightedMean.empty_merge _ _ h00 h)
  · exact Or.inr ⟨rfl, WeightedMean.merge_empty _ _ h⟩

end weighted

/-! ## lists of counts (histogram bins) -/

theorem zipWith_add_replicate_zero (l : List Nat) :
    List.zipWith (· + ·) l (List.replicate l.length 0) = l := by
  induction l with
  | nil => rfl
  | cons x xs ih => simp only [List.length_cons, List.replicate_succ, List.zipWith_cons_cons, ih, Nat.add_zero]

theorem zipWith_replicate_zero_add (l : List Nat) :
    List.zipWith (· + ·) (List.replicate l.length 0) l = l := by
  induction l with
  | nil => rfl
  | cons x xs ih => simp only [List.length_cons, List.replicate_succ, List.zipWith_cons_cons, ih, Nat.zero_add]

theorem foldl_add_acc (l : List Nat) (acc : Nat) : l.foldl (· + ·) acc = acc + l.foldl (· + ·) 0 := by
  induction l generalizing acc with
  | nil => rfl
  | cons x xs ih => simp only [List.foldl_cons]; rw [ih (acc + x), ih (0 + x)]; omega

theorem foldl_add_zipWith (a b : List Nat) (h : a.length = b.length) :
    (List.zipWith (· + ·) a b).foldl (· + ·) 0 = a.foldl (· + ·) 0 + b.foldl (· + ·) 0 := by
  induction a generalizing b with
  | nil => cases b with
    | nil => rfl
    | cons _ _ => simp at h
  | cons x xs ih => cases b with
    | nil => simp at h
    | cons y ys =>
      simp only [List.zipWith_cons_cons, List.foldl_cons]
      rw [foldl_add_acc _ (0 + (x + y)), foldl_add_acc xs (0 + x), foldl_add_acc ys (0 + y),
        ih ys (by simpa using h)]
      omega

theorem foldl_add_replicate_zero (n : Nat) : (List.replicate n 0).foldl (· + ·) 0 = 0 := by
  induction n with
  | zero => rfl
  | succ n ih => simp only [List.replicate_succ, List.foldl_cons, Nat.add_zero, ih]

end Avg
