import AvgProofs.AccMergeErrSkew
import AvgProofs.AccMergeErrKurt
import AvgProofs.AccMergeErrRel

/-!
# The accessors `skewness()` and `kurtosis()` on the state produced by EVERY merge tree

Assembly of `AccMergeErrSkew` / `AccMergeErrKurt` (the accessor arithmetic on a state whose third / fourth order
sum carries an absolute error) with `AccMergeErrRel` (the stored sums after any merge tree). `σ > 0` is the
population standard deviation (`n·σ² = T`), `k = M/σ`, `x = n·u`, `h` the height of the tree.

* `skew_mtree_accessor` (ℝ, `RndSqrt`): `x·(10 + 62k) ≤ 1/32`, `(n+28)·u ≤ 1/64` ⟹
  `|skewness() - g| ≤ x·(17·(V3T/n)/σ³ + 2660·k + (22 + 100·k)·|g|)`, `g = (U/n)/σ³`.
* `skew_mtree_accessor_env`: `≤ x·(5462 + 170·h + 2760·k)·(V3/n)/σ³`.
* `kurt_mtree_accessor_scales` (ordered field): same hypotheses ⟹
  `|kurtosis() - (G-3)| ≤ x·(64·(V4T/n)/σ⁴ + 308·k·(V3S/n)/σ³ + 216552·k + (27 + 131·k)·G)`, `G = n·Q/T²`.
* `kurt_mtree_accessor_rel`: `ε₄ = x·(32·(257840 + 3555h + 55h²) + (157556 + 1540h)·k) < 1` ⟹
  `|kurtosis() - (G-3)| ≤ x·(8259156 + 113874·h + 1762·h² + (157838 + 1542·h)·k)·G`.
-/
open Avg MSpec Finset VarSpec SkewSpec KurtSpec SkewErr SkewMerge KurtMerge SkewAcc

namespace AccMerge

/-! ## skewness -/

section skew
variable {r : Rnd2 ℝ} [FloatOps (RF2 r)]

/-- the arithmetic of the last step of `skew_mtree_accessor` -/
theorem skew_tree_arith (x u k V P A : ℝ) (hx : 0 ≤ x) (hux : u ≤ x) (hk : 0 ≤ k)
    (hV : 0 ≤ V) (hP : 0 ≤ P) (hA : 0 ≤ A) :
    1053/1000 * (x * (16 * V + 2526 * k * P)) + A * (8/5 * (x * (10 + 62 * k)) + 53/10 * u)
      ≤ x * (17 * V + 2660 * k * P + (22 + 100 * k) * A) := by
  have h1 := mul_nonneg hx hV
  have h2 := mul_nonneg hx (mul_nonneg hk hP)
  have h3 := mul_nonneg hx hA
  have h4 := mul_nonneg (mul_nonneg hx hk) hA
  have h5 : u * A ≤ x * A := mul_le_mul_of_nonneg_right hux hA
  nlinarith

/-- **`skewness()` after any merge tree, in the scale `V3T` of the tree.** Over ℝ with a correctly rounded
square root; `n ≥ 1` observations `|x| ≤ M`, `(n+28)·u ≤ 1/64`, `σ > 0` with `n·σ² = T`,
`n·u·(10 + 62·(M/σ)) ≤ 1/32`; `g = (U/n)/σ³`. Whichever branch the accessor takes,
`|skewness() - g| ≤ n·u·(17·(V3T/n)/σ³ + 2660·(M/σ) + (22 + 100·(M/σ))·|g|)`. -/
theorem skew_mtree_accessor (q : RndSqrt r) (hs : SqrtIs q) (heq : ValEqb r) (M : ℝ) (hM : 0 ≤ M)
    (t : MTree (RF2 r)) (hne : t.flatten ≠ []) (hb : ∀ x ∈ t.flatten, |x.val| ≤ M)
    (hsmall : ((t.flatten.length : ℝ) + 28) * r.u ≤ 1/64)
    (σ : ℝ) (hσ : 0 < σ) (hvar : (t.flatten.length : ℝ) * σ^2 = T (t.flatten.map RF2.val))
    (hε₂ : (t.flatten.length : ℝ) * r.u * (10 + 62 * (M / σ)) ≤ 1/32) :
    |(Skewness.evalTree t).skewness.val - U (t.flatten.map RF2.val) / (t.flatten.length : ℝ) / σ^3|
      ≤ (t.flatten.length : ℝ) * r.u
          * (17 * (V3T (t.map RF2.val) / (t.flatten.length : ℝ) / σ^3) + 2660 * (M / σ)
              + (22 + 100 * (M / σ)) * |U (t.flatten.map RF2.val) / (t.flatten.length : ℝ) / σ^3|) := by
  have hu := r.u_nonneg
  have hlen : 0 < t.flatten.length := List.length_pos_of_ne_nil hne
  have hn1 : (1 : ℝ) ≤ (t.flatten.length : ℝ) := by exact_mod_cast hlen
  set vs := t.flatten.map RF2.val with hvs
  set n : ℝ := (t.flatten.length : ℝ) with hn
  have hnpos : 0 < n := by linarith
  have hu1856 : r.u ≤ 1/1856 := by nlinarith
  have hnu : n * r.u ≤ 1/64 := by nlinarith
  have hux : r.u ≤ n * r.u := by nlinarith
  have hTpos : 0 < T vs := by rw [← hvar]; positivity
  have hk0 : 0 ≤ M / σ := div_nonneg hM hσ.le
  have hcond : n * r.u * M ≤ σ :=
    cond_of_eps n r.u M σ 10 62 (1/32) hnpos.le hu hM hσ (by norm_num) (by norm_num) (by norm_num) hε₂
  have hS := sum2_mtree_rel r M hM t hb hnu σ hσ hvar hcond
  have hS3 := sum3_mtree_abs r M hM t hb hsmall σ hσ hvar hcond
  have havg : (Skewness.evalTree t).avg = Variance.evalTree t := Skewness.mtree_avg t
  have hcount : (Skewness.evalTree t).avg.avg.n = t.flatten.length := Skewness.mtree_n t
  have hne0 : (Skewness.evalTree t).avg.avg.n ≠ 0 := by rw [hcount]; omega
  rw [← havg] at hS
  have main := skewness_error_abs_small q hs heq (Skewness.evalTree t) hne0 (T vs) (U vs)
    (n * r.u * (10 + 62 * (M / σ))) _ hTpos (by positivity) hε₂ hu1856 hS hS3
  rw [hcount] at main
  have hσeq : Real.sqrt (T vs / n) = σ := by
    rw [← hvar, mul_div_cancel_left₀ _ hnpos.ne', Real.sqrt_sq hσ.le]
  have e1 := skew_exact_eq n (T vs) (U vs) hnpos hTpos
  rw [hσeq] at e1
  have e2 : ∀ Y : ℝ, Real.sqrt n / Real.sqrt (T vs * T vs * T vs) * Y = Y / n / σ^3 := by
    intro Y
    have := skew_exact_eq n (T vs) Y hnpos hTpos
    rw [hσeq] at this
    rw [← this]; ring
  rw [e1, e2] at main
  refine le_trans main ?_
  have hσ3 : 0 < σ^3 := by positivity
  have hV0 : 0 ≤ V3T (t.map RF2.val) := V3T_nonneg _
  have hU0 := abs_nonneg (U vs)
  have habs : |U vs / n / σ^3| = |U vs| / n / σ^3 := by
    rw [abs_div, abs_div, abs_of_pos hnpos, abs_of_pos hσ3]
  rw [habs]
  have key := skew_tree_arith (n * r.u) r.u (M / σ) (V3T (t.map RF2.val)) (n * σ^3) |U vs|
    (by positivity) hux hk0 hV0 (by positivity) hU0
  rw [div_div, div_le_iff₀ (by positivity)]
  refine le_trans key (le_of_eq ?_)
  field_simp

/-- **Envelope form in the height of the tree.** Same hypotheses; `h = height t`, `V3 = Σ|x - mean|³`:
`|skewness() - (U/n)/σ³| ≤ n·u·(5462 + 170·h + 2760·(M/σ))·(V3/n)/σ³`. -/
theorem skew_mtree_accessor_env (q : RndSqrt r) (hs : SqrtIs q) (heq : ValEqb r) (M : ℝ) (hM : 0 ≤ M)
    (t : MTree (RF2 r)) (hne : t.flatten ≠ []) (hb : ∀ x ∈ t.flatten, |x.val| ≤ M)
    (hsmall : ((t.flatten.length : ℝ) + 28) * r.u ≤ 1/64)
    (σ : ℝ) (hσ : 0 < σ) (hvar : (t.flatten.length : ℝ) * σ^2 = T (t.flatten.map RF2.val))
    (hε₂ : (t.flatten.length : ℝ) * r.u * (10 + 62 * (M / σ)) ≤ 1/32) :
    |(Skewness.evalTree t).skewness.val - U (t.flatten.map RF2.val) / (t.flatten.length : ℝ) / σ^3|
      ≤ (t.flatten.length : ℝ) * r.u * (5462 + 170 * (height t : ℝ) + 2760 * (M / σ))
          * (V3 (t.flatten.map RF2.val) / (t.flatten.length : ℝ) / σ^3) := by
  have hu := r.u_nonneg
  have main := skew_mtree_accessor q hs heq M hM t hne hb hsmall σ hσ hvar hε₂
  refine le_trans main ?_
  have hlen : 0 < t.flatten.length := List.length_pos_of_ne_nil hne
  have hn1 : (1 : ℝ) ≤ (t.flatten.length : ℝ) := by exact_mod_cast hlen
  set vs := t.flatten.map RF2.val with hvs
  have hvl : (vs.length : ℝ) = (t.flatten.length : ℝ) := by simp [hvs]
  set n : ℝ := (t.flatten.length : ℝ) with hn
  have hnpos : 0 < n := by linarith
  have hσ3 : 0 < σ^3 := by positivity
  have hk0 : 0 ≤ M / σ := div_nonneg hM hσ.le
  have hh0 : (0 : ℝ) ≤ (height t : ℝ) := Nat.cast_nonneg _
  have hV := V3T_le_V3 (t.map RF2.val)
  rw [height_map, MTree.flatten_map] at hV
  have hUV : |U vs| ≤ V3 vs := SkewAcc.abs_U_le_V3 vs
  have hs3 : n * σ^3 ≤ V3 vs := by
    have := sigma_cube_le vs σ (by rw [hvl]; exact le_of_eq hvar)
    rwa [hvl] at this
  have hV30 := V3_nonneg vs
  have habs : |U vs / n / σ^3| = |U vs| / n / σ^3 := by
    rw [abs_div, abs_div, abs_of_pos hnpos, abs_of_pos hσ3]
  rw [habs]
  set ρ := V3 vs / n / σ^3 with hρ
  have hρ1 : 1 ≤ ρ := by
    rw [hρ, div_div, le_div_iff₀ (by positivity)]; linarith
  have ha : V3T (t.map RF2.val) / n / σ^3 ≤ (320 + 10 * (height t : ℝ)) * ρ := by
    rw [hρ, div_div, div_div, ← mul_div_assoc]
    exact div_le_div_of_nonneg_right hV (by positivity)
  have hg : |U vs| / n / σ^3 ≤ ρ := by
    rw [hρ, div_div, div_div]
    exact div_le_div_of_nonneg_right hUV (by positivity)
  have hx0 : 0 ≤ n * r.u := by positivity
  have hkρ : (M / σ) ≤ (M / σ) * ρ := le_mul_of_one_le_right hk0 hρ1
  have h1 : 17 * (V3T (t.map RF2.val) / n / σ^3) + 2660 * (M / σ)
        + (22 + 100 * (M / σ)) * (|U vs| / n / σ^3)
      ≤ (5462 + 170 * (height t : ℝ) + 2760 * (M / σ)) * ρ := by
    have h2 : (22 + 100 * (M / σ)) * (|U vs| / n / σ^3) ≤ (22 + 100 * (M / σ)) * ρ :=
      mul_le_mul_of_nonneg_left hg (by positivity)
    nlinarith
  calc n * r.u * (17 * (V3T (t.map RF2.val) / n / σ^3) + 2660 * (M / σ)
          + (22 + 100 * (M / σ)) * (|U vs| / n / σ^3))
      ≤ n * r.u * ((5462 + 170 * (height t : ℝ) + 2760 * (M / σ)) * ρ) :=
        mul_le_mul_of_nonneg_left h1 hx0
    _ = n * r.u * (5462 + 170 * (height t : ℝ) + 2760 * (M / σ)) * ρ := by ring

end skew

/-! ## kurtosis -/

section kurt
variable {K : Type} [Field K] [LinearOrder K] [IsStrictOrderedRing K]
variable {r : Rnd2 K} [FloatOps (RF2 r)]

/-- **`kurtosis()` after any merge tree, in the scales `V4T`, `V3S` of the tree; both branches.** Any ordered
field; `n ≥ 1` observations `|x| ≤ M`, `(n+28)·u ≤ 1/64`, `σ > 0` with `n·σ² = T`,
`n·u·(10 + 62·(M/σ)) ≤ 1/32`; `G = n·Q/T²`:
`|kurtosis() - (G - 3)| ≤ n·u·(64·(V4T/n)/σ⁴ + 308·(M/σ)·(V3S/n)/σ³ + 216552·(M/σ) + (27 + 131·(M/σ))·G)`. -/
theorem kurt_mtree_accessor_scales (heq : ValEqb r) (M : K) (hM : 0 ≤ M) (t : MTree (RF2 r))
    (hne : t.flatten ≠ []) (hb : ∀ x ∈ t.flatten, |x.val| ≤ M)
    (hsmall : ((t.flatten.length : K) + 28) * r.u ≤ 1/64)
    (σ : K) (hσ : 0 < σ) (hvar : (t.flatten.length : K) * σ^2 = T (t.flatten.map RF2.val))
    (hε₂ : (t.flatten.length : K) * r.u * (10 + 62 * (M / σ)) ≤ 1/32) :
    |(Kurtosis.evalTree t).kurtosis.val
        - ((t.flatten.length : K) * Q (t.flatten.map RF2.val)
            / (T (t.flatten.map RF2.val) * T (t.flatten.map RF2.val)) - 3)|
      ≤ (t.flatten.length : K) * r.u
          * (64 * (V4T (t.map RF2.val) / (t.flatten.length : K) / σ^4)
              + 308 * (M / σ) * (V3S (t.map RF2.val) / (t.flatten.length : K) / σ^3)
              + 216552 * (M / σ)
              + (27 + 131 * (M / σ)) * ((t.flatten.length : K) * Q (t.flatten.map RF2.val)
                  / (T (t.flatten.map RF2.val) * T (t.flatten.map RF2.val)))) := by
  have hu := r.u_nonneg
  have hlen : 0 < t.flatten.length := List.length_pos_of_ne_nil hne
  have hn1 : (1 : K) ≤ (t.flatten.length : K) := by exact_mod_cast hlen
  set vs := t.flatten.map RF2.val with hvs
  have hvl : (vs.length : K) = (t.flatten.length : K) := by simp [hvs]
  set n : K := (t.flatten.length : K) with hn
  have hnpos : 0 < n := by linarith
  have hu1856 : r.u ≤ 1/1856 := by nlinarith
  have hnu : n * r.u ≤ 1/64 := by nlinarith
  have hux : r.u ≤ n * r.u := by nlinarith
  have hTpos : 0 < T vs := by rw [← hvar]; positivity
  have hk0 : 0 ≤ M / σ := div_nonneg hM hσ.le
  have hcond : n * r.u * M ≤ σ :=
    cond_of_eps n r.u M σ 10 62 (1/32) hnpos.le hu hM hσ (by norm_num) (by norm_num) (by norm_num) hε₂
  have hS := sum2_mtree_rel r M hM t hb hnu σ hσ hvar hcond
  have hS4 := sum4_mtree_abs r M hM t hb hsmall σ hσ hvar hcond
  have havg : (Kurtosis.evalTree t).avg.avg = Variance.evalTree t := by
    rw [Kurtosis.mtree_avg, Skewness.mtree_avg]
  have hcount : (Kurtosis.evalTree t).avg.avg.avg.n = t.flatten.length := Kurtosis.mtree_n t
  have hne0 : (Kurtosis.evalTree t).avg.avg.avg.n ≠ 0 := by rw [hcount]; omega
  rw [← havg] at hS
  have hTQ : T vs * T vs ≤ ((Kurtosis.evalTree t).avg.avg.avg.n : K) * Q vs := by
    rw [hcount, ← sq]; have := KurtErr.T_sq_le vs; rwa [hvl] at this
  have main := kurtosis_error_abs heq (Kurtosis.evalTree t) hne0 (T vs) (Q vs)
    (n * r.u * (10 + 62 * (M / σ))) _ hTpos hTQ (by positivity) hε₂ hu1856 hS hS4
  rw [hcount] at main
  refine le_trans main ?_
  have hG0 : 0 ≤ n * Q vs / (T vs * T vs) := by
    have := Q_nonneg vs
    positivity
  have e1 : 2 * (n * (n * r.u * (32 * V4T (t.map RF2.val) + 154 * (M / σ) * (σ * V3S (t.map RF2.val))
        + 108276 * (M / σ) * (n * σ^4))) / (T vs * T vs))
      = n * r.u * (64 * (V4T (t.map RF2.val) / n / σ^4)
          + 308 * (M / σ) * (V3S (t.map RF2.val) / n / σ^3) + 216552 * (M / σ)) := by
    rw [← hvar]; field_simp; ring
  have e2 : n * Q vs / (T vs * T vs) * (211/100 * (n * r.u * (10 + 62 * (M / σ))) + 26/5 * r.u)
      ≤ n * r.u * ((27 + 131 * (M / σ)) * (n * Q vs / (T vs * T vs))) := by
    have h1 : 211/100 * (n * r.u * (10 + 62 * (M / σ))) + 26/5 * r.u
        ≤ n * r.u * (27 + 131 * (M / σ)) := by
      have : 0 ≤ n * r.u * (M / σ) := by positivity
      nlinarith
    calc n * Q vs / (T vs * T vs) * (211/100 * (n * r.u * (10 + 62 * (M / σ))) + 26/5 * r.u)
        ≤ n * Q vs / (T vs * T vs) * (n * r.u * (27 + 131 * (M / σ))) :=
          mul_le_mul_of_nonneg_left h1 hG0
      _ = n * r.u * ((27 + 131 * (M / σ)) * (n * Q vs / (T vs * T vs))) := by ring
  rw [e1]
  have e3 : n * r.u * (64 * (V4T (t.map RF2.val) / n / σ^4)
        + 308 * (M / σ) * (V3S (t.map RF2.val) / n / σ^3) + 216552 * (M / σ)
        + (27 + 131 * (M / σ)) * (n * Q vs / (T vs * T vs)))
      = n * r.u * (64 * (V4T (t.map RF2.val) / n / σ^4)
          + 308 * (M / σ) * (V3S (t.map RF2.val) / n / σ^3) + 216552 * (M / σ))
        + n * r.u * ((27 + 131 * (M / σ)) * (n * Q vs / (T vs * T vs))) := by ring
  rw [e3]
  linarith

/-- the smallness consequences of `ε₄ < 1`: with `x = n·u`, `u ≤ x`, `h, k ≥ 0`,
`x·(32·(257840 + 3555h + 55h²) + (157556 + 1540h)·k) < 1` gives `x ≤ 1/8250880` and `x·(10 + 62k) ≤ 1/2048` -/
theorem kurt_small_arith (x h k : K) (hx : 0 ≤ x) (hh : 0 ≤ h) (hk : 0 ≤ k)
    (hε : x * (32 * (257840 + 3555 * h + 55 * h^2) + (157556 + 1540 * h) * k) < 1) :
    x ≤ 1/8250880 ∧ x * (10 + 62 * k) ≤ 1/2048 := by
  have h1 := mul_nonneg hx hh
  have h2 := mul_nonneg hx (sq_nonneg h)
  have h3 := mul_nonneg hx hk
  have h4 := mul_nonneg (mul_nonneg hx hh) hk
  constructor <;> nlinarith

/-- the arithmetic of the last step of `kurt_mtree_accessor_rel` -/
theorem kurt_tree_arith (x u h k : K) (hx : 0 ≤ x) (hux : u ≤ x) (hh : 0 ≤ h) (hk : 0 ≤ k) :
    1001/1000 * (x * (32 * (257840 + 3555 * h + 55 * h^2) + (157556 + 1540 * h) * k))
        + 2003/1000 * (x * (10 + 62 * k)) + 5001/1000 * u
      ≤ x * (8259156 + 113874 * h + 1762 * h^2 + (157838 + 1542 * h) * k) := by
  have h1 := mul_nonneg hx hh
  have h2 := mul_nonneg hx (sq_nonneg h)
  have h3 := mul_nonneg hx hk
  have h4 := mul_nonneg (mul_nonneg hx hh) hk
  nlinarith

/-- **`kurtosis()` after any merge tree, relative to `G = m₄/σ⁴`, in the height of the tree.** Any ordered
field; `n ≥ 1` observations `|x| ≤ M`, `σ > 0` with `n·σ² = T`, `h = height t`, and the single smallness
hypothesis `n·u·(32·(257840 + 3555h + 55h²) + (157556 + 1540h)·(M/σ)) < 1` (the relative error of `sum_4` is below
one; it implies `(n+28)·u ≤ 1/64`, `n·u·M ≤ σ`). Then (the shortcut `sum_4 == 0` is not taken)
`|kurtosis() - (G - 3)| ≤ n·u·(8259156 + 113874·h + 1762·h² + (157838 + 1542·h)·(M/σ))·G`. -/
theorem kurt_mtree_accessor_rel (heq : ValEqb r) (M : K) (hM : 0 ≤ M) (t : MTree (RF2 r))
    (hne : t.flatten ≠ []) (hb : ∀ x ∈ t.flatten, |x.val| ≤ M)
    (σ : K) (hσ : 0 < σ) (hvar : (t.flatten.length : K) * σ^2 = T (t.flatten.map RF2.val))
    (hε₄ : (t.flatten.length : K) * r.u
        * (32 * (257840 + 3555 * (height t : K) + 55 * (height t : K)^2)
            + (157556 + 1540 * (height t : K)) * (M / σ)) < 1) :
    (Kurtosis.evalTree t).sum_4.val ≠ 0 ∧
    |(Kurtosis.evalTree t).kurtosis.val
        - ((t.flatten.length : K) * Q (t.flatten.map RF2.val)
            / (T (t.flatten.map RF2.val) * T (t.flatten.map RF2.val)) - 3)|
      ≤ (t.flatten.length : K) * r.u
          * (8259156 + 113874 * (height t : K) + 1762 * (height t : K)^2
              + (157838 + 1542 * (height t : K)) * (M / σ))
          * ((t.flatten.length : K) * Q (t.flatten.map RF2.val)
              / (T (t.flatten.map RF2.val) * T (t.flatten.map RF2.val))) := by
  have hu := r.u_nonneg
  have hlen : 0 < t.flatten.length := List.length_pos_of_ne_nil hne
  have hn1 : (1 : K) ≤ (t.flatten.length : K) := by exact_mod_cast hlen
  set vs := t.flatten.map RF2.val with hvs
  have hvl : (vs.length : K) = (t.flatten.length : K) := by simp [hvs]
  set n : K := (t.flatten.length : K) with hn
  have hnpos : 0 < n := by linarith
  have hh0 : (0 : K) ≤ (height t : K) := Nat.cast_nonneg _
  have hk0 : 0 ≤ M / σ := div_nonneg hM hσ.le
  have hx0 : 0 ≤ n * r.u := by positivity
  have hux : r.u ≤ n * r.u := by nlinarith
  obtain ⟨hxs, hε₂⟩ := kurt_small_arith (n * r.u) (height t : K) (M / σ) hx0 hh0 hk0 hε₄
  have hutiny : r.u ≤ 1/2097152 := by linarith
  have hsmall : (n + 28) * r.u ≤ 1/64 := by nlinarith
  have hnu : n * r.u ≤ 1/64 := by linarith
  have hTpos : 0 < T vs := by rw [← hvar]; positivity
  have hcond : n * r.u * M ≤ σ :=
    cond_of_eps n r.u M σ (32 * (257840 + 3555 * (height t : K) + 55 * (height t : K)^2))
      (157556 + 1540 * (height t : K)) 1 hnpos.le hu hM hσ (by positivity) (by norm_num)
      (by linarith) hε₄.le
  have hS := sum2_mtree_rel r M hM t hb hnu σ hσ hvar hcond
  have hS4 := sum4_mtree_rel r M hM t hne hb hsmall σ hσ hvar hcond
  have havg : (Kurtosis.evalTree t).avg.avg = Variance.evalTree t := by
    rw [Kurtosis.mtree_avg, Skewness.mtree_avg]
  have hcount : (Kurtosis.evalTree t).avg.avg.avg.n = t.flatten.length := Kurtosis.mtree_n t
  have hne0 : (Kurtosis.evalTree t).avg.avg.avg.n ≠ 0 := by rw [hcount]; omega
  rw [← havg] at hS
  have hTQ : T vs * T vs ≤ ((Kurtosis.evalTree t).avg.avg.avg.n : K) * Q vs := by
    rw [hcount, ← sq]; have := KurtErr.T_sq_le vs; rwa [hvl] at this
  have hQpos : 0 < Q vs := by
    rw [hcount] at hTQ
    have hTT : 0 < T vs * T vs := mul_pos hTpos hTpos
    by_contra hcon
    rw [not_lt] at hcon
    have : n * Q vs ≤ 0 := mul_nonpos_of_nonneg_of_nonpos hnpos.le hcon
    linarith
  have hε₄0 : 0 ≤ n * r.u * (32 * (257840 + 3555 * (height t : K) + 55 * (height t : K)^2)
      + (157556 + 1540 * (height t : K)) * (M / σ)) := by positivity
  refine ⟨?_, ?_⟩
  · intro h0
    rw [h0, zero_sub, abs_neg, abs_of_pos hQpos] at hS4
    nlinarith
  have main := KurtAcc.kurtosis_error_scale heq (Kurtosis.evalTree t) hne0 (T vs) (Q vs)
    (n * r.u * (10 + 62 * (M / σ))) _ hTpos hTQ (by positivity) (by linarith) hε₄0 hε₄ (by linarith)
    hS hS4
  rw [hcount] at main
  refine le_trans main ?_
  have hG0 : 0 ≤ n * Q vs / (T vs * T vs) := by positivity
  have hF := kurt_factor_le_mid r.u (n * r.u * (10 + 62 * (M / σ))) _ hu hutiny (by positivity) hε₂ hε₄0
  have hA := kurt_tree_arith (n * r.u) r.u (height t : K) (M / σ) hx0 hux hh0 hk0
  calc _ ≤ n * Q vs / (T vs * T vs)
          * (n * r.u * (8259156 + 113874 * (height t : K) + 1762 * (height t : K)^2
              + (157838 + 1542 * (height t : K)) * (M / σ))) :=
        mul_le_mul_of_nonneg_left (le_trans hF hA) hG0
    _ = _ := by ring

end kurt

end AccMerge

#print axioms AccMerge.skew_mtree_accessor
#print axioms AccMerge.skew_mtree_accessor_env
#print axioms AccMerge.kurt_mtree_accessor_scales
#print axioms AccMerge.kurt_mtree_accessor_rel
