import AvgProofs.MomNErrNum
import AvgProofs.SkewErrEnv
import AvgProofs.CovErrLin
import AvgProofs.SampleStatErrVar

/-!
# Envelope forms of the forward-error bound of `m[1]` of `define_moments!`, and `central_moment(3)`

`L = n + 10`.
* `mom3_fold_error_closed`: `V3m ≤ 2M·T + 3·T·S₀` inserted.
* `mom3_envelope`: `T ≤ n·σ²`, `L·u·M ≤ σ`  ⟹  `|m[1] - U| ≤ 10·L·u·V3m + 70·L²·u·M·σ²`.
* `mom3_fold_error_V3`: with `V3m ≤ 40·V3`, `V3 = Σ|x - mean|³`.
* `mom3_envelope_V3`: `n·σ² = T`, `σ > 0`, `n ≥ 1`  ⟹  `|m[1] - U| ≤ L·u·V3·(400 + 70·(L/n)·(M/σ))`;
  `mom3_envelope_lin`: `n ≥ 3` ⟹ `≤ 400·L·u·V3·(1 + M/σ)`.
* `cm3_val`: `central_moment(3) = fl(m[1]/n)`; `cm3_error_num`, `cm3_envelope_lin`:
  `|central_moment(3) - U/n| ≤ 401·L·u·(V3/n)·(1 + M/σ)`.
-/
open Avg MSpec Finset VarSpec SkewSpec VarErr SkewErr MomVarErr

namespace MomNErr
variable {K : Type} [Field K] [LinearOrder K] [IsStrictOrderedRing K]

section fold
variable {r : Rnd2 K} [Neg (RF2 r)]

/-- **Fully closed form.** `|x_i| ≤ M`, `(n+28)·u ≤ 1/64`, `T ≤ S₀²`, `n·T ≤ R₀²`, `L = n + 10`:
`|m[1] - U| ≤ 31·L·u·M·T + 30·L·u·T·S₀ + 13·u·M·R₀² + 30·L²·u²·M²·R₀ + 16·L⁴·u³·M³`. -/
theorem mom3_fold_error_closed (hneg : NegExact r) (N : Nat) (hN : 3 ≤ N) (M : K) (hM : 0 ≤ M)
    (xs : List (RF2 r))
    (hb : ∀ x ∈ xs, |x.val| ≤ M) (hsmall : ((xs.length : K) + 28) * r.u ≤ 1/64)
    (S₀ : K) (hS : 0 ≤ S₀) (hST : T (xs.map RF2.val) ≤ S₀^2)
    (R₀ : K) (hR : 0 ≤ R₀) (hRT : (xs.length : K) * T (xs.map RF2.val) ≤ R₀^2) :
    |(mfold N xs).m1.val - U (xs.map RF2.val)|
      ≤ 31 * ((xs.length : K) + 10) * r.u * M * T (xs.map RF2.val)
        + 30 * ((xs.length : K) + 10) * r.u * T (xs.map RF2.val) * S₀
        + 13 * r.u * M * R₀^2
        + 30 * ((xs.length : K) + 10)^2 * r.u^2 * M^2 * R₀
        + 16 * ((xs.length : K) + 10)^4 * r.u^3 * M^3 := by
  have hu := r.u_nonneg
  have hn0 : (0 : K) ≤ xs.length := Nat.cast_nonneg _
  have h := mom3_fold_error_num hneg N hN M hM xs hb hsmall R₀ hR hRT
  have hv := V3m_le (xs.map RF2.val) M hM (by
    intro y hy; rw [List.mem_map] at hy; obtain ⟨z, hz, rfl⟩ := hy; exact hb z hz) S₀ hS hST
  have hc : 0 ≤ 10 * ((xs.length : K) + 10) * r.u := by positivity
  have := mul_le_mul_of_nonneg_left hv hc
  linarith

/-- **Envelope form, linear in the conditioning.** If `σ ≥ 0` with `T ≤ n·σ²` and `L·u·M ≤ σ`
(`L = n + 10`), then `|m[1] - U| ≤ 10·L·u·V3m + 70·L²·u·M·σ²`. -/
theorem mom3_envelope (hneg : NegExact r) (N : Nat) (hN : 3 ≤ N) (M : K) (hM : 0 ≤ M)
    (xs : List (RF2 r))
    (hb : ∀ x ∈ xs, |x.val| ≤ M) (hsmall : ((xs.length : K) + 28) * r.u ≤ 1/64)
    (σ : K) (hσ : 0 ≤ σ) (hvar : T (xs.map RF2.val) ≤ xs.length * σ^2)
    (hcond : ((xs.length : K) + 10) * r.u * M ≤ σ) :
    |(mfold N xs).m1.val - U (xs.map RF2.val)|
      ≤ 10 * ((xs.length : K) + 10) * r.u * V3m (xs.map RF2.val)
        + 70 * ((xs.length : K) + 10)^2 * r.u * M * σ^2 := by
  have hu := r.u_nonneg
  set n : K := (xs.length : K) with hn
  have hn0 : 0 ≤ n := Nat.cast_nonneg _
  set Tn := T (xs.map RF2.val) with hTn
  have hT0 : 0 ≤ Tn := T_nonneg _
  have hRT : n * Tn ≤ (n * σ)^2 := by
    calc n * Tn ≤ n * (n * σ^2) := by gcongr
      _ = (n * σ)^2 := by ring
  have h := mom3_fold_error_num hneg N hN M hM xs hb hsmall (n * σ) (by positivity) hRT
  refine le_trans h ?_
  set L := n + 10 with hL
  have hnL : n ≤ L := by linarith
  have hL0 : 0 ≤ L := by linarith
  set w := L * r.u * M with hw
  have hw0 : 0 ≤ w := by positivity
  have t1 : 11 * L * r.u * M * Tn ≤ 11 * (L * w * σ^2) := by
    calc 11 * L * r.u * M * Tn = 11 * w * Tn := by rw [hw]; ring
      _ ≤ 11 * w * (L * σ^2) := by
          have : Tn ≤ L * σ^2 := le_trans hvar (by gcongr)
          gcongr
      _ = 11 * (L * w * σ^2) := by ring
  have t2 : 13 * r.u * M * (n * σ)^2 ≤ 13 * (L * w * σ^2) := by
    calc 13 * r.u * M * (n * σ)^2 = 13 * (r.u * M * σ^2) * (n * n) := by ring
      _ ≤ 13 * (r.u * M * σ^2) * (L * L) := by gcongr
      _ = 13 * (L * w * σ^2) := by rw [hw]; ring
  have t3 : 30 * L^2 * r.u^2 * M^2 * (n * σ) ≤ 30 * (L * w * σ^2) := by
    calc 30 * L^2 * r.u^2 * M^2 * (n * σ) = 30 * (w * σ * n) * w := by rw [hw]; ring
      _ ≤ 30 * (w * σ * L) * σ := by gcongr
      _ = 30 * (L * w * σ^2) := by ring
  have t4 : 16 * L^4 * r.u^3 * M^3 ≤ 16 * (L * w * σ^2) := by
    calc 16 * L^4 * r.u^3 * M^3 = 16 * (L * w) * (w * w) := by rw [hw]; ring
      _ ≤ 16 * (L * w) * (σ * σ) := by gcongr
      _ = 16 * (L * w * σ^2) := by ring
  have e : 70 * L^2 * r.u * M * σ^2 = 70 * (L * w * σ^2) := by rw [hw]; ring
  rw [e]
  linarith

/-- the numerical bound in terms of `V3 = Σ|x - mean|³`:
`|m[1] - U| ≤ 400·L·u·V3 + 11·L·u·M·T + 13·u·M·R₀² + 30·L²·u²·M²·R₀ + 16·L⁴·u³·M³`. -/
theorem mom3_fold_error_V3 (hneg : NegExact r) (N : Nat) (hN : 3 ≤ N) (M : K) (hM : 0 ≤ M)
    (xs : List (RF2 r))
    (hb : ∀ x ∈ xs, |x.val| ≤ M) (hsmall : ((xs.length : K) + 28) * r.u ≤ 1/64)
    (R₀ : K) (hR : 0 ≤ R₀) (hRT : (xs.length : K) * T (xs.map RF2.val) ≤ R₀^2) :
    |(mfold N xs).m1.val - U (xs.map RF2.val)|
      ≤ 400 * ((xs.length : K) + 10) * r.u * V3 (xs.map RF2.val)
        + 11 * ((xs.length : K) + 10) * r.u * M * T (xs.map RF2.val)
        + 13 * r.u * M * R₀^2
        + 30 * ((xs.length : K) + 10)^2 * r.u^2 * M^2 * R₀
        + 16 * ((xs.length : K) + 10)^4 * r.u^3 * M^3 := by
  have hu := r.u_nonneg
  have hn0 : (0 : K) ≤ xs.length := Nat.cast_nonneg _
  have h := mom3_fold_error_num hneg N hN M hM xs hb hsmall R₀ hR hRT
  have hv := V3m_le_V3 (xs.map RF2.val)
  have hc : 0 ≤ 10 * ((xs.length : K) + 10) * r.u := by positivity
  have := mul_le_mul_of_nonneg_left hv hc
  linarith

/-- **Envelope in the scale `V3 = n·ν_3`.** `n ≥ 1`, `σ > 0` with `n·σ² = T`, `L·u·M ≤ σ`:
`|m[1] - U| ≤ L·u·V3·(400 + 70·(L/n)·(M/σ))`. -/
theorem mom3_envelope_V3 (hneg : NegExact r) (N : Nat) (hN : 3 ≤ N) (M : K) (hM : 0 ≤ M)
    (xs : List (RF2 r)) (hne : xs ≠ [])
    (hb : ∀ x ∈ xs, |x.val| ≤ M) (hsmall : ((xs.length : K) + 28) * r.u ≤ 1/64)
    (σ : K) (hσ : 0 < σ) (hvar : (xs.length : K) * σ^2 = T (xs.map RF2.val))
    (hcond : ((xs.length : K) + 10) * r.u * M ≤ σ) :
    |(mfold N xs).m1.val - U (xs.map RF2.val)|
      ≤ ((xs.length : K) + 10) * r.u * V3 (xs.map RF2.val)
          * (400 + 70 * (((xs.length : K) + 10) / (xs.length : K)) * (M / σ)) := by
  have hu := r.u_nonneg
  have hnpos : (0 : K) < xs.length := by exact_mod_cast List.length_pos_of_ne_nil hne
  have h := mom3_envelope hneg N hN M hM xs hb hsmall σ hσ.le (le_of_eq hvar.symm) hcond
  have hv := V3m_le_V3 (xs.map RF2.val)
  have hlen : (xs.map RF2.val).length = xs.length := by simp
  have hs := sigma_cube_le (xs.map RF2.val) σ (by rw [hlen]; exact le_of_eq hvar)
  rw [hlen] at hs
  set n : K := (xs.length : K) with hn
  set L := n + 10 with hL
  have hL0 : 0 ≤ L := by linarith
  have h1 : 10 * L * r.u * V3m (xs.map RF2.val) ≤ 10 * L * r.u * (40 * V3 (xs.map RF2.val)) := by
    gcongr
  have h2 : 70 * L^2 * r.u * M * σ^2 ≤ L * r.u * V3 (xs.map RF2.val) * (70 * (L / n) * (M / σ)) := by
    have e : 70 * L^2 * r.u * M * σ^2 = L * r.u * (n * σ^3) * (70 * (L / n) * (M / σ)) := by
      field_simp
    rw [e]
    have : 0 ≤ 70 * (L / n) * (M / σ) := by positivity
    gcongr
  calc _ ≤ 10 * L * r.u * V3m (xs.map RF2.val) + 70 * L^2 * r.u * M * σ^2 := h
    _ ≤ 10 * L * r.u * (40 * V3 (xs.map RF2.val))
        + L * r.u * V3 (xs.map RF2.val) * (70 * (L / n) * (M / σ)) := by linarith
    _ = L * r.u * V3 (xs.map RF2.val) * (400 + 70 * (L / n) * (M / σ)) := by ring

/-- **Linear in `κ = 1 + M/σ`.** `n ≥ 3`: `|m[1] - U| ≤ 400·L·u·V3·(1 + M/σ)`. -/
theorem mom3_envelope_lin (hneg : NegExact r) (N : Nat) (hN : 3 ≤ N) (M : K) (hM : 0 ≤ M)
    (xs : List (RF2 r)) (h3 : 3 ≤ xs.length)
    (hb : ∀ x ∈ xs, |x.val| ≤ M) (hsmall : ((xs.length : K) + 28) * r.u ≤ 1/64)
    (σ : K) (hσ : 0 < σ) (hvar : (xs.length : K) * σ^2 = T (xs.map RF2.val))
    (hcond : ((xs.length : K) + 10) * r.u * M ≤ σ) :
    |(mfold N xs).m1.val - U (xs.map RF2.val)|
      ≤ 400 * ((xs.length : K) + 10) * r.u * V3 (xs.map RF2.val) * (1 + M / σ) := by
  have hne : xs ≠ [] := by intro h; rw [h] at h3; simp at h3
  have hn3 : (3 : K) ≤ xs.length := by exact_mod_cast h3
  have hnpos : (0 : K) < xs.length := by linarith
  have h := mom3_envelope_V3 hneg N hN M hM xs hne hb hsmall σ hσ hvar hcond
  refine le_trans h ?_
  have hu := r.u_nonneg
  have hV := V3_nonneg (xs.map RF2.val)
  have hq : ((xs.length : K) + 10) / (xs.length : K) ≤ 40/7 := by
    rw [div_le_iff₀ hnpos]; linarith
  have hMσ : 0 ≤ M / σ := by positivity
  have hc : 400 + 70 * (((xs.length : K) + 10) / (xs.length : K)) * (M / σ)
      ≤ 400 * (1 + M / σ) := by
    have : 70 * (((xs.length : K) + 10) / (xs.length : K)) * (M / σ)
        ≤ 70 * (40/7) * (M / σ) := by gcongr
    linarith
  calc ((xs.length : K) + 10) * r.u * V3 (xs.map RF2.val)
        * (400 + 70 * (((xs.length : K) + 10) / (xs.length : K)) * (M / σ))
      ≤ ((xs.length : K) + 10) * r.u * V3 (xs.map RF2.val) * (400 * (1 + M / σ)) := by
        gcongr
    _ = 400 * ((xs.length : K) + 10) * r.u * V3 (xs.map RF2.val) * (1 + M / σ) := by ring

/-! ## `central_moment(3)` -/
variable [FloatOps (RF2 r)]

/-- after at least one `add` (`N ≥ 3`) the entry read by the accessors (`m[1]`, default `nan`) is `m1` -/
theorem mfold_getD1_nan (N : Nat) (hN : 3 ≤ N) (xs : List (RF2 r)) (hne : xs ≠ []) :
    (mfold N xs).m.getD 1 nan = (mfold N xs).m1 := by
  obtain ⟨ys, x, rfl⟩ : ∃ ys x, xs = ys ++ [x] := by
    induction xs using List.reverseRecOn with
    | nil => exact absurd rfl hne
    | append_singleton ys x _ => exact ⟨ys, x, rfl⟩
  unfold mfold
  rw [List.foldl_append, List.foldl_cons, List.foldl_nil]
  exact Moments.add_getD_m1 N hN _ x _

omit [Neg (RF2 r)] in
/-- `central_moment(3)` does not panic for `N ≥ 3` and returns `m[1]/n` -/
theorem central_moment3_eq (N : Nat) (hN : 3 ≤ N) (s : Moments (RF2 r)) :
    s.centralMoment N 3 = .val (s.cmRaw 3) := by
  unfold Moments.centralMoment
  rw [if_pos (Or.inr (Or.inr hN))]

/-- what `central_moment(3)` computes at `RF2 r` for a non-empty stream: `fl(m[1]/n)` -/
theorem cm3_val (N : Nat) (hN : 3 ≤ N) (xs : List (RF2 r)) (hne : xs ≠ []) :
    ((mfold N xs).cmRaw 3).val = r.fl ((mfold N xs).m1.val / (xs.length : K)) := by
  have hn := mfold_n (r := r) N xs
  have h0 : 0 < xs.length := List.length_pos_of_ne_nil hne
  have h := SSE.cmRaw_val (mfold N xs) 3 (by norm_num) (by rw [hn]; exact h0)
  rw [h, hn]
  have e : (3 : ℕ) - 2 = 1 := rfl
  rw [e, mfold_getD1_nan N hN xs hne]

/-- one more rounding: `|central_moment(3) - U/n| ≤ ((1+u)·|m[1] - U| + u·|U|)/n` -/
theorem cm3_error_gen (N : Nat) (hN : 3 ≤ N) (xs : List (RF2 r)) (hne : xs ≠ []) :
    |((mfold N xs).cmRaw 3).val - U (xs.map RF2.val) / (xs.length : K)|
      ≤ ((1 + r.u) * |(mfold N xs).m1.val - U (xs.map RF2.val)| + r.u * |U (xs.map RF2.val)|)
          / (xs.length : K) := by
  have hnpos : (0 : K) < xs.length := by exact_mod_cast List.length_pos_of_ne_nil hne
  rw [cm3_val N hN xs hne]
  exact CovErr.div_round_error_abs r _ _ _ hnpos

/-- **`central_moment(3)`, numerals.** `N ≥ 3`, `n ≥ 1`, `|x_i| ≤ M`, `(n+28)·u ≤ 1/64`, `n·T ≤ R₀²`:
`|central_moment(3) - U/n| ≤ (11·L·u·V3m + 12·L·u·M·T + 14·u·M·R₀² + 31·L²·u²·M²·R₀ + 17·L⁴·u³·M³)/n`. -/
theorem cm3_error_num (hneg : NegExact r) (N : Nat) (hN : 3 ≤ N) (M : K) (hM : 0 ≤ M)
    (xs : List (RF2 r)) (hne : xs ≠ [])
    (hb : ∀ x ∈ xs, |x.val| ≤ M) (hsmall : ((xs.length : K) + 28) * r.u ≤ 1/64)
    (R₀ : K) (hR : 0 ≤ R₀) (hRT : (xs.length : K) * T (xs.map RF2.val) ≤ R₀^2) :
    |((mfold N xs).cmRaw 3).val - U (xs.map RF2.val) / (xs.length : K)|
      ≤ (11 * ((xs.length : K) + 10) * r.u * V3m (xs.map RF2.val)
        + 12 * ((xs.length : K) + 10) * r.u * M * T (xs.map RF2.val)
        + 14 * r.u * M * R₀^2
        + 31 * ((xs.length : K) + 10)^2 * r.u^2 * M^2 * R₀
        + 17 * ((xs.length : K) + 10)^4 * r.u^3 * M^3) / (xs.length : K) := by
  have hu := r.u_nonneg
  have hn1 : (1 : K) ≤ xs.length := by exact_mod_cast List.length_pos_of_ne_nil hne
  have hnpos : (0 : K) < xs.length := by linarith
  have hu1856 : r.u ≤ 1/1856 := by nlinarith
  refine le_trans (cm3_error_gen N hN xs hne) ?_
  apply div_le_div_of_nonneg_right _ hnpos.le
  have hd := mom3_fold_error_num hneg N hN M hM xs hb hsmall R₀ hR hRT
  have hU := abs_U_le_V3m (xs.map RF2.val)
  set n : K := (xs.length : K) with hn
  set L := n + 10 with hL
  have hL11 : 11 ≤ L := by linarith
  set V := V3m (xs.map RF2.val) with hV
  have hV0 : 0 ≤ V := V3m_nonneg _
  set Tn := T (xs.map RF2.val) with hTn
  have hT0 : 0 ≤ Tn := T_nonneg _
  set D := |(mfold N xs).m1.val - U (xs.map RF2.val)| with hD
  have hD0 : 0 ≤ D := abs_nonneg _
  have hD' : (1 + r.u) * D ≤ (1 + 1/1856) * (10 * L * r.u * V + 11 * L * r.u * M * Tn
      + 13 * r.u * M * R₀^2 + 30 * L^2 * r.u^2 * M^2 * R₀ + 16 * L^4 * r.u^3 * M^3) := by
    gcongr
  have hUu : r.u * |U (xs.map RF2.val)| ≤ r.u * V := by gcongr
  have a1 : 0 ≤ L * r.u * V := by positivity
  have a2 : 0 ≤ L * r.u * M * Tn := by positivity
  have a3 : 0 ≤ r.u * M * R₀^2 := by positivity
  have a4 : 0 ≤ L^2 * r.u^2 * M^2 * R₀ := by positivity
  have a5 : 0 ≤ L^4 * r.u^3 * M^3 := by positivity
  have a6 : r.u * V ≤ 1/11 * (L * r.u * V) := by
    have : 0 ≤ r.u * V := by positivity
    nlinarith
  linarith

/-- **`central_moment(3)` inside an envelope linear in `κ = 1 + M/σ`.** `N ≥ 3`, `n ≥ 3`, `σ > 0` with
`n·σ² = T`, `L·u·M ≤ σ`:  `|central_moment(3) - U/n| ≤ 401·L·u·(V3/n)·(1 + M/σ)`. -/
theorem cm3_envelope_lin (hneg : NegExact r) (N : Nat) (hN : 3 ≤ N) (M : K) (hM : 0 ≤ M)
    (xs : List (RF2 r)) (h3 : 3 ≤ xs.length)
    (hb : ∀ x ∈ xs, |x.val| ≤ M) (hsmall : ((xs.length : K) + 28) * r.u ≤ 1/64)
    (σ : K) (hσ : 0 < σ) (hvar : (xs.length : K) * σ^2 = T (xs.map RF2.val))
    (hcond : ((xs.length : K) + 10) * r.u * M ≤ σ) :
    |((mfold N xs).cmRaw 3).val - U (xs.map RF2.val) / (xs.length : K)|
      ≤ 401 * ((xs.length : K) + 10) * r.u * (V3 (xs.map RF2.val) / (xs.length : K)) * (1 + M / σ) := by
  have hne : xs ≠ [] := by intro h; rw [h] at h3; simp at h3
  have hu := r.u_nonneg
  have hn3 : (3 : K) ≤ xs.length := by exact_mod_cast h3
  have hnpos : (0 : K) < xs.length := by linarith
  have hu1856 : r.u ≤ 1/1856 := by nlinarith
  refine le_trans (cm3_error_gen N hN xs hne) ?_
  have e : 401 * ((xs.length : K) + 10) * r.u * (V3 (xs.map RF2.val) / (xs.length : K)) * (1 + M / σ)
      = (401 * ((xs.length : K) + 10) * r.u * V3 (xs.map RF2.val) * (1 + M / σ)) / (xs.length : K) := by
    ring
  rw [e]
  apply div_le_div_of_nonneg_right _ hnpos.le
  have hd := mom3_envelope_lin hneg N hN M hM xs h3 hb hsmall σ hσ hvar hcond
  have hU := abs_U_le_V3 (xs.map RF2.val)
  set n : K := (xs.length : K) with hn
  set L := n + 10 with hL
  have hL13 : 13 ≤ L := by linarith
  set V := V3 (xs.map RF2.val) with hV
  have hV0 : 0 ≤ V := V3_nonneg _
  set κ := 1 + M / σ with hκ
  have hκ1 : 1 ≤ κ := by
    have : 0 ≤ M / σ := by positivity
    linarith
  set D := |(mfold N xs).m1.val - U (xs.map RF2.val)| with hD
  have hD0 : 0 ≤ D := abs_nonneg _
  have hD' : (1 + r.u) * D ≤ (1 + 1/1856) * (400 * L * r.u * V * κ) := by gcongr
  have hUu : r.u * |U (xs.map RF2.val)| ≤ r.u * V := by gcongr
  have a0 : 0 ≤ r.u * V := by positivity
  have a1 : r.u * V ≤ 1/13 * (L * r.u * V * κ) := by
    have : r.u * V * 13 ≤ r.u * V * (L * κ) := by
      have : 13 ≤ L * κ := by nlinarith
      gcongr
    nlinarith
  have a2 : 0 ≤ L * r.u * V * κ := by positivity
  linarith

end fold
end MomNErr

#print axioms MomNErr.mom3_envelope
#print axioms MomNErr.mom3_envelope_lin
#print axioms MomNErr.cm3_error_num
#print axioms MomNErr.cm3_envelope_lin
