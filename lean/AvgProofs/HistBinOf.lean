import AvgModel.Spec
import AvgProofs.HistSearch

/-! # `find` equals the declarative bin specification `Spec.binOf` -/
namespace Avg
open Avg.Spec
variable {K : Type} [LinearOrder K] [FloatOps K] [OrdLawful K]

theorem fle_ord (a b : K) : fle a b = decide (a ≤ b) := by
  unfold fle
  simp only [ord_lt, ord_eqb]
  by_cases h : a ≤ b
  · rcases lt_or_eq_of_le h with h' | h' <;> simp [h, h']
  · have h1 : ¬ a < b := fun h' => h (le_of_lt h')
    have h2 : ¬ a = b := fun h' => h (le_of_eq h')
    simp [h, h1, h2]

theorem binPred_iff (r : List K) (x : K) (i : Nat) :
    (match r[i]?, r[i+1]? with
      | some lo, some hi => fle lo x && FloatOps.lt x hi
      | _, _ => false) = true ↔ InBin r i x := by
  unfold InBin
  cases h1 : r[i]? with
  | none => simp
  | some lo =>
    cases h2 : r[i+1]? with
    | none => simp
    | some hi => simp [fle_ord]

theorem find_eq_binOf' (h : Hist K) (x : K) (hs : h.range.Pairwise (· ≤ ·))
    (hl : h.range.length = h.bin.length + 1) :
    h.find x = match binOf h.range x with
      | some i => .ok i
      | none => .outOfRange := by
  unfold binOf
  cases hb : (List.range (h.range.length - 1)).find? _ with
  | some i =>
    have := List.find?_some hb
    exact (find_iff_inBin h x hs hl i).mpr ((binPred_iff h.range x i).mp this)
  | none =>
    rw [List.find?_eq_none] at hb
    cases hf : h.find x with
    | ok j =>
      exfalso
      have hin := (find_iff_inBin h x hs hl j).mp hf
      obtain ⟨lo, hi, _, h2, _, _⟩ := id hin
      obtain ⟨p2, _⟩ := List.getElem?_eq_some_iff.mp h2
      exact hb j (List.mem_range.mpr (by omega)) ((binPred_iff h.range x j).mpr hin)
    | outOfRange => rfl
    | panic => exact absurd hf (find_ne_panic h x)

end Avg
