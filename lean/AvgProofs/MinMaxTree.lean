import AvgModel.Weighted
import AvgProofs.MTree
import Mathlib.Order.Lattice
import Mathlib.Order.MinMax
import Mathlib.Order.BoundedOrder.Basic

/-!
# `Min` / `Max` through merge trees

`Min.add s x = ⟨fmin s.x x⟩`, `Min.merge s o = s.add o.x`, `Min.new = ⟨posInf⟩` (and dually `Max`).
If `fmin` is associative and `posInf` is absorbed on the right by every value a fold can produce,
every merge tree gives the sequential fold. In a linear order with `fmin = min` and `posInf` a
greatest element, that fold is the least element of the data.
-/
open Avg

namespace Avg
variable {α : Type} [FloatOps α]

theorem Min.foldl_add (xs : List α) (s : Min α) :
    xs.foldl Min.add s = ⟨xs.foldl FloatOps.fmin s.x⟩ := by
  induction xs generalizing s with
  | nil => rfl
  | cons x xs ih => rw [List.foldl_cons, ih]; rfl

theorem Max.foldl_add (xs : List α) (s : Max α) :
    xs.foldl Max.add s = ⟨xs.foldl FloatOps.fmax s.x⟩ := by
  induction xs generalizing s with
  | nil => rfl
  | cons x xs ih => rw [List.foldl_cons, ih]; rfl

omit [FloatOps α] in
/-- generic core: `f` associative, `e` idempotent and absorbed on the right by every `f e y` -/
theorem foldl_merge_weak (f : α → α → α) (e : α) (hassoc : ∀ a b c, f (f a b) c = f a (f b c))
    (he : f e e = e) (hid : ∀ y, f (f e y) e = f e y) (xs ys : List α) :
    f (xs.foldl f e) (ys.foldl f e) = (xs ++ ys).foldl f e := by
  have ha : f (xs.foldl f e) e = xs.foldl f e := by
    cases xs with
    | nil => exact he
    | cons x xs => rw [List.foldl_cons, ← MTree.foldl_assoc f hassoc, hassoc, ← hassoc e, hid]
  rw [MTree.foldl_assoc f hassoc, ha, List.foldl_append]

/-- `Min`: every merge tree = the sequential fold. Hypotheses as weak as `f64::min` needs them
when NaNs may be present (`min(+∞, NaN) = +∞`, so `+∞` is NOT a right identity for NaN, but it is
for every value `min(+∞, y)`). -/
theorem Min.mtree_weak
    (hassoc : ∀ a b c : α, FloatOps.fmin (FloatOps.fmin a b) c = FloatOps.fmin a (FloatOps.fmin b c))
    (he : FloatOps.fmin (FloatOps.posInf : α) FloatOps.posInf = FloatOps.posInf)
    (hid : ∀ y : α, FloatOps.fmin (FloatOps.fmin FloatOps.posInf y) FloatOps.posInf
        = FloatOps.fmin FloatOps.posInf y)
    (t : MTree α) : t.eval Min.new Min.add Min.merge = t.flatten.foldl Min.add Min.new := by
  apply MTree.eval_eq_foldl
  intro xs ys
  rw [Min.foldl_add, Min.foldl_add, Min.foldl_add]
  show (⟨FloatOps.fmin _ _⟩ : Min α) = _
  rw [show (Min.new : Min α).x = FloatOps.posInf from rfl,
    foldl_merge_weak FloatOps.fmin FloatOps.posInf hassoc he hid]

theorem Max.mtree_weak
    (hassoc : ∀ a b c : α, FloatOps.fmax (FloatOps.fmax a b) c = FloatOps.fmax a (FloatOps.fmax b c))
    (he : FloatOps.fmax (FloatOps.negInf : α) FloatOps.negInf = FloatOps.negInf)
    (hid : ∀ y : α, FloatOps.fmax (FloatOps.fmax FloatOps.negInf y) FloatOps.negInf
        = FloatOps.fmax FloatOps.negInf y)
    (t : MTree α) : t.eval Max.new Max.add Max.merge = t.flatten.foldl Max.add Max.new := by
  apply MTree.eval_eq_foldl
  intro xs ys
  rw [Max.foldl_add, Max.foldl_add, Max.foldl_add]
  show (⟨FloatOps.fmax _ _⟩ : Max α) = _
  rw [show (Max.new : Max α).x = FloatOps.negInf from rfl,
    foldl_merge_weak FloatOps.fmax FloatOps.negInf hassoc he hid]

end Avg

namespace MSpec
variable {α : Type} [LinearOrder α]

theorem foldl_min_le_init (a : α) (xs : List α) : xs.foldl min a ≤ a := by
  induction xs generalizing a with
  | nil => exact le_refl _
  | cons x xs ih => exact le_trans (ih _) (min_le_left _ _)

theorem foldl_min_le (a : α) (xs : List α) : ∀ x ∈ xs, xs.foldl min a ≤ x := by
  induction xs generalizing a with
  | nil => intro x hx; cases hx
  | cons y ys ih =>
    intro x hx
    rcases List.mem_cons.1 hx with rfl | hx
    · rw [List.foldl_cons]; exact le_trans (foldl_min_le_init _ _) (min_le_right _ _)
    · exact ih _ x hx

theorem foldl_min_mem (a : α) (xs : List α) : xs.foldl min a = a ∨ xs.foldl min a ∈ xs := by
  induction xs generalizing a with
  | nil => exact Or.inl rfl
  | cons y ys ih =>
    rcases ih (min a y) with h | h
    · rw [List.foldl_cons, h]
      rcases min_choice a y with h' | h'
      · exact Or.inl h'
      · exact Or.inr (by rw [h']; exact List.mem_cons_self)
    · exact Or.inr (List.mem_cons_of_mem _ h)

theorem foldl_max_ge_init (a : α) (xs : List α) : a ≤ xs.foldl max a :=
  foldl_min_le_init (α := αᵒᵈ) a xs
theorem foldl_max_ge (a : α) (xs : List α) : ∀ x ∈ xs, x ≤ xs.foldl max a :=
  foldl_min_le (α := αᵒᵈ) a xs
theorem foldl_max_mem (a : α) (xs : List α) : xs.foldl max a = a ∨ xs.foldl max a ∈ xs :=
  foldl_min_mem (α := αᵒᵈ) a xs

end MSpec
