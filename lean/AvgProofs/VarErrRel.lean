import AvgProofs.MeanErr2
import Mathlib.Tactic.Positivity
import Mathlib.Tactic.Linarith
import Mathlib.Tactic.Ring
import Mathlib.Tactic.FieldSimp
import Mathlib.Tactic.GCongr

/-!
# Relative-error calculus for the standard model of rounding, and the rounded increment of
# Welford's sum of squares

`RE u i a' a` : `a'` approximates `a` with relative error at most `(1+u)^i - 1` ("`i` roundings").
It is closed under rounding (`i ↦ i+1`), products (`i + j`), exact quotients.

`var_incr_error`: the increment `fl(fl(fl(δ·δ)·k)·fl(k-1))`, `δ = fl(fl(x-a)/k)`, computed by
`Variance.add` is within relative error `(1+u)^8 - 1` of `I = (x-a)²(k-1)/k ≥ 0`.
-/
variable {K : Type} [Field K] [LinearOrder K] [IsStrictOrderedRing K]

/-- `a'` approximates `a` with relative error at most `(1+u)^i - 1`. -/
def RE (u : K) (i : ℕ) (a' a : K) : Prop := |a' - a| ≤ ((1 + u)^i - 1) * |a|

namespace RE
variable {u : K}

theorem refl (u a : K) : RE u 0 a a := by simp [RE]

theorem one_le_pow (hu : 0 ≤ u) (i : ℕ) : (1:K) ≤ (1 + u)^i :=
  one_le_pow₀ (by linarith)

/-- the approximation is at most `(1+u)^i` times as large -/
theorem abs_le {i : ℕ} {a' a : K} (h : RE u i a' a) : |a'| ≤ (1 + u)^i * |a| := by
  have : a' = a + (a' - a) := by ring
  rw [this]
  calc |a + (a' - a)| ≤ |a| + |a' - a| := abs_add_le _ _
    _ ≤ |a| + ((1 + u)^i - 1) * |a| := by unfold RE at h; linarith
    _ = (1 + u)^i * |a| := by ring

/-- one more rounding -/
theorem round (fl : K → K) (hu : 0 ≤ u) (hfl : ∀ t, |fl t - t| ≤ u * |t|) {i : ℕ} {a' a : K}
    (h : RE u i a' a) : RE u (i+1) (fl a') a := by
  have hb := abs_le h
  unfold RE at *
  have : fl a' - a = (fl a' - a') + (a' - a) := by ring
  rw [this]
  calc |(fl a' - a') + (a' - a)| ≤ |fl a' - a'| + |a' - a| := abs_add_le _ _
    _ ≤ u * |a'| + ((1 + u)^i - 1) * |a| := add_le_add (hfl a') h
    _ ≤ u * ((1 + u)^i * |a|) + ((1 + u)^i - 1) * |a| := by gcongr
    _ = ((1 + u)^(i+1) - 1) * |a| := by ring

/-- product of two approximations -/
theorem mul (hu : 0 ≤ u) {i j : ℕ} {a' a b' b : K} (ha : RE u i a' a) (hb : RE u j b' b) :
    RE u (i+j) (a' * b') (a * b) := by
  unfold RE at *
  have hi := one_le_pow hu i
  have hj := one_le_pow hu j
  have : a' * b' - a * b = a * (b' - b) + (a' - a) * b + (a' - a) * (b' - b) := by ring
  rw [this, abs_mul a b, pow_add]
  have h1 : |a * (b' - b)| ≤ |a| * (((1 + u)^j - 1) * |b|) := by
    rw [abs_mul]; gcongr
  have h2 : |(a' - a) * b| ≤ (((1 + u)^i - 1) * |a|) * |b| := by
    rw [abs_mul]; gcongr
  have h3 : |(a' - a) * (b' - b)| ≤ (((1 + u)^i - 1) * |a|) * (((1 + u)^j - 1) * |b|) := by
    rw [abs_mul]; gcongr
  calc |a * (b' - b) + (a' - a) * b + (a' - a) * (b' - b)|
      ≤ |a * (b' - b)| + |(a' - a) * b| + |(a' - a) * (b' - b)| := by
        refine le_trans (abs_add_le _ _) ?_
        gcongr
        exact abs_add_le _ _
    _ ≤ |a| * (((1 + u)^j - 1) * |b|) + (((1 + u)^i - 1) * |a|) * |b|
          + (((1 + u)^i - 1) * |a|) * (((1 + u)^j - 1) * |b|) := by linarith
    _ = ((1 + u)^i * (1 + u)^j - 1) * (|a| * |b|) := by ring

/-- exact division by the same divisor -/
theorem div_exact {i : ℕ} {a' a : K} (h : RE u i a' a) (k : K) : RE u i (a' / k) (a / k) := by
  unfold RE at *
  rw [← sub_div, abs_div, abs_div, ← mul_div_assoc]
  gcongr

end RE

/-- **The rounded increment of `sum_2`.** With `δ = fl(fl(x - a)/k)` the computed
`fl(fl(fl(δ·δ)·k)·fl(k - 1))` is within relative error `(1+u)^8 - 1` of `I = (x - a)²·(k-1)/k`
(eight roundings: one in `x - a`, one in `/k`, both twice in `δ·δ`, then the three products and the
rounded difference `k - 1`), and `I ≥ 0`. -/
theorem var_incr_error (fl : K → K) (u : K) (hu : 0 ≤ u) (hfl : ∀ t, |fl t - t| ≤ u * |t|)
    (x a k : K) (hk : 1 ≤ k) :
    let δ := fl (fl (x - a) / k)
    let I := (x - a)^2 * ((k - 1) / k)
    0 ≤ I ∧ |fl (fl (fl (δ * δ) * k) * fl (k - 1)) - I| ≤ ((1 + u)^8 - 1) * I := by
  intro δ I
  have hkpos : 0 < k := lt_of_lt_of_le one_pos hk
  have hI : 0 ≤ I := by
    have : 0 ≤ (k - 1) / k := div_nonneg (by linarith) hkpos.le
    positivity
  refine ⟨hI, ?_⟩
  have h1 : RE u 1 (fl (x - a)) (x - a) := (RE.refl u (x - a)).round fl hu hfl
  have h2 : RE u 2 δ ((x - a) / k) := (h1.div_exact k).round fl hu hfl
  have h3 : RE u 4 (δ * δ) ((x - a) / k * ((x - a) / k)) := h2.mul hu h2
  have h4 := h3.round fl hu hfl
  have h5 := (h4.mul hu (RE.refl u k)).round fl hu hfl
  have h7 : RE u 1 (fl (k - 1)) (k - 1) := (RE.refl u (k - 1)).round fl hu hfl
  have h8 := (h5.mul hu h7).round fl hu hfl
  have hval : (x - a) / k * ((x - a) / k) * k * (k - 1) = I := by
    simp only [I]; field_simp
  rw [hval] at h8
  unfold RE at h8
  rw [abs_of_nonneg hI] at h8
  exact h8

#print axioms var_incr_error
