import AvgProofs.SkewErrSum
import AvgProofs.VarErrSharp

/-!
# Forward error of the third-order sum of `Skewness.add`, all stream lengths: symbolic form

The general induction `skew_fold_error_gen` with
* `E = Esharp β`, `β = (65/128)·u·M` (`mean_fold_error_sharp`), and
* `F i = (109/20)·i·u·T_i + (79/20)·i·u·M·R₀ + (15/4)·i³·u²·M²` (`var_fold_error_sharp_num` applied to the
  prefix of length `i`, with the same `R₀` for all prefixes: `i·T_i ≤ n·T_n ≤ R₀²`),
and the sums bounded by `errSum_le`.
-/
open Avg MSpec Finset VarSpec SkewSpec VarErr

namespace SkewErr
variable {K : Type} [Field K] [LinearOrder K] [IsStrictOrderedRing K]

/-- bound on the error of the computed sum of squares after `i` observations of the stream `vs` -/
def Fsharp (u M R₀ : K) (vs : List K) (i : ℕ) : K :=
  (109/20 * u) * i * T (vs.take i) + (79/20 * u * M * R₀) * i + (15/4 * u^2 * M^2) * (i : K)^3

theorem Fsharp_nonneg {u M R₀ : K} (hu : 0 ≤ u) (hM : 0 ≤ M) (hR : 0 ≤ R₀) (vs : List K) (i : ℕ) :
    0 ≤ Fsharp u M R₀ vs i := by
  have := T_nonneg (vs.take i)
  unfold Fsharp; positivity

/-- the hypothesis of the general theorem on `sum_2`, from `var_fold_error_sharp_num` -/
theorem var_prefix_sharp (r : Rnd2 K) (M : K) (hM : 0 ≤ M) (xs : List (RF2 r))
    (hb : ∀ x ∈ xs, |x.val| ≤ M) (hsmall : ((xs.length : K) + 28) * r.u ≤ 1/64)
    (R₀ : K) (hR : 0 ≤ R₀) (hRT : (xs.length : K) * T (xs.map RF2.val) ≤ R₀^2) :
    ∀ ys, ys <+: xs →
      |(ys.foldl Variance.add Variance.new).sum_2.val - T (ys.map RF2.val)|
        ≤ Fsharp r.u M R₀ (xs.map RF2.val) ys.length := by
  intro ys hys
  have hu := r.u_nonneg
  have hlen : (ys.length : K) ≤ xs.length := by exact_mod_cast hys.length_le
  have hl0 : (0 : K) ≤ ys.length := Nat.cast_nonneg _
  have htake : ys.map RF2.val = (xs.map RF2.val).take ys.length := by
    have := List.prefix_iff_eq_take.mp hys
    rw [← List.map_take, ← this]
  have hTle : T (ys.map RF2.val) ≤ T (xs.map RF2.val) := by
    rw [htake]; exact T_take_le _ _
  have hT0 := T_nonneg (ys.map RF2.val)
  have hRT' : (ys.length : K) * T (ys.map RF2.val) ≤ R₀^2 := by
    calc (ys.length : K) * T (ys.map RF2.val) ≤ (xs.length : K) * T (xs.map RF2.val) := by gcongr
      _ ≤ R₀^2 := hRT
  have h := var_fold_error_sharp_num r M hM ys (fun y hy => hb y (hys.subset hy)) (by nlinarith)
    R₀ hR hRT'
  refine le_trans h (le_of_eq ?_)
  unfold Fsharp
  rw [← htake]; ring

theorem Esharp_le_max {β : K} (hβ : 0 ≤ β) (n i : ℕ) (hi : i < n) :
    Esharp β i ≤ β * ((n : K) + 37/4) := by
  have hin : (i : K) ≤ n := by exact_mod_cast hi.le
  have hn0 : (0 : K) ≤ n := Nat.cast_nonneg _
  unfold Esharp
  split_ifs
  · positivity
  · gcongr

theorem Esharp_le_lin {β : K} (hβ : 0 ≤ β) (i : ℕ) :
    Esharp β i ≤ (41/8 * β) * ((i : K) + 1) := by
  unfold Esharp
  split_ifs with h
  · positivity
  · have : (1 : K) ≤ i := by exact_mod_cast Nat.one_le_iff_ne_zero.mpr h
    nlinarith

/-- **Symbolic sharp form.** `|x_i| ≤ M`, `(n+28)·u ≤ 1/64`, `n·T ≤ R₀²`; `β = (65/128)·u·M`,
`Eb = β·(n + 37/4)`, `η = (41/8)·β`, `a1 = (109/20)·u`, `a2 = (79/20)·u·M·R₀`, `a3 = (15/4)·u²·M²`,
`γ_i = (1+u)^i - 1`:

`|sum_3 - U| ≤ (1+u)^n·( γ12·VA + (γ5 + (1+γ5)·a1·n)·VB + 3(1+γ12)·Eb·T
     + (3(1+γ12)·Eb² + 3(1+γ5)(a2 + a3·n²))·R₀ + ((1+γ12)·Eb³ + 3(1+γ5)·η·T)·n
     + 3(1+γ5)·η·(a1·T + a2 + a3·n²)·n²/2 + n·u·(VA + VB) )`. -/
theorem skew_fold_error_sharp (r : Rnd2 K) (M : K) (hM : 0 ≤ M) (xs : List (RF2 r))
    (hb : ∀ x ∈ xs, |x.val| ≤ M) (hsmall : ((xs.length : K) + 28) * r.u ≤ 1/64)
    (R₀ : K) (hR : 0 ≤ R₀) (hRT : (xs.length : K) * T (xs.map RF2.val) ≤ R₀^2) :
    |(xs.foldl Skewness.add Skewness.new).sum_3.val - U (xs.map RF2.val)|
      ≤ (1 + r.u)^xs.length *
        (g r.u 12 * VA (xs.map RF2.val)
          + (g r.u 5 + (1 + g r.u 5) * ((109/20 * r.u) * xs.length)) * VB (xs.map RF2.val)
          + (1 + g r.u 12) * (3 * (65/128 * r.u * M * ((xs.length : K) + 37/4))) * T (xs.map RF2.val)
          + ((1 + g r.u 12) * (3 * (65/128 * r.u * M * ((xs.length : K) + 37/4))^2)
              + (1 + g r.u 5) * (3 * ((79/20 * r.u * M * R₀) + (15/4 * r.u^2 * M^2) * (xs.length : K)^2)))
            * R₀
          + ((1 + g r.u 12) * (65/128 * r.u * M * ((xs.length : K) + 37/4))^3
              + (1 + g r.u 5) * (3 * (41/8 * (65/128 * r.u * M)) * T (xs.map RF2.val))) * xs.length
          + (1 + g r.u 5) * (3 * (41/8 * (65/128 * r.u * M))
              * ((109/20 * r.u) * T (xs.map RF2.val) + (79/20 * r.u * M * R₀)
                  + (15/4 * r.u^2 * M^2) * (xs.length : K)^2)) * ((xs.length : K)^2 / 2)
          + xs.length * r.u * V3p (xs.map RF2.val)) := by
  have hu := r.u_nonneg
  set β := 65/128 * r.u * M with hβdef
  have hβ : 0 ≤ β := by positivity
  have hlen : (xs.map RF2.val).length = xs.length := by simp
  have hgen := skew_fold_error_gen r (Esharp β) (Fsharp r.u M R₀ (xs.map RF2.val))
    (Esharp_nonneg hβ) (Fsharp_nonneg hu hM hR _) xs
    (mean_prefix_sharp r M hM xs hb hsmall) (var_prefix_sharp r M hM xs hb hsmall R₀ hR hRT)
  refine le_trans hgen ?_
  have hn0 : (0 : K) ≤ xs.length := Nat.cast_nonneg _
  have hsum := errSum_le r.u hu (Esharp β) (Fsharp r.u M R₀ (xs.map RF2.val)) (xs.map RF2.val)
    (β * ((xs.length : K) + 37/4)) (41/8 * β) (109/20 * r.u) (79/20 * r.u * M * R₀)
    (15/4 * r.u^2 * M^2) R₀ (Esharp_nonneg hβ)
    (fun i hi => Esharp_le_max hβ xs.length i (by rwa [hlen] at hi))
    (fun i _ => Esharp_le_lin hβ i) (Fsharp_nonneg hu hM hR _) (fun i _ => le_refl _)
    (by positivity) (by positivity) (by positivity) (by positivity) hR
    (by rw [hlen]; exact hRT)
  rw [hlen] at hsum
  have hP : 0 ≤ (1 + r.u)^xs.length := by positivity
  exact mul_le_mul_of_nonneg_left (by linarith) hP

end SkewErr

#print axioms SkewErr.skew_fold_error_sharp
