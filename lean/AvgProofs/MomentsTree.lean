import AvgProofs.MomentsCanon
import AvgProofs.Project
import AvgProofs.MTree

/-!
# Mean / Variance / Skewness / Kurtosis: folds, merges and merge trees

* any carrier: the inner estimator of `Kurtosis`/`Skewness`/`Variance` after any merge tree is bit
  for bit what the inner estimator type computes through the same tree (`*.mtree_avg`);
* exact carrier: `fold = canon`, `merge canon canon = canon (++)` for the three smaller types (from
  `kurtosis_fold`, `kurtosis_merge` by projection), and `eval t = canon t.flatten` for every tree.
-/
open Avg

namespace Avg
variable {α : Type} [Add α] [Sub α] [Mul α] [Div α] [NatCast α]

/-- evaluation of a merge tree with each of the four estimators -/
abbrev Mean.evalTree (t : MTree α) : Mean α := t.eval Mean.new Mean.add Mean.merge
abbrev Variance.evalTree (t : MTree α) : Variance α := t.eval Variance.new Variance.add Variance.merge
abbrev Skewness.evalTree (t : MTree α) : Skewness α := t.eval Skewness.new Skewness.add Skewness.merge
abbrev Kurtosis.evalTree (t : MTree α) : Kurtosis α := t.eval Kurtosis.new Kurtosis.add Kurtosis.merge

theorem Kurtosis.mtree_avg (t : MTree α) : (Kurtosis.evalTree t).avg = Skewness.evalTree t := by
  induction t with
  | leaf xs => simp only [MTree.eval_leaf, Kurtosis.fold_avg]; rfl
  | node l r ihl ihr => simp only [MTree.eval_node, Kurtosis.merge_avg] at *; rw [ihl, ihr]

theorem Skewness.mtree_avg (t : MTree α) : (Skewness.evalTree t).avg = Variance.evalTree t := by
  induction t with
  | leaf xs => simp only [MTree.eval_leaf, Skewness.fold_avg]; rfl
  | node l r ihl ihr => simp only [MTree.eval_node, Skewness.merge_avg] at *; rw [ihl, ihr]

theorem Variance.mtree_avg (t : MTree α) : (Variance.evalTree t).avg = Mean.evalTree t := by
  induction t with
  | leaf xs => simp only [MTree.eval_leaf, Variance.fold_avg]; rfl
  | node l r ihl ihr => simp only [MTree.eval_node, Variance.merge_avg] at *; rw [ihl, ihr]

end Avg

namespace MSpec
variable {K : Type} [Field K] [CharZero K]

omit [CharZero K] in
theorem canonS_eq (xs : List K) :
    canonS xs = ⟨⟨⟨mean xs, xs.length⟩, sumPow xs (mean xs) 2⟩, sumPow xs (mean xs) 3⟩ := rfl
omit [CharZero K] in
theorem canonV_eq (xs : List K) : canonV xs = ⟨⟨mean xs, xs.length⟩, sumPow xs (mean xs) 2⟩ := rfl
omit [CharZero K] in
theorem canonMean_eq (xs : List K) : canonMean xs = ⟨mean xs, xs.length⟩ := rfl

/-! ### folds -/

theorem skewness_fold (xs : List K) : xs.foldl Skewness.add Skewness.new = canonS xs := by
  have h := congrArg (fun k => k.avg) (kurtosis_fold xs)
  simp only [Kurtosis.fold_avg] at h
  exact h

theorem variance_fold (xs : List K) : xs.foldl Variance.add Variance.new = canonV xs := by
  have h := congrArg (fun k => k.avg) (skewness_fold xs)
  simp only [Skewness.fold_avg] at h
  exact h

theorem mean_fold (xs : List K) : xs.foldl Mean.add Mean.new = canonMean xs := by
  have h := congrArg (fun k => k.avg) (variance_fold xs)
  simp only [Variance.fold_avg] at h
  exact h

/-! ### merges -/

theorem skewness_merge (xs ys : List K) : (canonS xs).merge (canonS ys) = canonS (xs ++ ys) := by
  have h := congrArg (fun k => k.avg) (kurtosis_merge xs ys)
  simp only [Kurtosis.merge_avg] at h
  exact h

theorem variance_merge (xs ys : List K) : (canonV xs).merge (canonV ys) = canonV (xs ++ ys) := by
  have h := congrArg (fun k => k.avg) (skewness_merge xs ys)
  simp only [Skewness.merge_avg] at h
  exact h

theorem mean_merge (xs ys : List K) : (canonMean xs).merge (canonMean ys) = canonMean (xs ++ ys) := by
  have h := congrArg (fun k => k.avg) (variance_merge xs ys)
  simp only [Variance.merge_avg] at h
  exact h

/-! ### every merge tree -/

theorem kurtosis_mtree (t : MTree K) : Kurtosis.evalTree t = canonK t.flatten :=
  MTree.eval_canon _ _ _ canonK kurtosis_fold kurtosis_merge t
theorem skewness_mtree (t : MTree K) : Skewness.evalTree t = canonS t.flatten :=
  MTree.eval_canon _ _ _ canonS skewness_fold skewness_merge t
theorem variance_mtree (t : MTree K) : Variance.evalTree t = canonV t.flatten :=
  MTree.eval_canon _ _ _ canonV variance_fold variance_merge t
theorem mean_mtree (t : MTree K) : Mean.evalTree t = canonMean t.flatten :=
  MTree.eval_canon _ _ _ canonMean mean_fold mean_merge t

end MSpec
