import AvgProofs.CovErrSharp
import AvgProofs.VarErrAccess

/-!
# Forward error of `population_covariance` and `sample_covariance` (one more rounded division), and the
# transfer of the `Variance` bounds to `sum_x_2`, `sum_y_2` and the four variances of `Covariance`
-/
open Avg MSpec Finset VarSpec CovSpec VarErr

namespace CovErr
variable {K : Type} [Field K] [LinearOrder K] [IsStrictOrderedRing K]

/-! ## transfer to the `x` and `y` parts -/

theorem bound_map_fst {r : Rnd2 K} {M : K} {ps : List (RF2 r × RF2 r)}
    (hb : ∀ p ∈ ps, |p.1.val| ≤ M) : ∀ x ∈ ps.map Prod.fst, |x.val| ≤ M := by
  intro x hx
  rw [List.mem_map] at hx
  obtain ⟨p, hp, rfl⟩ := hx
  exact hb p hp

theorem bound_map_snd {r : Rnd2 K} {M : K} {ps : List (RF2 r × RF2 r)}
    (hb : ∀ p ∈ ps, |p.2.val| ≤ M) : ∀ x ∈ ps.map Prod.snd, |x.val| ≤ M := by
  intro x hx
  rw [List.mem_map] at hx
  obtain ⟨p, hp, rfl⟩ := hx
  exact hb p hp

/-- `sum_x_2`, hypothesis `n·u ≤ 1/64`: `10·n·u·T_x + 14·n·u·Mx·R₀ + 41·n³·u²·Mx²` -/
theorem sum_x_2_error_lin (r : Rnd2 K) (M : K) (hM : 0 ≤ M) (ps : List (RF2 r × RF2 r))
    (hb : ∀ p ∈ ps, |p.1.val| ≤ M) (hsmall : (ps.length : K) * r.u ≤ 1/64)
    (R₀ : K) (hR : 0 ≤ R₀) (hRT : (ps.length : K) * T (fsts (vals ps)) ≤ R₀^2) :
    |(ps.foldl (fun (s : Covariance (RF2 r)) p => s.add p.1 p.2) Covariance.new).sum_x_2.val
        - T (fsts (vals ps))|
      ≤ 10 * ps.length * r.u * T (fsts (vals ps)) + 14 * ps.length * r.u * M * R₀
        + 41 * (ps.length : K)^3 * r.u^2 * M^2 := by
  have h := var_fold_error_lin r M hM (ps.map Prod.fst) (bound_map_fst hb)
    (by rw [List.length_map]; exact hsmall) R₀ hR
    (by rw [List.length_map, ← fsts_vals]; exact hRT)
  rw [List.length_map, ← fsts_vals] at h
  rw [Covariance.fold_sum_x_2]
  exact h

/-- `sum_y_2`, hypothesis `n·u ≤ 1/64` -/
theorem sum_y_2_error_lin (r : Rnd2 K) (M : K) (hM : 0 ≤ M) (ps : List (RF2 r × RF2 r))
    (hb : ∀ p ∈ ps, |p.2.val| ≤ M) (hsmall : (ps.length : K) * r.u ≤ 1/64)
    (R₀ : K) (hR : 0 ≤ R₀) (hRT : (ps.length : K) * T (snds (vals ps)) ≤ R₀^2) :
    |(ps.foldl (fun (s : Covariance (RF2 r)) p => s.add p.1 p.2) Covariance.new).sum_y_2.val
        - T (snds (vals ps))|
      ≤ 10 * ps.length * r.u * T (snds (vals ps)) + 14 * ps.length * r.u * M * R₀
        + 41 * (ps.length : K)^3 * r.u^2 * M^2 := by
  have h := var_fold_error_lin r M hM (ps.map Prod.snd) (bound_map_snd hb)
    (by rw [List.length_map]; exact hsmall) R₀ hR
    (by rw [List.length_map, ← snds_vals]; exact hRT)
  rw [List.length_map, ← snds_vals] at h
  rw [Covariance.fold_sum_y_2]
  exact h

/-- `sum_x_2`, hypothesis `(n+28)·u ≤ 1/64`: `(109/20)·n·u·T_x + (79/20)·n·u·Mx·R₀ + (15/4)·n³·u²·Mx²` -/
theorem sum_x_2_error_sharp (r : Rnd2 K) (M : K) (hM : 0 ≤ M) (ps : List (RF2 r × RF2 r))
    (hb : ∀ p ∈ ps, |p.1.val| ≤ M) (hsmall : ((ps.length : K) + 28) * r.u ≤ 1/64)
    (R₀ : K) (hR : 0 ≤ R₀) (hRT : (ps.length : K) * T (fsts (vals ps)) ≤ R₀^2) :
    |(ps.foldl (fun (s : Covariance (RF2 r)) p => s.add p.1 p.2) Covariance.new).sum_x_2.val
        - T (fsts (vals ps))|
      ≤ 109/20 * ps.length * r.u * T (fsts (vals ps)) + 79/20 * ps.length * r.u * M * R₀
        + 15/4 * (ps.length : K)^3 * r.u^2 * M^2 := by
  have h := var_fold_error_sharp_num r M hM (ps.map Prod.fst) (bound_map_fst hb)
    (by rw [List.length_map]; exact hsmall) R₀ hR
    (by rw [List.length_map, ← fsts_vals]; exact hRT)
  rw [List.length_map, ← fsts_vals] at h
  rw [Covariance.fold_sum_x_2]
  exact h

/-- `sum_y_2`, hypothesis `(n+28)·u ≤ 1/64` -/
theorem sum_y_2_error_sharp (r : Rnd2 K) (M : K) (hM : 0 ≤ M) (ps : List (RF2 r × RF2 r))
    (hb : ∀ p ∈ ps, |p.2.val| ≤ M) (hsmall : ((ps.length : K) + 28) * r.u ≤ 1/64)
    (R₀ : K) (hR : 0 ≤ R₀) (hRT : (ps.length : K) * T (snds (vals ps)) ≤ R₀^2) :
    |(ps.foldl (fun (s : Covariance (RF2 r)) p => s.add p.1 p.2) Covariance.new).sum_y_2.val
        - T (snds (vals ps))|
      ≤ 109/20 * ps.length * r.u * T (snds (vals ps)) + 79/20 * ps.length * r.u * M * R₀
        + 15/4 * (ps.length : K)^3 * r.u^2 * M^2 := by
  have h := var_fold_error_sharp_num r M hM (ps.map Prod.snd) (bound_map_snd hb)
    (by rw [List.length_map]; exact hsmall) R₀ hR
    (by rw [List.length_map, ← snds_vals]; exact hRT)
  rw [List.length_map, ← snds_vals] at h
  rw [Covariance.fold_sum_y_2]
  exact h

/-! ## the arithmetic of the last division -/

theorem mul_le_two_mul_pred (a n : K) (ha : 0 ≤ a) (hn : 2 ≤ n) : a * n ≤ 2 * (a * (n - 1)) := by
  nlinarith

theorem popcov_arith_sharp (u n σx σy Mx My ε D Ca : K) (hu : 0 ≤ u) (hu' : u ≤ 1/1856)
    (hn : 1 ≤ n) (hσx : 0 ≤ σx) (hσy : 0 ≤ σy) (hMx : 0 ≤ Mx) (hMy : 0 ≤ My) (hε : 0 ≤ ε)
    (hD0 : 0 ≤ D)
    (hD : D ≤ 21/5 * n * u * (n * σx * σy) + 79/40 * n * u * Mx * (n * σy)
        + 21/5 * n * u * My * (n * σx) + 39/10 * n^3 * u^2 * Mx * My + 21/20 * ε * Mx)
    (hC : Ca ≤ n * σx * σy) :
    (1 + u) * D + u * Ca
      ≤ 21/4 * n^2 * u * σx * σy + 2 * n^2 * u * Mx * σy + 17/4 * n^2 * u * My * σx
        + 4 * n^3 * u^2 * Mx * My + 11/10 * ε * Mx := by
  have hn0 : 0 ≤ n := by linarith
  have a1 : 0 ≤ n^2 * u * σx * σy := by positivity
  have a2 : 0 ≤ n^2 * u * Mx * σy := by positivity
  have a3 : 0 ≤ n^2 * u * My * σx := by positivity
  have a4 : 0 ≤ n^3 * u^2 * Mx * My := by positivity
  have a5 : 0 ≤ ε * Mx := by positivity
  have hD' : (1 + u) * D ≤ (1 + 1/1856) * (21/5 * n * u * (n * σx * σy)
        + 79/40 * n * u * Mx * (n * σy) + 21/5 * n * u * My * (n * σx)
        + 39/10 * n^3 * u^2 * Mx * My + 21/20 * ε * Mx) := by
    gcongr
  have t1 : u * Ca ≤ n^2 * u * σx * σy := by
    calc u * Ca ≤ u * (n * σx * σy) := by gcongr
      _ ≤ n^2 * u * σx * σy := by
          have : 0 ≤ n * u * σx * σy := by positivity
          nlinarith
  linarith

theorem samplecov_arith_sharp (u n σx σy Mx My ε D Ca : K) (hu : 0 ≤ u) (hu' : u ≤ 1/1856)
    (hn : 2 ≤ n) (hσx : 0 ≤ σx) (hσy : 0 ≤ σy) (hMx : 0 ≤ Mx) (hMy : 0 ≤ My) (hε : 0 ≤ ε)
    (hD0 : 0 ≤ D)
    (hD : D ≤ 21/5 * n * u * ((n - 1) * σx * σy) + 79/40 * n * u * Mx * (n * σy)
        + 21/5 * n * u * My * (n * σx) + 39/10 * n^3 * u^2 * Mx * My + 21/20 * ε * Mx)
    (hC : Ca ≤ (n - 1) * σx * σy) :
    (1 + u) * D + u * Ca
      ≤ 21/4 * n * u * σx * σy * (n - 1) + 4 * n * u * Mx * σy * (n - 1)
        + 17/2 * n * u * My * σx * (n - 1) + 8 * n^2 * u^2 * Mx * My * (n - 1)
        + 11/10 * ε * Mx := by
  have hn0 : 0 ≤ n := by linarith
  have hm0 : 0 ≤ n - 1 := by linarith
  have a1 : 0 ≤ n * u * σx * σy * (n - 1) := by positivity
  have a2 : 0 ≤ n * u * Mx * σy := by positivity
  have a3 : 0 ≤ n * u * My * σx := by positivity
  have a4 : 0 ≤ n^2 * u^2 * Mx * My := by positivity
  have a5 : 0 ≤ ε * Mx := by positivity
  have hD' : (1 + u) * D ≤ (1 + 1/1856) * (21/5 * n * u * ((n - 1) * σx * σy)
        + 79/40 * n * u * Mx * (n * σy) + 21/5 * n * u * My * (n * σx)
        + 39/10 * n^3 * u^2 * Mx * My + 21/20 * ε * Mx) := by
    gcongr
  have b2 := mul_le_two_mul_pred _ n a2 hn
  have b3 := mul_le_two_mul_pred _ n a3 hn
  have b4 := mul_le_two_mul_pred _ n a4 hn
  have t1 : u * Ca ≤ 1/2 * (n * u * σx * σy * (n - 1)) := by
    calc u * Ca ≤ u * ((n - 1) * σx * σy) := by gcongr
      _ ≤ 1/2 * (n * u * σx * σy * (n - 1)) := by
          have : 0 ≤ u * σx * σy * (n - 1) := by positivity
          nlinarith
  have c2 : 0 ≤ n * u * Mx * σy * (n - 1) := by positivity
  have c3 : 0 ≤ n * u * My * σx * (n - 1) := by positivity
  have c4 : 0 ≤ n^2 * u^2 * Mx * My * (n - 1) := by positivity
  linarith

theorem popcov_arith_lin (u n σx σy Mx My D Ca : K) (hu : 0 ≤ u) (hu' : u ≤ 1/64)
    (hn : 1 ≤ n) (hσx : 0 ≤ σx) (hσy : 0 ≤ σy) (hMx : 0 ≤ Mx) (hMy : 0 ≤ My)
    (hD0 : 0 ≤ D)
    (hD : D ≤ 5 * n * u * (n * σx * σy) + 7 * n * u * Mx * (n * σy)
        + 16 * n * u * My * (n * σx) + 38 * n^3 * u^2 * Mx * My + 12 * u * Mx * My)
    (hC : Ca ≤ n * σx * σy) :
    (1 + u) * D + u * Ca
      ≤ 7 * n^2 * u * σx * σy + 8 * n^2 * u * Mx * σy + 17 * n^2 * u * My * σx
        + 39 * n^3 * u^2 * Mx * My + 13 * u * Mx * My := by
  have hn0 : 0 ≤ n := by linarith
  have a1 : 0 ≤ n^2 * u * σx * σy := by positivity
  have a2 : 0 ≤ n^2 * u * Mx * σy := by positivity
  have a3 : 0 ≤ n^2 * u * My * σx := by positivity
  have a4 : 0 ≤ n^3 * u^2 * Mx * My := by positivity
  have a5 : 0 ≤ u * Mx * My := by positivity
  have hD' : (1 + u) * D ≤ (1 + 1/64) * (5 * n * u * (n * σx * σy)
        + 7 * n * u * Mx * (n * σy) + 16 * n * u * My * (n * σx)
        + 38 * n^3 * u^2 * Mx * My + 12 * u * Mx * My) := by
    gcongr
  have t1 : u * Ca ≤ n^2 * u * σx * σy := by
    calc u * Ca ≤ u * (n * σx * σy) := by gcongr
      _ ≤ n^2 * u * σx * σy := by
          have : 0 ≤ n * u * σx * σy := by positivity
          nlinarith
  linarith

section access
variable {r : Rnd2 K} [FloatOps (RF2 r)]

omit [FloatOps (RF2 r)] in
theorem map_fst_ne_nil {ps : List (RF2 r × RF2 r)} (h : ps ≠ []) : ps.map Prod.fst ≠ [] := by
  simpa using h
omit [FloatOps (RF2 r)] in
theorem map_snd_ne_nil {ps : List (RF2 r × RF2 r)} (h : ps ≠ []) : ps.map Prod.snd ≠ [] := by
  simpa using h

/-- `population_variance_x`: `6·n·u·var_x + 4·n·u·Mx·σ + 4·n²·u²·Mx²` -/
theorem popvar_x_error_sharp (M : K) (hM : 0 ≤ M) (ps : List (RF2 r × RF2 r)) (hne : ps ≠ [])
    (hb : ∀ p ∈ ps, |p.1.val| ≤ M) (hsmall : ((ps.length : K) + 28) * r.u ≤ 1/64)
    (σ : K) (hσ : 0 ≤ σ) (hvar : T (fsts (vals ps)) / (ps.length : K) ≤ σ^2) :
    |(ps.foldl (fun (s : Covariance (RF2 r)) p => s.add p.1 p.2)
          Covariance.new).populationVarianceX.val - T (fsts (vals ps)) / (ps.length : K)|
      ≤ 6 * ps.length * r.u * (T (fsts (vals ps)) / (ps.length : K))
        + 4 * ps.length * r.u * M * σ + 4 * (ps.length : K)^2 * r.u^2 * M^2 := by
  have h := popvar_error_sharp M hM (ps.map Prod.fst) (map_fst_ne_nil hne) (bound_map_fst hb)
    (by rw [List.length_map]; exact hsmall) σ hσ
    (by rw [List.length_map, ← fsts_vals]; exact hvar)
  rw [List.length_map, ← fsts_vals] at h
  rw [Covariance.populationVarianceX_eq, Covariance.fold_varX]
  exact h

/-- `population_variance_y` -/
theorem popvar_y_error_sharp (M : K) (hM : 0 ≤ M) (ps : List (RF2 r × RF2 r)) (hne : ps ≠ [])
    (hb : ∀ p ∈ ps, |p.2.val| ≤ M) (hsmall : ((ps.length : K) + 28) * r.u ≤ 1/64)
    (σ : K) (hσ : 0 ≤ σ) (hvar : T (snds (vals ps)) / (ps.length : K) ≤ σ^2) :
    |(ps.foldl (fun (s : Covariance (RF2 r)) p => s.add p.1 p.2)
          Covariance.new).populationVarianceY.val - T (snds (vals ps)) / (ps.length : K)|
      ≤ 6 * ps.length * r.u * (T (snds (vals ps)) / (ps.length : K))
        + 4 * ps.length * r.u * M * σ + 4 * (ps.length : K)^2 * r.u^2 * M^2 := by
  have h := popvar_error_sharp M hM (ps.map Prod.snd) (map_snd_ne_nil hne) (bound_map_snd hb)
    (by rw [List.length_map]; exact hsmall) σ hσ
    (by rw [List.length_map, ← snds_vals]; exact hvar)
  rw [List.length_map, ← snds_vals] at h
  rw [Covariance.populationVarianceY_eq, Covariance.fold_varY]
  exact h

/-- `population_variance_x` inside the design envelope: `8·n·u·(var_x + Mx·σ)` when `n·u·Mx ≤ σ` -/
theorem popvar_x_error_envelope (M : K) (hM : 0 ≤ M) (ps : List (RF2 r × RF2 r)) (hne : ps ≠ [])
    (hb : ∀ p ∈ ps, |p.1.val| ≤ M) (hsmall : ((ps.length : K) + 28) * r.u ≤ 1/64)
    (σ : K) (hσ : 0 ≤ σ) (hvar : T (fsts (vals ps)) / (ps.length : K) ≤ σ^2)
    (hcond : (ps.length : K) * r.u * M ≤ σ) :
    |(ps.foldl (fun (s : Covariance (RF2 r)) p => s.add p.1 p.2)
          Covariance.new).populationVarianceX.val - T (fsts (vals ps)) / (ps.length : K)|
      ≤ 8 * ps.length * r.u * (T (fsts (vals ps)) / (ps.length : K) + M * σ) := by
  have h := popvar_error_envelope M hM (ps.map Prod.fst) (map_fst_ne_nil hne) (bound_map_fst hb)
    (by rw [List.length_map]; exact hsmall) σ hσ
    (by rw [List.length_map, ← fsts_vals]; exact hvar) (by rw [List.length_map]; exact hcond)
  rw [List.length_map, ← fsts_vals] at h
  rw [Covariance.populationVarianceX_eq, Covariance.fold_varX]
  exact h

/-- `population_variance_y` inside the design envelope -/
theorem popvar_y_error_envelope (M : K) (hM : 0 ≤ M) (ps : List (RF2 r × RF2 r)) (hne : ps ≠ [])
    (hb : ∀ p ∈ ps, |p.2.val| ≤ M) (hsmall : ((ps.length : K) + 28) * r.u ≤ 1/64)
    (σ : K) (hσ : 0 ≤ σ) (hvar : T (snds (vals ps)) / (ps.length : K) ≤ σ^2)
    (hcond : (ps.length : K) * r.u * M ≤ σ) :
    |(ps.foldl (fun (s : Covariance (RF2 r)) p => s.add p.1 p.2)
          Covariance.new).populationVarianceY.val - T (snds (vals ps)) / (ps.length : K)|
      ≤ 8 * ps.length * r.u * (T (snds (vals ps)) / (ps.length : K) + M * σ) := by
  have h := popvar_error_envelope M hM (ps.map Prod.snd) (map_snd_ne_nil hne) (bound_map_snd hb)
    (by rw [List.length_map]; exact hsmall) σ hσ
    (by rw [List.length_map, ← snds_vals]; exact hvar) (by rw [List.length_map]; exact hcond)
  rw [List.length_map, ← snds_vals] at h
  rw [Covariance.populationVarianceY_eq, Covariance.fold_varY]
  exact h

/-- `sample_variance_x`: `6·n·u·s² + 8·n·u·Mx·σ + 8·n²·u²·Mx²` -/
theorem samplevar_x_error_sharp (M : K) (hM : 0 ≤ M) (ps : List (RF2 r × RF2 r))
    (h2 : 2 ≤ ps.length)
    (hb : ∀ p ∈ ps, |p.1.val| ≤ M) (hsmall : ((ps.length : K) + 28) * r.u ≤ 1/64)
    (σ : K) (hσ : 0 ≤ σ) (hvar : T (fsts (vals ps)) / ((ps.length - 1 : ℕ) : K) ≤ σ^2) :
    |(ps.foldl (fun (s : Covariance (RF2 r)) p => s.add p.1 p.2)
          Covariance.new).sampleVarianceX.val - T (fsts (vals ps)) / ((ps.length - 1 : ℕ) : K)|
      ≤ 6 * ps.length * r.u * (T (fsts (vals ps)) / ((ps.length - 1 : ℕ) : K))
        + 8 * ps.length * r.u * M * σ + 8 * (ps.length : K)^2 * r.u^2 * M^2 := by
  have h := samplevar_error_sharp M hM (ps.map Prod.fst) (by rw [List.length_map]; exact h2)
    (bound_map_fst hb) (by rw [List.length_map]; exact hsmall) σ hσ
    (by rw [List.length_map, ← fsts_vals]; exact hvar)
  rw [List.length_map, ← fsts_vals] at h
  rw [Covariance.sampleVarianceX_eq, Covariance.fold_varX]
  exact h

/-- `sample_variance_y` -/
theorem samplevar_y_error_sharp (M : K) (hM : 0 ≤ M) (ps : List (RF2 r × RF2 r))
    (h2 : 2 ≤ ps.length)
    (hb : ∀ p ∈ ps, |p.2.val| ≤ M) (hsmall : ((ps.length : K) + 28) * r.u ≤ 1/64)
    (σ : K) (hσ : 0 ≤ σ) (hvar : T (snds (vals ps)) / ((ps.length - 1 : ℕ) : K) ≤ σ^2) :
    |(ps.foldl (fun (s : Covariance (RF2 r)) p => s.add p.1 p.2)
          Covariance.new).sampleVarianceY.val - T (snds (vals ps)) / ((ps.length - 1 : ℕ) : K)|
      ≤ 6 * ps.length * r.u * (T (snds (vals ps)) / ((ps.length - 1 : ℕ) : K))
        + 8 * ps.length * r.u * M * σ + 8 * (ps.length : K)^2 * r.u^2 * M^2 := by
  have h := samplevar_error_sharp M hM (ps.map Prod.snd) (by rw [List.length_map]; exact h2)
    (bound_map_snd hb) (by rw [List.length_map]; exact hsmall) σ hσ
    (by rw [List.length_map, ← snds_vals]; exact hvar)
  rw [List.length_map, ← snds_vals] at h
  rw [Covariance.sampleVarianceY_eq, Covariance.fold_varY]
  exact h

/-! ## the covariances -/

/-- what `population_covariance` computes at the carrier `RF2 r` when the count is not 0 -/
theorem popcov_val (ps : List (RF2 r × RF2 r)) (hne : ps ≠ []) :
    (ps.foldl (fun (s : Covariance (RF2 r)) p => s.add p.1 p.2)
        Covariance.new).populationCovariance.val
      = r.fl ((ps.foldl (fun (s : Covariance (RF2 r)) p => s.add p.1 p.2)
          Covariance.new).sum_prod.val / (ps.length : K)) := by
  have hn := Covariance.fold_n_new ps
  have h0 : ¬ ps.length < 1 := by
    have := List.length_pos_of_ne_nil hne; omega
  unfold Covariance.populationCovariance
  rw [hn, if_neg h0]
  rfl

/-- what `sample_covariance` computes at the carrier `RF2 r` when the count is at least 2 -/
theorem samplecov_val (ps : List (RF2 r × RF2 r)) (h2 : 2 ≤ ps.length) :
    (ps.foldl (fun (s : Covariance (RF2 r)) p => s.add p.1 p.2)
        Covariance.new).sampleCovariance.val
      = r.fl ((ps.foldl (fun (s : Covariance (RF2 r)) p => s.add p.1 p.2)
          Covariance.new).sum_prod.val / ((ps.length - 1 : ℕ) : K)) := by
  have hn := Covariance.fold_n_new ps
  unfold Covariance.sampleCovariance
  rw [hn, if_neg (by omega)]
  rfl

omit [FloatOps (RF2 r)] in
/-- `|C| ≤ n·σx·σy` when `T_x/n ≤ σx²`, `T_y/n ≤ σy²` (Cauchy-Schwarz) -/
theorem abs_Cxy_le_of_var (vs : List (K × K)) (m σx σy : K) (hm : 0 < m) (hσx : 0 ≤ σx)
    (hσy : 0 ≤ σy) (hvx : T (fsts vs) / m ≤ σx^2) (hvy : T (snds vs) / m ≤ σy^2) :
    T (fsts vs) * T (snds vs) ≤ (m * σx * σy)^2 ∧ |Cxy vs| ≤ m * σx * σy := by
  have hTx : T (fsts vs) ≤ m * σx^2 := by rwa [div_le_iff₀ hm, mul_comm] at hvx
  have hTy : T (snds vs) ≤ m * σy^2 := by rwa [div_le_iff₀ hm, mul_comm] at hvy
  have hTx0 := T_nonneg (fsts vs)
  have hTy0 := T_nonneg (snds vs)
  have hprod : T (fsts vs) * T (snds vs) ≤ (m * σx * σy)^2 := by
    calc T (fsts vs) * T (snds vs) ≤ (m * σx^2) * (m * σy^2) := by gcongr
      _ = (m * σx * σy)^2 := by ring
  refine ⟨hprod, ?_⟩
  exact le_trans (abs_Cxy_le_Gxy vs) (Gxy_le vs _ (by positivity) hprod)

/-- **Population covariance, sharp numerals, any bound `ε` on the first `y`-mean.** `n ≥ 1`,
`(n+28)·u ≤ 1/64`, `cov = C/n`, `T_x/n ≤ σx²`, `T_y/n ≤ σy²`:
`|population_covariance - cov| ≤ (21/4)·n·u·σx·σy + 2·n·u·Mx·σy + (17/4)·n·u·My·σx + 4·n²·u²·Mx·My
    + (11/10)·ε·Mx/n`. -/
theorem popcov_error_sharp (Mx My : K) (hMx : 0 ≤ Mx) (hMy : 0 ≤ My) (ps : List (RF2 r × RF2 r))
    (hne : ps ≠ [])
    (hbx : ∀ p ∈ ps, |p.1.val| ≤ Mx) (hby : ∀ p ∈ ps, |p.2.val| ≤ My)
    (hsmall : ((ps.length : K) + 28) * r.u ≤ 1/64)
    (ε : K) (hε : 0 ≤ ε)
    (h1 : ∀ p, ps.head? = some p →
      |((Covariance.new : Covariance (RF2 r)).add p.1 p.2).avg_y.val - p.2.val| ≤ ε)
    (σx σy : K) (hσx : 0 ≤ σx) (hσy : 0 ≤ σy)
    (hvx : T (fsts (vals ps)) / (ps.length : K) ≤ σx^2)
    (hvy : T (snds (vals ps)) / (ps.length : K) ≤ σy^2) :
    |(ps.foldl (fun (s : Covariance (RF2 r)) p => s.add p.1 p.2)
          Covariance.new).populationCovariance.val - Cxy (vals ps) / (ps.length : K)|
      ≤ 21/4 * ps.length * r.u * σx * σy + 2 * ps.length * r.u * Mx * σy
        + 17/4 * ps.length * r.u * My * σx + 4 * (ps.length : K)^2 * r.u^2 * Mx * My
        + 11/10 * ε * Mx / (ps.length : K) := by
  have hu := r.u_nonneg
  have hnat : 1 ≤ ps.length := List.length_pos_of_ne_nil hne
  have hn1 : (1 : K) ≤ ps.length := by exact_mod_cast hnat
  rw [popcov_val ps hne]
  set n : K := (ps.length : K) with hn
  have hnpos : 0 < n := by linarith
  have hu1856 : r.u ≤ 1/1856 := by nlinarith
  obtain ⟨hprod, hC⟩ := abs_Cxy_le_of_var (vals ps) n σx σy hnpos hσx hσy hvx hvy
  have hTx : T (fsts (vals ps)) ≤ n * σx^2 := by rwa [div_le_iff₀ hnpos, mul_comm] at hvx
  have hTy : T (snds (vals ps)) ≤ n * σy^2 := by rwa [div_le_iff₀ hnpos, mul_comm] at hvy
  have hd := cov_fold_error_sharp_num r Mx My hMx hMy ps hbx hby hsmall ε hε h1 (n * σx * σy)
    (n * σx) (n * σy) (by positivity) (by positivity) (by positivity) hprod
    (by rw [mul_pow]; nlinarith) (by rw [mul_pow]; nlinarith)
  refine le_trans (div_round_error_abs r _ (Cxy (vals ps)) n hnpos) ?_
  rw [div_le_iff₀ hnpos]
  set D := |(ps.foldl (fun (s : Covariance (RF2 r)) p => s.add p.1 p.2)
      Covariance.new).sum_prod.val - Cxy (vals ps)| with hD
  have e1 : (21/4 * n * r.u * σx * σy + 2 * n * r.u * Mx * σy + 17/4 * n * r.u * My * σx
        + 4 * n^2 * r.u^2 * Mx * My + 11/10 * ε * Mx / n) * n
      = 21/4 * n^2 * r.u * σx * σy + 2 * n^2 * r.u * Mx * σy + 17/4 * n^2 * r.u * My * σx
        + 4 * n^3 * r.u^2 * Mx * My + 11/10 * ε * Mx := by
    field_simp
  rw [e1]
  exact popcov_arith_sharp r.u n σx σy Mx My ε D _ hu hu1856 hn1 hσx hσy hMx hMy hε (abs_nonneg _) hd hC

/-- **Sample covariance, sharp numerals, any bound `ε` on the first `y`-mean.** `n ≥ 2`,
`(n+28)·u ≤ 1/64`, `cov = C/(n-1)`, `T_x/(n-1) ≤ σx²`, `T_y/(n-1) ≤ σy²`:
`|sample_covariance - cov| ≤ (21/4)·n·u·σx·σy + 4·n·u·Mx·σy + (17/2)·n·u·My·σx + 8·n²·u²·Mx·My
    + (11/10)·ε·Mx/(n-1)`. -/
theorem samplecov_error_sharp (Mx My : K) (hMx : 0 ≤ Mx) (hMy : 0 ≤ My)
    (ps : List (RF2 r × RF2 r)) (h2 : 2 ≤ ps.length)
    (hbx : ∀ p ∈ ps, |p.1.val| ≤ Mx) (hby : ∀ p ∈ ps, |p.2.val| ≤ My)
    (hsmall : ((ps.length : K) + 28) * r.u ≤ 1/64)
    (ε : K) (hε : 0 ≤ ε)
    (h1 : ∀ p, ps.head? = some p →
      |((Covariance.new : Covariance (RF2 r)).add p.1 p.2).avg_y.val - p.2.val| ≤ ε)
    (σx σy : K) (hσx : 0 ≤ σx) (hσy : 0 ≤ σy)
    (hvx : T (fsts (vals ps)) / ((ps.length - 1 : ℕ) : K) ≤ σx^2)
    (hvy : T (snds (vals ps)) / ((ps.length - 1 : ℕ) : K) ≤ σy^2) :
    |(ps.foldl (fun (s : Covariance (RF2 r)) p => s.add p.1 p.2)
          Covariance.new).sampleCovariance.val - Cxy (vals ps) / ((ps.length - 1 : ℕ) : K)|
      ≤ 21/4 * ps.length * r.u * σx * σy + 4 * ps.length * r.u * Mx * σy
        + 17/2 * ps.length * r.u * My * σx + 8 * (ps.length : K)^2 * r.u^2 * Mx * My
        + 11/10 * ε * Mx / ((ps.length - 1 : ℕ) : K) := by
  have hu := r.u_nonneg
  have hn2 : (2 : K) ≤ ps.length := by exact_mod_cast h2
  rw [samplecov_val ps h2]
  have hm : ((ps.length - 1 : ℕ) : K) = (ps.length : K) - 1 := by
    rw [Nat.cast_sub (by omega)]; simp
  rw [hm] at hvx hvy ⊢
  set n : K := (ps.length : K) with hn
  have hmpos : 0 < n - 1 := by linarith
  have hn0 : 0 ≤ n := by linarith
  have hu1856 : r.u ≤ 1/1856 := by nlinarith
  obtain ⟨hprod, hC⟩ := abs_Cxy_le_of_var (vals ps) (n - 1) σx σy hmpos hσx hσy hvx hvy
  have hTx : T (fsts (vals ps)) ≤ (n - 1) * σx^2 := by rwa [div_le_iff₀ hmpos, mul_comm] at hvx
  have hTy : T (snds (vals ps)) ≤ (n - 1) * σy^2 := by rwa [div_le_iff₀ hmpos, mul_comm] at hvy
  have hσx2 : 0 ≤ σx^2 := sq_nonneg _
  have hσy2 : 0 ≤ σy^2 := sq_nonneg _
  have hd := cov_fold_error_sharp_num r Mx My hMx hMy ps hbx hby hsmall ε hε h1
    ((n - 1) * σx * σy) (n * σx) (n * σy) (by positivity) (by positivity) (by positivity) hprod
    (by rw [mul_pow]; nlinarith) (by rw [mul_pow]; nlinarith)
  refine le_trans (div_round_error_abs r _ (Cxy (vals ps)) (n - 1) hmpos) ?_
  rw [div_le_iff₀ hmpos]
  set D := |(ps.foldl (fun (s : Covariance (RF2 r)) p => s.add p.1 p.2)
      Covariance.new).sum_prod.val - Cxy (vals ps)| with hD
  have e1 : (21/4 * n * r.u * σx * σy + 4 * n * r.u * Mx * σy + 17/2 * n * r.u * My * σx
        + 8 * n^2 * r.u^2 * Mx * My + 11/10 * ε * Mx / (n - 1)) * (n - 1)
      = 21/4 * n * r.u * σx * σy * (n - 1) + 4 * n * r.u * Mx * σy * (n - 1)
        + 17/2 * n * r.u * My * σx * (n - 1) + 8 * n^2 * r.u^2 * Mx * My * (n - 1)
        + 11/10 * ε * Mx := by
    have : n - 1 ≠ 0 := hmpos.ne'
    field_simp
  rw [e1]
  exact samplecov_arith_sharp r.u n σx σy Mx My ε D _ hu hu1856 hn2 hσx hσy hMx hMy hε (abs_nonneg _) hd hC

/-- **Population covariance under the hypothesis `n·u ≤ 1/64` only** (constants of form A):
`|population_covariance - cov| ≤ 7·n·u·σx·σy + 8·n·u·Mx·σy + 17·n·u·My·σx + 39·n²·u²·Mx·My
    + 13·u·Mx·My/n`. -/
theorem popcov_error_lin (Mx My : K) (hMx : 0 ≤ Mx) (hMy : 0 ≤ My) (ps : List (RF2 r × RF2 r))
    (hne : ps ≠ [])
    (hbx : ∀ p ∈ ps, |p.1.val| ≤ Mx) (hby : ∀ p ∈ ps, |p.2.val| ≤ My)
    (hsmall : (ps.length : K) * r.u ≤ 1/64)
    (σx σy : K) (hσx : 0 ≤ σx) (hσy : 0 ≤ σy)
    (hvx : T (fsts (vals ps)) / (ps.length : K) ≤ σx^2)
    (hvy : T (snds (vals ps)) / (ps.length : K) ≤ σy^2) :
    |(ps.foldl (fun (s : Covariance (RF2 r)) p => s.add p.1 p.2)
          Covariance.new).populationCovariance.val - Cxy (vals ps) / (ps.length : K)|
      ≤ 7 * ps.length * r.u * σx * σy + 8 * ps.length * r.u * Mx * σy
        + 17 * ps.length * r.u * My * σx + 39 * (ps.length : K)^2 * r.u^2 * Mx * My
        + 13 * r.u * Mx * My / (ps.length : K) := by
  have hu := r.u_nonneg
  have hnat : 1 ≤ ps.length := List.length_pos_of_ne_nil hne
  have hn1 : (1 : K) ≤ ps.length := by exact_mod_cast hnat
  rw [popcov_val ps hne]
  set n : K := (ps.length : K) with hn
  have hnpos : 0 < n := by linarith
  have hu64 : r.u ≤ 1/64 := by nlinarith
  obtain ⟨hprod, hC⟩ := abs_Cxy_le_of_var (vals ps) n σx σy hnpos hσx hσy hvx hvy
  have hTx : T (fsts (vals ps)) ≤ n * σx^2 := by rwa [div_le_iff₀ hnpos, mul_comm] at hvx
  have hTy : T (snds (vals ps)) ≤ n * σy^2 := by rwa [div_le_iff₀ hnpos, mul_comm] at hvy
  have hd := cov_fold_error_lin r Mx My hMx hMy ps hbx hby hsmall (n * σx * σy)
    (n * σx) (n * σy) (by positivity) (by positivity) (by positivity) hprod
    (by rw [mul_pow]; nlinarith) (by rw [mul_pow]; nlinarith)
  refine le_trans (div_round_error_abs r _ (Cxy (vals ps)) n hnpos) ?_
  rw [div_le_iff₀ hnpos]
  set D := |(ps.foldl (fun (s : Covariance (RF2 r)) p => s.add p.1 p.2)
      Covariance.new).sum_prod.val - Cxy (vals ps)| with hD
  have e1 : (7 * n * r.u * σx * σy + 8 * n * r.u * Mx * σy + 17 * n * r.u * My * σx
        + 39 * n^2 * r.u^2 * Mx * My + 13 * r.u * Mx * My / n) * n
      = 7 * n^2 * r.u * σx * σy + 8 * n^2 * r.u * Mx * σy + 17 * n^2 * r.u * My * σx
        + 39 * n^3 * r.u^2 * Mx * My + 13 * r.u * Mx * My := by
    field_simp
  rw [e1]
  exact popcov_arith_lin r.u n σx σy Mx My D _ hu hu64 hn1 hσx hσy hMx hMy (abs_nonneg _) hd hC

end access
end CovErr

#print axioms CovErr.popcov_error_sharp
#print axioms CovErr.samplecov_error_sharp
#print axioms CovErr.popcov_error_lin
