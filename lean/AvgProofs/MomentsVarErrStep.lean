import AvgProofs.MomentsMeanErr
import AvgProofs.VarErrRel

/-!
# The second-order entry `m[0]` of `define_moments!`: what `add` computes, and its rounding error

`Moments.add N s x` (`N ≥ 2`) updates `m[0]` in the first iteration `p = 2` of the outer loop (the inner loop
`for k in 1..(p-1)` is empty for `p = 2`):

`m0' = m0 + (term1·factor1 + term2·factor2)·(delta·delta)`

with `over_n = 1/n`, `term1 = (n-1)·(-over_n)`, `factor1 = -over_n`, `term2 = factor2 = (n-1)·over_n`,
`delta = x - avg`, `n` the new count (exact conversion; `n - 1` is a rounded subtraction).

* `Moments.add_m0` - any carrier, bit for bit (`rfl` after unfolding the loops).
* `moments_m0_add_val` - at `RF2 r` with an exact negation: the value, rounding by rounding (eleven distinct
  rounded values, one of them - `delta` - shared with the update of the mean; the code evaluates `n - 1` three
  times and `(n-1)·over_n` twice - `term2` and `factor2` - with the same results).
* `RE.neg`, `RE.mono`, `RE.add_nonneg` - additions to the relative-error calculus of `VarErrRel`.
* `moments_incr_error` - the computed increment is within relative error `(1+u)^12 - 1` of
  `I = (x-a)²·(k-1)/k = (x-a)²·[(k-1)/k² + (k-1)²/k²]`, the same exact increment as Welford's.
-/
open Avg

namespace Avg
section anyCarrier
variable {α : Type} [Add α] [Sub α] [Mul α] [Div α] [Neg α] [NatCast α]

/-- the second-order entry `m[0] = Σ(x - avg)²` of a `define_moments!` state (`0` if `N < 2`) -/
def Moments.m0 (s : Moments α) : α := s.m.getD 0 ((0:Nat):α)

/-- **What `add` does to `m[0]`, any carrier, bit for bit**: for every order `N ≥ 2`, whatever default `d`
the entry is read with,
`m0' = m0 + ((n-1)·(-(1/n))·(-(1/n)) + ((n-1)·(1/n))·((n-1)·(1/n)))·((x-avg)·(x-avg))`,
every operation being that of the carrier, in this association. -/
theorem Moments.add_m0 (N : Nat) (hN : 2 ≤ N) (s : Moments α) (x d : α) :
    (Moments.add N s x).m.getD 0 d =
      s.m0 + ((((s.n + 1 : Nat) : α) - ((1:Nat):α)) * (-(((1:Nat):α) / ((s.n + 1 : Nat) : α)))
                * (-(((1:Nat):α) / ((s.n + 1 : Nat) : α)))
              + ((((s.n + 1 : Nat) : α) - ((1:Nat):α)) * (((1:Nat):α) / ((s.n + 1 : Nat) : α)))
                * ((((s.n + 1 : Nat) : α) - ((1:Nat):α)) * (((1:Nat):α) / ((s.n + 1 : Nat) : α))))
            * ((x - s.avg) * (x - s.avg)) := by
  obtain ⟨k, rfl⟩ : ∃ k, N = k + 2 := ⟨N - 2, by omega⟩
  rfl

/-- the list of central sums is never empty after an `add` (`N ≥ 2`) -/
theorem Moments.add_m_ne_nil (N : Nat) (hN : 2 ≤ N) (s : Moments α) (x : α) :
    (Moments.add N s x).m ≠ [] := by
  obtain ⟨k, rfl⟩ : ∃ k, N = k + 2 := ⟨N - 2, by omega⟩
  simp [Moments.add, outerAdd]

/-- hence reading `m[0]` of a state produced by `add` does not depend on the default -/
theorem Moments.add_getD_m0 (N : Nat) (hN : 2 ≤ N) (s : Moments α) (x d : α) :
    (Moments.add N s x).m.getD 0 d = (Moments.add N s x).m0 := by
  rw [Moments.m0, Moments.add_m0 N hN, Moments.add_m0 N hN]

omit [Add α] [Sub α] [Mul α] [Div α] [Neg α] in
theorem Moments.new_m0 (N : Nat) : (Moments.new N : Moments α).m0 = ((0:Nat):α) := by
  unfold Moments.m0 Moments.new
  cases h : N - 1 with
  | zero => rfl
  | succ k => rfl

end anyCarrier
end Avg

variable {K : Type} [Field K] [LinearOrder K] [IsStrictOrderedRing K]

/-- the `Neg` instance of the R2 carrier negates the value exactly (a sign flip, as in IEEE arithmetic;
`RF2.instNeg` is such an instance) -/
def NegExact (r : Rnd2 K) [Neg (RF2 r)] : Prop := ∀ a : RF2 r, (-a).val = -a.val

theorem RF2.instNeg_negExact (r : Rnd2 K) : @NegExact K _ _ _ r RF2.instNeg := fun _ => rfl

/-- **What `add` computes for `m[0]` at the carrier `RF2 r`**, rounding by rounding (`k` the new count,
`a` the mean before the observation): with `on = fl(1/k)`, `km = fl(k-1)`, `δ = fl(x-a)`,
`m0' = fl(m0 + fl(fl(fl(fl(km·(-on))·(-on)) + fl(fl(km·on)·fl(km·on)))·fl(δ·δ)))`. -/
theorem moments_m0_add_val (r : Rnd2 K) [Neg (RF2 r)] (hneg : NegExact r) (N : Nat) (hN : 2 ≤ N)
    (s : Moments (RF2 r)) (x : RF2 r) :
    (Moments.add N s x).m0.val =
      r.fl (s.m0.val +
        r.fl (r.fl (r.fl (r.fl (r.fl (((s.n + 1 : ℕ) : K) - 1) * -(r.fl (1 / ((s.n + 1 : ℕ) : K))))
                      * -(r.fl (1 / ((s.n + 1 : ℕ) : K))))
                  + r.fl (r.fl (r.fl (((s.n + 1 : ℕ) : K) - 1) * r.fl (1 / ((s.n + 1 : ℕ) : K)))
                      * r.fl (r.fl (((s.n + 1 : ℕ) : K) - 1) * r.fl (1 / ((s.n + 1 : ℕ) : K)))))
              * r.fl (r.fl (x.val - s.avg.val) * r.fl (x.val - s.avg.val)))) := by
  rw [Moments.m0, Moments.add_m0 N hN]
  set on : RF2 r := ((1:Nat) : RF2 r) / ((s.n + 1 : Nat) : RF2 r) with hon
  have h1 : ((1:Nat) : RF2 r).val = 1 := (Nat.cast_one : ((1 : ℕ) : K) = 1)
  have hneg' : (-on).val = -(r.fl (1 / ((s.n + 1 : ℕ) : K))) := by
    rw [hneg on, hon]
    show -(r.fl (((1:Nat) : RF2 r).val / ((s.n + 1 : ℕ) : K))) = _
    rw [h1]
  have hon' : on.val = r.fl (1 / ((s.n + 1 : ℕ) : K)) := by
    rw [hon]
    show r.fl (((1:Nat) : RF2 r).val / ((s.n + 1 : ℕ) : K)) = _
    rw [h1]
  show r.fl (s.m0.val +
      r.fl (r.fl (r.fl (r.fl (r.fl (((s.n + 1 : ℕ) : K) - ((1:Nat) : RF2 r).val) * (-on).val) * (-on).val)
          + r.fl (r.fl (r.fl (((s.n + 1 : ℕ) : K) - ((1:Nat) : RF2 r).val) * on.val)
              * r.fl (r.fl (((s.n + 1 : ℕ) : K) - ((1:Nat) : RF2 r).val) * on.val)))
        * r.fl (r.fl (x.val - s.avg.val) * r.fl (x.val - s.avg.val)))) = _
  rw [h1, hneg', hon']

/-! ## additions to the relative-error calculus -/
namespace RE
variable {u : K}

omit [IsStrictOrderedRing K] in
theorem neg {i : ℕ} {a' a : K} (h : RE u i a' a) : RE u i (-a') (-a) := by
  unfold RE at *
  rw [abs_neg, show -a' - -a = -(a' - a) by ring, abs_neg]
  exact h

theorem mono (hu : 0 ≤ u) {i j : ℕ} (hij : i ≤ j) {a' a : K} (h : RE u i a' a) : RE u j a' a := by
  unfold RE at *
  refine le_trans h ?_
  have : (1 + u)^i ≤ (1 + u)^j := pow_le_pow_right₀ (by linarith) hij
  have h0 := abs_nonneg a
  gcongr

/-- sum of two approximations of non-negative quantities -/
theorem add_nonneg {i : ℕ} {a' a b' b : K} (ha : RE u i a' a) (hb : RE u i b' b)
    (ha0 : 0 ≤ a) (hb0 : 0 ≤ b) : RE u i (a' + b') (a + b) := by
  unfold RE at *
  rw [abs_of_nonneg ha0] at ha
  rw [abs_of_nonneg hb0] at hb
  rw [abs_of_nonneg (by linarith : 0 ≤ a + b)]
  have : a' + b' - (a + b) = (a' - a) + (b' - b) := by ring
  rw [this]
  calc |(a' - a) + (b' - b)| ≤ |a' - a| + |b' - b| := abs_add_le _ _
    _ ≤ ((1 + u)^i - 1) * a + ((1 + u)^i - 1) * b := add_le_add ha hb
    _ = ((1 + u)^i - 1) * (a + b) := by ring

end RE

/-- **The rounded increment of `m[0]`.** With `on = fl(1/k)`, `km = fl(k-1)`, `δ = fl(x-a)` the computed
`fl(fl(fl(fl(km·(-on))·(-on)) + fl(fl(km·on)·fl(km·on)))·fl(δ·δ))` is within relative error `(1+u)^12 - 1`
of `I = (x-a)²·(k-1)/k`, and `I ≥ 0` (any real `k ≥ 1`). Count: `term1·factor1` is a product of two
non-positive numbers, five roundings (`k-1`, `1/k`, product, `1/k` again - the same value -, product);
`term2·factor2` seven (`(k-1)·(1/k)` three, squared, one more); both exact values `(k-1)/k²` and
`(k-1)²/k²` are non-negative, so their rounded sum has eight; `δ·δ` three; the last product one more:
`8 + 3 + 1 = 12`. -/
theorem moments_incr_error (fl : K → K) (u : K) (hu : 0 ≤ u) (hfl : ∀ t, |fl t - t| ≤ u * |t|)
    (x a k : K) (hk : 1 ≤ k) :
    0 ≤ (x - a)^2 * ((k - 1) / k) ∧
    |fl (fl (fl (fl (fl (k - 1) * -(fl (1 / k))) * -(fl (1 / k)))
            + fl (fl (fl (k - 1) * fl (1 / k)) * fl (fl (k - 1) * fl (1 / k))))
          * fl (fl (x - a) * fl (x - a)))
        - (x - a)^2 * ((k - 1) / k)|
      ≤ ((1 + u)^12 - 1) * ((x - a)^2 * ((k - 1) / k)) := by
  have hkpos : 0 < k := lt_of_lt_of_le one_pos hk
  have hk0 : 0 ≤ k - 1 := by linarith
  have hI : 0 ≤ (x - a)^2 * ((k - 1) / k) := by
    have : 0 ≤ (k - 1) / k := div_nonneg hk0 hkpos.le
    positivity
  refine ⟨hI, ?_⟩
  have hon : RE u 1 (fl (1 / k)) (1 / k) := (RE.refl u (1 / k)).round fl hu hfl
  have hkm : RE u 1 (fl (k - 1)) (k - 1) := (RE.refl u (k - 1)).round fl hu hfl
  -- term1 * factor1
  have h1 : RE u 3 (fl (fl (k - 1) * -(fl (1 / k)))) ((k - 1) * -(1 / k)) :=
    (hkm.mul hu hon.neg).round fl hu hfl
  have ht1 : RE u 5 (fl (fl (fl (k - 1) * -(fl (1 / k))) * -(fl (1 / k))))
      ((k - 1) * -(1 / k) * -(1 / k)) := (h1.mul hu hon.neg).round fl hu hfl
  -- term2 * factor2
  have h2 : RE u 3 (fl (fl (k - 1) * fl (1 / k))) ((k - 1) * (1 / k)) :=
    (hkm.mul hu hon).round fl hu hfl
  have ht2 : RE u 7 (fl (fl (fl (k - 1) * fl (1 / k)) * fl (fl (k - 1) * fl (1 / k))))
      ((k - 1) * (1 / k) * ((k - 1) * (1 / k))) := (h2.mul hu h2).round fl hu hfl
  have hA0 : 0 ≤ (k - 1) * -(1 / k) * -(1 / k) := by
    have : (k - 1) * -(1 / k) * -(1 / k) = (k - 1) * (1 / k)^2 := by ring
    rw [this]; positivity
  have hB0 : 0 ≤ (k - 1) * (1 / k) * ((k - 1) * (1 / k)) := mul_self_nonneg _
  have hs := ((ht1.mono hu (by norm_num : 5 ≤ 7)).add_nonneg ht2 hA0 hB0).round fl hu hfl
  -- delta * delta
  have hδ : RE u 1 (fl (x - a)) (x - a) := (RE.refl u (x - a)).round fl hu hfl
  have hcd := (hδ.mul hu hδ).round fl hu hfl
  have hfin := (hs.mul hu hcd).round fl hu hfl
  have hval : ((k - 1) * -(1 / k) * -(1 / k) + (k - 1) * (1 / k) * ((k - 1) * (1 / k)))
      * ((x - a) * (x - a)) = (x - a)^2 * ((k - 1) / k) := by
    field_simp
    ring
  rw [hval] at hfin
  unfold RE at hfin
  rw [abs_of_nonneg hI] at hfin
  exact hfin

#print axioms Avg.Moments.add_m0
#print axioms moments_m0_add_val
#print axioms moments_incr_error
