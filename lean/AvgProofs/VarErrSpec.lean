import AvgProofs.MomentsCanon
import AvgProofs.MeanErr2
import Mathlib.Algebra.BigOperators.Group.Finset.Basic
import Mathlib.Algebra.Order.BigOperators.Ring.Finset
import Mathlib.Algebra.Order.BigOperators.Group.List
import Mathlib.Tactic.Positivity
import Mathlib.Tactic.GCongr

/-!
# Exact side of the error analysis of Welford's sum of squares

`VarSpec.T vs = Σ (x - mean vs)²` and its exact recurrence
`T (vs ++ [x]) = T vs + (x - mean vs)²·n/(n+1)` (`n = |vs|`), its sign and monotonicity,
`dev vs i = vs[i] - mean (vs.take i)` (deviation of observation `i` from the mean of its predecessors),
`T vs = Σ_{i<n} (dev vs i)²·i/(i+1)`, and the Cauchy-Schwarz step
`(Σ_{i<n} E_i·|dev vs i|·i/(i+1))² ≤ (Σ_{i<n} E_i²)·T vs`.
-/
open Avg MSpec Finset

namespace VarSpec
variable {K : Type} [Field K] [LinearOrder K] [IsStrictOrderedRing K]

/-- exact sum of squared deviations from the exact mean -/
def T (vs : List K) : K := sumPow vs (mean vs) 2

omit [LinearOrder K] [IsStrictOrderedRing K] in
theorem meanK_eq_mean (vs : List K) : meanK vs = mean vs := rfl

theorem T_nil : T ([] : List K) = 0 := by simp [T]

/-- **Exact recurrence** of the sum of squares (the quantity `Variance.add` approximates). -/
theorem T_snoc (vs : List K) (x : K) :
    T (vs ++ [x]) = T vs + (x - mean vs)^2 * ((vs.length : K) / ((vs.length : K) + 1)) := by
  have hn : ((vs.length : K) + 1) ≠ 0 := by positivity
  have hmean := mean_snoc vs x
  have e1 := sumPow_one_mean vs
  have e0 := sumPow_zero vs (mean vs)
  have e2 := shift2 vs (mean (vs ++ [x])) (mean vs)
  rw [e1, e0] at e2
  unfold T
  rw [sumPow_append, e2, ← hmean]
  simp only [sumPow_cons, sumPow_nil, Nat.cast_add, Nat.cast_one]
  field_simp
  ring

theorem sumPow_two_nonneg (vs : List K) (c : K) : 0 ≤ sumPow vs c 2 := by
  unfold sumPow
  apply List.sum_nonneg
  intro y hy
  rw [List.mem_map] at hy
  obtain ⟨z, _, rfl⟩ := hy
  positivity

theorem T_nonneg (vs : List K) : 0 ≤ T vs := sumPow_two_nonneg vs _

theorem ratio_nonneg (i : ℕ) : (0:K) ≤ (i : K) / ((i : K) + 1) := by positivity

theorem ratio_le_one (i : ℕ) : (i : K) / ((i : K) + 1) ≤ 1 := by
  rw [div_le_one (by positivity)]; linarith

/-- the exact increment is non-negative -/
theorem incr_nonneg (vs : List K) (x : K) :
    0 ≤ (x - mean vs)^2 * ((vs.length : K) / ((vs.length : K) + 1)) :=
  mul_nonneg (sq_nonneg _) (ratio_nonneg _)

theorem T_mono (vs : List K) (x : K) : T vs ≤ T (vs ++ [x]) := by
  rw [T_snoc]; linarith [incr_nonneg vs x]

/-- deviation of observation `i` from the exact mean of its predecessors -/
def dev (vs : List K) (i : ℕ) : K := vs.getD i 0 - mean (vs.take i)

omit [LinearOrder K] [IsStrictOrderedRing K] in
theorem dev_snoc_lt (vs : List K) (x : K) {i : ℕ} (h : i < vs.length) :
    dev (vs ++ [x]) i = dev vs i := by
  unfold dev
  rw [List.take_append_of_le_length (le_of_lt h)]
  simp [List.getD_eq_getElem?_getD, List.getElem?_append_left h]

omit [LinearOrder K] [IsStrictOrderedRing K] in
theorem dev_snoc_len (vs : List K) (x : K) : dev (vs ++ [x]) vs.length = x - mean vs := by
  unfold dev
  simp [List.getD_eq_getElem?_getD]

omit [LinearOrder K] [IsStrictOrderedRing K] in
/-- sums over the observations of a function of the index and the deviation, one more observation -/
theorem sum_dev_snoc (f : ℕ → K → K) (vs : List K) (x : K) :
    ∑ i ∈ range (vs ++ [x]).length, f i (dev (vs ++ [x]) i)
      = ∑ i ∈ range vs.length, f i (dev vs i) + f vs.length (x - mean vs) := by
  rw [List.length_append, List.length_singleton, sum_range_succ, dev_snoc_len]
  congr 1
  apply sum_congr rfl
  intro i hi
  rw [dev_snoc_lt vs x (mem_range.mp hi)]

/-- `T` as the sum of the exact increments -/
theorem T_eq_sum (vs : List K) :
    T vs = ∑ i ∈ range vs.length, (dev vs i)^2 * ((i : K) / ((i : K) + 1)) := by
  induction vs using List.reverseRecOn with
  | nil => simp [T_nil]
  | append_singleton vs x ih =>
    rw [sum_dev_snoc (fun i d => d^2 * ((i : K) / ((i : K) + 1))), T_snoc, ih]

/-- **Cauchy-Schwarz** for the cross term of the error recurrence. -/
theorem cross_sq_le (E : ℕ → K) (vs : List K) :
    (∑ i ∈ range vs.length, E i * |dev vs i| * ((i : K) / ((i : K) + 1)))^2
      ≤ (∑ i ∈ range vs.length, (E i)^2) * T vs := by
  rw [T_eq_sum]
  apply sum_sq_le_sum_mul_sum_of_sq_le_mul
  · intro i _; positivity
  · intro i _; exact mul_nonneg (sq_nonneg _) (ratio_nonneg i)
  · intro i _
    have h0 := ratio_nonneg (K := K) i
    have h1 := ratio_le_one (K := K) i
    have : ((i : K) / ((i : K) + 1))^2 ≤ (i : K) / ((i : K) + 1) := by nlinarith
    calc (E i * |dev vs i| * ((i : K) / ((i : K) + 1)))^2
        = (E i)^2 * (dev vs i)^2 * ((i : K) / ((i : K) + 1))^2 := by rw [mul_pow, mul_pow, sq_abs]
      _ ≤ (E i)^2 * (dev vs i)^2 * ((i : K) / ((i : K) + 1)) := by gcongr
      _ = (E i)^2 * ((dev vs i)^2 * ((i : K) / ((i : K) + 1))) := by ring

/-- `Σ_{i<n} i² ≤ n³/3` -/
theorem sum_sq_le (n : ℕ) : ∑ i ∈ range n, ((i : K))^2 ≤ (n : K)^3 / 3 := by
  induction n with
  | zero => simp
  | succ n ih =>
    rw [sum_range_succ]
    push_cast
    have : (0:K) ≤ n := Nat.cast_nonneg n
    nlinarith

end VarSpec

#print axioms VarSpec.T_snoc
#print axioms VarSpec.cross_sq_le
