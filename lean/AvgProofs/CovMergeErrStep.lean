import AvgProofs.VarMergeErrRel

/-!
# One `Covariance.merge` of two non-empty states under the standard model of rounding: `sum_prod`

`Covariance.merge` adds `delta_x*delta_y * len_self * len_other / len_total` to the two co-moments,
`delta_x = o.avg_x - s.avg_x`, `delta_y = o.avg_y - s.avg_y`, `len_total = len_self + len_other`:
`S' = fl(S_p + fl(S_q + c'))`, `c' = fl(fl(fl(fl(δx·δy)·n_p)·n_q)/fl(n_p+n_q))`, `δx = fl(bx - ax)`,
`δy = fl(by - ay)` (`ax, bx, ay, by` the *computed* means) - six rounded operations for the cross term,
as for `Variance.merge`, then two additions.

* `CovMerge.cross_term_error`: `|c' - I| ≤ η·|I|`, `I = (bx-ax)(by-ay)·n_p·n_q/(n_p+n_q)`,
  `η = (1+u)^6/(1-u) - 1` (`VarMerge.eta`, `≤ 7.5u`). Unlike the cross term of `Variance.merge`, `I` has
  no sign: the rounding error is relative to `|I|`.
* `CovMerge.merge_step_error` (**one-step state lemma**): with `K = (μx_q-μx_p)(μy_q-μy_p)·q` the exact
  cross term, `εx, εy` bounds on the errors of the two differences of computed means,
  `|S' - (C_p+C_q+K)| ≤ (1+u)²·(|S_p-C_p| + |S_q-C_q| + η·|K| + (1+η)·(εx·|Δμy| + εy·|Δμx| + εx·εy)·q)
      + (1+u)·u·|C_q+K| + u·|C_p+C_q+K|`.
-/
variable {K : Type} [Field K] [LinearOrder K] [IsStrictOrderedRing K]

namespace CovMerge
open VarMerge

/-- **The rounded cross term of `Covariance.merge`** (for `sum_prod`). With `δx = fl(bx - ax)`,
`δy = fl(by - ay)` the computed `fl(fl(fl(fl(δx·δy)·n_p)·n_q)/fl(n_p+n_q))` is within relative error
`η = (1+u)^6/(1-u) - 1` of `I = (bx - ax)(by - ay)·(n_p·n_q/(n_p+n_q))` - relative to `|I|`. -/
theorem cross_term_error (fl : K → K) (u : K) (hu : 0 ≤ u) (hu1 : u < 1)
    (hfl : ∀ t, |fl t - t| ≤ u * |t|) (ax bx ay by_ nx ny : K) (hnx : 0 < nx) (hny : 0 < ny) :
    let δx := fl (bx - ax)
    let δy := fl (by_ - ay)
    let I := (bx - ax) * (by_ - ay) * (nx * ny / (nx + ny))
    |fl (fl (fl (fl (δx * δy) * nx) * ny) / fl (nx + ny)) - I| ≤ eta u * |I| := by
  intro δx δy I
  have hD : 0 < 1 - u := by linarith
  set n := nx + ny with hn
  have hnpos : 0 < n := by positivity
  have h1x : RE u 1 δx (bx - ax) := (RE.refl u (bx - ax)).round fl hu hfl
  have h1y : RE u 1 δy (by_ - ay) := (RE.refl u (by_ - ay)).round fl hu hfl
  have h2 : RE u 2 (δx * δy) ((bx - ax) * (by_ - ay)) := h1x.mul hu h1y
  have h3 := h2.round fl hu hfl
  have h4 := (h3.mul hu (RE.refl u nx)).round fl hu hfl
  have h5 := (h4.mul hu (RE.refl u ny)).round fl hu hfl
  set p := fl (fl (fl (δx * δy) * nx) * ny) with hp
  set p0 := (bx - ax) * (by_ - ay) * nx * ny with hp0
  set P0 := |p0| with hP0
  have hP0n : 0 ≤ P0 := abs_nonneg _
  have hI0 : I = p0 / n := by simp only [I, hp0, hn]; field_simp
  have hIabs : |I| = P0 / n := by rw [hI0, abs_div, abs_of_pos hnpos]
  -- numerator: five roundings
  have e5 : |p - p0| ≤ ((1 + u)^5 - 1) * P0 := h5
  have hpb : |p| ≤ (1 + u)^5 * P0 := RE.abs_le h5
  -- the rounded count
  set N := fl n with hN
  have e4 : |N - n| ≤ u * n := by
    have := hfl n
    rwa [abs_of_pos hnpos] at this
  have hNlow : n * (1 - u) ≤ N := by
    have := (abs_le.mp e4).1
    linarith
  have hnD : 0 < n * (1 - u) := by positivity
  have hNpos : 0 < N := lt_of_lt_of_le hnD hNlow
  -- the exact quotient of the computed quantities
  have hmid : |p / N - p0 / n| ≤ ((1 + u)^5 - 1 + u) * P0 / (n * (1 - u)) := by
    have : p / N - p0 / n = ((p - p0) * n - p0 * (N - n)) / (N * n) := by
      field_simp; ring
    rw [this, abs_div, abs_of_pos (mul_pos hNpos hnpos)]
    have hnum : |(p - p0) * n - p0 * (N - n)| ≤ ((1 + u)^5 - 1 + u) * P0 * n := by
      calc _ ≤ |(p - p0) * n| + |p0 * (N - n)| := abs_sub _ _
        _ = |p - p0| * n + P0 * |N - n| := by
            rw [abs_mul, abs_mul, abs_of_pos hnpos]
        _ ≤ (((1 + u)^5 - 1) * P0) * n + P0 * (u * n) := by gcongr
        _ = ((1 + u)^5 - 1 + u) * P0 * n := by ring
    have h50 : 0 ≤ (1 + u)^5 - 1 + u := by
      have := RE.one_le_pow hu 5
      linarith
    have hnum0 : 0 ≤ ((1 + u)^5 - 1 + u) * P0 * n := by positivity
    calc _ ≤ (((1 + u)^5 - 1 + u) * P0 * n) / ((n * (1 - u)) * n) := by gcongr
      _ = ((1 + u)^5 - 1 + u) * P0 / (n * (1 - u)) := by field_simp
  have hq : |p / N| ≤ (1 + u)^5 * P0 / (n * (1 - u)) := by
    rw [abs_div, abs_of_pos hNpos]
    have : 0 ≤ (1 + u)^5 * P0 := by positivity
    gcongr
  have e6 : |fl (p / N) - p / N| ≤ u * ((1 + u)^5 * P0 / (n * (1 - u))) := by
    refine le_trans (hfl _) ?_
    gcongr
  have : fl (p / N) - I = (fl (p / N) - p / N) + (p / N - p0 / n) := by rw [hI0]; ring
  rw [this]
  calc _ ≤ |fl (p / N) - p / N| + |p / N - p0 / n| := abs_add_le _ _
    _ ≤ u * ((1 + u)^5 * P0 / (n * (1 - u))) + ((1 + u)^5 - 1 + u) * P0 / (n * (1 - u)) := by
        linarith
    _ = eta u * |I| := by
        rw [hIabs]; unfold eta; field_simp; ring

/-- `|Dx'·Dy'·q - Dx·Dy·q| ≤ (|Dx'-Dx|·|Dy| + |Dy'-Dy|·|Dx| + |Dx'-Dx|·|Dy'-Dy|)·q` -/
theorem prod_shift (Dx' Dx Dy' Dy q : K) (hq : 0 ≤ q) :
    |Dx' * Dy' * q - Dx * Dy * q|
      ≤ (|Dx' - Dx| * |Dy| + |Dy' - Dy| * |Dx| + |Dx' - Dx| * |Dy' - Dy|) * q := by
  have h : Dx' * Dy' * q - Dx * Dy * q
      = ((Dx' - Dx) * Dy + (Dy' - Dy) * Dx + (Dx' - Dx) * (Dy' - Dy)) * q := by ring
  rw [h, abs_mul, abs_of_nonneg hq]
  gcongr
  calc |(Dx' - Dx) * Dy + (Dy' - Dy) * Dx + (Dx' - Dx) * (Dy' - Dy)|
      ≤ |(Dx' - Dx) * Dy| + |(Dy' - Dy) * Dx| + |(Dx' - Dx) * (Dy' - Dy)| := by
        refine le_trans (abs_add_le _ _) ?_
        gcongr
        exact abs_add_le _ _
    _ = |Dx' - Dx| * |Dy| + |Dy' - Dy| * |Dx| + |Dx' - Dx| * |Dy' - Dy| := by
        rw [abs_mul, abs_mul, abs_mul]

/-- one rounding of an approximation `X` of a target `Tt` of any sign:
`|fl X - Tt| ≤ (1+u)·|X - Tt| + u·|Tt|` -/
theorem round_to (fl : K → K) (u : K) (hu : 0 ≤ u) (hfl : ∀ t, |fl t - t| ≤ u * |t|)
    (X Tt : K) : |fl X - Tt| ≤ (1 + u) * |X - Tt| + u * |Tt| := by
  have hX : |X| ≤ |Tt| + |X - Tt| := by
    have : X = Tt + (X - Tt) := by ring
    calc |X| = |Tt + (X - Tt)| := by rw [← this]
      _ ≤ |Tt| + |X - Tt| := abs_add_le _ _
  have : fl X - Tt = (fl X - X) + (X - Tt) := by ring
  rw [this]
  calc |(fl X - X) + (X - Tt)| ≤ |fl X - X| + |X - Tt| := abs_add_le _ _
    _ ≤ u * (|Tt| + |X - Tt|) + |X - Tt| := by
        have : u * |X| ≤ u * (|Tt| + |X - Tt|) := by gcongr
        linarith [hfl X]
    _ = (1 + u) * |X - Tt| + u * |Tt| := by ring

/-- **One merge step (state lemma) for `sum_prod`.** `ax, bx, ay, by` the computed means of the two
operands, `μxp, μxq, μyp, μyq` the exact ones, `εx, εy` bounds on the errors of the differences; `Sp`, `Sq`
the computed co-moments, `Cp`, `Cq` the exact ones; `nx, ny > 0` the counts. -/
theorem merge_step_error (fl : K → K) (u : K) (hu : 0 ≤ u) (hu1 : u < 1)
    (hfl : ∀ t, |fl t - t| ≤ u * |t|)
    (ax bx ay by_ μxp μxq μyp μyq Sp Sq Cp Cq nx ny εx εy : K) (hnx : 0 < nx) (hny : 0 < ny)
    (hεx : |(bx - ax) - (μxq - μxp)| ≤ εx) (hεy : |(by_ - ay) - (μyq - μyp)| ≤ εy) :
    let δx := fl (bx - ax)
    let δy := fl (by_ - ay)
    let q := nx * ny / (nx + ny)
    let Kc := (μxq - μxp) * (μyq - μyp) * q
    let c' := fl (fl (fl (fl (δx * δy) * nx) * ny) / fl (nx + ny))
    |fl (Sp + fl (Sq + c')) - (Cp + Cq + Kc)|
      ≤ (1 + u)^2 * (|Sp - Cp| + |Sq - Cq| + eta u * |Kc|
            + (1 + eta u) * ((εx * |μyq - μyp| + εy * |μxq - μxp| + εx * εy) * q))
        + (1 + u) * u * |Cq + Kc| + u * |Cp + Cq + Kc| := by
  intro δx δy q Kc c'
  have hq : 0 ≤ q := by positivity
  have hη := eta_nonneg hu hu1
  have hc := cross_term_error fl u hu hu1 hfl ax bx ay by_ nx ny hnx hny
  simp only at hc
  set I := (bx - ax) * (by_ - ay) * q with hIdef
  have hεx0 : 0 ≤ εx := le_trans (abs_nonneg _) hεx
  have hεy0 : 0 ≤ εy := le_trans (abs_nonneg _) hεy
  set Δ := (εx * |μyq - μyp| + εy * |μxq - μxp| + εx * εy) * q with hΔ
  have hIK : |I - Kc| ≤ Δ := by
    refine le_trans (prod_shift (bx - ax) (μxq - μxp) (by_ - ay) (μyq - μyp) q hq) ?_
    rw [hΔ]
    gcongr
  have hIle : |I| ≤ |Kc| + Δ := by
    have : I = Kc + (I - Kc) := by ring
    calc |I| = |Kc + (I - Kc)| := by rw [← this]
      _ ≤ |Kc| + |I - Kc| := abs_add_le _ _
      _ ≤ |Kc| + Δ := by linarith
  have hEc : |c' - Kc| ≤ eta u * |Kc| + (1 + eta u) * Δ := by
    have : c' - Kc = (c' - I) + (I - Kc) := by ring
    rw [this]
    calc |(c' - I) + (I - Kc)| ≤ |c' - I| + |I - Kc| := abs_add_le _ _
      _ ≤ eta u * |I| + Δ := by linarith
      _ ≤ eta u * (|Kc| + Δ) + Δ := by gcongr
      _ = eta u * |Kc| + (1 + eta u) * Δ := by ring
  set Ec := eta u * |Kc| + (1 + eta u) * Δ with hEcdef
  -- inner addition
  have hz1 : |(Sq + c') - (Cq + Kc)| ≤ |Sq - Cq| + Ec := by
    have : (Sq + c') - (Cq + Kc) = (Sq - Cq) + (c' - Kc) := by ring
    rw [this]
    exact le_trans (abs_add_le _ _) (by linarith)
  have hw1 := round_to fl u hu hfl (Sq + c') (Cq + Kc)
  set w1 := fl (Sq + c') with hw1def
  have hw1' : |w1 - (Cq + Kc)| ≤ (1 + u) * (|Sq - Cq| + Ec) + u * |Cq + Kc| := by
    refine le_trans hw1 ?_
    gcongr
  -- outer addition
  have hz2 : |(Sp + w1) - (Cp + Cq + Kc)|
      ≤ |Sp - Cp| + ((1 + u) * (|Sq - Cq| + Ec) + u * |Cq + Kc|) := by
    have : (Sp + w1) - (Cp + Cq + Kc) = (Sp - Cp) + (w1 - (Cq + Kc)) := by ring
    rw [this]
    exact le_trans (abs_add_le _ _) (by linarith)
  have hw2 := round_to fl u hu hfl (Sp + w1) (Cp + Cq + Kc)
  refine le_trans hw2 ?_
  have hEx : 0 ≤ |Sp - Cp| := abs_nonneg _
  have h1 : (1 + u) * |(Sp + w1) - (Cp + Cq + Kc)|
      ≤ (1 + u) * (|Sp - Cp| + ((1 + u) * (|Sq - Cq| + Ec) + u * |Cq + Kc|)) := by gcongr
  have h2 : (1 + u) * |Sp - Cp| ≤ (1 + u)^2 * |Sp - Cp| := by
    have : (1 + u) ≤ (1 + u)^2 := by nlinarith
    gcongr
  calc (1 + u) * |(Sp + w1) - (Cp + Cq + Kc)| + u * |Cp + Cq + Kc|
      ≤ (1 + u) * (|Sp - Cp| + ((1 + u) * (|Sq - Cq| + Ec) + u * |Cq + Kc|))
          + u * |Cp + Cq + Kc| := by linarith
    _ = (1 + u) * |Sp - Cp| + (1 + u)^2 * (|Sq - Cq| + Ec) + (1 + u) * u * |Cq + Kc|
          + u * |Cp + Cq + Kc| := by ring
    _ ≤ (1 + u)^2 * |Sp - Cp| + (1 + u)^2 * (|Sq - Cq| + Ec) + (1 + u) * u * |Cq + Kc|
          + u * |Cp + Cq + Kc| := by linarith
    _ = (1 + u)^2 * (|Sp - Cp| + |Sq - Cq| + eta u * |Kc| + (1 + eta u) * Δ)
          + (1 + u) * u * |Cq + Kc| + u * |Cp + Cq + Kc| := by rw [hEcdef]; ring

end CovMerge

#print axioms CovMerge.cross_term_error
#print axioms CovMerge.merge_step_error
