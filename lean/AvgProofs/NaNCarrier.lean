import AvgModel.Weighted
import AvgProofs.MTree
import Mathlib.Order.Lattice
import Mathlib.Order.MinMax
import Mathlib.Order.BoundedOrder.Basic
import Mathlib.Data.List.Perm.Basic

/-!
# The O+order carrier for `Min` / `Max`: a bounded linear order extended with NaN

`Option K`, `none` = NaN, `some ⊤` = `+∞`, `some ⊥` = `-∞`. `fmin`/`fmax` are `f64::min`/`f64::max`:
if one operand is NaN the other is returned, otherwise the smaller/larger. Values are compared
"as numbers" (`-0.0` and `+0.0` are one element of `K`).
Only `fmin`, `fmax`, `posInf`, `negInf` are used by `Min`/`Max`; the other fields are fillers.
-/
open Avg

namespace NaNCarrier
variable {K : Type} [LinearOrder K]

/-- `f64::min` on numbers-or-NaN -/
def fmin : Option K → Option K → Option K
  | none, b => b
  | a, none => a
  | some x, some y => some (min x y)

/-- `f64::max` on numbers-or-NaN -/
def fmax : Option K → Option K → Option K
  | none, b => b
  | a, none => a
  | some x, some y => some (max x y)

@[simp] theorem fmin_some (x y : K) : fmin (some x) (some y) = some (min x y) := rfl
@[simp] theorem fmin_none_right (a : Option K) : fmin a none = a := by cases a <;> rfl
@[simp] theorem fmin_none_left (b : Option K) : fmin none b = b := rfl
@[simp] theorem fmax_some (x y : K) : fmax (some x) (some y) = some (max x y) := rfl
@[simp] theorem fmax_none_right (a : Option K) : fmax a none = a := by cases a <;> rfl
@[simp] theorem fmax_none_left (b : Option K) : fmax none b = b := rfl

section top
variable [OrderTop K]

/-- the smallest non-NaN observation, `⊤` (= `+∞`) if there is none -/
def minSpec (xs : List (Option K)) : K := (xs.filterMap id).foldr min ⊤

@[simp] theorem minSpec_nil : minSpec ([] : List (Option K)) = ⊤ := rfl

@[simp] theorem minSpec_none (xs : List (Option K)) : minSpec (none :: xs) = minSpec xs := rfl

@[simp] theorem minSpec_some (v : K) (xs : List (Option K)) :
    minSpec (some v :: xs) = min v (minSpec xs) := rfl

theorem minSpec_append (xs ys : List (Option K)) :
    minSpec (xs ++ ys) = min (minSpec xs) (minSpec ys) := by
  induction xs with
  | nil => simp
  | cons x xs ih => cases x <;> simp [ih, min_assoc]

/-- `minSpec` is a lower bound of the non-NaN observations -/
theorem minSpec_le (xs : List (Option K)) (v : K) (h : some v ∈ xs) : minSpec xs ≤ v := by
  induction xs with
  | nil => cases h
  | cons x xs ih =>
    rcases List.mem_cons.1 h with rfl | h'
    · simp
    · cases x with
      | none => simpa using ih h'
      | some w => exact le_trans (by simp) (ih h')

/-- `minSpec` is attained: it is one of the observations, or `+∞` when there is no non-NaN one
(it can be `+∞` and attained at the same time, if `+∞` was observed) -/
theorem minSpec_mem (xs : List (Option K)) :
    some (minSpec xs) ∈ xs ∨ (minSpec xs = ⊤ ∧ ∀ v, some v ∉ xs) := by
  induction xs with
  | nil => right; simp
  | cons x xs ih =>
    cases x with
    | none =>
      rcases ih with h | ⟨h1, h2⟩
      · left; exact List.mem_cons_of_mem _ h
      · right; refine ⟨by simpa using h1, ?_⟩
        intro v hv; rcases List.mem_cons.1 hv with hv | hv
        · cases hv
        · exact h2 v hv
    | some w =>
      left
      rw [minSpec_some]
      rcases min_choice w (minSpec xs) with h | h
      · rw [h]; exact List.mem_cons_self
      · rw [h]
        rcases ih with h' | ⟨h1, _⟩
        · exact List.mem_cons_of_mem _ h'
        · have : w = minSpec xs := by
            rw [h1] at h ⊢; exact le_antisymm le_top (min_eq_right_iff.mp h)
          rw [← this]; exact List.mem_cons_self

/-- the order of the observations is irrelevant -/
theorem minSpec_perm {xs ys : List (Option K)} (h : xs.Perm ys) : minSpec xs = minSpec ys := by
  induction h with
  | nil => rfl
  | cons x _ ih => cases x <;> simp [ih]
  | swap x y l => cases x <;> cases y <;> simp [min_left_comm]
  | trans _ _ ih1 ih2 => exact ih1.trans ih2

/-- NaN observations do not count -/
theorem minSpec_filter (xs : List (Option K)) :
    minSpec (xs.filter Option.isSome) = minSpec xs := by
  induction xs with
  | nil => rfl
  | cons x xs ih => cases x <;> simp [ih]

end top

section bot
variable [OrderBot K]

/-- the largest non-NaN observation, `⊥` (= `-∞`) if there is none -/
def maxSpec (xs : List (Option K)) : K := (xs.filterMap id).foldr max ⊥

@[simp] theorem maxSpec_nil : maxSpec ([] : List (Option K)) = ⊥ := rfl

@[simp] theorem maxSpec_none (xs : List (Option K)) : maxSpec (none :: xs) = maxSpec xs := rfl

@[simp] theorem maxSpec_some (v : K) (xs : List (Option K)) :
    maxSpec (some v :: xs) = max v (maxSpec xs) := rfl

theorem maxSpec_append (xs ys : List (Option K)) :
    maxSpec (xs ++ ys) = max (maxSpec xs) (maxSpec ys) := by
  induction xs with
  | nil => simp
  | cons x xs ih => cases x <;> simp [ih, max_assoc]

theorem le_maxSpec (xs : List (Option K)) (v : K) (h : some v ∈ xs) : v ≤ maxSpec xs := by
  induction xs with
  | nil => cases h
  | cons x xs ih =>
    rcases List.mem_cons.1 h with rfl | h'
    · simp
    · cases x with
      | none => simpa using ih h'
      | some w => exact le_trans (ih h') (by simp)

theorem maxSpec_mem (xs : List (Option K)) :
    some (maxSpec xs) ∈ xs ∨ (maxSpec xs = ⊥ ∧ ∀ v, some v ∉ xs) := by
  induction xs with
  | nil => right; simp
  | cons x xs ih =>
    cases x with
    | none =>
      rcases ih with h | ⟨h1, h2⟩
      · left; exact List.mem_cons_of_mem _ h
      · right; refine ⟨by simpa using h1, ?_⟩
        intro v hv; rcases List.mem_cons.1 hv with hv | hv
        · cases hv
        · exact h2 v hv
    | some w =>
      left
      rw [maxSpec_some]
      rcases max_choice w (maxSpec xs) with h | h
      · rw [h]; exact List.mem_cons_self
      · rw [h]
        rcases ih with h' | ⟨h1, _⟩
        · exact List.mem_cons_of_mem _ h'
        · have : w = maxSpec xs := by
            rw [h1] at h ⊢; exact le_antisymm (max_eq_right_iff.mp h) bot_le
          rw [← this]; exact List.mem_cons_self

theorem maxSpec_perm {xs ys : List (Option K)} (h : xs.Perm ys) : maxSpec xs = maxSpec ys := by
  induction h with
  | nil => rfl
  | cons x _ ih => cases x <;> simp [ih]
  | swap x y l => cases x <;> cases y <;> simp [max_left_comm]
  | trans _ _ ih1 ih2 => exact ih1.trans ih2

theorem maxSpec_filter (xs : List (Option K)) :
    maxSpec (xs.filter Option.isSome) = maxSpec xs := by
  induction xs with
  | nil => rfl
  | cons x xs ih => cases x <;> simp [ih]

end bot

variable [OrderTop K] [OrderBot K]

/-- the carrier instance: `none` = NaN, `some ⊤` = `+∞`, `some ⊥` = `-∞` -/
@[reducible] def floatOps (K : Type) [LinearOrder K] [OrderTop K] [OrderBot K] : FloatOps (Option K) where
  nan := none
  posInf := some ⊤
  negInf := some ⊥
  sqrt := id
  pow15 := id
  lt := fun a b => match a, b with | some x, some y => decide (x < y) | _, _ => false
  eqb := fun a b => match a, b with | some x, some y => decide (x = y) | _, _ => false
  isNaN := Option.isNone
  fmin := fmin
  fmax := fmax
  ceilInt := fun _ => 0
  ordLt := fun a b => match a, b with | some x, some y => decide (x < y) | _, _ => false

attribute [local instance] floatOps

/-- sequential fold from any non-NaN current minimum -/
theorem foldl_min_add (xs : List (Option K)) (a : K) :
    xs.foldl Min.add (⟨some a⟩ : Avg.Min (Option K)) = ⟨some (min a (minSpec xs))⟩ := by
  induction xs generalizing a with
  | nil => simp
  | cons x xs ih =>
    cases x with
    | none =>
      rw [List.foldl_cons, show Min.add (⟨some a⟩ : Avg.Min (Option K)) none = ⟨some a⟩ from rfl, ih]
      simp
    | some v =>
      rw [List.foldl_cons,
        show Min.add (⟨some a⟩ : Avg.Min (Option K)) (some v) = ⟨some (min a v)⟩ from rfl, ih]
      simp [min_assoc]

theorem foldl_max_add (xs : List (Option K)) (a : K) :
    xs.foldl Max.add (⟨some a⟩ : Avg.Max (Option K)) = ⟨some (max a (maxSpec xs))⟩ := by
  induction xs generalizing a with
  | nil => simp
  | cons x xs ih =>
    cases x with
    | none =>
      rw [List.foldl_cons, show Max.add (⟨some a⟩ : Avg.Max (Option K)) none = ⟨some a⟩ from rfl, ih]
      simp
    | some v =>
      rw [List.foldl_cons,
        show Max.add (⟨some a⟩ : Avg.Max (Option K)) (some v) = ⟨some (max a v)⟩ from rfl, ih]
      simp [max_assoc]

end NaNCarrier
