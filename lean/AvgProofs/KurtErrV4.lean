import AvgProofs.KurtErrNum

/-!
# Closed bounds for the scales of the rounding errors of `sum_4`, and the envelope form

For `|x_i| ≤ M`, `S₀ ≥ 0` with `T ≤ S₀²`:

* `VA4_le`: `VA4 ≤ 4M²·T` (each `|d_i| ≤ 2M`, `c_i ≤ i/(i+1)`, `Σ d_i²·i/(i+1) = T`),
* `VB4_le`: `VB4 ≤ 3·T²` (`T_i ≤ T`, `1/(i+1)² ≤ (i/(i+1))/2` for `i ≥ 1`),
* `VD4_le`: `VD4 ≤ 4·V3p·S₀` (Cauchy-Schwarz as for `VB`), and `VC4 ≤ VD4`,
* `VR_le`: `VR ≤ 2M·T`,
* `V4p_VD4_le`: `V4p + VD4 ≤ 4M²·T + 3·T² + 8·V3p·S₀ ≤ 4M²·T + 3·T² + 16·M·T·S₀ + 24·T·S₀²`.

`kurt_fold_error_closed`: the numerical bound with these inserted.

`kurt_envelope`: if `T ≤ n·σ²` and `N·u·M ≤ σ` (`N = n + 10`) then
`|sum_4 - Q| ≤ 8·N·u·(V4p + VD4) + (9/4)·N·u·M·VR + 29·N·u·M·V3p + 5538·N²·u·M·σ³`.
-/
open Avg MSpec Finset VarSpec SkewSpec KurtSpec VarErr SkewErr

namespace KurtErr
variable {K : Type} [Field K] [LinearOrder K] [IsStrictOrderedRing K]

/-- `VA4 ≤ D²·T` when every `|d_i| ≤ D` -/
theorem VA4_le (vs : List K) (D : K) (hD : ∀ i, i < vs.length → |dev vs i| ≤ D) :
    VA4 vs ≤ D^2 * T vs := by
  rw [T_eq_sum, mul_sum]
  unfold VA4
  apply sum_le_sum
  intro i hi
  have hd := hD i (mem_range.mp hi)
  have h0 : 0 ≤ |dev vs i| := abs_nonneg _
  have hc0 := cQ_nonneg (K := K) i
  have hcρ := cQ_le_ratio (K := K) i
  have hsq : (dev vs i)^2 ≤ D^2 := by rw [← sq_abs]; gcongr
  unfold incA4
  calc (dev vs i)^4 * cQ i = (dev vs i)^2 * ((dev vs i)^2 * cQ i) := by ring
    _ ≤ D^2 * ((dev vs i)^2 * ((i : K) / ((i : K) + 1))) := by gcongr

/-- `VR ≤ D·T` when every `|d_i| ≤ D` -/
theorem VR_le (vs : List K) (D : K) (hD : ∀ i, i < vs.length → |dev vs i| ≤ D) :
    VR vs ≤ D * T vs := by
  rw [T_eq_sum, mul_sum]
  unfold VR
  apply sum_le_sum
  intro i hi
  have hd := hD i (mem_range.mp hi)
  have h0 : 0 ≤ |dev vs i| := abs_nonneg _
  have hρ := ratio_nonneg (K := K) i
  calc |dev vs i|^3 * ((i : K) / ((i : K) + 1))
      = |dev vs i| * (|dev vs i|^2 * ((i : K) / ((i : K) + 1))) := by ring
    _ ≤ D * (|dev vs i|^2 * ((i : K) / ((i : K) + 1))) := by gcongr
    _ = D * ((dev vs i)^2 * ((i : K) / ((i : K) + 1))) := by rw [sq_abs]

/-- `VB4 ≤ 3·T²` -/
theorem VB4_le (vs : List K) : VB4 vs ≤ 3 * (T vs)^2 := by
  have hT := T_nonneg vs
  have hterm : ∀ i ∈ range vs.length, incB4 i (dev vs i) (T (vs.take i))
      ≤ (3 * T vs) * ((dev vs i)^2 * ((i : K) / ((i : K) + 1))) := by
    intro i _
    unfold incB4
    rcases Nat.eq_zero_or_pos i with h0 | h0
    · subst h0; simp [T_nil]
    · have h1 : (1 : K) ≤ i := by exact_mod_cast h0
      have hp : (0 : K) < (i : K) + 1 := by linarith
      have hle := T_take_le vs i
      have h0' := T_nonneg (vs.take i)
      have hfrac : 1 / ((i : K) + 1)^2 ≤ (i : K) / ((i : K) + 1) / 2 := by
        rw [div_div, div_le_div_iff₀ (by positivity) (by positivity)]
        nlinarith
      calc 6 * (dev vs i)^2 * T (vs.take i) / ((i : K) + 1)^2
          = 6 * (dev vs i)^2 * T (vs.take i) * (1 / ((i : K) + 1)^2) := by ring
        _ ≤ 6 * (dev vs i)^2 * T vs * ((i : K) / ((i : K) + 1) / 2) := by gcongr
        _ = (3 * T vs) * ((dev vs i)^2 * ((i : K) / ((i : K) + 1))) := by ring
  unfold VB4
  refine le_trans (sum_le_sum hterm) ?_
  rw [← mul_sum, ← T_eq_sum]
  apply le_of_eq; ring

/-- `VD4 ≤ 4·V3p·S₀` for every `S₀ ≥ 0` with `T ≤ S₀²` -/
theorem VD4_le (vs : List K) (S₀ : K) (hS : 0 ≤ S₀) (hST : T vs ≤ S₀^2) :
    VD4 vs ≤ 4 * V3p vs * S₀ := by
  have hV := V3p_nonneg vs
  have hterm : ∀ i ∈ range vs.length, incD4 i (dev vs i) (V3p (vs.take i))
      ≤ (4 * V3p vs) * rr vs i := by
    intro i _
    unfold incD4 rr
    split_ifs with h0
    · subst h0; simp [V3p, VA, VB]
    · have hp : (0 : K) < (i : K) + 1 := by positivity
      have hle := V3p_take_le vs i
      have h0' := V3p_nonneg (vs.take i)
      calc 4 * |dev vs i| * V3p (vs.take i) / ((i : K) + 1)
          ≤ 4 * |dev vs i| * V3p vs / ((i : K) + 1) := by gcongr
        _ = 4 * V3p vs * (|dev vs i| / ((i : K) + 1)) := by ring
  have hsum : VD4 vs ≤ (4 * V3p vs) * ∑ i ∈ range vs.length, rr vs i := by
    unfold VD4
    rw [mul_sum]
    exact sum_le_sum hterm
  have hY0 : 0 ≤ ∑ i ∈ range vs.length, rr vs i := sum_nonneg (fun i _ => rr_nonneg vs i)
  have hY : ∑ i ∈ range vs.length, rr vs i ≤ S₀ := by
    have h := sum_rr_sq_le vs
    by_contra hc
    rw [not_le] at hc
    nlinarith
  calc VD4 vs ≤ (4 * V3p vs) * ∑ i ∈ range vs.length, rr vs i := hsum
    _ ≤ (4 * V3p vs) * S₀ := by gcongr

/-- `V4p + VD4 ≤ 4M²·T + 3·T² + 8·V3p·S₀` for `|x_i| ≤ M`, `T ≤ S₀²` -/
theorem V4p_VD4_le (vs : List K) (M : K) (hM : 0 ≤ M) (hb : ∀ x ∈ vs, |x| ≤ M) (S₀ : K) (hS : 0 ≤ S₀)
    (hST : T vs ≤ S₀^2) :
    V4p vs + VD4 vs ≤ 4 * M^2 * T vs + 3 * (T vs)^2 + 8 * V3p vs * S₀ := by
  have h1 := VA4_le vs (2 * M) (abs_dev_le vs M hM hb)
  have h2 := VB4_le vs
  have h3 := VD4_le vs S₀ hS hST
  have h4 := VC4_le_VD4 vs
  unfold V4p
  calc VA4 vs + VB4 vs + VC4 vs + VD4 vs
      ≤ (2 * M)^2 * T vs + 3 * (T vs)^2 + 4 * V3p vs * S₀ + 4 * V3p vs * S₀ := by linarith
    _ = 4 * M^2 * T vs + 3 * (T vs)^2 + 8 * V3p vs * S₀ := by ring

/-- `V4p + VD4 ≤ 4M²·T + 3·T² + 16·M·T·S₀ + 24·T·S₀²` -/
theorem V4p_VD4_le' (vs : List K) (M : K) (hM : 0 ≤ M) (hb : ∀ x ∈ vs, |x| ≤ M) (S₀ : K)
    (hS : 0 ≤ S₀) (hST : T vs ≤ S₀^2) :
    V4p vs + VD4 vs ≤ 4 * M^2 * T vs + 3 * (T vs)^2 + 16 * M * T vs * S₀ + 24 * T vs * S₀^2 := by
  have h := V4p_VD4_le vs M hM hb S₀ hS hST
  have hv := V3p_le vs M hM hb S₀ hS hST
  have : 8 * V3p vs * S₀ ≤ 8 * (2 * M * T vs + 3 * T vs * S₀) * S₀ := by gcongr
  calc V4p vs + VD4 vs ≤ 4 * M^2 * T vs + 3 * (T vs)^2 + 8 * V3p vs * S₀ := h
    _ ≤ 4 * M^2 * T vs + 3 * (T vs)^2 + 8 * (2 * M * T vs + 3 * T vs * S₀) * S₀ := by linarith
    _ = 4 * M^2 * T vs + 3 * (T vs)^2 + 16 * M * T vs * S₀ + 24 * T vs * S₀^2 := by ring

/-- **Fully closed form.** `|x_i| ≤ M`, `(n+28)·u ≤ 1/64`, `T ≤ S₀²`, `n·T ≤ R₀²`, `N = n + 10`:
`|sum_4 - Q| ≤ N·u·(95·M²·T + 215·M·T·S₀ + 192·T·S₀² + 24·T²) + 230·u·M·R₀·T
     + 1650·N·u²·M²·R₀² + 138·N²·u²·M²·T + 2550·N³·u³·M³·R₀ + 970·N⁵·u⁴·M⁴`. -/
theorem kurt_fold_error_closed (r : Rnd2 K) (M : K) (hM : 0 ≤ M) (xs : List (RF2 r))
    (hb : ∀ x ∈ xs, |x.val| ≤ M) (hsmall : ((xs.length : K) + 28) * r.u ≤ 1/64)
    (S₀ : K) (hS : 0 ≤ S₀) (hST : T (xs.map RF2.val) ≤ S₀^2)
    (R₀ : K) (hR : 0 ≤ R₀) (hRT : (xs.length : K) * T (xs.map RF2.val) ≤ R₀^2) :
    |(xs.foldl Kurtosis.add Kurtosis.new).sum_4.val - Q (xs.map RF2.val)|
      ≤ ((xs.length : K) + 10) * r.u
          * (95 * M^2 * T (xs.map RF2.val) + 215 * M * T (xs.map RF2.val) * S₀
              + 192 * T (xs.map RF2.val) * S₀^2 + 24 * (T (xs.map RF2.val))^2)
        + 230 * r.u * M * R₀ * T (xs.map RF2.val)
        + 1650 * ((xs.length : K) + 10) * r.u^2 * M^2 * R₀^2
        + 138 * ((xs.length : K) + 10)^2 * r.u^2 * M^2 * T (xs.map RF2.val)
        + 2550 * ((xs.length : K) + 10)^3 * r.u^3 * M^3 * R₀
        + 970 * ((xs.length : K) + 10)^5 * r.u^4 * M^4 := by
  have hu := r.u_nonneg
  have hn0 : (0 : K) ≤ xs.length := Nat.cast_nonneg _
  have hbv : ∀ x ∈ xs.map RF2.val, |x| ≤ M := by
    intro y hy; rw [List.mem_map] at hy; obtain ⟨z, hz, rfl⟩ := hy; exact hb z hz
  have h := kurt_fold_error_num r M hM xs hb hsmall R₀ hR hRT
  have hv4 := V4p_VD4_le' (xs.map RF2.val) M hM hbv S₀ hS hST
  have hv3 := V3p_le (xs.map RF2.val) M hM hbv S₀ hS hST
  have hvr := VR_le (xs.map RF2.val) (2 * M) (abs_dev_le _ M hM hbv)
  set Tn := T (xs.map RF2.val) with hTn
  have hT0 : 0 ≤ Tn := T_nonneg _
  have c1 : 0 ≤ 8 * ((xs.length : K) + 10) * r.u := by positivity
  have c2 : 0 ≤ 9/4 * ((xs.length : K) + 10) * r.u * M := by positivity
  have c3 : 0 ≤ 29 * ((xs.length : K) + 10) * r.u * M := by positivity
  have m1 := mul_le_mul_of_nonneg_left hv4 c1
  have m2 := mul_le_mul_of_nonneg_left hvr c2
  have m3 := mul_le_mul_of_nonneg_left hv3 c3
  have hlast : 0 ≤ ((xs.length : K) + 10) * r.u * (M^2 * Tn) := by positivity
  refine le_trans h ?_
  nlinarith

/-- **Envelope form, linear in the conditioning.** If `σ ≥ 0` with `T ≤ n·σ²` and `N·u·M ≤ σ`
(`N = n + 10`), then
`|sum_4 - Q| ≤ 8·N·u·(V4p + VD4) + (9/4)·N·u·M·VR + 29·N·u·M·V3p + 5538·N²·u·M·σ³`. -/
theorem kurt_envelope (r : Rnd2 K) (M : K) (hM : 0 ≤ M) (xs : List (RF2 r))
    (hb : ∀ x ∈ xs, |x.val| ≤ M) (hsmall : ((xs.length : K) + 28) * r.u ≤ 1/64)
    (σ : K) (hσ : 0 ≤ σ) (hvar : T (xs.map RF2.val) ≤ xs.length * σ^2)
    (hcond : ((xs.length : K) + 10) * r.u * M ≤ σ) :
    |(xs.foldl Kurtosis.add Kurtosis.new).sum_4.val - Q (xs.map RF2.val)|
      ≤ 8 * ((xs.length : K) + 10) * r.u * (V4p (xs.map RF2.val) + VD4 (xs.map RF2.val))
        + 9/4 * ((xs.length : K) + 10) * r.u * M * VR (xs.map RF2.val)
        + 29 * ((xs.length : K) + 10) * r.u * M * V3p (xs.map RF2.val)
        + 5538 * ((xs.length : K) + 10)^2 * r.u * M * σ^3 := by
  have hu := r.u_nonneg
  set n : K := (xs.length : K) with hn
  have hn0 : 0 ≤ n := Nat.cast_nonneg _
  set Tn := T (xs.map RF2.val) with hTn
  have hT0 : 0 ≤ Tn := T_nonneg _
  have hRT : n * Tn ≤ (n * σ)^2 := by
    calc n * Tn ≤ n * (n * σ^2) := by gcongr
      _ = (n * σ)^2 := by ring
  have h := kurt_fold_error_num r M hM xs hb hsmall (n * σ) (by positivity) hRT
  refine le_trans h ?_
  set N := n + 10 with hN
  have hnN : n ≤ N := by linarith
  have hN0 : 0 ≤ N := by linarith
  set w := N * r.u * M with hw
  have hw0 : 0 ≤ w := by positivity
  have huM : 0 ≤ r.u * M := by positivity
  have hTN : Tn ≤ N * σ^2 := le_trans hvar (by gcongr)
  -- the five data terms, each at most a multiple of N²·u·M·σ³ = N·w·σ³
  have t1 : 230 * r.u * M * (n * σ) * Tn ≤ 230 * (N * w * σ^3) := by
    calc 230 * r.u * M * (n * σ) * Tn = 230 * (r.u * M) * (n * σ) * Tn := by ring
      _ ≤ 230 * (r.u * M) * (N * σ) * (N * σ^2) := by gcongr
      _ = 230 * (N * w * σ^3) := by rw [hw]; ring
  have t2 : 1650 * N * r.u^2 * M^2 * (n * σ)^2 ≤ 1650 * (N * w * σ^3) := by
    calc 1650 * N * r.u^2 * M^2 * (n * σ)^2 = 1650 * (r.u * M) * (n * n) * σ^2 * w := by
          rw [hw]; ring
      _ ≤ 1650 * (r.u * M) * (N * N) * σ^2 * σ := by gcongr
      _ = 1650 * (N * w * σ^3) := by rw [hw]; ring
  have t3 : 138 * N^2 * r.u^2 * M^2 * Tn ≤ 138 * (N * w * σ^3) := by
    calc 138 * N^2 * r.u^2 * M^2 * Tn = 138 * (r.u * M) * N * Tn * w := by rw [hw]; ring
      _ ≤ 138 * (r.u * M) * N * (N * σ^2) * σ := by gcongr
      _ = 138 * (N * w * σ^3) := by rw [hw]; ring
  have t4 : 2550 * N^3 * r.u^3 * M^3 * (n * σ) ≤ 2550 * (N * w * σ^3) := by
    calc 2550 * N^3 * r.u^3 * M^3 * (n * σ) = 2550 * (r.u * M) * N * (n * σ) * (w * w) := by
          rw [hw]; ring
      _ ≤ 2550 * (r.u * M) * N * (N * σ) * (σ * σ) := by gcongr
      _ = 2550 * (N * w * σ^3) := by rw [hw]; ring
  have t5 : 970 * N^5 * r.u^4 * M^4 ≤ 970 * (N * w * σ^3) := by
    calc 970 * N^5 * r.u^4 * M^4 = 970 * (N * w) * (w * w * w) := by rw [hw]; ring
      _ ≤ 970 * (N * w) * (σ * σ * σ) := by gcongr
      _ = 970 * (N * w * σ^3) := by ring
  have e : 5538 * N^2 * r.u * M * σ^3 = 5538 * (N * w * σ^3) := by rw [hw]; ring
  rw [e]
  linarith

end KurtErr

#print axioms KurtErr.V4p_VD4_le
#print axioms KurtErr.kurt_fold_error_closed
#print axioms KurtErr.kurt_envelope
