import AvgProofs.RoundQ
import AvgProofs.QuantileStep
import AvgProofs.QuantileInv
import Mathlib.Algebra.Order.Ring.Cast
import Mathlib.Data.List.Induction

/-!
# The P² invariant under rounded arithmetic (carrier `RQ r`)

On the carrier `RQ r` (every `+ - * /` followed by a monotone idempotent rounding of relative error
`u ≤ 1/4`, see `AvgProofs/RoundQ.lean`) the invariant

  heights sorted  ∧  positions strictly increasing  ∧  every height representable

is preserved by box B.3 (`adjust`), by the second phase of `add` and along every stream of
representable observations from the fifth on:

* the parabolic candidate is accepted only if the *rounded* value is strictly between the
  neighbours, and it is the result of a rounded addition, hence representable;
* the rounded linear step `fl(q_i + fl(fl(d * fl(q_j - q_i)) / Δn))`, `|Δn| ≥ 2`, moves by at most
  `(1+u)³/2 ≤ 1` times the gap, so the unrounded sum does not pass the neighbour `q_j`; the final rounding
  cannot pass it either, because `q_j` is representable and the rounding is monotone.
-/
open Avg Avg.Spec
set_option linter.unusedSectionVars false
set_option linter.unusedSimpArgs false

namespace Avg
open RQ
variable {K : Type} [Field K] [LinearOrder K] [IsStrictOrderedRing K] {r : RndQ K}

/-- all five marker heights are representable -/
def Rep5 (q : V5 (RQ r)) : Prop := Rep q.a0 ∧ Rep q.a1 ∧ Rep q.a2 ∧ Rep q.a3 ∧ Rep q.a4

theorem Rep5.get {q : V5 (RQ r)} (h : Rep5 q) (i : Nat) : Rep (q.get i) := by
  obtain ⟨h0, h1, h2, h3, h4⟩ := h
  match i with
  | 0 => exact h0
  | 1 => exact h1
  | 2 => exact h2
  | 3 => exact h3
  | (_+4) => exact h4

theorem Rep5.set {q : V5 (RQ r)} (h : Rep5 q) (i : Nat) (v : RQ r) (hv : Rep v) : Rep5 (q.set i v) := by
  obtain ⟨h0, h1, h2, h3, h4⟩ := h
  match i with
  | 0 => exact ⟨hv, h1, h2, h3, h4⟩
  | 1 => exact ⟨h0, hv, h2, h3, h4⟩
  | 2 => exact ⟨h0, h1, hv, h3, h4⟩
  | 3 => exact ⟨h0, h1, h2, hv, h4⟩
  | (_+4) => exact ⟨h0, h1, h2, h3, hv⟩

/-- the values computed by `linear` and `parabolic` are results of a rounded addition -/
theorem linear_rep (s : Quantile (RQ r)) (i : Nat) (sg : Int) : Rep (s.linear i sg) := rep_add _ _
theorem parabolic_rep (s : Quantile (RQ r)) (i : Nat) (sg : Int) : Rep (s.parabolic i sg) := rep_add _ _

/-- what `linear i 1` computes on `RQ r`: four rounded operations -/
theorem linear_up_val (s : Quantile (RQ r)) (i : Nat) :
    (s.linear i 1).val = r.fl ((s.q.get i).val
      + r.fl (r.fl (1 * r.fl ((s.q.get (i+1)).val - (s.q.get i).val))
              / ((s.n.get (i+1) - s.n.get i : Int) : K))) := by
  unfold Quantile.linear
  simp only [show ¬ ((1:Int) < 0) from by decide, if_false, add_val, div_val, mul_val, sub_val,
    intCast_val, Int.cast_one]

/-- what `linear i (-1)` computes on `RQ r` -/
theorem linear_down_val (s : Quantile (RQ r)) (i : Nat) :
    (s.linear i (-1)).val = r.fl ((s.q.get i).val
      + r.fl (r.fl (-1 * r.fl ((s.q.get (i-1)).val - (s.q.get i).val))
              / ((s.n.get (i-1) - s.n.get i : Int) : K))) := by
  unfold Quantile.linear
  simp only [show ((-1:Int) < 0) from by decide, if_true, add_val, div_val, mul_val, sub_val,
    intCast_val, Int.cast_neg, Int.cast_one]

/-- Rounded linear step towards the right neighbour: with `q[i] ≤ q[i+1]` both representable and a
position gap of at least 2 the new height stays in `[q[i], q[i+1]]`. -/
theorem linear_up_between_rounded (s : Quantile (RQ r)) (i : Nat) (hq : s.q.get i ≤ s.q.get (i+1))
    (hn : 2 ≤ s.n.get (i+1) - s.n.get i) (hri : Rep (s.q.get i)) (hrj : Rep (s.q.get (i+1))) :
    s.q.get i ≤ s.linear i 1 ∧ s.linear i 1 ≤ s.q.get (i+1) := by
  have hΔ : (2:K) ≤ ((s.n.get (i+1) - s.n.get i : Int) : K) := by exact_mod_cast hn
  rw [le_iff, le_iff, linear_up_val]
  exact r.step_up_between _ _ _ ((le_iff _ _).mp hq) hΔ hri hrj

/-- Rounded linear step towards the left neighbour: with `q[i-1] ≤ q[i]` both representable and a
position gap of at least 2 the new height stays in `[q[i-1], q[i]]`. -/
theorem linear_down_between_rounded (s : Quantile (RQ r)) (i : Nat) (hq : s.q.get (i-1) ≤ s.q.get i)
    (hn : s.n.get (i-1) - s.n.get i ≤ -2) (hri : Rep (s.q.get i)) (hrj : Rep (s.q.get (i-1))) :
    s.q.get (i-1) ≤ s.linear i (-1) ∧ s.linear i (-1) ≤ s.q.get i := by
  have hΔ : ((s.n.get (i-1) - s.n.get i : Int) : K) ≤ -2 := by exact_mod_cast hn
  rw [le_iff, le_iff, linear_down_val]
  exact r.step_down_between _ _ _ ((le_iff _ _).mp hq) hΔ hri hrj

/-- The rounded linear step in either direction `d = ±1`, as one statement: the neighbour `j` in
direction `d`, a position gap `|n[j] - n[i]| ≥ 2`, both heights representable: the new height lies
between `min (q[i], q[j])` and `max (q[i], q[j])`. -/
theorem linear_between_rounded (s : Quantile (RQ r)) (i : Nat) (sg : Int) (hsg : sg = 1 ∨ sg = -1)
    (hn : 2 ≤ |s.n.get (if sg < 0 then i - 1 else i + 1) - s.n.get i|)
    (hdir : 0 ≤ sg * (s.n.get (if sg < 0 then i - 1 else i + 1) - s.n.get i))
    (hord : if sg < 0 then s.q.get (i-1) ≤ s.q.get i else s.q.get i ≤ s.q.get (i+1))
    (hri : Rep (s.q.get i)) (hrj : Rep (s.q.get (if sg < 0 then i - 1 else i + 1))) :
    min (s.q.get i) (s.q.get (if sg < 0 then i - 1 else i + 1)) ≤ s.linear i sg
    ∧ s.linear i sg ≤ max (s.q.get i) (s.q.get (if sg < 0 then i - 1 else i + 1)) := by
  rcases hsg with rfl | rfl
  · simp only [show ¬ ((1:Int) < 0) from by decide, if_false] at hn hdir hord hrj ⊢
    have hn' : 2 ≤ s.n.get (i+1) - s.n.get i := by
      rw [abs_of_nonneg (by omega)] at hn; exact hn
    have := linear_up_between_rounded s i hord hn' hri hrj
    rw [min_eq_left hord, max_eq_right hord]
    exact this
  · simp only [show ((-1:Int) < 0) from by decide, if_true] at hn hdir hord hrj ⊢
    have hn' : s.n.get (i-1) - s.n.get i ≤ -2 := by
      rw [abs_of_nonpos (by omega)] at hn; omega
    have := linear_down_between_rounded s i hord hn' hri hrj
    rw [min_eq_right hord, max_eq_left hord]
    exact this

section inv
variable [FloatOps (RQ r)] [OrdLaws (RQ r)]

/-- the height chosen by `move` is always representable -/
theorem moveVal_rep (s : Quantile (RQ r)) (i : Nat) (sg : Int) : Rep (s.moveVal i sg) := by
  unfold Quantile.moveVal
  split_ifs
  · exact parabolic_rep s i sg
  · exact linear_rep s i sg

/-- `move` upwards keeps `q[i-1] ≤ q[i]' ≤ q[i+1]`: the parabolic candidate is accepted only when
its rounded value is strictly between the neighbours; otherwise the rounded linear step applies. -/
theorem moveVal_up_between_rounded (s : Quantile (RQ r)) (i : Nat) (hm : s.q.get (i-1) ≤ s.q.get i)
    (hq : s.q.get i ≤ s.q.get (i+1)) (hn : 2 ≤ s.n.get (i+1) - s.n.get i)
    (hri : Rep (s.q.get i)) (hrj : Rep (s.q.get (i+1))) :
    s.q.get (i-1) ≤ s.moveVal i 1 ∧ s.moveVal i 1 ≤ s.q.get (i+1) := by
  unfold Quantile.moveVal
  split_ifs with c
  · simp only [Bool.and_eq_true, OrdLaws.lt_iff] at c
    exact ⟨le_of_lt c.1, le_of_lt c.2⟩
  · have := linear_up_between_rounded s i hq hn hri hrj
    exact ⟨le_trans hm this.1, this.2⟩

/-- `move` downwards keeps `q[i-1] ≤ q[i]' ≤ q[i+1]`. -/
theorem moveVal_down_between_rounded (s : Quantile (RQ r)) (i : Nat) (hm : s.q.get (i-1) ≤ s.q.get i)
    (hq : s.q.get i ≤ s.q.get (i+1)) (hn : s.n.get (i-1) - s.n.get i ≤ -2)
    (hri : Rep (s.q.get i)) (hrj : Rep (s.q.get (i-1))) :
    s.q.get (i-1) ≤ s.moveVal i (-1) ∧ s.moveVal i (-1) ≤ s.q.get (i+1) := by
  unfold Quantile.moveVal
  split_ifs with c
  · simp only [Bool.and_eq_true, OrdLaws.lt_iff] at c
    exact ⟨le_of_lt c.1, le_of_lt c.2⟩
  · have := linear_down_between_rounded s i hm hn hri hrj
    exact ⟨this.1, le_trans this.2 hq⟩

/-- Box B.3 under rounded arithmetic keeps the heights sorted, the positions strictly increasing and
the heights representable. -/
theorem adjust_inv_rounded (s : Quantile (RQ r)) {i : Nat} (hi : i = 1 ∨ i = 2 ∨ i = 3)
    (hq : Sorted5 s.q) (hn : StrictIncr5 s.n) (hr : Rep5 s.q) :
    Sorted5 (s.adjust i).q ∧ StrictIncr5 (s.adjust i).n ∧ Rep5 (s.adjust i).q := by
  have gq := hq.get_le hi
  have gn := hn.get_lt hi
  rcases adjust_cases s i with h | ⟨hg, h⟩ | ⟨hg, h⟩ <;> rw [h]
  · exact ⟨hq, hn, hr⟩
  · rw [move_eq]
    have b := moveVal_up_between_rounded s i gq.1 gq.2 hg (hr.get _) (hr.get _)
    exact ⟨hq.set hi _ b.1 b.2, hn.set hi _ (by omega) (by omega), hr.set _ _ (moveVal_rep s i 1)⟩
  · rw [move_eq]
    have b := moveVal_down_between_rounded s i gq.1 gq.2 hg (hr.get _) (hr.get _)
    exact ⟨hq.set hi _ b.1 b.2, hn.set hi _ (by omega) (by omega), hr.set _ _ (moveVal_rep s i (-1))⟩

/-- boxes B.1/B.2 store either an old height or the observation -/
theorem psqHeights_rep (q : V5 (RQ r)) (x : RQ r) (h : Rep5 q) (hx : Rep x) : Rep5 (psqHeights q x) := by
  obtain ⟨h0, h1, h2, h3, h4⟩ := h
  unfold psqHeights
  refine ⟨?_, h1, h2, h3, ?_⟩
  · show Rep (if FloatOps.lt x q.a0 = true then x else q.a0)
    split_ifs
    · exact hx
    · exact h0
  · show Rep (if FloatOps.lt q.a4 x = true then x else q.a4)
    split_ifs
    · exact hx
    · exact h4

/-- One representable observation in the second phase keeps the invariant (rounded arithmetic). -/
theorem add_inv_rounded (s : Quantile (RQ r)) (x : RQ r) (h5 : 5 ≤ s.n.a4) (hq : Sorted5 s.q)
    (hn : StrictIncr5 s.n) (hr : Rep5 s.q) (hx : Rep x) :
    Sorted5 (s.add x).q ∧ StrictIncr5 (s.add x).n ∧ Rep5 (s.add x).q := by
  rw [add_large s x h5]
  have hc := cell_eq_spec s.q x s.n hq
  have h0 : Sorted5 (s.afterCell x).q ∧ StrictIncr5 (s.afterCell x).n ∧ Rep5 (s.afterCell x).q := by
    unfold Quantile.afterCell
    simp only [hc.1, hc.2]
    exact ⟨psqHeights_sorted _ _ hq, psqPositions_strict _ _ _ hq hn, psqHeights_rep _ _ hr hx⟩
  have h1 := adjust_inv_rounded _ (Or.inl rfl) h0.1 h0.2.1 h0.2.2
  have h2 := adjust_inv_rounded _ (Or.inr (Or.inl rfl)) h1.1 h1.2.1 h1.2.2
  exact adjust_inv_rounded _ (Or.inr (Or.inr rfl)) h2.1 h2.2.1 h2.2.2

/-- the five sorted initial observations are representable if the observations are -/
theorem ofList_sortBy_rep (d : RQ r) (l : List (RQ r)) (h : l.length = 5) (hl : ∀ x ∈ l, Rep x) :
    Rep5 (V5.ofList d (sortBy FloatOps.ordLt l)) := by
  have hlen := sortBy_length (FloatOps.ordLt : RQ r → RQ r → Bool) l
  rw [h] at hlen
  have hm : ∀ x ∈ sortBy (FloatOps.ordLt : RQ r → RQ r → Bool) l, Rep x :=
    fun x hx => hl x ((mem_sortBy _ l x).mp hx)
  generalize sortBy (FloatOps.ordLt : RQ r → RQ r → Bool) l = t at hlen hm
  match t, hlen with
  | [b0, b1, b2, b3, b4], _ =>
    exact ⟨hm b0 (by simp), hm b1 (by simp), hm b2 (by simp), hm b3 (by simp), hm b4 (by simp)⟩

/-- The invariant holds after every stream of at least five representable observations (rounded
arithmetic): heights sorted, positions strictly increasing, heights representable, `n[4]` the count. -/
theorem run_inv_rounded (p : RQ r) (xs : List (RQ r)) (h : 5 ≤ xs.length) (hx : ∀ x ∈ xs, Rep x) :
    Sorted5 (xs.foldl Quantile.add (Quantile.init p)).q
    ∧ StrictIncr5 (xs.foldl Quantile.add (Quantile.init p)).n
    ∧ Rep5 (xs.foldl Quantile.add (Quantile.init p)).q
    ∧ (xs.foldl Quantile.add (Quantile.init p)).n.a4 = xs.length := by
  induction xs using List.reverseRecOn with
  | nil => simp at h
  | append_singleton ys y ih =>
    rw [List.foldl_append, List.length_append]
    simp only [List.foldl_cons, List.foldl_nil, List.length_singleton]
    have hy : Rep y := hx y (by simp)
    have hys : ∀ x ∈ ys, Rep x := fun x hx' => hx x (by simp [hx'])
    by_cases h5 : 5 ≤ ys.length
    · obtain ⟨iq, inn, ir, i4⟩ := ih h5 hys
      have := add_inv_rounded _ y (by rw [i4]; exact_mod_cast h5) iq inn ir hy
      refine ⟨this.1, this.2.1, this.2.2, ?_⟩
      rw [add_n_a4, i4]; push_cast; rfl
    · have h4 : ys.length = 4 := by simp at h; omega
      match ys, h4, hx with
      | [a, b, c, d], _, hx =>
        show Sorted5 (((((Quantile.init p).add a).add b).add c).add d |>.add y).q ∧
          StrictIncr5 (((((Quantile.init p).add a).add b).add c).add d |>.add y).n ∧
          Rep5 (((((Quantile.init p).add a).add b).add c).add d |>.add y).q ∧
          (((((Quantile.init p).add a).add b).add c).add d |>.add y).n.a4 = _
        rw [init_add5]
        refine ⟨ofList_sortBy_sorted _ _ rfl, ?_, ofList_sortBy_rep _ _ rfl ?_, rfl⟩
        · unfold StrictIncr5; simp
        · intro x hx'; exact hx x (by simpa using hx')

end inv
end Avg
