import AvgProofs.MeanErr2
import Mathlib.Tactic.Ring
import Mathlib.Tactic.FieldSimp
import Mathlib.Tactic.Linarith
import Mathlib.Tactic.Positivity
import Mathlib.Tactic.GCongr
import Mathlib.Algebra.Order.Field.Basic
import Mathlib.Algebra.Order.Ring.Abs

/-!
# Multiplicative closeness: a calculus of relative errors that is closed under quotients

`MC Φ x y` (`Φ ≥ 1`): `x = y·φ` for some `φ ∈ [1/Φ, Φ]`. Unlike `|x - y| ≤ ε·|y|` this relation is closed
under products *and quotients* (the factors multiply), under square roots (the factor takes a square root),
and a rounding `fl` costs the factor `1/(1-u)`. It is converted back by `|x - y| ≤ (Φ - 1)·|y|`
(`MC.abs_sub_le`). Numerals: `Π 1/(1-aᵢ) ≤ 1/(1-Σaᵢ)` (`inv_one_sub_mul_le`, `inv_one_sub_pow_le`) and
`1/(1-s) ≤ 1 + (16/15)·s` for `s ≤ 1/16` (`inv_one_sub_le_numeral`).
-/

set_option linter.unusedSectionVars false
namespace SSE
variable {K : Type} [Field K] [LinearOrder K] [IsStrictOrderedRing K]

/-- `x` is `y` times a factor between `1/Φ` and `Φ` -/
def MC (Φ x y : K) : Prop := ∃ φ, Φ⁻¹ ≤ φ ∧ φ ≤ Φ ∧ x = y * φ

namespace MC

theorem refl (x : K) : MC 1 x x := ⟨1, by simp, le_refl _, by ring⟩

theorem mono {Φ Ψ x y : K} (hΦ : 0 < Φ) (hle : Φ ≤ Ψ) (h : MC Φ x y) : MC Ψ x y := by
  obtain ⟨φ, h1, h2, h3⟩ := h
  refine ⟨φ, le_trans ?_ h1, le_trans h2 hle, h3⟩
  exact inv_anti₀ hΦ hle

theorem factor_pos {Φ φ : K} (hΦ : 0 < Φ) (h : Φ⁻¹ ≤ φ) : 0 < φ :=
  lt_of_lt_of_le (inv_pos.mpr hΦ) h

theorem mul {Φ Ψ a b c d : K} (hΦ : 0 < Φ) (hΨ : 0 < Ψ) (h1 : MC Φ a b) (h2 : MC Ψ c d) :
    MC (Φ * Ψ) (a * c) (b * d) := by
  obtain ⟨φ, f1, f2, f3⟩ := h1
  obtain ⟨ψ, g1, g2, g3⟩ := h2
  have hφ := factor_pos hΦ f1
  have hψ := factor_pos hΨ g1
  refine ⟨φ * ψ, ?_, ?_, by rw [f3, g3]; ring⟩
  · rw [mul_inv]
    exact mul_le_mul f1 g1 (inv_pos.mpr hΨ).le hφ.le
  · exact mul_le_mul f2 g2 hψ.le hΦ.le

theorem inv_factor {Ψ ψ : K} (hΨ : 0 < Ψ) (g1 : Ψ⁻¹ ≤ ψ) (g2 : ψ ≤ Ψ) : Ψ⁻¹ ≤ ψ⁻¹ ∧ ψ⁻¹ ≤ Ψ := by
  have hψ := factor_pos hΨ g1
  constructor
  · exact inv_anti₀ hψ g2
  · rw [inv_le_comm₀ hψ hΨ]; exact g1

theorem div {Φ Ψ a b c d : K} (hΦ : 0 < Φ) (hΨ : 0 < Ψ) (h1 : MC Φ a b) (h2 : MC Ψ c d) :
    MC (Φ * Ψ) (a / c) (b / d) := by
  obtain ⟨φ, f1, f2, f3⟩ := h1
  obtain ⟨ψ, g1, g2, g3⟩ := h2
  have hφ := factor_pos hΦ f1
  have hψ := factor_pos hΨ g1
  obtain ⟨i1, i2⟩ := inv_factor hΨ g1 g2
  refine ⟨φ * ψ⁻¹, ?_, ?_, ?_⟩
  · rw [mul_inv]
    exact mul_le_mul f1 i1 (inv_pos.mpr hΨ).le hφ.le
  · exact mul_le_mul f2 i2 (inv_pos.mpr hψ).le hΦ.le
  · rw [f3, g3, div_eq_mul_inv, div_eq_mul_inv, mul_inv]; ring

theorem trans {Φ Ψ a b c : K} (hΦ : 0 < Φ) (hΨ : 0 < Ψ) (h1 : MC Φ a b) (h2 : MC Ψ b c) :
    MC (Φ * Ψ) a c := by
  obtain ⟨φ, f1, f2, f3⟩ := h1
  obtain ⟨ψ, g1, g2, g3⟩ := h2
  have hφ := factor_pos hΦ f1
  have hψ := factor_pos hΨ g1
  refine ⟨ψ * φ, ?_, ?_, by rw [f3, g3]; ring⟩
  · rw [mul_inv, mul_comm]
    exact mul_le_mul g1 f1 (inv_pos.mpr hΦ).le hψ.le
  · rw [mul_comm Φ Ψ]
    exact mul_le_mul g2 f2 hφ.le hΨ.le

/-- a relative error `ε < 1` is a multiplicative closeness with factor `1/(1-ε)` -/
theorem of_rel {ε x y : K} (hε : 0 ≤ ε) (hε1 : ε < 1) (h : |x - y| ≤ ε * |y|) : MC (1 - ε)⁻¹ x y := by
  have h1 : 0 < 1 - ε := by linarith
  have hup : 1 + ε ≤ (1 - ε)⁻¹ := by
    rw [inv_eq_one_div, le_div_iff₀ h1]
    nlinarith
  by_cases hy : y = 0
  · subst hy
    have : x = 0 := by simpa using h
    subst this
    exact ⟨1, by rw [inv_inv]; linarith, by linarith, by ring⟩
  · refine ⟨x / y, ?_, ?_, by field_simp⟩
    · rw [inv_inv]
      have : |x / y - 1| ≤ ε := by
        have e : x / y - 1 = (x - y) / y := by field_simp
        rw [e, abs_div, div_le_iff₀ (abs_pos.mpr hy)]; exact h
      linarith [(abs_le.mp this).1]
    · have : |x / y - 1| ≤ ε := by
        have e : x / y - 1 = (x - y) / y := by field_simp
        rw [e, abs_div, div_le_iff₀ (abs_pos.mpr hy)]; exact h
      linarith [(abs_le.mp this).2]

/-- one rounding: factor `1/(1-u)` -/
theorem fl (r : Rnd2 K) (hu1 : r.u < 1) (t : K) : MC (1 - r.u)⁻¹ (r.fl t) t :=
  of_rel r.u_nonneg hu1 (r.err t)

/-- rounding after an approximation -/
theorem round (r : Rnd2 K) (hu1 : r.u < 1) {Φ t y : K} (hΦ : 0 < Φ) (h : MC Φ t y) :
    MC (Φ * (1 - r.u)⁻¹) (r.fl t) y := by
  have h1 : 0 < (1 - r.u)⁻¹ := inv_pos.mpr (by linarith)
  have := trans h1 hΦ (fl r hu1 t) h
  rwa [mul_comm] at this

/-- back to an absolute value: `|x - y| ≤ (Φ - 1)·|y|` -/
theorem abs_sub_le {Φ x y : K} (hΦ : 1 ≤ Φ) (h : MC Φ x y) : |x - y| ≤ (Φ - 1) * |y| := by
  obtain ⟨φ, f1, f2, f3⟩ := h
  have hpos : 0 < Φ := by linarith
  have hinv : 2 - Φ ≤ Φ⁻¹ := by
    rw [inv_eq_one_div, le_div_iff₀ hpos]; nlinarith [sq_nonneg (Φ - 1)]
  have e : x - y = y * (φ - 1) := by rw [f3]; ring
  rw [e, abs_mul, mul_comm]
  apply mul_le_mul_of_nonneg_right _ (abs_nonneg _)
  rw [abs_le]; constructor <;> linarith

/-- the approximating value has the sign of the approximated one -/
theorem pos_of_pos {Φ x y : K} (hΦ : 0 < Φ) (h : MC Φ x y) (hy : 0 < y) : 0 < x := by
  obtain ⟨φ, f1, _, f3⟩ := h
  rw [f3]; exact mul_pos hy (factor_pos hΦ f1)

theorem nonneg_of_nonneg {Φ x y : K} (hΦ : 0 < Φ) (h : MC Φ x y) (hy : 0 ≤ y) : 0 ≤ x := by
  obtain ⟨φ, f1, _, f3⟩ := h
  rw [f3]; exact mul_nonneg hy (factor_pos hΦ f1).le

end MC

/-! ## numerals -/

/-- `1/(1-a) · 1/(1-b) ≤ 1/(1-(a+b))` for `a, b ≥ 0`, `a + b < 1` -/
theorem inv_one_sub_mul_le {a b : K} (ha : 0 ≤ a) (hb : 0 ≤ b) (hab : a + b < 1) :
    (1 - a)⁻¹ * (1 - b)⁻¹ ≤ (1 - (a + b))⁻¹ := by
  have h1 : 0 < 1 - a := by linarith
  have h2 : 0 < 1 - b := by linarith
  have h3 : 0 < 1 - (a + b) := by linarith
  rw [← mul_inv]
  apply inv_anti₀ h3
  nlinarith [mul_nonneg ha hb]

/-- `(1/(1-u))^k ≤ 1/(1-k·u)` for `k·u < 1` -/
theorem inv_one_sub_pow_le {u : K} (hu : 0 ≤ u) : ∀ k : ℕ, (k : K) * u < 1 →
    ((1 - u)⁻¹) ^ k ≤ (1 - (k : K) * u)⁻¹ := by
  intro k
  induction k with
  | zero => intro _; simp
  | succ k ih =>
    intro hk
    have hk' : ((k : K)) * u < 1 := by
      push_cast at hk; nlinarith
    have hu1 : u < 1 := by
      push_cast at hk
      have : (0:K) ≤ (k : K) * u := mul_nonneg (Nat.cast_nonneg k) hu
      linarith
    rw [pow_succ]
    have h0 : 0 ≤ (1 - u)⁻¹ := (inv_pos.mpr (by linarith)).le
    calc (1 - u)⁻¹ ^ k * (1 - u)⁻¹ ≤ (1 - (k : K) * u)⁻¹ * (1 - u)⁻¹ :=
          mul_le_mul_of_nonneg_right (ih hk') h0
      _ ≤ (1 - ((k : K) * u + u))⁻¹ :=
          inv_one_sub_mul_le (mul_nonneg (Nat.cast_nonneg k) hu) hu (by push_cast at hk; linarith)
      _ = _ := by push_cast; ring_nf

/-- `1/(1-s) ≤ 1 + (16/15)·s` for `0 ≤ s ≤ 1/16` -/
theorem inv_one_sub_le_numeral {s : K} (hs : 0 ≤ s) (hs1 : s ≤ 1/16) :
    (1 - s)⁻¹ ≤ 1 + 16/15 * s := by
  have h1 : 0 < 1 - s := by linarith
  rw [inv_eq_one_div, div_le_iff₀ h1]
  nlinarith

theorem one_le_inv_one_sub {a : K} (ha : 0 ≤ a) (ha1 : a < 1) : 1 ≤ (1 - a)⁻¹ := by
  rw [le_inv_comm₀ (by norm_num) (by linarith)]; simp; exact ha

end SSE
