import AvgProofs.RoundQ
import Mathlib.Data.Rat.Floor
import Mathlib.Algebra.Order.Ring.Rat
import Mathlib.Algebra.Field.Rat
import Mathlib.Algebra.Order.Floor.Ring

/-!
# A genuinely non-trivial instance of `RndQ ℚ`

`floorRnd`: below 4 every rational is representable, from 4 on only the integers are and the
rounding is towards zero (`fl t = ⌊t⌋`). Monotone, idempotent, relative error `< 1/4`
(`t - ⌊t⌋ < 1 ≤ t/4` for `t ≥ 4`), not odd, not the identity: `fl (9/2) = 4`.
Also the trivial instance `idRnd` (`fl = id`, `u = 0`: exact arithmetic).
-/
open Avg

/-- exact arithmetic as a rounding -/
def idRnd : RndQ ℚ where
  fl := id
  mono := monotone_id
  idem := fun _ => rfl
  u := 0
  u_nonneg := le_refl _
  u_le := by norm_num
  err := fun t => by simp

/-- integers only from 4 on, rounding down -/
def floorRnd : RndQ ℚ where
  fl := fun t => if t < 4 then t else (⌊t⌋ : ℚ)
  mono := by
    intro a b hab
    show (if a < 4 then a else (⌊a⌋ : ℚ)) ≤ (if b < 4 then b else (⌊b⌋ : ℚ))
    by_cases ha : a < 4 <;> by_cases hb : b < 4
    · simp only [ha, hb, if_true]; exact hab
    · simp only [ha, hb, if_true, if_false]
      have h4 : (4:ℤ) ≤ ⌊b⌋ := Int.le_floor.mpr (by push_cast; exact not_lt.mp hb)
      have : (4:ℚ) ≤ (⌊b⌋ : ℚ) := by exact_mod_cast h4
      linarith
    · exact absurd (lt_of_le_of_lt hab hb) ha
    · simp only [ha, hb, if_false]
      exact_mod_cast Int.floor_mono hab
  idem := by
    intro t
    show (if (if t < 4 then t else (⌊t⌋ : ℚ)) < 4 then (if t < 4 then t else (⌊t⌋ : ℚ))
          else ((⌊(if t < 4 then t else (⌊t⌋ : ℚ))⌋ : ℤ) : ℚ)) = if t < 4 then t else (⌊t⌋ : ℚ)
    by_cases ht : t < 4
    · simp only [ht, if_true]
    · simp only [ht, if_false]
      have h4 : (4:ℤ) ≤ ⌊t⌋ := Int.le_floor.mpr (by push_cast; exact not_lt.mp ht)
      have : ¬ ((⌊t⌋ : ℚ) < 4) := by
        have : (4:ℚ) ≤ (⌊t⌋ : ℚ) := by exact_mod_cast h4
        linarith
      simp only [this, if_false, Int.floor_intCast]
  u := 1 / 4
  u_nonneg := by norm_num
  u_le := le_refl _
  err := by
    intro t
    show |(if t < 4 then t else (⌊t⌋ : ℚ)) - t| ≤ 1 / 4 * |t|
    by_cases ht : t < 4
    · simp only [ht, if_true, sub_self, abs_zero]; positivity
    · simp only [ht, if_false]
      have h4 : (4:ℚ) ≤ t := not_lt.mp ht
      have h1 := Int.floor_le t
      have h2 := Int.lt_floor_add_one t
      rw [abs_of_nonpos (by linarith), abs_of_nonneg (by linarith)]
      linarith

theorem floorRnd_fl (t : ℚ) : floorRnd.fl t = if t < 4 then t else (⌊t⌋ : ℚ) := rfl

/-- it really rounds: `9/2` is not representable, `fl (9/2) = 4` -/
theorem floorRnd_nontrivial : floorRnd.fl (9 / 2) = 4 ∧ floorRnd.fl (9 / 2) ≠ 9 / 2 := by
  have h : floorRnd.fl (9 / 2) = 4 := by
    rw [floorRnd_fl]
    have : ¬ ((9 / 2 : ℚ) < 4) := by norm_num
    rw [if_neg this]
    have : ⌊(9 / 2 : ℚ)⌋ = 4 := by
      rw [Int.floor_eq_iff]; constructor <;> norm_num
    rw [this]; norm_num
  exact ⟨h, by rw [h]; norm_num⟩

/-- every integer is representable under `floorRnd` -/
theorem floorRnd_int (n : ℤ) : floorRnd.fl (n : ℚ) = n := by
  rw [floorRnd_fl]
  split_ifs
  · rfl
  · rw [Int.floor_intCast]

theorem floorRnd_rep_int (n : ℤ) : RQ.Rep (⟨(n : ℚ)⟩ : RQ floorRnd) := floorRnd_int n
