import AvgProofs.Shift

/-! The crate's `IterBinomial` works in `u64`: `a = a * (n - k + 1) / k`. The model uses `Nat`.
This file shows the intermediate product (hence every value) stays below `2^64` for every order
`p ≤ 62`, by running the very recurrence of the model, and that order 63 overflows. -/
namespace MSpec

/-- run the recurrence `a ← a*(p-k+1)/k` from `k`, checking the product before the division -/
def iterBinomOK (p : Nat) : Nat → Nat → Nat → Bool
  | _, 0, _ => true
  | k, fuel+1, a => decide (a * (p - k + 1) < 2^64) && iterBinomOK p (k+1) fuel (a * (p - k + 1) / k)

theorem iterBinomOK_spec (p : Nat) : ∀ (fuel k a : Nat), 1 ≤ k → k + fuel ≤ p + 1 → a = p.choose (k-1) →
    iterBinomOK p k fuel a = true → ∀ j, k ≤ j → j < k + fuel → p.choose (j-1) * (p - j + 1) < 2^64 := by
  intro fuel
  induction fuel with
  | zero => intro k a _ _ _ _ j h1 h2; omega
  | succ fuel ih =>
    intro k a hk hle ha hok j h1 h2
    unfold iterBinomOK at hok
    rw [Bool.and_eq_true, decide_eq_true_eq] at hok
    by_cases hj : j = k
    · subst hj; rw [← ha]; exact hok.1
    · have hbin : a * (p - k + 1) / k = p.choose k := by
        have := binom_step p (k-1) (by omega)
        rw [ha]
        have e1 : k - 1 + 1 = k := by omega
        rw [e1] at this
        exact this
      exact ih (k+1) _ (by omega) (by omega) (by simpa using hbin) hok.2 j (by omega) (by omega)

set_option maxRecDepth 100000 in
theorem iterBinomOK_le_62 : ∀ p, p ≤ 62 → iterBinomOK p 1 p 1 = true := by decide

/-- For every order `p ≤ 62` and every step `k = 1..p` of `IterBinomial::new(p)`, the `u64` product
`a * (n - k + 1)` formed before the division does not overflow. -/
theorem iterBinomial_no_overflow (p : Nat) (hp : p ≤ 62) (k : Nat) (h1 : 1 ≤ k) (hk : k ≤ p) :
    p.choose (k-1) * (p - k + 1) < 2^64 :=
  iterBinomOK_spec p p 1 1 (le_refl 1) (by omega) (by simp) (iterBinomOK_le_62 p hp) k h1 (by omega)

/-- hence every binomial coefficient produced is a `u64` -/
theorem iterBinomial_value_lt (p : Nat) (hp : p ≤ 62) (k : Nat) (hk : k ≤ p) : p.choose k < 2^64 := by
  by_cases h0 : k = 0
  · subst h0; simp
  · have h := iterBinomial_no_overflow p hp k (by omega) hk
    have hb := binom_step p (k-1) (by omega)
    have e1 : k - 1 + 1 = k := by omega
    rw [e1] at hb
    rw [← hb]
    exact lt_of_le_of_lt (Nat.div_le_self _ _) h

set_option maxRecDepth 100000 in
/-- order 63 is the first that overflows (at `k = 32`) -/
theorem iterBinomial_overflow_63 : iterBinomOK 63 1 63 1 = false := by decide

end MSpec
#print axioms MSpec.iterBinomial_no_overflow
#print axioms MSpec.iterBinomial_value_lt
