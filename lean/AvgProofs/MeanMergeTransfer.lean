import AvgProofs.Reach
import AvgProofs.MTree

/-!
# Projections of merge trees (any carrier, no Mathlib)

* `MTree.map`: apply a function to every observation of a merge tree (same shape, same chunking).
* `Covariance.mtree_meanXState` / `mtree_meanYState`: the `(avg_x, n)` / `(avg_y, n)` half of a
  `Covariance` state after any merge tree over pairs is bit for bit the `Mean` state that `Mean`
  computes through the same tree over the first / second components
  (`Covariance.add` and `Covariance.merge` update `avg_x`, `avg_y` with the text of `Mean.add`, `Mean.merge`).
-/
namespace MTree
universe u v
variable {α : Type u} {β : Type v}

/-- the same tree over the images of the observations -/
def map (f : α → β) : MTree α → MTree β
  | leaf xs => leaf (xs.map f)
  | node l r => node (map f l) (map f r)

@[simp] theorem map_leaf (f : α → β) (xs : List α) : (leaf xs).map f = leaf (xs.map f) := rfl
@[simp] theorem map_node (f : α → β) (l r : MTree α) : (node l r).map f = node (l.map f) (r.map f) := rfl

theorem flatten_map (f : α → β) (t : MTree α) : (t.map f).flatten = t.flatten.map f := by
  induction t with
  | leaf xs => rfl
  | node l r ihl ihr => rw [map_node, flatten_node, flatten_node, ihl, ihr, List.map_append]

end MTree

namespace Avg
variable {α : Type} [Add α] [Sub α] [Mul α] [Div α] [NatCast α]

theorem Covariance.add_meanXState (s : Covariance α) (x y : α) :
    (s.add x y).meanXState = s.meanXState.add x := rfl
theorem Covariance.add_meanYState (s : Covariance α) (x y : α) :
    (s.add x y).meanYState = s.meanYState.add y := rfl

theorem Covariance.fold_meanXState (ps : List (α × α)) (s : Covariance α) :
    (ps.foldl (fun s p => s.add p.1 p.2) s).meanXState
      = (ps.map Prod.fst).foldl Mean.add s.meanXState := by
  induction ps generalizing s with
  | nil => rfl
  | cons p ps ih => rw [List.foldl_cons, ih, Covariance.add_meanXState]; rfl
theorem Covariance.fold_meanYState (ps : List (α × α)) (s : Covariance α) :
    (ps.foldl (fun s p => s.add p.1 p.2) s).meanYState
      = (ps.map Prod.snd).foldl Mean.add s.meanYState := by
  induction ps generalizing s with
  | nil => rfl
  | cons p ps ih => rw [List.foldl_cons, ih, Covariance.add_meanYState]; rfl

/-- evaluation of a merge tree over pairs with `Covariance` -/
abbrev Covariance.evalTree (t : MTree (α × α)) : Covariance α :=
  t.eval Covariance.new (fun s p => s.add p.1 p.2) Covariance.merge

theorem Covariance.mtree_meanXState (t : MTree (α × α)) :
    (Covariance.evalTree t).meanXState = (t.map Prod.fst).eval Mean.new Mean.add Mean.merge := by
  induction t with
  | leaf ps => simp only [MTree.eval_leaf, MTree.map_leaf, Covariance.fold_meanXState]; rfl
  | node l r ihl ihr =>
    simp only [MTree.eval_node, MTree.map_node, Covariance.merge_meanXState] at *; rw [ihl, ihr]
theorem Covariance.mtree_meanYState (t : MTree (α × α)) :
    (Covariance.evalTree t).meanYState = (t.map Prod.snd).eval Mean.new Mean.add Mean.merge := by
  induction t with
  | leaf ps => simp only [MTree.eval_leaf, MTree.map_leaf, Covariance.fold_meanYState]; rfl
  | node l r ihl ihr =>
    simp only [MTree.eval_node, MTree.map_node, Covariance.merge_meanYState] at *; rw [ihl, ihr]

end Avg
