import AvgProofs.VarMergeErrArith
import Mathlib.Tactic.LinearCombination

/-!
# The square-root-free invariant of the merge-tree induction for `sum_3` and its super-additivity

`SkewMerge.G3 u B Λ κ n V T = 15·u·n·V + 6·B·n·T + (27/10)·B·Λ·n²·T + (27/10)·B·κ·n³ + (8/5)·B³·n⁴`
with two free parameters `Λ, κ ≥ 0`, `B² ≤ Λ·κ` (`B` = per-observation error budget of the mean, `V` the scale
`V3T` of the tree, `T` the exact sum of squares). With `Λ = B·n/R₀`, `κ = B·R₀/n`, `n·T ≤ R₀²` the two middle
terms are at most `(27/5)·B²·n²·R₀`.

* `SkewMerge.zt_bound`: the errors of the two computed sums of squares (each below `P2·G` of
  `AvgProofs/VarMergeErrArith.lean` for *every* pair of parameters, chosen here as `B/ρ`, `B·ρ` with
  `ρ = |δ| + ε` the bound on the computed difference of the means) enter through
  `(3/n)·ρ·(n_x·|D2_y| + n_y·|D2_x|)`.
* `SkewMerge.superadd3`: `G3(n_x,V_x,T_x) + G3(n_y,V_y,T_y) + (errors committed by one merge) ≤
  G3(n_x+n_y, V_x+V_y+J, T_x+T_y+C)` for the *same* `Λ, κ`:
  - the relative roundings (`γ15·Pa + γ8·Qa`, the three final additions, the relative error `(19/2)·u·n·T` of the
    sums of squares) are paid by `15·u·(n·V - n_x·V_x - n_y·V_y) = 15·u·(n_y·V_x + n_x·V_y + n·J)`;
  - the terms linear in the budget `B` of the mean by `6·B·(n·T - n_x·T_x - n_y·T_y) = 6·B·(H + n·C)`;
  - the terms `B²·n·|δ|·n_x·n_y` by AM-GM against `(27/10)·B·Λ·n·δ²·n_x·n_y + (81/10)·B·κ·n·n_x·n_y`;
  - the terms `B³·n²·n_x·n_y` by `(8/5)·B³·(n⁴ - n_x⁴ - n_y⁴)`.
* `SkewMerge.node_arith3`: the whole arithmetic of one step of the induction, leading factor `(1+u)^(3n)`.
-/
variable {K : Type} [Field K] [LinearOrder K] [IsStrictOrderedRing K]

namespace SkewMerge
open VarMerge

/-- the first-order envelope of `sum_3` carried through the merge tree -/
def G3 (u B Λ κ n V Tn : K) : K :=
  15 * u * n * V + 6 * B * n * Tn + 27/10 * B * Λ * n^2 * Tn + 27/10 * B * κ * n^3 + 8/5 * B^3 * n^4

theorem G3_nonneg (u B Λ κ n V Tn : K) (hu : 0 ≤ u) (hB : 0 ≤ B) (hΛ : 0 ≤ Λ) (hκ : 0 ≤ κ)
    (hn : 0 ≤ n) (hV : 0 ≤ V) (hT : 0 ≤ Tn) : 0 ≤ G3 u B Λ κ n V Tn := by
  unfold G3; positivity

/-- AM-GM in the form used by the merge step -/
theorem amgm3 (Λ κ B D : K) (hΛ : 0 ≤ Λ) (hκ : 0 ≤ κ) (_hB : 0 ≤ B) (_hD : 0 ≤ D) (hΛκ : B^2 ≤ Λ * κ) :
    927/100 * B * D ≤ 27/10 * Λ * D^2 + 81/10 * κ := by
  rcases hΛ.eq_or_lt with h0 | hpos
  · have hB0 : B = 0 := by
      rw [← h0, zero_mul] at hΛκ
      exact pow_eq_zero_iff (two_ne_zero) |>.mp (le_antisymm hΛκ (sq_nonneg B))
    rw [hB0, ← h0]
    have : 0 ≤ 81/10 * κ := by positivity
    simpa using this
  · have key : 0 ≤ (27/10 * Λ) * (27/10 * Λ * D^2 + 81/10 * κ - 927/100 * B * D) := by
      nlinarith [sq_nonneg (27/10 * Λ * D - 927/200 * B)]
    by_contra h
    rw [not_le] at h
    have : (27/10 * Λ) * (27/10 * Λ * D^2 + 81/10 * κ - 927/100 * B * D) < 0 :=
      mul_neg_of_pos_of_neg (by positivity) (by linarith)
    linarith

/-- how the errors `Dx`, `Dy` of the two computed sums of squares enter the second cross term: both are below
`P2·G` for every admissible pair of parameters; with `ρ ≥ 0` a bound on the computed difference of the means -/
theorem zt_bound (u B P2 nx ny Tx Ty Dx Dy ρ : K) (hu : 0 ≤ u) (hB : 0 ≤ B) (hP2 : 0 ≤ P2)
    (hnx : 0 < nx) (hny : 0 < ny) (hTx : 0 ≤ Tx) (hTy : 0 ≤ Ty) (hρ : 0 ≤ ρ)
    (hDx : ∀ Λ κ : K, 0 ≤ Λ → 0 ≤ κ → B^2 ≤ Λ * κ → Dx ≤ P2 * G u B Λ κ nx Tx)
    (hDy : ∀ Λ κ : K, 0 ≤ Λ → 0 ≤ κ → B^2 ≤ Λ * κ → Dy ≤ P2 * G u B Λ κ ny Ty) :
    3 / (nx + ny) * (ρ * (nx * Dy + ny * Dx))
      ≤ 3 * P2 * (ρ * (19/2 * u * (nx * ny / (nx + ny)) * (Tx + Ty)
                      + 2/5 * B^2 * (nx * ny / (nx + ny)) * (nx^2 + ny^2))
            + 4/5 * B * (nx * ny / (nx + ny)) * (Tx + Ty + ρ^2 * (nx + ny))) := by
  have hn : 0 < nx + ny := by positivity
  rcases hρ.eq_or_lt with h0 | hpos
  · rw [← h0]
    have : 0 ≤ 3 * P2 * (0 * (19/2 * u * (nx * ny / (nx + ny)) * (Tx + Ty)
                      + 2/5 * B^2 * (nx * ny / (nx + ny)) * (nx^2 + ny^2))
            + 4/5 * B * (nx * ny / (nx + ny)) * (Tx + Ty + 0^2 * (nx + ny))) := by positivity
    simpa using this
  · have hΛκ : B^2 ≤ (B / ρ) * (B * ρ) := by
      have : (B / ρ) * (B * ρ) = B^2 := by field_simp
      rw [this]
    have hx := hDx (B / ρ) (B * ρ) (by positivity) (by positivity) hΛκ
    have hy := hDy (B / ρ) (B * ρ) (by positivity) (by positivity) hΛκ
    have hx' : ρ * Dx ≤ P2 * (ρ * (19/2 * u * nx * Tx + 2/5 * B^2 * nx^3)
        + 4/5 * B * nx * (Tx + ρ^2 * nx)) := by
      have := mul_le_mul_of_nonneg_left hx hpos.le
      refine le_trans this (le_of_eq ?_)
      unfold G; field_simp; ring
    have hy' : ρ * Dy ≤ P2 * (ρ * (19/2 * u * ny * Ty + 2/5 * B^2 * ny^3)
        + 4/5 * B * ny * (Ty + ρ^2 * ny)) := by
      have := mul_le_mul_of_nonneg_left hy hpos.le
      refine le_trans this (le_of_eq ?_)
      unfold G; field_simp; ring
    have e : 3 / (nx + ny) * (ρ * (nx * Dy + ny * Dx))
        = 3 / (nx + ny) * (nx * (ρ * Dy) + ny * (ρ * Dx)) := by ring
    rw [e]
    have h3 : (0 : K) ≤ 3 / (nx + ny) := by positivity
    calc 3 / (nx + ny) * (nx * (ρ * Dy) + ny * (ρ * Dx))
        ≤ 3 / (nx + ny) * (nx * (P2 * (ρ * (19/2 * u * ny * Ty + 2/5 * B^2 * ny^3)
              + 4/5 * B * ny * (Ty + ρ^2 * ny)))
            + ny * (P2 * (ρ * (19/2 * u * nx * Tx + 2/5 * B^2 * nx^3)
              + 4/5 * B * nx * (Tx + ρ^2 * nx)))) := by gcongr
      _ = _ := by field_simp; ring

/-- the part of one step that comes through the errors of the sums of squares, sorted by family:
`q·(n_x+n_y) = n_x·n_y`, `Qa·(n_x+n_y) = 3·d·H` -/
theorem zt_split (u B nx ny Tx Ty d q Qa : K) (hu : 0 ≤ u) (hB : 0 ≤ B)
    (hnx : 1 ≤ nx) (hny : 1 ≤ ny) (hnu : (nx + ny) * u ≤ 1/64)
    (hTx : 0 ≤ Tx) (hTy : 0 ≤ Ty) (hd : 0 ≤ d)
    (hq0 : 0 ≤ q) (hq : q * (nx + ny) = nx * ny)
    (hQa : Qa * (nx + ny) = 3 * d * (nx * Ty + ny * Tx)) :
    3 * ((d + B * (nx + ny)) * (19/2 * u * q * (Tx + Ty) + 2/5 * B^2 * q * (nx^2 + ny^2))
          + 4/5 * B * q * (Tx + Ty + (d + B * (nx + ny))^2 * (nx + ny)))
      ≤ 19/2 * u * ((nx + ny - 1) * Qa) + 1821/640 * (B * (nx * Ty + ny * Tx))
        + 12/5 * (B * (d^2 * (nx * ny))) + 6 * (B^2 * ((nx + ny) * d * (nx * ny)))
        + 18/5 * (B^3 * ((nx + ny)^2 * (nx * ny))) := by
  have hnx0 : 0 ≤ nx := by linarith
  have hny0 : 0 ≤ ny := by linarith
  have hn : 0 < nx + ny := by linarith
  have hqx : q ≤ nx := by
    have : q * (nx + ny) ≤ nx * (nx + ny) := by rw [hq]; nlinarith
    exact le_of_mul_le_mul_right this hn
  have hqy : q ≤ ny := by
    have : q * (nx + ny) ≤ ny * (nx + ny) := by rw [hq]; nlinarith
    exact le_of_mul_le_mul_right this hn
  set A1 := q * (Tx + Ty) with hA1
  set A2 := q * (nx^2 + ny^2) with hA2
  have hA10 : 0 ≤ A1 := by positivity
  have hA20 : 0 ≤ A2 := by positivity
  have pb : A1 ≤ nx * Ty + ny * Tx := by
    have h1 : q * Tx ≤ ny * Tx := by gcongr
    have h2 : q * Ty ≤ nx * Ty := by gcongr
    rw [hA1]; linarith
  have pa : 3 * d * A1 ≤ (nx + ny - 1) * Qa := by
    have key : nx * ny * (Tx + Ty) ≤ (nx + ny - 1) * (nx * Ty + ny * Tx) := by
      have h1 : 0 ≤ nx * Ty * (nx - 1) := by
        have : 0 ≤ nx - 1 := by linarith
        positivity
      have h2 : 0 ≤ ny * Tx * (ny - 1) := by
        have : 0 ≤ ny - 1 := by linarith
        positivity
      nlinarith
    have : 3 * d * A1 * (nx + ny) ≤ (nx + ny - 1) * Qa * (nx + ny) := by
      have e1 : 3 * d * A1 * (nx + ny) = 3 * d * (nx * ny * (Tx + Ty)) := by
        rw [hA1, ← hq]; ring
      have e2 : (nx + ny - 1) * Qa * (nx + ny)
          = 3 * d * ((nx + ny - 1) * (nx * Ty + ny * Tx)) := by
        rw [mul_assoc, hQa]; ring
      rw [e1, e2]
      gcongr
    exact le_of_mul_le_mul_right this hn
  have pc : A2 ≤ (nx + ny) * (nx * ny) := by
    have : nx^2 + ny^2 ≤ (nx + ny)^2 := by nlinarith
    calc A2 = q * (nx^2 + ny^2) := hA2
      _ ≤ q * (nx + ny)^2 := by gcongr
      _ = (nx + ny) * (q * (nx + ny)) := by ring
      _ = (nx + ny) * (nx * ny) := by rw [hq]
  have e : 3 * ((d + B * (nx + ny)) * (19/2 * u * q * (Tx + Ty) + 2/5 * B^2 * q * (nx^2 + ny^2))
          + 4/5 * B * q * (Tx + Ty + (d + B * (nx + ny))^2 * (nx + ny)))
      = 19/2 * (u * (3 * d * A1)) + 57/2 * (((nx + ny) * u) * (B * A1)) + 6/5 * (B^2 * d * A2)
        + 6/5 * (B^3 * (nx + ny) * A2) + 12/5 * (B * A1)
        + 12/5 * (B * (q * (nx + ny)) * (d + B * (nx + ny))^2) := by
    rw [hA1, hA2]; ring
  rw [e, hq]
  have t1 : u * (3 * d * A1) ≤ u * ((nx + ny - 1) * Qa) := by gcongr
  have t5 : B * A1 ≤ B * (nx * Ty + ny * Tx) := by gcongr
  have t2 : ((nx + ny) * u) * (B * A1) ≤ 1/64 * (B * (nx * Ty + ny * Tx)) := by
    have h0 : 0 ≤ B * A1 := by positivity
    calc ((nx + ny) * u) * (B * A1) ≤ 1/64 * (B * A1) := by gcongr
      _ ≤ 1/64 * (B * (nx * Ty + ny * Tx)) := by gcongr
  have t3 : B^2 * d * A2 ≤ B^2 * d * ((nx + ny) * (nx * ny)) := by gcongr
  have t4 : B^3 * (nx + ny) * A2 ≤ B^3 * (nx + ny) * ((nx + ny) * (nx * ny)) := by gcongr
  have e6 : 12/5 * (B * (nx * ny) * (d + B * (nx + ny))^2)
      = 12/5 * (B * (d^2 * (nx * ny))) + 24/5 * (B^2 * ((nx + ny) * d * (nx * ny)))
        + 12/5 * (B^3 * ((nx + ny)^2 * (nx * ny))) := by ring
  rw [e6]
  have e3 : B^2 * d * ((nx + ny) * (nx * ny)) = B^2 * ((nx + ny) * d * (nx * ny)) := by ring
  have e4 : B^3 * (nx + ny) * ((nx + ny) * (nx * ny)) = B^3 * ((nx + ny)^2 * (nx * ny)) := by ring
  rw [e3] at t3
  rw [e4] at t4
  linarith

/-- the relative roundings are paid by the growth of `15·u·n·V`: `a = d³·w`, `b = Qa` -/
theorem rel_family (u gA gB a b Vx Vy nx ny : K) (hu : 0 ≤ u)
    (hgA : gA ≤ 76/5 * u) (hgB : gB ≤ 81/10 * u) (ha : 0 ≤ a) (hb : 0 ≤ b)
    (hnx : 1 ≤ nx) (hny : 1 ≤ ny) (hVx : 0 ≤ Vx) (hVy : 0 ≤ Vy) :
    gA * a + gB * b + 3 * u * (Vx + Vy + (a + b)) + 26/25 * (19/2 * u * ((nx + ny - 1) * b))
      ≤ 15 * u * (ny * Vx + nx * Vy + (nx + ny) * (a + b)) := by
  have h01 : gA * a ≤ 76/5 * u * a := by gcongr
  have h02 : gB * b ≤ 76/5 * u * b := by
    have : gB ≤ 76/5 * u := by linarith
    gcongr
  have h1 : u * Vx ≤ u * (ny * Vx) := by
    have : Vx ≤ ny * Vx := by nlinarith
    gcongr
  have h2 : u * Vy ≤ u * (nx * Vy) := by
    have : Vy ≤ nx * Vy := by nlinarith
    gcongr
  have h3 : u * ((nx + ny - 1) * b) ≤ u * ((nx + ny - 1) * (a + b)) := by
    have : 0 ≤ nx + ny - 1 := by linarith
    have : b ≤ a + b := by linarith
    gcongr
  have h4 : u * (2 * (a + b)) ≤ u * ((nx + ny) * (a + b)) := by
    have : 2 * (a + b) ≤ (nx + ny) * (a + b) := by nlinarith
    gcongr
  have h7 : 0 ≤ u * (a + b) := by positivity
  have h8 : 0 ≤ u * (ny * Vx) := by positivity
  have h9 : 0 ≤ u * (nx * Vy) := by positivity
  have e : u * ((nx + ny - 1) * (a + b)) = u * ((nx + ny) * (a + b)) - u * (a + b) := by ring
  linarith

/-- the first cross term perturbed by the error `B·(n_x+n_y)` of the difference of the means -/
theorem e3_le (gA B nx ny d q w : K) (hgA0 : 0 ≤ gA) (hgA1 : 1 + gA ≤ 101/100) (hB : 0 ≤ B)
    (hnx : 0 ≤ nx) (hny : 0 ≤ ny) (hd : 0 ≤ d) (hq : q * (nx + ny) = nx * ny) (_hw0 : 0 ≤ w)
    (hw : w ≤ q) :
    (1 + gA) * (w * (3 * d^2 * (B * (nx + ny)) + 3 * d * (B * (nx + ny))^2 + (B * (nx + ny))^3))
      ≤ 101/100 * (3 * (B * (d^2 * (nx * ny))) + 3 * (B^2 * ((nx + ny) * d * (nx * ny)))
          + B^3 * ((nx + ny)^2 * (nx * ny))) := by
  have h0 : 0 ≤ 3 * d^2 * (B * (nx + ny)) + 3 * d * (B * (nx + ny))^2 + (B * (nx + ny))^3 := by
    positivity
  have h1 : w * (3 * d^2 * (B * (nx + ny)) + 3 * d * (B * (nx + ny))^2 + (B * (nx + ny))^3)
      ≤ q * (3 * d^2 * (B * (nx + ny)) + 3 * d * (B * (nx + ny))^2 + (B * (nx + ny))^3) := by
    gcongr
  have h2 : q * (3 * d^2 * (B * (nx + ny)) + 3 * d * (B * (nx + ny))^2 + (B * (nx + ny))^3)
      = 3 * (B * (d^2 * (nx * ny))) + 3 * (B^2 * ((nx + ny) * d * (nx * ny)))
          + B^3 * ((nx + ny)^2 * (nx * ny)) := by
    rw [← hq]; ring
  have h3 : 0 ≤ 3 * (B * (d^2 * (nx * ny))) + 3 * (B^2 * ((nx + ny) * d * (nx * ny)))
      + B^3 * ((nx + ny)^2 * (nx * ny)) := by positivity
  have h4 : 0 ≤ 1 + gA := by linarith
  calc _ ≤ (1 + gA) * (3 * (B * (d^2 * (nx * ny))) + 3 * (B^2 * ((nx + ny) * d * (nx * ny)))
          + B^3 * ((nx + ny)^2 * (nx * ny))) := by
        rw [← h2]; gcongr
    _ ≤ _ := by gcongr

/-- `n_x²·T_x + n_y²·T_y ≤ (n_x+n_y)²·(T_x+T_y)` -/
theorem sq_growth (nx ny Tx Ty : K) (hnx : 0 ≤ nx) (hny : 0 ≤ ny) (hTx : 0 ≤ Tx) (hTy : 0 ≤ Ty) :
    0 ≤ (nx + ny)^2 * (Tx + Ty) - nx^2 * Tx - ny^2 * Ty := by
  have h1 : nx^2 * Tx ≤ (nx + ny)^2 * Tx := by
    have : nx^2 ≤ (nx + ny)^2 := by nlinarith
    gcongr
  have h2 : ny^2 * Ty ≤ (nx + ny)^2 * Ty := by
    have : ny^2 ≤ (nx + ny)^2 := by nlinarith
    gcongr
  linarith

/-- `3·n²·n_x·n_y ≤ n⁴ - n_x⁴ - n_y⁴` -/
theorem quartic_growth (nx ny : K) (hnx : 0 ≤ nx) (hny : 0 ≤ ny) :
    3 * ((nx + ny)^2 * (nx * ny)) ≤ (nx + ny)^4 - nx^4 - ny^4 := by
  have : 0 ≤ nx * ny * (nx^2 + ny^2) := by positivity
  nlinarith

/-- the growth of the envelope under one merge -/
theorem G3_diff (u B Λ κ nx ny Tx Ty Vx Vy d q J : K) (hq : q * (nx + ny) = nx * ny) :
    G3 u B Λ κ (nx + ny) (Vx + Vy + J) (Tx + Ty + d^2 * q)
        - G3 u B Λ κ nx Vx Tx - G3 u B Λ κ ny Vy Ty
      = 15 * u * (ny * Vx + nx * Vy + (nx + ny) * J)
        + 6 * (B * (nx * Ty + ny * Tx)) + 6 * (B * (d^2 * (nx * ny)))
        + 27/10 * B * Λ * ((nx + ny)^2 * (Tx + Ty) - nx^2 * Tx - ny^2 * Ty)
        + 27/10 * B * Λ * ((nx + ny) * (d^2 * (nx * ny)))
        + 81/10 * B * κ * ((nx + ny) * (nx * ny))
        + 8/5 * B^3 * ((nx + ny)^4 - nx^4 - ny^4) := by
  unfold G3
  linear_combination (6 * B * d^2 + 27/10 * B * Λ * (nx + ny) * d^2) * hq

/-- **Super-additivity of the envelope under one merge.** `d = |δ|`, `q·(n_x+n_y) = n_x·n_y`, `C = d²·q` the exact
cross term of the sums of squares, `w ≤ q` the weight of `d³`, `Qa = 3·(d/n)·H`, `J = d³·w + Qa`; `ε = B·(n_x+n_y)`
the error of the difference of the computed means; `gA ≤ 15.2u`, `gB ≤ 8.1u` the relative errors of the computed
cross terms; `Zt` the contribution of the errors of the two sums of squares (`zt_bound`). -/
theorem superadd3 (u B Λ κ gA gB P2 nx ny Tx Ty Vx Vy d q w Qa Zt : K)
    (hu : 0 ≤ u) (hu' : u ≤ 1/1856) (hB : 0 ≤ B) (hΛ : 0 ≤ Λ) (hκ : 0 ≤ κ) (hΛκ : B^2 ≤ Λ * κ)
    (hgA0 : 0 ≤ gA) (hgA : gA ≤ 76/5 * u) (hgB0 : 0 ≤ gB) (hgB : gB ≤ 81/10 * u)
    (hP2 : 0 ≤ P2) (hP2' : P2 ≤ 32/31)
    (hnx : 1 ≤ nx) (hny : 1 ≤ ny) (hnu : (nx + ny) * u ≤ 1/64)
    (hTx : 0 ≤ Tx) (hTy : 0 ≤ Ty) (hVx : 0 ≤ Vx) (hVy : 0 ≤ Vy) (hd : 0 ≤ d)
    (hq0 : 0 ≤ q) (hq : q * (nx + ny) = nx * ny) (hw0 : 0 ≤ w) (hw : w ≤ q)
    (hQa0 : 0 ≤ Qa) (hQa : Qa * (nx + ny) = 3 * d * (nx * Ty + ny * Tx))
    (hZt : Zt ≤ 3 * P2 * ((d + B * (nx + ny))
                * (19/2 * u * q * (Tx + Ty) + 2/5 * B^2 * q * (nx^2 + ny^2))
              + 4/5 * B * q * (Tx + Ty + (d + B * (nx + ny))^2 * (nx + ny)))) :
    G3 u B Λ κ nx Vx Tx + G3 u B Λ κ ny Vy Ty
        + (gA * (d^3 * w) + gB * Qa
            + (1 + gA) * (w * (3 * d^2 * (B * (nx + ny)) + 3 * d * (B * (nx + ny))^2
                + (B * (nx + ny))^3))
            + (1 + gB) * (3 * B * (nx * Ty + ny * Tx) + Zt))
        + 3 * u * (Vx + Vy + (d^3 * w + Qa))
      ≤ G3 u B Λ κ (nx + ny) (Vx + Vy + (d^3 * w + Qa)) (Tx + Ty + d^2 * q) := by
  have hnx0 : 0 ≤ nx := by linarith
  have hny0 : 0 ≤ ny := by linarith
  have hn0 : 0 ≤ nx + ny := by linarith
  have hgA1 : 1 + gA ≤ 101/100 := by linarith
  have hgB1 : 1 + gB ≤ 201/200 := by linarith
  have hBH : 0 ≤ B * (nx * Ty + ny * Tx) := by positivity
  have hBc2 : 0 ≤ B * (d^2 * (nx * ny)) := by positivity
  have hBF4 : 0 ≤ B^3 * ((nx + ny)^2 * (nx * ny)) := by positivity
  -- the sums of squares
  have hsplit := zt_split u B nx ny Tx Ty d q Qa hu hB hnx hny hnu hTx hTy hd hq0 hq hQa
  have hZ2 : (1 + gB) * Zt ≤ 26/25 * (19/2 * u * ((nx + ny - 1) * Qa)
      + 1821/640 * (B * (nx * Ty + ny * Tx))
      + 12/5 * (B * (d^2 * (nx * ny))) + 6 * (B^2 * ((nx + ny) * d * (nx * ny)))
      + 18/5 * (B^3 * ((nx + ny)^2 * (nx * ny)))) := by
    have hI0 : 0 ≤ 19/2 * u * ((nx + ny - 1) * Qa)
      + 1821/640 * (B * (nx * Ty + ny * Tx))
      + 12/5 * (B * (d^2 * (nx * ny))) + 6 * (B^2 * ((nx + ny) * d * (nx * ny)))
      + 18/5 * (B^3 * ((nx + ny)^2 * (nx * ny))) := by
      have : 0 ≤ nx + ny - 1 := by linarith
      positivity
    have hZ1 : Zt ≤ P2 * (19/2 * u * ((nx + ny - 1) * Qa)
      + 1821/640 * (B * (nx * Ty + ny * Tx))
      + 12/5 * (B * (d^2 * (nx * ny))) + 6 * (B^2 * ((nx + ny) * d * (nx * ny)))
      + 18/5 * (B^3 * ((nx + ny)^2 * (nx * ny)))) := by
      refine le_trans hZt ?_
      have := mul_le_mul_of_nonneg_left hsplit hP2
      refine le_trans (le_of_eq ?_) this
      ring
    have h1 : (1 + gB) * Zt ≤ (1 + gB) * (P2 * (19/2 * u * ((nx + ny - 1) * Qa)
      + 1821/640 * (B * (nx * Ty + ny * Tx))
      + 12/5 * (B * (d^2 * (nx * ny))) + 6 * (B^2 * ((nx + ny) * d * (nx * ny)))
      + 18/5 * (B^3 * ((nx + ny)^2 * (nx * ny))))) := by
      have : 0 ≤ 1 + gB := by linarith
      gcongr
    have h2 : (1 + gB) * P2 ≤ 26/25 := by
      calc (1 + gB) * P2 ≤ 201/200 * (32/31) := by gcongr
        _ ≤ 26/25 := by norm_num
    refine le_trans h1 ?_
    rw [← mul_assoc]
    gcongr
  have hE3 := e3_le gA B nx ny d q w hgA0 hgA1 hB hnx0 hny0 hd hq hw0 hw
  have hE4 : (1 + gB) * (3 * B * (nx * Ty + ny * Tx)) ≤ 603/200 * (B * (nx * Ty + ny * Tx)) := by
    calc (1 + gB) * (3 * B * (nx * Ty + ny * Tx)) = (1 + gB) * (3 * (B * (nx * Ty + ny * Tx))) := by
          ring
      _ ≤ 201/200 * (3 * (B * (nx * Ty + ny * Tx))) := by gcongr
      _ = 603/200 * (B * (nx * Ty + ny * Tx)) := by ring
  have hU := rel_family u gA gB (d^3 * w) Qa Vx Vy nx ny hu hgA hgB (by positivity) hQa0 hnx hny
    hVx hVy
  -- AM-GM for the family B²·n·d·n_x·n_y
  have hAG : 927/100 * (B^2 * ((nx + ny) * d * (nx * ny)))
      ≤ 27/10 * B * Λ * ((nx + ny) * (d^2 * (nx * ny)))
        + 81/10 * B * κ * ((nx + ny) * (nx * ny)) := by
    have h := amgm3 Λ κ B d hΛ hκ hB hd hΛκ
    have h0 : 0 ≤ B * ((nx + ny) * (nx * ny)) := by positivity
    have := mul_le_mul_of_nonneg_right h h0
    refine le_trans (le_of_eq ?_) (le_trans this (le_of_eq ?_))
    · ring
    · ring
  have hid := G3_diff u B Λ κ nx ny Tx Ty Vx Vy d q (d^3 * w + Qa) hq
  have hΛT : 0 ≤ 27/10 * B * Λ * ((nx + ny)^2 * (Tx + Ty) - nx^2 * Tx - ny^2 * Ty) := by
    have := sq_growth nx ny Tx Ty hnx0 hny0 hTx hTy
    positivity
  have hB4 : 8/5 * B^3 * (3 * ((nx + ny)^2 * (nx * ny)))
      ≤ 8/5 * B^3 * ((nx + ny)^4 - nx^4 - ny^4) := by
    have := quartic_growth nx ny hnx0 hny0
    gcongr
  have e1 : (1 + gB) * (3 * B * (nx * Ty + ny * Tx) + Zt)
      = (1 + gB) * (3 * B * (nx * Ty + ny * Tx)) + (1 + gB) * Zt := by ring
  rw [e1]
  linarith only [hZ2, hE3, hE4, hU, hAG, hid, hΛT, hB4, hBH, hBc2, hBF4]

/-- the factors `(1+u)` of the three rounded additions of a merge and the three relative terms `u·|target|` are
absorbed by the growth `(1+u)³` of the leading factor -/
theorem merge_absorb3 (u Pm Ex Ey Gx Gy X a1 a2 a3 V Gn : K) (hu : 0 ≤ u) (hPm : 1 ≤ Pm)
    (hEx : Ex ≤ Pm * Gx) (hEy : Ey ≤ Pm * Gy) (hX : 0 ≤ X) (hV : 0 ≤ V)
    (ha1 : a1 ≤ V) (ha2 : a2 ≤ V) (ha3 : a3 ≤ V)
    (hsup : Gx + Gy + X + 3 * u * V ≤ Gn) :
    (1 + u)^3 * (Ex + Ey + X) + u * (1 + u)^2 * a1 + u * (1 + u) * a2 + u * a3
      ≤ (1 + u)^3 * Pm * Gn := by
  have hP0 : 0 ≤ Pm := by linarith
  have h1u : (1 : K) ≤ 1 + u := by linarith
  have hc3 : (0 : K) ≤ (1 + u)^3 := by positivity
  have hX' : X ≤ Pm * X := by nlinarith
  have h1 : (1 + u)^3 * (Ex + Ey + X) ≤ (1 + u)^3 * (Pm * Gx + Pm * Gy + Pm * X) := by
    gcongr
  have huV : 0 ≤ u * V := by positivity
  have p2 : (1 + u)^2 ≤ (1 + u)^3 := pow_le_pow_right₀ h1u (by norm_num)
  have p1 : (1 + u) ≤ (1 + u)^3 := by
    calc (1 + u) = (1 + u)^1 := (pow_one _).symm
      _ ≤ (1 + u)^3 := pow_le_pow_right₀ h1u (by norm_num)
  have p0 : (1 : K) ≤ (1 + u)^3 := one_le_pow₀ h1u
  have t1 : u * (1 + u)^2 * a1 ≤ (1 + u)^3 * (u * V) := by
    calc u * (1 + u)^2 * a1 = (1 + u)^2 * (u * a1) := by ring
      _ ≤ (1 + u)^2 * (u * V) := by gcongr
      _ ≤ (1 + u)^3 * (u * V) := by gcongr
  have t2 : u * (1 + u) * a2 ≤ (1 + u)^3 * (u * V) := by
    calc u * (1 + u) * a2 = (1 + u) * (u * a2) := by ring
      _ ≤ (1 + u) * (u * V) := by gcongr
      _ ≤ (1 + u)^3 * (u * V) := by gcongr
  have t3 : u * a3 ≤ (1 + u)^3 * (u * V) := by
    calc u * a3 ≤ u * V := by gcongr
      _ = 1 * (u * V) := by ring
      _ ≤ (1 + u)^3 * (u * V) := by gcongr
  have t4 : (1 + u)^3 * (3 * u * V) ≤ (1 + u)^3 * (Pm * (3 * u * V)) := by
    have h0 : 0 ≤ 3 * u * V := by positivity
    have : 3 * u * V ≤ Pm * (3 * u * V) := by nlinarith
    gcongr
  have h5 : (1 + u)^3 * (Pm * (Gx + Gy + X + 3 * u * V)) ≤ (1 + u)^3 * (Pm * Gn) := by
    gcongr
  calc (1 + u)^3 * (Ex + Ey + X) + u * (1 + u)^2 * a1 + u * (1 + u) * a2 + u * a3
      ≤ (1 + u)^3 * (Pm * Gx + Pm * Gy + Pm * X) + (1 + u)^3 * (Pm * (3 * u * V)) := by
        have e : (1 + u)^3 * (3 * u * V) = 3 * ((1 + u)^3 * (u * V)) := by ring
        linarith
    _ = (1 + u)^3 * (Pm * (Gx + Gy + X + 3 * u * V)) := by ring
    _ ≤ (1 + u)^3 * (Pm * Gn) := h5
    _ = (1 + u)^3 * Pm * Gn := by ring

/-- the whole arithmetic of one step of the induction: `kx, ky ≥ 1` the two counts; `X` the new errors of the
step, `a1, a2, a3` the absolute values of the three targets of the rounded additions -/
theorem node_arith3 (u B Λ κ Vx Vy Tx Ty V' T' Ex Ey X a1 a2 a3 : K) (kx ky : ℕ)
    (hkx : 1 ≤ kx) (hky : 1 ≤ ky) (hu : 0 ≤ u) (hB : 0 ≤ B) (hΛ : 0 ≤ Λ) (hκ : 0 ≤ κ)
    (hVx : 0 ≤ Vx) (hVy : 0 ≤ Vy) (hTx : 0 ≤ Tx) (hTy : 0 ≤ Ty) (hX : 0 ≤ X) (hV' : 0 ≤ V')
    (ha1 : a1 ≤ V') (ha2 : a2 ≤ V') (ha3 : a3 ≤ V')
    (hEx : Ex ≤ (1 + u)^(3 * kx) * G3 u B Λ κ (kx : K) Vx Tx)
    (hEy : Ey ≤ (1 + u)^(3 * ky) * G3 u B Λ κ (ky : K) Vy Ty)
    (hsup : G3 u B Λ κ (kx : K) Vx Tx + G3 u B Λ κ (ky : K) Vy Ty + X + 3 * u * V'
      ≤ G3 u B Λ κ ((kx : K) + (ky : K)) V' T') :
    (1 + u)^3 * (Ex + Ey + X) + u * (1 + u)^2 * a1 + u * (1 + u) * a2 + u * a3
      ≤ (1 + u)^(3 * (kx + ky)) * G3 u B Λ κ ((kx : K) + (ky : K)) V' T' := by
  have hnx0 : (0 : K) ≤ kx := Nat.cast_nonneg _
  have hny0 : (0 : K) ≤ ky := Nat.cast_nonneg _
  set Pm := (1 + u)^(3 * (kx + ky) - 3) with hPm
  have hPm1 : 1 ≤ Pm := one_le_pow₀ (by linarith)
  have hPl : (1 + u)^(3 * kx) ≤ Pm := pow_le_pow_right₀ (by linarith) (by omega)
  have hPr : (1 + u)^(3 * ky) ≤ Pm := pow_le_pow_right₀ (by linarith) (by omega)
  have hGx0 : 0 ≤ G3 u B Λ κ kx Vx Tx := G3_nonneg _ _ _ _ _ _ _ hu hB hΛ hκ hnx0 hVx hTx
  have hGy0 : 0 ≤ G3 u B Λ κ ky Vy Ty := G3_nonneg _ _ _ _ _ _ _ hu hB hΛ hκ hny0 hVy hTy
  have hEx' : Ex ≤ Pm * G3 u B Λ κ kx Vx Tx := by
    refine le_trans hEx ?_; gcongr
  have hEy' : Ey ≤ Pm * G3 u B Λ κ ky Vy Ty := by
    refine le_trans hEy ?_; gcongr
  have habs := merge_absorb3 u Pm Ex Ey (G3 u B Λ κ kx Vx Tx) (G3 u B Λ κ ky Vy Ty) X a1 a2 a3 V'
    (G3 u B Λ κ ((kx : K) + (ky : K)) V' T') hu hPm1 hEx' hEy' hX hV' ha1 ha2 ha3 hsup
  have hpow : (1 + u)^3 * Pm = (1 + u)^(3 * (kx + ky)) := by
    rw [hPm, ← pow_add]; congr 1; omega
  rw [← hpow]
  exact habs

end SkewMerge

#print axioms SkewMerge.zt_bound
#print axioms SkewMerge.superadd3
#print axioms SkewMerge.node_arith3
