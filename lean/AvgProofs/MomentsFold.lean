import AvgProofs.MomentsMerge
import AvgProofs.MTree

/-! `define_moments!`: the folded state, every merge tree, and the count on any carrier. -/
open Avg
set_option linter.unusedSectionVars false
namespace MSpec

section anyCarrier
variable {α : Type} [Add α] [Sub α] [Mul α] [Div α] [Neg α] [NatCast α]

/-- the count after a fold, bit for bit on any carrier -/
theorem momN_fold_n (N : Nat) (xs : List α) (s : Moments α) :
    (xs.foldl (Moments.add N) s).n = s.n + xs.length := by
  induction xs generalizing s with
  | nil => rfl
  | cons x xs ih => rw [List.foldl_cons, ih]; simp only [Moments.add, List.length_cons]; omega

theorem momN_fold_new_n (N : Nat) (xs : List α) :
    (xs.foldl (Moments.add N) (Moments.new N)).n = xs.length := by
  rw [momN_fold_n]; simp [Moments.new]
end anyCarrier

variable {K : Type} [Field K] [CharZero K]

/-- evaluation of a merge tree with `define_moments!(T, N)` -/
abbrev momEvalTree (N : Nat) (t : MTree K) : Moments K :=
  t.eval (Moments.new N) (Moments.add N) (Moments.merge N)

theorem moments_fold (N : Nat) (xs : List K) :
    xs.foldl (Moments.add N) (Moments.new N) = canonM N xs := by
  induction xs using List.reverseRecOn with
  | nil => simp [canonM_nil]
  | append_singleton xs x ih => rw [List.foldl_append, ih]; simp [moments_add]

theorem moments_mtree (N : Nat) (t : MTree K) : momEvalTree N t = canonM N t.flatten :=
  MTree.eval_canon _ _ _ (canonM N) (moments_fold N) (moments_merge N) t

end MSpec
#print axioms MSpec.moments_fold
#print axioms MSpec.moments_mtree
