import AvgProofs.VarMergeErrArith

/-!
# The square-root-free invariant of the merge-tree induction for `sum_prod` and its super-additivity

`CovMerge.GC u Bx By Λ₁ κ₁ Λ₂ κ₂ E n G Tx Ty L =
   (19/4)·u·n·G + (2/5)·Λ₁·n·Ty + (2/5)·κ₁·n² + (3/4)·Λ₂·n·Tx + (3/4)·κ₂·n² + (2/5)·Bx·By·n³ + (6/5)·E·L`

with free parameters `Λ₁, κ₁, Λ₂, κ₂ ≥ 0`, `Bx² ≤ Λ₁·κ₁`, `By² ≤ Λ₂·κ₂` (`Bx`, `By` = per-observation error
budgets of the two means). `G` stands for the sum of the absolute exact increments (`CovSpec.GT`), `L` for
the number of non-empty leaves, `E = ε·Mx` for the first-pair term of one leaf. Minimising over the free
parameters gives `(4/5)·Bx·n·sqrt(n·Ty) + (3/2)·By·n·sqrt(n·Tx)`.

* `CovMerge.superadd`: `GC(n_p,…) + GC(n_q,…) + (errors committed by one merge) ≤ GC(n_p+n_q,…)` for the
  *same* parameters: `n·G - n_p·G_p - n_q·G_q ≥ G + |K|` pays for the relative errors;
  AM-GM against `n·(Δμy)²·q = (Δμy)²·n_p·n_q` and `2·κ₁·n_p·n_q` pays for `Bx·n·|Δμy|·q` (error of the
  `x`-means times distance of the `y`-means), likewise with `x`, `y` exchanged; `3·n_p·n_q·n ≤ n³ - n_p³ - n_q³`
  pays for the product of the two errors.
* `CovMerge.leaf_R`, `CovMerge.leaf_arith`: the add-only bound is below `GC` with `L = 1`.
* `CovMerge.node_arith`: the whole arithmetic of the node case.
-/
variable {K : Type} [Field K] [LinearOrder K] [IsStrictOrderedRing K]

namespace CovMerge
open VarMerge

/-- the first-order envelope carried through the merge tree -/
def GC (u Bx By Λ₁ κ₁ Λ₂ κ₂ E n G Tx Ty L : K) : K :=
  19/4 * u * n * G + 2/5 * Λ₁ * n * Ty + 2/5 * κ₁ * n^2 + 3/4 * Λ₂ * n * Tx + 3/4 * κ₂ * n^2
    + 2/5 * Bx * By * n^3 + 6/5 * E * L

theorem GC_nonneg (u Bx By Λ₁ κ₁ Λ₂ κ₂ E n G Tx Ty L : K) (hu : 0 ≤ u) (hBx : 0 ≤ Bx)
    (hBy : 0 ≤ By) (hΛ₁ : 0 ≤ Λ₁) (hκ₁ : 0 ≤ κ₁) (hΛ₂ : 0 ≤ Λ₂) (hκ₂ : 0 ≤ κ₂) (hE : 0 ≤ E)
    (hn : 0 ≤ n) (hG : 0 ≤ G) (hTx : 0 ≤ Tx) (hTy : 0 ≤ Ty) (hL : 0 ≤ L) :
    0 ≤ GC u Bx By Λ₁ κ₁ Λ₂ κ₂ E n G Tx Ty L := by
  unfold GC; positivity

/-- the envelope is monotone in `G` and in `L` -/
theorem GC_mono (u Bx By Λ₁ κ₁ Λ₂ κ₂ E n G G' Tx Ty L L' : K) (hu : 0 ≤ u) (hE : 0 ≤ E)
    (hn : 0 ≤ n) (hG : G ≤ G') (hL : L ≤ L') :
    GC u Bx By Λ₁ κ₁ Λ₂ κ₂ E n G Tx Ty L ≤ GC u Bx By Λ₁ κ₁ Λ₂ κ₂ E n G' Tx Ty L' := by
  unfold GC
  have h1 : 19/4 * u * n * G ≤ 19/4 * u * n * G' := by gcongr
  have h2 : 6/5 * E * L ≤ 6/5 * E * L' := by gcongr
  linarith

/-- `(1+η)² ≤ 32/25` gives `1 + η ≤ 6/5` -/
theorem one_add_eta_le (η : K) (h0 : 0 ≤ η) (h2 : (1 + η)^2 ≤ 32/25) : 1 + η ≤ 6/5 := by
  nlinarith

/-- growth of the envelope from two operands to their merge -/
theorem GC_diff (u Bx By Λ₁ κ₁ Λ₂ κ₂ E n1 n2 G1 G2 Tx1 Tx2 Ty1 Ty2 L1 L2 Dx Dy q Ka : K) :
    GC u Bx By Λ₁ κ₁ Λ₂ κ₂ E (n1 + n2) (G1 + G2 + Ka) (Tx1 + Tx2 + Dx^2 * q)
        (Ty1 + Ty2 + Dy^2 * q) (L1 + L2)
      - GC u Bx By Λ₁ κ₁ Λ₂ κ₂ E n1 G1 Tx1 Ty1 L1 - GC u Bx By Λ₁ κ₁ Λ₂ κ₂ E n2 G2 Tx2 Ty2 L2
      = 19/4 * u * (n2 * G1 + n1 * G2 + (n1 + n2) * Ka)
        + 2/5 * Λ₁ * (n2 * Ty1 + n1 * Ty2) + 2/5 * Λ₁ * ((n1 + n2) * (Dy^2 * q))
        + 4/5 * κ₁ * (n1 * n2)
        + 3/4 * Λ₂ * (n2 * Tx1 + n1 * Tx2) + 3/4 * Λ₂ * ((n1 + n2) * (Dx^2 * q))
        + 3/2 * κ₂ * (n1 * n2)
        + 6/5 * (Bx * By) * (n1 * n2 * (n1 + n2)) := by
  unfold GC; ring

/-- **Super-additivity of the envelope under one merge.** `q·(n₁+n₂) = n₁·n₂`, `dx`, `dy` the differences
of the exact means, `|dx|·|dy|·q` the absolute exact cross term, `Bx·(n₁+n₂)`, `By·(n₁+n₂)` the errors of
the differences of the computed means, `η` the relative error of the computed cross term. -/
theorem superadd (u Bx By Λ₁ κ₁ Λ₂ κ₂ E η n1 n2 G1 G2 Tx1 Tx2 Ty1 Ty2 L1 L2 dx dy q : K)
    (hu : 0 ≤ u) (hBx : 0 ≤ Bx) (hBy : 0 ≤ By)
    (hΛ₁ : 0 ≤ Λ₁) (hκ₁ : 0 ≤ κ₁) (hΛ₂ : 0 ≤ Λ₂) (hκ₂ : 0 ≤ κ₂)
    (h1 : Bx^2 ≤ Λ₁ * κ₁) (h2 : By^2 ≤ Λ₂ * κ₂)
    (hη0 : 0 ≤ η) (hηu : η ≤ 15/2 * u) (hη2 : (1 + η)^2 ≤ 32/25)
    (hn1 : 1 ≤ n1) (hn2 : 1 ≤ n2) (hG1 : 0 ≤ G1) (hG2 : 0 ≤ G2)
    (hTx1 : 0 ≤ Tx1) (hTx2 : 0 ≤ Tx2) (hTy1 : 0 ≤ Ty1) (hTy2 : 0 ≤ Ty2)
    (hq0 : 0 ≤ q) (hq : q * (n1 + n2) = n1 * n2) :
    GC u Bx By Λ₁ κ₁ Λ₂ κ₂ E n1 G1 Tx1 Ty1 L1 + GC u Bx By Λ₁ κ₁ Λ₂ κ₂ E n2 G2 Tx2 Ty2 L2
        + η * (|dx| * |dy| * q)
        + (1 + η) * ((Bx * (n1 + n2) * |dy| + By * (n1 + n2) * |dx|
            + Bx * (n1 + n2) * (By * (n1 + n2))) * q)
        + 2 * u * (G1 + G2 + |dx| * |dy| * q)
      ≤ GC u Bx By Λ₁ κ₁ Λ₂ κ₂ E (n1 + n2) (G1 + G2 + |dx| * |dy| * q)
          (Tx1 + Tx2 + dx^2 * q) (Ty1 + Ty2 + dy^2 * q) (L1 + L2) := by
  set Dx := |dx| with hDx
  set Dy := |dy| with hDy
  have hDx0 : 0 ≤ Dx := abs_nonneg _
  have hDy0 : 0 ≤ Dy := abs_nonneg _
  have hdx2 : dx^2 = Dx^2 := (sq_abs dx).symm
  have hdy2 : dy^2 = Dy^2 := (sq_abs dy).symm
  rw [hdx2, hdy2]
  set Ka := Dx * Dy * q with hKa
  have hKa0 : 0 ≤ Ka := by positivity
  have hn10 : 0 ≤ n1 := by linarith
  have hn20 : 0 ≤ n2 := by linarith
  have hη1 : 1 + η ≤ 6/5 := one_add_eta_le η hη0 hη2
  have hid := GC_diff u Bx By Λ₁ κ₁ Λ₂ κ₂ E n1 n2 G1 G2 Tx1 Tx2 Ty1 Ty2 L1 L2 Dx Dy q Ka
  have hnq : (n1 + n2) * q = n1 * n2 := by rw [mul_comm]; exact hq
  -- relative errors
  have b1 : 2 * u * (G1 + G2 + Ka) + η * Ka ≤ 19/4 * u * (n2 * G1 + n1 * G2 + (n1 + n2) * Ka) := by
    have c1 : u * G1 ≤ u * (n2 * G1) := by
      have : G1 ≤ n2 * G1 := le_mul_of_one_le_left hG1 hn2
      gcongr
    have c2 : u * G2 ≤ u * (n1 * G2) := by
      have : G2 ≤ n1 * G2 := le_mul_of_one_le_left hG2 hn1
      gcongr
    have c3 : u * (2 * Ka) ≤ u * ((n1 + n2) * Ka) := by
      have : 2 * Ka ≤ (n1 + n2) * Ka := mul_le_mul_of_nonneg_right (by linarith) hKa0
      gcongr
    have c4 : η * Ka ≤ 15/2 * u * Ka := by gcongr
    have c5 : 0 ≤ u * G1 := by positivity
    have c6 : 0 ≤ u * G2 := by positivity
    have c7 : 0 ≤ u * Ka := by positivity
    have c8 : 0 ≤ u * (n2 * G1) := by positivity
    have c9 : 0 ≤ u * (n1 * G2) := by positivity
    linarith
  have b2 : 0 ≤ 2/5 * Λ₁ * (n2 * Ty1 + n1 * Ty2) := by positivity
  have b2' : 0 ≤ 3/4 * Λ₂ * (n2 * Tx1 + n1 * Tx2) := by positivity
  have hn12 : 0 ≤ n1 * n2 := by positivity
  -- error of the x-means against the distance of the y-means
  have b3 : (1 + η) * (Bx * (n1 + n2) * Dy * q)
      ≤ 2/5 * Λ₁ * ((n1 + n2) * (Dy^2 * q)) + 4/5 * κ₁ * (n1 * n2) := by
    have h := amgm Λ₁ κ₁ Bx Dy η hΛ₁ hκ₁ hη2 h1
    have e1 : (1 + η) * (Bx * (n1 + n2) * Dy * q) = 1/2 * ((2 * (1 + η) * Bx * Dy) * (n1 * n2)) := by
      rw [← hnq]; ring
    have e2 : 2/5 * Λ₁ * ((n1 + n2) * (Dy^2 * q)) + 4/5 * κ₁ * (n1 * n2)
        = 1/2 * ((4/5 * Λ₁ * Dy^2 + 8/5 * κ₁) * (n1 * n2)) := by
      rw [← hnq]; ring
    rw [e1, e2]
    gcongr
  -- error of the y-means against the distance of the x-means
  have b3' : (1 + η) * (By * (n1 + n2) * Dx * q)
      ≤ 3/4 * Λ₂ * ((n1 + n2) * (Dx^2 * q)) + 3/2 * κ₂ * (n1 * n2) := by
    have h := amgm Λ₂ κ₂ By Dx η hΛ₂ hκ₂ hη2 h2
    have e1 : (1 + η) * (By * (n1 + n2) * Dx * q) = 1/2 * ((2 * (1 + η) * By * Dx) * (n1 * n2)) := by
      rw [← hnq]; ring
    have e2 : 2/5 * Λ₂ * ((n1 + n2) * (Dx^2 * q)) + 4/5 * κ₂ * (n1 * n2)
        = 1/2 * ((4/5 * Λ₂ * Dx^2 + 8/5 * κ₂) * (n1 * n2)) := by
      rw [← hnq]; ring
    have h3 : (1 + η) * (By * (n1 + n2) * Dx * q)
        ≤ 2/5 * Λ₂ * ((n1 + n2) * (Dx^2 * q)) + 4/5 * κ₂ * (n1 * n2) := by
      rw [e1, e2]; gcongr
    have h4 : 0 ≤ Λ₂ * ((n1 + n2) * (Dx^2 * q)) := by positivity
    have h5 : 0 ≤ κ₂ * (n1 * n2) := by positivity
    linarith
  -- product of the two errors
  have b4 : (1 + η) * (Bx * (n1 + n2) * (By * (n1 + n2)) * q)
      ≤ 6/5 * (Bx * By) * (n1 * n2 * (n1 + n2)) := by
    have e1 : Bx * (n1 + n2) * (By * (n1 + n2)) * q = (Bx * By) * (n1 * n2 * (n1 + n2)) := by
      rw [← hnq]; ring
    rw [e1]
    have : 0 ≤ (Bx * By) * (n1 * n2 * (n1 + n2)) := by positivity
    calc (1 + η) * ((Bx * By) * (n1 * n2 * (n1 + n2)))
        ≤ 6/5 * ((Bx * By) * (n1 * n2 * (n1 + n2))) := by gcongr
      _ = 6/5 * (Bx * By) * (n1 * n2 * (n1 + n2)) := by ring
  have e3 : (1 + η) * ((Bx * (n1 + n2) * Dy + By * (n1 + n2) * Dx
        + Bx * (n1 + n2) * (By * (n1 + n2))) * q)
      = (1 + η) * (Bx * (n1 + n2) * Dy * q) + (1 + η) * (By * (n1 + n2) * Dx * q)
        + (1 + η) * (Bx * (n1 + n2) * (By * (n1 + n2)) * q) := by ring
  rw [e3]
  linarith

/-- the choice of the Cauchy-Schwarz parameter `R` of the add-only bound that turns it into (a part of)
the envelope: `R = (c·Λ·n·T + c·κ·n²)/(1+g)` satisfies `B²·(m·n³)·T ≤ R²` as soon as
`m·(1+g)² ≤ 4c²` and `B² ≤ Λ·κ` -/
theorem leaf_R (c m Λ κ B n Tn g : K) (hc : 0 ≤ c) (hΛ : 0 ≤ Λ) (hκ : 0 ≤ κ) (hn : 0 ≤ n)
    (hT : 0 ≤ Tn) (hg0 : 0 ≤ g) (hcm : m * (1 + g)^2 ≤ 4 * c^2) (hΛκ : B^2 ≤ Λ * κ) :
    let R := (c * Λ * n * Tn + c * κ * n^2) / (1 + g)
    0 ≤ R ∧ B^2 * (m * n^3) * Tn ≤ R^2 ∧ (1 + g) * R = c * Λ * n * Tn + c * κ * n^2 := by
  intro R
  have hg1 : 0 < 1 + g := by positivity
  refine ⟨by positivity, ?_, ?_⟩
  · simp only [R]
    rw [div_pow, le_div_iff₀ (by positivity)]
    set X := c * Λ * n * Tn with hX
    set Y := c * κ * n^2 with hY
    have hn3 : 0 ≤ n^3 * Tn := by positivity
    have hB2 : 0 ≤ B^2 * (n^3 * Tn) := by positivity
    have e1 : B^2 * (m * n^3) * Tn * (1 + g)^2 = (m * (1 + g)^2) * (B^2 * (n^3 * Tn)) := by ring
    have e2 : (m * (1 + g)^2) * (B^2 * (n^3 * Tn)) ≤ (4 * c^2) * (B^2 * (n^3 * Tn)) := by gcongr
    have e3 : (4 * c^2) * (B^2 * (n^3 * Tn)) ≤ (4 * c^2) * ((Λ * κ) * (n^3 * Tn)) := by gcongr
    have e4 : 4 * (X * Y) = (4 * c^2) * ((Λ * κ) * (n^3 * Tn)) := by rw [hX, hY]; ring
    have e5 : 4 * (X * Y) ≤ (X + Y)^2 := by nlinarith [sq_nonneg (X - Y)]
    rw [e1]; linarith
  · simp only [R]; field_simp

/-- the add-only bound with those `R`s is below the envelope (`L = 1`) -/
theorem leaf_arith (u γ Bx By Λ₁ κ₁ Λ₂ κ₂ E n G Tx Ty : K) (hu : 0 ≤ u) (hn : 1 ≤ n)
    (hG : 0 ≤ G) (hBx : 0 ≤ Bx) (hBy : 0 ≤ By) (hE : 0 ≤ E)
    (hγ : γ ≤ 49/16 * u) (hγ1 : 1 + γ ≤ 6/5) :
    (γ + n * u) * G + ((2/5 * Λ₁ * n * Ty + 2/5 * κ₁ * n^2) + (3/4 * Λ₂ * n * Tx + 3/4 * κ₂ * n^2)
        + (1 + γ) * (E + Bx * By * (n^3 / 3)))
      ≤ GC u Bx By Λ₁ κ₁ Λ₂ κ₂ E n G Tx Ty 1 := by
  unfold GC
  have hn0 : 0 ≤ n := by linarith
  have h1 : (γ + n * u) * G ≤ (19/4 * u * n) * G := by
    have : u ≤ n * u := by nlinarith
    gcongr; linarith
  have h2 : (1 + γ) * (E + Bx * By * (n^3 / 3)) ≤ 6/5 * (E + Bx * By * (n^3 / 3)) := by
    have : 0 ≤ E + Bx * By * (n^3 / 3) := by positivity
    gcongr
  linarith

/-- the whole arithmetic of the node case of the tree induction: `k1, k2 ≥ 1` the two counts, `A1`, `A2`
the absolute values of the two rounded sums (at most `G2 + |K|` and `G1 + G2 + |K|`) -/
theorem node_arith (u Bx By Λ₁ κ₁ Λ₂ κ₂ E η G1 G2 Tx1 Tx2 Ty1 Ty2 L1 L2 dx dy q Ex Ey A1 A2 : K)
    (k1 k2 : ℕ) (hk1 : 1 ≤ k1) (hk2 : 1 ≤ k2)
    (hu : 0 ≤ u) (hBx : 0 ≤ Bx) (hBy : 0 ≤ By)
    (hΛ₁ : 0 ≤ Λ₁) (hκ₁ : 0 ≤ κ₁) (hΛ₂ : 0 ≤ Λ₂) (hκ₂ : 0 ≤ κ₂) (hE : 0 ≤ E)
    (h1 : Bx^2 ≤ Λ₁ * κ₁) (h2 : By^2 ≤ Λ₂ * κ₂)
    (hη0 : 0 ≤ η) (hηu : η ≤ 15/2 * u) (hη2 : (1 + η)^2 ≤ 32/25)
    (hG1 : 0 ≤ G1) (hG2 : 0 ≤ G2)
    (hTx1 : 0 ≤ Tx1) (hTx2 : 0 ≤ Tx2) (hTy1 : 0 ≤ Ty1) (hTy2 : 0 ≤ Ty2)
    (hL1 : 0 ≤ L1) (hL2 : 0 ≤ L2)
    (hq0 : 0 ≤ q) (hq : q * ((k1 : K) + (k2 : K)) = (k1 : K) * (k2 : K))
    (hA10 : 0 ≤ A1) (hA1 : A1 ≤ G2 + |dx| * |dy| * q) (hA2 : A2 ≤ G1 + G2 + |dx| * |dy| * q)
    (hEx : Ex ≤ (1 + u)^(2 * k1) * GC u Bx By Λ₁ κ₁ Λ₂ κ₂ E (k1 : K) G1 Tx1 Ty1 L1)
    (hEy : Ey ≤ (1 + u)^(2 * k2) * GC u Bx By Λ₁ κ₁ Λ₂ κ₂ E (k2 : K) G2 Tx2 Ty2 L2) :
    (1 + u)^2 * (Ex + Ey + η * (|dx| * |dy| * q)
          + (1 + η) * ((Bx * ((k1 : K) + (k2 : K)) * |dy| + By * ((k1 : K) + (k2 : K)) * |dx|
              + Bx * ((k1 : K) + (k2 : K)) * (By * ((k1 : K) + (k2 : K)))) * q))
        + (1 + u) * u * A1 + u * A2
      ≤ (1 + u)^(2 * (k1 + k2))
          * GC u Bx By Λ₁ κ₁ Λ₂ κ₂ E ((k1 : K) + (k2 : K)) (G1 + G2 + |dx| * |dy| * q)
              (Tx1 + Tx2 + dx^2 * q) (Ty1 + Ty2 + dy^2 * q) (L1 + L2) := by
  have hn11 : (1 : K) ≤ k1 := by exact_mod_cast hk1
  have hn21 : (1 : K) ≤ k2 := by exact_mod_cast hk2
  have hn10 : (0 : K) ≤ k1 := Nat.cast_nonneg _
  have hn20 : (0 : K) ≤ k2 := Nat.cast_nonneg _
  have hKa0 : 0 ≤ |dx| * |dy| * q := by positivity
  have hsup := superadd u Bx By Λ₁ κ₁ Λ₂ κ₂ E η k1 k2 G1 G2 Tx1 Tx2 Ty1 Ty2 L1 L2 dx dy q
    hu hBx hBy hΛ₁ hκ₁ hΛ₂ hκ₂ h1 h2 hη0 hηu hη2 hn11 hn21 hG1 hG2 hTx1 hTx2 hTy1 hTy2 hq0 hq
  set Pm := (1 + u)^(2 * (k1 + k2) - 2) with hPm
  have hPm1 : 1 ≤ Pm := one_le_pow₀ (by linarith)
  have hPl : (1 + u)^(2 * k1) ≤ Pm := pow_le_pow_right₀ (by linarith) (by omega)
  have hPr : (1 + u)^(2 * k2) ≤ Pm := pow_le_pow_right₀ (by linarith) (by omega)
  have hGx0 : 0 ≤ GC u Bx By Λ₁ κ₁ Λ₂ κ₂ E (k1 : K) G1 Tx1 Ty1 L1 :=
    GC_nonneg _ _ _ _ _ _ _ _ _ _ _ _ _ hu hBx hBy hΛ₁ hκ₁ hΛ₂ hκ₂ hE hn10 hG1 hTx1 hTy1 hL1
  have hGy0 : 0 ≤ GC u Bx By Λ₁ κ₁ Λ₂ κ₂ E (k2 : K) G2 Tx2 Ty2 L2 :=
    GC_nonneg _ _ _ _ _ _ _ _ _ _ _ _ _ hu hBx hBy hΛ₁ hκ₁ hΛ₂ hκ₂ hE hn20 hG2 hTx2 hTy2 hL2
  have hEx' : Ex ≤ Pm * GC u Bx By Λ₁ κ₁ Λ₂ κ₂ E (k1 : K) G1 Tx1 Ty1 L1 := by
    refine le_trans hEx ?_; gcongr
  have hEy' : Ey ≤ Pm * GC u Bx By Λ₁ κ₁ Λ₂ κ₂ E (k2 : K) G2 Tx2 Ty2 L2 := by
    refine le_trans hEy ?_; gcongr
  have hX0 : 0 ≤ η * (|dx| * |dy| * q)
      + (1 + η) * ((Bx * ((k1 : K) + (k2 : K)) * |dy| + By * ((k1 : K) + (k2 : K)) * |dx|
              + Bx * ((k1 : K) + (k2 : K)) * (By * ((k1 : K) + (k2 : K)))) * q) := by
    positivity
  have habs := merge_absorb u Pm Ex Ey (GC u Bx By Λ₁ κ₁ Λ₂ κ₂ E (k1 : K) G1 Tx1 Ty1 L1)
    (GC u Bx By Λ₁ κ₁ Λ₂ κ₂ E (k2 : K) G2 Tx2 Ty2 L2)
    (η * (|dx| * |dy| * q)
      + (1 + η) * ((Bx * ((k1 : K) + (k2 : K)) * |dy| + By * ((k1 : K) + (k2 : K)) * |dx|
              + Bx * ((k1 : K) + (k2 : K)) * (By * ((k1 : K) + (k2 : K)))) * q))
    A1 (G1 + G2 + |dx| * |dy| * q)
    (GC u Bx By Λ₁ κ₁ Λ₂ κ₂ E ((k1 : K) + (k2 : K)) (G1 + G2 + |dx| * |dy| * q)
              (Tx1 + Tx2 + dx^2 * q) (Ty1 + Ty2 + dy^2 * q) (L1 + L2))
    hu hPm1 hEx' hEy' hX0 hA10 (by linarith) (by linarith)
  have hpow : (1 + u)^2 * Pm = (1 + u)^(2 * (k1 + k2)) := by
    rw [hPm, ← pow_add]; congr 1; omega
  rw [← hpow]
  have hA2' : u * A2 ≤ u * (G1 + G2 + |dx| * |dy| * q) := by gcongr
  refine le_trans ?_ habs
  have e : (1 + u)^2 * (Ex + Ey + η * (|dx| * |dy| * q)
          + (1 + η) * ((Bx * ((k1 : K) + (k2 : K)) * |dy| + By * ((k1 : K) + (k2 : K)) * |dx|
              + Bx * ((k1 : K) + (k2 : K)) * (By * ((k1 : K) + (k2 : K)))) * q))
      = (1 + u)^2 * (Ex + Ey + (η * (|dx| * |dy| * q)
          + (1 + η) * ((Bx * ((k1 : K) + (k2 : K)) * |dy| + By * ((k1 : K) + (k2 : K)) * |dx|
              + Bx * ((k1 : K) + (k2 : K)) * (By * ((k1 : K) + (k2 : K)))) * q))) := by ring
  rw [e]
  linarith

end CovMerge

#print axioms CovMerge.superadd
#print axioms CovMerge.leaf_R
#print axioms CovMerge.node_arith
