import AvgProofs.VarErr

/-!
# Abstract "sum of squares fold": the induction of `VarErrFold` for an arbitrary rounded increment

`VarErr.var_fold_error_gen` is stated for the fold of `Variance.add`, whose increment is computed with eight
roundings. The same induction works for *any* accumulator of the form

`S(ys ++ [x]) = fl(S(ys) + p)`,  `|p - I| ≤ γ·I`,  `I = (x - a(ys))²·n/(n+1)`,  `n = |ys|`

where `a(ys)` is the running mean the implementation holds after `ys` (itself inexact) and `γ ≥ 0` is the
relative error of the computed increment. This file proves that abstract version:

* `sq_step_error` - one step (the statement of `var_step_error` with the computed increment abstracted);
* `sq_fold_error_gen` - all stream lengths, any bounds `E_i` on the error of the running mean:
  `|S - T| ≤ (1+u)^n·((γ + n·u)·T + (1+γ)·Σ_{i<n}(2·E_i·|dev_i| + E_i²)·i/(i+1))`;
* `sq_fold_error_cs` - after Cauchy-Schwarz;
* `variance_is_sqFold` - `Variance.add` is an instance with `γ = (1+u)^8 - 1`
  (`var_fold_error_gen_again`: the theorem of `VarErrFold` recovered from the abstract one).
-/
open Avg MSpec Finset VarSpec VarErr

namespace SqFold
variable {K : Type} [Field K] [LinearOrder K] [IsStrictOrderedRing K]

/-- One step of a rounded sum-of-squares accumulator `S' = fl(S + p)` whose increment `p` is within relative
error `γ` of `I = (x-a)²(k-1)/k`, compared with the exact update `T' = T + (x-μ)²(k-1)/k`:
`|S' - T'| ≤ (1+u)·(|S - T| + γ·J + (1+γ)·(2|a-μ||x-μ| + (a-μ)²)(k-1)/k) + u·T'`. -/
theorem sq_step_error (fl : K → K) (u : K) (hu : 0 ≤ u) (hfl : ∀ t, |fl t - t| ≤ u * |t|)
    (γ : K) (hγ : 0 ≤ γ) (x a μ S T k p : K) (hk : 1 ≤ k) (hT : 0 ≤ T)
    (hp : |p - (x - a)^2 * ((k - 1) / k)| ≤ γ * ((x - a)^2 * ((k - 1) / k))) :
    |fl (S + p) - (T + (x - μ)^2 * ((k - 1) / k))|
      ≤ (1 + u) * (|S - T| + γ * ((x - μ)^2 * ((k - 1) / k))
            + (1 + γ) * ((2 * |a - μ| * |x - μ| + (a - μ)^2) * ((k - 1) / k)))
        + u * (T + (x - μ)^2 * ((k - 1) / k)) := by
  set J := (x - μ)^2 * ((k - 1) / k) with hJdef
  set c := (2 * |a - μ| * |x - μ| + (a - μ)^2) * ((k - 1) / k) with hcdef
  have hkpos : 0 < k := lt_of_lt_of_le one_pos hk
  have hq : 0 ≤ (k - 1) / k := div_nonneg (by linarith) hkpos.le
  have hJ : 0 ≤ J := by positivity
  set I := (x - a)^2 * ((k - 1) / k) with hIdef
  have hIJ : |I - J| ≤ c := var_incr_shift x a μ _ hq
  have hIle : I ≤ J + c := by
    have := (abs_le.mp hIJ).2; linarith
  set z := (S - T) + (p - I) + (I - J) with hz
  have hzb : |z| ≤ |S - T| + γ * J + (1 + γ) * c := by
    calc |z| ≤ |S - T| + |p - I| + |I - J| := by
          refine le_trans (abs_add_le _ _) ?_
          gcongr
          exact abs_add_le _ _
      _ ≤ |S - T| + γ * I + c := by linarith
      _ ≤ |S - T| + γ * (J + c) + c := by gcongr
      _ = |S - T| + γ * J + (1 + γ) * c := by ring
  have hsum : S + p = (T + J) + z := by simp only [hz]; ring
  have hsp : |S + p| ≤ (T + J) + |z| := by
    rw [hsum]
    calc |T + J + z| ≤ |T + J| + |z| := abs_add_le _ _
      _ = (T + J) + |z| := by rw [abs_of_nonneg (by linarith)]
  have : fl (S + p) - (T + J) = (fl (S + p) - (S + p)) + z := by rw [hsum]; ring
  rw [this]
  calc |(fl (S + p) - (S + p)) + z| ≤ |fl (S + p) - (S + p)| + |z| := abs_add_le _ _
    _ ≤ u * ((T + J) + |z|) + |z| := by
        have : u * |S + p| ≤ u * ((T + J) + |z|) := by gcongr
        linarith [hfl (S + p)]
    _ = (1 + u) * |z| + u * (T + J) := by ring
    _ ≤ (1 + u) * (|S - T| + γ * J + (1 + γ) * c) + u * (T + J) := by gcongr

/-- `Sf`, `af` (functions of the stream so far, with values read through `val`) form a rounded
sum-of-squares fold along `xs` with increment error `γ`: the accumulator starts at 0 and every step inside
`xs` is `Sf (ys ++ [x]) = fl(Sf ys + p)` with `|p - I| ≤ γ·I`, `I = (x - af ys)²·|ys|/(|ys|+1)`. -/
def IsSqFold (r : Rnd2 K) (γ : K) {β : Type} (val : β → K) (Sf af : List β → K) (xs : List β) : Prop :=
  Sf [] = 0 ∧ ∀ ys x, ys ++ [x] <+: xs → ∃ p : K,
    Sf (ys ++ [x]) = r.fl (Sf ys + p) ∧
    |p - (val x - af ys)^2 * ((ys.length : K) / ((ys.length : K) + 1))|
      ≤ γ * ((val x - af ys)^2 * ((ys.length : K) / ((ys.length : K) + 1)))

theorem IsSqFold.prefix {r : Rnd2 K} {γ : K} {β : Type} {val : β → K} {Sf af : List β → K}
    {xs zs : List β} (h : IsSqFold r γ val Sf af xs) (hz : zs <+: xs) : IsSqFold r γ val Sf af zs :=
  ⟨h.1, fun ys x hys => h.2 ys x (hys.trans hz)⟩

/-- **The abstract induction.** For every rounded sum-of-squares fold with increment error `γ ≥ 0`: if the
running mean `af ys` of every prefix is within `E |ys|` of the exact mean, then
`|Sf xs - T| ≤ (1+u)^n·((γ + n·u)·T + (1+γ)·Σ_{i<n}(2·E_i·|dev_i| + E_i²)·i/(i+1))`. -/
theorem sq_fold_error_gen (r : Rnd2 K) (γ : K) (hγ : 0 ≤ γ) {β : Type} (val : β → K)
    (Sf af : List β → K) (E : ℕ → K) (hE0 : ∀ i, 0 ≤ E i) :
    ∀ xs : List β, IsSqFold r γ val Sf af xs →
      (∀ ys, ys <+: xs → |af ys - mean (ys.map val)| ≤ E ys.length) →
      |Sf xs - T (xs.map val)|
        ≤ (1 + r.u)^xs.length *
            ((γ + xs.length * r.u) * T (xs.map val) + (1 + γ) * crossSum E (xs.map val)) := by
  intro xs
  induction xs using List.reverseRecOn with
  | nil =>
    intro hF _
    simp [hF.1, T_nil, crossSum]
  | append_singleton xs x ih =>
    intro hF hE
    have hu := r.u_nonneg
    have hpre : xs <+: xs ++ [x] := List.prefix_append xs [x]
    have ih' := ih (hF.prefix hpre) (fun ys hys => hE ys (hys.trans hpre))
    have hmean := hE xs hpre
    obtain ⟨p, hS, hp⟩ := hF.2 xs x (List.prefix_refl _)
    rw [hS, List.map_append, List.map_cons, List.map_nil, List.length_append, List.length_singleton]
    set vs := xs.map val with hvs
    have hlen : vs.length = xs.length := by simp [hvs]
    rw [T_snoc, crossSum_snoc, hlen]
    push_cast
    set n : K := (xs.length : K) with hnK
    have hn0 : 0 ≤ n := Nat.cast_nonneg _
    have hk : (1 : K) ≤ n + 1 := by linarith
    have step := sq_step_error r.fl r.u hu r.err γ hγ (val x) (af xs) (mean vs) (Sf xs) (T vs)
      (n + 1) p hk (T_nonneg vs) (by simpa only [add_sub_cancel_right] using hp)
    simp only [add_sub_cancel_right] at step
    refine le_trans step ?_
    have hq0 : (0 : K) ≤ n / (n + 1) := by positivity
    rw [pow_succ (1 + r.u) xs.length]
    have hsq : (af xs - mean vs)^2 = |af xs - mean vs|^2 := (sq_abs _).symm
    rw [hsq]
    have hEn0 := hE0 xs.length
    have he0 : 0 ≤ |af xs - mean vs| := abs_nonneg _
    have hg0 : 0 ≤ |val x - mean vs| := abs_nonneg _
    have hc : (2 * |af xs - mean vs| * |val x - mean vs| + |af xs - mean vs|^2) * (n / (n + 1))
        ≤ (2 * E xs.length * |val x - mean vs| + (E xs.length)^2) * (n / (n + 1)) := by
      have : |af xs - mean vs|^2 ≤ (E xs.length)^2 := by nlinarith
      gcongr
    have := step_absorb r.u γ n ((1 + r.u)^xs.length) (T vs)
      ((val x - mean vs)^2 * (n / (n + 1))) (crossSum E vs)
      ((2 * E xs.length * |val x - mean vs| + (E xs.length)^2) * (n / (n + 1)))
      |Sf xs - T vs| _ hu hγ hn0 (RE.one_le_pow hu _) (T_nonneg vs) (by positivity)
      (by positivity) hc ih'
    rw [mul_comm ((1 + r.u)^xs.length) (1 + r.u)]
    exact this

/-- **The abstract induction after Cauchy-Schwarz** (square-root free): for every `R ≥ 0` with
`(Σ_{i<n} E_i²)·T ≤ R²`:  `|Sf xs - T| ≤ (1+u)^n·((γ + n·u)·T + (1+γ)·(2R + Σ_{i<n} E_i²))`. -/
theorem sq_fold_error_cs (r : Rnd2 K) (γ : K) (hγ : 0 ≤ γ) {β : Type} (val : β → K)
    (Sf af : List β → K) (E : ℕ → K) (hE0 : ∀ i, 0 ≤ E i) (xs : List β)
    (hF : IsSqFold r γ val Sf af xs)
    (hE : ∀ ys, ys <+: xs → |af ys - mean (ys.map val)| ≤ E ys.length)
    (R : K) (hR : 0 ≤ R) (hRT : (∑ i ∈ range xs.length, (E i)^2) * T (xs.map val) ≤ R^2) :
    |Sf xs - T (xs.map val)|
      ≤ (1 + r.u)^xs.length *
          ((γ + xs.length * r.u) * T (xs.map val)
            + (1 + γ) * (2 * R + ∑ i ∈ range xs.length, (E i)^2)) := by
  refine le_trans (sq_fold_error_gen r γ hγ val Sf af E hE0 xs hF hE) ?_
  have hlen : (xs.map val).length = xs.length := by simp
  have hc := crossSum_le E (xs.map val) R hR (by rw [hlen]; exact hRT)
  rw [hlen] at hc
  have hP : 0 ≤ (1 + r.u)^xs.length := by have := r.u_nonneg; positivity
  gcongr

/-! ## `Variance.add` is an instance -/

/-- `Variance.add` at the carrier `RF2 r` is a rounded sum-of-squares fold with `γ = (1+u)^8 - 1`. -/
theorem variance_is_sqFold (r : Rnd2 K) (xs : List (RF2 r)) :
    IsSqFold r (gam r.u) RF2.val
      (fun ys => (ys.foldl Variance.add Variance.new).sum_2.val)
      (fun ys => (ys.foldl Mean.add Mean.new).avg.val) xs := by
  refine ⟨(Nat.cast_zero : ((0 : ℕ) : K) = 0), ?_⟩
  intro ys x _
  have hu := r.u_nonneg
  set s := ys.foldl Variance.add Variance.new with hs
  have hn : s.avg.n = ys.length := Variance.fold_n_ve ys
  have havg : s.avg.avg = (ys.foldl Mean.add Mean.new).avg := by
    rw [hs, Variance.fold_avg]; rfl
  have hk : (1 : K) ≤ (ys.length : K) + 1 := by
    have : (0 : K) ≤ ys.length := Nat.cast_nonneg _
    linarith
  obtain ⟨_, hp⟩ := var_incr_error r.fl r.u hu r.err x.val s.avg.avg.val ((ys.length : K) + 1) hk
  refine ⟨r.fl (r.fl (r.fl (r.fl (r.fl (x.val - s.avg.avg.val) / ((ys.length : K) + 1))
      * r.fl (r.fl (x.val - s.avg.avg.val) / ((ys.length : K) + 1))) * ((ys.length : K) + 1))
      * r.fl ((ys.length : K) + 1 - 1)), ?_, ?_⟩
  · show ((ys ++ [x]).foldl Variance.add Variance.new).sum_2.val = _
    rw [List.foldl_append, List.foldl_cons, List.foldl_nil, ← hs, sum2_add_val, hn]
    push_cast
    rfl
  · have e : ((ys.length : K) + 1 - 1) / ((ys.length : K) + 1)
        = (ys.length : K) / ((ys.length : K) + 1) := by rw [add_sub_cancel_right]
    rw [e] at hp
    beta_reduce
    rw [← havg]
    exact hp

/-- `VarErr.var_fold_error_gen` recovered from the abstract induction. -/
theorem var_fold_error_gen_again (r : Rnd2 K) (E : ℕ → K) (hE0 : ∀ i, 0 ≤ E i) (xs : List (RF2 r))
    (hE : ∀ ys, ys <+: xs →
      |(ys.foldl Mean.add Mean.new).avg.val - mean (ys.map RF2.val)| ≤ E ys.length) :
    |(xs.foldl Variance.add Variance.new).sum_2.val - T (xs.map RF2.val)|
      ≤ (1 + r.u)^xs.length *
          ((gam r.u + xs.length * r.u) * T (xs.map RF2.val)
            + (1 + gam r.u) * crossSum E (xs.map RF2.val)) :=
  sq_fold_error_gen r (gam r.u) (gam_nonneg r.u_nonneg) RF2.val _ _ E hE0 xs
    (variance_is_sqFold r xs) hE

end SqFold

#print axioms SqFold.sq_fold_error_gen
#print axioms SqFold.sq_fold_error_cs
#print axioms SqFold.var_fold_error_gen_again
