import AvgProofs.SkewErrFold
import Mathlib.Tactic.NormNum

/-!
# Bounding the accumulated error terms of `sum_3`

`stepTerm_le`: the contribution of observation `i` is bounded by a combination of six "basis" summands:
`|d_i|³c_i`, `3|d_i|T_i/(i+1)` (the two parts of the exact increment), `d_i²·i/(i+1)` (sums to `T`),
`|d_i|·i/(i+1)` (sums to `W ≤ sqrt(n·T)`), `1` and `i`, whenever
`E_i ≤ Eb`, `E_i ≤ η·(i+1)` and `F_i ≤ a1·i·T_i + a2·i + a3·i³`.

`errSum_le`: the sum.
-/
open Avg MSpec Finset VarSpec SkewSpec

namespace SkewErr
variable {K : Type} [Field K] [LinearOrder K] [IsStrictOrderedRing K]

theorem stepTerm_le (u : K) (hu : 0 ≤ u) (E F : ℕ → K) (i : ℕ) (d Ti Tn n Eb η a1 a2 a3 : K)
    (hTi : 0 ≤ Ti) (hTn : Ti ≤ Tn) (hin : (i : K) + 1 ≤ n)
    (hE0 : 0 ≤ E i) (hEb : E i ≤ Eb) (hEη : E i ≤ η * ((i : K) + 1))
    (hF0 : 0 ≤ F i) (hF : F i ≤ a1 * i * Ti + a2 * i + a3 * (i : K)^3)
    (ha1 : 0 ≤ a1) (ha2 : 0 ≤ a2) (ha3 : 0 ≤ a3) (hη : 0 ≤ η) :
    stepTerm u E F i d Ti ≤
      g u 12 * incA i d + (g u 5 + (1 + g u 5) * (a1 * n)) * incB i d Ti
      + (1 + g u 12) * (3 * Eb) * (d^2 * ((i : K) / ((i : K) + 1)))
      + ((1 + g u 12) * (3 * Eb^2) + (1 + g u 5) * (3 * (a2 + a3 * n^2)))
          * (|d| * ((i : K) / ((i : K) + 1)))
      + ((1 + g u 12) * Eb^3 + (1 + g u 5) * (3 * η * Tn))
      + (1 + g u 5) * (3 * η * (a1 * Tn + a2 + a3 * n^2)) * i := by
  have hi0 : (0 : K) ≤ i := Nat.cast_nonneg i
  have hp : (0 : K) < (i : K) + 1 := by linarith
  have hn0 : 0 ≤ n := by linarith
  have hiN : (i : K) ≤ n := by linarith
  have hTn0 : 0 ≤ Tn := le_trans hTi hTn
  have hEb0 : 0 ≤ Eb := le_trans hE0 hEb
  have h12 := g_nonneg hu 12
  have h5 := g_nonneg hu 5
  have hd0 : 0 ≤ |d| := abs_nonneg d
  set ρ : K := (i : K) / ((i : K) + 1) with hρ
  have hρ0 : 0 ≤ ρ := ratio_nonneg i
  have hc0 := cA_nonneg (K := K) i
  have hcρ : cA i ≤ ρ := cA_le_ratio i
  have hc1 : (cA i : K) ≤ 1 := cA_le_one i
  -- the quotient E_i/(i+1)
  have hq : E i / ((i : K) + 1) ≤ η := by rw [div_le_iff₀ hp]; exact hEη
  have hq0 : 0 ≤ E i / ((i : K) + 1) := by positivity
  -- p1
  have p1 : cA i * (3 * d^2 * E i + 3 * |d| * (E i)^2 + (E i)^3)
      ≤ 3 * Eb * (d^2 * ρ) + 3 * Eb^2 * (|d| * ρ) + Eb^3 := by
    have a : cA i * (3 * d^2 * E i) ≤ ρ * (3 * d^2 * Eb) := by gcongr
    have b : cA i * (3 * |d| * (E i)^2) ≤ ρ * (3 * |d| * Eb^2) := by gcongr
    have c : cA i * (E i)^3 ≤ 1 * Eb^3 := by gcongr
    calc cA i * (3 * d^2 * E i + 3 * |d| * (E i)^2 + (E i)^3)
        = cA i * (3 * d^2 * E i) + cA i * (3 * |d| * (E i)^2) + cA i * (E i)^3 := by ring
      _ ≤ ρ * (3 * d^2 * Eb) + ρ * (3 * |d| * Eb^2) + 1 * Eb^3 := by linarith
      _ = 3 * Eb * (d^2 * ρ) + 3 * Eb^2 * (|d| * ρ) + Eb^3 := by ring
  -- p2
  have hFi : F i ≤ (i : K) * (a1 * Ti + a2 + a3 * (i : K)^2) := by
    calc F i ≤ a1 * i * Ti + a2 * i + a3 * (i : K)^3 := hF
      _ = (i : K) * (a1 * Ti + a2 + a3 * (i : K)^2) := by ring
  have hi2 : (i : K)^2 ≤ n^2 := by gcongr
  have p2 : 3 / ((i : K) + 1) * (|d| * F i)
      ≤ (a1 * n) * incB i d Ti + 3 * (a2 + a3 * n^2) * (|d| * ρ) := by
    have e : 3 / ((i : K) + 1) * (|d| * ((i : K) * (a1 * Ti + a2 + a3 * (i : K)^2)))
        = (a1 * i) * incB i d Ti + 3 * (a2 + a3 * (i : K)^2) * (|d| * ρ) := by
      unfold incB; rw [hρ]; ring
    have hB0 := incB_nonneg i d Ti hTi
    calc 3 / ((i : K) + 1) * (|d| * F i)
        ≤ 3 / ((i : K) + 1) * (|d| * ((i : K) * (a1 * Ti + a2 + a3 * (i : K)^2))) := by gcongr
      _ = (a1 * i) * incB i d Ti + 3 * (a2 + a3 * (i : K)^2) * (|d| * ρ) := e
      _ ≤ (a1 * n) * incB i d Ti + 3 * (a2 + a3 * n^2) * (|d| * ρ) := by gcongr
  -- p3
  have p3 : 3 / ((i : K) + 1) * (E i * Ti) ≤ 3 * η * Tn := by
    calc 3 / ((i : K) + 1) * (E i * Ti) = 3 * (E i / ((i : K) + 1)) * Ti := by ring
      _ ≤ 3 * η * Tn := by gcongr
  -- p4
  have p4 : 3 / ((i : K) + 1) * (E i * F i) ≤ 3 * η * (a1 * Tn + a2 + a3 * n^2) * i := by
    have hb : a1 * Ti + a2 + a3 * (i : K)^2 ≤ a1 * Tn + a2 + a3 * n^2 := by gcongr
    have hb0 : 0 ≤ a1 * Ti + a2 + a3 * (i : K)^2 := by positivity
    calc 3 / ((i : K) + 1) * (E i * F i) = 3 * (E i / ((i : K) + 1)) * F i := by ring
      _ ≤ 3 * η * ((i : K) * (a1 * Ti + a2 + a3 * (i : K)^2)) := by gcongr
      _ ≤ 3 * η * ((i : K) * (a1 * Tn + a2 + a3 * n^2)) := by gcongr
      _ = 3 * η * (a1 * Tn + a2 + a3 * n^2) * i := by ring
  unfold stepTerm
  have q1 := mul_le_mul_of_nonneg_left p1 (by linarith : 0 ≤ 1 + g u 12)
  have q2 := mul_le_mul_of_nonneg_left p2 (by linarith : 0 ≤ 1 + g u 5)
  have q3 := mul_le_mul_of_nonneg_left p3 (by linarith : 0 ≤ 1 + g u 5)
  have q4 := mul_le_mul_of_nonneg_left p4 (by linarith : 0 ≤ 1 + g u 5)
  have e : (1 + g u 5) * (3 / ((i : K) + 1) * (|d| * F i + E i * Ti + E i * F i))
      = (1 + g u 5) * (3 / ((i : K) + 1) * (|d| * F i))
        + (1 + g u 5) * (3 / ((i : K) + 1) * (E i * Ti))
        + (1 + g u 5) * (3 / ((i : K) + 1) * (E i * F i)) := by ring
  rw [e]
  linarith

/-- `W = Σ |d_i|·i/(i+1)` -/
def W (vs : List K) : K := ∑ i ∈ range vs.length, |dev vs i| * ((i : K) / ((i : K) + 1))

theorem W_nonneg (vs : List K) : 0 ≤ W vs :=
  sum_nonneg (fun i _ => mul_nonneg (abs_nonneg _) (ratio_nonneg i))

/-- Cauchy-Schwarz: `W² ≤ n·T` -/
theorem W_sq_le (vs : List K) : (W vs)^2 ≤ (vs.length : K) * T vs := by
  have h := cross_sq_le (fun _ => (1 : K)) vs
  simp only [one_mul, one_pow, sum_const, card_range, nsmul_eq_mul, mul_one] at h
  exact h

theorem W_le (vs : List K) (R₀ : K) (hR : 0 ≤ R₀) (hRT : (vs.length : K) * T vs ≤ R₀^2) :
    W vs ≤ R₀ := by
  have h := W_sq_le vs
  by_contra hc
  rw [not_le] at hc
  nlinarith

/-- `Σ_{i<n} i ≤ n²/2` -/
theorem sum_id_le (n : ℕ) : ∑ i ∈ range n, (i : K) ≤ (n : K)^2 / 2 := by
  induction n with
  | zero => simp
  | succ n ih =>
    rw [sum_range_succ]
    push_cast
    have : (0 : K) ≤ n := Nat.cast_nonneg n
    nlinarith

/-- **The accumulated bound.** -/
theorem errSum_le (u : K) (hu : 0 ≤ u) (E F : ℕ → K) (vs : List K) (Eb η a1 a2 a3 R₀ : K)
    (hE0 : ∀ i, 0 ≤ E i) (hEb : ∀ i, i < vs.length → E i ≤ Eb)
    (hEη : ∀ i, i < vs.length → E i ≤ η * ((i : K) + 1))
    (hF0 : ∀ i, 0 ≤ F i)
    (hF : ∀ i, i < vs.length → F i ≤ a1 * i * T (vs.take i) + a2 * i + a3 * (i : K)^3)
    (ha1 : 0 ≤ a1) (ha2 : 0 ≤ a2) (ha3 : 0 ≤ a3) (hη : 0 ≤ η)
    (hR : 0 ≤ R₀) (hRT : (vs.length : K) * T vs ≤ R₀^2) :
    errSum u E F vs ≤
      g u 12 * VA vs + (g u 5 + (1 + g u 5) * (a1 * vs.length)) * VB vs
      + (1 + g u 12) * (3 * Eb) * T vs
      + ((1 + g u 12) * (3 * Eb^2) + (1 + g u 5) * (3 * (a2 + a3 * (vs.length : K)^2))) * R₀
      + ((1 + g u 12) * Eb^3 + (1 + g u 5) * (3 * η * T vs)) * vs.length
      + (1 + g u 5) * (3 * η * (a1 * T vs + a2 + a3 * (vs.length : K)^2))
          * ((vs.length : K)^2 / 2) := by
  have h12 := g_nonneg hu 12
  have h5 := g_nonneg hu 5
  have hT0 := T_nonneg vs
  have hn0 : (0 : K) ≤ vs.length := Nat.cast_nonneg _
  have hterm : ∀ i ∈ range vs.length, stepTerm u E F i (dev vs i) (T (vs.take i)) ≤
      g u 12 * incA i (dev vs i)
      + (g u 5 + (1 + g u 5) * (a1 * vs.length)) * incB i (dev vs i) (T (vs.take i))
      + (1 + g u 12) * (3 * Eb) * ((dev vs i)^2 * ((i : K) / ((i : K) + 1)))
      + ((1 + g u 12) * (3 * Eb^2) + (1 + g u 5) * (3 * (a2 + a3 * (vs.length : K)^2)))
          * (|dev vs i| * ((i : K) / ((i : K) + 1)))
      + ((1 + g u 12) * Eb^3 + (1 + g u 5) * (3 * η * T vs))
      + (1 + g u 5) * (3 * η * (a1 * T vs + a2 + a3 * (vs.length : K)^2)) * i := by
    intro i hi
    have hi' := mem_range.mp hi
    have hin : (i : K) + 1 ≤ vs.length := by exact_mod_cast hi'
    exact stepTerm_le u hu E F i (dev vs i) (T (vs.take i)) (T vs) vs.length Eb η a1 a2 a3
      (T_nonneg _) (T_take_le vs i) hin (hE0 i) (hEb i hi') (hEη i hi') (hF0 i) (hF i hi')
      ha1 ha2 ha3 hη
  refine le_trans (sum_le_sum hterm) ?_
  simp only [sum_add_distrib, ← mul_sum, sum_const, card_range, nsmul_eq_mul]
  have hW := W_le vs R₀ hR hRT
  have hS := sum_id_le (K := K) vs.length
  have eVA : ∑ i ∈ range vs.length, incA i (dev vs i) = VA vs := rfl
  have eVB : ∑ i ∈ range vs.length, incB i (dev vs i) (T (vs.take i)) = VB vs := rfl
  have eT : ∑ i ∈ range vs.length, (dev vs i)^2 * ((i : K) / ((i : K) + 1)) = T vs :=
    (T_eq_sum vs).symm
  have eW : ∑ i ∈ range vs.length, |dev vs i| * ((i : K) / ((i : K) + 1)) = W vs := rfl
  rw [eVA, eVB, eT, eW]
  have c4 : 0 ≤ (1 + g u 12) * (3 * Eb^2) + (1 + g u 5) * (3 * (a2 + a3 * (vs.length : K)^2)) := by
    positivity
  have c6 : 0 ≤ (1 + g u 5) * (3 * η * (a1 * T vs + a2 + a3 * (vs.length : K)^2)) := by positivity
  have m4 := mul_le_mul_of_nonneg_left hW c4
  have m6 := mul_le_mul_of_nonneg_left hS c6
  have ecomm : (1 + g u 12) * ((vs.length : K) * Eb^3)
        + (1 + g u 5) * (3 * η * ((vs.length : K) * T vs))
      = ((1 + g u 12) * Eb^3 + (1 + g u 5) * (3 * η * T vs)) * vs.length := by ring
  linarith

end SkewErr

#print axioms SkewErr.errSum_le
