import Mathlib.Algebra.BigOperators.Intervals
import Mathlib.Algebra.Order.BigOperators.Ring.Finset
import Mathlib.Algebra.Order.Field.Basic
import Mathlib.Tactic.Ring
import Mathlib.Tactic.FieldSimp
import Mathlib.Tactic.Linarith
import Mathlib.Tactic.Positivity
import Mathlib.Tactic.GCongr
import Mathlib.Tactic.NormNum

/-!
# Hardy's and Copson's inequalities for the exponent 3, in any ordered field

For a non-negative sequence `a_0, a_1, …` with running means `α_m = (a_0 + … + a_{m-1})/m`:

* `hardy3`:  `Σ_{m<M} α_{m+1}³ ≤ (27/8)·Σ_{m<M} a_m³`   (Hardy's inequality, `p = 3`, constant `(p/(p-1))^p`).
* `copson3`: with the tails `γ_i = Σ_{i<k<n} b_k/k`:  `Σ_{i<n} γ_i³ ≤ 27·Σ_{i<n} b_{i+1}³`
  (Copson's dual inequality, `p = 3`, constant `p^p`).
* `sum_tail_swap`: `Σ_{k<n} (b_k/k)·Σ_{i<k} c_i = Σ_{i<n} c_i·γ_i`.

Both proofs are Elliott's telescoping argument; for the exponent 3 every step is a polynomial
inequality (`2p³ - 3p²q + q³ = (p-q)²(2p+q) ≥ 0` and two weighted versions), so no real powers or
roots are needed.
-/
open Finset

namespace SkewErr
variable {K : Type} [Field K] [LinearOrder K] [IsStrictOrderedRing K]

/-- `3p²q ≤ 2p³ + q³` -/
theorem young3 (p q : K) (hp : 0 ≤ p) (hq : 0 ≤ q) : 3 * p^2 * q ≤ 2 * p^3 + q^3 := by
  have h : 2 * p^3 + q^3 - 3 * p^2 * q = (p - q)^2 * (2 * p + q) := by ring
  have : 0 ≤ (p - q)^2 * (2 * p + q) := by positivity
  linarith

/-- `p²a ≤ (4/9)p³ + (3/4)a³` (equality at `a = 2p/3`) -/
theorem young3_hardy (p a : K) (hp : 0 ≤ p) (ha : 0 ≤ a) : p^2 * a ≤ 4/9 * p^3 + 3/4 * a^3 := by
  have h : 4/9 * p^3 + 3/4 * a^3 - p^2 * a = 3/4 * ((a - 2/3 * p)^2 * (a + 4/3 * p)) := by ring
  have : 0 ≤ 3/4 * ((a - 2/3 * p)^2 * (a + 4/3 * p)) := by positivity
  linarith

/-- `γ²b ≤ (2/9)γ³ + 3b³` (equality at `b = γ/3`) -/
theorem young3_copson (γ b : K) (hγ : 0 ≤ γ) (hb : 0 ≤ b) : γ^2 * b ≤ 2/9 * γ^3 + 3 * b^3 := by
  have h : 2/9 * γ^3 + 3 * b^3 - γ^2 * b = 3 * ((b - 1/3 * γ)^2 * (b + 2/3 * γ)) := by ring
  have : 0 ≤ 3 * ((b - 1/3 * γ)^2 * (b + 2/3 * γ)) := by positivity
  linarith

/-- `a²γ ≤ 2a³ + γ³/27` (equality at `γ = 3a`) -/
theorem young3_a (a γ : K) (ha : 0 ≤ a) (hγ : 0 ≤ γ) : a^2 * γ ≤ 2 * a^3 + 1/27 * γ^3 := by
  have h : 2 * a^3 + 1/27 * γ^3 - a^2 * γ = 1/27 * ((γ - 3 * a)^2 * (γ + 6 * a)) := by ring
  have : 0 ≤ 1/27 * ((γ - 3 * a)^2 * (γ + 6 * a)) := by positivity
  linarith

/-- `a²Γ ≤ 3a³ + (4/243)Γ³` (equality at `Γ = 9a/2`) -/
theorem young3_b (a Γ : K) (ha : 0 ≤ a) (hΓ : 0 ≤ Γ) : a^2 * Γ ≤ 3 * a^3 + 4/243 * Γ^3 := by
  have h : 3 * a^3 + 4/243 * Γ^3 - a^2 * Γ = 4/243 * ((Γ - 9/2 * a)^2 * (Γ + 9 * a)) := by ring
  have : 0 ≤ 4/243 * ((Γ - 9/2 * a)^2 * (Γ + 9 * a)) := by positivity
  linarith

/-- `(p + q)³ ≤ 4(p³ + q³)` for `p, q ≥ 0` -/
theorem add_cube_le (p q : K) (hp : 0 ≤ p) (hq : 0 ≤ q) : (p + q)^3 ≤ 4 * (p^3 + q^3) := by
  have h : 4 * (p^3 + q^3) - (p + q)^3 = 3 * ((p - q)^2 * (p + q)) := by ring
  have : 0 ≤ 3 * ((p - q)^2 * (p + q)) := by positivity
  linarith

/-! ## Hardy -/

/-- partial sums -/
def psum (a : ℕ → K) (m : ℕ) : K := ∑ i ∈ range m, a i
/-- running means (`amean a 0` is never used: it only occurs multiplied by `0`) -/
def amean (a : ℕ → K) (m : ℕ) : K := psum a m / m

theorem psum_nonneg {a : ℕ → K} (ha : ∀ i, 0 ≤ a i) (m : ℕ) : 0 ≤ psum a m :=
  sum_nonneg (fun i _ => ha i)

theorem amean_nonneg {a : ℕ → K} (ha : ∀ i, 0 ≤ a i) (m : ℕ) : 0 ≤ amean a m :=
  div_nonneg (psum_nonneg ha m) (Nat.cast_nonneg m)

omit [LinearOrder K] [IsStrictOrderedRing K] in
theorem mul_amean (a : ℕ → K) (m : ℕ) [CharZero K] : (m : K) * amean a m = psum a m := by
  unfold amean
  rcases Nat.eq_zero_or_pos m with h | h
  · subst h; simp [psum]
  · have : (m : K) ≠ 0 := Nat.cast_ne_zero.mpr (by omega)
    field_simp

/-- `a_m = (m+1)·α_{m+1} - m·α_m` -/
theorem amean_rec (a : ℕ → K) (m : ℕ) :
    a m = ((m : K) + 1) * amean a (m + 1) - (m : K) * amean a m := by
  have h1 := mul_amean a (m + 1)
  have h2 := mul_amean a m
  push_cast at h1
  rw [h1, h2]
  unfold psum
  rw [sum_range_succ]; ring

/-- Elliott's telescoping step, summed -/
theorem hardy3_core {a : ℕ → K} (ha : ∀ i, 0 ≤ a i) (M : ℕ) :
    ∑ m ∈ range M, (amean a (m + 1))^3 + (M : K) / 2 * (amean a M)^3
      ≤ 3/2 * ∑ m ∈ range M, (amean a (m + 1))^2 * a m := by
  induction M with
  | zero => simp
  | succ M ih =>
    rw [sum_range_succ, sum_range_succ]
    have hp := amean_nonneg ha (M + 1)
    have hq := amean_nonneg ha M
    have hM : (0 : K) ≤ M := Nat.cast_nonneg M
    have hy := young3 (amean a (M + 1)) (amean a M) hp hq
    rw [amean_rec a M]
    set p := amean a (M + 1)
    set q := amean a M
    push_cast
    have hy' := mul_nonneg hM (sub_nonneg.mpr hy)
    nlinarith

/-- **Hardy's inequality, exponent 3**: `Σ_{m<M} α_{m+1}³ ≤ (27/8)·Σ_{m<M} a_m³`. -/
theorem hardy3 {a : ℕ → K} (ha : ∀ i, 0 ≤ a i) (M : ℕ) :
    ∑ m ∈ range M, (amean a (m + 1))^3 ≤ 27/8 * ∑ m ∈ range M, (a m)^3 := by
  have hc := hardy3_core ha M
  have hlast : 0 ≤ (M : K) / 2 * (amean a M)^3 := by
    have := amean_nonneg ha M
    positivity
  have hy : ∑ m ∈ range M, (amean a (m + 1))^2 * a m
      ≤ ∑ m ∈ range M, (4/9 * (amean a (m + 1))^3 + 3/4 * (a m)^3) :=
    sum_le_sum (fun m _ => young3_hardy _ _ (amean_nonneg ha _) (ha m))
  rw [sum_add_distrib, ← mul_sum, ← mul_sum] at hy
  linarith

/-! ## Copson -/

/-- Elliott's telescoping step for the dual inequality, summed -/
theorem copson3_core {γ : ℕ → K} (hγ : ∀ i, 0 ≤ γ i) (L : ℕ) :
    ∑ i ∈ range L, (γ i)^3
      ≤ 3 * ∑ i ∈ range L, (γ i)^2 * (((i : K) + 1) * (γ i - γ (i + 1))) + (L : K) * (γ L)^3 := by
  induction L with
  | zero => simp
  | succ L ih =>
    rw [sum_range_succ, sum_range_succ]
    have hp := hγ L
    have hq := hγ (L + 1)
    have hL : (0 : K) ≤ L := Nat.cast_nonneg L
    have hy := young3 (γ L) (γ (L + 1)) hp hq
    push_cast
    have hy' := mul_nonneg (by linarith : (0 : K) ≤ (L : K) + 1) (sub_nonneg.mpr hy)
    nlinarith

/-- the tails `γ_i = Σ_{i<k<n} b_k/k` -/
def tail (b : ℕ → K) (n i : ℕ) : K := ∑ k ∈ Ico (i + 1) n, b k / (k : K)

theorem tail_nonneg {b : ℕ → K} (hb : ∀ k, 0 ≤ b k) (n i : ℕ) : 0 ≤ tail b n i :=
  sum_nonneg (fun k _ => div_nonneg (hb k) (Nat.cast_nonneg k))

omit [LinearOrder K] [IsStrictOrderedRing K] in
theorem tail_top (b : ℕ → K) (n : ℕ) : tail b n n = 0 := by
  unfold tail; rw [Ico_eq_empty (by omega)]; simp

theorem tail_diff_le {b : ℕ → K} (hb : ∀ k, 0 ≤ b k) (n i : ℕ) :
    ((i : K) + 1) * (tail b n i - tail b n (i + 1)) ≤ b (i + 1) := by
  unfold tail
  rcases Nat.lt_or_ge (i + 1) n with h | h
  · rw [sum_eq_sum_Ico_succ_bot h]
    have hne : ((i : K) + 1) ≠ 0 := by positivity
    push_cast
    apply le_of_eq
    field_simp
    ring
  · rw [Ico_eq_empty (by omega), Ico_eq_empty (by omega)]
    simp [hb]

/-- **Copson's inequality, exponent 3**: `Σ_{i<n} γ_i³ ≤ 27·Σ_{i<n} b_{i+1}³`. -/
theorem copson3 {b : ℕ → K} (hb : ∀ k, 0 ≤ b k) (n : ℕ) :
    ∑ i ∈ range n, (tail b n i)^3 ≤ 27 * ∑ i ∈ range n, (b (i + 1))^3 := by
  have hγ := tail_nonneg hb n
  have hc := copson3_core hγ n
  rw [tail_top, zero_pow (by norm_num), mul_zero, add_zero] at hc
  have h1 : ∑ i ∈ range n, (tail b n i)^2 * (((i : K) + 1) * (tail b n i - tail b n (i + 1)))
      ≤ ∑ i ∈ range n, (tail b n i)^2 * b (i + 1) :=
    sum_le_sum (fun i _ => mul_le_mul_of_nonneg_left (tail_diff_le hb n i) (sq_nonneg _))
  have hy : ∑ i ∈ range n, (tail b n i)^2 * b (i + 1)
      ≤ ∑ i ∈ range n, (2/9 * (tail b n i)^3 + 3 * (b (i + 1))^3) :=
    sum_le_sum (fun i _ => young3_copson _ _ (hγ i) (hb _))
  rw [sum_add_distrib, ← mul_sum, ← mul_sum] at hy
  linarith

omit [LinearOrder K] [IsStrictOrderedRing K] in
/-- exchange of the order of summation -/
theorem sum_tail_swap (b c : ℕ → K) (n : ℕ) :
    ∑ k ∈ range n, b k / (k : K) * ∑ i ∈ range k, c i = ∑ i ∈ range n, c i * tail b n i := by
  unfold tail
  simp only [mul_sum, range_eq_Ico]
  rw [sum_Ico_Ico_comm' 0 n (fun i k => c i * (b k / (k : K)))]
  apply sum_congr rfl
  intro k _
  apply sum_congr rfl
  intro i _
  ring

end SkewErr

#print axioms SkewErr.hardy3
#print axioms SkewErr.copson3
#print axioms SkewErr.sum_tail_swap
