import AvgProofs.VarErrRel

/-!
# One step of Welford's sum of squares under the standard model of rounding

`S' = fl(S + fl(fl(fl(δ·δ)·k)·fl(k-1)))`, `δ = fl(fl(x-a)/k)`, compared with the exact update
`T' = T + (x-μ)²(k-1)/k`. With `e = a - μ` the error of the computed mean and `γ = (1+u)^8 - 1`:

`|S' - T'| ≤ (1+u)·( |S - T| + γ·J + (1+γ)·(2|e||x-μ| + e²)·(k-1)/k ) + u·T'`,   `J = (x-μ)²(k-1)/k`.

The perturbation of the increment by the error of the mean is *linear* in `|x - μ|` (the deviation of
the new observation), not in `|x|`: this is what makes the final bound linear in the conditioning.
-/
variable {K : Type} [Field K] [LinearOrder K] [IsStrictOrderedRing K]

/-- the exact increment depends on the centre only through `-2e(x-μ) + e²` -/
theorem var_incr_shift (x a μ c : K) (hc : 0 ≤ c) :
    |(x - a)^2 * c - (x - μ)^2 * c| ≤ (2 * |a - μ| * |x - μ| + (a - μ)^2) * c := by
  have h : (x - a)^2 * c - (x - μ)^2 * c = (-(2 * ((a - μ) * (x - μ))) + (a - μ)^2) * c := by ring
  rw [h, abs_mul, abs_of_nonneg hc]
  gcongr
  calc |-(2 * ((a - μ) * (x - μ))) + (a - μ)^2| ≤ |-(2 * ((a - μ) * (x - μ)))| + |(a - μ)^2| :=
        abs_add_le _ _
    _ = 2 * |a - μ| * |x - μ| + (a - μ)^2 := by
        rw [abs_neg, abs_mul, abs_mul, abs_of_nonneg (sq_nonneg (a - μ)), abs_two]; ring

theorem var_step_error (fl : K → K) (u : K) (hu : 0 ≤ u) (hfl : ∀ t, |fl t - t| ≤ u * |t|)
    (x a μ S T k : K) (hk : 1 ≤ k) (hT : 0 ≤ T) :
    let δ := fl (fl (x - a) / k)
    let γ := (1 + u)^8 - 1
    let J := (x - μ)^2 * ((k - 1) / k)
    let c := (2 * |a - μ| * |x - μ| + (a - μ)^2) * ((k - 1) / k)
    |fl (S + fl (fl (fl (δ * δ) * k) * fl (k - 1))) - (T + J)|
      ≤ (1 + u) * (|S - T| + γ * J + (1 + γ) * c) + u * (T + J) := by
  intro δ γ J c
  have hkpos : 0 < k := lt_of_lt_of_le one_pos hk
  have hq : 0 ≤ (k - 1) / k := div_nonneg (by linarith) hkpos.le
  have hJ : 0 ≤ J := by positivity
  have hγ : 0 ≤ γ := by
    have := RE.one_le_pow hu 8
    simp only [γ]; linarith
  obtain ⟨hI, hp⟩ := var_incr_error fl u hu hfl x a k hk
  
  set I := (x - a)^2 * ((k - 1) / k) with hIdef
  set p := fl (fl (fl (δ * δ) * k) * fl (k - 1)) with hpdef
  have hIJ : |I - J| ≤ c := var_incr_shift x a μ _ hq
  have hIle : I ≤ J + c := by
    have := (abs_le.mp hIJ).2; linarith
  set z := (S - T) + (p - I) + (I - J) with hz
  have hzb : |z| ≤ |S - T| + γ * J + (1 + γ) * c := by
    calc |z| ≤ |S - T| + |p - I| + |I - J| := by
          refine le_trans (abs_add_le _ _) ?_
          gcongr
          exact abs_add_le _ _
      _ ≤ |S - T| + γ * I + c := by linarith
      _ ≤ |S - T| + γ * (J + c) + c := by gcongr
      _ = |S - T| + γ * J + (1 + γ) * c := by ring
  have hsum : S + p = (T + J) + z := by simp only [hz]; ring
  have hr := hfl (S + p)
  have hsp : |S + p| ≤ (T + J) + |z| := by
    rw [hsum]
    calc |T + J + z| ≤ |T + J| + |z| := abs_add_le _ _
      _ = (T + J) + |z| := by rw [abs_of_nonneg (by linarith)]
  have : fl (S + p) - (T + J) = (fl (S + p) - (S + p)) + z := by rw [hsum]; ring
  rw [this]
  calc |(fl (S + p) - (S + p)) + z| ≤ |fl (S + p) - (S + p)| + |z| := abs_add_le _ _
    _ ≤ u * ((T + J) + |z|) + |z| := by
        have : u * |S + p| ≤ u * ((T + J) + |z|) := by gcongr
        linarith
    _ = (1 + u) * |z| + u * (T + J) := by ring
    _ ≤ (1 + u) * (|S - T| + γ * J + (1 + γ) * c) + u * (T + J) := by gcongr

#print axioms var_step_error
