import AvgProofs.MomNErrNum
import AvgProofs.KurtErrH

/-!
# The forward error of `m[1]` of `define_moments!` once more, keeping `W = Σ|d_i|·i/(i+1)`

`MomNErr.mom3_fold_error_num` bounds `W ≤ R₀` (Cauchy-Schwarz, `n·T ≤ R₀²`) in the term that carries the error
of `m[0]`, which yields `13·u·M·R₀²`. For the analysis of `m[2]` the bound is needed for every prefix of the
stream, with a right-hand side that grows with the length of the prefix (as `KurtErr.skew_fold_error_num_W` for
`Skewness.sum_3`). Here the chain of `MomNErrSum`/`MomNErrNum` is repeated with `W` kept:

`mom3_fold_error_num_W`: `N ≥ 3`, `|x_i| ≤ M`, `(n+28)·u ≤ 1/64`, `n·T ≤ R₀²`, `L = n + 10`:
`|m[1] - U| ≤ 10·L·u·V3m + 11·L·u·M·T + 13·u·M·R₀·W + 30·L²·u²·M²·R₀ + 16·L⁴·u³·M³`.

`m1_prefix_W`: the same for every prefix `ys` of a stream `xs`, with the `R₀` of `xs` (`HsharpM`);
`HsharpM_le`: in the form needed by the sums of the fourth order.
-/
open Avg MSpec Finset VarSpec SkewSpec VarErr SkewErr MomVarErr

namespace MomN4Err
open MomNErr
variable {K : Type} [Field K] [LinearOrder K] [IsStrictOrderedRing K]

/-- `errSumM_le` without the last Cauchy-Schwarz step -/
theorem errSumM_le_W (u : K) (hu : 0 ≤ u) (E F : ℕ → K) (vs : List K) (Eb η a1 a2 a3 : K)
    (hE0 : ∀ i, 0 ≤ E i) (hEb : ∀ i, i < vs.length → E i ≤ Eb)
    (hEη : ∀ i, i < vs.length → E i ≤ η * ((i : K) + 1))
    (hF0 : ∀ i, 0 ≤ F i)
    (hF : ∀ i, i < vs.length → F i ≤ a1 * i * T (vs.take i) + a2 * i + a3 * (i : K)^3)
    (ha1 : 0 ≤ a1) (ha2 : 0 ≤ a2) (ha3 : 0 ≤ a3) (hη : 0 ≤ η) :
    errSumM u E F vs ≤
      g u 18 * VAM vs + (g u 6 + (1 + g u 6) * (a1 * vs.length)) * VB vs
      + (1 + g u 18) * (3 * Eb) * T vs
      + ((1 + g u 18) * (3 * Eb^2) + (1 + g u 6) * (3 * (a2 + a3 * (vs.length : K)^2))) * W vs
      + ((1 + g u 18) * Eb^3 + (1 + g u 6) * (3 * η * T vs)) * vs.length
      + (1 + g u 6) * (3 * η * (a1 * T vs + a2 + a3 * (vs.length : K)^2))
          * ((vs.length : K)^2 / 2) := by
  have h18 := g_nonneg hu 18
  have h6 := g_nonneg hu 6
  have hT0 := T_nonneg vs
  have hn0 : (0 : K) ≤ vs.length := Nat.cast_nonneg _
  have hterm : ∀ i ∈ range vs.length, stepTermM u E F i (dev vs i) (T (vs.take i)) ≤
      g u 18 * incAM i (dev vs i)
      + (g u 6 + (1 + g u 6) * (a1 * vs.length)) * incB i (dev vs i) (T (vs.take i))
      + (1 + g u 18) * (3 * Eb) * ((dev vs i)^2 * ((i : K) / ((i : K) + 1)))
      + ((1 + g u 18) * (3 * Eb^2) + (1 + g u 6) * (3 * (a2 + a3 * (vs.length : K)^2)))
          * (|dev vs i| * ((i : K) / ((i : K) + 1)))
      + ((1 + g u 18) * Eb^3 + (1 + g u 6) * (3 * η * T vs))
      + (1 + g u 6) * (3 * η * (a1 * T vs + a2 + a3 * (vs.length : K)^2)) * i := by
    intro i hi
    have hi' := mem_range.mp hi
    have hin : (i : K) + 1 ≤ vs.length := by exact_mod_cast hi'
    exact stepTermM_le u hu E F i (dev vs i) (T (vs.take i)) (T vs) vs.length Eb η a1 a2 a3
      (T_nonneg _) (T_take_le vs i) hin (hE0 i) (hEb i hi') (hEη i hi') (hF0 i) (hF i hi')
      ha1 ha2 ha3 hη
  refine le_trans (sum_le_sum hterm) ?_
  simp only [sum_add_distrib, ← mul_sum, sum_const, card_range, nsmul_eq_mul]
  have hS := sum_id_le (K := K) vs.length
  have eVAM : ∑ i ∈ range vs.length, incAM i (dev vs i) = VAM vs := rfl
  have eVB : ∑ i ∈ range vs.length, incB i (dev vs i) (T (vs.take i)) = VB vs := rfl
  have eT : ∑ i ∈ range vs.length, (dev vs i)^2 * ((i : K) / ((i : K) + 1)) = T vs :=
    (T_eq_sum vs).symm
  have eW : ∑ i ∈ range vs.length, |dev vs i| * ((i : K) / ((i : K) + 1)) = W vs := rfl
  rw [eVAM, eVB, eT, eW]
  have c6 : 0 ≤ (1 + g u 6) * (3 * η * (a1 * T vs + a2 + a3 * (vs.length : K)^2)) := by positivity
  have m6 := mul_le_mul_of_nonneg_left hS c6
  have ecomm : (1 + g u 18) * ((vs.length : K) * Eb^3)
        + (1 + g u 6) * (3 * η * ((vs.length : K) * T vs))
      = ((1 + g u 18) * Eb^3 + (1 + g u 6) * (3 * η * T vs)) * vs.length := by ring
  linarith

section fold
variable {r : Rnd2 K} [Neg (RF2 r)]

/-- `mom3_fold_error_sharp` with `W` kept -/
theorem mom3_fold_error_sharp_W (hneg : NegExact r) (N : Nat) (hN : 3 ≤ N) (M : K) (hM : 0 ≤ M)
    (xs : List (RF2 r))
    (hb : ∀ x ∈ xs, |x.val| ≤ M) (hsmall : ((xs.length : K) + 28) * r.u ≤ 1/64)
    (R₀ : K) (hR : 0 ≤ R₀) (hRT : (xs.length : K) * T (xs.map RF2.val) ≤ R₀^2) :
    |(mfold N xs).m1.val - U (xs.map RF2.val)|
      ≤ (1 + r.u)^(2 * xs.length) *
        (g r.u 18 * VAM (xs.map RF2.val)
          + (g r.u 6 + (1 + g r.u 6) * ((29/4 * r.u) * xs.length)) * VB (xs.map RF2.val)
          + (1 + g r.u 18) * (3 * (65/128 * r.u * M * ((xs.length : K) + 37/4))) * T (xs.map RF2.val)
          + ((1 + g r.u 18) * (3 * (65/128 * r.u * M * ((xs.length : K) + 37/4))^2)
              + (1 + g r.u 6) * (3 * ((99/25 * r.u * M * R₀) + (15/4 * r.u^2 * M^2) * (xs.length : K)^2)))
            * W (xs.map RF2.val)
          + ((1 + g r.u 18) * (65/128 * r.u * M * ((xs.length : K) + 37/4))^3
              + (1 + g r.u 6) * (3 * (41/8 * (65/128 * r.u * M)) * T (xs.map RF2.val))) * xs.length
          + (1 + g r.u 6) * (3 * (41/8 * (65/128 * r.u * M))
              * ((29/4 * r.u) * T (xs.map RF2.val) + (99/25 * r.u * M * R₀)
                  + (15/4 * r.u^2 * M^2) * (xs.length : K)^2)) * ((xs.length : K)^2 / 2))
        + ((1 + r.u)^(2 * xs.length) - 1) * V3m (xs.map RF2.val) := by
  have hu := r.u_nonneg
  set β := 65/128 * r.u * M with hβdef
  have hβ : 0 ≤ β := by positivity
  have hlen : (xs.map RF2.val).length = xs.length := by simp
  have hgen := mom3_fold_error_gen hneg N hN (Esharp β) (FsharpM r.u M R₀ (xs.map RF2.val))
    (Esharp_nonneg hβ) (FsharpM_nonneg hu hM hR _) xs
    (mean_prefix_sharp r M hM xs hb hsmall)
    (m0_prefix_sharp hneg N (by omega) M hM xs hb hsmall R₀ hR hRT)
  refine le_trans hgen ?_
  have hsum := errSumM_le_W r.u hu (Esharp β) (FsharpM r.u M R₀ (xs.map RF2.val)) (xs.map RF2.val)
    (β * ((xs.length : K) + 37/4)) (41/8 * β) (29/4 * r.u) (99/25 * r.u * M * R₀)
    (15/4 * r.u^2 * M^2) (Esharp_nonneg hβ)
    (fun i hi => Esharp_le_max hβ xs.length i (by rwa [hlen] at hi))
    (fun i _ => Esharp_le_lin hβ i) (FsharpM_nonneg hu hM hR _) (fun i _ => le_refl _)
    (by positivity) (by positivity) (by positivity) (by positivity)
  rw [hlen] at hsum
  have hP : 0 ≤ (1 + r.u)^(2 * xs.length) := by positivity
  have := mul_le_mul_of_nonneg_left hsum hP
  linarith

end fold

/-- the last algebraic step of `mom3_fold_error_num_W` -/
theorem numM_arith_W (P g18 g6 u M n Tn R₀ Wv VA VB : K) (hu : 0 ≤ u) (hM : 0 ≤ M) (hn : 0 ≤ n)
    (hT : 0 ≤ Tn) (hR : 0 ≤ R₀) (hW0 : 0 ≤ Wv) (hWR : Wv ≤ R₀) (hVA : 0 ≤ VA) (hVB : 0 ≤ VB)
    (hg18 : 0 ≤ g18) (hg6 : 0 ≤ g6)
    (_hP0 : 0 ≤ P) (hP : P ≤ 32/31) (hP1 : P - 1 ≤ 64/31 * (n * u))
    (hg18' : g18 ≤ 91/5 * u) (hg6' : g6 ≤ 61/10 * u)
    (hu' : u ≤ 1/1856) (hnu : n * u ≤ 1/64) :
    P * (g18 * VA + (g6 + (1 + g6) * ((29/4 * u) * n)) * VB
          + (1 + g18) * (3 * (65/128 * u * M * (n + 37/4))) * Tn
          + ((1 + g18) * (3 * (65/128 * u * M * (n + 37/4))^2)
              + (1 + g6) * (3 * ((99/25 * u * M * R₀) + (15/4 * u^2 * M^2) * n^2))) * Wv
          + ((1 + g18) * (65/128 * u * M * (n + 37/4))^3
              + (1 + g6) * (3 * (41/8 * (65/128 * u * M)) * Tn)) * n
          + (1 + g6) * (3 * (41/8 * (65/128 * u * M))
              * ((29/4 * u) * Tn + (99/25 * u * M * R₀) + (15/4 * u^2 * M^2) * n^2)) * (n^2 / 2))
        + (P - 1) * (VA + VB)
      ≤ 10 * (n + 10) * u * (VA + VB) + 11 * (n + 10) * u * M * Tn + 13 * u * M * R₀ * Wv
        + 30 * (n + 10)^2 * u^2 * M^2 * R₀ + 16 * (n + 10)^4 * u^3 * M^3 := by
  have h1g18 : 1 + g18 ≤ 101/100 := by linarith
  have h1g6 : 1 + g6 ≤ 101/100 := by linarith
  have hV0 : 0 ≤ VA + VB := by linarith
  have step0 : (P - 1) * (VA + VB) ≤ 64/31 * (n * u) * (VA + VB) :=
    mul_le_mul_of_nonneg_right hP1 hV0
  have step1 : P * (g18 * VA + (g6 + (1 + g6) * ((29/4 * u) * n)) * VB
          + (1 + g18) * (3 * (65/128 * u * M * (n + 37/4))) * Tn
          + ((1 + g18) * (3 * (65/128 * u * M * (n + 37/4))^2)
              + (1 + g6) * (3 * ((99/25 * u * M * R₀) + (15/4 * u^2 * M^2) * n^2))) * Wv
          + ((1 + g18) * (65/128 * u * M * (n + 37/4))^3
              + (1 + g6) * (3 * (41/8 * (65/128 * u * M)) * Tn)) * n
          + (1 + g6) * (3 * (41/8 * (65/128 * u * M))
              * ((29/4 * u) * Tn + (99/25 * u * M * R₀) + (15/4 * u^2 * M^2) * n^2)) * (n^2 / 2))
      ≤ 32/31 * ((91/5 * u) * VA + (61/10 * u + 101/100 * ((29/4 * u) * n)) * VB
          + 101/100 * (3 * (65/128 * u * M * (n + 37/4))) * Tn
          + (101/100 * (3 * (65/128 * u * M * (n + 37/4))^2)
              + 101/100 * (3 * ((99/25 * u * M * R₀) + (15/4 * u^2 * M^2) * n^2))) * Wv
          + (101/100 * (65/128 * u * M * (n + 37/4))^3
              + 101/100 * (3 * (41/8 * (65/128 * u * M)) * Tn)) * n
          + 101/100 * (3 * (41/8 * (65/128 * u * M))
              * ((29/4 * u) * Tn + (99/25 * u * M * R₀) + (15/4 * u^2 * M^2) * n^2)) * (n^2 / 2)) := by
    gcongr
  refine le_trans (add_le_add step1 step0) ?_
  have hn2u : n * u * (n * (u * M * Tn)) ≤ 1/64 * (n * (u * M * Tn)) := by
    have : 0 ≤ n * (u * M * Tn) := by positivity
    exact mul_le_mul_of_nonneg_right hnu this
  have m1 : 0 ≤ u * VA := by positivity
  have m1n : 0 ≤ n * (u * VA) := by positivity
  have m2 : 0 ≤ u * VB := by positivity
  have m2n : 0 ≤ n * (u * VB) := by positivity
  have m3 : 0 ≤ u * M * Tn := by positivity
  have m3n : 0 ≤ n * (u * M * Tn) := by positivity
  have m4 : 0 ≤ u * M * R₀ * Wv := by positivity
  have m5 : 0 ≤ u^2 * M^2 * R₀ := by positivity
  have m5n : 0 ≤ n * (u^2 * M^2 * R₀) := by positivity
  have m5n2 : 0 ≤ n^2 * (u^2 * M^2 * R₀) := by positivity
  have w5 : u^2 * M^2 * Wv ≤ u^2 * M^2 * R₀ := by gcongr
  have w5n : n * (u^2 * M^2 * Wv) ≤ n * (u^2 * M^2 * R₀) := by gcongr
  have w5n2 : n^2 * (u^2 * M^2 * Wv) ≤ n^2 * (u^2 * M^2 * R₀) := by gcongr
  have m6 : 0 ≤ u^3 * M^3 := by positivity
  have m6n : 0 ≤ n * (u^3 * M^3) := by positivity
  have m6n2 : 0 ≤ n^2 * (u^3 * M^3) := by positivity
  have m6n3 : 0 ≤ n^3 * (u^3 * M^3) := by positivity
  have m6n4 : 0 ≤ n^4 * (u^3 * M^3) := by positivity
  linarith

section fold
variable {r : Rnd2 K} [Neg (RF2 r)]

/-- **Forward error of `m[1]`, numerals, with `W` kept.** -/
theorem mom3_fold_error_num_W (hneg : NegExact r) (N : Nat) (hN : 3 ≤ N) (M : K) (hM : 0 ≤ M)
    (xs : List (RF2 r))
    (hb : ∀ x ∈ xs, |x.val| ≤ M) (hsmall : ((xs.length : K) + 28) * r.u ≤ 1/64)
    (R₀ : K) (hR : 0 ≤ R₀) (hRT : (xs.length : K) * T (xs.map RF2.val) ≤ R₀^2) :
    |(mfold N xs).m1.val - U (xs.map RF2.val)|
      ≤ 10 * ((xs.length : K) + 10) * r.u * V3m (xs.map RF2.val)
        + 11 * ((xs.length : K) + 10) * r.u * M * T (xs.map RF2.val)
        + 13 * r.u * M * R₀ * W (xs.map RF2.val)
        + 30 * ((xs.length : K) + 10)^2 * r.u^2 * M^2 * R₀
        + 16 * ((xs.length : K) + 10)^4 * r.u^3 * M^3 := by
  have hu := r.u_nonneg
  have hn0 : (0 : K) ≤ xs.length := Nat.cast_nonneg _
  have hlen : (xs.map RF2.val).length = xs.length := by simp
  have hW0 := W_nonneg (xs.map RF2.val)
  have hWR : W (xs.map RF2.val) ≤ R₀ := W_le _ R₀ hR (by rw [hlen]; exact hRT)
  by_cases hnil : xs = []
  · subst hnil
    rw [mfold_new_m1]
    simp only [List.map_nil, U_nil, sub_self, abs_zero, List.length_nil, Nat.cast_zero, zero_add]
    have := V3m_nonneg ([] : List K)
    have := T_nonneg ([] : List K)
    have := W_nonneg ([] : List K)
    positivity
  have hn1 : (1 : K) ≤ xs.length := by
    exact_mod_cast List.length_pos_of_ne_nil hnil
  have hu1856 : r.u ≤ 1/1856 := by nlinarith
  have hnu : (xs.length : K) * r.u ≤ 1/64 := by nlinarith
  have main := mom3_fold_error_sharp_W hneg N hN M hM xs hb hsmall R₀ hR hRT
  refine le_trans main ?_
  obtain ⟨hP, hP1⟩ := lead2_le r.u hu xs.length hnu
  exact numM_arith_W _ _ _ r.u M _ _ R₀ _ _ _ hu hM hn0 (T_nonneg _) hR hW0 hWR (VAM_nonneg _)
    (VB_nonneg _) (g_nonneg hu 18) (g_nonneg hu 6) (by positivity) hP hP1 (g18_le r.u hu hu1856)
    (g6_le r.u hu hu1856) hu1856 hnu

end fold

/-- the bound of the error of `m[1]` after `i` observations of the stream `vs` (exactly 0 before the first) -/
def HsharpM (u M R₀ : K) (vs : List K) (i : ℕ) : K :=
  if i = 0 then 0 else
    10 * ((i : K) + 10) * u * V3m (vs.take i) + 11 * ((i : K) + 10) * u * M * T (vs.take i)
      + 13 * u * M * R₀ * W (vs.take i)
      + 30 * ((i : K) + 10)^2 * u^2 * M^2 * R₀ + 16 * ((i : K) + 10)^4 * u^3 * M^3

theorem HsharpM_nonneg {u M R₀ : K} (hu : 0 ≤ u) (hM : 0 ≤ M) (hR : 0 ≤ R₀) (vs : List K) (i : ℕ) :
    0 ≤ HsharpM u M R₀ vs i := by
  have := T_nonneg (vs.take i)
  have := V3m_nonneg (vs.take i)
  have := W_nonneg (vs.take i)
  unfold HsharpM
  split_ifs
  · exact le_refl _
  · positivity

section fold
variable {r : Rnd2 K} [Neg (RF2 r)]

/-- the hypothesis of the general theorem on `m[1]`, from `mom3_fold_error_num_W`, with the `R₀` of the whole
stream for every prefix -/
theorem m1_prefix_W (hneg : NegExact r) (N : Nat) (hN : 3 ≤ N) (M : K) (hM : 0 ≤ M) (xs : List (RF2 r))
    (hb : ∀ x ∈ xs, |x.val| ≤ M) (hsmall : ((xs.length : K) + 28) * r.u ≤ 1/64)
    (R₀ : K) (hR : 0 ≤ R₀) (hRT : (xs.length : K) * T (xs.map RF2.val) ≤ R₀^2) :
    ∀ ys, ys <+: xs →
      |(mfold N ys).m1.val - U (ys.map RF2.val)| ≤ HsharpM r.u M R₀ (xs.map RF2.val) ys.length := by
  intro ys hys
  have hu := r.u_nonneg
  by_cases hnil : ys = []
  · subst hnil
    rw [mfold_new_m1]
    simp [HsharpM, U_nil]
  have hne : ys.length ≠ 0 := by
    intro h; exact hnil (List.length_eq_zero_iff.mp h)
  have hlen : (ys.length : K) ≤ xs.length := by exact_mod_cast hys.length_le
  have hl0 : (0 : K) ≤ ys.length := Nat.cast_nonneg _
  have htake : ys.map RF2.val = (xs.map RF2.val).take ys.length := by
    have := List.prefix_iff_eq_take.mp hys
    rw [← List.map_take, ← this]
  have hTle : T (ys.map RF2.val) ≤ T (xs.map RF2.val) := by
    rw [htake]; exact T_take_le _ _
  have hT0 := T_nonneg (ys.map RF2.val)
  have hRT' : (ys.length : K) * T (ys.map RF2.val) ≤ R₀^2 := by
    calc (ys.length : K) * T (ys.map RF2.val) ≤ (xs.length : K) * T (xs.map RF2.val) := by gcongr
      _ ≤ R₀^2 := hRT
  have h := mom3_fold_error_num_W hneg N hN M hM ys (fun y hy => hb y (hys.subset hy)) (by nlinarith)
    R₀ hR hRT'
  refine le_trans h (le_of_eq ?_)
  unfold HsharpM
  rw [if_neg hne, ← htake]

end fold

/-- `V3m` of a prefix is at most `V3m` of the whole stream -/
theorem V3m_take_le (vs : List K) (i : ℕ) : V3m (vs.take i) ≤ V3m vs := by
  induction vs using List.reverseRecOn with
  | nil => simp
  | append_singleton vs x ih =>
    rcases Nat.lt_or_ge vs.length i with h | h
    · rw [List.take_of_length_le (by simp; omega)]
    · rw [List.take_append_of_le_length h]
      exact le_trans ih (V3m_mono vs x)

/-- the bound `HsharpM` of the error of `m[1]` in the form required by the sums of the fourth order:
`(i+10)² ≤ 11·i·N` and `(i+10)⁴ ≤ 11·i·N³` for `1 ≤ i`, `i + 10 ≤ N` -/
theorem HsharpM_le (u M R₀ : K) (hu : 0 ≤ u) (hM : 0 ≤ M) (hR : 0 ≤ R₀) (vs : List K) (i : ℕ)
    (Nn : K) (hN : (i : K) + 10 ≤ Nn) :
    HsharpM u M R₀ vs i ≤ if i = 0 then 0 else
      (10 * u) * Nn * V3m (vs.take i) + (11 * u * M) * Nn * T (vs.take i)
        + (13 * u * M * R₀) * W (vs.take i)
        + (330 * Nn * u^2 * M^2 * R₀ + 176 * Nn^3 * u^3 * M^3) * i := by
  unfold HsharpM
  split_ifs with h0
  · exact le_refl _
  · have hi1 : (1 : K) ≤ i := by exact_mod_cast Nat.one_le_iff_ne_zero.mpr h0
    have hV := V3m_nonneg (vs.take i)
    have hT := T_nonneg (vs.take i)
    have hi10 : (0 : K) ≤ (i : K) + 10 := by linarith
    have hN0 : 0 ≤ Nn := le_trans hi10 hN
    have h11 : (i : K) + 10 ≤ 11 * i := by linarith
    have e1 : 10 * ((i : K) + 10) * u * V3m (vs.take i) ≤ (10 * u) * Nn * V3m (vs.take i) := by
      calc 10 * ((i : K) + 10) * u * V3m (vs.take i) = (10 * u) * ((i : K) + 10) * V3m (vs.take i) := by
            ring
        _ ≤ (10 * u) * Nn * V3m (vs.take i) := by gcongr
    have e2 : 11 * ((i : K) + 10) * u * M * T (vs.take i) ≤ (11 * u * M) * Nn * T (vs.take i) := by
      calc 11 * ((i : K) + 10) * u * M * T (vs.take i)
          = (11 * u * M) * ((i : K) + 10) * T (vs.take i) := by ring
        _ ≤ (11 * u * M) * Nn * T (vs.take i) := by gcongr
    have e3 : 30 * ((i : K) + 10)^2 * u^2 * M^2 * R₀ ≤ (330 * Nn * u^2 * M^2 * R₀) * i := by
      calc 30 * ((i : K) + 10)^2 * u^2 * M^2 * R₀
          = 30 * (((i : K) + 10) * ((i : K) + 10)) * u^2 * M^2 * R₀ := by ring
        _ ≤ 30 * ((11 * (i : K)) * Nn) * u^2 * M^2 * R₀ := by gcongr
        _ = (330 * Nn * u^2 * M^2 * R₀) * i := by ring
    have e4 : 16 * ((i : K) + 10)^4 * u^3 * M^3 ≤ (176 * Nn^3 * u^3 * M^3) * i := by
      calc 16 * ((i : K) + 10)^4 * u^3 * M^3
          = 16 * (((i : K) + 10) * ((i : K) + 10)^3) * u^3 * M^3 := by ring
        _ ≤ 16 * ((11 * (i : K)) * Nn^3) * u^3 * M^3 := by gcongr
        _ = (176 * Nn^3 * u^3 * M^3) * i := by ring
    have e5 : 13 * u * M * R₀ * W (vs.take i) = (13 * u * M * R₀) * W (vs.take i) := by ring
    linarith

end MomN4Err

#print axioms MomN4Err.mom3_fold_error_num_W
#print axioms MomN4Err.m1_prefix_W
