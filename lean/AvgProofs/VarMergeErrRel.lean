import AvgProofs.VarErrRel
import Mathlib.Tactic.NormNum

/-!
# The rounded cross term of `Variance.merge` under the standard model of rounding

`Variance.merge` adds `delta*delta * len_self * len_other / len_total` with `delta = o.mean - s.mean`
and `len_total = len_self + len_other` (a rounded addition of exactly converted counts): six
rounded operations (the rounded `delta` enters twice). `VarMerge.cross_term_error`: the computed value is within relative error
`η = (1+u)^6/(1-u) - 1` of `I = (b - a)²·n_x·n_y/(n_x+n_y) ≥ 0` (`a`, `b` the *computed* means), and
`η ≤ 7.5·u` for `u ≤ 1/64` (`VarMerge.eta_le`).
-/
variable {K : Type} [Field K] [LinearOrder K] [IsStrictOrderedRing K]

namespace VarMerge

/-- relative error of the computed cross term: six factors `(1+u)` from the numerator chain (the rounded
`delta` twice, the three products) and the final quotient, one factor `1/(1-u)` from the rounded sum of
the counts in the denominator -/
def eta (u : K) : K := (1 + u)^6 / (1 - u) - 1

theorem eta_nonneg {u : K} (hu : 0 ≤ u) (hu1 : u < 1) : 0 ≤ eta u := by
  have h6 := RE.one_le_pow hu 6
  have hD : 0 < 1 - u := by linarith
  unfold eta
  rw [sub_nonneg, le_div_iff₀ hD]
  linarith

/-- `η ≤ 7.5·u` for `u ≤ 1/64` -/
theorem eta_le (u : K) (hu : 0 ≤ u) (h : u ≤ 1/64) : eta u ≤ 15/2 * u := by
  have hD : 0 < 1 - u := by linarith
  have h2 : (1 + u)^2 ≤ 1 + 129/64 * u := by nlinarith
  have h3 : (1 + u)^3 ≤ 1 + 49/16 * u := by
    have : (1 + u)^3 = (1 + u)^2 * (1 + u) := by ring
    rw [this]
    calc (1 + u)^2 * (1 + u) ≤ (1 + 129/64 * u) * (1 + u) := by gcongr
      _ ≤ 1 + 49/16 * u := by nlinarith
  have h6 : (1 + u)^6 ≤ 1 + 63/10 * u := by
    have : (1 + u)^6 = ((1 + u)^3)^2 := by ring
    rw [this]
    calc ((1 + u)^3)^2 ≤ (1 + 49/16 * u)^2 := by gcongr
      _ ≤ 1 + 63/10 * u := by nlinarith
  unfold eta
  rw [sub_le_iff_le_add, div_le_iff₀ hD]
  nlinarith

/-- `(1+η)² ≤ 32/25` for `u ≤ 1/64` (what the AM-GM step of the merge-tree induction needs) -/
theorem eta_sq_le (u : K) (hu : 0 ≤ u) (h : u ≤ 1/64) : (1 + eta u)^2 ≤ 32/25 := by
  have h1 := eta_le u hu h
  have h0 := eta_nonneg hu (by linarith : u < 1)
  calc (1 + eta u)^2 ≤ (143/128)^2 := by gcongr; linarith
    _ ≤ 32/25 := by norm_num

/-- **The rounded cross term of `Variance.merge`.** With `δ = fl(b - a)` the computed
`fl(fl(fl(fl(δ·δ)·n_x)·n_y)/fl(n_x+n_y))` is within relative error `η = (1+u)^6/(1-u) - 1` of
`I = (b - a)²·(n_x·n_y/(n_x+n_y))`, and `I ≥ 0`. -/
theorem cross_term_error (fl : K → K) (u : K) (hu : 0 ≤ u) (hu1 : u < 1)
    (hfl : ∀ t, |fl t - t| ≤ u * |t|) (a b nx ny : K) (hnx : 0 < nx) (hny : 0 < ny) :
    let δ := fl (b - a)
    let I := (b - a)^2 * (nx * ny / (nx + ny))
    0 ≤ I ∧ |fl (fl (fl (fl (δ * δ) * nx) * ny) / fl (nx + ny)) - I| ≤ eta u * I := by
  intro δ I
  have hI : 0 ≤ I := by positivity
  refine ⟨hI, ?_⟩
  have hD : 0 < 1 - u := by linarith
  set n := nx + ny with hn
  have hnpos : 0 < n := by positivity
  have h1 : RE u 1 δ (b - a) := (RE.refl u (b - a)).round fl hu hfl
  have h2 : RE u 2 (δ * δ) ((b - a) * (b - a)) := h1.mul hu h1
  have h3 := h2.round fl hu hfl
  have h4 := (h3.mul hu (RE.refl u nx)).round fl hu hfl
  have h5 := (h4.mul hu (RE.refl u ny)).round fl hu hfl
  set p := fl (fl (fl (δ * δ) * nx) * ny) with hp
  set p0 := (b - a) * (b - a) * nx * ny with hp0
  have hp0n : 0 ≤ p0 := by
    have : p0 = (b - a)^2 * nx * ny := by rw [hp0]; ring
    rw [this]; positivity
  have hI0 : I = p0 / n := by simp only [I, hp0, hn]; field_simp
  -- numerator: five roundings
  have e5 : |p - p0| ≤ ((1 + u)^5 - 1) * p0 := by
    have := h5
    unfold RE at this
    rw [abs_of_nonneg hp0n] at this
    exact this
  have hpb : |p| ≤ (1 + u)^5 * p0 := by
    have := RE.abs_le h5
    rwa [abs_of_nonneg hp0n] at this
  -- the rounded count
  set N := fl n with hN
  have e4 : |N - n| ≤ u * n := by
    have := hfl n
    rwa [abs_of_pos hnpos] at this
  have hNlow : n * (1 - u) ≤ N := by
    have := (abs_le.mp e4).1
    linarith
  have hnD : 0 < n * (1 - u) := by positivity
  have hNpos : 0 < N := lt_of_lt_of_le hnD hNlow
  -- the exact quotient of the computed quantities
  have hmid : |p / N - p0 / n| ≤ ((1 + u)^5 - 1 + u) * p0 / (n * (1 - u)) := by
    have : p / N - p0 / n = ((p - p0) * n - p0 * (N - n)) / (N * n) := by
      field_simp; ring
    rw [this, abs_div, abs_of_pos (mul_pos hNpos hnpos)]
    have hnum : |(p - p0) * n - p0 * (N - n)| ≤ ((1 + u)^5 - 1 + u) * p0 * n := by
      calc _ ≤ |(p - p0) * n| + |p0 * (N - n)| := abs_sub _ _
        _ = |p - p0| * n + p0 * |N - n| := by
            rw [abs_mul, abs_mul, abs_of_pos hnpos, abs_of_nonneg hp0n]
        _ ≤ (((1 + u)^5 - 1) * p0) * n + p0 * (u * n) := by gcongr
        _ = ((1 + u)^5 - 1 + u) * p0 * n := by ring
    have h50 : 0 ≤ (1 + u)^5 - 1 + u := by
      have := RE.one_le_pow hu 5
      linarith
    have hnum0 : 0 ≤ ((1 + u)^5 - 1 + u) * p0 * n := by positivity
    calc _ ≤ (((1 + u)^5 - 1 + u) * p0 * n) / ((n * (1 - u)) * n) := by gcongr
      _ = ((1 + u)^5 - 1 + u) * p0 / (n * (1 - u)) := by field_simp
  have hq : |p / N| ≤ (1 + u)^5 * p0 / (n * (1 - u)) := by
    rw [abs_div, abs_of_pos hNpos]
    have : 0 ≤ (1 + u)^5 * p0 := by positivity
    gcongr
  have e6 : |fl (p / N) - p / N| ≤ u * ((1 + u)^5 * p0 / (n * (1 - u))) := by
    refine le_trans (hfl _) ?_
    gcongr
  have : fl (p / N) - I = (fl (p / N) - p / N) + (p / N - p0 / n) := by rw [hI0]; ring
  rw [this]
  calc _ ≤ |fl (p / N) - p / N| + |p / N - p0 / n| := abs_add_le _ _
    _ ≤ u * ((1 + u)^5 * p0 / (n * (1 - u))) + ((1 + u)^5 - 1 + u) * p0 / (n * (1 - u)) := by
        linarith
    _ = eta u * I := by
        rw [hI0]; unfold eta; field_simp; ring

end VarMerge

#print axioms VarMerge.cross_term_error
#print axioms VarMerge.eta_le
