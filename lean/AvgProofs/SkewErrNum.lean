import AvgProofs.SkewErrLin

/-!
# Forward error of the third-order sum of `Skewness.add`: numerals

`skew_fold_error_num`: `|x_i| ≤ M`, `(n+28)·u ≤ 1/64`, `n·T ≤ R₀²`, `N = n + 10`:

`|sum_3 - U| ≤ 7·N·u·V3p + 11·N·u·M·T + 13·u·M·R₀² + 30·N²·u²·M²·R₀ + 16·N⁴·u³·M³`.
-/
open Avg MSpec Finset VarSpec SkewSpec VarErr

namespace SkewErr
variable {K : Type} [Field K] [LinearOrder K] [IsStrictOrderedRing K]

theorem pow4_le (u : K) (hu : 0 ≤ u) (h : u ≤ 1/1856) : (1 + u)^4 ≤ 1 + 401/100 * u := by
  have h2 : (1 + u)^2 ≤ 1 + 2001/1000 * u := by nlinarith
  have : (1 + u)^4 = ((1 + u)^2)^2 := by ring
  rw [this]
  calc ((1 + u)^2)^2 ≤ (1 + 2001/1000 * u)^2 := by gcongr
    _ ≤ 1 + 401/100 * u := by nlinarith

/-- five roundings cost at most `5.1·u` relative, for `u ≤ 1/1856` -/
theorem g5_le (u : K) (hu : 0 ≤ u) (h : u ≤ 1/1856) : g u 5 ≤ 51/10 * u := by
  have h4 := pow4_le u hu h
  have : (1 + u)^5 = (1 + u)^4 * (1 + u) := by ring
  unfold g; rw [this]
  have : (1 + u)^4 * (1 + u) ≤ (1 + 401/100 * u) * (1 + u) := by gcongr
  nlinarith

/-- twelve roundings cost at most `12.1·u` relative, for `u ≤ 1/1856` -/
theorem g12_le (u : K) (hu : 0 ≤ u) (h : u ≤ 1/1856) : g u 12 ≤ 121/10 * u := by
  have h4 := pow4_le u hu h
  have h40 : 0 ≤ (1 + u)^4 := by positivity
  have h8 : (1 + u)^8 ≤ 1 + 803/100 * u := by
    have : (1 + u)^8 = ((1 + u)^4)^2 := by ring
    rw [this]
    calc ((1 + u)^4)^2 ≤ (1 + 401/100 * u)^2 := by gcongr
      _ ≤ 1 + 803/100 * u := by nlinarith
  have : (1 + u)^12 = (1 + u)^8 * (1 + u)^4 := by ring
  unfold g; rw [this]
  have : (1 + u)^8 * (1 + u)^4 ≤ (1 + 803/100 * u) * (1 + 401/100 * u) := by gcongr
  nlinarith

/-- the last algebraic step of `skew_fold_error_num` -/
theorem num_arith (P g12 g5 u M n Tn R₀ VA VB : K) (hu : 0 ≤ u) (hM : 0 ≤ M) (hn : 0 ≤ n)
    (hT : 0 ≤ Tn) (hR : 0 ≤ R₀) (hVA : 0 ≤ VA) (hVB : 0 ≤ VB) (hg12 : 0 ≤ g12) (hg5 : 0 ≤ g5)
    (_hP0 : 0 ≤ P) (hP : P ≤ 33/32) (hg12' : g12 ≤ 121/10 * u) (hg5' : g5 ≤ 51/10 * u)
    (hu' : u ≤ 1/1856) (hnu : n * u ≤ 1/64) :
    P * (g12 * VA + (g5 + (1 + g5) * ((109/20 * u) * n)) * VB
          + (1 + g12) * (3 * (65/128 * u * M * (n + 37/4))) * Tn
          + ((1 + g12) * (3 * (65/128 * u * M * (n + 37/4))^2)
              + (1 + g5) * (3 * ((79/20 * u * M * R₀) + (15/4 * u^2 * M^2) * n^2))) * R₀
          + ((1 + g12) * (65/128 * u * M * (n + 37/4))^3
              + (1 + g5) * (3 * (41/8 * (65/128 * u * M)) * Tn)) * n
          + (1 + g5) * (3 * (41/8 * (65/128 * u * M))
              * ((109/20 * u) * Tn + (79/20 * u * M * R₀) + (15/4 * u^2 * M^2) * n^2)) * (n^2 / 2)
          + n * u * (VA + VB))
      ≤ 7 * (n + 10) * u * (VA + VB) + 11 * (n + 10) * u * M * Tn + 13 * u * M * R₀^2
        + 30 * (n + 10)^2 * u^2 * M^2 * R₀ + 16 * (n + 10)^4 * u^3 * M^3 := by
  have h1g12 : 1 + g12 ≤ 101/100 := by linarith
  have h1g5 : 1 + g5 ≤ 101/100 := by linarith
  -- step 1: numerical values for the rounding factors
  have step1 : P * (g12 * VA + (g5 + (1 + g5) * ((109/20 * u) * n)) * VB
          + (1 + g12) * (3 * (65/128 * u * M * (n + 37/4))) * Tn
          + ((1 + g12) * (3 * (65/128 * u * M * (n + 37/4))^2)
              + (1 + g5) * (3 * ((79/20 * u * M * R₀) + (15/4 * u^2 * M^2) * n^2))) * R₀
          + ((1 + g12) * (65/128 * u * M * (n + 37/4))^3
              + (1 + g5) * (3 * (41/8 * (65/128 * u * M)) * Tn)) * n
          + (1 + g5) * (3 * (41/8 * (65/128 * u * M))
              * ((109/20 * u) * Tn + (79/20 * u * M * R₀) + (15/4 * u^2 * M^2) * n^2)) * (n^2 / 2)
          + n * u * (VA + VB))
      ≤ 33/32 * ((121/10 * u) * VA + (51/10 * u + 101/100 * ((109/20 * u) * n)) * VB
          + 101/100 * (3 * (65/128 * u * M * (n + 37/4))) * Tn
          + (101/100 * (3 * (65/128 * u * M * (n + 37/4))^2)
              + 101/100 * (3 * ((79/20 * u * M * R₀) + (15/4 * u^2 * M^2) * n^2))) * R₀
          + (101/100 * (65/128 * u * M * (n + 37/4))^3
              + 101/100 * (3 * (41/8 * (65/128 * u * M)) * Tn)) * n
          + 101/100 * (3 * (41/8 * (65/128 * u * M))
              * ((109/20 * u) * Tn + (79/20 * u * M * R₀) + (15/4 * u^2 * M^2) * n^2)) * (n^2 / 2)
          + n * u * (VA + VB)) := by
    gcongr
  refine le_trans step1 ?_
  -- step 2: monomial by monomial
  have hn2u : n * u * (n * (u * M * Tn)) ≤ 1/64 * (n * (u * M * Tn)) := by
    have : 0 ≤ n * (u * M * Tn) := by positivity
    exact mul_le_mul_of_nonneg_right hnu this
  have m1 : 0 ≤ u * VA := by positivity
  have m1n : 0 ≤ n * (u * VA) := by positivity
  have m2 : 0 ≤ u * VB := by positivity
  have m2n : 0 ≤ n * (u * VB) := by positivity
  have m3 : 0 ≤ u * M * Tn := by positivity
  have m3n : 0 ≤ n * (u * M * Tn) := by positivity
  have m4 : 0 ≤ u * M * R₀^2 := by positivity
  have m5 : 0 ≤ u^2 * M^2 * R₀ := by positivity
  have m5n : 0 ≤ n * (u^2 * M^2 * R₀) := by positivity
  have m5n2 : 0 ≤ n^2 * (u^2 * M^2 * R₀) := by positivity
  have m6 : 0 ≤ u^3 * M^3 := by positivity
  have m6n : 0 ≤ n * (u^3 * M^3) := by positivity
  have m6n2 : 0 ≤ n^2 * (u^3 * M^3) := by positivity
  have m6n3 : 0 ≤ n^3 * (u^3 * M^3) := by positivity
  have m6n4 : 0 ≤ n^4 * (u^3 * M^3) := by positivity
  linarith

/-- **Forward error of `sum_3`, numerals.** `|x_i| ≤ M`, `(n+28)·u ≤ 1/64`, any `R₀ ≥ 0` with
`n·T ≤ R₀²`, `N = n + 10`:
`|sum_3 - U| ≤ 7·N·u·V3p + 11·N·u·M·T + 13·u·M·R₀² + 30·N²·u²·M²·R₀ + 16·N⁴·u³·M³`. -/
theorem skew_fold_error_num (r : Rnd2 K) (M : K) (hM : 0 ≤ M) (xs : List (RF2 r))
    (hb : ∀ x ∈ xs, |x.val| ≤ M) (hsmall : ((xs.length : K) + 28) * r.u ≤ 1/64)
    (R₀ : K) (hR : 0 ≤ R₀) (hRT : (xs.length : K) * T (xs.map RF2.val) ≤ R₀^2) :
    |(xs.foldl Skewness.add Skewness.new).sum_3.val - U (xs.map RF2.val)|
      ≤ 7 * ((xs.length : K) + 10) * r.u * V3p (xs.map RF2.val)
        + 11 * ((xs.length : K) + 10) * r.u * M * T (xs.map RF2.val)
        + 13 * r.u * M * R₀^2
        + 30 * ((xs.length : K) + 10)^2 * r.u^2 * M^2 * R₀
        + 16 * ((xs.length : K) + 10)^4 * r.u^3 * M^3 := by
  have hu := r.u_nonneg
  have hn0 : (0 : K) ≤ xs.length := Nat.cast_nonneg _
  by_cases hnil : xs = []
  · subst hnil
    have h0 : (Skewness.new : Skewness (RF2 r)).sum_3.val = 0 :=
      (Nat.cast_zero : ((0 : ℕ) : K) = 0)
    simp only [List.foldl_nil, h0, List.map_nil, U_nil, sub_self, abs_zero, List.length_nil,
      Nat.cast_zero, zero_add]
    have := V3p_nonneg ([] : List K)
    have := T_nonneg ([] : List K)
    positivity
  have hn1 : (1 : K) ≤ xs.length := by
    exact_mod_cast List.length_pos_of_ne_nil hnil
  have hu1856 : r.u ≤ 1/1856 := by nlinarith
  have hnu : (xs.length : K) * r.u ≤ 1/64 := by nlinarith
  have main := skew_fold_error_sharp r M hM xs hb hsmall R₀ hR hRT
  refine le_trans main ?_
  have hP : (1 + r.u)^xs.length ≤ 33/32 := by
    have := one_add_pow_le r.u hu xs.length (by linarith)
    linarith
  exact num_arith _ _ _ r.u M _ _ R₀ _ _ hu hM hn0 (T_nonneg _) hR (VA_nonneg _) (VB_nonneg _)
    (g_nonneg hu 12) (g_nonneg hu 5) (by positivity) hP (g12_le r.u hu hu1856)
    (g5_le r.u hu hu1856) hu1856 hnu

end SkewErr

#print axioms SkewErr.skew_fold_error_num
