import AvgProofs.MeanErr2
import AvgProofs.MTree
import AvgProofs.MergeEmpty

/-!
# Forward error of the mean through `merge` and through every merge tree (R2 carrier)

`Mean.merge` computes `avg' = (n_a * a + n_b * b) / (n_a + n_b)`: at the R2 carrier (`RF2 r`: every
`+ - * /` is followed by a rounding `fl` with `|fl t - t| ≤ u |t|`, counts are converted exactly) that
is five rounded operations - two products, their sum, the sum of the two counts, the quotient.

* `merge_round_error`: these five roundings move the result by at most `A u (4 + 3u + u²)/(1 - u)`
  away from the exactly computed `(n_a a + n_b b)/(n_a + n_b)`, when `|a|, |b| ≤ A`
  (`≤ 5 u A` for `u ≤ 1/9`: `merge_round_error_5`).
* `mean_merge_error`: one merge step keeps an error budget of `B` per observation: the exact merged
  mean is a convex combination, `(n_a·B n_a + n_b·B n_b)/n ≤ B (n - 1)` for `n_a, n_b ≥ 1`, which leaves
  a slack `B` for the five roundings.
* `mean_mtree_error_gen`, `mean_mtree_error`, `mean_mtree_error_same_const`: every merge tree.
-/
open Avg
variable {K : Type} [Field K] [LinearOrder K] [IsStrictOrderedRing K]

/-- The five roundings of `fl(fl(fl(na·a) + fl(nb·b)) / fl(na + nb))`. -/
theorem merge_round_error
    (fl : K → K) (u : K) (hu0 : 0 ≤ u) (hu1 : u < 1) (hfl : ∀ t, |fl t - t| ≤ u * |t|)
    (A a b na nb : K) (hna : 0 < na) (hnb : 0 < nb) (ha : |a| ≤ A) (hb : |b| ≤ A) :
    |fl (fl (fl (na * a) + fl (nb * b)) / fl (na + nb)) - (na * a + nb * b) / (na + nb)|
      ≤ A * u * (4 + 3*u + u^2) / (1 - u) := by
  have hA : 0 ≤ A := le_trans (abs_nonneg _) ha
  have hD : 0 < 1 - u := by linarith
  set n := na + nb with hn
  have hnpos : 0 < n := by positivity
  set S0 := na * a + nb * b with hS0
  set p1 := fl (na * a) with hp1
  set p2 := fl (nb * b) with hp2
  set s := fl (p1 + p2) with hs
  set N := fl n with hN
  -- products
  have e1 : |p1 - na * a| ≤ u * (na * A) := by
    refine le_trans (hfl _) ?_
    rw [abs_mul, abs_of_pos hna]; gcongr
  have e2 : |p2 - nb * b| ≤ u * (nb * A) := by
    refine le_trans (hfl _) ?_
    rw [abs_mul, abs_of_pos hnb]; gcongr
  have hS0b : |S0| ≤ n * A := by
    calc |S0| ≤ |na * a| + |nb * b| := abs_add_le _ _
      _ = na * |a| + nb * |b| := by rw [abs_mul, abs_mul, abs_of_pos hna, abs_of_pos hnb]
      _ ≤ na * A + nb * A := by gcongr
      _ = n * A := by rw [hn]; ring
  have h12 : |p1 + p2| ≤ (1 + u) * (n * A) := by
    have : p1 + p2 = S0 + ((p1 - na * a) + (p2 - nb * b)) := by rw [hS0]; ring
    rw [this]
    calc _ ≤ |S0| + |(p1 - na * a) + (p2 - nb * b)| := abs_add_le _ _
      _ ≤ |S0| + (|p1 - na * a| + |p2 - nb * b|) := by gcongr; exact abs_add_le _ _
      _ ≤ n * A + (u * (na * A) + u * (nb * A)) := by linarith
      _ = (1 + u) * (n * A) := by rw [hn]; ring
  have e3 : |s - (p1 + p2)| ≤ u * ((1 + u) * (n * A)) := by
    refine le_trans (hfl _) ?_
    gcongr
  have hsS : |s - S0| ≤ (2*u + u^2) * (n * A) := by
    have : s - S0 = (s - (p1 + p2)) + ((p1 - na * a) + (p2 - nb * b)) := by rw [hS0]; ring
    rw [this]
    calc _ ≤ |s - (p1 + p2)| + |(p1 - na * a) + (p2 - nb * b)| := abs_add_le _ _
      _ ≤ |s - (p1 + p2)| + (|p1 - na * a| + |p2 - nb * b|) := by gcongr; exact abs_add_le _ _
      _ ≤ u * ((1 + u) * (n * A)) + (u * (na * A) + u * (nb * A)) := by linarith
      _ = (2*u + u^2) * (n * A) := by rw [hn]; ring
  have hsb : |s| ≤ (1 + u)^2 * (n * A) := by
    have : s = (s - (p1 + p2)) + (p1 + p2) := by ring
    rw [this]
    calc _ ≤ |s - (p1 + p2)| + |p1 + p2| := abs_add_le _ _
      _ ≤ u * ((1 + u) * (n * A)) + (1 + u) * (n * A) := by linarith
      _ = (1 + u)^2 * (n * A) := by ring
  -- the rounded count
  have e4 : |N - n| ≤ u * n := by
    have := hfl n
    rwa [abs_of_pos hnpos] at this
  have hNlow : n * (1 - u) ≤ N := by
    have := (abs_le.mp e4).1
    linarith
  have hnD : 0 < n * (1 - u) := by positivity
  have hNpos : 0 < N := lt_of_lt_of_le hnD hNlow
  -- the quotient
  have hsN : |s / N| ≤ (1 + u)^2 * A / (1 - u) := by
    rw [abs_div, abs_of_pos hNpos]
    calc |s| / N ≤ ((1 + u)^2 * (n * A)) / (n * (1 - u)) := by gcongr
      _ = (1 + u)^2 * A / (1 - u) := by field_simp
  have e5 : |fl (s / N) - s / N| ≤ u * ((1 + u)^2 * A / (1 - u)) := by
    refine le_trans (hfl _) ?_
    gcongr
  have hmid : |s / N - S0 / n| ≤ (3*u + u^2) * A / (1 - u) := by
    have : s / N - S0 / n = (n * (s - S0) - S0 * (N - n)) / (N * n) := by
      field_simp; ring
    rw [this, abs_div, abs_of_pos (mul_pos hNpos hnpos)]
    have hnum : |n * (s - S0) - S0 * (N - n)| ≤ (3*u + u^2) * A * (n * n) := by
      calc _ ≤ |n * (s - S0)| + |S0 * (N - n)| := abs_sub _ _
        _ = n * |s - S0| + |S0| * |N - n| := by rw [abs_mul, abs_mul, abs_of_pos hnpos]
        _ ≤ n * ((2*u + u^2) * (n * A)) + (n * A) * (u * n) := by gcongr
        _ = (3*u + u^2) * A * (n * n) := by ring
    have hnum0 : 0 ≤ (3*u + u^2) * A * (n * n) := by positivity
    calc _ ≤ ((3*u + u^2) * A * (n * n)) / ((n * (1 - u)) * n) := by gcongr
      _ = (3*u + u^2) * A / (1 - u) := by field_simp
  have : fl (s / N) - S0 / n = (fl (s / N) - s / N) + (s / N - S0 / n) := by ring
  rw [this]
  calc _ ≤ |fl (s / N) - s / N| + |s / N - S0 / n| := abs_add_le _ _
    _ ≤ u * ((1 + u)^2 * A / (1 - u)) + (3*u + u^2) * A / (1 - u) := by linarith
    _ = A * u * (4 + 3*u + u^2) / (1 - u) := by field_simp; ring

/-- For `u ≤ 1/9` the five roundings cost at most `5 u A`. -/
theorem merge_round_error_5
    (fl : K → K) (u : K) (hu0 : 0 ≤ u) (hu1 : u ≤ 1/9) (hfl : ∀ t, |fl t - t| ≤ u * |t|)
    (A a b na nb : K) (hna : 0 < na) (hnb : 0 < nb) (ha : |a| ≤ A) (hb : |b| ≤ A) :
    |fl (fl (fl (na * a) + fl (nb * b)) / fl (na + nb)) - (na * a + nb * b) / (na + nb)|
      ≤ 5 * u * A := by
  have hA : 0 ≤ A := le_trans (abs_nonneg _) ha
  have hD : 0 < 1 - u := by linarith
  refine le_trans (merge_round_error fl u hu0 (by linarith) hfl A a b na nb hna hnb ha hb) ?_
  rw [div_le_iff₀ hD]
  have h1 : 4 + 3*u + u^2 ≤ 5 * (1 - u) := by nlinarith
  have h2 : 0 ≤ A * u := by positivity
  calc A * u * (4 + 3*u + u^2) ≤ A * u * (5 * (1 - u)) := by gcongr
    _ = 5 * u * A * (1 - u) := by ring

/-- The exact mean of a concatenation is the convex combination of the means of the parts. -/
theorem meanK_append (xs ys : List K) (hx : xs ≠ []) (hy : ys ≠ []) :
    meanK (xs ++ ys)
      = ((xs.length : K) * meanK xs + (ys.length : K) * meanK ys) / ((xs.length : K) + (ys.length : K)) := by
  have h1 : (xs.length : K) ≠ 0 := by simp [hx]
  have h2 : (ys.length : K) ≠ 0 := by simp [hy]
  unfold meanK
  rw [List.sum_append, List.length_append, Nat.cast_add]
  field_simp

/-- `Mean.merge` of two non-empty states at the R2 carrier: five rounded operations. -/
theorem Mean.merge_avg_val (r : Rnd2 K) (a b : Mean (RF2 r)) (ha : a.n ≠ 0) (hb : b.n ≠ 0) :
    (a.merge b).avg.val
      = r.fl (r.fl (r.fl ((a.n : K) * a.avg.val) + r.fl ((b.n : K) * b.avg.val))
          / r.fl ((a.n : K) + (b.n : K))) := by
  rw [Mean.merge, if_neg hb, if_neg ha]; rfl

/-- **One merge step.** `a`, `b` are `Mean` states (R2 carrier) that summarise the chunks `xs`, `ys`
(exact counts; all `|x| ≤ M`) with an error of at most `B` per observation. If `u ≤ 1/9` and
`5 u (M + B n) ≤ B` for the total count `n`, the merged state summarises `xs ++ ys` with an error of at
most `B` per observation. Empty chunks (the early returns of `merge`) included. -/
theorem mean_merge_error (r : Rnd2 K) (M B : K) (hM : 0 ≤ M) (hB : 0 ≤ B) (hu : r.u ≤ 1/9)
    (a b : Mean (RF2 r)) (xs ys : List K)
    (hxs : ∀ x ∈ xs, |x| ≤ M) (hys : ∀ y ∈ ys, |y| ≤ M)
    (han : a.n = xs.length) (hbn : b.n = ys.length)
    (hae : |a.avg.val - meanK xs| ≤ B * (xs.length : K))
    (hbe : |b.avg.val - meanK ys| ≤ B * (ys.length : K))
    (hsmall : 5 * r.u * (M + B * ((xs ++ ys).length : K)) ≤ B) :
    (a.merge b).n = (xs ++ ys).length ∧
    |(a.merge b).avg.val - meanK (xs ++ ys)| ≤ B * ((xs ++ ys).length : K) := by
  by_cases hy : ys = []
  · subst hy
    have h0 : b.n = 0 := by simpa using hbn
    rw [Mean.merge_empty a b h0, List.append_nil]
    exact ⟨han, hae⟩
  by_cases hx : xs = []
  · subst hx
    have h0 : a.n = 0 := by simpa using han
    have h1 : b.n ≠ 0 := by rw [hbn]; exact fun h => hy (List.length_eq_zero_iff.mp h)
    rw [Mean.empty_merge a b h0 h1, List.nil_append]
    exact ⟨hbn, hbe⟩
  have han0 : a.n ≠ 0 := by rw [han]; exact fun h => hx (List.length_eq_zero_iff.mp h)
  have hbn0 : b.n ≠ 0 := by rw [hbn]; exact fun h => hy (List.length_eq_zero_iff.mp h)
  refine ⟨?_, ?_⟩
  · have := Mean.len_merge a b
    simp only [Mean.len] at this
    rw [this, han, hbn, List.length_append]
  rw [Mean.merge_avg_val r a b han0 hbn0, han, hbn, meanK_append xs ys hx hy,
    List.length_append, Nat.cast_add]
  have hu0 := r.u_nonneg
  set na : K := (xs.length : K) with hna
  set nb : K := (ys.length : K) with hnb
  have hna1 : 1 ≤ na := by
    rw [hna]; exact_mod_cast List.length_pos_of_ne_nil hx
  have hnb1 : 1 ≤ nb := by
    rw [hnb]; exact_mod_cast List.length_pos_of_ne_nil hy
  have hnapos : 0 < na := by linarith
  have hnbpos : 0 < nb := by linarith
  rw [List.length_append, Nat.cast_add] at hsmall
  set μa := meanK xs with hμa
  set μb := meanK ys with hμb
  have hμab : |μa| ≤ M := abs_mean_le xs M hM hxs
  have hμbb : |μb| ≤ M := abs_mean_le ys M hM hys
  set A := M + B * (na + nb) with hA
  have haA : |a.avg.val| ≤ A := by
    have : a.avg.val = μa + (a.avg.val - μa) := by ring
    rw [this]
    calc _ ≤ |μa| + |a.avg.val - μa| := abs_add_le _ _
      _ ≤ M + B * na := by linarith
      _ ≤ A := by rw [hA]; nlinarith
  have hbA : |b.avg.val| ≤ A := by
    have : b.avg.val = μb + (b.avg.val - μb) := by ring
    rw [this]
    calc _ ≤ |μb| + |b.avg.val - μb| := abs_add_le _ _
      _ ≤ M + B * nb := by linarith
      _ ≤ A := by rw [hA]; nlinarith
  have hround := merge_round_error_5 r.fl r.u hu0 hu r.err A a.avg.val b.avg.val na nb
    hnapos hnbpos haA hbA
  set q := r.fl (r.fl (r.fl (na * a.avg.val) + r.fl (nb * b.avg.val)) / r.fl (na + nb)) with hq
  set T := (na * a.avg.val + nb * b.avg.val) / (na + nb) with hT
  have hnpos : 0 < na + nb := by linarith
  -- the exactly merged value: convex combination of the two errors
  have hconv : |T - (na * μa + nb * μb) / (na + nb)| ≤ B * (na + nb - 1) := by
    have : T - (na * μa + nb * μb) / (na + nb)
        = (na * (a.avg.val - μa) + nb * (b.avg.val - μb)) / (na + nb) := by rw [hT]; ring
    rw [this, abs_div, abs_of_pos hnpos, div_le_iff₀ hnpos]
    have hcross : 0 ≤ na * (nb - 1) + nb * (na - 1) := by
      have h1 : 0 ≤ na * (nb - 1) := mul_nonneg hnapos.le (by linarith)
      have h2 : 0 ≤ nb * (na - 1) := mul_nonneg hnbpos.le (by linarith)
      linarith
    calc _ ≤ |na * (a.avg.val - μa)| + |nb * (b.avg.val - μb)| := abs_add_le _ _
      _ = na * |a.avg.val - μa| + nb * |b.avg.val - μb| := by
          rw [abs_mul, abs_mul, abs_of_pos hnapos, abs_of_pos hnbpos]
      _ ≤ na * (B * na) + nb * (B * nb) := by gcongr
      _ ≤ B * (na + nb - 1) * (na + nb) := by nlinarith [mul_nonneg hB hcross]
  have : q - (na * μa + nb * μb) / (na + nb)
      = (q - T) + (T - (na * μa + nb * μb) / (na + nb)) := by ring
  rw [this]
  calc _ ≤ |q - T| + |T - (na * μa + nb * μb) / (na + nb)| := abs_add_le _ _
    _ ≤ 5 * r.u * A + B * (na + nb - 1) := by linarith
    _ ≤ B + B * (na + nb - 1) := by linarith
    _ = B * (na + nb) := by ring

/-- A merge tree without data (all chunks empty) evaluates to the empty state, any carrier. -/
theorem Mean.mtree_eval_empty {α : Type} [Add α] [Sub α] [Mul α] [Div α] [NatCast α]
    (t : MTree α) (h : t.flatten = []) : t.eval Mean.new Mean.add Mean.merge = Mean.new := by
  induction t with
  | leaf xs => rw [MTree.flatten_leaf] at h; subst h; rfl
  | node l r ihl ihr =>
    rw [MTree.flatten_node, List.append_eq_nil_iff] at h
    rw [MTree.eval_node, ihl h.1, ihr h.2]
    exact Mean.merge_empty _ _ rfl

/-- **Every merge tree, general constant.** Let `w = (2u+u²)(1+u)`. For every per-observation budget
`B ≥ 2M(2w+u)` (the add-only constant of `mean_fold_error`), `u ≤ 1/9`, and every merge tree `t` over
`n` observations with `|x| ≤ M`, `w + n u ≤ 1/2` and `5u(M + B n) ≤ B`: the count is exact and
`|avg - mean| ≤ B n`. Any shape, any chunk sizes, empty chunks included. -/
theorem mean_mtree_error_gen (r : Rnd2 K) (M B : K) (hM : 0 ≤ M) (hu : r.u ≤ 1/9)
    (hB : 2 * M * (2 * ((2*r.u + r.u^2) * (1 + r.u)) + r.u) ≤ B) :
    ∀ t : MTree (RF2 r), (∀ x ∈ t.flatten, |x.val| ≤ M) →
      (2*r.u + r.u^2) * (1 + r.u) + (t.flatten.length : K) * r.u ≤ 1/2 →
      5 * r.u * (M + B * (t.flatten.length : K)) ≤ B →
      (t.eval Mean.new Mean.add Mean.merge).n = t.flatten.length ∧
      |(t.eval Mean.new Mean.add Mean.merge).avg.val - meanK (t.flatten.map RF2.val)|
        ≤ B * (t.flatten.length : K) := by
  have hu0 := r.u_nonneg
  have hB0 : 0 ≤ B := le_trans (by positivity) hB
  intro t
  induction t with
  | leaf xs =>
    intro hb hs1 _
    rw [MTree.flatten_leaf] at *
    rw [MTree.eval_leaf]
    obtain ⟨h1, h2⟩ := mean_fold_error r M hM xs hb hs1
    refine ⟨h1, le_trans h2 ?_⟩
    gcongr
  | node l rt ihl ihr =>
    intro hb hs1 hs2
    rw [MTree.flatten_node] at *
    rw [List.length_append, Nat.cast_add] at hs1 hs2
    have hl0 : (0:K) ≤ (l.flatten.length : K) := Nat.cast_nonneg _
    have hr0 : (0:K) ≤ (rt.flatten.length : K) := Nat.cast_nonneg _
    obtain ⟨hln, hle⟩ := ihl (fun x hx => hb x (List.mem_append_left _ hx))
      (by nlinarith) (by nlinarith [mul_nonneg hu0 (mul_nonneg hB0 hr0)])
    obtain ⟨hrn, hre⟩ := ihr (fun x hx => hb x (List.mem_append_right _ hx))
      (by nlinarith) (by nlinarith [mul_nonneg hu0 (mul_nonneg hB0 hl0)])
    rw [MTree.eval_node, List.map_append]
    have key := mean_merge_error r M B hM hB0 hu
      (l.eval Mean.new Mean.add Mean.merge) (rt.eval Mean.new Mean.add Mean.merge)
      (l.flatten.map RF2.val) (rt.flatten.map RF2.val)
      (by intro x hx; rw [List.mem_map] at hx; obtain ⟨z, hz, rfl⟩ := hx
          exact hb z (List.mem_append_left _ hz))
      (by intro x hx; rw [List.mem_map] at hx; obtain ⟨z, hz, rfl⟩ := hx
          exact hb z (List.mem_append_right _ hz))
      (by rw [List.length_map]; exact hln) (by rw [List.length_map]; exact hrn)
      (by rw [List.length_map]; exact hle) (by rw [List.length_map]; exact hre)
      (by rw [List.length_append, List.length_map, List.length_map, Nat.cast_add]; exact hs2)
    rw [List.length_append, List.length_map, List.length_map] at key
    rw [List.length_append]
    exact key

/-- **Every merge tree, explicit constant 11.** For every merge tree `t` (any shape, any chunk sizes,
empty chunks included) over `n` observations with `|x| ≤ M`, in the standard model of rounding with unit
roundoff `u`, if `n u ≤ 1/64` then the count is exact and `|avg - mean| ≤ 11 u M n`. -/
theorem mean_mtree_error (r : Rnd2 K) (M : K) (hM : 0 ≤ M) (t : MTree (RF2 r))
    (hb : ∀ x ∈ t.flatten, |x.val| ≤ M) (hsmall : (t.flatten.length : K) * r.u ≤ 1/64) :
    (t.eval Mean.new Mean.add Mean.merge).n = t.flatten.length ∧
    |(t.eval Mean.new Mean.add Mean.merge).avg.val - meanK (t.flatten.map RF2.val)|
      ≤ 11 * r.u * M * (t.flatten.length : K) := by
  have hu0 := r.u_nonneg
  by_cases he : t.flatten = []
  · rw [Mean.mtree_eval_empty t he, he]
    simp [Mean.new, meanK]
    exact (Nat.cast_zero : ((0:Nat):K) = 0)
  have hn1 : (1:K) ≤ (t.flatten.length : K) := by
    exact_mod_cast List.length_pos_of_ne_nil he
  have hu : r.u ≤ 1/64 := by nlinarith
  have hu2 : r.u^2 ≤ r.u / 64 := by nlinarith
  have hu3 : r.u^3 ≤ r.u / 4096 := by nlinarith
  have huM : 0 ≤ r.u * M := mul_nonneg hu0 hM
  refine mean_mtree_error_gen r M (11 * r.u * M) hM (by linarith) ?_ t hb ?_ ?_
  · have : 2 * (2 * ((2*r.u + r.u^2) * (1 + r.u)) + r.u) ≤ 11 * r.u := by nlinarith
    calc 2 * M * (2 * ((2*r.u + r.u^2) * (1 + r.u)) + r.u)
        = M * (2 * (2 * ((2*r.u + r.u^2) * (1 + r.u)) + r.u)) := by ring
      _ ≤ M * (11 * r.u) := by gcongr
      _ = 11 * r.u * M := by ring
  · nlinarith
  · have h1 : 5 * r.u * (M + 11 * r.u * M * (t.flatten.length : K))
        = 5 * (r.u * M) + 55 * ((r.u * M) * ((t.flatten.length : K) * r.u)) := by ring
    have h2 : (r.u * M) * ((t.flatten.length : K) * r.u) ≤ (r.u * M) * (1/64) := by gcongr
    rw [h1]; linarith

/-- **Every merge tree, same constant as the add-only stream.** Under `n u ≤ 1/64` the bound
`2(2w+u)·M·n`, `w = (2u+u²)(1+u)`, of `mean_fold_error` holds for every merge tree: merging costs nothing
in the constant. -/
theorem mean_mtree_error_same_const (r : Rnd2 K) (M : K) (hM : 0 ≤ M) (t : MTree (RF2 r))
    (hb : ∀ x ∈ t.flatten, |x.val| ≤ M) (hsmall : (t.flatten.length : K) * r.u ≤ 1/64) :
    (t.eval Mean.new Mean.add Mean.merge).n = t.flatten.length ∧
    |(t.eval Mean.new Mean.add Mean.merge).avg.val - meanK (t.flatten.map RF2.val)|
      ≤ 2 * M * (2 * ((2*r.u + r.u^2) * (1 + r.u)) + r.u) * (t.flatten.length : K) := by
  have hu0 := r.u_nonneg
  by_cases he : t.flatten = []
  · rw [Mean.mtree_eval_empty t he, he]
    simp [Mean.new, meanK]
    exact (Nat.cast_zero : ((0:Nat):K) = 0)
  have hn1 : (1:K) ≤ (t.flatten.length : K) := by
    exact_mod_cast List.length_pos_of_ne_nil he
  have hu : r.u ≤ 1/64 := by nlinarith
  have hu2 : r.u^2 ≤ r.u / 64 := by nlinarith
  have hu3 : r.u^3 ≤ r.u / 4096 := by nlinarith
  have huM : 0 ≤ r.u * M := mul_nonneg hu0 hM
  set B := 2 * M * (2 * ((2*r.u + r.u^2) * (1 + r.u)) + r.u) with hB
  have hB0 : 0 ≤ B := by positivity
  have hB10 : 10 * (r.u * M) ≤ B := by
    have : B - 10 * (r.u * M) = 4 * M * (3 * r.u^2 + r.u^3) := by rw [hB]; ring
    have h0 : 0 ≤ 4 * M * (3 * r.u^2 + r.u^3) := by positivity
    linarith
  refine mean_mtree_error_gen r M B hM (by linarith) le_rfl t hb ?_ ?_
  · nlinarith
  · have h1 : 5 * r.u * (M + B * (t.flatten.length : K))
        = 5 * (r.u * M) + 5 * (B * ((t.flatten.length : K) * r.u)) := by ring
    have h2 : B * ((t.flatten.length : K) * r.u) ≤ B * (1/64) := by gcongr
    rw [h1]; linarith

#print axioms merge_round_error
#print axioms mean_merge_error
#print axioms mean_mtree_error_gen
#print axioms mean_mtree_error
#print axioms mean_mtree_error_same_const
