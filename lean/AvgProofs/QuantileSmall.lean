import AvgProofs.QuantileStep
import Mathlib.Algebra.Order.Field.Basic
import Mathlib.Algebra.Order.Ring.Cast
import Mathlib.Algebra.Order.Floor.Ring
import Mathlib.Data.List.GetD
import Mathlib.Tactic.Ring
import Mathlib.Tactic.Linarith
import Mathlib.Tactic.NormNum

/-!
# Fewer than five observations: `quantile()` is the textbook sample quantile

`smallQuantile` is what `Quantile.quantile` computes on the state after 1..4 observations (any
carrier, by unfolding). Over an ordered field with floor it equals `textbookQuantile` of the
sorted sample.
-/
open Avg Avg.Spec
set_option linter.unusedSectionVars false
set_option linter.unusedSimpArgs false

namespace Avg

section anyCarrier
variable {α : Type} [Add α] [Sub α] [Mul α] [Div α] [NatCast α] [IntCast α] [FloatOps α]

/-- the small-sample branch of `quantile()` as a function of `p` and the stored observations -/
def smallQuantile (p : α) (xs : List α) : α :=
  let len := xs.length
  let heights := sortBy FloatOps.ordLt xs
  let desired_index := (len : α) * p - ((1:Nat):α)
  let index : Int := FloatOps.ceilInt desired_index
  if FloatOps.eqb desired_index (index : α) && decide (index ≥ 0) && decide (index.toNat < len - 1) then
    let a := heights.getD index.toNat nan
    let b := heights.getD (index.toNat + 1) nan
    FloatOps.fmin (FloatOps.fmax (((1:Nat):α) / ((2:Nat):α) * a + ((1:Nat):α) / ((2:Nat):α) * b) a) b
  else heights.getD (min (max index 0).toNat (len - 1)) nan

/-- The state after 1..4 observations holds them in arrival order and `quantile()` takes its
small-sample branch on exactly those (any carrier). -/
theorem quantile_small_eq (p : α) (xs : List α) (h1 : 1 ≤ xs.length) (h4 : xs.length ≤ 4) :
    (xs.foldl Quantile.add (Quantile.init p)).quantile = smallQuantile p xs := by
  match xs, h1, h4 with
  | [a], _, _ => rfl
  | [a, b], _, _ => rfl
  | [a, b, c], _, _ => rfl
  | [a, b, c, d], _, _ => rfl

end anyCarrier

section field
variable {K : Type} [Field K] [LinearOrder K] [IsStrictOrderedRing K]

/-- the clamp `fmin (fmax avg a) b` of the fixed code is a no-op in exact arithmetic -/
theorem avg_clamp_noop (a b : K) (h : a ≤ b) :
    min (max ((1:K) / 2 * a + 1 / 2 * b) a) b = (a + b) / 2 := by
  have e : (1:K) / 2 * a + 1 / 2 * b = (a + b) / 2 := by ring
  rw [e]
  have h1 : a ≤ (a + b) / 2 := by linarith
  have h2 : (a + b) / 2 ≤ b := by linarith
  rw [max_eq_left h1, min_eq_left h2]

variable [FloorRing K]

/-- The textbook p-quantile of a sorted sample `l` of size `n`: with `k = ⌈n p⌉` clipped to `[1, n]`
it is the `k`-th smallest observation (the smallest whose cumulative relative frequency `k/n`
reaches `p`), averaged with the next larger one when `n p` is a whole number `k` with `1 ≤ k < n`.
`d` is only returned for the empty list (`textbookQuantile_default`). -/
def textbookQuantile (p : K) (l : List K) (d : K) : K :=
  let n : Nat := l.length
  let c : Int := ⌈(n : K) * p⌉
  if (n : K) * p = (c : K) ∧ 1 ≤ c ∧ c < n then
    (l.getD (c.toNat - 1) d + l.getD c.toNat d) / 2
  else l.getD ((min (max c 1) (n : Int)).toNat - 1) d

/-- `k = ⌈n p⌉` is the smallest `k` whose cumulative relative frequency `k/n` reaches `p` -/
theorem ceil_is_least_rank (p : K) (n : Nat) (hn : 0 < n) (k : Int) :
    ⌈(n : K) * p⌉ ≤ k ↔ p ≤ (k : K) / n := by
  have hn' : (0:K) < n := by exact_mod_cast hn
  rw [Int.ceil_le, le_div_iff₀ hn', mul_comm]

/-- all indices used by `textbookQuantile` are in range on a non-empty list: the default is junk -/
theorem textbookQuantile_default (p : K) (l : List K) (d d' : K) (hl : l ≠ []) :
    textbookQuantile p l d = textbookQuantile p l d' := by
  have hn : 0 < l.length := List.length_pos_of_ne_nil hl
  unfold textbookQuantile
  simp only []
  split_ifs with c
  · obtain ⟨_, c1, c2⟩ := c
    rw [List.getD_eq_getElem l d (n := (⌈(l.length : K) * p⌉).toNat - 1) (by omega),
      List.getD_eq_getElem l d' (n := (⌈(l.length : K) * p⌉).toNat - 1) (by omega),
      List.getD_eq_getElem l d (n := (⌈(l.length : K) * p⌉).toNat) (by omega),
      List.getD_eq_getElem l d' (n := (⌈(l.length : K) * p⌉).toNat) (by omega)]
  · rw [List.getD_eq_getElem l d (by omega), List.getD_eq_getElem l d' (by omega)]

variable [FloatOps K] [OrdLaws K] [CeilLaw K]

/-- Ordered field with floor: the small-sample branch computes the textbook quantile of the sorted
observations. -/
theorem smallQuantile_eq_textbook (p : K) (xs : List K) (h1 : 1 ≤ xs.length) :
    smallQuantile p xs = textbookQuantile p (sortBy (fun a b => decide (a < b)) xs) nan := by
  unfold smallQuantile textbookQuantile
  rw [OrdLaws.ordLt_fun]
  have hs := sortBy_sorted xs
  have hl := sortBy_length (fun a b : K => decide (a < b)) xs
  generalize sortBy (fun a b : K => decide (a < b)) xs = l at hs hl
  simp only [hl, CeilLaw.ceil_eq, Nat.cast_one, Int.ceil_sub_one, OrdLaws.fmin_eq, OrdLaws.fmax_eq,
    Nat.cast_ofNat]
  set c : Int := ⌈(xs.length : K) * p⌉ with hc
  by_cases hw : (xs.length : K) * p = (c : K) ∧ 1 ≤ c ∧ c < (xs.length : Int)
  · obtain ⟨w1, w2, w3⟩ := hw
    have cond : (FloatOps.eqb ((xs.length : K) * p - 1) ((c - 1 : Int) : K) && decide (c - 1 ≥ 0)
        && decide ((c - 1).toNat < xs.length - 1)) = true := by
      simp only [Bool.and_eq_true, OrdLaws.eqb_iff, decide_eq_true_eq]
      refine ⟨⟨?_, by omega⟩, by omega⟩
      push_cast; rw [w1]
    rw [if_pos cond, if_pos ⟨w1, w2, w3⟩]
    have i1 : (c - 1).toNat = c.toNat - 1 := by omega
    have i2 : (c - 1).toNat + 1 = c.toNat := by omega
    rw [i2, i1]
    have hab : l.getD (c.toNat - 1) nan ≤ l.getD c.toNat nan :=
      sorted_getD_le hs nan (by omega : c.toNat - 1 ≤ c.toNat) (by omega)
    exact avg_clamp_noop _ _ hab
  · have cond : ¬ ((FloatOps.eqb ((xs.length : K) * p - 1) ((c - 1 : Int) : K) && decide (c - 1 ≥ 0)
        && decide ((c - 1).toNat < xs.length - 1)) = true) := by
      simp only [Bool.and_eq_true, OrdLaws.eqb_iff, decide_eq_true_eq]
      rintro ⟨⟨e, g⟩, u⟩
      apply hw
      refine ⟨?_, by omega, by omega⟩
      push_cast at e
      linarith
    rw [if_neg cond, if_neg hw]
    congr 1
    omega

/-- p = 0: the first (smallest) element of the sorted sample -/
theorem textbookQuantile_zero (l : List K) (d : K) (hl : l ≠ []) :
    textbookQuantile 0 l d = l.getD 0 d := by
  have hn : 0 < l.length := List.length_pos_of_ne_nil hl
  unfold textbookQuantile
  simp only [mul_zero, Int.ceil_zero]
  rw [if_neg (by omega)]
  congr 1
  omega

/-- p = 1: the last (largest) element of the sorted sample -/
theorem textbookQuantile_one (l : List K) (d : K) (hl : l ≠ []) :
    textbookQuantile 1 l d = l.getD (l.length - 1) d := by
  have hn : 0 < l.length := List.length_pos_of_ne_nil hl
  unfold textbookQuantile
  simp only [mul_one, Int.ceil_natCast]
  rw [if_neg (by omega)]
  congr 1
  omega

/-- the textbook quantile of a non-empty sample lies in every interval containing the sample -/
theorem textbookQuantile_range (p : K) (l : List K) (d lo hi : K) (hl : l ≠ [])
    (hb : ∀ x ∈ l, lo ≤ x ∧ x ≤ hi) :
    lo ≤ textbookQuantile p l d ∧ textbookQuantile p l d ≤ hi := by
  have hn : 0 < l.length := List.length_pos_of_ne_nil hl
  have key : ∀ i, i < l.length → lo ≤ l.getD i d ∧ l.getD i d ≤ hi := by
    intro i hi'
    rw [List.getD_eq_getElem l d hi']
    exact hb _ (List.getElem_mem hi')
  unfold textbookQuantile
  simp only []
  split_ifs with c
  · obtain ⟨_, c1, c2⟩ := c
    have ka := key ((⌈(l.length : K) * p⌉).toNat - 1) (by omega)
    have kb := key ((⌈(l.length : K) * p⌉).toNat) (by omega)
    constructor <;> linarith [ka.1, ka.2, kb.1, kb.2]
  · exact key _ (by omega)

end field
end Avg
