import AvgProofs.KurtErrV4
import AvgProofs.SkewErrV3Hardy

/-!
# Envelope of the forward error of `sum_4` in the scale `Q = Σ(x - mean)⁴`

* `VR_le_V3`: `VR ≤ (35/2)·V3`, `V3 = Σ|x - mean|³` (Hardy's inequality for the exponent 3, as for `VA`).
* `Q_eq_sum_adev`: `Q = Σ_i |x_i - mean|⁴`;  `V3_sq_le`: `V3² ≤ T·Q`;  `T_sq_le`: `T² ≤ n·Q`
  (Cauchy-Schwarz);  `sigma_V3_le`: `σ·V3 ≤ Q` and `sigma4_le`: `n·σ⁴ ≤ Q` whenever `n·σ² ≤ T`.
* `kurt_envelope_Q`: `n ≥ 1`, `σ > 0` with `n·σ² = T`, `N·u·M ≤ σ`:
  `|sum_4 - Q| ≤ N·u·( 8·(V4p + VD4) + (1200 + 5538·N/n)·(M/σ)·Q )`.
-/
open Avg MSpec Finset VarSpec SkewSpec KurtSpec VarErr SkewErr

namespace KurtErr
variable {K : Type} [Field K] [LinearOrder K] [IsStrictOrderedRing K]

/-- **`VR ≤ (35/2)·V3`** -/
theorem VR_le_V3 (vs : List K) : VR vs ≤ 35/2 * V3 vs := by
  have hterm : ∀ k ∈ range vs.length, |dev vs k|^3 * ((k : K) / ((k : K) + 1))
      ≤ 4 * (adev vs k)^3 + 4 * (if k = 0 then 0 else (amean (adev vs) k)^3) := by
    intro k hk
    have hk' := mem_range.mp hk
    split_ifs with h0
    · subst h0
      simp only [Nat.cast_zero, zero_div, mul_zero, add_zero]
      have := pow_nonneg (adev_nonneg vs 0) 3
      linarith
    · have hk1 : 1 ≤ k := Nat.one_le_iff_ne_zero.mpr h0
      have hd := abs_dev_le_adev vs k hk1 hk'
      have ha := adev_nonneg vs k
      have hα := amean_nonneg (adev_nonneg vs) k
      have hc0 := ratio_nonneg (K := K) k
      have hc1 := ratio_le_one (K := K) k
      calc |dev vs k|^3 * ((k : K) / ((k : K) + 1)) ≤ (adev vs k + amean (adev vs) k)^3 * 1 := by
            gcongr
        _ ≤ 4 * ((adev vs k)^3 + (amean (adev vs) k)^3) := by
            rw [mul_one]; exact add_cube_le _ _ ha hα
        _ = 4 * (adev vs k)^3 + 4 * (amean (adev vs) k)^3 := by ring
  have hsum := sum_le_sum hterm
  rw [sum_add_distrib, ← mul_sum, ← mul_sum, ← V3_eq_sum] at hsum
  have hα : ∑ k ∈ range vs.length, (if k = 0 then 0 else (amean (adev vs) k)^3)
      ≤ 27/8 * V3 vs := by
    refine le_trans ?_ (sum_amean_le vs)
    rcases Nat.eq_zero_or_pos vs.length with h | h
    · rw [h]; simp
    · obtain ⟨n', hn'⟩ : ∃ n', vs.length = n' + 1 := ⟨vs.length - 1, by omega⟩
      rw [hn', sum_range_succ' (fun k => if k = 0 then 0 else (amean (adev vs) k)^3) n',
        sum_range_succ (fun m => (amean (adev vs) (m + 1))^3) n']
      simp only [Nat.add_eq_zero_iff, one_ne_zero, and_false, if_false, if_true, add_zero]
      have := pow_nonneg (amean_nonneg (adev_nonneg vs) (n' + 1)) 3
      linarith
  unfold VR
  linarith

omit [IsStrictOrderedRing K] in
/-- `Q = Σ |x_i - mean|⁴` as a sum over indices -/
theorem Q_eq_sum_adev (vs : List K) : Q vs = ∑ i ∈ range vs.length, (adev vs i)^4 := by
  have h := sum_take_eq vs (mean vs) (fun x => (x - mean vs)^4) vs.length (le_refl _)
  rw [List.take_length] at h
  unfold Q sumPow
  rw [h]
  apply sum_congr rfl
  intro i _
  unfold adev
  have : (4 : ℕ) = 2 * 2 := rfl
  rw [this, pow_mul, pow_mul, sq_abs]

/-- Cauchy-Schwarz: `V3² ≤ T·Q` -/
theorem V3_sq_le (vs : List K) : (V3 vs)^2 ≤ T vs * Q vs := by
  rw [V3_eq_sum, T_eq_sum_adev, Q_eq_sum_adev]
  apply sum_sq_le_sum_mul_sum_of_sq_le_mul
  · intro i _; exact sq_nonneg _
  · intro i _; exact pow_nonneg (adev_nonneg vs i) 4
  · intro i _; apply le_of_eq; ring

/-- Cauchy-Schwarz: `T² ≤ n·Q` -/
theorem T_sq_le (vs : List K) : (T vs)^2 ≤ (vs.length : K) * Q vs := by
  rw [T_eq_sum_adev, Q_eq_sum_adev]
  have h := sum_sq_le_sum_mul_sum_of_sq_le_mul (range vs.length) (r := fun i => (adev vs i)^2)
    (f := fun _ => (1 : K)) (g := fun i => (adev vs i)^4) (fun _ _ => zero_le_one)
    (fun i _ => pow_nonneg (adev_nonneg vs i) 4) (fun i _ => by apply le_of_eq; ring)
  simpa using h

/-- if `σ` is at most the population standard deviation (`n·σ² ≤ T`, `n ≥ 1`), then `σ²·T ≤ Q` -/
theorem sigma2_T_le (vs : List K) (hne : vs ≠ []) (σ : K) (h : (vs.length : K) * σ^2 ≤ T vs) :
    σ^2 * T vs ≤ Q vs := by
  have hnpos : (0 : K) < vs.length := by exact_mod_cast List.length_pos_of_ne_nil hne
  have hT := T_nonneg vs
  have h2 := T_sq_le vs
  have : (vs.length : K) * (σ^2 * T vs) ≤ (vs.length : K) * Q vs := by
    calc (vs.length : K) * (σ^2 * T vs) = ((vs.length : K) * σ^2) * T vs := by ring
      _ ≤ T vs * T vs := by gcongr
      _ = (T vs)^2 := by ring
      _ ≤ (vs.length : K) * Q vs := h2
  exact le_of_mul_le_mul_left this hnpos

/-- `n·σ⁴ ≤ Q` whenever `n·σ² ≤ T`, `n ≥ 1` -/
theorem sigma4_le (vs : List K) (hne : vs ≠ []) (σ : K) (h : (vs.length : K) * σ^2 ≤ T vs) :
    (vs.length : K) * σ^4 ≤ Q vs := by
  have h1 := sigma2_T_le vs hne σ h
  have : (vs.length : K) * σ^4 = σ^2 * ((vs.length : K) * σ^2) := by ring
  rw [this]
  refine le_trans ?_ h1
  gcongr

/-- `σ·V3 ≤ Q` whenever `n·σ² ≤ T`, `n ≥ 1` -/
theorem sigma_V3_le (vs : List K) (hne : vs ≠ []) (σ : K)
    (h : (vs.length : K) * σ^2 ≤ T vs) : σ * V3 vs ≤ Q vs := by
  have h1 := sigma2_T_le vs hne σ h
  have h2 := V3_sq_le vs
  have hQ := Q_nonneg vs
  have hV := V3_nonneg vs
  have hsq : (σ * V3 vs)^2 ≤ (Q vs)^2 := by
    calc (σ * V3 vs)^2 = σ^2 * (V3 vs)^2 := by ring
      _ ≤ σ^2 * (T vs * Q vs) := by gcongr
      _ = (σ^2 * T vs) * Q vs := by ring
      _ ≤ Q vs * Q vs := by gcongr
      _ = (Q vs)^2 := by ring
  by_contra hc
  rw [not_le] at hc
  have := pow_lt_pow_left₀ hc hQ (by norm_num : (2 : ℕ) ≠ 0)
  linarith

/-- **Envelope in the scale `Q = Σ(x - mean)⁴`.** `n ≥ 1`, `σ > 0` with `n·σ² = T` (the population
standard deviation), `N·u·M ≤ σ`:
`|sum_4 - Q| ≤ N·u·( 8·(V4p + VD4) + (1200 + 5538·N/n)·(M/σ)·Q )`. -/
theorem kurt_envelope_Q (r : Rnd2 K) (M : K) (hM : 0 ≤ M) (xs : List (RF2 r)) (hne : xs ≠ [])
    (hb : ∀ x ∈ xs, |x.val| ≤ M) (hsmall : ((xs.length : K) + 28) * r.u ≤ 1/64)
    (σ : K) (hσ : 0 < σ) (hvar : (xs.length : K) * σ^2 = T (xs.map RF2.val))
    (hcond : ((xs.length : K) + 10) * r.u * M ≤ σ) :
    |(xs.foldl Kurtosis.add Kurtosis.new).sum_4.val - Q (xs.map RF2.val)|
      ≤ ((xs.length : K) + 10) * r.u
          * (8 * (V4p (xs.map RF2.val) + VD4 (xs.map RF2.val))
            + (1200 + 5538 * (((xs.length : K) + 10) / (xs.length : K))) * (M / σ)
                * Q (xs.map RF2.val)) := by
  have hu := r.u_nonneg
  have hnpos : (0 : K) < xs.length := by exact_mod_cast List.length_pos_of_ne_nil hne
  have h := kurt_envelope r M hM xs hb hsmall σ hσ.le (le_of_eq hvar.symm) hcond
  have hlen : (xs.map RF2.val).length = xs.length := by simp
  have hne' : xs.map RF2.val ≠ [] := by simpa using hne
  have hvar' : ((xs.map RF2.val).length : K) * σ^2 ≤ T (xs.map RF2.val) := by
    rw [hlen]; exact le_of_eq hvar
  have hs3 := sigma_V3_le (xs.map RF2.val) hne' σ hvar'
  have hs4 := sigma4_le (xs.map RF2.val) hne' σ hvar'
  rw [hlen] at hs4
  have hvr := VR_le_V3 (xs.map RF2.val)
  have hv3 := V3p_le_V3 (xs.map RF2.val)
  have hQ0 := Q_nonneg (xs.map RF2.val)
  set n : K := (xs.length : K) with hn
  set N := n + 10 with hN
  have hN0 : 0 ≤ N := by linarith
  set Qv := Q (xs.map RF2.val) with hQv
  have hMσ : 0 ≤ M / σ := by positivity
  have hc : 0 ≤ N * r.u * (M / σ) := by positivity
  -- M·VR and M·V3p in terms of (M/σ)·Q
  have e1 : 9/4 * N * r.u * M * VR (xs.map RF2.val) ≤ N * r.u * (M / σ) * (315/8 * Qv) := by
    calc 9/4 * N * r.u * M * VR (xs.map RF2.val)
        ≤ 9/4 * N * r.u * M * (35/2 * V3 (xs.map RF2.val)) := by gcongr
      _ = N * r.u * (M / σ) * (315/8 * (σ * V3 (xs.map RF2.val))) := by field_simp; ring
      _ ≤ N * r.u * (M / σ) * (315/8 * Qv) := by gcongr
  have e2 : 29 * N * r.u * M * V3p (xs.map RF2.val) ≤ N * r.u * (M / σ) * (1160 * Qv) := by
    calc 29 * N * r.u * M * V3p (xs.map RF2.val)
        ≤ 29 * N * r.u * M * (40 * V3 (xs.map RF2.val)) := by gcongr
      _ = N * r.u * (M / σ) * (1160 * (σ * V3 (xs.map RF2.val))) := by field_simp; ring
      _ ≤ N * r.u * (M / σ) * (1160 * Qv) := by gcongr
  have e3 : 5538 * N^2 * r.u * M * σ^3 ≤ N * r.u * (M / σ) * (5538 * (N / n) * Qv) := by
    have e : 5538 * N^2 * r.u * M * σ^3 = N * r.u * (M / σ) * (5538 * (N / n) * (n * σ^4)) := by
      field_simp
    rw [e]
    have : 0 ≤ 5538 * (N / n) := by positivity
    gcongr
  calc _ ≤ 8 * N * r.u * (V4p (xs.map RF2.val) + VD4 (xs.map RF2.val))
          + 9/4 * N * r.u * M * VR (xs.map RF2.val) + 29 * N * r.u * M * V3p (xs.map RF2.val)
          + 5538 * N^2 * r.u * M * σ^3 := h
    _ ≤ 8 * N * r.u * (V4p (xs.map RF2.val) + VD4 (xs.map RF2.val))
          + N * r.u * (M / σ) * (315/8 * Qv) + N * r.u * (M / σ) * (1160 * Qv)
          + N * r.u * (M / σ) * (5538 * (N / n) * Qv) := by linarith
    _ ≤ N * r.u * (8 * (V4p (xs.map RF2.val) + VD4 (xs.map RF2.val))
          + (1200 + 5538 * (N / n)) * (M / σ) * Qv) := by
        have : 0 ≤ N * r.u * (M / σ) * Qv := by positivity
        nlinarith

end KurtErr

#print axioms KurtErr.VR_le_V3
#print axioms KurtErr.sigma_V3_le
#print axioms KurtErr.kurt_envelope_Q
