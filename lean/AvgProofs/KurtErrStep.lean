import AvgProofs.SkewErrStep
import Mathlib.Algebra.Order.Ring.Pow

/-!
# One step of the fourth-order sum of `Kurtosis.add` under the standard model of rounding

With `δ = fl(x - a)` (`a` the computed mean before the step), `δn = fl(δ/k)` (`k` the new count),
`term = fl(fl(δ·δn)·fl(k-1))`, `δn² = fl(δn·δn)`, `P = fl(fl(fl(k·k) - fl(3·k)) + 3)`, and `S2`, `S3` the
computed second- and third-order sums before the step, the model computes

`A = fl(fl(term·δn²)·P)`,  `B = fl(fl(6·δn²)·S2)`,  `C = fl(fl(4·δn)·S3)`,
`S4' = fl(S4 + fl(fl(A + B) - C))`.

* `poly_abs_err`: `|P - (k²-3k+3)| ≤ ((1+u)³-1)·(k²+3k+3)` for `k ≥ 0` (the subtraction `k·k - 3·k`
  cancels; its rounding errors are relative to `k² + 3k`, not to the result).
* `poly_RE`: for every count `k` with `k²+3k+3 ≤ 13·(k²-3k+3)` (true for `k = 1, 2, 3, …`, with equality
  at `k = 2`) this is a relative error of at most `(1+u)^39 - 1`.
* `kurt_incrA_RE`: `A` is within relative error `(1+u)^52 - 1` of `(x-a)⁴(k-1)(k²-3k+3)/k³`.
* `kurt_incrB_RE`: `B` is within relative error `(1+u)^7 - 1` of `6·((x-a)/k)²·S2`.
* `kurt_incrC_RE`: `C` is within relative error `(1+u)^4 - 1` of `4·((x-a)/k)·S3`.
* `round_addsub_error`: `fl(fl(A + B) - C)`; the roundings are relative to `|A| + |B|` and `|A+B| + |C|`.
* `kurt_step_error`: with the exact mean `μ`, sums `Tv ≥ 0`, `Uv`, `Qv` before the step, `d = x - μ`,
  `e = a - μ`, `D2 = S2 - Tv`, `D3 = S3 - Uv`, `c = (k-1)(k²-3k+3)/k³`, exact increment `As + Bs - Cs`,
  `As = d⁴c`, `Bs = 6d²Tv/k²`, `Cs = 4dUv/k`, and `γ_i = (1+u)^i - 1`:

  `|S4' - (Qv + As + Bs - Cs)| ≤ (1+u)·( |S4 - Qv| + γ54·As + γ9·Bs + γ5·|Cs|
        + (1+γ54)·c·(4|d|³|e| + 6d²e² + 4|d||e|³ + e⁴)
        + (1+γ9)·(6/k²)·(d²|D2| + (2|d||e| + e²)(Tv + |D2|))
        + (1+γ5)·(4/k)·(|d||D3| + |e||Uv| + |e||D3|) ) + u·|Qv + As + Bs - Cs|`.
-/
variable {K : Type} [Field K] [LinearOrder K] [IsStrictOrderedRing K]

open SkewErr

namespace KurtErr

/-- `13·γ_3 ≤ γ_39` (Bernoulli) -/
theorem thirteen_g3_le {u : K} (hu : 0 ≤ u) : 13 * g u 3 ≤ g u 39 := by
  have h3 := g_nonneg hu 3
  have hb := one_add_mul_le_pow (by linarith : (-2 : K) ≤ g u 3) 13
  have e : (1 + g u 3)^13 = (1 + u)^39 := by
    unfold g
    rw [add_sub_cancel, ← pow_mul]
  rw [e] at hb
  unfold g at hb ⊢
  push_cast at hb
  linarith

/-- the polynomial `k·k - 3·k + 3`: three rounded operations, the subtraction cancels -/
theorem poly_abs_err (fl : K → K) (u : K) (hu : 0 ≤ u) (hfl : ∀ t, |fl t - t| ≤ u * |t|)
    (k : K) (hk : 0 ≤ k) :
    |fl (fl (fl (k * k) - fl (3 * k)) + 3) - (k * k - 3 * k + 3)| ≤ g u 3 * (k * k + 3 * k + 3) := by
  have h1 : RE u 1 (fl (k * k)) (k * k) := (RE.refl u (k * k)).round fl hu hfl
  have h2 : RE u 1 (fl (3 * k)) (3 * k) := (RE.refl u (3 * k)).round fl hu hfl
  have hs := round_sub_error fl u hu hfl h1 h2
  rw [abs_of_nonneg (by positivity : 0 ≤ k * k), abs_of_nonneg (by positivity : 0 ≤ 3 * k)] at hs
  set c := fl (fl (k * k) - fl (3 * k)) with hc
  set c0 := k * k - 3 * k with hc0
  have hp : |c0 + 3| ≤ k * k + 3 * k + 3 := by
    rw [abs_le]; constructor <;> nlinarith
  have hc3 : |c + 3| ≤ |c0 + 3| + |c - c0| := by
    have : c + 3 = (c0 + 3) + (c - c0) := by ring
    rw [this]; exact abs_add_le _ _
  have e : fl (c + 3) - (c0 + 3) = (fl (c + 3) - (c + 3)) + (c - c0) := by ring
  have hg3 : g u 3 = u + (1 + u) * g u 2 := by unfold g; ring
  have hg2 := g_nonneg hu 2
  have hq0 : 0 ≤ k * k + 3 * k := by positivity
  calc |fl (c + 3) - (c0 + 3)| = |(fl (c + 3) - (c + 3)) + (c - c0)| := by rw [e]
    _ ≤ |fl (c + 3) - (c + 3)| + |c - c0| := abs_add_le _ _
    _ ≤ u * (|c0 + 3| + |c - c0|) + |c - c0| := by
        have := hfl (c + 3)
        have : u * |c + 3| ≤ u * (|c0 + 3| + |c - c0|) := by gcongr
        linarith
    _ = u * |c0 + 3| + (1 + u) * |c - c0| := by ring
    _ ≤ u * (k * k + 3 * k + 3) + (1 + u) * (g u (1 + 1) * (k * k) + g u (1 + 1) * (3 * k)) := by
        gcongr
    _ = u * (k * k + 3 * k + 3) + (1 + u) * g u 2 * (k * k + 3 * k) := by norm_num; ring
    _ ≤ g u 3 * (k * k + 3 * k + 3) := by
        rw [hg3]
        have : 0 ≤ (1 + u) * g u 2 := by positivity
        nlinarith

/-- for every count `k ≥ 1`: `k² + 3k + 3 ≤ 13·(k² - 3k + 3)` -/
theorem poly_ratio (i : ℕ) :
    ((i : K) + 1) * ((i : K) + 1) + 3 * ((i : K) + 1) + 3
      ≤ 13 * (((i : K) + 1) * ((i : K) + 1) - 3 * ((i : K) + 1) + 3) := by
  rcases i with _ | _ | i
  · norm_num
  · norm_num
  · push_cast
    have : (0 : K) ≤ i := Nat.cast_nonneg i
    nlinarith

/-- the polynomial as a relative error: 39 roundings' worth -/
theorem poly_RE (fl : K → K) (u : K) (hu : 0 ≤ u) (hfl : ∀ t, |fl t - t| ≤ u * |t|)
    (k : K) (hk : 0 ≤ k) (hq : k * k + 3 * k + 3 ≤ 13 * (k * k - 3 * k + 3)) :
    RE u 39 (fl (fl (fl (k * k) - fl (3 * k)) + 3)) (k * k - 3 * k + 3) := by
  have h := poly_abs_err fl u hu hfl k hk
  have hp0 : 0 ≤ k * k - 3 * k + 3 := by nlinarith [sq_nonneg (k - 3/2)]
  unfold RE
  rw [abs_of_nonneg hp0]
  have h3 := g_nonneg hu 3
  calc _ ≤ g u 3 * (k * k + 3 * k + 3) := h
    _ ≤ g u 3 * (13 * (k * k - 3 * k + 3)) := by gcongr
    _ = (13 * g u 3) * (k * k - 3 * k + 3) := by ring
    _ ≤ g u 39 * (k * k - 3 * k + 3) := by
        have := thirteen_g3_le hu
        gcongr

/-- the `d⁴` part of the increment: 52 roundings' worth -/
theorem kurt_incrA_RE (fl : K → K) (u : K) (hu : 0 ≤ u) (hfl : ∀ t, |fl t - t| ≤ u * |t|)
    (x a k : K) (hk : 0 ≤ k) (hq : k * k + 3 * k + 3 ≤ 13 * (k * k - 3 * k + 3)) :
    RE u 52
      (fl (fl (fl (fl (fl (x - a) * fl (fl (x - a) / k)) * fl (k - 1))
            * fl (fl (fl (x - a) / k) * fl (fl (x - a) / k)))
        * fl (fl (fl (k * k) - fl (3 * k)) + 3)))
      ((x - a)^4 * ((k - 1) * (k * k - 3 * k + 3) / k^3)) := by
  have h1 : RE u 1 (fl (x - a)) (x - a) := (RE.refl u (x - a)).round fl hu hfl
  have h2 : RE u 2 (fl (fl (x - a) / k)) ((x - a) / k) := (h1.div_exact k).round fl hu hfl
  have h3 : RE u 4 _ _ := (h1.mul hu h2).round fl hu hfl
  have h4 : RE u 1 (fl (k - 1)) (k - 1) := (RE.refl u (k - 1)).round fl hu hfl
  have h5 : RE u 6 _ _ := (h3.mul hu h4).round fl hu hfl
  have h6 : RE u 5 _ _ := (h2.mul hu h2).round fl hu hfl
  have h7 : RE u 12 _ _ := (h5.mul hu h6).round fl hu hfl
  have hP := poly_RE fl u hu hfl k hk hq
  have h8 : RE u 52 _ _ := (h7.mul hu hP).round fl hu hfl
  have hval : (x - a) * ((x - a) / k) * (k - 1) * ((x - a) / k * ((x - a) / k)) * (k * k - 3 * k + 3)
      = (x - a)^4 * ((k - 1) * (k * k - 3 * k + 3) / k^3) := by ring
  rw [hval] at h8
  exact h8

/-- the `d²·sum_2` part of the increment: seven roundings (`sum_2` is the computed value, an input) -/
theorem kurt_incrB_RE (fl : K → K) (u : K) (hu : 0 ≤ u) (hfl : ∀ t, |fl t - t| ≤ u * |t|)
    (x a k S2 : K) :
    RE u 7 (fl (fl (6 * fl (fl (fl (x - a) / k) * fl (fl (x - a) / k))) * S2))
      (6 * ((x - a) / k * ((x - a) / k)) * S2) := by
  have h1 : RE u 1 (fl (x - a)) (x - a) := (RE.refl u (x - a)).round fl hu hfl
  have h2 : RE u 2 (fl (fl (x - a) / k)) ((x - a) / k) := (h1.div_exact k).round fl hu hfl
  have h6 : RE u 5 _ _ := (h2.mul hu h2).round fl hu hfl
  have h7 : RE u 6 _ _ := ((RE.refl u (6 : K)).mul hu h6).round fl hu hfl
  have h8 : RE u 7 _ _ := (h7.mul hu (RE.refl u S2)).round fl hu hfl
  exact h8

/-- the `d·sum_3` part of the increment: four roundings (`sum_3` is the computed value, an input) -/
theorem kurt_incrC_RE (fl : K → K) (u : K) (hu : 0 ≤ u) (hfl : ∀ t, |fl t - t| ≤ u * |t|)
    (x a k S3 : K) :
    RE u 4 (fl (fl (4 * fl (fl (x - a) / k)) * S3)) (4 * ((x - a) / k) * S3) := by
  have h1 : RE u 1 (fl (x - a)) (x - a) := (RE.refl u (x - a)).round fl hu hfl
  have h2 : RE u 2 (fl (fl (x - a) / k)) ((x - a) / k) := (h1.div_exact k).round fl hu hfl
  have h3 : RE u 3 _ _ := ((RE.refl u (4 : K)).mul hu h2).round fl hu hfl
  have h4 : RE u 4 _ _ := (h3.mul hu (RE.refl u S3)).round fl hu hfl
  exact h4

/-- a rounded sum of two approximations followed by a rounded subtraction of a third: the roundings are
relative to `|A| + |B|` and to `|A + B| + |C|` -/
theorem round_addsub_error (fl : K → K) (u : K) (hu : 0 ≤ u) (hfl : ∀ t, |fl t - t| ≤ u * |t|)
    {i j l : ℕ} {A A0 B B0 C C0 : K} (hA : RE u i A A0) (hB : RE u j B B0) (hC : RE u l C C0) :
    |fl (fl (A + B) - C) - (A0 + B0 - C0)|
      ≤ g u (i + 2) * |A0| + g u (j + 2) * |B0| + g u (l + 1) * |C0| := by
  have hAb := hA.abs_le
  have hBb := hB.abs_le
  have hCb := hC.abs_le
  unfold RE at hA hB hC
  set S := fl (A + B) with hS
  have h1 : |S - (A + B)| ≤ u * (|A| + |B|) :=
    le_trans (hfl _) (by gcongr; exact abs_add_le _ _)
  have hSb : |S| ≤ (1 + u) * (|A| + |B|) := by
    have : S = (A + B) + (S - (A + B)) := by ring
    calc |S| = |(A + B) + (S - (A + B))| := by rw [← this]
      _ ≤ |A + B| + |S - (A + B)| := abs_add_le _ _
      _ ≤ (|A| + |B|) + u * (|A| + |B|) := add_le_add (abs_add_le _ _) h1
      _ = (1 + u) * (|A| + |B|) := by ring
  have h2 : |fl (S - C) - (S - C)| ≤ u * ((1 + u) * (|A| + |B|) + |C|) := by
    refine le_trans (hfl _) ?_
    have : |S - C| ≤ |S| + |C| := abs_sub _ _
    gcongr
    linarith
  have e : fl (S - C) - (A0 + B0 - C0)
      = (fl (S - C) - (S - C)) + ((S - (A + B)) + ((A - A0) + (B - B0) - (C - C0))) := by ring
  rw [e]
  have hAB : |A| + |B| ≤ (1 + u)^i * |A0| + (1 + u)^j * |B0| := add_le_add hAb hBb
  calc |(fl (S - C) - (S - C)) + ((S - (A + B)) + ((A - A0) + (B - B0) - (C - C0)))|
      ≤ |fl (S - C) - (S - C)| + (|S - (A + B)| + (|A - A0| + |B - B0| + |C - C0|)) := by
        refine le_trans (abs_add_le _ _) ?_
        gcongr
        refine le_trans (abs_add_le _ _) ?_
        gcongr
        refine le_trans (abs_sub _ _) ?_
        gcongr
        exact abs_add_le _ _
    _ ≤ u * ((1 + u) * ((1 + u)^i * |A0| + (1 + u)^j * |B0|) + (1 + u)^l * |C0|)
          + (u * ((1 + u)^i * |A0| + (1 + u)^j * |B0|)
            + (((1 + u)^i - 1) * |A0| + ((1 + u)^j - 1) * |B0| + ((1 + u)^l - 1) * |C0|)) := by
        have a1 : u * ((1 + u) * (|A| + |B|) + |C|)
            ≤ u * ((1 + u) * ((1 + u)^i * |A0| + (1 + u)^j * |B0|) + (1 + u)^l * |C0|) := by
          gcongr
        have a2 : u * (|A| + |B|) ≤ u * ((1 + u)^i * |A0| + (1 + u)^j * |B0|) := by gcongr
        linarith
    _ = g u (i + 2) * |A0| + g u (j + 2) * |B0| + g u (l + 1) * |C0| := by unfold g; ring

/-- the `d⁴` part of the increment depends on the centre through `-4d³e + 6d²e² - 4de³ + e⁴` -/
theorem incrA4_shift (x a μ c : K) (hc : 0 ≤ c) :
    |(x - a)^4 * c - (x - μ)^4 * c|
      ≤ c * (4 * |x - μ|^3 * |a - μ| + 6 * (x - μ)^2 * (a - μ)^2 + 4 * |x - μ| * |a - μ|^3
          + (a - μ)^4) := by
  have h : (x - a)^4 * c - (x - μ)^4 * c
      = c * (-(4 * (x - μ)^3 * (a - μ)) + 6 * (x - μ)^2 * (a - μ)^2 - 4 * (x - μ) * (a - μ)^3
          + (a - μ)^4) := by ring
  rw [h, abs_mul, abs_of_nonneg hc]
  gcongr
  calc |-(4 * (x - μ)^3 * (a - μ)) + 6 * (x - μ)^2 * (a - μ)^2 - 4 * (x - μ) * (a - μ)^3
          + (a - μ)^4|
      ≤ |-(4 * (x - μ)^3 * (a - μ))| + |6 * (x - μ)^2 * (a - μ)^2| + |4 * (x - μ) * (a - μ)^3|
          + |(a - μ)^4| := by
        refine le_trans (abs_add_le _ _) ?_
        gcongr
        refine le_trans (abs_sub _ _) ?_
        gcongr
        exact abs_add_le _ _
    _ = 4 * |x - μ|^3 * |a - μ| + 6 * (x - μ)^2 * (a - μ)^2 + 4 * |x - μ| * |a - μ|^3
          + (a - μ)^4 := by
        simp only [abs_neg, abs_mul, abs_pow, sq_abs, abs_of_pos (by norm_num : (0:K) < 4),
          abs_of_pos (by norm_num : (0:K) < 6)]
        congr 1
        rw [← abs_pow, abs_of_nonneg (by positivity : 0 ≤ (a - μ)^4)]

/-- the `d²·sum_2` part of the increment depends on the centre and on the error of `sum_2` through
`d²·D2 + (-2de + e²)·(T + D2)` -/
theorem incrB4_shift (x a μ S2 Tv k : K) (hk : 0 < k) (hT : 0 ≤ Tv) :
    |6 * ((x - a) / k * ((x - a) / k)) * S2 - 6 * (x - μ)^2 * Tv / k^2|
      ≤ 6 / k^2 * ((x - μ)^2 * |S2 - Tv|
          + (2 * |x - μ| * |a - μ| + (a - μ)^2) * (Tv + |S2 - Tv|)) := by
  have h : 6 * ((x - a) / k * ((x - a) / k)) * S2 - 6 * (x - μ)^2 * Tv / k^2
      = 6 / k^2 * ((x - μ)^2 * (S2 - Tv)
          + (-(2 * (x - μ) * (a - μ)) + (a - μ)^2) * (Tv + (S2 - Tv))) := by
    field_simp
    ring
  have h6 : (0 : K) ≤ 6 / k^2 := by positivity
  rw [h, abs_mul, abs_of_nonneg h6]
  gcongr
  have hS : |Tv + (S2 - Tv)| ≤ Tv + |S2 - Tv| := by
    refine le_trans (abs_add_le _ _) ?_
    rw [abs_of_nonneg hT]
  have hde : |-(2 * (x - μ) * (a - μ)) + (a - μ)^2| ≤ 2 * |x - μ| * |a - μ| + (a - μ)^2 := by
    refine le_trans (abs_add_le _ _) ?_
    rw [abs_neg, abs_mul, abs_mul, abs_of_pos (by norm_num : (0:K) < 2),
      abs_of_nonneg (sq_nonneg (a - μ))]
  calc |(x - μ)^2 * (S2 - Tv) + (-(2 * (x - μ) * (a - μ)) + (a - μ)^2) * (Tv + (S2 - Tv))|
      ≤ |(x - μ)^2 * (S2 - Tv)| + |(-(2 * (x - μ) * (a - μ)) + (a - μ)^2) * (Tv + (S2 - Tv))| :=
        abs_add_le _ _
    _ = (x - μ)^2 * |S2 - Tv| + |-(2 * (x - μ) * (a - μ)) + (a - μ)^2| * |Tv + (S2 - Tv)| := by
        rw [abs_mul, abs_mul, abs_of_nonneg (sq_nonneg (x - μ))]
    _ ≤ (x - μ)^2 * |S2 - Tv| + (2 * |x - μ| * |a - μ| + (a - μ)^2) * (Tv + |S2 - Tv|) := by
        gcongr

/-- the `d·sum_3` part of the increment depends on the centre and on the error of `sum_3` through
`d·D3 - e·U - e·D3` -/
theorem incrC4_shift (x a μ S3 Uv k : K) (hk : 0 < k) :
    |4 * ((x - a) / k) * S3 - 4 * (x - μ) * Uv / k|
      ≤ 4 / k * (|x - μ| * |S3 - Uv| + |a - μ| * |Uv| + |a - μ| * |S3 - Uv|) := by
  have h : 4 * ((x - a) / k) * S3 - 4 * (x - μ) * Uv / k
      = 4 / k * ((x - μ) * (S3 - Uv) - (a - μ) * Uv - (a - μ) * (S3 - Uv)) := by ring
  have h4 : (0 : K) ≤ 4 / k := by positivity
  rw [h, abs_mul, abs_of_nonneg h4]
  gcongr
  calc |(x - μ) * (S3 - Uv) - (a - μ) * Uv - (a - μ) * (S3 - Uv)|
      ≤ |(x - μ) * (S3 - Uv)| + |(a - μ) * Uv| + |(a - μ) * (S3 - Uv)| :=
        le_trans (abs_sub _ _) (by gcongr; exact abs_sub _ _)
    _ = |x - μ| * |S3 - Uv| + |a - μ| * |Uv| + |a - μ| * |S3 - Uv| := by
        rw [abs_mul, abs_mul, abs_mul]

theorem abs_le_of_shift {X0 Xs Δ : K} (h : |X0 - Xs| ≤ Δ) : |X0| ≤ |Xs| + Δ := by
  have : X0 = Xs + (X0 - Xs) := by ring
  calc |X0| = |Xs + (X0 - Xs)| := by rw [← this]
    _ ≤ |Xs| + |X0 - Xs| := abs_add_le _ _
    _ ≤ |Xs| + Δ := by linarith

/-- **One step of the error recurrence of `sum_4`.** -/
theorem kurt_step_error (fl : K → K) (u : K) (hu : 0 ≤ u) (hfl : ∀ t, |fl t - t| ≤ u * |t|)
    (x a μ S2 Tv S3 Uv S4 Qv k : K) (hk : 0 < k)
    (hq : k * k + 3 * k + 3 ≤ 13 * (k * k - 3 * k + 3))
    (hc : 0 ≤ (k - 1) * (k * k - 3 * k + 3) / k^3) (hT : 0 ≤ Tv) :
    let δn := fl (fl (x - a) / k)
    let A := fl (fl (fl (fl (fl (x - a) * δn) * fl (k - 1)) * fl (δn * δn))
      * fl (fl (fl (k * k) - fl (3 * k)) + 3))
    let B := fl (fl (6 * fl (δn * δn)) * S2)
    let C := fl (fl (4 * δn) * S3)
    let c := (k - 1) * (k * k - 3 * k + 3) / k^3
    let As := (x - μ)^4 * c
    let Bs := 6 * (x - μ)^2 * Tv / k^2
    let Cs := 4 * (x - μ) * Uv / k
    let ΔA := c * (4 * |x - μ|^3 * |a - μ| + 6 * (x - μ)^2 * (a - μ)^2 + 4 * |x - μ| * |a - μ|^3
      + (a - μ)^4)
    let ΔB := 6 / k^2 * ((x - μ)^2 * |S2 - Tv|
      + (2 * |x - μ| * |a - μ| + (a - μ)^2) * (Tv + |S2 - Tv|))
    let ΔC := 4 / k * (|x - μ| * |S3 - Uv| + |a - μ| * |Uv| + |a - μ| * |S3 - Uv|)
    |fl (S4 + fl (fl (A + B) - C)) - (Qv + (As + Bs - Cs))|
      ≤ (1 + u) * (|S4 - Qv| + g u 54 * |As| + g u 9 * |Bs| + g u 5 * |Cs|
          + (1 + g u 54) * ΔA + (1 + g u 9) * ΔB + (1 + g u 5) * ΔC)
        + u * |Qv + (As + Bs - Cs)| := by
  intro δn A B C c As Bs Cs ΔA ΔB ΔC
  have hA : RE u 52 A ((x - a)^4 * c) := kurt_incrA_RE fl u hu hfl x a k hk.le hq
  have hB : RE u 7 B (6 * ((x - a) / k * ((x - a) / k)) * S2) := kurt_incrB_RE fl u hu hfl x a k S2
  have hC : RE u 4 C (4 * ((x - a) / k) * S3) := kurt_incrC_RE fl u hu hfl x a k S3
  have hsub := round_addsub_error fl u hu hfl hA hB hC
  have hA0 : |(x - a)^4 * c - As| ≤ ΔA := incrA4_shift x a μ c hc
  have hB0 : |6 * ((x - a) / k * ((x - a) / k)) * S2 - Bs| ≤ ΔB := incrB4_shift x a μ S2 Tv k hk hT
  have hC0 : |4 * ((x - a) / k) * S3 - Cs| ≤ ΔC := incrC4_shift x a μ S3 Uv k hk
  set A0 := (x - a)^4 * c with hA0def
  set B0 := 6 * ((x - a) / k * ((x - a) / k)) * S2 with hB0def
  set C0 := 4 * ((x - a) / k) * S3 with hC0def
  have hg54 := g_nonneg hu 54
  have hg9 := g_nonneg hu 9
  have hg5 := g_nonneg hu 5
  have hA0le : |A0| ≤ |As| + ΔA := abs_le_of_shift hA0
  have hB0le : |B0| ≤ |Bs| + ΔB := abs_le_of_shift hB0
  have hC0le : |C0| ≤ |Cs| + ΔC := abs_le_of_shift hC0
  have hp : |fl (fl (A + B) - C) - (As + Bs - Cs)|
      ≤ g u 54 * |As| + g u 9 * |Bs| + g u 5 * |Cs|
        + (1 + g u 54) * ΔA + (1 + g u 9) * ΔB + (1 + g u 5) * ΔC := by
    have e : fl (fl (A + B) - C) - (As + Bs - Cs)
        = (fl (fl (A + B) - C) - (A0 + B0 - C0)) + ((A0 - As) + (B0 - Bs) - (C0 - Cs)) := by ring
    rw [e]
    calc |(fl (fl (A + B) - C) - (A0 + B0 - C0)) + ((A0 - As) + (B0 - Bs) - (C0 - Cs))|
        ≤ |fl (fl (A + B) - C) - (A0 + B0 - C0)| + (|A0 - As| + |B0 - Bs| + |C0 - Cs|) := by
          refine le_trans (abs_add_le _ _) ?_
          gcongr
          refine le_trans (abs_sub _ _) ?_
          gcongr
          exact abs_add_le _ _
      _ ≤ (g u 54 * |A0| + g u 9 * |B0| + g u 5 * |C0|) + (ΔA + ΔB + ΔC) := by
          have : |fl (fl (A + B) - C) - (A0 + B0 - C0)|
              ≤ g u 54 * |A0| + g u 9 * |B0| + g u 5 * |C0| := hsub
          linarith
      _ ≤ (g u 54 * (|As| + ΔA) + g u 9 * (|Bs| + ΔB) + g u 5 * (|Cs| + ΔC))
            + (ΔA + ΔB + ΔC) := by gcongr
      _ = g u 54 * |As| + g u 9 * |Bs| + g u 5 * |Cs|
            + (1 + g u 54) * ΔA + (1 + g u 9) * ΔB + (1 + g u 5) * ΔC := by ring
  refine le_trans (round_add_error fl u hu hfl S4 (fl (fl (A + B) - C)) Qv (As + Bs - Cs)) ?_
  have h1u : 0 ≤ 1 + u := by linarith
  have : |S4 - Qv| + |fl (fl (A + B) - C) - (As + Bs - Cs)|
      ≤ |S4 - Qv| + g u 54 * |As| + g u 9 * |Bs| + g u 5 * |Cs|
        + (1 + g u 54) * ΔA + (1 + g u 9) * ΔB + (1 + g u 5) * ΔC := by
    linarith
  have := mul_le_mul_of_nonneg_left this h1u
  linarith

end KurtErr

#print axioms KurtErr.poly_abs_err
#print axioms KurtErr.kurt_step_error
