import AvgProofs.VarErrStep
import AvgProofs.VarErrSpec
import AvgProofs.Project

/-!
# Welford's sum of squares under the standard model of rounding: the induction over the stream

`var_fold_error_gen`: for every add-only stream `xs` at the carrier `RF2 r`, if the running mean of every
prefix `ys` is within `E |ys|` of the exact mean, then with `n = |xs|`, `γ = (1+u)^8 - 1`,
`T = Σ (x - mean)²`:

`|sum_2 - T| ≤ (1+u)^n · ( (γ + n·u)·T + (1+γ)·Σ_{i<n} (2·E_i·|dev_i| + E_i²)·i/(i+1) )`.

`var_fold_error_cs`: the same after Cauchy-Schwarz on the cross term, in a square-root-free form.
-/
open Avg MSpec Finset VarSpec

namespace Avg
variable {α : Type} [Add α] [Sub α] [Mul α] [Div α] [NatCast α]

omit [Mul α] in
/-- any carrier: the count after a fold of `Mean.add` is the number of observations added -/
theorem Mean.fold_n_ve (xs : List α) (s : Mean α) : (xs.foldl Mean.add s).n = s.n + xs.length := by
  induction xs generalizing s with
  | nil => rfl
  | cons x xs ih => simp only [List.foldl_cons, ih, List.length_cons, Mean.add]; omega

/-- any carrier: the count kept by `Variance` is exact -/
theorem Variance.fold_n_ve (xs : List α) :
    (xs.foldl Variance.add Variance.new).avg.n = xs.length := by
  rw [Variance.fold_avg, Mean.fold_n_ve]; simp [Variance.new, Mean.new]
end Avg

namespace VarErr
variable {K : Type} [Field K] [LinearOrder K] [IsStrictOrderedRing K]

/-- the eight-rounding relative error of the computed increment -/
def gam (u : K) : K := (1 + u)^8 - 1

theorem gam_nonneg {u : K} (hu : 0 ≤ u) : 0 ≤ gam u := by
  have := RE.one_le_pow hu 8
  unfold gam; linarith

/-- the accumulated effect of the error of the running mean (`E i` bounds it after `i` observations) -/
def crossSum (E : ℕ → K) (vs : List K) : K :=
  ∑ i ∈ range vs.length, (2 * E i * |dev vs i| + (E i)^2) * ((i : K) / ((i : K) + 1))

omit [IsStrictOrderedRing K] in
theorem crossSum_snoc (E : ℕ → K) (vs : List K) (x : K) :
    crossSum E (vs ++ [x]) = crossSum E vs
      + (2 * E vs.length * |x - mean vs| + (E vs.length)^2) * ((vs.length : K) / ((vs.length : K) + 1)) :=
  sum_dev_snoc (fun i d => (2 * E i * |d| + (E i)^2) * ((i : K) / ((i : K) + 1))) vs x

/-- the algebra of one induction step: the factor `(1+u)` and the new terms are absorbed -/
theorem step_absorb (u γ n P Tv J C c' D cc : K) (hu : 0 ≤ u) (hγ : 0 ≤ γ) (hn : 0 ≤ n) (hP : 1 ≤ P)
    (hT : 0 ≤ Tv) (hJ : 0 ≤ J) (hc' : 0 ≤ c') (hcc : cc ≤ c')
    (hD : D ≤ P * ((γ + n * u) * Tv + (1 + γ) * C)) :
    (1 + u) * (D + γ * J + (1 + γ) * cc) + u * (Tv + J)
      ≤ ((1 + u) * P) * ((γ + (n + 1) * u) * (Tv + J) + (1 + γ) * (C + c')) := by
  have hX0 : 0 ≤ γ * J + (1 + γ) * c' := by positivity
  have hPu : 1 ≤ (1 + u) * P := by nlinarith
  have h0 : (1 + u) * (D + γ * J + (1 + γ) * cc)
      ≤ (1 + u) * (P * ((γ + n * u) * Tv + (1 + γ) * C) + γ * J + (1 + γ) * c') := by gcongr
  have h1 : (1 + u) * (γ * J + (1 + γ) * c') ≤ (1 + u) * P * (γ * J + (1 + γ) * c') := by
    have : γ * J + (1 + γ) * c' ≤ P * (γ * J + (1 + γ) * c') := by nlinarith
    nlinarith
  have h2 : u * (Tv + J) ≤ (1 + u) * P * (u * (Tv + J)) := by
    have : 0 ≤ u * (Tv + J) := by positivity
    nlinarith
  have h3 : (1 + u) * P * (n * u * Tv) ≤ (1 + u) * P * (n * u * (Tv + J)) := by
    gcongr; linarith
  have e1 : (1 + u) * (P * ((γ + n * u) * Tv + (1 + γ) * C) + γ * J + (1 + γ) * c')
      = (1 + u) * P * ((γ + n * u) * Tv + (1 + γ) * C) + (1 + u) * (γ * J + (1 + γ) * c') := by ring
  have e2 : ((1 + u) * P) * ((γ + (n + 1) * u) * (Tv + J) + (1 + γ) * (C + c'))
      = (1 + u) * P * ((γ + n * u) * Tv + (1 + γ) * C) + (1 + u) * P * (γ * J + (1 + γ) * c')
        + (1 + u) * P * (u * (Tv + J))
        + ((1 + u) * P * (n * u * (Tv + J)) - (1 + u) * P * (n * u * Tv)) := by ring
  rw [e2]
  linarith

/-- the value computed by `Variance.add` for `sum_2` at the carrier `RF2 r`, operation by operation -/
theorem sum2_add_val (r : Rnd2 K) (s : Variance (RF2 r)) (x : RF2 r) :
    (s.add x).sum_2.val =
      r.fl (s.sum_2.val +
        r.fl (r.fl (r.fl (r.fl (r.fl (x.val - s.avg.avg.val) / ((s.avg.n + 1 : ℕ) : K))
                    * r.fl (r.fl (x.val - s.avg.avg.val) / ((s.avg.n + 1 : ℕ) : K)))
                * ((s.avg.n + 1 : ℕ) : K))
              * r.fl (((s.avg.n + 1 : ℕ) : K) - 1))) := by
  have h : (s.add x).sum_2.val =
      r.fl (s.sum_2.val +
        r.fl (r.fl (r.fl (r.fl (r.fl (x.val - s.avg.avg.val) / ((s.avg.n + 1 : ℕ) : K))
                    * r.fl (r.fl (x.val - s.avg.avg.val) / ((s.avg.n + 1 : ℕ) : K)))
                * ((s.avg.n + 1 : ℕ) : K))
              * r.fl (((s.avg.n + 1 : ℕ) : K) - ((1 : ℕ) : K)))) := rfl
  rw [h, Nat.cast_one]

theorem var_fold_error_gen (r : Rnd2 K) (E : ℕ → K) (hE0 : ∀ i, 0 ≤ E i) :
    ∀ xs : List (RF2 r),
      (∀ ys, ys <+: xs →
        |(ys.foldl Mean.add Mean.new).avg.val - mean (ys.map RF2.val)| ≤ E ys.length) →
      |(xs.foldl Variance.add Variance.new).sum_2.val - T (xs.map RF2.val)|
        ≤ (1 + r.u)^xs.length *
            ((gam r.u + xs.length * r.u) * T (xs.map RF2.val)
              + (1 + gam r.u) * crossSum E (xs.map RF2.val)) := by
  intro xs
  induction xs using List.reverseRecOn with
  | nil =>
    intro _
    have h0 : (Variance.new : Variance (RF2 r)).sum_2.val = 0 :=
      (Nat.cast_zero : ((0 : ℕ) : K) = 0)
    simp [h0, T_nil, crossSum]
  | append_singleton xs x ih =>
    intro hE
    have hu := r.u_nonneg
    have hg := gam_nonneg hu
    have ih' := ih (fun ys hys => hE ys (hys.trans (List.prefix_append xs [x])))
    have hmean := hE xs (List.prefix_append xs [x])
    rw [List.foldl_append, List.foldl_cons, List.foldl_nil, List.map_append, List.map_cons,
      List.map_nil, List.length_append, List.length_singleton]
    set s := xs.foldl Variance.add Variance.new with hs
    set vs := xs.map RF2.val with hvs
    have hlen : vs.length = xs.length := by simp [hvs]
    have hn : s.avg.n = xs.length := Variance.fold_n_ve xs
    have havg : s.avg.avg = (xs.foldl Mean.add Mean.new).avg := by
      rw [hs, Variance.fold_avg]; rfl
    rw [← havg] at hmean
    rw [sum2_add_val, hn, T_snoc, crossSum_snoc, hlen]
    push_cast
    set n : K := (xs.length : K) with hnK
    have hn0 : 0 ≤ n := Nat.cast_nonneg _
    have hk : (1 : K) ≤ n + 1 := by linarith
    have step := var_step_error r.fl r.u hu r.err x.val s.avg.avg.val (mean vs) s.sum_2.val (T vs)
      (n + 1) hk (T_nonneg vs)
    simp only [add_sub_cancel_right] at step ⊢
    refine le_trans step ?_
    have hq0 : (0 : K) ≤ n / (n + 1) := by positivity
    have hγ' : (1 + r.u)^8 - 1 = gam r.u := rfl
    rw [hγ', pow_succ (1 + r.u) xs.length]
    have hsq : (s.avg.avg.val - mean vs)^2 = |s.avg.avg.val - mean vs|^2 := (sq_abs _).symm
    rw [hsq]
    have hEn0 := hE0 xs.length
    have he0 : 0 ≤ |s.avg.avg.val - mean vs| := abs_nonneg _
    have hg0 : 0 ≤ |x.val - mean vs| := abs_nonneg _
    have hc : (2 * |s.avg.avg.val - mean vs| * |x.val - mean vs| + |s.avg.avg.val - mean vs|^2)
          * (n / (n + 1))
        ≤ (2 * E xs.length * |x.val - mean vs| + (E xs.length)^2) * (n / (n + 1)) := by
      have : |s.avg.avg.val - mean vs|^2 ≤ (E xs.length)^2 := by nlinarith
      gcongr
    have := step_absorb r.u (gam r.u) n ((1 + r.u)^xs.length) (T vs)
      ((x.val - mean vs)^2 * (n / (n + 1))) (crossSum E vs)
      ((2 * E xs.length * |x.val - mean vs| + (E xs.length)^2) * (n / (n + 1)))
      |s.sum_2.val - T vs| _ hu hg hn0 (RE.one_le_pow hu _) (T_nonneg vs) (by positivity)
      (by positivity) hc ih'
    rw [mul_comm ((1 + r.u)^xs.length) (1 + r.u)]
    exact this

end VarErr

#print axioms VarErr.var_fold_error_gen
