import AvgProofs.MomentsAcc
import AvgProofs.MomentsCanon
import AvgProofs.Project

/-! Agreement of `define_moments!(T, N)`, `N ≥ 4`, with `Kurtosis`/`Skewness`/`Variance`/`Mean`. -/
open Avg
set_option linter.unusedSectionVars false
namespace MSpec

theorem momN_sumPow_four_zero (xs : List ℝ) (c : ℝ) (h : sumPow xs c 4 = 0) : sumPow xs c 2 = 0 := by
  induction xs with
  | nil => simp
  | cons x xs ih =>
    rw [sumPow_cons] at h ⊢
    have h4 : 0 ≤ sumPow xs c 4 := by
      clear h ih
      induction xs with
      | nil => simp
      | cons y ys ih => rw [sumPow_cons]; positivity
    have hx4 : 0 ≤ (x - c)^4 := by positivity
    have e1 : (x - c)^4 = 0 := by linarith
    have e2 : sumPow xs c 4 = 0 := by linarith
    have e3 : x - c = 0 := by simpa using e1
    rw [ih e2, e3]; simp

/-- `standardized_moment(3)` of the canonical state is `Skewness::skewness` of the canonical state -/
theorem canon_std3_eq_skewness (N : Nat) (hN : 3 ≤ N) (xs : List ℝ) (hv : sumPow xs (mean xs) 2 ≠ 0) :
    (canonM N xs).standardizedMoment N 3 = .val (canonK xs).avg.skewness := by
  rw [canonM_standardizedMoment N xs 3 (le_refl 3) hN hv]
  have hne := momN_ne_nil_of_sumPow_ne_zero xs _ _ hv
  have hpos : 0 < xs.length := List.length_pos_of_ne_nil hne
  have hn0 : xs.length ≠ 0 := by omega
  have hnR : (0:ℝ) < xs.length := by exact_mod_cast hpos
  have hS2 : 0 < sumPow xs (mean xs) 2 := lt_of_le_of_ne (momN_sumPow_two_nonneg _ _) (Ne.symm hv)
  congr 1
  simp only [Skewness.skewness, canonK, hn0, if_false, FloatOps.eqb, FloatOps.sqrt, Nat.cast_zero]
  set S2 := sumPow xs (mean xs) 2
  set S3 := sumPow xs (mean xs) 3
  set n : ℝ := (xs.length : ℝ)
  obtain ⟨a, ha, hSa⟩ : ∃ a : ℝ, 0 < a ∧ S2 = a^2 := ⟨Real.sqrt S2, Real.sqrt_pos.mpr hS2, (Real.sq_sqrt hS2.le).symm⟩
  obtain ⟨b, hb, hnb⟩ : ∃ b : ℝ, 0 < b ∧ n = b^2 := ⟨Real.sqrt n, Real.sqrt_pos.mpr hnR, (Real.sq_sqrt hnR.le).symm⟩
  rw [hSa, hnb]
  have e1 : a^2 * a^2 * a^2 = (a^3)^2 := by ring
  have e2 : a^2 / b^2 = (a/b)^2 := by ring
  have r1 : Real.sqrt ((a^3)^2) = a^3 := Real.sqrt_sq (by positivity)
  have r2 : Real.sqrt ((a/b)^2) = a/b := Real.sqrt_sq (by positivity)
  have r3 : Real.sqrt (b^2) = b := Real.sqrt_sq hb.le
  simp only [e1, e2, r1, r2, r3]
  by_cases h3 : S3 = 0
  · simp [h3]
  · simp only [h3, decide_false, Bool.false_eq_true, if_false]
    field_simp

/-- `standardized_moment(4) - 3` of the canonical state is `Kurtosis::kurtosis` of the canonical state -/
theorem canon_std4_eq_kurtosis (N : Nat) (hN : 4 ≤ N) (xs : List ℝ) (hv : sumPow xs (mean xs) 2 ≠ 0) :
    ∃ v, (canonM N xs).standardizedMoment N 4 = .val v ∧ v - 3 = (canonK xs).kurtosis := by
  rw [canonM_standardizedMoment N xs 4 (by omega) hN hv]
  refine ⟨_, rfl, ?_⟩
  have hne := momN_ne_nil_of_sumPow_ne_zero xs _ _ hv
  have hpos : 0 < xs.length := List.length_pos_of_ne_nil hne
  have hn0 : xs.length ≠ 0 := by omega
  have hnR : (0:ℝ) < xs.length := by exact_mod_cast hpos
  have hm2 := momN_m2_pos xs hv
  have h4 : sumPow xs (mean xs) 4 ≠ 0 := fun h => hv (momN_sumPow_four_zero xs _ h)
  simp only [Kurtosis.kurtosis, canonK, hn0, if_false, FloatOps.eqb, Nat.cast_zero, h4, decide_false,
    Bool.false_eq_true, Nat.cast_ofNat]
  have e : Real.sqrt (sumPow xs (mean xs) 2 / (xs.length:ℝ)) ^ 4 = (sumPow xs (mean xs) 2 / (xs.length:ℝ))^2 := by
    have : Real.sqrt (sumPow xs (mean xs) 2 / (xs.length:ℝ)) ^ 4
        = (Real.sqrt (sumPow xs (mean xs) 2 / (xs.length:ℝ)) ^ 2)^2 := by ring
    rw [this, Real.sq_sqrt hm2.le]
  rw [e]
  field_simp

end MSpec
#print axioms MSpec.canon_std3_eq_skewness
#print axioms MSpec.canon_std4_eq_kurtosis
