import AvgProofs.SpecBasic
import AvgProofs.MomentsAdd

/-! `add` on canonical states, folds, and the projections Kurtosis → Skewness → Variance → Mean. -/
open Avg

namespace MSpec
variable {K : Type} [Field K] [CharZero K]

def canonS (xs : List K) : Skewness K := (canonK xs).avg
def canonV (xs : List K) : Variance K := (canonK xs).avg.avg
def canonMean (xs : List K) : Mean K := (canonK xs).avg.avg.avg

theorem canonK_nil : canonK ([] : List K) = Kurtosis.new := by
  simp [canonK, Kurtosis.new, Skewness.new, Variance.new, Mean.new, mean]

theorem kurtosis_add (xs : List K) (x : K) : (canonK xs).add x = canonK (xs ++ [x]) := by
  have hn : ((xs.length + 1 : Nat) : K) ≠ 0 := Nat.cast_ne_zero.mpr (Nat.succ_ne_zero _)
  have hmean := mean_snoc xs x
  have e1 := sumPow_one_mean xs
  have e0 := sumPow_zero xs (mean xs)
  have e2 := shift2 xs (mean (xs ++ [x])) (mean xs)
  have e3 := shift3 xs (mean (xs ++ [x])) (mean xs)
  have e4 := shift4 xs (mean (xs ++ [x])) (mean xs)
  rw [e1, e0] at e2 e3 e4
  simp only [Kurtosis.add, Kurtosis.addInner, Skewness.addInner, Variance.addInner, canonK,
    List.length_append, List.length_cons, List.length_nil, Nat.zero_add]
  have hlen : (xs.length : K) = ((xs.length + 1 : Nat) : K) - 1 := by simp
  set n : K := ((xs.length + 1 : Nat) : K) with hnn
  set μ := mean xs with hμ
  have hμ' : mean (xs ++ [x]) = μ + (x - μ) / n := hmean.symm
  rw [hμ'] at e2 e3 e4
  rw [hlen] at e2 e3 e4
  congr 1
  · congr 1
    · congr 1
      · congr 1
      · rw [sumPow_append, hμ', e2]; simp only [sumPow_cons, sumPow_nil, Nat.cast_one]; field_simp; ring
    · rw [sumPow_append, hμ', e3]; simp only [sumPow_cons, sumPow_nil, Nat.cast_one, Nat.cast_ofNat]; field_simp; ring
  · rw [sumPow_append, hμ', e4]; simp only [sumPow_cons, sumPow_nil, Nat.cast_one, Nat.cast_ofNat]; field_simp; ring

theorem kurtosis_fold (xs : List K) : xs.foldl Kurtosis.add Kurtosis.new = canonK xs := by
  induction xs using List.reverseRecOn with
  | nil => simp [canonK_nil]
  | append_singleton xs x ih => rw [List.foldl_append, ih]; simp [kurtosis_add]

end MSpec
#print axioms MSpec.kurtosis_add
#print axioms MSpec.kurtosis_fold
