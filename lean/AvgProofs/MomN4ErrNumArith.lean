import AvgProofs.MomNErrNum
import AvgProofs.KurtErrNumArith
import AvgProofs.MomN4ErrNumMono

/-!
# The arithmetic of the numerical forward-error bound of `m[2]` of `define_moments!`

`g10_le`, `g24_le`: `(1+u)^10 - 1 ≤ 10.1·u`, `(1+u)^24 - 1 ≤ 24.3·u` for `u ≤ 1/1856`.
`lead3_le`: `(1+u)^(3n) ≤ 64/61`, `(1+u)^(3n) - 1 ≤ (192/61)·n·u` for `n·u ≤ 1/64`.
`num_arithM4`: the last algebraic step of `MomN4Err.mom4_fold_error_num` (first the rounding factors are replaced
by numerals, `num_arithM4_fac`; then the polynomial inequality is checked monomial by monomial,
`num_arithM4_mono`).
-/
open SkewErr KurtErr MomNErr

namespace MomN4Err
variable {K : Type} [Field K] [LinearOrder K] [IsStrictOrderedRing K]

/-- ten roundings cost at most `10.1·u` relative, for `u ≤ 1/1856` -/
theorem g10_le (u : K) (hu : 0 ≤ u) (h : u ≤ 1/1856) : g u 10 ≤ 101/10 * u := by
  have p0 : ∀ i : ℕ, (0 : K) ≤ (1 + u)^i := fun i => by positivity
  have h1 : (1 + u)^1 ≤ 1 + 1 * u := by rw [pow_one, one_mul]
  have h2 : (1 + u)^2 ≤ 1 + 2001/1000 * u := by
    have e : (1 + u)^2 = (1 + u)^1 * (1 + u)^1 := by ring
    rw [e]
    exact pow_step u _ _ 1 1 _ hu h (by norm_num) (by norm_num) (p0 1) h1 h1 (by norm_num)
  have h4 := pow4_le u hu h
  have h8 : (1 + u)^8 ≤ 1 + 803/100 * u := by
    have e : (1 + u)^8 = (1 + u)^4 * (1 + u)^4 := by ring
    rw [e]
    exact pow_step u _ _ (401/100) (401/100) _ hu h (by norm_num) (by norm_num) (p0 4) h4 h4
      (by norm_num)
  have e : (1 + u)^10 = (1 + u)^8 * (1 + u)^2 := by ring
  unfold g; rw [e]
  have := pow_step u _ _ (803/100) (2001/1000) (101/10) hu h (by norm_num) (by norm_num) (p0 8) h8 h2
    (by norm_num)
  linarith

/-- twenty-four roundings cost at most `24.3·u` relative, for `u ≤ 1/1856` -/
theorem g24_le (u : K) (hu : 0 ≤ u) (h : u ≤ 1/1856) : g u 24 ≤ 243/10 * u := by
  have p0 : ∀ i : ℕ, (0 : K) ≤ (1 + u)^i := fun i => by positivity
  have h4 := pow4_le u hu h
  have h8 : (1 + u)^8 ≤ 1 + 803/100 * u := by
    have e : (1 + u)^8 = (1 + u)^4 * (1 + u)^4 := by ring
    rw [e]
    exact pow_step u _ _ (401/100) (401/100) _ hu h (by norm_num) (by norm_num) (p0 4) h4 h4
      (by norm_num)
  have h16 : (1 + u)^16 ≤ 1 + 161/10 * u := by
    have e : (1 + u)^16 = (1 + u)^8 * (1 + u)^8 := by ring
    rw [e]
    exact pow_step u _ _ (803/100) (803/100) _ hu h (by norm_num) (by norm_num) (p0 8) h8 h8
      (by norm_num)
  have e : (1 + u)^24 = (1 + u)^16 * (1 + u)^8 := by ring
  unfold g; rw [e]
  have := pow_step u _ _ (161/10) (803/100) (243/10) hu h (by norm_num) (by norm_num) (p0 16) h16 h8
    (by norm_num)
  linarith

/-- `(1+u)^(3n) ≤ 64/61` and `(1+u)^(3n) - 1 ≤ (192/61)·n·u` when `n·u ≤ 1/64` -/
theorem lead3_le (u : K) (hu : 0 ≤ u) (n : ℕ) (h : (n : K) * u ≤ 1/64) :
    (1 + u)^(3 * n) ≤ 64/61 ∧ (1 + u)^(3 * n) - 1 ≤ 192/61 * (n * u) := by
  have h1 := one_add_pow_mul_le u hu (3 * n)
  push_cast at h1
  have hp : 0 ≤ (1 + u)^(3 * n) := by positivity
  have hnu : 0 ≤ (n : K) * u := by positivity
  have hs : 0 ≤ (1 + u)^(3 * n) * (3 * (1/64 - (n : K) * u)) :=
    mul_nonneg hp (by linarith)
  have e : (1 + u)^(3 * n) * (1 - 3 * (n : K) * u)
      = (1 + u)^(3 * n) * (61/64) + (1 + u)^(3 * n) * (3 * (1/64 - (n : K) * u)) := by ring
  rw [e] at h1
  have hP : (1 + u)^(3 * n) ≤ 64/61 := by linarith
  refine ⟨hP, ?_⟩
  have h2 : (1 + u)^(3 * n) * (3 * ((n : K) * u)) ≤ 64/61 * (3 * ((n : K) * u)) := by gcongr
  have e2 : (1 + u)^(3 * n) * (1 - 3 * (n : K) * u)
      = (1 + u)^(3 * n) - (1 + u)^(3 * n) * (3 * ((n : K) * u)) := by ring
  have h1' := one_add_pow_mul_le u hu (3 * n)
  push_cast at h1'
  rw [e2] at h1'
  linarith

/-- numerical values for the rounding factors inside the accumulated sum -/
theorem num_arithM4_fac_inner (gA gB gC u n Tn R₀ VA4 VB4 VC4 VD4 VR VB V3 Nn Eb η a1 a2 a3 p1 p2 w h3 : K)
    (_hu : 0 ≤ u) (hn : 0 ≤ n) (hT : 0 ≤ Tn) (hR : 0 ≤ R₀)
    (hVA4 : 0 ≤ VA4) (hVB4 : 0 ≤ VB4) (hVC4 : 0 ≤ VC4) (hVD4 : 0 ≤ VD4) (hVR : 0 ≤ VR)
    (hVB : 0 ≤ VB) (hV3 : 0 ≤ V3) (hNn0 : 0 ≤ Nn) (hEb0 : 0 ≤ Eb) (hη0 : 0 ≤ η) (ha10 : 0 ≤ a1)
    (ha20 : 0 ≤ a2) (ha30 : 0 ≤ a3) (hp10 : 0 ≤ p1) (hp20 : 0 ≤ p2) (hw0 : 0 ≤ w) (hh30 : 0 ≤ h3)
    (hgA' : gA ≤ 243/10 * u) (hgB' : gB ≤ 101/10 * u)
    (hgC' : gC ≤ 61/10 * u) (hu' : u ≤ 1/1856) :
    gA * VA4 + (gB + (1 + gB) * (a1 * n)) * VB4 + gC * VC4
          + (1 + gA) * (4 * Eb) * VR
          + ((1 + gA) * (6 * Eb^2) + (1 + gB) * (3 * (a2 + a3 * n^2))) * Tn
          + ((1 + gA) * (4 * Eb^3) + (1 + gB) * (12 * η * (a1 * Tn + a2 + a3 * n^2))
              + (1 + gC) * (4 * h3)) * R₀
          + ((1 + gB) * (4 * η) + (1 + gC) * (4/3 * p2 * Nn)) * VB
          + (1 + gC) * (p1 * Nn) * VD4
          + (1 + gC) * (4 * w) * (4 * Tn)
          + ((1 + gA) * Eb^4 + (1 + gB) * (6 * η^2 * Tn)
              + (1 + gC) * (4 * η * V3 + 4 * η * (p1 * Nn * V3 + p2 * Nn * Tn + w * R₀))) * n
          + ((1 + gB) * (6 * η^2 * (a1 * Tn + a2 + a3 * n^2)) + (1 + gC) * (4 * η * h3)) * (n^2 / 2)
      ≤ (243/10 * u) * VA4 + (101/10 * u + 101/100 * (a1 * n)) * VB4 + (61/10 * u) * VC4
          + 102/100 * (4 * Eb) * VR
          + (102/100 * (6 * Eb^2) + 101/100 * (3 * (a2 + a3 * n^2))) * Tn
          + (102/100 * (4 * Eb^3) + 101/100 * (12 * η * (a1 * Tn + a2 + a3 * n^2))
              + 101/100 * (4 * h3)) * R₀
          + (101/100 * (4 * η) + 101/100 * (4/3 * p2 * Nn)) * VB
          + 101/100 * (p1 * Nn) * VD4
          + 101/100 * (4 * w) * (4 * Tn)
          + (102/100 * Eb^4 + 101/100 * (6 * η^2 * Tn)
              + 101/100 * (4 * η * V3 + 4 * η * (p1 * Nn * V3 + p2 * Nn * Tn + w * R₀))) * n
          + (101/100 * (6 * η^2 * (a1 * Tn + a2 + a3 * n^2)) + 101/100 * (4 * η * h3)) * (n^2 / 2) := by
  have h1gA : 1 + gA ≤ 102/100 := by linarith
  have h1gB : 1 + gB ≤ 101/100 := by linarith
  have h1gC : 1 + gC ≤ 101/100 := by linarith
  have s1 : gA * VA4 ≤ (243/10 * u) * VA4 := by gcongr
  have s2 : (gB + (1 + gB) * (a1 * n)) * VB4 ≤ (101/10 * u + 101/100 * (a1 * n)) * VB4 := by gcongr
  have s3 : gC * VC4 ≤ (61/10 * u) * VC4 := by gcongr
  have s4 : (1 + gA) * (4 * Eb) * VR ≤ 102/100 * (4 * Eb) * VR := by gcongr
  have s5 : ((1 + gA) * (6 * Eb^2) + (1 + gB) * (3 * (a2 + a3 * n^2))) * Tn
      ≤ (102/100 * (6 * Eb^2) + 101/100 * (3 * (a2 + a3 * n^2))) * Tn := by gcongr
  have s6 : ((1 + gA) * (4 * Eb^3) + (1 + gB) * (12 * η * (a1 * Tn + a2 + a3 * n^2))
        + (1 + gC) * (4 * h3)) * R₀
      ≤ (102/100 * (4 * Eb^3) + 101/100 * (12 * η * (a1 * Tn + a2 + a3 * n^2))
        + 101/100 * (4 * h3)) * R₀ := by gcongr
  have s7 : ((1 + gB) * (4 * η) + (1 + gC) * (4/3 * p2 * Nn)) * VB
      ≤ (101/100 * (4 * η) + 101/100 * (4/3 * p2 * Nn)) * VB := by gcongr
  have s8 : (1 + gC) * (p1 * Nn) * VD4 ≤ 101/100 * (p1 * Nn) * VD4 := by gcongr
  have s9 : (1 + gC) * (4 * w) * (4 * Tn) ≤ 101/100 * (4 * w) * (4 * Tn) := by gcongr
  have s10 : ((1 + gA) * Eb^4 + (1 + gB) * (6 * η^2 * Tn)
        + (1 + gC) * (4 * η * V3 + 4 * η * (p1 * Nn * V3 + p2 * Nn * Tn + w * R₀))) * n
      ≤ (102/100 * Eb^4 + 101/100 * (6 * η^2 * Tn)
        + 101/100 * (4 * η * V3 + 4 * η * (p1 * Nn * V3 + p2 * Nn * Tn + w * R₀))) * n := by gcongr
  have s11 : ((1 + gB) * (6 * η^2 * (a1 * Tn + a2 + a3 * n^2)) + (1 + gC) * (4 * η * h3)) * (n^2 / 2)
      ≤ (101/100 * (6 * η^2 * (a1 * Tn + a2 + a3 * n^2)) + 101/100 * (4 * η * h3)) * (n^2 / 2) := by
    gcongr
  exact add_le_add (add_le_add (add_le_add (add_le_add (add_le_add (add_le_add (add_le_add
    (add_le_add (add_le_add (add_le_add s1 s2) s3) s4) s5) s6) s7) s8) s9) s10) s11

/-- the numeral form of the accumulated sum is non-negative -/
theorem num_arithM4_inner_nonneg (u n Tn R₀ VA4 VB4 VC4 VD4 VR VB V3 Nn Eb η a1 a2 a3 p1 p2 w h3 : K)
    (hu : 0 ≤ u) (hn : 0 ≤ n) (hT : 0 ≤ Tn) (hR : 0 ≤ R₀)
    (hVA4 : 0 ≤ VA4) (hVB4 : 0 ≤ VB4) (hVC4 : 0 ≤ VC4) (hVD4 : 0 ≤ VD4) (hVR : 0 ≤ VR)
    (hVB : 0 ≤ VB) (hV3 : 0 ≤ V3) (hNn0 : 0 ≤ Nn) (hEb0 : 0 ≤ Eb) (hη0 : 0 ≤ η) (ha10 : 0 ≤ a1)
    (ha20 : 0 ≤ a2) (ha30 : 0 ≤ a3) (hp10 : 0 ≤ p1) (hp20 : 0 ≤ p2) (hw0 : 0 ≤ w) (hh30 : 0 ≤ h3) :
    0 ≤ (243/10 * u) * VA4 + (101/10 * u + 101/100 * (a1 * n)) * VB4 + (61/10 * u) * VC4
          + 102/100 * (4 * Eb) * VR
          + (102/100 * (6 * Eb^2) + 101/100 * (3 * (a2 + a3 * n^2))) * Tn
          + (102/100 * (4 * Eb^3) + 101/100 * (12 * η * (a1 * Tn + a2 + a3 * n^2))
              + 101/100 * (4 * h3)) * R₀
          + (101/100 * (4 * η) + 101/100 * (4/3 * p2 * Nn)) * VB
          + 101/100 * (p1 * Nn) * VD4
          + 101/100 * (4 * w) * (4 * Tn)
          + (102/100 * Eb^4 + 101/100 * (6 * η^2 * Tn)
              + 101/100 * (4 * η * V3 + 4 * η * (p1 * Nn * V3 + p2 * Nn * Tn + w * R₀))) * n
          + (101/100 * (6 * η^2 * (a1 * Tn + a2 + a3 * n^2)) + 101/100 * (4 * η * h3)) * (n^2 / 2) := by
  positivity

/-- the last algebraic step of `mom4_fold_error_num`, first half: numerical values for the rounding factors -/
theorem num_arithM4_fac (P gA gB gC u n Tn R₀ VA4 VB4 VC4 VD4 VR VB V3 Nn Eb η a1 a2 a3 p1 p2 w h3 : K)
    (hu : 0 ≤ u) (hn : 0 ≤ n) (hT : 0 ≤ Tn) (hR : 0 ≤ R₀)
    (hVA4 : 0 ≤ VA4) (hVB4 : 0 ≤ VB4) (hVC4 : 0 ≤ VC4) (hVD4 : 0 ≤ VD4) (hVR : 0 ≤ VR)
    (hVB : 0 ≤ VB) (hV3 : 0 ≤ V3) (hNn0 : 0 ≤ Nn) (hEb0 : 0 ≤ Eb) (hη0 : 0 ≤ η) (ha10 : 0 ≤ a1)
    (ha20 : 0 ≤ a2) (ha30 : 0 ≤ a3) (hp10 : 0 ≤ p1) (hp20 : 0 ≤ p2) (hw0 : 0 ≤ w) (hh30 : 0 ≤ h3)
    (_hgA : 0 ≤ gA) (_hgB : 0 ≤ gB) (_hgC : 0 ≤ gC)
    (hP0 : 0 ≤ P) (hP : P ≤ 64/61) (hP1 : P - 1 ≤ 192/61 * (n * u))
    (hgA' : gA ≤ 243/10 * u) (hgB' : gB ≤ 101/10 * u)
    (hgC' : gC ≤ 61/10 * u) (hu' : u ≤ 1/1856) :
    P * (gA * VA4 + (gB + (1 + gB) * (a1 * n)) * VB4 + gC * VC4
          + (1 + gA) * (4 * Eb) * VR
          + ((1 + gA) * (6 * Eb^2) + (1 + gB) * (3 * (a2 + a3 * n^2))) * Tn
          + ((1 + gA) * (4 * Eb^3) + (1 + gB) * (12 * η * (a1 * Tn + a2 + a3 * n^2))
              + (1 + gC) * (4 * h3)) * R₀
          + ((1 + gB) * (4 * η) + (1 + gC) * (4/3 * p2 * Nn)) * VB
          + (1 + gC) * (p1 * Nn) * VD4
          + (1 + gC) * (4 * w) * (4 * Tn)
          + ((1 + gA) * Eb^4 + (1 + gB) * (6 * η^2 * Tn)
              + (1 + gC) * (4 * η * V3 + 4 * η * (p1 * Nn * V3 + p2 * Nn * Tn + w * R₀))) * n
          + ((1 + gB) * (6 * η^2 * (a1 * Tn + a2 + a3 * n^2)) + (1 + gC) * (4 * η * h3)) * (n^2 / 2))
        + (P - 1) * (VA4 + VB4 + VC4)
      ≤ 64/61 * ((243/10 * u) * VA4 + (101/10 * u + 101/100 * (a1 * n)) * VB4 + (61/10 * u) * VC4
          + 102/100 * (4 * Eb) * VR
          + (102/100 * (6 * Eb^2) + 101/100 * (3 * (a2 + a3 * n^2))) * Tn
          + (102/100 * (4 * Eb^3) + 101/100 * (12 * η * (a1 * Tn + a2 + a3 * n^2))
              + 101/100 * (4 * h3)) * R₀
          + (101/100 * (4 * η) + 101/100 * (4/3 * p2 * Nn)) * VB
          + 101/100 * (p1 * Nn) * VD4
          + 101/100 * (4 * w) * (4 * Tn)
          + (102/100 * Eb^4 + 101/100 * (6 * η^2 * Tn)
              + 101/100 * (4 * η * V3 + 4 * η * (p1 * Nn * V3 + p2 * Nn * Tn + w * R₀))) * n
          + (101/100 * (6 * η^2 * (a1 * Tn + a2 + a3 * n^2)) + 101/100 * (4 * η * h3)) * (n^2 / 2))
        + 192/61 * (n * u) * (VA4 + VB4 + VC4) := by
  have hs := num_arithM4_fac_inner gA gB gC u n Tn R₀ VA4 VB4 VC4 VD4 VR VB V3 Nn Eb η a1 a2 a3 p1 p2 w
    h3 hu hn hT hR hVA4 hVB4 hVC4 hVD4 hVR hVB hV3 hNn0 hEb0 hη0 ha10 ha20 ha30 hp10 hp20 hw0 hh30
    hgA' hgB' hgC' hu'
  have h0 := num_arithM4_inner_nonneg u n Tn R₀ VA4 VB4 VC4 VD4 VR VB V3 Nn Eb η a1 a2 a3 p1 p2 w
    h3 hu hn hT hR hVA4 hVB4 hVC4 hVD4 hVR hVB hV3 hNn0 hEb0 hη0 ha10 ha20 ha30 hp10 hp20 hw0 hh30
  have hV0 : 0 ≤ VA4 + VB4 + VC4 := by linarith
  have step0 : (P - 1) * (VA4 + VB4 + VC4) ≤ 192/61 * (n * u) * (VA4 + VB4 + VC4) :=
    mul_le_mul_of_nonneg_right hP1 hV0
  exact add_le_add (le_trans (mul_le_mul_of_nonneg_left hs hP0) (mul_le_mul_of_nonneg_right hP h0)) step0

/-- the last algebraic step of `mom4_fold_error_num` -/
theorem num_arithM4 (P gA gB gC u M n Tn R₀ VA4 VB4 VC4 VD4 VR VB V3 Nn Eb η a1 a2 a3 p1 p2 w h3 : K)
    (hNn : Nn = n + 10) (hEb : Eb = 65/128 * u * M * (n + 37/4))
    (hη : η = 41/8 * (65/128 * u * M)) (ha1 : a1 = 29/4 * u) (ha2 : a2 = 99/25 * u * M * R₀)
    (ha3 : a3 = 15/4 * u^2 * M^2) (hp1 : p1 = 10 * u) (hp2 : p2 = 11 * u * M)
    (hw : w = 13 * u * M * R₀) (hh3 : h3 = 330 * Nn * u^2 * M^2 * R₀ + 176 * Nn^3 * u^3 * M^3)
    (hu : 0 ≤ u) (hM : 0 ≤ M) (hn : 0 ≤ n) (hT : 0 ≤ Tn) (hR : 0 ≤ R₀)
    (hVA4 : 0 ≤ VA4) (hVB4 : 0 ≤ VB4) (hVC4 : 0 ≤ VC4) (hVD4 : 0 ≤ VD4) (hVR : 0 ≤ VR)
    (hVB : 0 ≤ VB) (hVB3 : VB ≤ V3)
    (hgA : 0 ≤ gA) (hgB : 0 ≤ gB) (hgC : 0 ≤ gC)
    (hP0 : 0 ≤ P) (hP : P ≤ 64/61) (hP1 : P - 1 ≤ 192/61 * (n * u))
    (hgA' : gA ≤ 243/10 * u) (hgB' : gB ≤ 101/10 * u)
    (hgC' : gC ≤ 61/10 * u) (hu' : u ≤ 1/1856) (hnu : n * u ≤ 1/64) :
    P * (gA * VA4 + (gB + (1 + gB) * (a1 * n)) * VB4 + gC * VC4
          + (1 + gA) * (4 * Eb) * VR
          + ((1 + gA) * (6 * Eb^2) + (1 + gB) * (3 * (a2 + a3 * n^2))) * Tn
          + ((1 + gA) * (4 * Eb^3) + (1 + gB) * (12 * η * (a1 * Tn + a2 + a3 * n^2))
              + (1 + gC) * (4 * h3)) * R₀
          + ((1 + gB) * (4 * η) + (1 + gC) * (4/3 * p2 * Nn)) * VB
          + (1 + gC) * (p1 * Nn) * VD4
          + (1 + gC) * (4 * w) * (4 * Tn)
          + ((1 + gA) * Eb^4 + (1 + gB) * (6 * η^2 * Tn)
              + (1 + gC) * (4 * η * V3 + 4 * η * (p1 * Nn * V3 + p2 * Nn * Tn + w * R₀))) * n
          + ((1 + gB) * (6 * η^2 * (a1 * Tn + a2 + a3 * n^2)) + (1 + gC) * (4 * η * h3)) * (n^2 / 2))
        + (P - 1) * (VA4 + VB4 + VC4)
      ≤ 11 * (n + 10) * u * (VA4 + VB4 + VC4 + VD4) + 9/4 * (n + 10) * u * M * VR
        + 29 * (n + 10) * u * M * V3 + 234 * u * M * R₀ * Tn
        + 1550 * (n + 10) * u^2 * M^2 * R₀^2 + 136 * (n + 10)^2 * u^2 * M^2 * Tn
        + 2570 * (n + 10)^3 * u^3 * M^3 * R₀ + 975 * (n + 10)^5 * u^4 * M^4 := by
  have hV3 : 0 ≤ V3 := le_trans hVB hVB3
  have hNn0 : 0 ≤ Nn := by rw [hNn]; linarith
  have hEb0 : 0 ≤ Eb := by rw [hEb]; positivity
  have hη0 : 0 ≤ η := by rw [hη]; positivity
  have ha10 : 0 ≤ a1 := by rw [ha1]; positivity
  have ha20 : 0 ≤ a2 := by rw [ha2]; positivity
  have ha30 : 0 ≤ a3 := by rw [ha3]; positivity
  have hp10 : 0 ≤ p1 := by rw [hp1]; positivity
  have hp20 : 0 ≤ p2 := by rw [hp2]; positivity
  have hw0 : 0 ≤ w := by rw [hw]; positivity
  have hh30 : 0 ≤ h3 := by rw [hh3]; positivity
  exact le_trans
    (num_arithM4_fac P gA gB gC u n Tn R₀ VA4 VB4 VC4 VD4 VR VB V3 Nn Eb η a1 a2 a3 p1 p2 w h3
      hu hn hT hR hVA4 hVB4 hVC4 hVD4 hVR hVB hV3 hNn0 hEb0 hη0 ha10 ha20 ha30 hp10 hp20 hw0 hh30
      hgA hgB hgC hP0 hP hP1 hgA' hgB' hgC' hu')
    (num_arithM4_mono u M n Tn R₀ VA4 VB4 VC4 VD4 VR VB V3 Nn Eb η a1 a2 a3 p1 p2 w h3
      hNn hEb hη ha1 ha2 ha3 hp1 hp2 hw hh3 hu hM hn hT hR hVA4 hVB4 hVC4 hVD4 hVR hVB hVB3 hu' hnu)

end MomN4Err

#print axioms MomN4Err.lead3_le
#print axioms MomN4Err.num_arithM4
