import AvgProofs.VarErr

/-!
# Numerical form of the forward-error bound of Welford's sum of squares, and the accessors
-/
open Avg MSpec Finset VarSpec

namespace VarErr
variable {K : Type} [Field K] [LinearOrder K] [IsStrictOrderedRing K]

/-- the last algebraic step: the symbolic bound with the numerical estimates of its coefficients -/
theorem lin_arith (P γ B u M n Tn R₀ : K) (hu : 0 ≤ u) (hM : 0 ≤ M) (hn : 1 ≤ n) (hT : 0 ≤ Tn)
    (hR : 0 ≤ R₀) (hB0 : 0 ≤ B) (hP0 : 0 ≤ P)
    (hP : P ≤ 33/32) (hγ : γ ≤ 17/2 * u) (hB : B ≤ 41/4 * u * M) (hu64 : u ≤ 1/64) :
    P * ((γ + n * u) * Tn + (1 + γ) * (2 * (B * n * R₀ * (37/64)) + B^2 * (n^3 / 3)))
      ≤ 10 * n * u * Tn + 14 * n * u * M * R₀ + 41 * n^3 * u^2 * M^2 := by
  have hn0 : 0 ≤ n := by linarith
  have h1γ : 1 + γ ≤ 145/128 := by linarith
  have huM : 0 ≤ u * M := by positivity
  have hB2 : B^2 ≤ (41/4 * u * M)^2 := by gcongr
  have t1 : (γ + n * u) * Tn ≤ (19/2 * (n * u)) * Tn := by
    have : u ≤ n * u := by nlinarith
    gcongr; linarith
  have t2 : (1 + γ) * (2 * (B * n * R₀ * (37/64)) + B^2 * (n^3 / 3))
      ≤ 145/128 * (2 * ((41/4 * u * M) * n * R₀ * (37/64)) + (41/4 * u * M)^2 * (n^3 / 3)) := by
    gcongr
  have hnonneg : 0 ≤ (19/2 * (n * u)) * Tn
      + 145/128 * (2 * ((41/4 * u * M) * n * R₀ * (37/64)) + (41/4 * u * M)^2 * (n^3 / 3)) := by
    positivity
  calc P * ((γ + n * u) * Tn + (1 + γ) * (2 * (B * n * R₀ * (37/64)) + B^2 * (n^3 / 3)))
      ≤ P * ((19/2 * (n * u)) * Tn
          + 145/128 * (2 * ((41/4 * u * M) * n * R₀ * (37/64)) + (41/4 * u * M)^2 * (n^3 / 3))) := by
        gcongr
    _ ≤ 33/32 * ((19/2 * (n * u)) * Tn
          + 145/128 * (2 * ((41/4 * u * M) * n * R₀ * (37/64)) + (41/4 * u * M)^2 * (n^3 / 3))) := by
        gcongr
    _ ≤ 10 * n * u * Tn + 14 * n * u * M * R₀ + 41 * n^3 * u^2 * M^2 := by
        have a1 : 0 ≤ n * u * Tn := by positivity
        have a2 : 0 ≤ n * u * M * R₀ := by positivity
        have a3 : 0 ≤ n^3 * u^2 * M^2 := by positivity
        nlinarith

/-- **Forward error of `sum_2`, linear in the conditioning.** Standard model of rounding with unit
roundoff `u`; every stream of `n` observations with `|x_i| ≤ M` and `n·u ≤ 1/64`; `T = Σ(x - mean)²`;
any `R₀ ≥ 0` with `n·T ≤ R₀²` (over ℝ: `R₀ = sqrt(n·T) = n·σ`):
`|sum_2 - T| ≤ 10·n·u·T + 14·n·u·M·R₀ + 41·n³·u²·M²`. -/
theorem var_fold_error_lin (r : Rnd2 K) (M : K) (hM : 0 ≤ M) (xs : List (RF2 r))
    (hb : ∀ x ∈ xs, |x.val| ≤ M) (hsmall : (xs.length : K) * r.u ≤ 1/64)
    (R₀ : K) (hR : 0 ≤ R₀) (hRT : (xs.length : K) * T (xs.map RF2.val) ≤ R₀^2) :
    |(xs.foldl Variance.add Variance.new).sum_2.val - T (xs.map RF2.val)|
      ≤ 10 * xs.length * r.u * T (xs.map RF2.val) + 14 * xs.length * r.u * M * R₀
        + 41 * (xs.length : K)^3 * r.u^2 * M^2 := by
  have hu := r.u_nonneg
  by_cases hnil : xs = []
  · subst hnil
    have h0 : (Variance.new : Variance (RF2 r)).sum_2.val = 0 :=
      (Nat.cast_zero : ((0 : ℕ) : K) = 0)
    simp [h0, T_nil]
  have hn1 : (1 : K) ≤ xs.length := by
    exact_mod_cast List.length_pos_of_ne_nil hnil
  set n : K := (xs.length : K) with hn
  have hn0 : 0 ≤ n := by linarith
  have hu64 : r.u ≤ 1/64 := by nlinarith
  set Tn := T (xs.map RF2.val) with hTn
  have hT0 : 0 ≤ Tn := T_nonneg _
  set B := 2 * M * (2 * ((2*r.u + r.u^2) * (1 + r.u)) + r.u) with hB
  have hB0 : 0 ≤ B := by positivity
  have hBle := B_le r.u M hu hM hu64
  have hw : (2*r.u + r.u^2) * (1 + r.u) ≤ 33/16 * r.u := by nlinarith
  have hsm : (2*r.u + r.u^2) * (1 + r.u) + n * r.u ≤ 1/2 := by linarith
  have hRR : B^2 * (n^3 / 3) * Tn ≤ (B * n * R₀ * (37/64))^2 := by
    have h1 : B^2 * (n^3 / 3) * Tn = (B^2 * n^2 / 3) * (n * Tn) := by ring
    have h2 : (B * n * R₀ * (37/64))^2 = (B^2 * n^2 * (1369/4096)) * R₀^2 := by ring
    rw [h1, h2]
    have h3 : B^2 * n^2 / 3 ≤ B^2 * n^2 * (1369/4096) := by
      have : 0 ≤ B^2 * n^2 := by positivity
      linarith
    have h4 : 0 ≤ n * Tn := by positivity
    calc (B^2 * n^2 / 3) * (n * Tn) ≤ (B^2 * n^2 * (1369/4096)) * (n * Tn) := by gcongr
      _ ≤ (B^2 * n^2 * (1369/4096)) * R₀^2 := by gcongr
  have main := var_fold_error_B r M hM xs hb hsm (B * n * R₀ * (37/64)) (by positivity) hRR
  refine le_trans main ?_
  have hP : (1 + r.u)^xs.length ≤ 33/32 := by
    have := one_add_pow_le r.u hu xs.length (by linarith)
    linarith
  exact lin_arith _ _ B r.u M n Tn R₀ hu hM hn1 hT0 hR hB0 (by positivity) hP
    (gam_le r.u hu hu64) hBle hu64

/-- One exactly-divided-then-rounded accessor: for `T ≥ 0`, `m > 0`,
`|fl(S/m) - T/m| ≤ ((1+u)·|S - T| + u·T)/m`. -/
theorem div_round_error (r : Rnd2 K) (S Tn m : K) (hm : 0 < m) (hT : 0 ≤ Tn) :
    |r.fl (S / m) - Tn / m| ≤ ((1 + r.u) * |S - Tn| + r.u * Tn) / m := by
  have hu := r.u_nonneg
  have h := r.err (S / m)
  have h1 : |S / m| ≤ (Tn + |S - Tn|) / m := by
    rw [abs_div, abs_of_pos hm]
    gcongr
    have : S = Tn + (S - Tn) := by ring
    calc |S| = |Tn + (S - Tn)| := by rw [← this]
      _ ≤ |Tn| + |S - Tn| := abs_add_le _ _
      _ = Tn + |S - Tn| := by rw [abs_of_nonneg hT]
  have h2 : |S / m - Tn / m| = |S - Tn| / m := by
    rw [← sub_div, abs_div, abs_of_pos hm]
  have : r.fl (S / m) - Tn / m = (r.fl (S / m) - S / m) + (S / m - Tn / m) := by ring
  rw [this]
  calc |(r.fl (S / m) - S / m) + (S / m - Tn / m)|
      ≤ |r.fl (S / m) - S / m| + |S / m - Tn / m| := abs_add_le _ _
    _ ≤ r.u * ((Tn + |S - Tn|) / m) + |S - Tn| / m := by
        rw [h2]
        have : r.u * |S / m| ≤ r.u * ((Tn + |S - Tn|) / m) := by gcongr
        linarith
    _ = ((1 + r.u) * |S - Tn| + r.u * Tn) / m := by ring

end VarErr

#print axioms VarErr.var_fold_error_lin
