import AvgProofs.WeightedMeanErr
import Mathlib.Tactic.NormNum

/-!
# The envelope constant 4 of the weighted mean is not valid in the standard model of rounding

A concrete rounding `advRnd : Rnd2 ℚ` with `u = 2^-53` (`|fl t - t| ≤ u|t|` for every `t`; the identity
except at five arguments) and the two observations `(-1, 2^-80)`, `(1, 1)`, for which
`WeightedMean` ends `> 8u = 4·n·u·M` (`n = 2`, `M = 1`) away from the exact weighted mean:
the sum of the weights is rounded down, the quotient `w/Ŵ`, the difference `x - prev`, the product and
the final sum are rounded up, which gives `1 + 9u + O(u²)` against the exact `(1 - ε)/(1 + ε)`.
-/
open Avg MSpec

namespace WLower

def u : ℚ := 1/2^53
def ε : ℚ := 1/2^80
/-- `Ŵ_1 + w_2`, rounded down to `C` -/
def t1 : ℚ := ε + 1
def C : ℚ := t1 * (1 - u)
/-- `w_2 / Ŵ_2`, rounded up to `ρ` -/
def t2 : ℚ := 1 / C
def ρ : ℚ := t2 * (1 + u)
/-- `x_2 - prev = 2`, rounded up to `d` -/
def d : ℚ := 2 * (1 + u)
/-- the product, rounded up to `p` -/
def t4 : ℚ := ρ * d
def p : ℚ := t4 * (1 + u)
/-- the final sum, rounded up to `a2` -/
def t5 : ℚ := -1 + p
def a2 : ℚ := t5 * (1 + u)

/-- the identity except at the five arguments of the second `add` -/
def fl (t : ℚ) : ℚ :=
  if t = t1 then C else if t = t2 then ρ else if t = 2 then d else if t = t4 then p
  else if t = t5 then a2 else t

theorem fl_err : ∀ t, |fl t - t| ≤ u * |t| := by
  intro t
  have hu : (0:ℚ) ≤ u := by norm_num [u]
  have up : ∀ s : ℚ, |s * (1 + u) - s| ≤ u * |s| := fun s => by
    have : s * (1 + u) - s = u * s := by ring
    rw [this, abs_mul, abs_of_nonneg hu]
  have down : ∀ s : ℚ, |s * (1 - u) - s| ≤ u * |s| := fun s => by
    have : s * (1 - u) - s = -(u * s) := by ring
    rw [this, abs_neg, abs_mul, abs_of_nonneg hu]
  unfold fl
  split_ifs with h1 h2 h3 h4 h5
  · rw [h1]; exact down t1
  · rw [h2]; exact up t2
  · rw [h3]; exact up 2
  · rw [h4]; exact up t4
  · rw [h5]; exact up t5
  · rw [sub_self, abs_zero]; exact mul_nonneg hu (abs_nonneg _)

/-- the adversarial rounding: standard model with `u = 2^-53` -/
def advRnd : Rnd2 ℚ := ⟨fl, u, by norm_num [u], fl_err⟩

/-! values of `fl` along the run -/
theorem f1 : fl (0 + ε) = ε := by norm_num [fl, t1, C, t2, ρ, d, t4, p, t5, a2, u, ε]
theorem f2 : fl (ε / ε) = 1 := by norm_num [fl, t1, C, t2, ρ, d, t4, p, t5, a2, u, ε]
theorem f3 : fl (-1 - 0) = -1 := by norm_num [fl, t1, C, t2, ρ, d, t4, p, t5, a2, u, ε]
theorem f4 : fl (1 * -1) = -1 := by norm_num [fl, t1, C, t2, ρ, d, t4, p, t5, a2, u, ε]
theorem f5 : fl (0 + -1) = -1 := by norm_num [fl, t1, C, t2, ρ, d, t4, p, t5, a2, u, ε]
theorem g1 : fl (ε + 1) = C := by
  have h : ε + 1 = t1 := rfl
  unfold fl; rw [if_pos h]
theorem g2 : fl (1 / C) = ρ := by
  have h : 1 / C = t2 := rfl
  unfold fl; rw [if_neg (by norm_num [t1, C, u, ε]), if_pos h]
theorem g3 : fl (1 - -1) = d := by
  have : (1:ℚ) - -1 = 2 := by norm_num
  rw [this]; unfold fl
  rw [if_neg (by norm_num [t1, C, t2, u, ε]), if_neg (by norm_num [t1, C, t2, u, ε]), if_pos rfl]
theorem g4 : fl (ρ * d) = p := by
  have h : ρ * d = t4 := rfl
  unfold fl
  rw [if_neg (by norm_num [t1, C, t2, ρ, d, u, ε]), if_neg (by norm_num [t1, C, t2, ρ, d, u, ε]),
    if_neg (by norm_num [t1, C, t2, ρ, d, u, ε]), if_pos h]
theorem g5 : fl (-1 + p) = a2 := by
  have h : -1 + p = t5 := rfl
  unfold fl
  rw [if_neg (by norm_num [t1, C, t2, ρ, d, t4, p, u, ε]),
    if_neg (by norm_num [t1, C, t2, ρ, d, t4, p, u, ε]),
    if_neg (by norm_num [t1, C, t2, ρ, d, t4, p, u, ε]),
    if_neg (by norm_num [t1, C, t2, ρ, d, t4, p, u, ε]), if_pos h]
theorem C_ne : C ≠ 0 := by norm_num [t1, C, u, ε]
theorem ε_ne : ε ≠ 0 := by norm_num [ε]

/-- comparisons of the values -/
instance instFloatOps : FloatOps (RF2 advRnd) := rf2FloatOps advRnd

/-- the two observations `(x, w)`: `(-1, 2^-80)`, `(1, 1)` -/
def obs : List (RF2 advRnd × RF2 advRnd) := [(⟨-1⟩, ⟨ε⟩), (⟨1⟩, ⟨1⟩)]

theorem add_mk (a b : ℚ) : ((⟨a⟩ : RF2 advRnd) + ⟨b⟩) = ⟨fl (a + b)⟩ := rfl
theorem sub_mk (a b : ℚ) : ((⟨a⟩ : RF2 advRnd) - ⟨b⟩) = ⟨fl (a - b)⟩ := rfl
theorem mul_mk (a b : ℚ) : ((⟨a⟩ : RF2 advRnd) * ⟨b⟩) = ⟨fl (a * b)⟩ := rfl
theorem div_mk (a b : ℚ) : ((⟨a⟩ : RF2 advRnd) / ⟨b⟩) = ⟨fl (a / b)⟩ := rfl
theorem zero_mk : ((0:Nat) : RF2 advRnd) = ⟨0⟩ := by
  show (⟨((0:Nat) : ℚ)⟩ : RF2 advRnd) = ⟨0⟩
  rw [Nat.cast_zero]
theorem eqb_mk (a b : ℚ) : FloatOps.eqb (⟨a⟩ : RF2 advRnd) ⟨b⟩ = decide (a = b) := rfl

/-- after the first observation: weight sum `ε`, average `-1`, no rounding error -/
theorem step1 : (WeightedMean.new : WeightedMean (RF2 advRnd)).add ⟨-1⟩ ⟨ε⟩ = ⟨⟨ε⟩, ⟨-1⟩⟩ := by
  unfold WeightedMean.add WeightedMean.new
  simp only [zero_mk, add_mk, sub_mk, mul_mk, div_mk, eqb_mk, f1, f2, f3, f4, f5,
    decide_eq_true_eq, ε_ne, if_false]

/-- after the second observation the stored average is `a2` -/
theorem step2 : ((⟨⟨ε⟩, ⟨-1⟩⟩ : WeightedMean (RF2 advRnd)).add ⟨1⟩ ⟨1⟩).weighted_avg.val = a2 := by
  unfold WeightedMean.add
  simp only [zero_mk, add_mk, sub_mk, mul_mk, div_mk, eqb_mk, g1, g2, g3, g4, g5,
    decide_eq_true_eq, C_ne, if_false]

theorem step2w : ((⟨⟨ε⟩, ⟨-1⟩⟩ : WeightedMean (RF2 advRnd)).add ⟨1⟩ ⟨1⟩).weight_sum.val = C := by
  unfold WeightedMean.add
  simp only [zero_mk, add_mk, sub_mk, mul_mk, div_mk, eqb_mk, g1, g2, g3, g4, g5,
    decide_eq_true_eq, C_ne, if_false]

theorem run_avg : (obs.foldl WeightedMean.addP WeightedMean.new).weighted_avg.val = a2 := by
  show (((WeightedMean.new : WeightedMean (RF2 advRnd)).add ⟨-1⟩ ⟨ε⟩).add ⟨1⟩ ⟨1⟩).weighted_avg.val = a2
  rw [step1, step2]

theorem run_wsum : (obs.foldl WeightedMean.addP WeightedMean.new).weight_sum.val = C := by
  show (((WeightedMean.new : WeightedMean (RF2 advRnd)).add ⟨-1⟩ ⟨ε⟩).add ⟨1⟩ ⟨1⟩).weight_sum.val = C
  rw [step1, step2w]

theorem exact_W : W (pairVals obs) = ε + 1 := by norm_num [obs, pairVals, W]
theorem exact_WX : WX (pairVals obs) = 1 - ε := by norm_num [obs, pairVals, WX]; ring

/-- the error exceeds `8u = 4·n·u·M` -/
theorem gap : 4 * 2 * u * 1 < a2 - (1 - ε) / (ε + 1) := by
  norm_num [t1, C, t2, ρ, d, t4, p, t5, a2, u, ε]

theorem obs_ok : ∀ p ∈ obs, WObs (1:ℚ) (p.1.val, p.2.val) := by
  intro p hp
  simp only [obs, List.mem_cons, List.not_mem_nil, or_false] at hp
  rcases hp with rfl | rfl
  · exact ⟨by norm_num [ε], fun _ => by norm_num⟩
  · exact ⟨by norm_num, fun _ => by norm_num⟩

/-- **The constant 4 fails in the standard model.** `advRnd` is a rounding with `|fl t - t| ≤ 2^-53·|t|`
for every `t`; the stream `obs` of `n = 2` observations meets every hypothesis of `wmean_mtree_error`
with `M = 1`; and `mean()` is more than `4·n·u·M` away from the exact weighted mean. -/
theorem four_fails :
    ValEqb advRnd ∧ advRnd.u = 1/2^53 ∧ (∀ p ∈ obs, WObs (1:ℚ) (p.1.val, p.2.val))
    ∧ (obs.length : ℚ) * advRnd.u ≤ 1/64 ∧ 0 < W (pairVals obs) ∧
    4 * (obs.length : ℚ) * advRnd.u * 1
      < |(obs.foldl WeightedMean.addP WeightedMean.new).mean.val
          - WX (pairVals obs) / W (pairVals obs)| := by
  have hl : (obs.length : ℚ) = 2 := by norm_num [obs]
  have hu : advRnd.u = u := rfl
  have hC : 0 < (obs.foldl WeightedMean.addP WeightedMean.new).weight_sum.val := by
    rw [run_wsum]; norm_num [t1, C, u, ε]
  refine ⟨rf2FloatOps_valEqb advRnd, rfl, obs_ok, by rw [hl, hu]; norm_num [u],
    by rw [exact_W]; norm_num [ε], ?_⟩
  rw [WeightedMean.mean_of_pos (rf2FloatOps_valEqb advRnd) _ hC, run_avg, exact_W, exact_WX, hl, hu]
  exact lt_of_lt_of_le gap (le_abs_self _)

end WLower

#print axioms WLower.fl_err
#print axioms WLower.run_avg
#print axioms WLower.gap
#print axioms WLower.four_fails
