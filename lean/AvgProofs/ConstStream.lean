import AvgProofs.Project
import AvgModel.MomentsN
/-! Constant streams: after `k ≥ 1` adds of one value `x` starting from `new`, the mean is `x` and every
centred sum is `0`, on any carrier that satisfies the explicit zero laws `ZeroLaws` (nothing else about the
arithmetic is used: no associativity, no distributivity, no field). -/
set_option linter.unusedSectionVars false
namespace Avg
variable {α : Type} [Add α] [Sub α] [Mul α] [Div α] [NatCast α]

/-- The laws of `0` and `1` used by the constant-stream argument, with `0`, `1` the casts the model writes.
IEEE doubles satisfy each of them for finite operands, up to the sign of a zero result (`0 + (-0.0)` is `+0.0`);
`0 * x` and `x * 0` are NaN for infinite `x` (so for `x*x` overflowing). -/
structure ZeroLaws (α : Type) [Add α] [Sub α] [Mul α] [Div α] [NatCast α] : Prop where
  sub_self : ∀ x : α, x - x = ((0:Nat):α)
  sub_zero : ∀ x : α, x - ((0:Nat):α) = x
  add_zero : ∀ x : α, x + ((0:Nat):α) = x
  zero_add : ∀ x : α, ((0:Nat):α) + x = x
  zero_mul : ∀ x : α, ((0:Nat):α) * x = ((0:Nat):α)
  mul_zero : ∀ x : α, x * ((0:Nat):α) = ((0:Nat):α)
  /-- `0 / n = 0` for the cast of a positive count -/
  zero_div : ∀ n : Nat, n ≠ 0 → ((0:Nat):α) / ((n:Nat):α) = ((0:Nat):α)
  div_one : ∀ x : α, x / ((1:Nat):α) = x

variable (L : ZeroLaws α)
include L

/-! ## Kurtosis (and, by projection, Skewness, Variance, Mean) -/

/-- the first observation -/
theorem Kurtosis.new_add_const (x : α) :
    Kurtosis.new.add x = ⟨⟨⟨⟨x, 1⟩, ((0:Nat):α)⟩, ((0:Nat):α)⟩, ((0:Nat):α)⟩ := by
  simp only [Kurtosis.add, Kurtosis.addInner, Skewness.addInner, Variance.addInner, Kurtosis.new, Skewness.new,
    Variance.new, Mean.new, Nat.zero_add, L.sub_zero, L.div_one, L.sub_self, L.mul_zero, L.zero_mul,
    L.add_zero, L.zero_add]

/-- one more observation equal to the current mean, all sums being `0` -/
theorem Kurtosis.const_add_const (x : α) (k : Nat) :
    (⟨⟨⟨⟨x, k⟩, ((0:Nat):α)⟩, ((0:Nat):α)⟩, ((0:Nat):α)⟩ : Kurtosis α).add x
      = ⟨⟨⟨⟨x, k + 1⟩, ((0:Nat):α)⟩, ((0:Nat):α)⟩, ((0:Nat):α)⟩ := by
  have hd := L.zero_div (k + 1) (Nat.succ_ne_zero k)
  simp only [Kurtosis.add, Kurtosis.addInner, Skewness.addInner, Variance.addInner, L.sub_self, hd, L.mul_zero,
    L.zero_mul, L.add_zero]

theorem Kurtosis.fold_const (x : α) (m k : Nat) :
    (List.replicate m x).foldl Kurtosis.add ⟨⟨⟨⟨x, k⟩, ((0:Nat):α)⟩, ((0:Nat):α)⟩, ((0:Nat):α)⟩
      = ⟨⟨⟨⟨x, k + m⟩, ((0:Nat):α)⟩, ((0:Nat):α)⟩, ((0:Nat):α)⟩ := by
  induction m generalizing k with
  | zero => rfl
  | succ m ih =>
    rw [List.replicate_succ, List.foldl_cons, Kurtosis.const_add_const L, ih]
    have : k + 1 + m = k + (m + 1) := by omega
    rw [this]

/-- `k ≥ 1` adds of `x` starting from `Kurtosis::new()` -/
theorem Kurtosis.const_stream (x : α) (k : Nat) (hk : k ≠ 0) :
    (List.replicate k x).foldl Kurtosis.add Kurtosis.new
      = ⟨⟨⟨⟨x, k⟩, ((0:Nat):α)⟩, ((0:Nat):α)⟩, ((0:Nat):α)⟩ := by
  obtain ⟨j, rfl⟩ := Nat.exists_eq_succ_of_ne_zero hk
  rw [List.replicate_succ, List.foldl_cons, Kurtosis.new_add_const L, Kurtosis.fold_const L]
  have : 1 + j = j + 1 := by omega
  rw [this]

theorem Skewness.const_stream (x : α) (k : Nat) (hk : k ≠ 0) :
    (List.replicate k x).foldl Skewness.add Skewness.new = ⟨⟨⟨x, k⟩, ((0:Nat):α)⟩, ((0:Nat):α)⟩ := by
  have h := congrArg Kurtosis.avg (Kurtosis.const_stream L x k hk)
  rw [Kurtosis.fold_avg] at h
  exact h

theorem Variance.const_stream (x : α) (k : Nat) (hk : k ≠ 0) :
    (List.replicate k x).foldl Variance.add Variance.new = ⟨⟨x, k⟩, ((0:Nat):α)⟩ := by
  have h := congrArg Skewness.avg (Skewness.const_stream L x k hk)
  rw [Skewness.fold_avg] at h
  exact h

theorem Mean.const_stream (x : α) (k : Nat) (hk : k ≠ 0) :
    (List.replicate k x).foldl Mean.add Mean.new = ⟨x, k⟩ := by
  have h := congrArg Variance.avg (Variance.const_stream L x k hk)
  rw [Variance.fold_avg] at h
  exact h

/-! ## `define_moments!(_, N)` -/
section moments
variable [Neg α]

omit L in
theorem getD_replicate_self (m i : Nat) (z : α) : (List.replicate m z).getD i z = z := by
  induction m generalizing i with
  | zero => rfl
  | succ m ih => cases i with
    | zero => rfl
    | succ i => rw [List.replicate_succ, List.getD_cons_succ]; exact ih i

omit L in
theorem getD_replicate_lt (m i : Nat) (z d : α) (h : i < m) : (List.replicate m z).getD i d = z := by
  induction m generalizing i with
  | zero => omega
  | succ m ih => cases i with
    | zero => rfl
    | succ i => rw [List.replicate_succ, List.getD_cons_succ]; exact ih i (by omega)

/-- with all previous sums `0` the inner loop adds nothing -/
theorem innerAdd_prev_zero (p : Nat) (prev : List α) (hprev : ∀ i, prev.getD i ((0:Nat):α) = ((0:Nat):α)) (fc : α) :
    ∀ (fuel k : Nat) (coeff : α) (a : Nat) (acc : α), innerAdd p prev fc k fuel coeff a acc = acc := by
  intro fuel
  induction fuel with
  | zero => intros; rfl
  | succ fuel ih =>
    intro k coeff a acc
    simp only [innerAdd]
    rw [ih, hprev, L.mul_zero, L.zero_mul, L.add_zero]

/-- `term1 = term2 = 0` (the first observation: `n - 1 = 0`) and all previous sums `0`: every new sum is `0` -/
theorem outerAdd_terms_zero (prev : List α) (hprev : ∀ i, prev.getD i ((0:Nat):α) = ((0:Nat):α))
    (delta f1 f2 fc : α) :
    ∀ (fuel p : Nat) (cd : α),
      outerAdd prev delta f1 f2 fc p fuel ((0:Nat):α) ((0:Nat):α) cd = List.replicate fuel ((0:Nat):α) := by
  intro fuel
  induction fuel with
  | zero => intros; rfl
  | succ fuel ih =>
    intro p cd
    simp only [outerAdd]
    rw [innerAdd_prev_zero L _ prev hprev, L.zero_mul, L.zero_mul, ih, hprev, L.add_zero, L.zero_mul, L.add_zero]
    rfl

/-- `delta = 0` (an observation equal to the mean) and all previous sums `0`: every new sum is `0` -/
theorem outerAdd_delta_zero (prev : List α) (hprev : ∀ i, prev.getD i ((0:Nat):α) = ((0:Nat):α))
    (f1 f2 fc : α) :
    ∀ (fuel p : Nat) (t1 t2 : α),
      outerAdd prev ((0:Nat):α) f1 f2 fc p fuel t1 t2 ((0:Nat):α) = List.replicate fuel ((0:Nat):α) := by
  intro fuel
  induction fuel with
  | zero => intros; rfl
  | succ fuel ih =>
    intro p t1 t2
    simp only [outerAdd]
    rw [innerAdd_prev_zero L _ prev hprev, L.mul_zero, ih, hprev, L.mul_zero, L.add_zero]
    rfl

theorem Moments.new_add_const (N : Nat) (x : α) :
    Moments.add N (Moments.new N) x = ⟨1, x, List.replicate (N - 1) ((0:Nat):α)⟩ := by
  simp only [Moments.add, Moments.new, Nat.zero_add, L.sub_zero, L.div_one, L.zero_add, L.sub_self, L.zero_mul]
  rw [outerAdd_terms_zero L _ (fun i => getD_replicate_self _ i _)]

theorem Moments.const_add_const (N : Nat) (x : α) (k : Nat) :
    Moments.add N ⟨k, x, List.replicate (N - 1) ((0:Nat):α)⟩ x
      = ⟨k + 1, x, List.replicate (N - 1) ((0:Nat):α)⟩ := by
  have hd := L.zero_div (k + 1) (Nat.succ_ne_zero k)
  simp only [Moments.add, L.sub_self, hd, L.add_zero]
  rw [outerAdd_delta_zero L _ (fun i => getD_replicate_self _ i _)]

theorem Moments.fold_const (N : Nat) (x : α) (m k : Nat) :
    (List.replicate m x).foldl (Moments.add N) ⟨k, x, List.replicate (N - 1) ((0:Nat):α)⟩
      = ⟨k + m, x, List.replicate (N - 1) ((0:Nat):α)⟩ := by
  induction m generalizing k with
  | zero => rfl
  | succ m ih =>
    rw [List.replicate_succ, List.foldl_cons, Moments.const_add_const L, ih]
    have : k + 1 + m = k + (m + 1) := by omega
    rw [this]

/-- `k ≥ 1` adds of `x` starting from `new()`, for every order `N` -/
theorem Moments.const_stream (N : Nat) (x : α) (k : Nat) (hk : k ≠ 0) :
    (List.replicate k x).foldl (Moments.add N) (Moments.new N)
      = ⟨k, x, List.replicate (N - 1) ((0:Nat):α)⟩ := by
  obtain ⟨j, rfl⟩ := Nat.exists_eq_succ_of_ne_zero hk
  rw [List.replicate_succ, List.foldl_cons, Moments.new_add_const L, Moments.fold_const L]
  have : 1 + j = j + 1 := by omega
  rw [this]

end moments
end Avg
