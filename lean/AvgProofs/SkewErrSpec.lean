import AvgProofs.VarErrSpec
import Mathlib.Tactic.Linarith
import Mathlib.Tactic.Ring
import Mathlib.Tactic.FieldSimp

/-!
# Exact side of the error analysis of the third-order sum `sum_3` of `Skewness.add`

`SkewSpec.U vs = Σ (x - mean vs)³` and its exact recurrence (`n = |vs|`, `d = x - mean vs`,
`T vs = Σ (x - mean vs)²`):

`U (vs ++ [x]) = U vs + d³·n(n-1)/(n+1)² - 3·d·T vs/(n+1)`.

The two terms of the increment can be large and of opposite sign, so the natural scale of the rounding
analysis is the sum of their absolute values over the stream,
`V3p vs = Σ_{i<n} ( |dev_i|³·i(i-1)/(i+1)² + 3·|dev_i|·T(x_0..x_{i-1})/(i+1) )`,
and `|U vs| ≤ V3p vs`, `V3p` is monotone under `snoc`.
-/
open Avg MSpec Finset VarSpec

namespace SkewSpec
variable {K : Type} [Field K] [LinearOrder K] [IsStrictOrderedRing K]

/-- exact sum of cubed deviations from the exact mean -/
def U (vs : List K) : K := sumPow vs (mean vs) 3

/-- the coefficient `i(i-1)/(i+1)²` of `d³` in the exact increment (`i` observations before) -/
def cA (i : ℕ) : K := (i : K) * ((i : K) - 1) / ((i : K) + 1)^2

theorem U_nil : U ([] : List K) = 0 := by simp [U]

theorem cA_nonneg (i : ℕ) : (0 : K) ≤ cA i := by
  unfold cA
  rcases Nat.eq_zero_or_pos i with h | h
  · subst h; simp
  · have : (1 : K) ≤ i := by exact_mod_cast h
    have h1 : (0 : K) ≤ (i : K) - 1 := by linarith
    positivity

theorem cA_le_ratio (i : ℕ) : (cA i : K) ≤ (i : K) / ((i : K) + 1) := by
  unfold cA
  have hi : (0 : K) ≤ i := Nat.cast_nonneg i
  have hp : (0 : K) < (i : K) + 1 := by linarith
  rw [div_le_div_iff₀ (by positivity) hp]
  nlinarith

theorem cA_le_one (i : ℕ) : (cA i : K) ≤ 1 :=
  le_trans (cA_le_ratio i) (ratio_le_one i)

/-- **Exact recurrence** of the third-order sum (the quantity `Skewness.add` approximates). -/
theorem U_snoc (vs : List K) (x : K) :
    U (vs ++ [x]) = U vs + ((x - mean vs)^3 * cA vs.length
      - 3 * (x - mean vs) * T vs / ((vs.length : K) + 1)) := by
  have hn : ((vs.length : K) + 1) ≠ 0 := by positivity
  have hmean := mean_snoc vs x
  have e1 := sumPow_one_mean vs
  have e0 := sumPow_zero vs (mean vs)
  have e3 := shift3 vs (mean (vs ++ [x])) (mean vs)
  rw [e1, e0] at e3
  unfold U T cA
  rw [sumPow_append, e3, ← hmean]
  simp only [sumPow_cons, sumPow_nil, Nat.cast_add, Nat.cast_one]
  field_simp
  ring

omit [LinearOrder K] [IsStrictOrderedRing K] in
/-- sums over the observations of a function of the index, the deviation and the sum of squares of the
predecessors: one more observation -/
theorem sum_pref_snoc (f : ℕ → K → K → K) (vs : List K) (x : K) :
    ∑ i ∈ range (vs ++ [x]).length, f i (dev (vs ++ [x]) i) (T ((vs ++ [x]).take i))
      = ∑ i ∈ range vs.length, f i (dev vs i) (T (vs.take i)) + f vs.length (x - mean vs) (T vs) := by
  rw [List.length_append, List.length_singleton, sum_range_succ, dev_snoc_len]
  congr 1
  · apply sum_congr rfl
    intro i hi
    have hi' := mem_range.mp hi
    rw [dev_snoc_lt vs x hi', List.take_append_of_le_length (le_of_lt hi')]
  · rw [List.take_left']
    rfl

/-- `T` of a prefix is at most `T` of the whole stream -/
theorem T_take_le (vs : List K) (i : ℕ) : T (vs.take i) ≤ T vs := by
  induction vs using List.reverseRecOn with
  | nil => simp
  | append_singleton vs x ih =>
    rcases Nat.lt_or_ge vs.length i with h | h
    · rw [List.take_of_length_le (by simp; omega)]
    · rw [List.take_append_of_le_length h]
      exact le_trans ih (T_mono vs x)

/-- absolute value of the `d³` part of the exact increment -/
def incA (i : ℕ) (d : K) : K := |d|^3 * cA i
/-- absolute value of the `d·T` part of the exact increment -/
def incB (i : ℕ) (d Ti : K) : K := 3 * |d| * Ti / ((i : K) + 1)

theorem incA_nonneg (i : ℕ) (d : K) : 0 ≤ incA i d :=
  mul_nonneg (by positivity) (cA_nonneg i)

theorem incB_nonneg (i : ℕ) (d Ti : K) (hT : 0 ≤ Ti) : 0 ≤ incB i d Ti := by
  unfold incB; positivity

/-- `Σ |d_i|³·i(i-1)/(i+1)²` -/
def VA (vs : List K) : K := ∑ i ∈ range vs.length, incA i (dev vs i)
/-- `Σ 3·|d_i|·T_i/(i+1)` -/
def VB (vs : List K) : K := ∑ i ∈ range vs.length, incB i (dev vs i) (T (vs.take i))
/-- the sum of the absolute values of the two parts of the exact increments of `U`: the natural scale
of the rounding errors of `sum_3` -/
def V3p (vs : List K) : K := VA vs + VB vs

omit [IsStrictOrderedRing K] in
theorem VA_snoc (vs : List K) (x : K) : VA (vs ++ [x]) = VA vs + incA vs.length (x - mean vs) :=
  sum_dev_snoc (fun i d => incA i d) vs x

omit [IsStrictOrderedRing K] in
theorem VB_snoc (vs : List K) (x : K) :
    VB (vs ++ [x]) = VB vs + incB vs.length (x - mean vs) (T vs) :=
  sum_pref_snoc (fun i d t => incB i d t) vs x

omit [IsStrictOrderedRing K] in
theorem V3p_snoc (vs : List K) (x : K) :
    V3p (vs ++ [x]) = V3p vs + (incA vs.length (x - mean vs) + incB vs.length (x - mean vs) (T vs)) := by
  unfold V3p; rw [VA_snoc, VB_snoc]; ring

theorem VA_nonneg (vs : List K) : 0 ≤ VA vs :=
  sum_nonneg (fun i _ => incA_nonneg i _)

theorem VB_nonneg (vs : List K) : 0 ≤ VB vs :=
  sum_nonneg (fun i _ => incB_nonneg i _ _ (T_nonneg _))

theorem V3p_nonneg (vs : List K) : 0 ≤ V3p vs := add_nonneg (VA_nonneg vs) (VB_nonneg vs)

theorem V3p_mono (vs : List K) (x : K) : V3p vs ≤ V3p (vs ++ [x]) := by
  rw [V3p_snoc]
  have := incA_nonneg vs.length (x - mean vs)
  have := incB_nonneg vs.length (x - mean vs) (T vs) (T_nonneg vs)
  linarith

/-- the exact increment is at most the sum of the absolute values of its two parts -/
theorem abs_incr_le (vs : List K) (x : K) :
    |(x - mean vs)^3 * cA vs.length - 3 * (x - mean vs) * T vs / ((vs.length : K) + 1)|
      ≤ incA vs.length (x - mean vs) + incB vs.length (x - mean vs) (T vs) := by
  have hp : (0 : K) < (vs.length : K) + 1 := by positivity
  refine le_trans (abs_sub _ _) (le_of_eq ?_)
  unfold incA incB
  rw [abs_mul ((x - mean vs)^3), abs_pow, abs_of_nonneg (cA_nonneg (K := K) vs.length), abs_div,
    abs_mul, abs_mul, abs_of_pos hp, abs_of_nonneg (T_nonneg vs),
    abs_of_pos (by norm_num : (0:K) < 3)]

/-- `|Σ(x - mean)³| ≤ V3p` -/
theorem abs_U_le (vs : List K) : |U vs| ≤ V3p vs := by
  induction vs using List.reverseRecOn with
  | nil => simp [U_nil, V3p, VA, VB]
  | append_singleton vs x ih =>
    rw [U_snoc, V3p_snoc]
    exact le_trans (abs_add_le _ _) (add_le_add ih (abs_incr_le vs x))

end SkewSpec

#print axioms SkewSpec.U_snoc
#print axioms SkewSpec.abs_U_le
