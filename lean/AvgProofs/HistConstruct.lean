import AvgModel.Spec
import AvgProofs.HistCarrier
import Mathlib.Data.List.Chain

/-!
# `from_ranges` against its specification (any carrier)
-/
namespace Avg
open Avg.Spec

section any
variable {α : Type} [FloatOps α]

/-- the loop of `from_ranges` and the scan of the specification, started in corresponding states
(position = number of accepted edges, previous edge = the last accepted one) -/
theorem loop_vs_go (LEN : Nat) : ∀ (l acc : List α), acc.length ≤ LEN + 1 →
    (fromRangesSpec.go (LEN + 1 - acc.length) acc.head? l = none →
        fromRangesLoop LEN acc.length acc l = .ok ((l.take (LEN + 1 - acc.length)).reverse ++ acc)
        ∧ LEN + 1 - acc.length ≤ l.length)
    ∧ (fromRangesSpec.go (LEN + 1 - acc.length) acc.head? l = some .notEnoughRanges →
        ∃ acc', fromRangesLoop LEN acc.length acc l = .ok acc' ∧ acc'.length ≤ LEN)
    ∧ (∀ e, fromRangesSpec.go (LEN + 1 - acc.length) acc.head? l = some e → e ≠ .notEnoughRanges →
        fromRangesLoop LEN acc.length acc l = .error e) := by
  intro l
  induction l with
  | nil =>
    intro acc hacc
    rcases Nat.eq_zero_or_pos (LEN + 1 - acc.length) with hk | hk
    · rw [hk]; simp [fromRangesSpec.go, fromRangesLoop]
    · obtain ⟨k, hk'⟩ := Nat.exists_eq_succ_of_ne_zero (Nat.pos_iff_ne_zero.mp hk)
      rw [hk']
      simp only [fromRangesSpec.go, fromRangesLoop]
      refine ⟨by simp, fun _ => ⟨acc, rfl, by omega⟩, ?_⟩
      intro e he hne; cases he; exact absurd rfl hne
  | cons r rest ih =>
    intro acc hacc
    rcases Nat.eq_zero_or_pos (LEN + 1 - acc.length) with hk | hk
    · have hgt : acc.length > LEN := by omega
      rw [hk]
      cases acc with
      | nil => simp at hgt
      | cons p tl =>
        rw [fromRangesLoop, if_pos hgt]
        simp [fromRangesSpec.go]
    · obtain ⟨k, hk'⟩ := Nat.exists_eq_succ_of_ne_zero (Nat.pos_iff_ne_zero.mp hk)
      have hle : ¬ acc.length > LEN := by omega
      have hk2 : LEN + 1 - (r :: acc).length = k := by simp only [List.length_cons]; omega
      have ih' := ih (r :: acc) (by simp only [List.length_cons]; omega)
      rw [hk2] at ih'
      simp only [List.head?_cons, List.length_cons] at ih'
      rw [hk']
      have htake : (List.take (k + 1) (r :: rest)).reverse ++ acc = (List.take k rest).reverse ++ r :: acc := by
        simp
      rw [htake]
      cases acc with
      | nil =>
        rw [fromRangesLoop]
        simp only [List.head?_nil, fromRangesSpec.go, List.length_nil] at hle ⊢ ih'
        rw [if_neg hle]
        by_cases hn : FloatOps.isNaN r = true
        · simp [hn]
        · simp only [hn, if_false, Bool.false_eq_true]
          refine ⟨fun h => ⟨(ih'.1 h).1, ?_⟩, ih'.2.1, ih'.2.2⟩
          have := (ih'.1 h).2; simp only [List.length_cons]; omega
      | cons p tl =>
        rw [fromRangesLoop]
        simp only [List.head?_cons, fromRangesSpec.go, List.length_cons] at hle ⊢ ih'
        rw [if_neg hle]
        by_cases hn : FloatOps.isNaN r = true
        · simp [hn]
        · simp only [hn, if_false, Bool.false_eq_true]
          by_cases hlt : FloatOps.lt r p = true
          · simp [hlt]
          · simp only [hlt, if_false, Bool.false_eq_true]
            refine ⟨fun h => ⟨(ih'.1 h).1, ?_⟩, ih'.2.1, ih'.2.2⟩
            have := (ih'.1 h).2; omega

/-- **`from_ranges` is its specification**, for every `FloatOps` instance (both sides make the same
comparisons in the same order), every `LEN ≥ 1` and every input list. -/
theorem fromRanges_eq_spec' (LEN : Nat) (hLEN : 1 ≤ LEN) (l : List α) :
    Hist.fromRanges LEN l = (fromRangesSpec LEN l).map (fun r => ⟨r, List.replicate LEN 0⟩) := by
  have h := loop_vs_go LEN l [] (by simp)
  simp only [List.length_nil, Nat.sub_zero, List.head?_nil, List.append_nil] at h
  unfold Hist.fromRanges fromRangesSpec
  cases hg : fromRangesSpec.go (LEN + 1) none l with
  | none =>
    obtain ⟨h1, h2⟩ := h.1 hg
    rw [h1]
    simp [Except.map]; omega
  | some e =>
    by_cases he : e = .notEnoughRanges
    · subst he
      obtain ⟨acc', h1, h2⟩ := h.2.1 hg
      rw [h1]
      have : acc'.length - 1 ≠ LEN := by omega
      simp [this, Except.map]
    · rw [h.2.2 e hg he]; simp [Except.map]

/-- "no value is NaN and none is smaller than its predecessor", `prev` being the value before the list -/
def GoodEdges (prev : Option α) (l : List α) : Prop :=
  (∀ x ∈ l, FloatOps.isNaN x = false) ∧
    List.IsChain (fun a b : α => FloatOps.lt b a = false) (prev.toList ++ l)

theorem go_none_iff : ∀ (l : List α) (k : Nat) (prev : Option α),
    fromRangesSpec.go k prev l = none ↔ k ≤ l.length ∧ GoodEdges prev (l.take k) := by
  intro l
  induction l with
  | nil =>
    intro k prev
    cases k with
    | zero => cases prev <;> simp [fromRangesSpec.go, GoodEdges]
    | succ k => simp [fromRangesSpec.go]
  | cons r rest ih =>
    intro k prev
    cases k with
    | zero => cases prev <;> simp [fromRangesSpec.go, GoodEdges]
    | succ k =>
      cases prev with
      | none =>
        simp only [fromRangesSpec.go]
        by_cases hn : FloatOps.isNaN r = true
        · simp [hn, GoodEdges]
        · simp only [hn, if_false, Bool.false_eq_true, ih]
          simp only [Bool.not_eq_true] at hn
          simp [GoodEdges, hn]
      | some p =>
        simp only [fromRangesSpec.go]
        by_cases hn : FloatOps.isNaN r = true
        · simp [hn, GoodEdges]
        · simp only [hn, if_false, Bool.false_eq_true]
          simp only [Bool.not_eq_true] at hn
          by_cases hlt : FloatOps.lt r p = true
          · simp [hlt, GoodEdges]
          · simp only [hlt, if_false, Bool.false_eq_true, ih]
            simp only [Bool.not_eq_true] at hlt
            simp [GoodEdges, hn, hlt]

theorem go_notEnough_iff : ∀ (l : List α) (k : Nat) (prev : Option α),
    fromRangesSpec.go k prev l = some .notEnoughRanges ↔ l.length < k ∧ GoodEdges prev l := by
  intro l
  induction l with
  | nil =>
    intro k prev
    cases k with
    | zero => simp [fromRangesSpec.go]
    | succ k => cases prev <;> simp [fromRangesSpec.go, GoodEdges]
  | cons r rest ih =>
    intro k prev
    cases k with
    | zero => simp [fromRangesSpec.go]
    | succ k =>
      cases prev with
      | none =>
        simp only [fromRangesSpec.go]
        by_cases hn : FloatOps.isNaN r = true
        · simp [hn, GoodEdges]
        · simp only [hn, if_false, Bool.false_eq_true, ih]
          simp only [Bool.not_eq_true] at hn
          simp [GoodEdges, hn]
      | some p =>
        simp only [fromRangesSpec.go]
        by_cases hn : FloatOps.isNaN r = true
        · simp [hn, GoodEdges]
        · simp only [hn, if_false, Bool.false_eq_true]
          simp only [Bool.not_eq_true] at hn
          by_cases hlt : FloatOps.lt r p = true
          · simp [hlt, GoodEdges]
          · simp only [hlt, if_false, Bool.false_eq_true, ih]
            simp only [Bool.not_eq_true] at hlt
            simp [GoodEdges, hn, hlt]

/-- the error is that of the first offending position: after a good prefix `pre` (shorter than the
number of positions scanned) comes `r`, which is NaN or smaller than its predecessor -/
theorem go_first_offender : ∀ (pre : List α) (k : Nat) (prev : Option α) (r : α) (rest : List α),
    pre.length < k → GoodEdges prev pre →
    (FloatOps.isNaN r = true ∨ ∃ p ∈ (prev.toList ++ pre).getLast?, FloatOps.lt r p = true) →
    fromRangesSpec.go k prev (pre ++ r :: rest)
      = some (if FloatOps.isNaN r = true then .nan else .notSorted) := by
  intro pre
  induction pre with
  | nil =>
    intro k prev r rest hk _ hoff
    obtain ⟨k, rfl⟩ := Nat.exists_eq_succ_of_ne_zero (Nat.pos_iff_ne_zero.mp hk)
    cases prev with
    | none =>
      simp only [List.nil_append, fromRangesSpec.go]
      rcases hoff with h | h
      · simp [h]
      · simp at h
    | some p =>
      simp only [List.nil_append, fromRangesSpec.go]
      by_cases hn : FloatOps.isNaN r = true
      · simp [hn]
      · rcases hoff with h | h
        · exact absurd h hn
        · simp at h; simp [hn, h]
  | cons a pre ih =>
    intro k prev r rest hk hgood hoff
    obtain ⟨k, rfl⟩ := Nat.exists_eq_succ_of_ne_zero (Nat.pos_iff_ne_zero.mp (Nat.zero_lt_of_lt hk))
    have ha : FloatOps.isNaN a = false := hgood.1 a (by simp)
    have hoff' : FloatOps.isNaN r = true ∨ ∃ p ∈ ((some a).toList ++ pre).getLast?, FloatOps.lt r p = true := by
      rcases hoff with h | ⟨p, hp, hlt⟩
      · exact Or.inl h
      · refine Or.inr ⟨p, ?_, hlt⟩
        cases prev <;> simpa [List.getLast?_cons_cons, List.getLast?_append] using hp
    have hgood' : GoodEdges (some a) pre := by
      refine ⟨fun x hx => hgood.1 x (by simp [hx]), ?_⟩
      have := hgood.2
      cases prev with
      | none => simpa using this
      | some p => simp only [Option.toList_some, List.singleton_append] at this ⊢; exact (List.isChain_cons_cons.mp this).2
    have hrec := ih k (some a) r rest (by simpa using hk) hgood' hoff'
    cases prev with
    | none =>
      simp only [List.cons_append, fromRangesSpec.go, ha, Bool.false_eq_true, if_false]
      exact hrec
    | some p =>
      have hlt : FloatOps.lt a p = false := by
        have := hgood.2
        simp only [Option.toList_some, List.singleton_append] at this
        exact (List.isChain_cons_cons.mp this).1
      simp only [List.cons_append, fromRangesSpec.go, ha, hlt, Bool.false_eq_true, if_false]
      exact hrec

/-- `from_ranges` in terms of the scan of the specification -/
theorem fromRanges_eq_go (LEN : Nat) (hLEN : 1 ≤ LEN) (l : List α) :
    Hist.fromRanges LEN l = match fromRangesSpec.go (LEN + 1) none l with
      | some e => .error e
      | none => .ok ⟨l.take (LEN + 1), List.replicate LEN 0⟩ := by
  rw [fromRanges_eq_spec' LEN hLEN l]
  unfold fromRangesSpec
  cases fromRangesSpec.go (LEN + 1) none l <;> rfl

/-- the scan looks at the first `k` values only -/
theorem go_take : ∀ (l : List α) (k : Nat) (prev : Option α),
    fromRangesSpec.go k prev (l.take k) = fromRangesSpec.go k prev l := by
  intro l
  induction l with
  | nil => intro k prev; simp
  | cons r rest ih =>
    intro k prev
    cases k with
    | zero => simp [fromRangesSpec.go]
    | succ k =>
      cases prev with
      | none => simp only [List.take_succ_cons, fromRangesSpec.go, ih]
      | some p => simp only [List.take_succ_cons, fromRangesSpec.go, ih]

end any

/-! ## ordered carrier: accepted edge lists are sorted -/
section ord
variable {K : Type} [LinearOrder K] [FloatOps K] [OrdLawful K]

theorem goodEdges_none_iff_pairwise (l : List K) : GoodEdges none l ↔ l.Pairwise (· ≤ ·) := by
  unfold GoodEdges
  simp only [ord_isNaN, implies_true, true_and, Option.toList_none, List.nil_append, ord_lt,
    decide_eq_false_iff_not, not_lt]
  exact List.isChain_iff_pairwise

end ord
end Avg
