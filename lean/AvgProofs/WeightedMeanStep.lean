import AvgProofs.MeanMergeErr

/-!
# Real-number lemmas for the forward error of `WeightedMean` (standard model of rounding)

Everything here is about an ordered field `K`, a rounding `fl : K → K` with `|fl t - t| ≤ u |t|`, and
plain numbers; the estimator states come in `AvgProofs/WeightedMeanErr.lean`.

* `wsum_merge_step`: the computed sum of two computed weight sums. The invariant is *relative to the
  computed value*: `|C - W| ≤ h C` (`C` computed, `W` exact), which turns the perturbation of the ratio
  `w / C` into `|w/C - w/W| ≤ h · w/W` without a division.
* `wsum_h_step`: `(u + γ j u)/(1 - u) ≤ γ n u` for `j + 1 ≤ n`, `n u ≤ 1/64`, `γ = 64/63`.
* `wmean_step_error`: one `add` with positive weight: four roundings plus the perturbed ratio.
* `wmean_step_zero_weight`: one `add` with weight `0`: the sample is irrelevant, one rounding.
* `wEta_le_k`, `wstep_budget0/1/2`, `wstep_combine`: the numerical inequalities which close the induction
  with the constant `8`.
* `wmerge_exact_error`, `wmerge_budget`: merging with computed weights instead of the exact ones.
-/
variable {K : Type} [Field K] [LinearOrder K] [IsStrictOrderedRing K]

theorem fl_zero_of_err (fl : K → K) (u : K) (hfl : ∀ t, |fl t - t| ≤ u * |t|) : fl 0 = 0 := by
  have := hfl 0
  rw [abs_zero, mul_zero, sub_zero] at this
  exact abs_eq_zero.mp (le_antisymm this (abs_nonneg _))

/-! ## the running sum of the weights -/

/-- The rounded sum of two computed non-negative weight sums `Ca ≈ Wa`, `Cb ≈ Wb`, each within `h` of
its exact value relative to the computed one: the result is non-negative and within `(u+h)/(1-u)`. -/
theorem wsum_merge_step (fl : K → K) (u : K) (hu0 : 0 ≤ u) (hu1 : u < 1)
    (hfl : ∀ t, |fl t - t| ≤ u * |t|) (h Ca Cb Wa Wb : K) (hh : 0 ≤ h) (hCa : 0 ≤ Ca) (hCb : 0 ≤ Cb)
    (ha : |Ca - Wa| ≤ h * Ca) (hb : |Cb - Wb| ≤ h * Cb) :
    0 ≤ fl (Ca + Cb) ∧ |fl (Ca + Cb) - (Wa + Wb)| ≤ (u + h) / (1 - u) * fl (Ca + Cb) := by
  have hD : 0 < 1 - u := by linarith
  have hs0 : 0 ≤ Ca + Cb := add_nonneg hCa hCb
  have e : |fl (Ca + Cb) - (Ca + Cb)| ≤ u * (Ca + Cb) := by
    have := hfl (Ca + Cb); rwa [abs_of_nonneg hs0] at this
  have hlow : (1 - u) * (Ca + Cb) ≤ fl (Ca + Cb) := by
    have := (abs_le.mp e).1; linarith
  have hfl0 : 0 ≤ fl (Ca + Cb) := le_trans (mul_nonneg hD.le hs0) hlow
  refine ⟨hfl0, ?_⟩
  have h1 : |fl (Ca + Cb) - (Wa + Wb)| ≤ (u + h) * (Ca + Cb) := by
    have : fl (Ca + Cb) - (Wa + Wb)
        = (fl (Ca + Cb) - (Ca + Cb)) + ((Ca - Wa) + (Cb - Wb)) := by ring
    rw [this]
    calc _ ≤ |fl (Ca + Cb) - (Ca + Cb)| + |(Ca - Wa) + (Cb - Wb)| := abs_add_le _ _
      _ ≤ |fl (Ca + Cb) - (Ca + Cb)| + (|Ca - Wa| + |Cb - Wb|) := by gcongr; exact abs_add_le _ _
      _ ≤ u * (Ca + Cb) + (h * Ca + h * Cb) := by linarith
      _ = (u + h) * (Ca + Cb) := by ring
  have huh : 0 ≤ u + h := add_nonneg hu0 hh
  have h2 : Ca + Cb ≤ fl (Ca + Cb) / (1 - u) := by
    rw [le_div_iff₀ hD]; linarith
  calc _ ≤ (u + h) * (Ca + Cb) := h1
    _ ≤ (u + h) * (fl (Ca + Cb) / (1 - u)) := by gcongr
    _ = (u + h) / (1 - u) * fl (Ca + Cb) := by ring

/-- the relative error `γ n u`, `γ = 64/63`, is kept by one more rounded addition when `n u ≤ 1/64` -/
theorem wsum_h_step (u j n : K) (hu0 : 0 ≤ u) (hj0 : 0 ≤ j) (hjn : j + 1 ≤ n) (hsmall : n * u ≤ 1/64) :
    (u + 64/63 * j * u) / (1 - u) ≤ 64/63 * n * u := by
  have hn1 : 1 ≤ n := by linarith
  have hu : u ≤ 1/64 := by nlinarith
  have hD : 0 < 1 - u := by linarith
  rw [div_le_iff₀ hD]
  nlinarith [mul_nonneg hu0 (sub_nonneg.mpr hjn), mul_nonneg hu0 (sub_nonneg.mpr hsmall)]

/-- if the computed sum is within `h < 1` of the exact one (relative to the computed one), both vanish
together -/
theorem wsum_zero_iff (h C W : K) (hh1 : h < 1) (hC : 0 ≤ C) (hCW : |C - W| ≤ h * C) :
    C = 0 ↔ W = 0 := by
  constructor
  · intro h0
    rw [h0, mul_zero, zero_sub, abs_neg] at hCW
    exact abs_eq_zero.mp (le_antisymm hCW (abs_nonneg _))
  · intro h0
    rw [h0, sub_zero, abs_of_nonneg hC] at hCW
    nlinarith

/-! ## one `add` -/

/-- first-order `h + 3u`: the relative perturbation of `fl(fl(w/C)·fl(x - prev))` against
`(w/W)(x - prev)` when `|C - W| ≤ h C` -/
def wEta (h u : K) : K := u * (1 + h) * (1 + u)^2 + (h + u * (1 + h)) * (1 + u) + u

theorem wEta_nonneg (h u : K) (hh : 0 ≤ h) (hu : 0 ≤ u) : 0 ≤ wEta h u := by
  unfold wEta; positivity

/-- **One `add` with positive weight.** `C` is the computed new weight sum, `W'` the exact one,
`|C - W'| ≤ h C`; `prev` the stored average, `m` the exact weighted mean so far (`|m| ≤ M`), `x` the
sample (`|x| ≤ M`, `|x - m| ≤ D`), `r = w / W'` the exact ratio. The computed
`fl(prev + fl(fl(w/C)·fl(x - prev)))` is within
`(1+u)·((1-r)|e| + r·η·(D + |e|)) + u·M` of the exact `m + r (x - m)`, `e = prev - m`, `η = wEta h u`. -/
theorem wmean_step_error (fl : K → K) (u : K) (hu0 : 0 ≤ u) (hfl : ∀ t, |fl t - t| ≤ u * |t|)
    (h C W' w : K) (hh : 0 ≤ h) (hC : 0 < C) (hW' : 0 < W') (hCW : |C - W'| ≤ h * C)
    (hw0 : 0 ≤ w) (hwW : w ≤ W')
    (M D prev m x : K) (hm : |m| ≤ M) (hx : |x| ≤ M) (hD : |x - m| ≤ D) :
    |fl (prev + fl (fl (w / C) * fl (x - prev))) - (m + w / W' * (x - m))|
      ≤ (1 + u) * ((1 - w / W') * |prev - m| + w / W' * wEta h u * (D + |prev - m|)) + u * M := by
  have hM : 0 ≤ M := le_trans (abs_nonneg _) hm
  set r := w / W' with hr
  have hr0 : 0 ≤ r := div_nonneg hw0 hW'.le
  have hr1 : r ≤ 1 := by rw [hr, div_le_one hW']; exact hwW
  have h1r : 0 ≤ 1 - r := by linarith
  set e := prev - m with he
  set q := w / C with hq
  have hq0 : 0 ≤ q := div_nonneg hw0 hC.le
  -- the perturbed ratio
  have hqr : |q - r| ≤ r * h := by
    have : q - r = r * ((W' - C) / C) := by rw [hq, hr]; field_simp
    rw [this, abs_mul, abs_of_nonneg hr0, abs_div, abs_of_pos hC]
    gcongr
    rw [div_le_iff₀ hC, abs_sub_comm]; exact hCW
  have hqb : q ≤ r * (1 + h) := by
    have := (abs_le.mp hqr).2; linarith
  set ρ := fl q with hρ
  have e1 : |ρ - q| ≤ u * (r * (1 + h)) := by
    have := hfl q; rw [abs_of_nonneg hq0] at this
    exact le_trans this (by gcongr)
  have hρr : |ρ - r| ≤ r * (h + u * (1 + h)) := by
    have : ρ - r = (ρ - q) + (q - r) := by ring
    rw [this]
    calc _ ≤ |ρ - q| + |q - r| := abs_add_le _ _
      _ ≤ u * (r * (1 + h)) + r * h := by linarith
      _ = _ := by ring
  have hρb : |ρ| ≤ r * (1 + h) * (1 + u) := by
    have : ρ = (ρ - q) + q := by ring
    rw [this]
    calc _ ≤ |ρ - q| + |q| := abs_add_le _ _
      _ ≤ u * (r * (1 + h)) + r * (1 + h) := by rw [abs_of_nonneg hq0]; linarith
      _ = _ := by ring
  -- the difference
  have he0 : 0 ≤ |e| := abs_nonneg _
  have hD0 : 0 ≤ D := le_trans (abs_nonneg _) hD
  set Δ := D + |e| with hΔ
  have hΔ0 : 0 ≤ Δ := add_nonneg hD0 he0
  have hxp : |x - prev| ≤ Δ := by
    have : x - prev = (x - m) - e := by rw [he]; ring
    rw [this]
    calc _ ≤ |x - m| + |e| := abs_sub _ _
      _ ≤ Δ := by rw [hΔ]; linarith
  set d := fl (x - prev) with hd
  have e2 : |d - (x - prev)| ≤ u * Δ := le_trans (hfl _) (by gcongr)
  have hdb : |d| ≤ (1 + u) * Δ := by
    have : d = (d - (x - prev)) + (x - prev) := by ring
    rw [this]
    calc _ ≤ |d - (x - prev)| + |x - prev| := abs_add_le _ _
      _ ≤ u * Δ + Δ := by linarith
      _ = _ := by ring
  -- the product
  set p := fl (ρ * d) with hp
  have e3 : |p - ρ * d| ≤ u * ((r * (1 + h) * (1 + u)) * ((1 + u) * Δ)) := by
    refine le_trans (hfl _) ?_
    rw [abs_mul]; gcongr
  have hmid : |ρ * d - r * (x - prev)|
      ≤ (r * (h + u * (1 + h))) * ((1 + u) * Δ) + r * (u * Δ) := by
    have : ρ * d - r * (x - prev) = (ρ - r) * d + r * (d - (x - prev)) := by ring
    rw [this]
    calc _ ≤ |(ρ - r) * d| + |r * (d - (x - prev))| := abs_add_le _ _
      _ = |ρ - r| * |d| + r * |d - (x - prev)| := by rw [abs_mul, abs_mul, abs_of_nonneg hr0]
      _ ≤ _ := by gcongr
  have hpe : |p - r * (x - prev)| ≤ r * wEta h u * Δ := by
    have : p - r * (x - prev) = (p - ρ * d) + (ρ * d - r * (x - prev)) := by ring
    rw [this]
    calc _ ≤ |p - ρ * d| + |ρ * d - r * (x - prev)| := abs_add_le _ _
      _ ≤ u * ((r * (1 + h) * (1 + u)) * ((1 + u) * Δ))
            + ((r * (h + u * (1 + h))) * ((1 + u) * Δ) + r * (u * Δ)) := by linarith
      _ = r * wEta h u * Δ := by unfold wEta; ring
  -- the sum against the exact update
  set G := (1 - r) * |e| + r * wEta h u * Δ with hG
  have hsμ : |(prev + p) - (m + r * (x - m))| ≤ G := by
    have : (prev + p) - (m + r * (x - m)) = (1 - r) * e + (p - r * (x - prev)) := by rw [he]; ring
    rw [this]
    calc _ ≤ |(1 - r) * e| + |p - r * (x - prev)| := abs_add_le _ _
      _ = (1 - r) * |e| + |p - r * (x - prev)| := by rw [abs_mul, abs_of_nonneg h1r]
      _ ≤ _ := by linarith
  have hμ' : |m + r * (x - m)| ≤ M := by
    have : m + r * (x - m) = (1 - r) * m + r * x := by ring
    rw [this]
    calc _ ≤ |(1 - r) * m| + |r * x| := abs_add_le _ _
      _ = (1 - r) * |m| + r * |x| := by rw [abs_mul, abs_mul, abs_of_nonneg h1r, abs_of_nonneg hr0]
      _ ≤ (1 - r) * M + r * M := by gcongr
      _ = M := by ring
  have hsb : |prev + p| ≤ M + G := by
    have : prev + p = (m + r * (x - m)) + ((prev + p) - (m + r * (x - m))) := by ring
    rw [this]
    calc _ ≤ |m + r * (x - m)| + |(prev + p) - (m + r * (x - m))| := abs_add_le _ _
      _ ≤ M + G := by linarith
  have e4 : |fl (prev + p) - (prev + p)| ≤ u * (M + G) := le_trans (hfl _) (by gcongr)
  have : fl (prev + p) - (m + r * (x - m))
      = (fl (prev + p) - (prev + p)) + ((prev + p) - (m + r * (x - m))) := by ring
  rw [this]
  calc _ ≤ |fl (prev + p) - (prev + p)| + |(prev + p) - (m + r * (x - m))| := abs_add_le _ _
    _ ≤ u * (M + G) + G := by linarith
    _ = (1 + u) * G + u * M := by ring

/-- **One `add` with weight 0** (non-zero weight sum): the ratio, the product are exactly `0`, the
sample does not matter; the only rounding is the final `fl(prev + 0)`. -/
theorem wmean_step_zero_weight (fl : K → K) (u : K) (hu0 : 0 ≤ u) (hfl : ∀ t, |fl t - t| ≤ u * |t|)
    (C M prev m x : K) (hm : |m| ≤ M) :
    |fl (prev + fl (fl (0 / C) * fl (x - prev))) - m| ≤ (1 + u) * |prev - m| + u * M := by
  have f0 := fl_zero_of_err fl u hfl
  rw [zero_div, f0, zero_mul, f0, add_zero]
  have hp : |prev| ≤ M + |prev - m| := by
    have : |prev| = |m + (prev - m)| := by congr 1; ring
    rw [this]
    calc _ ≤ |m| + |prev - m| := abs_add_le _ _
      _ ≤ _ := by linarith
  have : fl prev - m = (fl prev - prev) + (prev - m) := by ring
  rw [this]
  have h1 := hfl prev
  have h2 : u * |prev| ≤ u * (M + |prev - m|) := by gcongr
  calc _ ≤ |fl prev - prev| + |prev - m| := abs_add_le _ _
    _ ≤ u * (M + |prev - m|) + |prev - m| := by linarith
    _ = _ := by ring

/-! ## numerics of the induction step (constant 8, `k u ≤ 1/64`) -/

theorem wEta_le (h u : K) (hh0 : 0 ≤ h) (hh1 : h ≤ 1/63) (hu0 : 0 ≤ u) (hu1 : u ≤ 1/64) :
    wEta h u ≤ 33/32 * h + 25/8 * u := by
  have a1 : u * (1 + h) * (1 + u)^2 ≤ u * (64/63) * (65/64)^2 := by
    gcongr <;> linarith
  have a2 : (h + u * (1 + h)) * (1 + u) ≤ (h + u * (64/63)) * (65/64) := by
    gcongr <;> linarith
  unfold wEta
  nlinarith

/-- with `h = γ k u`, `γ = 64/63`, `k ≥ 1`, `k u ≤ 1/64`: `η ≤ (17/16)(k + 3) u` -/
theorem wEta_le_k (k u : K) (hk : 1 ≤ k) (hu0 : 0 ≤ u) (hsmall : k * u ≤ 1/64) :
    wEta (64/63 * k * u) u ≤ 17/16 * (k + 3) * u := by
  have hu1 : u ≤ 1/64 := by nlinarith
  have hku : 0 ≤ k * u := by positivity
  have h0 : 0 ≤ 64/63 * k * u := by positivity
  have h1 : 64/63 * k * u ≤ 1/63 := by nlinarith
  refine le_trans (wEta_le _ u h0 h1 hu0 hu1) ?_
  nlinarith

/-- `r = 0` end of the step: the previous error, rounded once -/
theorem wstep_budget0 (k u M : K) (hu0 : 0 ≤ u) (hM : 0 ≤ M) (hsmall : k * u ≤ 1/64) :
    (1 + u) * (8 * u * M * (k - 1)) + u * M ≤ 8 * u * M * k := by
  have huM : 0 ≤ u * M := mul_nonneg hu0 hM
  nlinarith [mul_nonneg huM (sub_nonneg.mpr hsmall), mul_nonneg huM hu0]

/-- `r = 1` end of the step, first contributing observation (`e = 0`, `|x - m| ≤ M`) -/
theorem wstep_budget1 (k u M η : K) (hk : 1 ≤ k) (hu0 : 0 ≤ u) (hM : 0 ≤ M) (hsmall : k * u ≤ 1/64)
    (hη0 : 0 ≤ η) (hη : η ≤ 17/16 * (k + 3) * u) :
    (1 + u) * (η * (M + 0)) + u * M ≤ 8 * u * M * k := by
  have hu1 : u ≤ 1/64 := by nlinarith
  have huM : 0 ≤ u * M := mul_nonneg hu0 hM
  have h1 : (1 + u) * (η * (M + 0)) ≤ (65/64) * ((17/16 * (k + 3) * u) * M) := by
    rw [add_zero]; gcongr; linarith
  have h2 : (65/64) * ((17/16 * (k + 3) * u) * M) = (65/64 * (17/16)) * (k + 3) * (u * M) := by ring
  nlinarith [mul_nonneg huM (sub_nonneg.mpr hk)]

/-- `r = 1` end of the step, `k ≥ 2` (`|e| ≤ 8uM(k-1)`, `|x - m| ≤ 2M`) -/
theorem wstep_budget2 (k u M η : K) (hk : 2 ≤ k) (hu0 : 0 ≤ u) (hM : 0 ≤ M) (hsmall : k * u ≤ 1/64)
    (hη0 : 0 ≤ η) (hη : η ≤ 17/16 * (k + 3) * u) :
    (1 + u) * (η * (2 * M + 8 * u * M * (k - 1))) + u * M ≤ 8 * u * M * k := by
  have hu1 : u ≤ 1/64 := by nlinarith
  have huM : 0 ≤ u * M := mul_nonneg hu0 hM
  have hE : 2 * M + 8 * u * M * (k - 1) ≤ 17/8 * M := by
    nlinarith [mul_nonneg hM (sub_nonneg.mpr hsmall), mul_nonneg hu0 hM]
  have hE0 : 0 ≤ 2 * M + 8 * u * M * (k - 1) := by
    have : 0 ≤ 8 * u * M * (k - 1) := by
      have : 0 ≤ k - 1 := by linarith
      positivity
    linarith
  have h1 : (1 + u) * (η * (2 * M + 8 * u * M * (k - 1)))
      ≤ (65/64) * ((17/16 * (k + 3) * u) * (17/8 * M)) := by
    gcongr; linarith
  have h2 : (65/64) * ((17/16 * (k + 3) * u) * (17/8 * M))
      = (65/64 * (17/16) * (17/8)) * (k + 3) * (u * M) := by ring
  nlinarith [mul_nonneg huM (sub_nonneg.mpr hk)]

/-- the bound of `wmean_step_error` is affine in `r`: it is enough to check `r = 0` and `r = 1` -/
theorem wstep_combine (u M r ev E η D T : K) (hu0 : 0 ≤ u) (hr0 : 0 ≤ r) (hr1 : r ≤ 1)
    (_ : 0 ≤ ev) (hev : ev ≤ E) (hη0 : 0 ≤ η) (_ : 0 ≤ D)
    (b0 : (1 + u) * E + u * M ≤ T) (b1 : (1 + u) * (η * (D + E)) + u * M ≤ T) :
    (1 + u) * ((1 - r) * ev + r * η * (D + ev)) + u * M ≤ T := by
  have h1r : 0 ≤ 1 - r := by linarith
  have h1 : (1 + u) * ((1 - r) * ev + r * η * (D + ev)) + u * M
      ≤ (1 + u) * ((1 - r) * E + r * η * (D + E)) + u * M := by gcongr
  have h2 : (1 + u) * ((1 - r) * E + r * η * (D + E)) + u * M
      = (1 - r) * ((1 + u) * E + u * M) + r * ((1 + u) * (η * (D + E)) + u * M) := by ring
  have h3 : (1 - r) * ((1 + u) * E + u * M) ≤ (1 - r) * T := by gcongr
  have h4 : r * ((1 + u) * (η * (D + E)) + u * M) ≤ r * T := by gcongr
  linarith

/-! ## one `merge` -/

/-- Merging with the computed weights `Ca ≈ Wa`, `Cb ≈ Wb` instead of the exact ones: the exactly
evaluated `(Ca a + Cb b)/(Ca + Cb)` against `(Wa ma + Wb mb)/(Wa + Wb)`. -/
theorem wmerge_exact_error (Ca Cb Wa Wb ha hb a b ma mb M : K) (hCa : 0 < Ca) (hCb : 0 < Cb)
    (hWa : 0 < Wa) (hWb : 0 < Wb) (hha : 0 ≤ ha) (hhb : 0 ≤ hb) (hha1 : ha ≤ 1/63) (hhb1 : hb ≤ 1/63)
    (hA : |Ca - Wa| ≤ ha * Ca) (hB : |Cb - Wb| ≤ hb * Cb) (hma : |ma| ≤ M) (hmb : |mb| ≤ M) :
    |(Ca * a + Cb * b) / (Ca + Cb) - (Wa * ma + Wb * mb) / (Wa + Wb)|
      ≤ (Ca * |a - ma| + Cb * |b - mb|) / (Ca + Cb)
        + 2 * M * (63/62) * (ha + hb) * (Ca * Cb) / (Ca + Cb)^2 := by
  have hM : 0 ≤ M := le_trans (abs_nonneg _) hma
  have hS : 0 < Ca + Cb := add_pos hCa hCb
  have hV : 0 < Wa + Wb := add_pos hWa hWb
  have hVS : 62/63 * (Ca + Cb) ≤ Wa + Wb := by
    have h1 := (abs_le.mp hA).2
    have h2 := (abs_le.mp hB).2
    nlinarith [mul_nonneg (sub_nonneg.mpr hha1) hCa.le, mul_nonneg (sub_nonneg.mpr hhb1) hCb.le]
  have hid : (Ca * a + Cb * b) / (Ca + Cb) - (Wa * ma + Wb * mb) / (Wa + Wb)
      = (Ca * (a - ma) + Cb * (b - mb)) / (Ca + Cb)
        + (mb - ma) * (Cb * Wa - Wb * Ca) / ((Ca + Cb) * (Wa + Wb)) := by
    field_simp; ring
  rw [hid]
  have hfirst : |(Ca * (a - ma) + Cb * (b - mb)) / (Ca + Cb)|
      ≤ (Ca * |a - ma| + Cb * |b - mb|) / (Ca + Cb) := by
    rw [abs_div, abs_of_pos hS]
    gcongr
    calc _ ≤ |Ca * (a - ma)| + |Cb * (b - mb)| := abs_add_le _ _
      _ = _ := by rw [abs_mul, abs_mul, abs_of_pos hCa, abs_of_pos hCb]
  have hcross : |Cb * Wa - Wb * Ca| ≤ (ha + hb) * (Ca * Cb) := by
    have : Cb * Wa - Wb * Ca = Ca * (Cb - Wb) - Cb * (Ca - Wa) := by ring
    rw [this]
    calc _ ≤ |Ca * (Cb - Wb)| + |Cb * (Ca - Wa)| := abs_sub _ _
      _ = Ca * |Cb - Wb| + Cb * |Ca - Wa| := by rw [abs_mul, abs_mul, abs_of_pos hCa, abs_of_pos hCb]
      _ ≤ Ca * (hb * Cb) + Cb * (ha * Ca) := by gcongr
      _ = _ := by ring
  have hmm : |mb - ma| ≤ 2 * M := by
    calc _ ≤ |mb| + |ma| := abs_sub _ _
      _ ≤ _ := by linarith
  have hsecond : |(mb - ma) * (Cb * Wa - Wb * Ca) / ((Ca + Cb) * (Wa + Wb))|
      ≤ 2 * M * (63/62) * (ha + hb) * (Ca * Cb) / (Ca + Cb)^2 := by
    rw [abs_div, abs_mul, abs_of_pos (mul_pos hS hV)]
    have hnum0 : 0 ≤ (ha + hb) * (Ca * Cb) := by positivity
    calc |mb - ma| * |Cb * Wa - Wb * Ca| / ((Ca + Cb) * (Wa + Wb))
        ≤ (2 * M) * ((ha + hb) * (Ca * Cb)) / ((Ca + Cb) * (62/63 * (Ca + Cb))) := by gcongr
      _ = _ := by field_simp
  calc _ ≤ |(Ca * (a - ma) + Cb * (b - mb)) / (Ca + Cb)|
        + |(mb - ma) * (Cb * Wa - Wb * Ca) / ((Ca + Cb) * (Wa + Wb))| := abs_add_le _ _
    _ ≤ _ := by linarith

/-- the budget of one merge with the constant `8`: the convex combination of the two budgets, the
perturbation of the weights and the five roundings (`5 u A`, `A = M + 8uMn`) fit into `8 u M n`. -/
theorem wmerge_budget (u M Ca Cb na nb : K) (hu0 : 0 ≤ u) (hM : 0 ≤ M) (hCa : 0 < Ca) (hCb : 0 < Cb)
    (hna : 1 ≤ na) (hnb : 1 ≤ nb) (hsmall : (na + nb) * u ≤ 1/64) :
    (Ca * (8 * u * M * na) + Cb * (8 * u * M * nb)) / (Ca + Cb)
      + 2 * M * (63/62) * (64/63 * na * u + 64/63 * nb * u) * (Ca * Cb) / (Ca + Cb)^2
      + 5 * u * (M + 8 * u * M * (na + nb)) ≤ 8 * u * M * (na + nb) := by
  have hS : 0 < Ca + Cb := add_pos hCa hCb
  have huM : 0 ≤ u * M := mul_nonneg hu0 hM
  set t := Cb / (Ca + Cb) with ht
  have ht0 : 0 ≤ t := div_nonneg hCb.le hS.le
  have ht1 : t ≤ 1 := by rw [ht, div_le_one hS]; linarith
  have h1t : 0 ≤ 1 - t := by linarith
  have e1 : (Ca * (8 * u * M * na) + Cb * (8 * u * M * nb)) / (Ca + Cb)
      = 8 * (u * M) * ((1 - t) * na + t * nb) := by
    rw [ht]; field_simp; ring
  have e2 : 2 * M * (63/62) * (64/63 * na * u + 64/63 * nb * u) * (Ca * Cb) / (Ca + Cb)^2
      = 64/31 * (u * M) * ((na + nb) * (t * (1 - t))) := by
    rw [ht]; field_simp; ring
  rw [e1, e2]
  -- X = (1-t) nb + t na ≥ 1 and ≥ n t (1-t)
  set X := (1 - t) * nb + t * na with hX
  have hX1 : 1 ≤ X := by
    rw [hX]; nlinarith [mul_nonneg h1t (sub_nonneg.mpr hnb), mul_nonneg ht0 (sub_nonneg.mpr hna)]
  have hX2 : (na + nb) * (t * (1 - t)) ≤ X := by
    rw [hX]
    have hna0 : 0 ≤ na := by linarith
    have hnb0 : 0 ≤ nb := by linarith
    nlinarith [mul_nonneg (mul_nonneg hna0 ht0) ht0, mul_nonneg (mul_nonneg hnb0 h1t) h1t]
  have h5 : 5 * u * (M + 8 * u * M * (na + nb)) ≤ 45/8 * (u * M) := by
    nlinarith [mul_nonneg huM (sub_nonneg.mpr hsmall)]
  have h6 : 64/31 * (u * M) * ((na + nb) * (t * (1 - t))) ≤ 64/31 * (u * M) * X := by gcongr
  have h7 : 45/8 * (u * M) ≤ 45/8 * (u * M) * X := by
    nlinarith [mul_nonneg huM (sub_nonneg.mpr hX1)]
  have h8 : 8 * (u * M) * ((1 - t) * na + t * nb) + 8 * (u * M) * X = 8 * u * M * (na + nb) := by
    rw [hX]; ring
  nlinarith [mul_nonneg huM (sub_nonneg.mpr hX1)]

#print axioms wsum_merge_step
#print axioms wmean_step_error
#print axioms wmean_step_zero_weight
#print axioms wmerge_exact_error
#print axioms wmerge_budget
