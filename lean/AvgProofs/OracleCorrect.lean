import AvgModel.Drv.Oracle
import AvgProofs.CovCanon
import Mathlib.Algebra.BigOperators.Ring.List
import Mathlib.Algebra.BigOperators.Ring.Finset
import Mathlib.Algebra.Order.Ring.Rat
import Mathlib.Algebra.Order.Field.Rat
import Mathlib.Data.Rat.Defs
import Mathlib.Tactic.Ring
import Mathlib.Tactic.FieldSimp
import Mathlib.Tactic.Linarith
import Mathlib.Tactic.Positivity

/-!
# The exact oracle of the driver computes the textbook statistics

`Avg.Drv.Exact` stores a data set `x_i = X_i * s` (`X_i : ℤ`, `s : ℚ` a common scale) as
`n`, `ΣX` and `D_i = n X_i - ΣX`; then `x_i - mean = D_i * (s/n)`.
Here: `Exact.mean`, `Exact.sumPow`, `Exact.sumAbsPow`, `Exact.m`, `Exact.nu`, `Exact.maxAbs`,
`crossSum` equal `MSpec.mean`, `MSpec.sumPow`, ... of the list of rationals `x_i`.

`mkExact` is `decodeF` on every element followed by the pure function `exactOfPairs` of the decoded
pairs `(m_i, e_i)` (`mkExact_eq`); `exactOfPairs ds = exactOfInts (scaledInts ds) (2^emin)`, and the
rationals `X_i * 2^emin` are the values `m_i * 2^(e_i)` that `toRat?` assigns to the floats.
`Float` itself is opaque: nothing is (or can be) said about `decodeF`.
-/
open Avg Avg.Drv

namespace Avg.Drv

/-! ## the small recursive helpers -/

theorem intPow_eq (a : Int) (p : Nat) : intPow a p = a ^ p := by
  induction p with
  | zero => simp [intPow]
  | succ k ih => rw [intPow, ih, pow_succ]

theorem ratPow_eq (r : ℚ) (p : Nat) : ratPow r p = r ^ p := by
  induction p with
  | zero => simp [ratPow]
  | succ k ih => rw [ratPow, ih, pow_succ]

theorem ratAbs_eq (r : ℚ) : ratAbs r = |r| := by
  unfold ratAbs
  split
  · next h => rw [abs_of_neg h]
  · next h => rw [abs_of_nonneg (not_lt.mp h)]

/-- `pow2Rat e` is `2^e` for every integer `e` (negative ones included) -/
theorem pow2Rat_eq (e : Int) : pow2Rat e = (2 : ℚ) ^ e := by
  unfold pow2Rat
  split
  · next h =>
    have : e = (e.toNat : Int) := (Int.toNat_of_nonneg h).symm
    conv_rhs => rw [this]
    rw [zpow_natCast]; push_cast; rfl
  · next h =>
    have h' : 0 ≤ -e := by omega
    have : e = -((-e).toNat : Int) := by rw [Int.toNat_of_nonneg h']; ring
    conv_rhs => rw [this]
    rw [zpow_neg, zpow_natCast, Rat.mkRat_eq_div]; push_cast; simp

theorem pow2Rat_pos (e : Int) : 0 < pow2Rat e := by
  rw [pow2Rat_eq]; exact zpow_pos (by norm_num) e

/-! ## folds as sums -/

theorem foldl_add_map {β : Type} (f : β → Int) (l : List β) (a : Int) :
    l.foldl (fun acc d => acc + f d) a = a + (l.map f).sum := by
  induction l generalizing a with
  | nil => simp
  | cons x l ih => simp only [List.foldl_cons, ih, List.map_cons, List.sum_cons]; ring

theorem foldl_add_pairs (l : List (Int × Int)) (a : Int) :
    l.foldl (fun acc (x : Int × Int) => match x with | (d, e) => acc + d * e) a
      = a + (l.map fun x => x.1 * x.2).sum := by
  induction l generalizing a with
  | nil => simp
  | cons x l ih =>
    obtain ⟨d, e⟩ := x
    simp only [List.foldl_cons, ih, List.map_cons, List.sum_cons]; ring

theorem foldl_sum (l : List Int) : l.foldl (· + ·) 0 = l.sum := by
  have := foldl_add_map (fun x : Int => x) l 0
  simpa using this

/-! ## the pure part of `mkExact` -/

/-- what `mkExact` builds from the scaled integers `X_i` and the scale `s` -/
def exactOfInts (X : List Int) (s : Rat) : Exact :=
  let A : Array Int := X.toArray
  let sumX := A.foldl (· + ·) 0
  let n := A.size
  let D := A.map fun x => (n : Int) * x - sumX
  let mx := A.foldl (fun acc x => max acc x.natAbs) 0
  { n := n, s := s, sumX := sumX, D := D, maxAbs := (mx : Rat) * s }

/-- the smallest exponent, as `mkExact` computes it -/
def eminOf (ds : List (Int × Int)) : Int :=
  if ds.isEmpty then 0 else ds.foldl (fun acc (_, e) => min acc e) (ds.head!.2)

/-- the integers `X_i = m_i * 2^(e_i - emin)` -/
def scaledInts (ds : List (Int × Int)) : List Int :=
  ds.map fun (m, e) => m * (2 ^ (e - eminOf ds).toNat : Nat)

/-- `mkExact` after decoding -/
def exactOfPairs (ds : List (Int × Int)) : Exact := exactOfInts (scaledInts ds) (pow2Rat (eminOf ds))

/-- `mkExact` is: decode every float, then the pure function `exactOfPairs` -/
theorem mkExact_eq (xs : List Float) : mkExact xs = (xs.mapM decodeF).map exactOfPairs := by
  unfold mkExact
  cases xs.mapM decodeF with
  | none => rfl
  | some ds => rfl

@[simp] theorem exactOfInts_n (X : List Int) (s : Rat) : (exactOfInts X s).n = X.length := by
  simp [exactOfInts]
@[simp] theorem exactOfInts_s (X : List Int) (s : Rat) : (exactOfInts X s).s = s := rfl
@[simp] theorem exactOfInts_sumX (X : List Int) (s : Rat) : (exactOfInts X s).sumX = X.sum := by
  simp [exactOfInts, foldl_sum]
@[simp] theorem exactOfInts_D (X : List Int) (s : Rat) :
    (exactOfInts X s).D.toList = X.map fun x => (X.length : Int) * x - X.sum := by
  simp [exactOfInts, foldl_sum]

/-! ## `exactOfInts`: the statistics of the rationals `X_i * s` -/

/-- the data set an `exactOfInts X s` stands for -/
def ratsOf (X : List Int) (s : ℚ) : List ℚ := X.map fun x : Int => (x : ℚ) * s

@[simp] theorem ratsOf_length (X : List Int) (s : ℚ) : (ratsOf X s).length = X.length := by
  simp [ratsOf]

theorem ratsOf_sum (X : List Int) (s : ℚ) : (ratsOf X s).sum = ((X.sum : Int) : ℚ) * s := by
  rw [ratsOf, List.sum_map_mul_right, Int.cast_list_sum]

/-- the mean (no hypothesis is needed for the formula itself; for `X = []` both sides are the
junk value `0/0`, so the property theorems carry `X ≠ []`) -/
theorem exactOfInts_mean (X : List Int) (s : ℚ) :
    (exactOfInts X s).mean = MSpec.mean (ratsOf X s) := by
  rw [Exact.mean, MSpec.mean, ratsOf_sum]
  simp

/-- `x_i - mean = D_i * (s / n)` -/
theorem ratsOf_sub_mean (X : List Int) (s : ℚ) (x : Int) (hX : X ≠ []) :
    (x : ℚ) * s - MSpec.mean (ratsOf X s)
      = (((X.length : Int) * x - X.sum : Int) : ℚ) * (s / (X.length : ℚ)) := by
  have hn : (X.length : ℚ) ≠ 0 := Nat.cast_ne_zero.mpr (by simpa using hX)
  rw [MSpec.mean, ratsOf_sum, ratsOf_length]
  push_cast
  field_simp

theorem sum_int_pow_mul (Y : List Int) (c : ℚ) (p : Nat) :
    (((Y.map fun d => d ^ p).sum : Int) : ℚ) * c ^ p = (Y.map fun d : Int => ((d : ℚ) * c) ^ p).sum := by
  induction Y with
  | nil => simp
  | cons y Y ih =>
    simp only [List.map_cons, List.sum_cons, Int.cast_add, Int.cast_pow, add_mul, ih, mul_pow]

/-- `Σ (x - mean)^p` -/
theorem exactOfInts_sumPow (X : List Int) (s : ℚ) (p : Nat) :
    (exactOfInts X s).sumPow p = MSpec.sumPow (ratsOf X s) (MSpec.mean (ratsOf X s)) p := by
  rw [Exact.sumPow, ← Array.foldl_toList, exactOfInts_D, foldl_add_map, zero_add, ratPow_eq]
  simp only [intPow_eq, exactOfInts_s, exactOfInts_n]
  rw [sum_int_pow_mul, MSpec.sumPow, ratsOf, List.map_map, List.map_map]
  congr 1
  apply List.map_congr_left
  intro x hx
  have hX : X ≠ [] := List.ne_nil_of_mem hx
  simp only [Function.comp]
  rw [← ratsOf, ratsOf_sub_mean X s x hX]

theorem sum_int_abs_pow_mul (Y : List Int) (c : ℚ) (hc : 0 ≤ c) (p : Nat) :
    (((Y.map fun d => (Int.ofNat d.natAbs) ^ p).sum : Int) : ℚ) * c ^ p
      = (Y.map fun d : Int => |(d : ℚ) * c| ^ p).sum := by
  induction Y with
  | nil => simp
  | cons y Y ih =>
    simp only [List.map_cons, List.sum_cons, Int.cast_add, Int.cast_pow, add_mul, mul_pow,
      abs_mul, abs_of_nonneg hc, Int.ofNat_eq_natCast, Int.natCast_natAbs, Int.cast_abs] at ih ⊢
    rw [ih]

/-- `Σ |x - mean|^p` (the scale must be non-negative; `2^emin` is) -/
theorem exactOfInts_sumAbsPow (X : List Int) (s : ℚ) (hs : 0 ≤ s) (p : Nat) :
    (exactOfInts X s).sumAbsPow p
      = ((ratsOf X s).map fun x => |x - MSpec.mean (ratsOf X s)| ^ p).sum := by
  rw [Exact.sumAbsPow, ← Array.foldl_toList, exactOfInts_D, foldl_add_map, zero_add, ratPow_eq]
  simp only [intPow_eq, exactOfInts_s, exactOfInts_n]
  rw [sum_int_abs_pow_mul _ _ (div_nonneg hs (Nat.cast_nonneg _)), ratsOf, List.map_map, List.map_map]
  congr 1
  apply List.map_congr_left
  intro x hx
  have hX : X ≠ [] := List.ne_nil_of_mem hx
  simp only [Function.comp]
  rw [← ratsOf, ratsOf_sub_mean X s x hX]

/-- central moment `m_p = Σ (x - mean)^p / n` -/
theorem exactOfInts_m (X : List Int) (s : ℚ) (p : Nat) :
    (exactOfInts X s).m p
      = MSpec.sumPow (ratsOf X s) (MSpec.mean (ratsOf X s)) p / ((ratsOf X s).length : ℚ) := by
  rw [Exact.m, exactOfInts_sumPow, exactOfInts_n, ratsOf_length]

theorem exactOfInts_nu (X : List Int) (s : ℚ) (hs : 0 ≤ s) (p : Nat) :
    (exactOfInts X s).nu p
      = ((ratsOf X s).map fun x => |x - MSpec.mean (ratsOf X s)| ^ p).sum / ((ratsOf X s).length : ℚ) := by
  rw [Exact.nu, exactOfInts_sumAbsPow X s hs, exactOfInts_n, ratsOf_length]

/-! ## the cross sum -/

theorem sum_int_mul_mul (L : List (Int × Int)) (c c' : ℚ) :
    (((L.map fun x => x.1 * x.2).sum : Int) : ℚ) * c * c'
      = (L.map fun x : Int × Int => ((x.1 : ℚ) * c) * ((x.2 : ℚ) * c')).sum := by
  induction L with
  | nil => simp
  | cons y L ih =>
    simp only [List.map_cons, List.sum_cons, Int.cast_add, Int.cast_mul, add_mul, ← ih]
    ring

/-- `crossSum` is `Σ (x_i - mean x)(y_i - mean y)` over the paired data (`zip` stops at the shorter
list on both sides; the driver only pairs lists of equal length, for which
`fsts (zip xs ys) = xs` and `snds (zip xs ys) = ys`) -/
theorem exactOfInts_crossSum (X Y : List Int) (s t : ℚ) :
    crossSum (exactOfInts X s) (exactOfInts Y t)
      = MSpec.coSum ((ratsOf X s).zip (ratsOf Y t)) (MSpec.mean (ratsOf X s)) (MSpec.mean (ratsOf Y t)) := by
  unfold crossSum
  simp only [exactOfInts_D, exactOfInts_s, exactOfInts_n]
  rw [foldl_add_pairs, zero_add, sum_int_mul_mul, MSpec.coSum, ratsOf, ratsOf, List.zip_map,
    List.zip_map, List.map_map, List.map_map]
  congr 1
  apply List.map_congr_left
  rintro ⟨x, y⟩ hxy
  have hX : X ≠ [] := List.ne_nil_of_mem (List.of_mem_zip hxy).1
  have hY : Y ≠ [] := List.ne_nil_of_mem (List.of_mem_zip hxy).2
  simp only [Function.comp, Prod.map]
  rw [← ratsOf, ← ratsOf, ratsOf_sub_mean X s x hX, ratsOf_sub_mean Y t y hY]

/-! ## the largest magnitude -/

theorem foldl_max_natAbs (l : List Int) (a : Nat) :
    a ≤ l.foldl (fun acc x => max acc x.natAbs) a
    ∧ (∀ x ∈ l, x.natAbs ≤ l.foldl (fun acc x => max acc x.natAbs) a)
    ∧ (l.foldl (fun acc x => max acc x.natAbs) a = a
        ∨ ∃ x ∈ l, x.natAbs = l.foldl (fun acc x => max acc x.natAbs) a) := by
  induction l generalizing a with
  | nil => simp
  | cons y l ih =>
    obtain ⟨h1, h2, h3⟩ := ih (max a y.natAbs)
    simp only [List.foldl_cons, List.mem_cons, forall_eq_or_imp, exists_eq_or_imp]
    refine ⟨le_trans (le_max_left _ _) h1, ⟨le_trans (le_max_right _ _) h1, h2⟩, ?_⟩
    rcases h3 with h3 | ⟨x, hx, hxe⟩
    · rcases le_total a y.natAbs with h | h
      · right; left; rw [h3, max_eq_right h]
      · left; rw [h3, max_eq_left h]
    · right; right; exact ⟨x, hx, hxe⟩

/-- (`mkExact` runs this fold in `Rat`: the accumulator's type is fixed by the later `(mx : Rat)`) -/
theorem foldl_max_cast (l : List Int) (a : Nat) :
    l.foldl (fun (acc : ℚ) x => max acc ((x.natAbs : Nat) : ℚ)) (a : ℚ)
      = ((l.foldl (fun acc x => max acc x.natAbs) a : Nat) : ℚ) := by
  induction l generalizing a with
  | nil => rfl
  | cons y l ih => simp only [List.foldl_cons, ← Nat.cast_max, ih]

/-- `maxAbs` is the largest `|x_i|`: an upper bound, attained when there is data -/
theorem exactOfInts_maxAbs (X : List Int) (s : ℚ) (hs : 0 ≤ s) :
    (∀ q ∈ ratsOf X s, |q| ≤ (exactOfInts X s).maxAbs)
    ∧ (X ≠ [] → ∃ q ∈ ratsOf X s, |q| = (exactOfInts X s).maxAbs) := by
  obtain ⟨_, h2, h3⟩ := foldl_max_natAbs X 0
  have hmx : (exactOfInts X s).maxAbs
      = ((X.foldl (fun acc x => max acc x.natAbs) 0 : Nat) : ℚ) * s := by
    simp only [exactOfInts, List.foldl_toArray', List.size_toArray]
    rw [← foldl_max_cast]; simp
  have habs : ∀ x : Int, |(x : ℚ) * s| = ((x.natAbs : Nat) : ℚ) * s := by
    intro x; rw [abs_mul, abs_of_nonneg hs, Nat.cast_natAbs, Int.cast_abs]
  rw [hmx]
  constructor
  · intro q hq
    simp only [ratsOf, List.mem_map] at hq
    obtain ⟨x, hx, rfl⟩ := hq
    rw [habs]
    have : ((x.natAbs : Nat) : ℚ) ≤ ((X.foldl (fun acc x => max acc x.natAbs) 0 : Nat) : ℚ) :=
      Nat.cast_le.mpr (h2 x hx)
    gcongr
  · intro hX
    rcases h3 with h0 | ⟨x, hx, hxe⟩
    · obtain ⟨x, hx⟩ := List.exists_mem_of_ne_nil X hX
      refine ⟨(x : ℚ) * s, List.mem_map.mpr ⟨x, hx, rfl⟩, ?_⟩
      have := h2 x hx
      rw [h0] at this ⊢
      rw [habs, Nat.le_zero.mp this]
    · exact ⟨(x : ℚ) * s, List.mem_map.mpr ⟨x, hx, rfl⟩, by rw [habs, hxe]⟩

/-! ## from the decoded pairs `(m_i, e_i)` to the rationals `m_i 2^(e_i)` -/

/-- the value `m * 2^e` of a decoded pair -/
def valOf (d : Int × Int) : ℚ := (d.1 : ℚ) * pow2Rat d.2

theorem toRat?_eq (x : Float) : toRat? x = (decodeF x).map valOf := by
  unfold toRat?
  cases decodeF x with
  | none => rfl
  | some d => obtain ⟨m, e⟩ := d; rfl

theorem mapM_toRat? (xs : List Float) :
    xs.mapM toRat? = (xs.mapM decodeF).map (List.map valOf) := by
  induction xs with
  | nil => simp
  | cons x xs ih =>
    simp only [List.mapM_cons, ih, toRat?_eq]
    cases decodeF x with
    | none => simp
    | some d =>
      cases xs.mapM decodeF with
      | none => simp
      | some ds => simp

theorem mapM_option_length {α β : Type} (f : α → Option β) (xs : List α) (ys : List β)
    (h : xs.mapM f = some ys) : ys.length = xs.length := by
  induction xs generalizing ys with
  | nil => simp at h; subst h; rfl
  | cons x xs ih =>
    simp only [List.mapM_cons] at h
    cases hx : f x with
    | none => simp [hx] at h
    | some b =>
      cases hxs : xs.mapM f with
      | none => simp [hx, hxs] at h
      | some bs =>
        simp [hx, hxs] at h
        subst h
        simp [ih bs hxs]

theorem foldl_min_le (l : List (Int × Int)) (a : Int) :
    l.foldl (fun acc (x : Int × Int) => match x with | (_, e) => min acc e) a ≤ a
    ∧ ∀ x ∈ l, l.foldl (fun acc (x : Int × Int) => match x with | (_, e) => min acc e) a ≤ x.2 := by
  induction l generalizing a with
  | nil => simp
  | cons y l ih =>
    obtain ⟨m, e⟩ := y
    obtain ⟨h1, h2⟩ := ih (min a e)
    simp only [List.foldl_cons, List.mem_cons, forall_eq_or_imp]
    exact ⟨le_trans h1 (min_le_left _ _), le_trans h1 (min_le_right _ _), h2⟩

/-- `emin` is a lower bound of the exponents -/
theorem eminOf_le (ds : List (Int × Int)) : ∀ x ∈ ds, eminOf ds ≤ x.2 := by
  cases ds with
  | nil => simp
  | cons d t =>
    intro x hx
    have : eminOf (d :: t)
        = (d :: t).foldl (fun acc (x : Int × Int) => match x with | (_, e) => min acc e) d.2 := rfl
    rw [this]
    exact (foldl_min_le (d :: t) d.2).2 x hx

theorem scaled_val (m e emin : Int) (h : emin ≤ e) :
    (((m * ((2 ^ (e - emin).toNat : Nat) : Int) : Int)) : ℚ) * pow2Rat emin = (m : ℚ) * pow2Rat e := by
  rw [pow2Rat_eq, pow2Rat_eq]
  have he : e = ((e - emin).toNat : Int) + emin := by
    rw [Int.toNat_of_nonneg (by omega)]; ring
  conv_rhs => rw [he]
  rw [zpow_add₀ (by norm_num : (2 : ℚ) ≠ 0), zpow_natCast]
  push_cast
  ring

/-- the data set behind `exactOfPairs ds` is the list of values `m_i 2^(e_i)` -/
theorem ratsOf_scaledInts (ds : List (Int × Int)) :
    ratsOf (scaledInts ds) (pow2Rat (eminOf ds)) = ds.map valOf := by
  rw [ratsOf, scaledInts, List.map_map]
  apply List.map_congr_left
  rintro ⟨m, e⟩ hx
  exact scaled_val m e (eminOf ds) (eminOf_le ds _ hx)

/-- `mkExact` succeeds exactly when every float decodes (is finite), and then it is the pure
function of the decoded pairs; the rationals `toRat?` assigns to the floats are the values of the
pairs -/
theorem mkExact_some (xs : List Float) (E : Exact) (h : mkExact xs = some E) :
    ∃ ds, xs.mapM decodeF = some ds ∧ E = exactOfPairs ds
      ∧ xs.mapM toRat? = some (ds.map valOf) ∧ ds.length = xs.length := by
  rw [mkExact_eq] at h
  cases hds : xs.mapM decodeF with
  | none => simp [hds] at h
  | some ds =>
    simp [hds] at h
    exact ⟨ds, rfl, h.symm, by rw [mapM_toRat?, hds]; rfl, mapM_option_length _ _ _ hds⟩

end Avg.Drv
