import AvgProofs.WeightedMeanStep
import AvgProofs.WeightedCanon
import AvgProofs.EffLen
import AvgProofs.MergeEmpty

/-!
# Forward error of `WeightedMean` (R2 carrier), every merge tree

Carrier `RF2 r` (every `+ - * /` rounded with `|fl t - t| ≤ u|t|`, `NatCast` exact) with a `FloatOps`
whose `eqb` compares the values (`ValEqb`; `rf2FloatOps r` is such an instance). Observations are pairs
`(x, w)` with `w ≥ 0` and `|x| ≤ M` *for the observations with positive weight* (`WObs M`); the sample
of a zero-weight observation is arbitrary.

`WeightedMean.add` keeps a *rounded* running sum of the weights `Ŵ_k`, so the computed ratio `w/Ŵ_k`
differs from the exact `w/W_k`. The invariant `WInv` carried through every history is

* `0 ≤ Ŵ` and `|Ŵ - Σw| ≤ (64/63)·n·u·Ŵ` (relative to the computed value);
* `Σw = 0 → weighted_avg = 0` (the average is untouched while the total weight is zero);
* `|weighted_avg - Σwx/Σw| ≤ 8·u·M·n`,

for `n` observations with `n·u ≤ 1/64`. `WInv.add`, `WInv.merge` preserve it; `wmean_fold_inv`,
`wmean_mtree_inv` are the add-only stream and every merge tree; `wmean_mtree_error` is the headline.
-/
open Avg MSpec
set_option linter.unusedSectionVars false
variable {K : Type} [Field K] [LinearOrder K] [IsStrictOrderedRing K]

/-! ## carrier -/

/-- a `FloatOps` on the R2 carrier whose comparisons are the exact comparisons of the values
(`sqrt`, `pow15`, `ceilInt`, `nan`, `±∞` are fillers: `WeightedMean` does not use them) -/
@[reducible] def rf2FloatOps (r : Rnd2 K) : FloatOps (RF2 r) where
  nan := ⟨0⟩
  posInf := ⟨0⟩
  negInf := ⟨0⟩
  sqrt := id
  pow15 := id
  lt := fun a b => decide (a.val < b.val)
  eqb := fun a b => decide (a.val = b.val)
  isNaN := fun _ => false
  fmin := fun a b => if a.val ≤ b.val then a else b
  fmax := fun a b => if a.val ≤ b.val then b else a
  ceilInt := fun _ => 0
  ordLt := fun a b => decide (a.val < b.val)

/-- `FloatOps.eqb` on the R2 carrier is equality of the values (IEEE `==` away from NaN) -/
def ValEqb (r : Rnd2 K) [FloatOps (RF2 r)] : Prop :=
  ∀ a b : RF2 r, FloatOps.eqb a b = true ↔ a.val = b.val

theorem rf2FloatOps_valEqb (r : Rnd2 K) : @ValEqb K _ _ _ r (rf2FloatOps r) := fun a b => by
  show decide (a.val = b.val) = true ↔ a.val = b.val
  exact decide_eq_true_iff

theorem RF2.natCast_val {r : Rnd2 K} (n : Nat) : ((n : RF2 r)).val = (n : K) := rfl

/-! ## the exact reference -/

/-- exact weighted mean `Σwx/Σw` of pairs `(x, w)`; `0` while `Σw = 0` (as `WeightedMean.new`) -/
def wmeanK (qs : List (K × K)) : K := if W qs = 0 then 0 else WX qs / W qs

theorem wmeanK_eq_canonW (qs : List (K × K)) : wmeanK qs = (canonW qs).weighted_avg := rfl

theorem wmeanK_of_pos {qs : List (K × K)} (h : W qs ≠ 0) : wmeanK qs = WX qs / W qs := by
  unfold wmeanK; rw [if_neg h]

/-- observation `(x, w)`: the weight is non-negative and, if it is positive, `|x| ≤ M` -/
def WObs (M : K) (p : K × K) : Prop := 0 ≤ p.2 ∧ (0 < p.2 → |p.1| ≤ M)

theorem WObs.nonnegW {M : K} {qs : List (K × K)} (h : ∀ p ∈ qs, WObs M p) : NonnegW qs :=
  fun p hp => (h p hp).1

theorem wmeanK_abs_le {M : K} (hM : 0 ≤ M) (qs : List (K × K)) (h : ∀ p ∈ qs, WObs M p) :
    |wmeanK qs| ≤ M := by
  unfold wmeanK
  by_cases h0 : W qs = 0
  · rw [if_pos h0, abs_zero]; exact hM
  · rw [if_neg h0]
    have hpos : 0 < W qs := lt_of_le_of_ne (W_nonneg (WObs.nonnegW h)) (Ne.symm h0)
    have := weighted_mean_mem_range (lo := -M) (hi := M) qs
      (fun p hp => ⟨(h p hp).1, fun hw => abs_le.mp ((h p hp).2 hw)⟩) hpos
    exact abs_le.mpr this

theorem wmeanK_snoc (qs : List (K × K)) (x w : K) (hq : NonnegW qs) (h : W qs + w ≠ 0) :
    wmeanK (qs ++ [(x, w)]) = wmeanK qs + w / (W qs + w) * (x - wmeanK qs) := by
  have hW' : W (qs ++ [(x, w)]) = W qs + w := by simp [W_append]
  have hWX' : WX (qs ++ [(x, w)]) = WX qs + w * x := by simp [WX_append]
  unfold wmeanK
  rw [hW', hWX', if_neg h]
  by_cases hW0 : W qs = 0
  · have hWX0 := (W_eq_zero hq hW0).1
    have hw0 : w ≠ 0 := by rw [hW0, zero_add] at h; exact h
    rw [if_pos hW0, hW0, hWX0]; field_simp; ring
  · rw [if_neg hW0]; field_simp; ring

theorem wmeanK_snoc_zero (qs : List (K × K)) (x : K) : wmeanK (qs ++ [(x, 0)]) = wmeanK qs := by
  have hW' : W (qs ++ [(x, (0:K))]) = W qs := by simp [W_append]
  have hWX' : WX (qs ++ [(x, (0:K))]) = WX qs := by simp [WX_append]
  unfold wmeanK; rw [hW', hWX']

theorem wmeanK_append_right_zero (ps qs : List (K × K)) (hq : NonnegW qs) (h0 : W qs = 0) :
    W (ps ++ qs) = W ps ∧ wmeanK (ps ++ qs) = wmeanK ps := by
  have h1 : W (ps ++ qs) = W ps := by rw [W_append, h0, add_zero]
  refine ⟨h1, ?_⟩
  unfold wmeanK; rw [h1, WX_append, (W_eq_zero hq h0).1, add_zero]

theorem wmeanK_append_left_zero (ps qs : List (K × K)) (hp : NonnegW ps) (h0 : W ps = 0) :
    W (ps ++ qs) = W qs ∧ wmeanK (ps ++ qs) = wmeanK qs := by
  have h1 : W (ps ++ qs) = W qs := by rw [W_append, h0, zero_add]
  refine ⟨h1, ?_⟩
  unfold wmeanK; rw [h1, WX_append, (W_eq_zero hp h0).1, zero_add]

theorem wmeanK_append (ps qs : List (K × K)) (hp : W ps ≠ 0) (hq : W qs ≠ 0) (hpq : W ps + W qs ≠ 0) :
    wmeanK (ps ++ qs) = (W ps * wmeanK ps + W qs * wmeanK qs) / (W ps + W qs) := by
  unfold wmeanK
  rw [W_append, WX_append, if_neg hpq, if_neg hp, if_neg hq]
  field_simp

/-! ## the invariant -/

/-- what every reachable `WeightedMean` state satisfies with respect to the exact pairs `qs` it has
seen (see the head of the file) -/
structure WInv (r : Rnd2 K) (M : K) (s : WeightedMean (RF2 r)) (qs : List (K × K)) : Prop where
  wnn : 0 ≤ s.weight_sum.val
  wsum : |s.weight_sum.val - W qs| ≤ 64/63 * (qs.length : K) * r.u * s.weight_sum.val
  zero : W qs = 0 → s.weighted_avg.val = 0
  avg : |s.weighted_avg.val - wmeanK qs| ≤ 8 * r.u * M * (qs.length : K)

variable {r : Rnd2 K}

theorem WInv.new [FloatOps (RF2 r)] (M : K) : WInv r M WeightedMean.new [] := by
  have h0 : ((0:Nat) : K) = 0 := Nat.cast_zero
  refine ⟨?_, ?_, fun _ => ?_, ?_⟩
  · show (0:K) ≤ ((0:Nat) : K); rw [h0]
  · show |((0:Nat) : K) - W ([] : List (K × K))| ≤ _; rw [h0]; simp
  · show ((0:Nat) : K) = 0; exact h0
  · show |((0:Nat) : K) - wmeanK ([] : List (K × K))| ≤ _; rw [h0]; simp [wmeanK]

/-- a state that satisfies the invariant for `ps` satisfies it for any longer `qs` with the same exact
`Σw` and the same exact weighted mean (chunks of total weight zero merged in) -/
theorem WInv.of_same {M : K} (hM : 0 ≤ M) {s : WeightedMean (RF2 r)} {ps : List (K × K)}
    (h : WInv r M s ps) (qs : List (K × K)) (hW : W qs = W ps) (hm : wmeanK qs = wmeanK ps)
    (hlen : ps.length ≤ qs.length) : WInv r M s qs := by
  have hl : (ps.length : K) ≤ (qs.length : K) := by exact_mod_cast hlen
  have hu0 := r.u_nonneg
  refine ⟨h.wnn, ?_, fun h0 => h.zero (hW ▸ h0), ?_⟩
  · rw [hW]; refine le_trans h.wsum ?_
    have := h.wnn
    gcongr
  · rw [hm]; refine le_trans h.avg ?_
    gcongr

/-! ## one `add` -/

/-- **`add` preserves the invariant.** -/
theorem WInv.add [FloatOps (RF2 r)] (heq : ValEqb r) {M : K} (hM : 0 ≤ M)
    (s : WeightedMean (RF2 r)) (qs : List (K × K)) (x w : RF2 r)
    (hinv : WInv r M s qs) (hqs : ∀ p ∈ qs, WObs M p) (hw : WObs M (x.val, w.val))
    (hsmall : ((qs.length + 1 : Nat) : K) * r.u ≤ 1/64) :
    WInv r M (s.add x w) (qs ++ [(x.val, w.val)]) := by
  have hu0 := r.u_nonneg
  have hklen : ((qs ++ [(x.val, w.val)]).length : K) = ((qs.length + 1 : Nat) : K) := by simp
  have hkj : (qs.length : K) + 1 = ((qs.length + 1 : Nat) : K) := by push_cast; ring
  generalize ((qs.length + 1 : Nat) : K) = k at *
  have hj0 : (0:K) ≤ (qs.length : K) := Nat.cast_nonneg _
  have hk1 : 1 ≤ k := by linarith
  have hu1 : r.u ≤ 1/64 := by
    have := mul_le_mul_of_nonneg_right hk1 hu0; linarith
  have hnn : NonnegW qs := WObs.nonnegW hqs
  have hW0 : 0 ≤ W qs := W_nonneg hnn
  have hw0 : 0 ≤ w.val := hw.1
  -- the weight sum
  have hh00 : 0 ≤ 64/63 * (qs.length : K) * r.u := by positivity
  obtain ⟨hC0, hCW⟩ := wsum_merge_step r.fl r.u hu0 (by linarith) r.err (64/63 * (qs.length : K) * r.u)
    s.weight_sum.val w.val (W qs) w.val hh00 hinv.wnn hw0 hinv.wsum
    (by rw [sub_self, abs_zero]; exact mul_nonneg hh00 hw0)
  have hstep := wsum_h_step r.u (qs.length : K) k hu0 hj0 (le_of_eq hkj) hsmall
  have hCW' : |r.fl (s.weight_sum.val + w.val) - (W qs + w.val)|
      ≤ 64/63 * k * r.u * r.fl (s.weight_sum.val + w.val) :=
    le_trans hCW (mul_le_mul_of_nonneg_right hstep hC0)
  have hCval : (s.weight_sum + w).val = r.fl (s.weight_sum.val + w.val) := rfl
  generalize r.fl (s.weight_sum.val + w.val) = C at *
  have hW' : W (qs ++ [(x.val, w.val)]) = W qs + w.val := by simp [W_append]
  have hh1 : 64/63 * k * r.u < 1 := by linarith
  have hz : C = 0 ↔ W qs + w.val = 0 := wsum_zero_iff (64/63 * k * r.u) C _ hh1 hC0 hCW'
  have h0K : ((0:Nat) : K) = 0 := Nat.cast_zero
  by_cases hCz : C = 0
  · -- the total weight is still zero: the average is untouched
    have hWz := hz.mp hCz
    have hWq : W qs = 0 := by linarith
    have heqb : FloatOps.eqb (s.weight_sum + w) ((0:Nat) : RF2 r) = true :=
      (heq _ _).mpr (by rw [hCval, hCz]; exact h0K.symm)
    have hadd : s.add x w = ⟨s.weight_sum + w, s.weighted_avg⟩ := by
      unfold WeightedMean.add; simp only [heqb, if_true]
    rw [hadd]
    refine ⟨?_, ?_, fun _ => hinv.zero hWq, ?_⟩
    · show 0 ≤ (s.weight_sum + w).val; rw [hCval]; exact hC0
    · show |(s.weight_sum + w).val - _| ≤ _ * (s.weight_sum + w).val
      rw [hCval, hW', hklen]; exact hCW'
    · show |s.weighted_avg.val - _| ≤ _
      have : wmeanK (qs ++ [(x.val, w.val)]) = 0 := by
        unfold wmeanK; rw [if_pos (by rw [hW']; exact hWz)]
      rw [this, hinv.zero hWq, sub_zero, abs_zero]; positivity
  · -- the total weight is positive
    have hCpos : 0 < C := lt_of_le_of_ne hC0 (Ne.symm hCz)
    have hWne : W qs + w.val ≠ 0 := fun h => hCz (hz.mpr h)
    have hWpos : 0 < W qs + w.val := lt_of_le_of_ne (by linarith) (Ne.symm hWne)
    have heqb : FloatOps.eqb (s.weight_sum + w) ((0:Nat) : RF2 r) = false := by
      cases hh : FloatOps.eqb (s.weight_sum + w) ((0:Nat) : RF2 r)
      · rfl
      · exact absurd ((heq _ _).mp hh) (by rw [hCval]; exact fun h => hCz (h.trans h0K))
    have hadd : s.add x w
        = ⟨s.weight_sum + w, s.weighted_avg + w / (s.weight_sum + w) * (x - s.weighted_avg)⟩ := by
      unfold WeightedMean.add; simp only [heqb, Bool.false_eq_true, if_false]
    have hval : (s.add x w).weighted_avg.val
        = r.fl (s.weighted_avg.val
            + r.fl (r.fl (w.val / (s.weight_sum + w).val) * r.fl (x.val - s.weighted_avg.val))) := by
      rw [hadd]; rfl
    rw [hCval] at hval
    refine ⟨?_, ?_, fun h0 => absurd (hW' ▸ h0) hWne, ?_⟩
    · rw [hadd]; show 0 ≤ (s.weight_sum + w).val; rw [hCval]; exact hC0
    · rw [hadd]; show |(s.weight_sum + w).val - _| ≤ _ * (s.weight_sum + w).val
      rw [hCval, hW', hklen]; exact hCW'
    rw [hval, hklen]
    have hmM : |wmeanK qs| ≤ M := wmeanK_abs_le hM qs hqs
    have hE : |s.weighted_avg.val - wmeanK qs| ≤ 8 * r.u * M * (k - 1) := by
      have : k - 1 = (qs.length : K) := by linarith
      rw [this]; exact hinv.avg
    have hhk0 : 0 ≤ 64/63 * k * r.u := by positivity
    have hη0 := wEta_nonneg (64/63 * k * r.u) r.u hhk0 hu0
    have hηk := wEta_le_k k r.u hk1 hu0 hsmall
    have b0 := wstep_budget0 k r.u M hu0 hM hsmall
    rcases eq_or_lt_of_le hw0 with hwz | hwpos
    · -- weight 0: the sample does not matter
      have hx0 : (x.val, w.val) = (x.val, (0:K)) := by rw [← hwz]
      rw [hx0, wmeanK_snoc_zero, ← hwz]
      refine le_trans (wmean_step_zero_weight r.fl r.u hu0 r.err C M _ _ x.val hmM) ?_
      calc (1 + r.u) * |s.weighted_avg.val - wmeanK qs| + r.u * M
          ≤ (1 + r.u) * (8 * r.u * M * (k - 1)) + r.u * M := by gcongr
        _ ≤ _ := b0
    · have hxM : |x.val| ≤ M := hw.2 hwpos
      rw [wmeanK_snoc qs x.val w.val hnn hWne]
      by_cases hWq : W qs = 0
      · -- the first contributing observation
        have hprev : s.weighted_avg.val = 0 := hinv.zero hWq
        have hm0 : wmeanK qs = 0 := by unfold wmeanK; rw [if_pos hWq]
        refine le_trans (wmean_step_error r.fl r.u hu0 r.err (64/63 * k * r.u) C (W qs + w.val) w.val
          hhk0 hCpos hWpos hCW' hw0 (by linarith) M M _ _ x.val hmM hxM
          (by rw [hm0, sub_zero]; exact hxM)) ?_
        have hr : w.val / (W qs + w.val) = 1 := by rw [hWq, zero_add, div_self hwpos.ne']
        rw [hr, hprev, hm0, sub_zero, abs_zero]
        have := wstep_budget1 k r.u M _ hk1 hu0 hM hsmall hη0 hηk
        calc _ = (1 + r.u) * (wEta (64/63 * k * r.u) r.u * (M + 0)) + r.u * M := by ring
          _ ≤ _ := this
      · -- the general step (at least the second observation)
        have hqne : qs ≠ [] := by rintro rfl; exact hWq (by simp)
        have hk2 : 2 ≤ k := by
          have : (1:K) ≤ (qs.length : K) := by exact_mod_cast List.length_pos_of_ne_nil hqne
          linarith
        have hD : |x.val - wmeanK qs| ≤ 2 * M := by
          calc _ ≤ |x.val| + |wmeanK qs| := abs_sub _ _
            _ ≤ _ := by linarith
        refine le_trans (wmean_step_error r.fl r.u hu0 r.err (64/63 * k * r.u) C (W qs + w.val) w.val
          hhk0 hCpos hWpos hCW' hw0 (by linarith) M (2 * M) _ _ x.val hmM hxM hD) ?_
        have hr0 : 0 ≤ w.val / (W qs + w.val) := div_nonneg hw0 hWpos.le
        have hr1 : w.val / (W qs + w.val) ≤ 1 := by rw [div_le_one hWpos]; linarith
        exact wstep_combine r.u M _ _ (8 * r.u * M * (k - 1)) _ (2 * M) _ hu0 hr0 hr1 (abs_nonneg _) hE
          hη0 (by positivity) b0 (wstep_budget2 k r.u M _ hk2 hu0 hM hsmall hη0 hηk)

/-! ## one `merge` -/

omit [IsStrictOrderedRing K] in
/-- bookkeeping: rounding error `R`, exact-merge error `X + Y` with `X ≤ Z`, and `Z + Y + R ≤ B` -/
theorem abs_sub_le_of_parts [IsOrderedRing K] (q T μ X Y Z R B : K) (h1 : |q - T| ≤ R) (h2 : |T - μ| ≤ X + Y)
    (h3 : X ≤ Z) (h4 : Z + Y + R ≤ B) : |q - μ| ≤ B := by
  have : q - μ = (q - T) + (T - μ) := by ring
  rw [this]
  calc _ ≤ |q - T| + |T - μ| := abs_add_le _ _
    _ ≤ _ := by linarith

theorem WeightedMean.merge_val [FloatOps (RF2 r)] (a b : WeightedMean (RF2 r))
    (ha : a.isEmpty = false) (hb : b.isEmpty = false) :
    (a.merge b).weight_sum.val = r.fl (a.weight_sum.val + b.weight_sum.val) ∧
    (a.merge b).weighted_avg.val
      = r.fl (r.fl (r.fl (a.weight_sum.val * a.weighted_avg.val)
            + r.fl (b.weight_sum.val * b.weighted_avg.val))
          / r.fl (a.weight_sum.val + b.weight_sum.val)) := by
  unfold WeightedMean.merge
  rw [if_neg (by rw [hb]; exact Bool.false_ne_true), if_neg (by rw [ha]; exact Bool.false_ne_true)]
  exact ⟨rfl, rfl⟩

/-- `merge` of two states with non-zero weight sums preserves the invariant -/
theorem WInv.merge_nonempty [FloatOps (RF2 r)] {M : K} (hM : 0 ≤ M)
    (a b : WeightedMean (RF2 r)) (ps qs : List (K × K))
    (ha : WInv r M a ps) (hb : WInv r M b qs) (hps : ∀ p ∈ ps, WObs M p) (hqs : ∀ p ∈ qs, WObs M p)
    (hsmall : ((ps ++ qs).length : K) * r.u ≤ 1/64)
    (hane : a.isEmpty = false) (hbne : b.isEmpty = false)
    (haz : a.weight_sum.val ≠ 0) (hbz : b.weight_sum.val ≠ 0) :
    WInv r M (a.merge b) (ps ++ qs) := by
  have hu0 := r.u_nonneg
  rw [List.length_append, Nat.cast_add] at hsmall
  have hna0 : (0:K) ≤ (ps.length : K) := Nat.cast_nonneg _
  have hnb0 : (0:K) ≤ (qs.length : K) := Nat.cast_nonneg _
  have hnnp : NonnegW ps := WObs.nonnegW hps
  have hnnq : NonnegW qs := WObs.nonnegW hqs
  have hsa : (ps.length : K) * r.u ≤ 1/64 := by
    have := mul_nonneg hnb0 hu0; linarith
  have hsb : (qs.length : K) * r.u ≤ 1/64 := by
    have := mul_nonneg hna0 hu0; linarith
  have hha0 : 0 ≤ 64/63 * (ps.length : K) * r.u := by positivity
  have hhb0 : 0 ≤ 64/63 * (qs.length : K) * r.u := by positivity
  have hha1 : 64/63 * (ps.length : K) * r.u ≤ 1/63 := by linarith
  have hhb1 : 64/63 * (qs.length : K) * r.u ≤ 1/63 := by linarith
  have hza : a.weight_sum.val = 0 ↔ W ps = 0 :=
    wsum_zero_iff _ _ _ (by linarith) ha.wnn ha.wsum
  have hzb : b.weight_sum.val = 0 ↔ W qs = 0 :=
    wsum_zero_iff _ _ _ (by linarith) hb.wnn hb.wsum
  -- both chunks have positive total weight
  obtain ⟨hws, havg⟩ := WeightedMean.merge_val a b hane hbne
  have hCa : 0 < a.weight_sum.val := lt_of_le_of_ne ha.wnn (Ne.symm haz)
  have hCb : 0 < b.weight_sum.val := lt_of_le_of_ne hb.wnn (Ne.symm hbz)
  have hWa0 : W ps ≠ 0 := fun h => haz (hza.mpr h)
  have hWb0 : W qs ≠ 0 := fun h => hbz (hzb.mpr h)
  have hWa : 0 < W ps := lt_of_le_of_ne (W_nonneg hnnp) (Ne.symm hWa0)
  have hWb : 0 < W qs := lt_of_le_of_ne (W_nonneg hnnq) (Ne.symm hWb0)
  have hpne : ps ≠ [] := by rintro rfl; exact hWa0 (by simp)
  have hqne : qs ≠ [] := by rintro rfl; exact hWb0 (by simp)
  have hna1 : (1:K) ≤ (ps.length : K) := by exact_mod_cast List.length_pos_of_ne_nil hpne
  have hnb1 : (1:K) ≤ (qs.length : K) := by exact_mod_cast List.length_pos_of_ne_nil hqne
  have hlen : ((ps ++ qs).length : K) = (ps.length : K) + (qs.length : K) := by
    rw [List.length_append, Nat.cast_add]
  have haw := ha.wsum
  have hbw := hb.wsum
  have haa := ha.avg
  have hba := hb.avg
  generalize (ps.length : K) = na at *
  generalize (qs.length : K) = nb at *
  have hu1 : r.u ≤ 1/64 := by
    have := mul_le_mul_of_nonneg_right hna1 hu0
    have := mul_nonneg hnb0 hu0
    linarith
  -- the weight sum
  have hj0 : 0 ≤ na + nb - 1 := by linarith
  have hhj : 0 ≤ 64/63 * (na + nb - 1) * r.u := by positivity
  have hA' : |a.weight_sum.val - W ps| ≤ 64/63 * (na + nb - 1) * r.u * a.weight_sum.val := by
    refine le_trans haw ?_
    have : na ≤ na + nb - 1 := by linarith
    gcongr
  have hB' : |b.weight_sum.val - W qs| ≤ 64/63 * (na + nb - 1) * r.u * b.weight_sum.val := by
    refine le_trans hbw ?_
    have : nb ≤ na + nb - 1 := by linarith
    gcongr
  obtain ⟨hC0, hCW⟩ := wsum_merge_step r.fl r.u hu0 (by linarith) r.err (64/63 * (na + nb - 1) * r.u)
    a.weight_sum.val b.weight_sum.val (W ps) (W qs) hhj hCa.le hCb.le hA' hB'
  have hstep := wsum_h_step r.u (na + nb - 1) (na + nb) hu0 hj0 (by linarith) hsmall
  have hWapp : W (ps ++ qs) = W ps + W qs := W_append ps qs
  refine ⟨?_, ?_, fun h0 => absurd (hWapp ▸ h0) (add_pos hWa hWb).ne', ?_⟩
  · rw [hws]; exact hC0
  · rw [hws, hWapp, hlen]
    exact le_trans hCW (mul_le_mul_of_nonneg_right hstep hC0)
  -- the average
  rw [havg, hlen, wmeanK_append ps qs hWa0 hWb0 (add_pos hWa hWb).ne']
  have hma : |wmeanK ps| ≤ M := wmeanK_abs_le hM ps hps
  have hmb : |wmeanK qs| ≤ M := wmeanK_abs_le hM qs hqs
  have huM : 0 ≤ r.u * M := mul_nonneg hu0 hM
  have haA : |a.weighted_avg.val| ≤ M + 8 * r.u * M * (na + nb) := by
    have : a.weighted_avg.val = wmeanK ps + (a.weighted_avg.val - wmeanK ps) := by ring
    rw [this]
    calc _ ≤ |wmeanK ps| + |a.weighted_avg.val - wmeanK ps| := abs_add_le _ _
      _ ≤ M + 8 * r.u * M * na := by linarith
      _ ≤ _ := by
        have h8 : 0 ≤ 8 * r.u * M * nb := by positivity
        linarith
  have hbA : |b.weighted_avg.val| ≤ M + 8 * r.u * M * (na + nb) := by
    have : b.weighted_avg.val = wmeanK qs + (b.weighted_avg.val - wmeanK qs) := by ring
    rw [this]
    calc _ ≤ |wmeanK qs| + |b.weighted_avg.val - wmeanK qs| := abs_add_le _ _
      _ ≤ M + 8 * r.u * M * nb := by linarith
      _ ≤ _ := by
        have h8 : 0 ≤ 8 * r.u * M * na := by positivity
        linarith
  have hround := merge_round_error_5 r.fl r.u hu0 (by linarith) r.err (M + 8 * r.u * M * (na + nb))
    a.weighted_avg.val b.weighted_avg.val a.weight_sum.val b.weight_sum.val hCa hCb haA hbA
  have hexact := wmerge_exact_error a.weight_sum.val b.weight_sum.val (W ps) (W qs)
    (64/63 * na * r.u) (64/63 * nb * r.u) a.weighted_avg.val b.weighted_avg.val
    (wmeanK ps) (wmeanK qs) M hCa hCb hWa hWb hha0 hhb0 hha1 hhb1 haw hbw hma hmb
  have hbud := wmerge_budget r.u M a.weight_sum.val b.weight_sum.val na nb hu0 hM hCa hCb hna1 hnb1 hsmall
  have hS : 0 < a.weight_sum.val + b.weight_sum.val := add_pos hCa hCb
  have hmono : (a.weight_sum.val * |a.weighted_avg.val - wmeanK ps|
        + b.weight_sum.val * |b.weighted_avg.val - wmeanK qs|) / (a.weight_sum.val + b.weight_sum.val)
      ≤ (a.weight_sum.val * (8 * r.u * M * na) + b.weight_sum.val * (8 * r.u * M * nb))
          / (a.weight_sum.val + b.weight_sum.val) := by
    gcongr
  exact abs_sub_le_of_parts _ _ _ _ _ _ _ _ hround hexact hmono hbud

/-- **`merge` preserves the invariant** (early returns for chunks of total weight zero included). -/
theorem WInv.merge [FloatOps (RF2 r)] (heq : ValEqb r) {M : K} (hM : 0 ≤ M)
    (a b : WeightedMean (RF2 r)) (ps qs : List (K × K))
    (ha : WInv r M a ps) (hb : WInv r M b qs) (hps : ∀ p ∈ ps, WObs M p) (hqs : ∀ p ∈ qs, WObs M p)
    (hsmall : ((ps ++ qs).length : K) * r.u ≤ 1/64) :
    WInv r M (a.merge b) (ps ++ qs) := by
  have hu0 := r.u_nonneg
  rw [List.length_append, Nat.cast_add] at hsmall
  have hna0 : (0:K) ≤ (ps.length : K) := Nat.cast_nonneg _
  have hnb0 : (0:K) ≤ (qs.length : K) := Nat.cast_nonneg _
  have hnnp : NonnegW ps := WObs.nonnegW hps
  have hnnq : NonnegW qs := WObs.nonnegW hqs
  have h0K : ((0:Nat) : K) = 0 := Nat.cast_zero
  have hsa : (ps.length : K) * r.u ≤ 1/64 := by
    have := mul_nonneg hnb0 hu0; linarith
  have hsb : (qs.length : K) * r.u ≤ 1/64 := by
    have := mul_nonneg hna0 hu0; linarith
  have hha0 : 0 ≤ 64/63 * (ps.length : K) * r.u := by positivity
  have hhb0 : 0 ≤ 64/63 * (qs.length : K) * r.u := by positivity
  have hha1 : 64/63 * (ps.length : K) * r.u ≤ 1/63 := by linarith
  have hhb1 : 64/63 * (qs.length : K) * r.u ≤ 1/63 := by linarith
  have hza : a.weight_sum.val = 0 ↔ W ps = 0 :=
    wsum_zero_iff _ _ _ (by linarith) ha.wnn ha.wsum
  have hzb : b.weight_sum.val = 0 ↔ W qs = 0 :=
    wsum_zero_iff _ _ _ (by linarith) hb.wnn hb.wsum
  have hemp : ∀ s : WeightedMean (RF2 r), s.isEmpty = true ↔ s.weight_sum.val = 0 := by
    intro s; unfold WeightedMean.isEmpty; rw [heq]
    show s.weight_sum.val = ((0:Nat) : K) ↔ _; rw [h0K]
  by_cases hbz : b.weight_sum.val = 0
  · rw [WeightedMean.merge_empty a b ((hemp b).mpr hbz)]
    obtain ⟨e1, e2⟩ := wmeanK_append_right_zero ps qs hnnq (hzb.mp hbz)
    exact ha.of_same hM _ e1 e2 (by rw [List.length_append]; omega)
  have hbne : b.isEmpty = false := by
    cases h : b.isEmpty
    · rfl
    · exact absurd ((hemp b).mp h) hbz
  by_cases haz : a.weight_sum.val = 0
  · rw [WeightedMean.empty_merge a b ((hemp a).mpr haz) hbne]
    obtain ⟨e1, e2⟩ := wmeanK_append_left_zero ps qs hnnp (hza.mp haz)
    exact hb.of_same hM _ e1 e2 (by rw [List.length_append]; omega)
  have hane : a.isEmpty = false := by
    cases h : a.isEmpty
    · rfl
    · exact absurd ((hemp a).mp h) haz
  have hsmall' : ((ps ++ qs).length : K) * r.u ≤ 1/64 := by
    rw [List.length_append, Nat.cast_add]; exact hsmall
  exact WInv.merge_nonempty hM a b ps qs ha hb hps hqs hsmall' hane hbne haz hbz

/-! ## streams and merge trees -/

/-- with a positive stored weight sum `mean()` returns the stored average (the guard `!is_empty()`) -/
theorem WeightedMean.mean_of_pos [FloatOps (RF2 r)] (heq : ValEqb r) (s : WeightedMean (RF2 r))
    (h : 0 < s.weight_sum.val) : s.mean = s.weighted_avg := by
  have h0K : ((0:Nat) : K) = 0 := Nat.cast_zero
  have hne : s.isEmpty = false := by
    unfold WeightedMean.isEmpty
    cases hh : FloatOps.eqb s.weight_sum ((0:Nat) : RF2 r)
    · rfl
    · exact absurd (((heq _ _).mp hh).trans h0K) h.ne'
  unfold WeightedMean.mean
  rw [hne]; rfl

/-- the exact values of a list of observations `(x, w)` on the R2 carrier -/
def pairVals (ps : List (RF2 r × RF2 r)) : List (K × K) := ps.map (fun p => (p.1.val, p.2.val))

theorem pairVals_append (ps qs : List (RF2 r × RF2 r)) :
    pairVals (ps ++ qs) = pairVals ps ++ pairVals qs := List.map_append

theorem pairVals_length (ps : List (RF2 r × RF2 r)) : (pairVals ps).length = ps.length :=
  List.length_map _

theorem pairVals_mem {M : K} {ps : List (RF2 r × RF2 r)}
    (h : ∀ p ∈ ps, WObs M (p.1.val, p.2.val)) : ∀ q ∈ pairVals ps, WObs M q := by
  intro q hq
  rw [pairVals, List.mem_map] at hq
  obtain ⟨p, hp, rfl⟩ := hq
  exact h p hp

namespace Avg
/-- evaluation of a merge tree of weighted observations with `WeightedMean`, any carrier -/
abbrev WeightedMean.evalTree {α : Type} [Add α] [Sub α] [Mul α] [Div α] [NatCast α] [FloatOps α]
    (t : MTree (α × α)) : WeightedMean α :=
  t.eval WeightedMean.new WeightedMean.addP WeightedMean.merge

/-- evaluation of a merge tree of weighted observations with `WeightedMeanWithError`, any carrier -/
abbrev WeightedMeanWithError.evalTree {α : Type} [Add α] [Sub α] [Mul α] [Div α] [NatCast α]
    [FloatOps α] (t : MTree (α × α)) : WeightedMeanWithError α :=
  t.eval WeightedMeanWithError.new WeightedMeanWithError.addP WeightedMeanWithError.merge

/-- the `WeightedMean` inside `WeightedMeanWithError` is computed by the text of `WeightedMean`: through
every merge tree the projection is the `WeightedMean` tree, bit for bit on any carrier -/
theorem WeightedMeanWithError.mtree_weighted_avg {α : Type} [Add α] [Sub α] [Mul α] [Div α]
    [NatCast α] [FloatOps α] (t : MTree (α × α)) :
    (WeightedMeanWithError.evalTree t).weighted_avg = WeightedMean.evalTree t := by
  induction t with
  | leaf ps => exact WeightedMeanWithError.fold_weighted_avg ps WeightedMeanWithError.new
  | node l rt ihl ihr =>
    show ((WeightedMeanWithError.evalTree l).merge (WeightedMeanWithError.evalTree rt)).weighted_avg = _
    show (WeightedMeanWithError.evalTree l).weighted_avg.merge
      (WeightedMeanWithError.evalTree rt).weighted_avg = _
    rw [ihl, ihr]
    rfl
end Avg

/-- **Add-only streams.** After any list of `n` observations `(x, w)` with `w ≥ 0`, `|x| ≤ M` where
`w > 0`, and `n·u ≤ 1/64`, the state satisfies the invariant. -/
theorem wmean_fold_inv [FloatOps (RF2 r)] (heq : ValEqb r) {M : K} (hM : 0 ≤ M) :
    ∀ ps : List (RF2 r × RF2 r), (∀ p ∈ ps, WObs M (p.1.val, p.2.val)) →
      (ps.length : K) * r.u ≤ 1/64 →
      WInv r M (ps.foldl WeightedMean.addP WeightedMean.new) (pairVals ps) := by
  intro ps
  induction ps using List.reverseRecOn with
  | nil => intro _ _; exact WInv.new M
  | append_singleton ps p ih =>
    intro hobs hsmall
    have hobs' : ∀ q ∈ ps, WObs M (q.1.val, q.2.val) := fun q hq => hobs q (by simp [hq])
    have hlen : ((ps ++ [p]).length : K) = (ps.length : K) + 1 := by simp
    have hu0 := r.u_nonneg
    rw [hlen] at hsmall
    have hinv := ih hobs' (by nlinarith)
    rw [List.foldl_append, List.foldl_cons, List.foldl_nil, pairVals_append]
    have := WInv.add heq hM _ (pairVals ps) p.1 p.2 hinv (pairVals_mem hobs') (hobs p (by simp))
      (by rw [pairVals_length]; push_cast; exact hsmall)
    exact this

/-- **Every merge tree.** For every merge tree `t` (any shape, any chunk sizes, empty chunks and chunks
of total weight zero included) over `n` observations as above with `n·u ≤ 1/64`, the state satisfies
the invariant. -/
theorem wmean_mtree_inv [FloatOps (RF2 r)] (heq : ValEqb r) {M : K} (hM : 0 ≤ M) :
    ∀ t : MTree (RF2 r × RF2 r), (∀ p ∈ t.flatten, WObs M (p.1.val, p.2.val)) →
      (t.flatten.length : K) * r.u ≤ 1/64 →
      WInv r M (WeightedMean.evalTree t) (pairVals t.flatten) := by
  have hu0 := r.u_nonneg
  intro t
  induction t with
  | leaf ps => intro hobs hsmall; exact wmean_fold_inv heq hM ps hobs hsmall
  | node l rt ihl ihr =>
    intro hobs hsmall
    rw [MTree.flatten_node] at hobs hsmall ⊢
    have hl0 : (0:K) ≤ (l.flatten.length : K) := Nat.cast_nonneg _
    have hr0 : (0:K) ≤ (rt.flatten.length : K) := Nat.cast_nonneg _
    have hsm := hsmall
    rw [List.length_append, Nat.cast_add] at hsm
    have hobl : ∀ p ∈ l.flatten, WObs M (p.1.val, p.2.val) :=
      fun p hp => hobs p (List.mem_append_left _ hp)
    have hobr : ∀ p ∈ rt.flatten, WObs M (p.1.val, p.2.val) :=
      fun p hp => hobs p (List.mem_append_right _ hp)
    have il := ihl hobl (by nlinarith)
    have ir := ihr hobr (by nlinarith)
    rw [pairVals_append]
    exact WInv.merge heq hM _ _ _ _ il ir (pairVals_mem hobl) (pairVals_mem hobr)
      (by rw [List.length_append, pairVals_length, pairVals_length, ← List.length_append]; exact hsmall)

/-- **Headline.** For every merge tree over `n` weighted observations (`w ≥ 0`; `|x| ≤ M` where
`w > 0`) with positive total weight and `n·u ≤ 1/64`: the stored weight sum is positive, within
`2·n·u·Σw` of `Σw`, and the stored weighted average is within `8·u·M·n` of `Σwx/Σw`. -/
theorem wmean_mtree_error [FloatOps (RF2 r)] (heq : ValEqb r) {M : K} (hM : 0 ≤ M)
    (t : MTree (RF2 r × RF2 r)) (hobs : ∀ p ∈ t.flatten, WObs M (p.1.val, p.2.val))
    (hsmall : (t.flatten.length : K) * r.u ≤ 1/64) (hpos : 0 < W (pairVals t.flatten)) :
    0 < (WeightedMean.evalTree t).weight_sum.val ∧
    |(WeightedMean.evalTree t).weight_sum.val - W (pairVals t.flatten)|
      ≤ 2 * (t.flatten.length : K) * r.u * W (pairVals t.flatten) ∧
    |(WeightedMean.evalTree t).weighted_avg.val - WX (pairVals t.flatten) / W (pairVals t.flatten)|
      ≤ 8 * r.u * M * (t.flatten.length : K) := by
  have hu0 := r.u_nonneg
  have hinv := wmean_mtree_inv heq hM t hobs hsmall
  have hn0 : (0:K) ≤ (t.flatten.length : K) := Nat.cast_nonneg _
  have hws := hinv.wsum
  have havg := hinv.avg
  have hC0 := hinv.wnn
  rw [pairVals_length] at hws havg
  rw [wmeanK_of_pos hpos.ne'] at havg
  generalize (WeightedMean.evalTree t).weight_sum.val = C at *
  generalize W (pairVals t.flatten) = Wx at *
  have hh : 64/63 * (t.flatten.length : K) * r.u ≤ 1/63 := by nlinarith
  have hh0 : 0 ≤ 64/63 * (t.flatten.length : K) * r.u := by positivity
  have hz := wsum_zero_iff _ C Wx (by linarith) hC0 hws
  have hCpos : 0 < C := lt_of_le_of_ne hC0 (fun h => hpos.ne' (hz.mp h.symm))
  refine ⟨hCpos, ?_, havg⟩
  -- C ≤ (63/62) W
  have hCW : C ≤ 63/62 * Wx := by
    have := (abs_le.mp hws).2
    nlinarith [mul_nonneg (sub_nonneg.mpr hh) hC0]
  refine le_trans hws ?_
  have hnu : 0 ≤ (t.flatten.length : K) * r.u := mul_nonneg hn0 hu0
  calc 64/63 * (t.flatten.length : K) * r.u * C
      ≤ 64/63 * (t.flatten.length : K) * r.u * (63/62 * Wx) := by gcongr
    _ = 32/31 * ((t.flatten.length : K) * r.u) * Wx := by ring
    _ ≤ 2 * ((t.flatten.length : K) * r.u) * Wx := by gcongr; norm_num
    _ = _ := by ring

#print axioms WInv.add
#print axioms WInv.merge
#print axioms wmean_fold_inv
#print axioms wmean_mtree_inv
#print axioms wmean_mtree_error
#print axioms Avg.WeightedMeanWithError.mtree_weighted_avg
