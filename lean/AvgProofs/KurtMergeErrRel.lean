import AvgProofs.SkewMergeErrRel
import Mathlib.Algebra.Order.Ring.Pow

/-!
# The three rounded cross terms of `Kurtosis.merge` under the standard model of rounding

`Kurtosis.merge` computes, with `D = fl(b - a)` (`a`, `b` the computed means), `N = fl(n_x + n_y)`, `Dn = fl(D/N)`,
`Dn2 = fl(Dn·Dn)`:

`A' = fl(fl(fl(fl(fl(D·Dn)·Dn2)·n_x)·n_y)·fl(fl(fl(n_x·n_x) - fl(n_x·n_y)) + fl(n_y·n_y)))`,
`B' = fl(fl(6·Dn2)·fl(fl(fl(n_x·n_x)·S_y) + fl(fl(n_y·n_y)·S_x)))`   (`S` the computed sums of squares),
`C' = fl(fl(4·Dn)·fl(fl(n_x·S3_y) - fl(n_y·S3_x)))`                  (`S3` the computed third-order sums).

* `KurtMerge.poly2_RE`: the factor `n_x² - n_x·n_y + n_y²` is computed by a cancelling subtraction; its error is
  `γ3·(n_x² + n_x·n_y + n_y²) ≤ 3γ3·(n_x² - n_x·n_y + n_y²)`, a relative error of at most `γ9`.
* `KurtMerge.crossA4_RE`: `A'` is within relative error `γ28` of `(b-a)⁴·n_x·n_y·(n_x² - n_x·n_y + n_y²)/n³`.
* `KurtMerge.crossB4_error`: `B'` is within `γ14·6·((b-a)/n)²·(n_x²·|S_y| + n_y²·|S_x|)` of
  `6·((b-a)/n)²·(n_x²·S_y + n_y²·S_x)`.
* `KurtMerge.crossC4_error`: `C'` is within `γ8·4·(|b-a|/n)·(n_x·|S3_y| + n_y·|S3_x|)` of
  `4·((b-a)/n)·(n_x·S3_y - n_y·S3_x)`.
* `KurtMerge.g54_le`: `γ54 ≤ 55·u` for `u ≤ 1/1856`.
-/
variable {K : Type} [Field K] [LinearOrder K] [IsStrictOrderedRing K]

namespace KurtMerge
open SkewErr SkewMerge

/-- a rounded sum of two approximations: the rounding is relative to `|A| + |B|` -/
theorem round_add2_error (fl : K → K) (u : K) (hu : 0 ≤ u) (hfl : ∀ t, |fl t - t| ≤ u * |t|)
    {i j : ℕ} {A A0 B B0 : K} (hA : RE u i A A0) (hB : RE u j B B0) :
    |fl (A + B) - (A0 + B0)| ≤ g u (i + 1) * |A0| + g u (j + 1) * |B0| := by
  have hAb := hA.abs_le
  have hBb := hB.abs_le
  unfold RE at hA hB
  have h1 : |fl (A + B) - (A + B)| ≤ u * (|A| + |B|) :=
    le_trans (hfl _) (by gcongr; exact abs_add_le _ _)
  have e : fl (A + B) - (A0 + B0) = (fl (A + B) - (A + B)) + ((A - A0) + (B - B0)) := by ring
  rw [e]
  calc |(fl (A + B) - (A + B)) + ((A - A0) + (B - B0))|
      ≤ |fl (A + B) - (A + B)| + (|A - A0| + |B - B0|) :=
        le_trans (abs_add_le _ _) (by gcongr; exact abs_add_le _ _)
    _ ≤ u * ((1 + u)^i * |A0| + (1 + u)^j * |B0|) + (((1 + u)^i - 1) * |A0| + ((1 + u)^j - 1) * |B0|) := by
        have : u * (|A| + |B|) ≤ u * ((1 + u)^i * |A0| + (1 + u)^j * |B0|) := by gcongr
        linarith
    _ = g u (i + 1) * |A0| + g u (j + 1) * |B0| := by unfold g; ring

/-- `3·γ_3 ≤ γ_9` (Bernoulli) -/
theorem three_g3_le {u : K} (hu : 0 ≤ u) : 3 * g u 3 ≤ g u 9 := by
  have h3 := g_nonneg hu 3
  have hb := one_add_mul_le_pow (by linarith : (-2 : K) ≤ g u 3) 3
  have e : (1 + g u 3)^3 = (1 + u)^9 := by
    unfold g
    rw [add_sub_cancel, ← pow_mul]
  rw [e] at hb
  unfold g at hb ⊢
  push_cast at hb
  linarith

/-- the polynomial `n_x·n_x - n_x·n_y + n_y·n_y`: five rounded operations, the subtraction cancels -/
theorem poly2_abs_err (fl : K → K) (u : K) (hu : 0 ≤ u) (hfl : ∀ t, |fl t - t| ≤ u * |t|)
    (nx ny : K) (hnx : 0 ≤ nx) (hny : 0 ≤ ny) :
    |fl (fl (fl (nx * nx) - fl (nx * ny)) + fl (ny * ny)) - (nx * nx - nx * ny + ny * ny)|
      ≤ g u 3 * (nx * nx + nx * ny + ny * ny) := by
  have h1 : RE u 1 (fl (nx * nx)) (nx * nx) := (RE.refl u (nx * nx)).round fl hu hfl
  have h2 : RE u 1 (fl (nx * ny)) (nx * ny) := (RE.refl u (nx * ny)).round fl hu hfl
  have hs := round_sub_error fl u hu hfl h1 h2
  rw [abs_of_nonneg (by positivity : 0 ≤ nx * nx), abs_of_nonneg (by positivity : 0 ≤ nx * ny)] at hs
  have hp3 : |fl (ny * ny) - ny * ny| ≤ u * (ny * ny) := by
    have := hfl (ny * ny)
    rwa [abs_of_nonneg (by positivity : 0 ≤ ny * ny)] at this
  set c := fl (fl (nx * nx) - fl (nx * ny)) with hc
  set c0 := nx * nx - nx * ny with hc0
  set p := fl (ny * ny) with hp
  have hxy : 0 ≤ nx * ny := by positivity
  have hpoly : 0 ≤ nx * nx - nx * ny + ny * ny := by nlinarith [sq_nonneg (nx - ny)]
  have hp0 : |c0 + ny * ny| ≤ nx * nx + nx * ny + ny * ny := by
    rw [abs_of_nonneg hpoly]; linarith
  have hcp : |c + p| ≤ |c0 + ny * ny| + (|c - c0| + |p - ny * ny|) := by
    have : c + p = (c0 + ny * ny) + ((c - c0) + (p - ny * ny)) := by ring
    rw [this]
    exact le_trans (abs_add_le _ _) (by gcongr; exact abs_add_le _ _)
  have e : fl (c + p) - (c0 + ny * ny) = (fl (c + p) - (c + p)) + ((c - c0) + (p - ny * ny)) := by ring
  have hg3 : g u 3 = u + (1 + u) * g u 2 := by unfold g; ring
  have hg2 := g_nonneg hu 2
  have hug2 : u ≤ g u 2 := by unfold g; nlinarith
  have hq0 : 0 ≤ nx * nx + nx * ny := by positivity
  have hyy : 0 ≤ ny * ny := by positivity
  rw [e]
  calc |(fl (c + p) - (c + p)) + ((c - c0) + (p - ny * ny))|
      ≤ |fl (c + p) - (c + p)| + (|c - c0| + |p - ny * ny|) :=
        le_trans (abs_add_le _ _) (by gcongr; exact abs_add_le _ _)
    _ ≤ u * (|c0 + ny * ny| + (|c - c0| + |p - ny * ny|)) + (|c - c0| + |p - ny * ny|) := by
        have := hfl (c + p)
        have : u * |c + p| ≤ u * (|c0 + ny * ny| + (|c - c0| + |p - ny * ny|)) := by gcongr
        linarith
    _ = u * |c0 + ny * ny| + (1 + u) * (|c - c0| + |p - ny * ny|) := by ring
    _ ≤ u * (nx * nx + nx * ny + ny * ny)
          + (1 + u) * ((g u (1 + 1) * (nx * nx) + g u (1 + 1) * (nx * ny)) + u * (ny * ny)) := by
        gcongr
    _ ≤ u * (nx * nx + nx * ny + ny * ny)
          + (1 + u) * ((g u 2 * (nx * nx) + g u 2 * (nx * ny)) + g u 2 * (ny * ny)) := by
        have : u * (ny * ny) ≤ g u 2 * (ny * ny) := by gcongr
        have h1u : 0 ≤ 1 + u := by linarith
        have e2 : g u (1 + 1) = g u 2 := rfl
        rw [e2]
        gcongr
    _ = g u 3 * (nx * nx + nx * ny + ny * ny) := by rw [hg3]; ring

/-- the polynomial as a relative error: nine roundings' worth -/
theorem poly2_RE (fl : K → K) (u : K) (hu : 0 ≤ u) (hfl : ∀ t, |fl t - t| ≤ u * |t|)
    (nx ny : K) (hnx : 0 ≤ nx) (hny : 0 ≤ ny) :
    RE u 9 (fl (fl (fl (nx * nx) - fl (nx * ny)) + fl (ny * ny))) (nx * nx - nx * ny + ny * ny) := by
  have h := poly2_abs_err fl u hu hfl nx ny hnx hny
  have hpoly : 0 ≤ nx * nx - nx * ny + ny * ny := by nlinarith [sq_nonneg (nx - ny)]
  have hq : nx * nx + nx * ny + ny * ny ≤ 3 * (nx * nx - nx * ny + ny * ny) := by
    nlinarith [sq_nonneg (nx - ny)]
  unfold RE
  rw [abs_of_nonneg hpoly]
  have h3 := g_nonneg hu 3
  calc _ ≤ g u 3 * (nx * nx + nx * ny + ny * ny) := h
    _ ≤ g u 3 * (3 * (nx * nx - nx * ny + ny * ny)) := by gcongr
    _ = (3 * g u 3) * (nx * nx - nx * ny + ny * ny) := by ring
    _ ≤ g u 9 * (nx * nx - nx * ny + ny * ny) := by
        have := three_g3_le hu
        gcongr

/-- **The rounded first cross term**: twenty-eight roundings' worth. -/
theorem crossA4_RE (fl : K → K) (u : K) (hu : 0 ≤ u) (hu2 : u ≤ 1/2)
    (hfl : ∀ t, |fl t - t| ≤ u * |t|) (a b nx ny : K) (hnx : 0 < nx) (hny : 0 < ny) :
    RE u 28
      (fl (fl (fl (fl (fl (fl (b - a) * fl (fl (b - a) / fl (nx + ny)))
          * fl (fl (fl (b - a) / fl (nx + ny)) * fl (fl (b - a) / fl (nx + ny)))) * nx) * ny)
        * fl (fl (fl (nx * nx) - fl (nx * ny)) + fl (ny * ny))))
      ((b - a)^4 * (nx * ny * (nx * nx - nx * ny + ny * ny) / (nx + ny)^3)) := by
  have hn : 0 < nx + ny := by positivity
  have h1 : RE u 1 (fl (b - a)) (b - a) := (RE.refl u (b - a)).round fl hu hfl
  have h4 := deltaN_RE fl u hu hu2 hfl a b (nx + ny) hn
  have h9 : RE u 9 _ _ := (h4.mul hu h4).round fl hu hfl
  have h6 : RE u 6 _ _ := (h1.mul hu h4).round fl hu hfl
  have h16 : RE u 16 _ _ := (h6.mul hu h9).round fl hu hfl
  have h17 : RE u 17 _ _ := (h16.mul hu (RE.refl u nx)).round fl hu hfl
  have h18 : RE u 18 _ _ := (h17.mul hu (RE.refl u ny)).round fl hu hfl
  have hc := poly2_RE fl u hu hfl nx ny hnx.le hny.le
  have h28 : RE u 28 _ _ := (h18.mul hu hc).round fl hu hfl
  have hval : (b - a) * ((b - a) * (1 / (nx + ny)))
        * ((b - a) * (1 / (nx + ny)) * ((b - a) * (1 / (nx + ny)))) * nx * ny
        * (nx * nx - nx * ny + ny * ny)
      = (b - a)^4 * (nx * ny * (nx * nx - nx * ny + ny * ny) / (nx + ny)^3) := by
    field_simp
  rw [hval] at h28
  exact h28

/-- a rounded product of a factor with `i` roundings and a factor `W` known within `γ_j·Wa` of `W0`, `|W0| ≤ Wa` -/
theorem prod_round_error (fl : K → K) (u : K) (hu : 0 ≤ u) (hfl : ∀ t, |fl t - t| ≤ u * |t|)
    {i j : ℕ} {c c0 W W0 Wa : K} (hc : RE u i c c0) (hW : |W - W0| ≤ g u j * Wa) (hW0 : |W0| ≤ Wa) :
    |fl (c * W) - c0 * W0| ≤ g u (i + j + 1) * (|c0| * Wa) := by
  have hWa0 : 0 ≤ Wa := le_trans (abs_nonneg _) hW0
  have hWb : |W| ≤ (1 + u)^j * Wa := by
    have : W = W0 + (W - W0) := by ring
    calc |W| = |W0 + (W - W0)| := by rw [← this]
      _ ≤ |W0| + |W - W0| := abs_add_le _ _
      _ ≤ Wa + g u j * Wa := by linarith
      _ = (1 + u)^j * Wa := by unfold g; ring
  have hcb := hc.abs_le
  have hce : |c - c0| ≤ g u i * |c0| := hc
  have hc00 : 0 ≤ |c0| := abs_nonneg _
  have hgj := g_nonneg hu j
  have hgi := g_nonneg hu i
  have hpi : (0 : K) ≤ (1 + u)^i := by positivity
  have hmid : |c * W - c0 * W0| ≤ g u (i + j) * (|c0| * Wa) := by
    have e : c * W - c0 * W0 = c * (W - W0) + (c - c0) * W0 := by ring
    rw [e]
    calc |c * (W - W0) + (c - c0) * W0| ≤ |c| * |W - W0| + |c - c0| * |W0| := by
          refine le_trans (abs_add_le _ _) ?_
          rw [abs_mul, abs_mul]
      _ ≤ ((1 + u)^i * |c0|) * (g u j * Wa) + (g u i * |c0|) * Wa := by gcongr
      _ = g u (i + j) * (|c0| * Wa) := by unfold g; ring
  have hprod : |c * W| ≤ (1 + u)^(i + j) * (|c0| * Wa) := by
    rw [abs_mul]
    calc |c| * |W| ≤ ((1 + u)^i * |c0|) * ((1 + u)^j * Wa) := by gcongr
      _ = (1 + u)^(i + j) * (|c0| * Wa) := by ring
  have hlast : |fl (c * W) - c * W| ≤ u * ((1 + u)^(i + j) * (|c0| * Wa)) :=
    le_trans (hfl _) (by gcongr)
  have e : fl (c * W) - c0 * W0 = (fl (c * W) - c * W) + (c * W - c0 * W0) := by ring
  rw [e]
  calc |(fl (c * W) - c * W) + (c * W - c0 * W0)|
      ≤ |fl (c * W) - c * W| + |c * W - c0 * W0| := abs_add_le _ _
    _ ≤ u * ((1 + u)^(i + j) * (|c0| * Wa)) + g u (i + j) * (|c0| * Wa) := by linarith
    _ = g u (i + j + 1) * (|c0| * Wa) := by unfold g; ring

/-- **The rounded second cross term.** -/
theorem crossB4_error (fl : K → K) (u : K) (hu : 0 ≤ u) (hu2 : u ≤ 1/2)
    (hfl : ∀ t, |fl t - t| ≤ u * |t|) (a b nx ny Sx Sy : K) (hnx : 0 < nx) (hny : 0 < ny) :
    |fl (fl (6 * fl (fl (fl (b - a) / fl (nx + ny)) * fl (fl (b - a) / fl (nx + ny))))
          * fl (fl (fl (nx * nx) * Sy) + fl (fl (ny * ny) * Sx)))
        - 6 * ((b - a) / (nx + ny))^2 * (nx * nx * Sy + ny * ny * Sx)|
      ≤ g u 14 * (6 * ((b - a) / (nx + ny))^2 * (nx * nx * |Sy| + ny * ny * |Sx|)) := by
  have hn : 0 < nx + ny := by positivity
  have h4 := deltaN_RE fl u hu hu2 hfl a b (nx + ny) hn
  have h9 : RE u 9 _ _ := (h4.mul hu h4).round fl hu hfl
  have h10 : RE u 10 (fl (6 * fl (fl (fl (b - a) / fl (nx + ny)) * fl (fl (b - a) / fl (nx + ny)))))
      (6 * ((b - a) * (1 / (nx + ny)) * ((b - a) * (1 / (nx + ny))))) :=
    ((RE.refl u (6 : K)).mul hu h9).round fl hu hfl
  have hxx : RE u 1 (fl (nx * nx)) (nx * nx) := (RE.refl u (nx * nx)).round fl hu hfl
  have hyy : RE u 1 (fl (ny * ny)) (ny * ny) := (RE.refl u (ny * ny)).round fl hu hfl
  have hpx : RE u 2 (fl (fl (nx * nx) * Sy)) (nx * nx * Sy) :=
    (hxx.mul hu (RE.refl u Sy)).round fl hu hfl
  have hpy : RE u 2 (fl (fl (ny * ny) * Sx)) (ny * ny * Sx) :=
    (hyy.mul hu (RE.refl u Sx)).round fl hu hfl
  have hW := round_add2_error fl u hu hfl hpx hpy
  have hxx0 : 0 ≤ nx * nx := by positivity
  have hyy0 : 0 ≤ ny * ny := by positivity
  have e1 : |nx * nx * Sy| = nx * nx * |Sy| := by rw [abs_mul, abs_of_nonneg hxx0]
  have e2 : |ny * ny * Sx| = ny * ny * |Sx| := by rw [abs_mul, abs_of_nonneg hyy0]
  rw [e1, e2] at hW
  have hWW : |fl (fl (fl (nx * nx) * Sy) + fl (fl (ny * ny) * Sx)) - (nx * nx * Sy + ny * ny * Sx)|
      ≤ g u 3 * (nx * nx * |Sy| + ny * ny * |Sx|) := by
    have : g u (2 + 1) = g u 3 := rfl
    rw [this] at hW
    refine le_trans hW (le_of_eq ?_); ring
  have hW0a : |nx * nx * Sy + ny * ny * Sx| ≤ nx * nx * |Sy| + ny * ny * |Sx| := by
    refine le_trans (abs_add_le _ _) (le_of_eq ?_)
    rw [e1, e2]
  have hmain := prod_round_error fl u hu hfl h10 hWW hW0a
  have hc0 : 6 * ((b - a) * (1 / (nx + ny)) * ((b - a) * (1 / (nx + ny))))
      = 6 * ((b - a) / (nx + ny))^2 := by
    rw [mul_one_div]; ring
  rw [hc0] at hmain
  rw [abs_of_nonneg (by positivity : 0 ≤ 6 * ((b - a) / (nx + ny))^2)] at hmain
  exact hmain

/-- **The rounded third cross term.** The rounding of the difference `fl(n_x·S3_y) - fl(n_y·S3_x)` is relative
to `n_x·|S3_y| + n_y·|S3_x|`, not to the difference. -/
theorem crossC4_error (fl : K → K) (u : K) (hu : 0 ≤ u) (hu2 : u ≤ 1/2)
    (hfl : ∀ t, |fl t - t| ≤ u * |t|) (a b nx ny Sx Sy : K) (hnx : 0 < nx) (hny : 0 < ny) :
    |fl (fl (4 * fl (fl (b - a) / fl (nx + ny))) * fl (fl (nx * Sy) - fl (ny * Sx)))
        - 4 * ((b - a) / (nx + ny)) * (nx * Sy - ny * Sx)|
      ≤ g u 8 * (4 * (|b - a| / (nx + ny)) * (nx * |Sy| + ny * |Sx|)) := by
  have hn : 0 < nx + ny := by positivity
  have h4 := deltaN_RE fl u hu hu2 hfl a b (nx + ny) hn
  have h5 : RE u 5 (fl (4 * fl (fl (b - a) / fl (nx + ny)))) (4 * ((b - a) * (1 / (nx + ny)))) :=
    ((RE.refl u (4 : K)).mul hu h4).round fl hu hfl
  have hpx : RE u 1 (fl (nx * Sy)) (nx * Sy) := (RE.refl u (nx * Sy)).round fl hu hfl
  have hpy : RE u 1 (fl (ny * Sx)) (ny * Sx) := (RE.refl u (ny * Sx)).round fl hu hfl
  have hW := round_sub_error fl u hu hfl hpx hpy
  have e1 : |nx * Sy| = nx * |Sy| := by rw [abs_mul, abs_of_pos hnx]
  have e2 : |ny * Sx| = ny * |Sx| := by rw [abs_mul, abs_of_pos hny]
  rw [e1, e2] at hW
  have hWW : |fl (fl (nx * Sy) - fl (ny * Sx)) - (nx * Sy - ny * Sx)| ≤ g u 2 * (nx * |Sy| + ny * |Sx|) := by
    have : g u (1 + 1) = g u 2 := rfl
    rw [this] at hW
    refine le_trans hW (le_of_eq ?_); ring
  have hW0a : |nx * Sy - ny * Sx| ≤ nx * |Sy| + ny * |Sx| := by
    refine le_trans (abs_sub _ _) (le_of_eq ?_)
    rw [e1, e2]
  have hmain := prod_round_error fl u hu hfl h5 hWW hW0a
  have hc0abs : |4 * ((b - a) * (1 / (nx + ny)))| = 4 * (|b - a| / (nx + ny)) := by
    rw [abs_mul, abs_mul, abs_of_pos (by norm_num : (0 : K) < 4),
      abs_of_pos (by positivity : 0 < 1 / (nx + ny))]
    ring
  have htarget : 4 * ((b - a) / (nx + ny)) * (nx * Sy - ny * Sx)
      = 4 * ((b - a) * (1 / (nx + ny))) * (nx * Sy - ny * Sx) := by ring
  rw [htarget, ← hc0abs]
  exact hmain

/-- `γ54 = (1+u)^54 - 1 ≤ 55·u` for `u ≤ 1/1856` -/
theorem g54_le (u : K) (hu : 0 ≤ u) (h : u ≤ 1/1856) : g u 54 ≤ 55 * u := by
  have h2 : (1 + u)^2 ≤ 1 + 3713/1856 * u := by nlinarith
  have h4 : (1 + u)^4 ≤ 1 + 4011/1000 * u := by
    have : (1 + u)^4 = ((1 + u)^2)^2 := by ring
    rw [this]
    calc ((1 + u)^2)^2 ≤ (1 + 3713/1856 * u)^2 := by gcongr
      _ ≤ 1 + 4011/1000 * u := by nlinarith
  have h8 : (1 + u)^8 ≤ 1 + 8040/1000 * u := by
    have : (1 + u)^8 = ((1 + u)^4)^2 := by ring
    rw [this]
    calc ((1 + u)^4)^2 ≤ (1 + 4011/1000 * u)^2 := by gcongr
      _ ≤ 1 + 8040/1000 * u := by nlinarith
  have h16 : (1 + u)^16 ≤ 1 + 16120/1000 * u := by
    have : (1 + u)^16 = ((1 + u)^8)^2 := by ring
    rw [this]
    calc ((1 + u)^8)^2 ≤ (1 + 8040/1000 * u)^2 := by gcongr
      _ ≤ 1 + 16120/1000 * u := by nlinarith
  have h32 : (1 + u)^32 ≤ 1 + 32390/1000 * u := by
    have : (1 + u)^32 = ((1 + u)^16)^2 := by ring
    rw [this]
    calc ((1 + u)^16)^2 ≤ (1 + 16120/1000 * u)^2 := by gcongr
      _ ≤ 1 + 32390/1000 * u := by nlinarith
  have h48 : (1 + u)^48 ≤ 1 + 48800/1000 * u := by
    have : (1 + u)^48 = (1 + u)^32 * (1 + u)^16 := by ring
    rw [this]
    calc (1 + u)^32 * (1 + u)^16 ≤ (1 + 32390/1000 * u) * (1 + 16120/1000 * u) := by gcongr
      _ ≤ 1 + 48800/1000 * u := by nlinarith
  have h6 : (1 + u)^6 ≤ 1 + 6017/1000 * u := by
    have : (1 + u)^6 = (1 + u)^4 * (1 + u)^2 := by ring
    rw [this]
    calc (1 + u)^4 * (1 + u)^2 ≤ (1 + 4011/1000 * u) * (1 + 3713/1856 * u) := by gcongr
      _ ≤ 1 + 6017/1000 * u := by nlinarith
  have h54 : (1 + u)^54 ≤ 1 + 55 * u := by
    have : (1 + u)^54 = (1 + u)^48 * (1 + u)^6 := by ring
    rw [this]
    calc (1 + u)^48 * (1 + u)^6 ≤ (1 + 48800/1000 * u) * (1 + 6017/1000 * u) := by gcongr
      _ ≤ 1 + 55 * u := by nlinarith
  unfold g
  linarith

end KurtMerge

#print axioms KurtMerge.crossA4_RE
#print axioms KurtMerge.crossB4_error
#print axioms KurtMerge.crossC4_error
#print axioms KurtMerge.g54_le
