import AvgModel.MomentsN
import Mathlib.Algebra.Ring.Defs
import Mathlib.Algebra.Group.Basic
import Mathlib.Algebra.GroupWithZero.Basic
import Mathlib.Data.Nat.Cast.Defs
import Mathlib.Tactic.Ring

/-! `num_traits::pow` (exponentiation by squaring, two loops) computes the power, in every semiring. -/
open Avg
namespace MSpec
variable {R : Type} [Semiring R]

/-- first loop: strips the factors 2 of a non-zero exponent, squaring the base; value preserved -/
theorem numPowEven_spec : ∀ (fuel : Nat) (base : R) (exp : Nat), exp ≠ 0 → exp ≤ fuel →
    (numPowEven fuel base exp).2 % 2 = 1 ∧
    (numPowEven fuel base exp).1 ^ (numPowEven fuel base exp).2 = base ^ exp := by
  intro fuel
  induction fuel with
  | zero => intro base exp h0 hle; omega
  | succ fuel ih =>
    intro base exp h0 hle
    unfold numPowEven
    by_cases h : exp % 2 = 0 ∧ exp ≠ 0
    · rw [if_pos h]
      have := ih (base * base) (exp / 2) (by omega) (by omega)
      refine ⟨this.1, ?_⟩
      rw [this.2, ← pow_two, ← pow_mul]
      congr 1; omega
    · rw [if_neg h]
      exact ⟨by omega, rfl⟩

/-- second loop: multiplies the accumulator by `base^(2⌊exp/2⌋)` -/
theorem numPowLoop_spec : ∀ (fuel : Nat) (base acc : R) (exp : Nat), exp ≤ fuel →
    numPowLoop fuel base acc exp = acc * base ^ (2 * (exp / 2)) := by
  intro fuel
  induction fuel with
  | zero =>
    intro base acc exp hle
    have : exp = 0 := by omega
    subst this; simp [numPowLoop]
  | succ fuel ih =>
    intro base acc exp hle
    unfold numPowLoop
    by_cases h : exp > 1
    · simp only [h, if_true]
      rw [ih _ _ _ (by omega)]
      by_cases ho : exp / 2 % 2 = 1
      · simp only [ho, if_true]
        rw [mul_assoc, ← pow_two, ← pow_mul, ← pow_add]
        congr 2; omega
      · simp only [ho, if_false]
        rw [← pow_two, ← pow_mul]
        congr 2; omega
    · simp only [h, if_false]
      have : exp / 2 = 0 := by omega
      simp [this]

/-- `num_traits::pow(base, exp) = base^exp` -/
theorem numPow_eq_pow (x : R) (p : Nat) : numPow x p = x ^ p := by
  unfold numPow
  by_cases h0 : p = 0
  · subst h0; simp
  · simp only [h0, if_false]
    obtain ⟨hodd, hval⟩ := numPowEven_spec p x p h0 (le_refl _)
    generalize numPowEven p x p = r at hodd hval
    obtain ⟨b, e⟩ := r
    simp only at hodd hval ⊢
    by_cases h1 : e = 1
    · subst h1; simpa using hval
    · simp only [h1, if_false]
      rw [numPowLoop_spec e b b e (le_refl _), ← hval, ← pow_succ']
      congr 1; omega

end MSpec
#print axioms MSpec.numPow_eq_pow
