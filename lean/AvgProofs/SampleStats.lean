import AvgModel.Weighted
import AvgProofs.Project
import AvgProofs.MomentsAcc
import AvgProofs.MomentsCanon

/-! Helpers for the bias-corrected sample statistics (C10): counts after a fold on any carrier, the
unweighted part of `WeightedMeanWithError`, and the canonical states of the smaller estimators. -/
open Avg
set_option linter.unusedSectionVars false
namespace MSpec

section anyCarrier
variable {α : Type} [Add α] [Sub α] [Mul α] [Div α] [NatCast α]

theorem c10_mean_fold_n (xs : List α) (s : Mean α) : (xs.foldl Mean.add s).n = s.n + xs.length := by
  induction xs generalizing s with
  | nil => rfl
  | cons x xs ih => rw [List.foldl_cons, ih]; simp only [Mean.add, List.length_cons]; omega

theorem c10_variance_fold_n (xs : List α) :
    (xs.foldl Variance.add Variance.new).avg.n = xs.length := by
  rw [Variance.fold_avg, c10_mean_fold_n]; simp [Variance.new, Mean.new]

theorem c10_skewness_fold_n (xs : List α) :
    (xs.foldl Skewness.add Skewness.new).avg.avg.n = xs.length := by
  rw [Skewness.fold_avg]; exact c10_variance_fold_n xs

theorem c10_kurtosis_fold_n (xs : List α) :
    (xs.foldl Kurtosis.add Kurtosis.new).avg.avg.avg.n = xs.length := by
  rw [Kurtosis.fold_avg]; exact c10_skewness_fold_n xs

/-- the unweighted part of `WeightedMeanWithError` is a `Variance` fed the samples, bit for bit -/
theorem c10_wmwe_fold_unweighted [FloatOps α] (ps : List (α × α)) (s : WeightedMeanWithError α) :
    (ps.foldl (fun s p => s.add p.1 p.2) s).unweighted_avg
      = (ps.map Prod.fst).foldl Variance.add s.unweighted_avg := by
  induction ps generalizing s with
  | nil => rfl
  | cons p ps ih => rw [List.foldl_cons, ih]; rfl
end anyCarrier

variable {K : Type} [Field K] [CharZero K]

theorem c10_variance_fold (xs : List K) :
    xs.foldl Variance.add Variance.new = ⟨⟨mean xs, xs.length⟩, sumPow xs (mean xs) 2⟩ := by
  have h := congrArg (fun k => k.avg.avg) (kurtosis_fold xs)
  simp only [Kurtosis.fold_avg, Skewness.fold_avg] at h
  exact h

theorem c10_skewness_fold_avg (xs : List K) :
    (xs.foldl Skewness.add Skewness.new).avg = ⟨⟨mean xs, xs.length⟩, sumPow xs (mean xs) 2⟩ := by
  rw [Skewness.fold_avg]; exact c10_variance_fold xs

theorem c10_kurtosis_fold_avg (xs : List K) :
    (xs.foldl Kurtosis.add Kurtosis.new).avg.avg = ⟨⟨mean xs, xs.length⟩, sumPow xs (mean xs) 2⟩ := by
  rw [Kurtosis.fold_avg]; exact c10_skewness_fold_avg xs

/-- the third central power sum of two observations vanishes identically -/
theorem c10_two_m3 (a b : K) : sumPow [a, b] (mean [a, b]) 3 = 0 := by
  simp only [mean, sumPow, List.map_cons, List.map_nil, List.sum_cons, List.sum_nil, List.length_cons,
    List.length_nil]
  norm_num
  ring

theorem c10_two_m2 (a b : K) : sumPow [a, b] (mean [a, b]) 2 = (a - b)^2 / 2 := by
  simp only [mean, sumPow, List.map_cons, List.map_nil, List.sum_cons, List.sum_nil, List.length_cons,
    List.length_nil]
  norm_num
  ring

theorem c10_cast_pred (n : Nat) (h : 1 ≤ n) : ((n - 1 : Nat) : K) = (n : K) - 1 := by
  rw [Nat.cast_sub h, Nat.cast_one]

theorem c10_sub_ne_zero (n k : Nat) (h : k < n) : (n : K) - (k : K) ≠ 0 := by
  rw [← Nat.cast_sub (by omega)]; exact Nat.cast_ne_zero.mpr (by omega)

variable [FloatOps K]

/-- the canonical `Variance` state: sample variance against population variance, `n ≥ 2` -/
theorem c10_canonV_sample (xs : List K) (h : 2 ≤ xs.length) :
    let v : Variance K := ⟨⟨mean xs, xs.length⟩, sumPow xs (mean xs) 2⟩
    v.sampleVariance = v.populationVariance * ((xs.length : K) / ((xs.length : K) - 1))
      ∧ v.sampleVariance = sumPow xs (mean xs) 2 / ((xs.length : K) - 1)
      ∧ v.populationVariance = sumPow xs (mean xs) 2 / (xs.length : K) := by
  have h0 : ¬ xs.length = 0 := by omega
  have h2 : ¬ xs.length < 2 := by omega
  have hn : (xs.length : K) ≠ 0 := Nat.cast_ne_zero.mpr h0
  have hn1 : (xs.length : K) - 1 ≠ 0 := by simpa using c10_sub_ne_zero (K := K) xs.length 1 (by omega)
  simp only [Variance.sampleVariance, Variance.populationVariance, h0, h2, if_false,
    c10_cast_pred xs.length (by omega)]
  refine ⟨?_, by trivial⟩
  field_simp

/-- the canonical `Moments N` state, `N ≥ 2`: `m[0]/(n-1)` against `m[0]/n`, `n ≥ 2` -/
theorem c10_canonM_sample (N : Nat) (hN : 2 ≤ N) (xs : List K) (h : 2 ≤ xs.length) :
    (canonM N xs).sampleVariance = sumPow xs (mean xs) 2 / (xs.length : K) * ((xs.length : K) / ((xs.length : K) - 1))
      ∧ (canonM N xs).sampleVariance = sumPow xs (mean xs) 2 / ((xs.length : K) - 1) := by
  have h0 : ¬ xs.length = 0 := by omega
  have h2 : ¬ xs.length < 2 := by omega
  have hn : (xs.length : K) ≠ 0 := Nat.cast_ne_zero.mpr h0
  have hn1 : (xs.length : K) - 1 ≠ 0 := by simpa using c10_sub_ne_zero (K := K) xs.length 1 (by omega)
  have hlen : (canonM N xs).n = xs.length := rfl
  simp only [Moments.sampleVariance, hlen, h2, if_false, canonM_getD N xs 0 hN,
    c10_cast_pred xs.length (by omega)]
  refine ⟨?_, by trivial⟩
  field_simp

end MSpec
