import AvgModel.MomentsN
import AvgProofs.Shift
import Mathlib.Algebra.BigOperators.Intervals
import Mathlib.Algebra.Order.BigOperators.Group.Finset

open Avg Finset
namespace MSpec
variable {K : Type} [Field K] [CharZero K]

/-- closed form of the inner (binomial) loop -/
theorem innerAdd_closed (p : Nat) (prev : List K) (fc : K) :
    ∀ (fuel k : Nat) (coeff : K) (a : Nat) (acc : K),
      1 ≤ k → k + fuel ≤ p + 1 → a = p.choose (k-1) → coeff = fc^(k-1) →
      innerAdd p prev fc k fuel coeff a acc
        = acc + ∑ j ∈ Ico k (k+fuel), (p.choose j : K) * prev.getD (p-2-j) 0 * fc^j := by
  intro fuel
  induction fuel with
  | zero => intro k coeff a acc _ _ _ _; simp [innerAdd]
  | succ fuel ih =>
    intro k coeff a acc hk hle ha hc
    unfold innerAdd
    have hbin : a * (p - k + 1) / k = p.choose k := by
      have := binom_step p (k-1) (by omega)
      rw [ha]
      have e1 : k - 1 + 1 = k := by omega
      rw [e1] at this
      exact this
    have hco : coeff * fc = fc^k := by
      rw [hc, ← pow_succ]; congr 1; omega
    simp only [hbin, hco]
    rw [ih (k+1) (fc^k) (p.choose k) _ (by omega) (by omega) (by simp) (by simp)]
    rw [Finset.sum_eq_sum_Ico_succ_bot (by omega : k < k + (fuel+1))]
    have : k + 1 + fuel = k + (fuel + 1) := by omega
    rw [this]
    simp only [Nat.cast_zero]
    ring

/-- one outer iteration, as a function of the carried scalars -/
def G (prev : List K) (fc : K) (p : Nat) (t1 t2 cd : K) : K :=
  innerAdd p prev fc 1 (p-2) ((1:Nat):K) 1 (prev.getD (p-2) ((0:Nat):K) + (t1 + t2) * cd)

theorem outerAdd_closed (prev : List K) (delta f1 f2 fc : K) :
    ∀ (fuel p : Nat) (t1 t2 cd : K),
      outerAdd prev delta f1 f2 fc p fuel t1 t2 cd
        = (List.range fuel).map (fun i => G prev fc (p+i) (t1 * f1^(i+1)) (t2 * f2^(i+1)) (cd * delta^(i+1))) := by
  intro fuel
  induction fuel with
  | zero => intro p t1 t2 cd; simp [outerAdd]
  | succ fuel ih =>
    intro p t1 t2 cd
    unfold outerAdd
    rw [List.range_succ_eq_map, List.map_cons, List.map_map]
    simp only [ih]
    congr 1
    · simp [G]
    · apply List.map_congr_left
      intro i _
      simp only [Function.comp]
      have : p + 1 + i = p + (i+1) := by omega
      rw [this]
      congr 1 <;> (simp only [Nat.succ_eq_add_one]; ring)


def canonM (N : Nat) (xs : List K) : Moments K :=
  ⟨xs.length, mean xs, (List.range (N-1)).map (fun j => sumPow xs (mean xs) (j+2))⟩

theorem getD_map_range (m : Nat) (f : Nat → K) (i : Nat) (h : i < m) (d : K) :
    ((List.range m).map f).getD i d = f i := by
  simp [List.getD_eq_getElem?_getD, h]

theorem mean_snoc (xs : List K) (x : K) :
    mean xs + (x - mean xs) / ((xs.length + 1 : Nat) : K) = mean (xs ++ [x]) := by
  have hn : ((xs.length + 1 : Nat) : K) ≠ 0 := Nat.cast_ne_zero.mpr (Nat.succ_ne_zero _)
  by_cases h : xs = []
  · subst h; simp [mean]
  · have h1 : (xs.length : K) ≠ 0 := by simp [h]
    simp only [mean, List.sum_append, List.length_append, List.sum_cons, List.sum_nil, List.length_cons,
      List.length_nil, Nat.cast_add, Nat.cast_one, add_zero, zero_add] at *
    field_simp
    ring

theorem moments_add (N : Nat) (xs : List K) (x : K) :
    (canonM N xs).add N x = canonM N (xs ++ [x]) := by
  unfold Moments.add canonM
  have hn : ((xs.length + 1 : Nat) : K) ≠ 0 := Nat.cast_ne_zero.mpr (Nat.succ_ne_zero _)
  have hmean := mean_snoc xs x
  simp only [List.length_append, List.length_cons, List.length_nil, Nat.zero_add]
  congr 1
  rw [outerAdd_closed]
  apply List.map_congr_left
  intro i hi
  have hi' : i < N - 1 := by simpa using hi
  simp only [G]
  rw [innerAdd_closed (2+i) _ _ (2+i-2) 1 _ 1 _ (le_refl 1) (by omega) (by simp) (by simp)]
  -- name things
  set μ := mean xs with hμ
  set n : K := ((xs.length + 1 : Nat) : K) with hnn
  set δ := x - μ with hδ
  have hμ' : mean (xs ++ [x]) = μ + δ / n := hmean.symm
  rw [hμ', sumPow_append, shift (xs) (μ + δ/n) μ (i+2)]
  have e0 : 2 + i - 2 = i := by omega
  rw [e0]
  rw [getD_map_range _ _ _ hi']
  -- rewrite the inner sum's getD's
  have hsum : ∑ j ∈ Ico 1 (1+i), ((2+i).choose j : K) *
        ((List.range (N-1)).map (fun j => sumPow xs μ (j+2))).getD (i-j) 0 * ((-δ) * (((1:Nat):K) / n))^j
      = ∑ j ∈ Ico 1 (i+1), ((i+2).choose j : K) * (μ - (μ + δ/n))^j * sumPow xs μ (i + 2 - j) := by
    rw [Nat.add_comm 1 i]
    apply Finset.sum_congr rfl
    intro j hj
    rw [Finset.mem_Ico] at hj
    rw [getD_map_range _ _ _ (by omega)]
    have : i - j + 2 = i + 2 - j := by omega
    rw [this, Nat.add_comm 2 i]
    have : (-δ) * (((1:Nat):K) / n) = μ - (μ + δ/n) := by
      simp only [Nat.cast_one]; field_simp; ring
    rw [this]; ring
  rw [hsum]
  -- split the shift sum: range (i+3) = range (i+1) ∪ {i+1} ∪ {i+2}
  rw [Finset.sum_range_succ, Finset.sum_range_succ, Finset.range_eq_Ico,
      Finset.sum_eq_sum_Ico_succ_bot (by omega : 0 < i + 1)]
  have s1 : sumPow xs μ (i + 2 - (i+1)) = 0 := by
    have : i + 2 - (i+1) = 1 := by omega
    rw [this]; exact sumPow_one_mean xs
  have s0 : sumPow xs μ (i + 2 - (i+2)) = (xs.length : K) := by
    have : i + 2 - (i+2) = 0 := by omega
    rw [this]; exact sumPow_zero xs μ
  have hlen : (xs.length : K) = n - 1 := by
    simp [hnn]
  rw [s1, s0, hlen]
  simp only [sumPow_cons, sumPow_nil, Nat.choose_self, Nat.choose_zero_right, Nat.cast_one, pow_zero,
    Nat.sub_zero, zero_add, add_zero, mul_zero, mul_one, one_mul]
  have hx : x - (μ + δ / n) = δ * (n - 1) / n := by
    field_simp; ring
  have hd : μ - (μ + δ / n) = -δ / n := by ring
  rw [hx, hd]
  generalize (∑ j ∈ Ico 1 (i + 1), ((i + 2).choose j : K) * (-δ / n) ^ j * sumPow xs μ (i + 2 - j)) = T
  generalize sumPow xs μ (i + 2) = S
  have p1 : (n - 1) * -(1 / n) * (-(1 / n)) ^ (i + 1) = (n - 1) * (-(1/n))^(i+2) := by ring
  have p2 : (n - 1) * (1 / n) * ((n - 1) * (1 / n)) ^ (i + 1) = ((n-1) * (1/n))^(i+2) := by ring
  have p3 : δ * δ ^ (i + 1) = δ^(i+2) := by ring
  have p4 : (-δ / n) ^ (i + 2) = (-(1/n))^(i+2) * δ^(i+2) := by
    rw [← mul_pow]; congr 1; ring
  have p5 : (δ * (n - 1) / n) ^ (i + 2) = ((n-1) * (1/n))^(i+2) * δ^(i+2) := by
    rw [← mul_pow]; congr 1; ring
  rw [p1, p2, p3, p4, p5]
  ring

end MSpec
#print axioms MSpec.moments_add
