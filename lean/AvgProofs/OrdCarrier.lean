import AvgModel.Basic
import AvgModel.Quantile
import Mathlib.Order.Defs.LinearOrder
import Mathlib.Order.Basic
import Mathlib.Order.Lattice
import Mathlib.Algebra.Order.Floor.Defs
import Mathlib.Data.List.GetD

/-!
# Ordered carriers ("O + order")

`ordFloatOps K ...` is the reading of `FloatOps` over a linear order `K`: the comparisons are the
order's, `fmin`/`fmax` are `min`/`max`; everything else (`nan`, infinities, `sqrt`, `powf`, `ceil`) is
a parameter and `+ - * /` and the casts stay completely arbitrary.

Theorems are stated for *every* `FloatOps K` instance that satisfies the laws `OrdLaws K`; every
`ordFloatOps` instance does (`ordFloatOps_laws`), whatever its parameters.

Also here: `sortBy` by a linear order returns *the* sorted permutation.
-/
open Avg

/-- `FloatOps` over a linear order: comparisons decided by the order, `fmin = min`, `fmax = max`. -/
@[reducible] def ordFloatOps (K : Type) [LinearOrder K] (nanv infv ninfv : K) (sqrtf pow15f : K → K)
    (ceilf : K → Int) : FloatOps K where
  nan := nanv
  posInf := infv
  negInf := ninfv
  sqrt := sqrtf
  pow15 := pow15f
  lt := fun a b => decide (a < b)
  eqb := fun a b => decide (a = b)
  isNaN := fun _ => false
  fmin := min
  fmax := max
  ceilInt := ceilf
  ordLt := fun a b => decide (a < b)

/-- The laws that make a `FloatOps` instance "the order's". -/
class OrdLaws (K : Type) [LinearOrder K] [FloatOps K] : Prop where
  lt_eq : ∀ a b : K, FloatOps.lt a b = decide (a < b)
  eqb_eq : ∀ a b : K, FloatOps.eqb a b = decide (a = b)
  ordLt_eq : ∀ a b : K, FloatOps.ordLt a b = decide (a < b)
  fmin_eq : ∀ a b : K, FloatOps.fmin a b = min a b
  fmax_eq : ∀ a b : K, FloatOps.fmax a b = max a b

theorem ordFloatOps_laws (K : Type) [LinearOrder K] (nanv infv ninfv : K) (sqrtf pow15f : K → K)
    (ceilf : K → Int) : @OrdLaws K _ (ordFloatOps K nanv infv ninfv sqrtf pow15f ceilf) :=
  @OrdLaws.mk K _ (ordFloatOps K nanv infv ninfv sqrtf pow15f ceilf)
    (fun _ _ => rfl) (fun _ _ => rfl) (fun _ _ => rfl) (fun _ _ => rfl) (fun _ _ => rfl)

/-- `ceilInt` is the ceiling of an ordered ring with floor. -/
class CeilLaw (K : Type) [Ring K] [LinearOrder K] [FloorRing K] [FloatOps K] : Prop where
  ceil_eq : ∀ a : K, FloatOps.ceilInt a = ⌈a⌉

theorem ordFloatOps_ceilLaw (K : Type) [Ring K] [LinearOrder K] [FloorRing K] (nanv infv ninfv : K)
    (sqrtf pow15f : K → K) :
    @CeilLaw K _ _ _ (ordFloatOps K nanv infv ninfv sqrtf pow15f (fun x => ⌈x⌉)) :=
  @CeilLaw.mk K _ _ _ (ordFloatOps K nanv infv ninfv sqrtf pow15f (fun x => ⌈x⌉)) (fun _ => rfl)

namespace OrdLaws
variable {K : Type} [LinearOrder K] [FloatOps K] [OrdLaws K]

@[simp] theorem lt_iff (a b : K) : FloatOps.lt a b = true ↔ a < b := by simp [OrdLaws.lt_eq]
@[simp] theorem lt_false_iff (a b : K) : FloatOps.lt a b = false ↔ b ≤ a := by simp [OrdLaws.lt_eq]
@[simp] theorem eqb_iff (a b : K) : FloatOps.eqb a b = true ↔ a = b := by simp [OrdLaws.eqb_eq]

theorem ordLt_fun : (FloatOps.ordLt : K → K → Bool) = fun a b => decide (a < b) := by
  funext a b; exact OrdLaws.ordLt_eq a b

end OrdLaws

section fle
variable {K : Type} [LinearOrder K] [FloatOps K] [OrdLaws K]

@[simp] theorem fle_iff (a b : K) : fle a b = true ↔ a ≤ b := by
  simp [fle, le_iff_lt_or_eq]
end fle

/-! ## `sortBy` -/
section sortBy
variable {β : Type}

theorem insertSorted_perm (lt : β → β → Bool) (x : β) (l : List β) :
    (insertSorted lt x l).Perm (x :: l) := by
  induction l with
  | nil => exact List.Perm.refl _
  | cons y ys ih =>
    unfold insertSorted
    split
    · exact List.Perm.refl _
    · exact (List.Perm.cons y ih).trans (List.Perm.swap x y ys)

/-- `sortBy` returns a permutation of its input, whatever the comparison. -/
theorem sortBy_perm (lt : β → β → Bool) (l : List β) : (sortBy lt l).Perm l := by
  induction l with
  | nil => exact List.Perm.refl _
  | cons x xs ih =>
    exact (insertSorted_perm lt x (sortBy lt xs)).trans (List.Perm.cons x ih)

theorem sortBy_length (lt : β → β → Bool) (l : List β) : (sortBy lt l).length = l.length :=
  (sortBy_perm lt l).length_eq

theorem mem_sortBy (lt : β → β → Bool) (l : List β) (a : β) : a ∈ sortBy lt l ↔ a ∈ l :=
  (sortBy_perm lt l).mem_iff

variable [LinearOrder β]

theorem insertSorted_sorted (x : β) (l : List β) (h : l.Pairwise (· ≤ ·)) :
    (insertSorted (fun a b => decide (a < b)) x l).Pairwise (· ≤ ·) := by
  induction l with
  | nil => simp [insertSorted]
  | cons y ys ih =>
    unfold insertSorted
    have hy := List.pairwise_cons.mp h
    by_cases c : x < y
    · simp only [c, decide_true, if_true]
      refine List.pairwise_cons.mpr ⟨?_, h⟩
      intro a ha
      rcases List.mem_cons.mp ha with rfl | ha
      · exact le_of_lt c
      · exact le_trans (le_of_lt c) (hy.1 a ha)
    · simp only [c, decide_false, Bool.false_eq_true, if_false]
      refine List.pairwise_cons.mpr ⟨?_, ih hy.2⟩
      intro a ha
      rcases List.mem_cons.mp ((insertSorted_perm _ x ys).mem_iff.mp ha) with rfl | ha
      · exact not_lt.mp c
      · exact hy.1 a ha

/-- Over a linear order `sortBy (· < ·)` is non-decreasing. -/
theorem sortBy_sorted (l : List β) : (sortBy (fun a b => decide (a < b)) l).Pairwise (· ≤ ·) := by
  induction l with
  | nil => simp [sortBy]
  | cons x xs ih => exact insertSorted_sorted x _ ih

/-- ... hence it is *the* sorted permutation: any non-decreasing permutation of `l` equals it. -/
theorem sortBy_unique (l s : List β) (hp : s.Perm l) (hs : s.Pairwise (· ≤ ·)) :
    sortBy (fun a b => decide (a < b)) l = s :=
  List.Perm.eq_of_pairwise (fun _ _ _ _ h1 h2 => le_antisymm h1 h2) (sortBy_sorted l) hs
    ((sortBy_perm _ l).trans hp.symm)

theorem sortBy_perm_eq {l₁ l₂ : List β} (h : l₁.Perm l₂) :
    sortBy (fun a b => decide (a < b)) l₁ = sortBy (fun a b => decide (a < b)) l₂ :=
  sortBy_unique l₁ _ ((sortBy_perm _ l₂).trans h.symm) (sortBy_sorted l₂)

theorem sorted_getD_le {l : List β} (hs : l.Pairwise (· ≤ ·)) (d : β) {i j : Nat} (hij : i ≤ j)
    (hj : j < l.length) : l.getD i d ≤ l.getD j d := by
  rcases Nat.lt_or_ge i j with h | h
  · rw [List.getD_eq_getElem l d (by omega), List.getD_eq_getElem l d hj]
    exact List.pairwise_iff_getElem.mp hs i j (by omega) hj h
  · have : i = j := by omega
    rw [this]

/-- `m` is the smallest element of `xs` -/
def IsMinOf (m : β) (xs : List β) : Prop := m ∈ xs ∧ ∀ x ∈ xs, m ≤ x
/-- `m` is the largest element of `xs` -/
def IsMaxOf (m : β) (xs : List β) : Prop := m ∈ xs ∧ ∀ x ∈ xs, x ≤ m

theorem IsMinOf.le_max {a b : β} {xs : List β} (ha : IsMinOf a xs) (hb : IsMaxOf b xs) : a ≤ b :=
  ha.2 b hb.1

theorem IsMinOf.snoc {m : β} {xs : List β} (h : IsMinOf m xs) (y : β) : IsMinOf (min m y) (xs ++ [y]) := by
  constructor
  · rcases min_choice m y with e | e <;> rw [e]
    · exact List.mem_append_left _ h.1
    · exact List.mem_append_right _ (List.mem_singleton.mpr rfl)
  · intro x hx
    rcases List.mem_append.mp hx with hx | hx
    · exact le_trans (min_le_left _ _) (h.2 x hx)
    · rw [List.mem_singleton.mp hx]; exact min_le_right _ _

theorem IsMaxOf.snoc {m : β} {xs : List β} (h : IsMaxOf m xs) (y : β) : IsMaxOf (max m y) (xs ++ [y]) := by
  constructor
  · rcases max_choice m y with e | e <;> rw [e]
    · exact List.mem_append_left _ h.1
    · exact List.mem_append_right _ (List.mem_singleton.mpr rfl)
  · intro x hx
    rcases List.mem_append.mp hx with hx | hx
    · exact le_trans (h.2 x hx) (le_max_left _ _)
    · rw [List.mem_singleton.mp hx]; exact le_max_right _ _

theorem IsMinOf.perm {m : β} {xs ys : List β} (h : IsMinOf m xs) (hp : xs.Perm ys) : IsMinOf m ys :=
  ⟨hp.mem_iff.mp h.1, fun x hx => h.2 x (hp.mem_iff.mpr hx)⟩
theorem IsMaxOf.perm {m : β} {xs ys : List β} (h : IsMaxOf m xs) (hp : xs.Perm ys) : IsMaxOf m ys :=
  ⟨hp.mem_iff.mp h.1, fun x hx => h.2 x (hp.mem_iff.mpr hx)⟩

/-- the first element of a sorted non-empty list is its minimum -/
theorem sorted_head_min {l : List β} (hs : l.Pairwise (· ≤ ·)) (d : β) (hl : 0 < l.length) :
    IsMinOf (l.getD 0 d) l := by
  constructor
  · rw [List.getD_eq_getElem l d hl]; exact List.getElem_mem hl
  · intro x hx
    obtain ⟨j, hj, rfl⟩ := List.mem_iff_getElem.mp hx
    rw [← List.getD_eq_getElem l d hj]
    exact sorted_getD_le hs d (Nat.zero_le j) hj

/-- the last element of a sorted non-empty list is its maximum -/
theorem sorted_last_max {l : List β} (hs : l.Pairwise (· ≤ ·)) (d : β) (hl : 0 < l.length) :
    IsMaxOf (l.getD (l.length - 1) d) l := by
  constructor
  · rw [List.getD_eq_getElem l d (by omega)]; exact List.getElem_mem _
  · intro x hx
    obtain ⟨j, hj, rfl⟩ := List.mem_iff_getElem.mp hx
    rw [← List.getD_eq_getElem l d hj]
    exact sorted_getD_le hs d (by omega) (by omega)

end sortBy
