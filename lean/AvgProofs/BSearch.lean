import Mathlib.Order.Basic
import Mathlib.Tactic.Linarith
import Mathlib.Tactic.Ring

/-! Model of `core::slice::binary_search_by` (branch-free version, Rust ≥ 1.82) and its contract. -/
namespace BS

/-- loop: `while size > 1 { half = size/2; mid = base+half; base = if f mid == Greater {base} else {mid}; size -= half }` -/
def loop (f : Nat → Ordering) (base size : Nat) : Nat :=
  if h : 1 < size then
    let half := size / 2
    let mid := base + half
    loop f (if f mid = .gt then base else mid) (size - half)
  else base
termination_by size
decreasing_by omega

inductive Res | ok (i : Nat) | err (i : Nat)
deriving DecidableEq, Repr

def search (len : Nat) (f : Nat → Ordering) : Res :=
  if len = 0 then .err 0 else
  let base := loop f 0 len
  match f base with
  | .eq => .ok base
  | .lt => .err (base + 1)
  | .gt => .err base

/-- `f i` = cmp(a[i], x) for a sorted slice: all Less, then all Equal, then all Greater. -/
def Sorted (len : Nat) (f : Nat → Ordering) : Prop :=
  ∀ i j, i ≤ j → j < len → (f i = .gt → f j = .gt) ∧ (f j = .lt → f i = .lt)

theorem loop_spec (len : Nat) (f : Nat → Ordering) (hs : Sorted len f) :
    ∀ size base, 1 ≤ size → base + size ≤ len →
      (base = 0 ∨ f base ≠ .gt) → (∀ j, base + size ≤ j → j < len → f j = .gt) →
      let b := loop f base size
      b < len ∧ (b = 0 ∨ f b ≠ .gt) ∧ (∀ j, b < j → j < len → f j = .gt) := by
  intro size
  induction size using Nat.strong_induction_on with
  | _ size ih =>
    intro base h1 hlen hb hgt
    unfold loop
    by_cases hsz : 1 < size
    · simp only [hsz, dite_true]
      have hhalf : 1 ≤ size / 2 := by omega
      have hlt : size - size / 2 < size := by omega
      by_cases hm : f (base + size / 2) = .gt
      · simp only [hm, if_true]
        apply ih (size - size / 2) hlt base (by omega) (by omega) hb
        intro j hj hjl
        exact (hs (base + size/2) j (by omega) hjl).1 hm
      · simp only [hm, if_false]
        apply ih (size - size / 2) hlt (base + size/2) (by omega) (by omega) (Or.inr hm)
        intro j hj hjl
        exact hgt j (by omega) hjl
    · simp only [hsz, dite_false]
      have : size = 1 := by omega
      subst this
      exact ⟨by omega, hb, fun j hj hjl => hgt j (by omega) hjl⟩

/-- Contract: `Ok i` is the LAST index comparing Equal; `Err i` is the partition point. -/
theorem search_spec (len : Nat) (f : Nat → Ordering) (hs : Sorted len f) :
    match search len f with
    | .ok i => i < len ∧ f i = .eq ∧ ∀ j, i < j → j < len → f j = .gt
    | .err i => i ≤ len ∧ (∀ j, j < i → f j = .lt) ∧ (∀ j, i ≤ j → j < len → f j = .gt) := by
  unfold search
  by_cases h0 : len = 0
  · simp [h0]
  · simp only [h0, if_false]
    have := loop_spec len f hs len 0 (by omega) (by omega) (Or.inl rfl) (by intro j hj hjl; omega)
    obtain ⟨hb, hz, hgt⟩ := this
    generalize loop f 0 len = b at *
    cases hfb : f b with
    | eq => exact ⟨hb, hfb, hgt⟩
    | lt =>
      refine ⟨by omega, ?_, fun j hj hjl => hgt j (by omega) hjl⟩
      intro j hj
      exact (hs j b (by omega) hb).2 hfb
    | gt =>
      rcases hz with rfl | hne
      · refine ⟨by omega, by intro j hj; omega, ?_⟩
        intro j _ hjl
        exact (hs 0 j (by omega) hjl).1 hfb
      · exact absurd hfb hne
end BS
#print axioms BS.search_spec
