import AvgProofs.SpecBasic
import Mathlib.Data.Nat.Choose.Sum
import Mathlib.Algebra.BigOperators.Ring.Finset

open Finset
namespace MSpec
variable {K : Type} [Field K] [CharZero K]

theorem list_sum_map_finset_sum {ι : Type} (xs : List K) (s : Finset ι) (f : K → ι → K) :
    (xs.map (fun x => ∑ i ∈ s, f x i)).sum = ∑ i ∈ s, (xs.map (fun x => f x i)).sum := by
  induction xs with
  | nil => simp
  | cons x xs ih => simp [ih, Finset.sum_add_distrib]

/-- General binomial shift lemma: Σ(x-c)^p in terms of Σ(x-d)^j. -/
theorem shift (xs : List K) (c d : K) (p : Nat) :
    sumPow xs c p = ∑ k ∈ range (p+1), (p.choose k : K) * (d - c)^k * sumPow xs d (p - k) := by
  unfold sumPow
  have : ∀ x : K, (x - c)^p = ∑ k ∈ range (p+1), (p.choose k : K) * (d - c)^k * (x - d)^(p-k) := by
    intro x
    have h : x - c = (d - c) + (x - d) := by ring
    rw [h, add_pow]
    apply Finset.sum_congr rfl
    intro k _; ring
  simp_rw [this]
  rw [list_sum_map_finset_sum]
  apply Finset.sum_congr rfl
  intro k _
  rw [← List.sum_map_mul_left]

/-- The crate's IterBinomial recurrence is exact on the range the iterator visits. -/
theorem binom_step (n k : Nat) (h : k + 1 ≤ n) : n.choose k * (n - (k+1) + 1) / (k+1) = n.choose (k+1) := by
  have : n - (k+1) + 1 = n - k := by omega
  rw [this, ← Nat.choose_succ_right_eq]
  exact Nat.mul_div_cancel _ (Nat.succ_pos k)
end MSpec
#print axioms MSpec.shift
#print axioms MSpec.binom_step
