import Mathlib.Tactic.Positivity
import Mathlib.Tactic.Linarith
import Mathlib.Tactic.Ring
import Mathlib.Tactic.FieldSimp
import Mathlib.Tactic.GCongr
import Mathlib.Tactic.NormNum
import Mathlib.Algebra.Order.Field.Basic
import Mathlib.Algebra.Order.AbsoluteValue.Basic

/-!
# The square-root-free invariant of the merge-tree induction and its super-additivity

`VarMerge.G u B Λ κ n T = (19/2)·u·n·T + (4/5)·Λ·n·T + (4/5)·κ·n² + (2/5)·B²·n³` with two free parameters
`Λ, κ ≥ 0`, `B² ≤ Λ·κ` (`B` = per-observation error budget of the mean). Minimising over `Λ, κ` gives
`(8/5)·B·n·sqrt(n·T)`: the invariant is the square-root-free form of a bound linear in `sqrt(n·T)`
(`Λ = B·n/R₀`, `κ = B·R₀/n` for `n·T ≤ R₀²`).

* `VarMerge.superadd`: `G(n_x,T_x) + G(n_y,T_y) + (errors committed by one merge) ≤ G(n_x+n_y, T_x+T_y+C)`,
  for the *same* `Λ, κ` - what makes the induction over an arbitrary merge tree go through:
  `n·T - n_x·T_x - n_y·T_y = n_y·T_x + n_x·T_y + n·C ≥ T + C` pays for the relative errors, and
  `(4/5)·Λ·n·C + (8/5)·κ·n_x·n_y ≥ 2(1+η)·B·|μ_y-μ_x|·n_x·n_y` (AM-GM, `n·C = (μ_y-μ_x)²·n_x·n_y`) for the
  perturbation of the cross term by the errors of the two means.
* `VarMerge.leaf_R`, `VarMerge.leaf_arith`: the add-only bound of `VarErr.var_fold_error_cs` is below `G`.
-/
variable {K : Type} [Field K] [LinearOrder K] [IsStrictOrderedRing K]

namespace VarMerge

/-- the first-order envelope carried through the merge tree -/
def G (u B Λ κ n Tn : K) : K :=
  19/2 * u * n * Tn + 4/5 * Λ * n * Tn + 4/5 * κ * n^2 + 2/5 * B^2 * n^3

theorem G_nonneg (u B Λ κ n Tn : K) (hu : 0 ≤ u) (hΛ : 0 ≤ Λ) (hκ : 0 ≤ κ) (hn : 0 ≤ n) (hT : 0 ≤ Tn) :
    0 ≤ G u B Λ κ n Tn := by
  unfold G; positivity

/-- AM-GM in the form used by the merge step -/
theorem amgm (Λ κ B D η : K) (hΛ : 0 ≤ Λ) (hκ : 0 ≤ κ)
    (hη : (1 + η)^2 ≤ 32/25) (hΛκ : B^2 ≤ Λ * κ) :
    2 * (1 + η) * B * D ≤ 4/5 * Λ * D^2 + 8/5 * κ := by
  rcases hΛ.eq_or_lt with h0 | hpos
  · have hB0 : B = 0 := by
      rw [← h0, zero_mul] at hΛκ
      exact pow_eq_zero_iff (two_ne_zero) |>.mp (le_antisymm hΛκ (sq_nonneg B))
    rw [hB0, ← h0]
    have : 0 ≤ 8/5 * κ := by positivity
    simpa using this
  · have h1 : (1 + η)^2 * B^2 ≤ 32/25 * (Λ * κ) := by
      calc (1 + η)^2 * B^2 ≤ 32/25 * B^2 := by gcongr
        _ ≤ 32/25 * (Λ * κ) := by gcongr
    have key : 0 ≤ (4/5 * Λ) * (4/5 * Λ * D^2 + 8/5 * κ - 2 * (1 + η) * B * D) := by
      nlinarith [sq_nonneg (4/5 * Λ * D - (1 + η) * B)]
    by_contra h
    rw [not_le] at h
    have : (4/5 * Λ) * (4/5 * Λ * D^2 + 8/5 * κ - 2 * (1 + η) * B * D) < 0 :=
      mul_neg_of_pos_of_neg (by positivity) (by linarith)
    linarith

/-- **Super-additivity of the envelope under one merge.** `q·(n_x+n_y) = n_x·n_y`, `C = d²·q` the exact
cross term, `ε = B·(n_x+n_y)` the error of the difference of the computed means, `η` the relative error of
the computed cross term. -/
theorem superadd (u B Λ κ η nx ny Tx Ty d q : K) (hu : 0 ≤ u) (hΛ : 0 ≤ Λ) (hκ : 0 ≤ κ)
    (hΛκ : B^2 ≤ Λ * κ) (hη0 : 0 ≤ η) (hηu : η ≤ 15/2 * u) (hη2 : (1 + η)^2 ≤ 32/25)
    (hnx : 1 ≤ nx) (hny : 1 ≤ ny) (hTx : 0 ≤ Tx) (hTy : 0 ≤ Ty)
    (hq0 : 0 ≤ q) (hq : q * (nx + ny) = nx * ny) :
    G u B Λ κ nx Tx + G u B Λ κ ny Ty + η * (d^2 * q)
        + (1 + η) * ((2 * (B * (nx + ny)) * |d| + (B * (nx + ny))^2) * q)
        + 2 * u * (Tx + Ty + d^2 * q)
      ≤ G u B Λ κ (nx + ny) (Tx + Ty + d^2 * q) := by
  set D := |d| with hD
  have hD0 : 0 ≤ D := abs_nonneg _
  have hd2 : d^2 = D^2 := (sq_abs d).symm
  rw [hd2]
  set C := D^2 * q with hC
  have hC0 : 0 ≤ C := by positivity
  have hnx0 : 0 ≤ nx := by linarith
  have hny0 : 0 ≤ ny := by linarith
  have hη1 : 1 + η ≤ 6/5 := by nlinarith
  have hid : G u B Λ κ (nx + ny) (Tx + Ty + C) - G u B Λ κ nx Tx - G u B Λ κ ny Ty
      = (19/2 * u + 4/5 * Λ) * (ny * Tx + nx * Ty + (nx + ny) * C) + 8/5 * κ * (nx * ny)
        + 6/5 * B^2 * (nx * ny * (nx + ny)) := by
    unfold G; ring
  have hnC : (nx + ny) * C = D^2 * (nx * ny) := by
    rw [hC, ← hq]; ring
  have b1 : 2 * u * (Tx + Ty + C) + η * C ≤ 19/2 * u * (ny * Tx + nx * Ty + (nx + ny) * C) := by
    have h1 : u * Tx ≤ u * (ny * Tx) := by
      have : Tx ≤ ny * Tx := by nlinarith
      gcongr
    have h2 : u * Ty ≤ u * (nx * Ty) := by
      have : Ty ≤ nx * Ty := by nlinarith
      gcongr
    have h3 : u * (2 * C) ≤ u * ((nx + ny) * C) := by
      have : 2 * C ≤ (nx + ny) * C := by nlinarith
      gcongr
    have h4 : η * C ≤ 15/2 * u * C := by gcongr
    have h5 : 0 ≤ u * Tx := by positivity
    have h6 : 0 ≤ u * Ty := by positivity
    have h7 : 0 ≤ u * C := by positivity
    linarith
  have b2 : 0 ≤ 4/5 * Λ * (ny * Tx + nx * Ty) := by positivity
  have b3 : (1 + η) * (2 * (B * (nx + ny)) * D * q)
      ≤ 4/5 * Λ * ((nx + ny) * C) + 8/5 * κ * (nx * ny) := by
    have h := amgm Λ κ B D η hΛ hκ hη2 hΛκ
    have e1 : (1 + η) * (2 * (B * (nx + ny)) * D * q) = (2 * (1 + η) * B * D) * (nx * ny) := by
      rw [← hq]; ring
    have e2 : 4/5 * Λ * ((nx + ny) * C) + 8/5 * κ * (nx * ny)
        = (4/5 * Λ * D^2 + 8/5 * κ) * (nx * ny) := by rw [hnC]; ring
    rw [e1, e2]
    have : 0 ≤ nx * ny := by positivity
    gcongr
  have b4 : (1 + η) * ((B * (nx + ny))^2 * q) ≤ 6/5 * B^2 * (nx * ny * (nx + ny)) := by
    have e1 : (B * (nx + ny))^2 * q = B^2 * (nx * ny * (nx + ny)) := by
      rw [← hq]; ring
    rw [e1]
    have : 0 ≤ B^2 * (nx * ny * (nx + ny)) := by positivity
    calc (1 + η) * (B^2 * (nx * ny * (nx + ny))) ≤ 6/5 * (B^2 * (nx * ny * (nx + ny))) := by gcongr
      _ = 6/5 * B^2 * (nx * ny * (nx + ny)) := by ring
  have e3 : (1 + η) * ((2 * (B * (nx + ny)) * D + (B * (nx + ny))^2) * q)
      = (1 + η) * (2 * (B * (nx + ny)) * D * q) + (1 + η) * ((B * (nx + ny))^2 * q) := by ring
  have e4 : (19/2 * u + 4/5 * Λ) * (ny * Tx + nx * Ty + (nx + ny) * C)
      = 19/2 * u * (ny * Tx + nx * Ty + (nx + ny) * C) + 4/5 * Λ * (ny * Tx + nx * Ty)
        + 4/5 * Λ * ((nx + ny) * C) := by ring
  rw [e3]
  rw [e4] at hid
  linarith

/-- the choice of `R` in `VarErr.var_fold_error_cs` that turns the add-only bound into the envelope -/
theorem leaf_R (Λ κ B n Tn g : K) (hΛ : 0 ≤ Λ) (hκ : 0 ≤ κ) (hn : 0 ≤ n) (hT : 0 ≤ Tn)
    (hg0 : 0 ≤ g) (hg : (1 + g)^2 ≤ 48/25) (hΛκ : B^2 ≤ Λ * κ) :
    let R := (4/5 * Λ * n * Tn + 4/5 * κ * n^2) / (2 * (1 + g))
    0 ≤ R ∧ B^2 * (n^3 / 3) * Tn ≤ R^2 ∧ (1 + g) * (2 * R) = 4/5 * Λ * n * Tn + 4/5 * κ * n^2 := by
  intro R
  have hg1 : 0 < 2 * (1 + g) := by positivity
  refine ⟨by positivity, ?_, ?_⟩
  · simp only [R]
    rw [div_pow, le_div_iff₀ (by positivity)]
    set X := 4/5 * Λ * n * Tn with hX
    set Y := 4/5 * κ * n^2 with hY
    have hn3 : 0 ≤ n^3 * Tn := by positivity
    have h1 : B^2 * (n^3 / 3) * Tn * (2 * (1 + g))^2 = 4/3 * ((1 + g)^2 * (B^2 * (n^3 * Tn))) := by ring
    have h2 : (1 + g)^2 * (B^2 * (n^3 * Tn)) ≤ 48/25 * ((Λ * κ) * (n^3 * Tn)) := by
      have : 0 ≤ B^2 * (n^3 * Tn) := by positivity
      calc (1 + g)^2 * (B^2 * (n^3 * Tn)) ≤ 48/25 * (B^2 * (n^3 * Tn)) := by gcongr
        _ ≤ 48/25 * ((Λ * κ) * (n^3 * Tn)) := by gcongr
    have h3 : 4 * (X * Y) = 4/3 * (48/25 * ((Λ * κ) * (n^3 * Tn))) := by rw [hX, hY]; ring
    have h4 : 4 * (X * Y) ≤ (X + Y)^2 := by nlinarith [sq_nonneg (X - Y)]
    rw [h1]; linarith
  · simp only [R]; field_simp

/-- the add-only bound with that `R` is below the envelope -/
theorem leaf_arith (u γ B Λ κ n Tn : K) (hu : 0 ≤ u) (hn : 1 ≤ n) (hT : 0 ≤ Tn)
    (hγ : γ ≤ 17/2 * u) (hγ1 : 1 + γ ≤ 6/5) :
    (γ + n * u) * Tn + (4/5 * Λ * n * Tn + 4/5 * κ * n^2 + (1 + γ) * (B^2 * (n^3 / 3)))
      ≤ G u B Λ κ n Tn := by
  unfold G
  have hn0 : 0 ≤ n := by linarith
  have h1 : (γ + n * u) * Tn ≤ (19/2 * u * n) * Tn := by
    have : u ≤ n * u := by nlinarith
    gcongr; linarith
  have h2 : (1 + γ) * (B^2 * (n^3 / 3)) ≤ 6/5 * (B^2 * (n^3 / 3)) := by
    have : 0 ≤ B^2 * (n^3 / 3) := by positivity
    gcongr
  linarith

/-- the factors `(1+u)` of the two rounded additions of a merge and the two relative terms `u·T` are
absorbed by the growth `(1+u)²` of the leading factor -/
theorem merge_absorb (u Pm Ex Ey Gx Gy X TyC Tt Gn : K) (hu : 0 ≤ u) (hPm : 1 ≤ Pm)
    (hEx : Ex ≤ Pm * Gx) (hEy : Ey ≤ Pm * Gy) (hX : 0 ≤ X) (hTyC0 : 0 ≤ TyC) (hTyC : TyC ≤ Tt)
    (hsup : Gx + Gy + X + 2 * u * Tt ≤ Gn) :
    (1 + u)^2 * (Ex + Ey + X) + (1 + u) * u * TyC + u * Tt ≤ (1 + u)^2 * Pm * Gn := by
  have hT : 0 ≤ Tt := le_trans hTyC0 hTyC
  have hP0 : 0 ≤ Pm := by linarith
  have hX' : X ≤ Pm * X := by nlinarith
  have h1 : (1 + u)^2 * (Ex + Ey + X) ≤ (1 + u)^2 * (Pm * Gx + Pm * Gy + Pm * X) := by
    gcongr
  have h2 : (1 + u) * u * TyC ≤ (1 + u)^2 * (u * Tt) := by
    have : (1 + u) ≤ (1 + u)^2 := by nlinarith
    calc (1 + u) * u * TyC = (1 + u) * (u * TyC) := by ring
      _ ≤ (1 + u)^2 * (u * Tt) := by gcongr
  have h3 : u * Tt ≤ (1 + u)^2 * (u * Tt) := by
    have : (1:K) ≤ (1 + u)^2 := by nlinarith
    have h0 : 0 ≤ u * Tt := by positivity
    nlinarith
  have h4 : (1 + u)^2 * (2 * u * Tt) ≤ (1 + u)^2 * (Pm * (2 * u * Tt)) := by
    have h0 : 0 ≤ 2 * u * Tt := by positivity
    have : 2 * u * Tt ≤ Pm * (2 * u * Tt) := by nlinarith
    gcongr
  have h5 : (1 + u)^2 * (Pm * (Gx + Gy + X + 2 * u * Tt)) ≤ (1 + u)^2 * (Pm * Gn) := by
    gcongr
  calc (1 + u)^2 * (Ex + Ey + X) + (1 + u) * u * TyC + u * Tt
      ≤ (1 + u)^2 * (Pm * Gx + Pm * Gy + Pm * X) + (1 + u)^2 * (Pm * (2 * u * Tt)) := by
        have e : (1 + u)^2 * (2 * u * Tt) = (1 + u)^2 * (u * Tt) + (1 + u)^2 * (u * Tt) := by ring
        linarith
    _ = (1 + u)^2 * (Pm * (Gx + Gy + X + 2 * u * Tt)) := by ring
    _ ≤ (1 + u)^2 * (Pm * Gn) := h5
    _ = (1 + u)^2 * Pm * Gn := by ring

/-- the whole arithmetic of the node case of the tree induction: `kx, ky ≥ 1` the two counts -/
theorem node_arith (u B Λ κ η Tx Ty d q Ex Ey : K) (kx ky : ℕ) (hkx : 1 ≤ kx) (hky : 1 ≤ ky)
    (hu : 0 ≤ u) (hΛ : 0 ≤ Λ) (hκ : 0 ≤ κ) (hB : 0 ≤ B)
    (hΛκ : B^2 ≤ Λ * κ) (hη0 : 0 ≤ η) (hηu : η ≤ 15/2 * u) (hη2 : (1 + η)^2 ≤ 32/25)
    (hTx : 0 ≤ Tx) (hTy : 0 ≤ Ty) (hq0 : 0 ≤ q) (hq : q * ((kx : K) + (ky : K)) = (kx : K) * (ky : K))
    (hEx : Ex ≤ (1 + u)^(2 * kx) * G u B Λ κ (kx : K) Tx)
    (hEy : Ey ≤ (1 + u)^(2 * ky) * G u B Λ κ (ky : K) Ty) :
    (1 + u)^2 * (Ex + Ey + η * (d^2 * q)
          + (1 + η) * ((2 * (B * ((kx : K) + (ky : K))) * |d| + (B * ((kx : K) + (ky : K)))^2) * q))
        + (1 + u) * u * (Ty + d^2 * q) + u * (Tx + Ty + d^2 * q)
      ≤ (1 + u)^(2 * (kx + ky)) * G u B Λ κ ((kx : K) + (ky : K)) (Tx + Ty + d^2 * q) := by
  have hnx1 : (1 : K) ≤ kx := by exact_mod_cast hkx
  have hny1 : (1 : K) ≤ ky := by exact_mod_cast hky
  have hnx0 : (0 : K) ≤ kx := Nat.cast_nonneg _
  have hny0 : (0 : K) ≤ ky := Nat.cast_nonneg _
  have hC0 : 0 ≤ d^2 * q := by positivity
  have hsup := superadd u B Λ κ η kx ky Tx Ty d q hu hΛ hκ hΛκ hη0 hηu hη2
    hnx1 hny1 hTx hTy hq0 hq
  set Pm := (1 + u)^(2 * (kx + ky) - 2) with hPm
  have hPm1 : 1 ≤ Pm := one_le_pow₀ (by linarith)
  have hPl : (1 + u)^(2 * kx) ≤ Pm := pow_le_pow_right₀ (by linarith) (by omega)
  have hPr : (1 + u)^(2 * ky) ≤ Pm := pow_le_pow_right₀ (by linarith) (by omega)
  have hGx0 : 0 ≤ G u B Λ κ kx Tx := G_nonneg _ _ _ _ _ _ hu hΛ hκ hnx0 hTx
  have hGy0 : 0 ≤ G u B Λ κ ky Ty := G_nonneg _ _ _ _ _ _ hu hΛ hκ hny0 hTy
  have hEx' : Ex ≤ Pm * G u B Λ κ kx Tx := by
    refine le_trans hEx ?_; gcongr
  have hEy' : Ey ≤ Pm * G u B Λ κ ky Ty := by
    refine le_trans hEy ?_; gcongr
  have hX0 : 0 ≤ η * (d^2 * q)
      + (1 + η) * ((2 * (B * ((kx : K) + (ky : K))) * |d| + (B * ((kx : K) + (ky : K)))^2) * q) := by
    positivity
  have habs := merge_absorb u Pm Ex Ey (G u B Λ κ kx Tx) (G u B Λ κ ky Ty)
    (η * (d^2 * q)
      + (1 + η) * ((2 * (B * ((kx : K) + (ky : K))) * |d| + (B * ((kx : K) + (ky : K)))^2) * q))
    (Ty + d^2 * q) (Tx + Ty + d^2 * q) (G u B Λ κ ((kx : K) + (ky : K)) (Tx + Ty + d^2 * q))
    hu hPm1 hEx' hEy' hX0 (by linarith) (by linarith) (by linarith)
  have hpow : (1 + u)^2 * Pm = (1 + u)^(2 * (kx + ky)) := by
    rw [hPm, ← pow_add]; congr 1; omega
  rw [← hpow]
  refine le_trans (le_of_eq ?_) habs
  ring

end VarMerge

#print axioms VarMerge.superadd
#print axioms VarMerge.leaf_R
