import AvgModel.Basic
import Mathlib.Analysis.SpecialFunctions.Pow.Real
import Mathlib.Analysis.SpecialFunctions.Sqrt
import Mathlib.Algebra.Order.Floor.Defs
import Mathlib.Algebra.Order.Floor.Ring

/-! `FloatOps` for ordered fields and for `ℝ`: the exact reading of the non-arithmetic operations.
`nan` and the infinities are arbitrary elements: theorems guard the branches that return them. -/
open Avg

/-- exact reading over ℝ: `sqrt`, `x^1.5`, order, `ceil` are the real ones -/
noncomputable instance realFloatOps : FloatOps ℝ where
  nan := 0
  posInf := 0
  negInf := 0
  sqrt := Real.sqrt
  pow15 := fun x => x ^ ((3:ℝ)/2)
  lt := fun a b => decide (a < b)
  eqb := fun a b => decide (a = b)
  isNaN := fun _ => false
  fmin := min
  fmax := max
  ceilInt := fun x => ⌈x⌉
  ordLt := fun a b => decide (a < b)
