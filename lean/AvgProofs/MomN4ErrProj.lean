import AvgProofs.MomNErrProj

/-!
# The fourth-order entry `m[2]` of `define_moments!`: what `add` computes

`Moments.add N s x` (`N ≥ 4`) updates `m[2]` in the iteration `p = 4` of the outer loop. Before the inner loop
`t1 = term1·f1·f1·f1`, `t2 = term2·f2·f2·f2`, `cd = delta·delta·delta·delta` (each built up multiplicatively
over the iterations `p = 2, 3, 4`) and `mp = m2 + (t1 + t2)·cd`. The inner loop `for k in 1..3` runs twice:
* `k = 1`: `coeff = 1·fc`, binomial `C(4,1) = 4`, reads `m[1]`: `mp += (4·m1)·coeff`;
* `k = 2`: `coeff = (1·fc)·fc`, binomial `C(4,2) = 4·3/2 = 6`, reads `m[0]`: `mp += (6·m0)·coeff`.
Hence

`m2' = ((m2 + (t1 + t2)·(δ·δ·δ·δ)) + (4·m1)·(1·fc)) + (6·m0)·((1·fc)·fc)`

with `over_n = 1/n`, `term1 = (n-1)·(-over_n)`, `f1 = -over_n`, `term2 = f2 = (n-1)·over_n`,
`δ = x - avg`, `fc = (-δ)·over_n`, `n` the new count, `m0`, `m1`, `m2` the entries BEFORE the observation.

* `Moments.add_m2` - any carrier, bit for bit, every `N ≥ 4` (the entry does not depend on `N`).
* `moments_m2_add_val` - at `RF2 r` with exact negation, rounding by rounding.
-/
open Avg

namespace Avg
section anyCarrier
variable {α : Type} [Add α] [Sub α] [Mul α] [Div α] [Neg α] [NatCast α]

/-- the fourth-order entry `m[2] = Σ(x - avg)⁴` of a `define_moments!` state (`0` if `N < 4`) -/
def Moments.m2 (s : Moments α) : α := s.m.getD 2 ((0:Nat):α)

/-- **What `add` does to `m[2]`, any carrier, bit for bit**: for every order `N ≥ 4`, whatever default `d`
the entry is read with. -/
theorem Moments.add_m2 (N : Nat) (hN : 4 ≤ N) (s : Moments α) (x d : α) :
    (Moments.add N s x).m.getD 2 d =
      ((s.m2 + ((((s.n + 1 : Nat) : α) - ((1:Nat):α)) * (-(((1:Nat):α) / ((s.n + 1 : Nat) : α)))
                  * (-(((1:Nat):α) / ((s.n + 1 : Nat) : α)))
                  * (-(((1:Nat):α) / ((s.n + 1 : Nat) : α)))
                  * (-(((1:Nat):α) / ((s.n + 1 : Nat) : α)))
                + ((((s.n + 1 : Nat) : α) - ((1:Nat):α)) * (((1:Nat):α) / ((s.n + 1 : Nat) : α)))
                  * ((((s.n + 1 : Nat) : α) - ((1:Nat):α)) * (((1:Nat):α) / ((s.n + 1 : Nat) : α)))
                  * ((((s.n + 1 : Nat) : α) - ((1:Nat):α)) * (((1:Nat):α) / ((s.n + 1 : Nat) : α)))
                  * ((((s.n + 1 : Nat) : α) - ((1:Nat):α)) * (((1:Nat):α) / ((s.n + 1 : Nat) : α))))
              * ((x - s.avg) * (x - s.avg) * (x - s.avg) * (x - s.avg)))
        + ((4:Nat):α) * s.m1
            * (((1:Nat):α) * ((-(x - s.avg)) * (((1:Nat):α) / ((s.n + 1 : Nat) : α)))))
        + ((6:Nat):α) * s.m0
            * (((1:Nat):α) * ((-(x - s.avg)) * (((1:Nat):α) / ((s.n + 1 : Nat) : α)))
                * ((-(x - s.avg)) * (((1:Nat):α) / ((s.n + 1 : Nat) : α)))) := by
  obtain ⟨k, rfl⟩ : ∃ k, N = k + 4 := ⟨N - 4, by omega⟩
  rfl

/-- the entries `m[0]`, `m[1]`, `m[2]` after an `add` are the same for every order `N ≥ 4` -/
theorem Moments.add_m012_indep (N N' : Nat) (hN : 4 ≤ N) (hN' : 4 ≤ N') (s s' : Moments α) (x d : α)
    (hn : s.n = s'.n) (ha : s.avg = s'.avg) (h0 : s.m0 = s'.m0) (h1 : s.m1 = s'.m1)
    (h2 : s.m2 = s'.m2) :
    (Moments.add N s x).m.getD 0 d = (Moments.add N' s' x).m.getD 0 d
    ∧ (Moments.add N s x).m.getD 1 d = (Moments.add N' s' x).m.getD 1 d
    ∧ (Moments.add N s x).m.getD 2 d = (Moments.add N' s' x).m.getD 2 d := by
  refine ⟨?_, ?_, ?_⟩
  · rw [Moments.add_m0 N (by omega), Moments.add_m0 N' (by omega), hn, ha, h0]
  · rw [Moments.add_m1 N (by omega), Moments.add_m1 N' (by omega), hn, ha, h0, h1]
  · rw [Moments.add_m2 N hN, Moments.add_m2 N' hN', hn, ha, h0, h1, h2]

/-- reading `m[2]` of a state produced by `add` (`N ≥ 4`) does not depend on the default -/
theorem Moments.add_getD_m2 (N : Nat) (hN : 4 ≤ N) (s : Moments α) (x d : α) :
    (Moments.add N s x).m.getD 2 d = (Moments.add N s x).m2 := by
  rw [Moments.m2, Moments.add_m2 N hN, Moments.add_m2 N hN]

omit [Add α] [Sub α] [Mul α] [Div α] [Neg α] in
theorem Moments.new_m2 (N : Nat) : (Moments.new N : Moments α).m2 = ((0:Nat):α) := by
  unfold Moments.m2 Moments.new
  rcases h : N - 1 with _ | _ | _ | k
  · rfl
  · rfl
  · rfl
  · rfl

/-- after any add-only stream the count, the mean and the entries `m[0]`, `m[1]`, `m[2]` are the same for
every order `N ≥ 4`, bit for bit -/
theorem Moments.fold_m012_indep (N N' : Nat) (hN : 4 ≤ N) (hN' : 4 ≤ N') (xs : List α) :
    (xs.foldl (Moments.add N) (Moments.new N)).n = (xs.foldl (Moments.add N') (Moments.new N')).n
    ∧ (xs.foldl (Moments.add N) (Moments.new N)).avg = (xs.foldl (Moments.add N') (Moments.new N')).avg
    ∧ (xs.foldl (Moments.add N) (Moments.new N)).m0 = (xs.foldl (Moments.add N') (Moments.new N')).m0
    ∧ (xs.foldl (Moments.add N) (Moments.new N)).m1 = (xs.foldl (Moments.add N') (Moments.new N')).m1
    ∧ (xs.foldl (Moments.add N) (Moments.new N)).m2
        = (xs.foldl (Moments.add N') (Moments.new N')).m2 := by
  induction xs using List.reverseRecOn with
  | nil =>
    refine ⟨rfl, rfl, ?_, ?_, ?_⟩
    · rw [List.foldl_nil, List.foldl_nil, Moments.new_m0, Moments.new_m0]
    · rw [List.foldl_nil, List.foldl_nil, Moments.new_m1, Moments.new_m1]
    · rw [List.foldl_nil, List.foldl_nil, Moments.new_m2, Moments.new_m2]
  | append_singleton xs x ih =>
    obtain ⟨hn, ha, h0, h1, h2⟩ := ih
    simp only [List.foldl_append, List.foldl_cons, List.foldl_nil]
    set s := xs.foldl (Moments.add N) (Moments.new N)
    set s' := xs.foldl (Moments.add N') (Moments.new N')
    have h := Moments.add_m012_indep N N' hN hN' s s' x ((0:Nat):α) hn ha h0 h1 h2
    refine ⟨?_, ?_, h.1, h.2.1, h.2.2⟩
    · show s.n + 1 = s'.n + 1
      rw [hn]
    · show s.avg + (x - s.avg) / ((s.n + 1 : Nat) : α) = s'.avg + (x - s'.avg) / ((s'.n + 1 : Nat) : α)
      rw [hn, ha]

end anyCarrier
end Avg

variable {K : Type} [Field K] [LinearOrder K] [IsStrictOrderedRing K]

/-- **What `add` computes for `m[2]` at the carrier `RF2 r`**, rounding by rounding (`k` the new count,
`a` the mean, `m0`, `m1`, `m2` the entries before the observation): with `on = fl(1/k)`, `km = fl(k-1)`,
`δ = fl(x-a)`, `w = fl(km·on)`, `fc = fl((-δ)·on)`,
`t1 = fl(fl(fl(fl(km·(-on))·(-on))·(-on))·(-on))`, `t2 = fl(fl(fl(w·w)·w)·w)`, `cd = fl(fl(fl(δ·δ)·δ)·δ)`,
`m2' = fl( fl( fl(m2 + fl(fl(t1 + t2)·cd)) + fl(fl(4·m1)·fl(1·fc)) ) + fl(fl(6·m0)·fl(fl(1·fc)·fc)) )`. -/
theorem moments_m2_add_val (r : Rnd2 K) [Neg (RF2 r)] (hneg : NegExact r) (N : Nat) (hN : 4 ≤ N)
    (s : Moments (RF2 r)) (x : RF2 r) :
    (Moments.add N s x).m2.val =
      r.fl (r.fl (r.fl (s.m2.val +
          r.fl (r.fl (r.fl (r.fl (r.fl (r.fl (r.fl (((s.n + 1 : ℕ) : K) - 1)
                              * -(r.fl (1 / ((s.n + 1 : ℕ) : K))))
                            * -(r.fl (1 / ((s.n + 1 : ℕ) : K))))
                          * -(r.fl (1 / ((s.n + 1 : ℕ) : K))))
                        * -(r.fl (1 / ((s.n + 1 : ℕ) : K))))
                    + r.fl (r.fl (r.fl (r.fl (r.fl (((s.n + 1 : ℕ) : K) - 1) * r.fl (1 / ((s.n + 1 : ℕ) : K)))
                            * r.fl (r.fl (((s.n + 1 : ℕ) : K) - 1) * r.fl (1 / ((s.n + 1 : ℕ) : K))))
                          * r.fl (r.fl (((s.n + 1 : ℕ) : K) - 1) * r.fl (1 / ((s.n + 1 : ℕ) : K))))
                        * r.fl (r.fl (((s.n + 1 : ℕ) : K) - 1) * r.fl (1 / ((s.n + 1 : ℕ) : K)))))
                * r.fl (r.fl (r.fl (r.fl (x.val - s.avg.val) * r.fl (x.val - s.avg.val))
                      * r.fl (x.val - s.avg.val))
                    * r.fl (x.val - s.avg.val))))
        + r.fl (r.fl (4 * s.m1.val)
            * r.fl (1 * r.fl (-(r.fl (x.val - s.avg.val)) * r.fl (1 / ((s.n + 1 : ℕ) : K))))))
        + r.fl (r.fl (6 * s.m0.val)
            * r.fl (r.fl (1 * r.fl (-(r.fl (x.val - s.avg.val)) * r.fl (1 / ((s.n + 1 : ℕ) : K))))
                * r.fl (-(r.fl (x.val - s.avg.val)) * r.fl (1 / ((s.n + 1 : ℕ) : K)))))) := by
  rw [Moments.m2, Moments.add_m2 N hN]
  set on : RF2 r := ((1:Nat) : RF2 r) / ((s.n + 1 : Nat) : RF2 r) with hon
  set dl : RF2 r := x - s.avg with hdl
  have h1 : ((1:Nat) : RF2 r).val = 1 := (Nat.cast_one : ((1 : ℕ) : K) = 1)
  have h4 : ((4:Nat) : RF2 r).val = 4 := (Nat.cast_ofNat : ((4 : ℕ) : K) = 4)
  have h6 : ((6:Nat) : RF2 r).val = 6 := (Nat.cast_ofNat : ((6 : ℕ) : K) = 6)
  have hon' : on.val = r.fl (1 / ((s.n + 1 : ℕ) : K)) := by
    rw [hon]
    show r.fl (((1:Nat) : RF2 r).val / ((s.n + 1 : ℕ) : K)) = _
    rw [h1]
  have hneg' : (-on).val = -(r.fl (1 / ((s.n + 1 : ℕ) : K))) := by rw [hneg on, hon']
  have hdl' : dl.val = r.fl (x.val - s.avg.val) := rfl
  have hnegd : (-dl).val = -(r.fl (x.val - s.avg.val)) := by rw [hneg dl, hdl']
  show r.fl (r.fl (r.fl (s.m2.val +
      r.fl (r.fl (r.fl (r.fl (r.fl (r.fl (r.fl (((s.n + 1 : ℕ) : K) - ((1:Nat) : RF2 r).val) * (-on).val)
                  * (-on).val) * (-on).val) * (-on).val)
          + r.fl (r.fl (r.fl (r.fl (r.fl (((s.n + 1 : ℕ) : K) - ((1:Nat) : RF2 r).val) * on.val)
                  * r.fl (r.fl (((s.n + 1 : ℕ) : K) - ((1:Nat) : RF2 r).val) * on.val))
                * r.fl (r.fl (((s.n + 1 : ℕ) : K) - ((1:Nat) : RF2 r).val) * on.val))
              * r.fl (r.fl (((s.n + 1 : ℕ) : K) - ((1:Nat) : RF2 r).val) * on.val)))
        * r.fl (r.fl (r.fl (dl.val * dl.val) * dl.val) * dl.val)))
      + r.fl (r.fl (((4:Nat) : RF2 r).val * s.m1.val)
          * r.fl (((1:Nat) : RF2 r).val * r.fl ((-dl).val * on.val))))
      + r.fl (r.fl (((6:Nat) : RF2 r).val * s.m0.val)
          * r.fl (r.fl (((1:Nat) : RF2 r).val * r.fl ((-dl).val * on.val))
              * r.fl ((-dl).val * on.val)))) = _
  rw [h1, h4, h6, hneg', hon', hnegd, hdl']

#print axioms Avg.Moments.add_m2
#print axioms Avg.Moments.add_m012_indep
#print axioms Avg.Moments.fold_m012_indep
#print axioms moments_m2_add_val
