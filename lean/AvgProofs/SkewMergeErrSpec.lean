import AvgProofs.SkewErrSpec
import AvgProofs.VarMergeErrSpec
import AvgProofs.MeanMergeTransfer

/-!
# Exact side of the error analysis of the third-order sum of `Skewness.merge`

With `n_x = |xs|`, `n_y = |ys|`, `n = n_x + n_y`, `δ = mean ys - mean xs`, `T = Σ(x - mean)²`,
`U = Σ(x - mean)³`:

`U(xs ++ ys) = U xs + U ys + δ³·n_x·n_y·(n_x - n_y)/n² + 3·(δ/n)·(n_x·T ys - n_y·T xs)`
(`SkewMerge.U_append`; true for empty lists as well: both cross terms vanish).

Both cross terms are signed (the second one is a difference of two non-negative products), so the natural
scale of the rounding errors at a merge is the sum of absolute values
`J = |δ|³·n_x·n_y·|n_x - n_y|/n² + 3·(|δ|/n)·(n_x·T ys + n_y·T xs)`  (`SkewMerge.absJ`),
and along a merge tree `V3T t` := `V3p` of the chunk at a leaf (`SkewSpec.V3p`, the scale of the add-only
analysis), the sum of the children's scales plus `J` at a node. `|U(t.flatten)| ≤ V3T t` (`abs_U_le_V3T`).
-/
open Avg MSpec Finset VarSpec SkewSpec

namespace SkewMerge
variable {K : Type} [Field K] [LinearOrder K] [IsStrictOrderedRing K]

/-- the signed weight `n_x·n_y·(n_x - n_y)/(n_x+n_y)²` of `δ³` -/
def w3 (xs ys : List K) : K :=
  (xs.length : K) * (ys.length : K) * ((xs.length : K) - (ys.length : K))
    / ((xs.length : K) + (ys.length : K))^2

/-- its absolute value `n_x·n_y·|n_x - n_y|/(n_x+n_y)²` -/
def w3a (xs ys : List K) : K :=
  (xs.length : K) * (ys.length : K) * |(xs.length : K) - (ys.length : K)|
    / ((xs.length : K) + (ys.length : K))^2

/-- first exact cross term `δ³·n_x·n_y·(n_x - n_y)/n²` -/
def crossP (xs ys : List K) : K := (mean ys - mean xs)^3 * w3 xs ys

/-- second exact cross term `3·(δ/n)·(n_x·T ys - n_y·T xs)` -/
def crossQ (xs ys : List K) : K :=
  3 * ((mean ys - mean xs) / ((xs.length : K) + (ys.length : K)))
    * ((xs.length : K) * T ys - (ys.length : K) * T xs)

/-- `|δ|³·n_x·n_y·|n_x - n_y|/n²` -/
def absP (xs ys : List K) : K := |mean ys - mean xs|^3 * w3a xs ys

/-- the mixed sum `n_x·T ys + n_y·T xs` -/
def mixH (xs ys : List K) : K := (xs.length : K) * T ys + (ys.length : K) * T xs

/-- `3·(|δ|/n)·(n_x·T ys + n_y·T xs)` -/
def absQ (xs ys : List K) : K :=
  3 * (|mean ys - mean xs| / ((xs.length : K) + (ys.length : K))) * mixH xs ys

/-- the sum of the absolute values of the parts of the exact increment of `U` at a merge -/
def absJ (xs ys : List K) : K := absP xs ys + absQ xs ys

theorem w3a_nonneg (xs ys : List K) : 0 ≤ w3a xs ys := by unfold w3a; positivity

theorem abs_w3 (xs ys : List K) : |w3 xs ys| = w3a xs ys := by
  unfold w3 w3a
  have h1 : (0 : K) ≤ xs.length := Nat.cast_nonneg _
  have h2 : (0 : K) ≤ ys.length := Nat.cast_nonneg _
  rw [abs_div, abs_mul, abs_mul, abs_of_nonneg h1, abs_of_nonneg h2,
    abs_of_nonneg (sq_nonneg ((xs.length : K) + (ys.length : K)))]

theorem mixH_nonneg (xs ys : List K) : 0 ≤ mixH xs ys := by
  have := T_nonneg xs
  have := T_nonneg ys
  unfold mixH; positivity

theorem absP_nonneg (xs ys : List K) : 0 ≤ absP xs ys :=
  mul_nonneg (by positivity) (w3a_nonneg xs ys)

theorem absQ_nonneg (xs ys : List K) : 0 ≤ absQ xs ys := by
  have := mixH_nonneg xs ys
  unfold absQ; positivity

theorem absJ_nonneg (xs ys : List K) : 0 ≤ absJ xs ys :=
  add_nonneg (absP_nonneg xs ys) (absQ_nonneg xs ys)

theorem abs_crossP (xs ys : List K) : |crossP xs ys| = absP xs ys := by
  unfold crossP absP; rw [abs_mul, abs_pow, abs_w3]

theorem abs_crossQ_le (xs ys : List K) : |crossQ xs ys| ≤ absQ xs ys := by
  unfold crossQ absQ mixH
  have h1 : (0 : K) ≤ xs.length := Nat.cast_nonneg _
  have h2 : (0 : K) ≤ ys.length := Nat.cast_nonneg _
  have hn : (0 : K) ≤ (xs.length : K) + (ys.length : K) := by positivity
  rw [abs_mul, abs_mul, abs_div, abs_of_nonneg hn, abs_of_pos (by norm_num : (0 : K) < 3)]
  have : |(xs.length : K) * T ys - (ys.length : K) * T xs|
      ≤ (xs.length : K) * T ys + (ys.length : K) * T xs := by
    refine le_trans (abs_sub _ _) (le_of_eq ?_)
    rw [abs_of_nonneg (mul_nonneg h1 (T_nonneg ys)), abs_of_nonneg (mul_nonneg h2 (T_nonneg xs))]
  gcongr

theorem absJ_nil_right (xs : List K) : absJ xs [] = 0 := by
  simp [absJ, absP, absQ, w3a, mixH, T_nil]

theorem absJ_nil_left (ys : List K) : absJ [] ys = 0 := by
  simp [absJ, absP, absQ, w3a, mixH, T_nil]

/-- **Exact merge identity of the third-order sum** (the quantity `Skewness.merge` approximates). -/
theorem U_append (xs ys : List K) :
    U (xs ++ ys) = U xs + U ys + crossP xs ys + crossQ xs ys := by
  by_cases hy : ys = []
  · subst hy; simp [crossP, crossQ, w3, U_nil, T_nil]
  by_cases hx : xs = []
  · subst hx; simp [crossP, crossQ, w3, U_nil, T_nil]
  have h1 : (xs.length : K) ≠ 0 := by simp [hx]
  have h2 : (ys.length : K) ≠ 0 := by simp [hy]
  have h3 : (xs.length : K) + (ys.length : K) ≠ 0 := by
    have h1' : (0 : K) < xs.length := by exact_mod_cast List.length_pos_of_ne_nil hx
    have h2' : (0 : K) ≤ ys.length := Nat.cast_nonneg _
    positivity
  have hm := mean_append xs ys hx hy
  have e3x := shift3 xs (mean (xs ++ ys)) (mean xs)
  have e3y := shift3 ys (mean (xs ++ ys)) (mean ys)
  rw [sumPow_one_mean, sumPow_zero] at e3x e3y
  unfold U crossP crossQ w3 T
  rw [sumPow_append, e3x, e3y, hm]
  field_simp
  ring

/-- `|U(xs++ys)| ≤ |U xs| + |U ys| + J` -/
theorem abs_U_append_le (xs ys : List K) :
    |U (xs ++ ys)| ≤ |U xs| + |U ys| + absJ xs ys := by
  rw [U_append]
  have h1 := abs_crossP xs ys
  have h2 := abs_crossQ_le xs ys
  have a1 := abs_add_le (U xs + U ys + crossP xs ys) (crossQ xs ys)
  have a2 := abs_add_le (U xs + U ys) (crossP xs ys)
  have a3 := abs_add_le (U xs) (U ys)
  unfold absJ
  linarith

/-- the natural scale of the rounding errors of `sum_3` along a merge tree: `V3p` of the chunk at a
leaf; the children's scales plus the absolute parts of the exact cross terms at a node -/
def V3T : MTree K → K
  | .leaf xs => V3p xs
  | .node l r => V3T l + V3T r + absJ l.flatten r.flatten

omit [IsStrictOrderedRing K] in
theorem V3T_leaf (xs : List K) : V3T (.leaf xs) = V3p xs := rfl
omit [IsStrictOrderedRing K] in
theorem V3T_node (l r : MTree K) :
    V3T (.node l r) = V3T l + V3T r + absJ l.flatten r.flatten := rfl

theorem V3T_nonneg (t : MTree K) : 0 ≤ V3T t := by
  induction t with
  | leaf xs => exact V3p_nonneg xs
  | node l r ihl ihr =>
    rw [V3T_node]; have := absJ_nonneg l.flatten r.flatten; linarith

/-- `|Σ(x - mean)³| ≤ V3T t` for every merge tree over the data -/
theorem abs_U_le_V3T (t : MTree K) : |U t.flatten| ≤ V3T t := by
  induction t with
  | leaf xs => exact abs_U_le xs
  | node l r ihl ihr =>
    rw [MTree.flatten_node, V3T_node]
    have := abs_U_append_le l.flatten r.flatten
    linarith

omit [IsStrictOrderedRing K] in
theorem V3p_nil : V3p ([] : List K) = 0 := by simp [V3p, VA, VB]

/-- a tree without data has scale `0` -/
theorem V3T_empty (t : MTree K) (h : t.flatten = []) : V3T t = 0 := by
  induction t with
  | leaf xs => rw [MTree.flatten_leaf] at h; subst h; exact V3p_nil
  | node l r ihl ihr =>
    rw [MTree.flatten_node, List.append_eq_nil_iff] at h
    rw [V3T_node, ihl h.1, ihr h.2, h.1, h.2, absJ_nil_right]; ring

end SkewMerge

#print axioms SkewMerge.U_append
#print axioms SkewMerge.abs_U_le_V3T
