import AvgProofs.KurtAccErr
import Mathlib.Tactic.NormNum

/-!
# The accessor `Kurtosis.kurtosis` on a state whose `sum_4` carries an ABSOLUTE error

`KurtAcc.kurt_main` / `kurt_shortcut` take the error of the stored `sum_4` relative to a scale `V ≥ |Q|`. With
`V = Q > 0` and `ε₄ = δ₄/Q` (no smallness of `ε₄` is needed there) the contributions separate:

`|kurtosis() - (G - 3)| ≤ 2·(n·δ₄/T²) + G·((211/100)·ε₂ + (26/5)·u)`,  `G = n·Q/T²`  (`kurtosis_error_abs`),

for `|sum_4 - Q| ≤ δ₄`, `|sum_2 - T| ≤ ε₂·T`, `ε₂ ≤ 1/32`, `u ≤ 1/1856` - **both branches** of the `sum_4 == 0`
shortcut (the factor `2` is the price of the shortcut branch, where the accessor returns `0` and
`|0 - (G-3)| ≤ 2·G ≤ 2·n·δ₄/T²`; the long branch alone has `107/100`).

* `kurt_factor_le_mid`: `(1+u)·φ + 2u ≤ (1001/1000)·ε₄ + (2003/1000)·ε₂ + (5001/1000)·u` for `ε₂ ≤ 1/2048`,
  `u ≤ 2^-21` (the range met when the relative error of `sum_4` after a merge tree is below 1).
-/
open Avg

namespace AccMerge
variable {K : Type} [Field K] [LinearOrder K] [IsStrictOrderedRing K]

/-- **Numerals, intermediate range**: `ε₂ ≤ 1/2048`, `u ≤ 1/2^21`:
`(1+u)·φ + 2u ≤ (1001/1000)·ε₄ + (2003/1000)·ε₂ + (5001/1000)·u`. -/
theorem kurt_factor_le_mid (u ε₂ ε₄ : K) (hu : 0 ≤ u) (hu' : u ≤ 1/2097152) (hε₂ : 0 ≤ ε₂)
    (hε₂' : ε₂ ≤ 1/2048) (hε₄ : 0 ≤ ε₄) :
    (1 + u) * ((1 + ε₄) * (1 + u)^2 / ((1 - ε₂)^2 * (1 - u)) - 1) + 2 * u
      ≤ 1001/1000 * ε₄ + 2003/1000 * ε₂ + 5001/1000 * u := by
  have h := KurtAcc.kurt_factor_aux u ε₂ ε₄ (2002/1000) (30001/10000) (1/2048) (1/2097152) hu hu'
    (by norm_num) hε₂ hε₂' (by norm_num) hε₄ (by norm_num) (by norm_num)
    (KurtAcc.inv_sq_le ε₂ _ hε₂ (by nlinarith)) (KurtAcc.u_part_le u _ hu (by nlinarith))
  refine le_trans h ?_
  have a1 : (1 + 1/2097152 : K) * (1 + 2002/1000 * (1/2048)) * (1 + 30001/10000 * (1/2097152))
      ≤ 1001/1000 := by norm_num
  have a2 : (1 + 1/2097152 : K) * (1 + 30001/10000 * (1/2097152)) * (2002/1000) ≤ 2003/1000 := by
    norm_num
  have a3 : ((1 + 1/2097152 : K) * (30001/10000) + 2) ≤ 5001/1000 := by norm_num
  have := mul_le_mul_of_nonneg_right a1 hε₄
  have := mul_le_mul_of_nonneg_right a2 hε₂
  have := mul_le_mul_of_nonneg_right a3 hu
  linarith

section state
variable {r : Rnd2 K} [FloatOps (RF2 r)]

/-- **The accessor on a state, absolute error of `sum_4`, both branches.** A non-empty state whose `sum_2`
approximates `T > 0` with `|sum_2 - T| ≤ ε₂·T`, `0 ≤ ε₂ ≤ 1/32`, whose `sum_4` approximates `Q` with
`|sum_4 - Q| ≤ δ₄`; `T² ≤ n·Q` (true of every sample); `u ≤ 1/1856`; `G = n·Q/T²`:
`|kurtosis() - (G - 3)| ≤ 2·(n·δ₄/T²) + G·((211/100)·ε₂ + (26/5)·u)`. -/
theorem kurtosis_error_abs (heq : ValEqb r) (s : Kurtosis (RF2 r)) (hn : s.avg.avg.avg.n ≠ 0)
    (T Q ε₂ δ₄ : K) (hT : 0 < T) (hTQ : T * T ≤ (s.avg.avg.avg.n : K) * Q) (hε₂ : 0 ≤ ε₂)
    (hε₂' : ε₂ ≤ 1/32) (hu' : r.u ≤ 1/1856)
    (hS : |s.avg.avg.sum_2.val - T| ≤ ε₂ * T) (hS4 : |s.sum_4.val - Q| ≤ δ₄) :
    |s.kurtosis.val - ((s.avg.avg.avg.n : K) * Q / (T * T) - 3)|
      ≤ 2 * ((s.avg.avg.avg.n : K) * δ₄ / (T * T))
        + (s.avg.avg.avg.n : K) * Q / (T * T) * (211/100 * ε₂ + 26/5 * r.u) := by
  have hu := r.u_nonneg
  have hδ : 0 ≤ δ₄ := le_trans (abs_nonneg _) hS4
  have hTT : 0 < T * T := mul_pos hT hT
  set c : K := (s.avg.avg.avg.n : K) with hc
  have hc0 : 0 ≤ c := Nat.cast_nonneg _
  have hcQ : 0 < c * Q := lt_of_lt_of_le hTT hTQ
  have hcpos : 0 < c := by
    rcases eq_or_lt_of_le hc0 with h | h
    · rw [← h, zero_mul] at hcQ; exact absurd hcQ (lt_irrefl _)
    · exact h
  have hQ : 0 < Q := by
    by_contra hcon
    rw [not_lt] at hcon
    have : c * Q ≤ 0 := mul_nonpos_of_nonneg_of_nonpos hc0 hcon
    linarith
  have hG1 : 1 ≤ c * Q / (T * T) := by rw [le_div_iff₀ hTT]; linarith
  have hG0 : 0 ≤ c * Q / (T * T) := by linarith
  have hS4' : |s.sum_4.val - Q| ≤ δ₄ / Q * Q := by rw [div_mul_cancel₀ _ hQ.ne']; exact hS4
  have hε₄ : 0 ≤ δ₄ / Q := div_nonneg hδ hQ.le
  have eG : c * Q / (T * T) * (δ₄ / Q) = c * δ₄ / (T * T) := by field_simp
  have hX0 : 0 ≤ c * δ₄ / (T * T) := by positivity
  have hE0 : 0 ≤ c * Q / (T * T) * (211/100 * ε₂ + 26/5 * r.u) := by positivity
  by_cases h4 : s.sum_4.val = 0
  · have h := (KurtAcc.kurtosis_error_shortcut heq s hn h4 T Q Q (δ₄ / Q) hT hTQ hS4').2
    refine le_trans h ?_
    have e : 2 * (δ₄ / Q) * (c * Q / (T * T)) = 2 * (c * δ₄ / (T * T)) := by rw [← eG]; ring
    rw [e]; linarith
  · have h := KurtAcc.kurtosis_error_long heq s hn h4 T Q Q ε₂ (δ₄ / Q) hT (le_of_eq (abs_of_pos hQ))
      hε₂ (by linarith) hε₄ (by linarith) hS hS4'
    refine le_trans h ?_
    have h3 := KurtAcc.abs_sub_three_le (c * Q / (T * T)) hG1
    have hF := KurtAcc.kurt_factor_le r.u ε₂ (δ₄ / Q) hu hu' hε₂ hε₂' hε₄
    have h5 : r.u * |c * Q / (T * T) - 3| ≤ c * Q / (T * T) * (2 * r.u) := by
      calc r.u * |c * Q / (T * T) - 3| ≤ r.u * (2 * (c * Q / (T * T))) := by gcongr
        _ = c * Q / (T * T) * (2 * r.u) := by ring
    have h6 : (1 + r.u) * (c * Q / (T * T)
          * ((1 + δ₄ / Q) * (1 + r.u)^2 / ((1 - ε₂)^2 * (1 - r.u)) - 1))
        + c * Q / (T * T) * (2 * r.u)
        = c * Q / (T * T) * ((1 + r.u)
            * ((1 + δ₄ / Q) * (1 + r.u)^2 / ((1 - ε₂)^2 * (1 - r.u)) - 1) + 2 * r.u) := by ring
    have h7 : c * Q / (T * T) * ((1 + r.u)
            * ((1 + δ₄ / Q) * (1 + r.u)^2 / ((1 - ε₂)^2 * (1 - r.u)) - 1) + 2 * r.u)
        ≤ c * Q / (T * T) * (107/100 * (δ₄ / Q) + 211/100 * ε₂ + 26/5 * r.u) :=
      mul_le_mul_of_nonneg_left hF hG0
    have h8 : c * Q / (T * T) * (107/100 * (δ₄ / Q) + 211/100 * ε₂ + 26/5 * r.u)
        = 107/100 * (c * δ₄ / (T * T)) + c * Q / (T * T) * (211/100 * ε₂ + 26/5 * r.u) := by
      rw [← eG]; ring
    linarith

end state

end AccMerge

#print axioms AccMerge.kurt_factor_le_mid
#print axioms AccMerge.kurtosis_error_abs
