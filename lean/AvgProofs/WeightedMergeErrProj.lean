import AvgProofs.WeightedSumsTree
import AvgProofs.MeanMergeTransfer
import AvgProofs.MomentsTree

/-!
# `WeightedMeanWithError` through merge trees: the inner `Variance`, and the count of empty chunks

* `WeightedMeanWithError.mtree_unweighted_avg` (any carrier, bit for bit): the `unweighted_avg` field after
  any merge tree over pairs `(x, w)` is what `Variance` computes through the same tree (same shape, same
  chunking) over the samples `x` alone. `WeightedMeanWithError.add` feeds it with `Variance.add sample`,
  `WeightedMeanWithError.merge` with `Variance.merge`.
* `MTree.emptyLeaves`: the number of empty chunks; `MTree.rounds_le_obs_empty`:
  `rounds t ≤ n + emptyLeaves t + 1` (each merge level on a path from a leaf to the root has a sibling that
  holds an observation or an empty chunk).
-/
open Avg

namespace MTree
variable {α : Type}

/-- number of empty chunks (leaves without an observation) -/
def emptyLeaves : MTree α → ℕ
  | leaf xs => if xs.length = 0 then 1 else 0
  | node l r => l.emptyLeaves + r.emptyLeaves

@[simp] theorem emptyLeaves_node (l r : MTree α) :
    (node l r).emptyLeaves = l.emptyLeaves + r.emptyLeaves := rfl

/-- every tree has a leaf: it holds an observation or it is an empty chunk -/
theorem one_le_length_add_emptyLeaves (t : MTree α) : 1 ≤ t.flatten.length + t.emptyLeaves := by
  induction t with
  | leaf xs =>
    simp only [flatten_leaf, emptyLeaves]
    split <;> omega
  | node l r ihl ihr =>
    simp only [flatten_node, List.length_append, emptyLeaves_node]
    omega

/-- `rounds t ≤ n + (number of empty chunks) + 1` -/
theorem rounds_le_obs_empty (t : MTree α) : t.rounds ≤ t.flatten.length + t.emptyLeaves + 1 := by
  induction t with
  | leaf xs => simp only [rounds, flatten_leaf]; omega
  | node l r ihl ihr =>
    have h1 := l.one_le_length_add_emptyLeaves
    have h2 := r.one_le_length_add_emptyLeaves
    simp only [rounds, flatten_node, List.length_append, emptyLeaves_node]
    omega

/-- a tree without empty chunks: `rounds t ≤ n + 1` (the count of an add-only stream) -/
theorem rounds_le_of_no_empty (t : MTree α) (h : t.emptyLeaves = 0) : t.rounds ≤ t.flatten.length + 1 := by
  have := t.rounds_le_obs_empty
  omega

theorem emptyLeaves_map {β : Type} (f : α → β) (t : MTree α) : (t.map f).emptyLeaves = t.emptyLeaves := by
  induction t with
  | leaf xs => simp only [map_leaf, emptyLeaves, List.length_map]
  | node l r ihl ihr => simp only [map_node, emptyLeaves_node, ihl, ihr]

end MTree

namespace Avg
variable {α : Type} [Add α] [Sub α] [Mul α] [Div α] [NatCast α] [FloatOps α]

/-- `WeightedMeanWithError.merge` merges the inner `Variance` states with `Variance.merge` -/
theorem WeightedMeanWithError.merge_unweighted_avg (s o : WeightedMeanWithError α) :
    (s.merge o).unweighted_avg = s.unweighted_avg.merge o.unweighted_avg := rfl

/-- ... and adds the squared-weight sums -/
theorem WeightedMeanWithError.merge_weight_sum_sq (s o : WeightedMeanWithError α) :
    (s.merge o).weight_sum_sq = s.weight_sum_sq + o.weight_sum_sq := rfl

/-- **The inner `Variance`, any carrier, bit for bit.** Through every merge tree over pairs `(x, w)` the
`unweighted_avg` field of `WeightedMeanWithError` is the `Variance` evaluation of the same tree over the
samples `x` (weights dropped; same shape, same chunks - a zero-weight observation still counts). -/
theorem WeightedMeanWithError.mtree_unweighted_avg (t : MTree (α × α)) :
    (WeightedMeanWithError.evalTree t).unweighted_avg = Variance.evalTree (t.map Prod.fst) := by
  induction t with
  | leaf ps =>
    show (ps.foldl WeightedMeanWithError.addP WeightedMeanWithError.new).unweighted_avg = _
    rw [WeightedMeanWithError.fold_unweighted_avg]
    rfl
  | node l rt ihl ihr =>
    show ((WeightedMeanWithError.evalTree l).merge (WeightedMeanWithError.evalTree rt)).unweighted_avg = _
    rw [WeightedMeanWithError.merge_unweighted_avg, ihl, ihr]
    rfl

end Avg

#print axioms MTree.rounds_le_obs_empty
#print axioms Avg.WeightedMeanWithError.mtree_unweighted_avg
