import AvgProofs.SkewErrHardy
import AvgProofs.SkewErrV3

/-!
# Hardy's inequality for the exponent 2 and the double sum `Σ_i (|d_i|/(i+1))·W_i`

* `hardy2`: for `a_i ≥ 0` with running means `α_m = (a_0 + … + a_{m-1})/m`:
  `Σ_{m<M} α_{m+1}² ≤ 4·Σ_{m<M} a_m²`, and `hardy2_cross`: `Σ_{m<M} a_m·α_{m+1} ≤ 2·Σ_{m<M} a_m²`
  (Elliott's telescoping argument; any ordered field).
* `W_take_eq`: `W` of a prefix as a sum over the indices of the stream.
* `sum_rr_W_le`: `Σ_{1≤i<n} (|d_i|/(i+1))·W(x_0..x_{i-1}) ≤ 4·T`, where
  `W(x_0..x_{i-1}) = Σ_{j<i} |d_j|·j/(j+1)`: the double sum that carries the `W`-term of the error of
  `sum_3` into the error of `sum_4`.
-/
open Avg MSpec Finset VarSpec SkewSpec SkewErr

namespace KurtErr
variable {K : Type} [Field K] [LinearOrder K] [IsStrictOrderedRing K]

/-- Elliott's telescoping step for the exponent 2, summed -/
theorem hardy2_core {a : ℕ → K} (_ha : ∀ i, 0 ≤ a i) (M : ℕ) :
    ∑ m ∈ range M, (amean a (m + 1))^2 + (M : K) * (amean a M)^2
      ≤ 2 * ∑ m ∈ range M, amean a (m + 1) * a m := by
  induction M with
  | zero => simp
  | succ M ih =>
    rw [sum_range_succ, sum_range_succ]
    have hM : (0 : K) ≤ M := Nat.cast_nonneg M
    rw [amean_rec a M]
    set p := amean a (M + 1)
    set q := amean a M
    push_cast
    have hy : 0 ≤ (M : K) * (p - q)^2 := by positivity
    nlinarith

/-- **Hardy's inequality, exponent 2**: `Σ_{m<M} α_{m+1}² ≤ 4·Σ_{m<M} a_m²`. -/
theorem hardy2 {a : ℕ → K} (ha : ∀ i, 0 ≤ a i) (M : ℕ) :
    ∑ m ∈ range M, (amean a (m + 1))^2 ≤ 4 * ∑ m ∈ range M, (a m)^2 := by
  have hc := hardy2_core ha M
  have hlast : 0 ≤ (M : K) * (amean a M)^2 := by positivity
  have hy : ∑ m ∈ range M, amean a (m + 1) * a m
      ≤ ∑ m ∈ range M, (1/4 * (amean a (m + 1))^2 + (a m)^2) := by
    apply sum_le_sum
    intro m _
    nlinarith [sq_nonneg (1/2 * amean a (m + 1) - a m)]
  rw [sum_add_distrib, ← mul_sum] at hy
  linarith

/-- `Σ_{m<M} a_m·α_{m+1} ≤ 2·Σ_{m<M} a_m²` -/
theorem hardy2_cross {a : ℕ → K} (ha : ∀ i, 0 ≤ a i) (M : ℕ) :
    ∑ m ∈ range M, a m * amean a (m + 1) ≤ 2 * ∑ m ∈ range M, (a m)^2 := by
  have h := hardy2 ha M
  have hy : ∑ m ∈ range M, a m * amean a (m + 1)
      ≤ ∑ m ∈ range M, (1/4 * (amean a (m + 1))^2 + (a m)^2) := by
    apply sum_le_sum
    intro m _
    nlinarith [sq_nonneg (1/2 * amean a (m + 1) - a m)]
  rw [sum_add_distrib, ← mul_sum] at hy
  linarith

omit [LinearOrder K] [IsStrictOrderedRing K] in
/-- the deviations of a prefix are those of the stream -/
theorem dev_take (vs : List K) {i j : ℕ} (hj : j < i) : dev (vs.take i) j = dev vs j := by
  unfold dev
  rw [List.take_take, min_eq_left (le_of_lt hj)]
  simp only [List.getD_eq_getElem?_getD, List.getElem?_take_of_lt hj]

omit [IsStrictOrderedRing K] in
/-- `W` of a prefix as a sum over the indices of the stream -/
theorem W_take_eq (vs : List K) (i : ℕ) (hi : i ≤ vs.length) :
    W (vs.take i) = ∑ j ∈ range i, |dev vs j| * ((j : K) / ((j : K) + 1)) := by
  unfold W
  rw [List.length_take, min_eq_left hi]
  apply sum_congr rfl
  intro j hj
  rw [dev_take vs (mem_range.mp hj)]

/-- `|d_i|` for `i ≥ 1`, `0` for `i = 0` -/
def ad (vs : List K) (i : ℕ) : K := if i = 0 then 0 else |dev vs i|

theorem ad_nonneg (vs : List K) (i : ℕ) : 0 ≤ ad vs i := by
  unfold ad; split_ifs <;> positivity

/-- `W(x_0..x_{i-1}) ≤ |d_1| + … + |d_{i-1}|` -/
theorem W_take_le_psum (vs : List K) (i : ℕ) (hi : i ≤ vs.length) :
    W (vs.take i) ≤ psum (ad vs) i := by
  rw [W_take_eq vs i hi]
  unfold psum
  apply sum_le_sum
  intro j _
  unfold ad
  split_ifs with h0
  · subst h0; simp
  · have := ratio_le_one (K := K) j
    have h0 : 0 ≤ |dev vs j| := abs_nonneg _
    nlinarith

/-- `Σ_{1≤i<n} d_i² ≤ 2·T` -/
theorem sum_ad_sq_le (vs : List K) : ∑ i ∈ range vs.length, (ad vs i)^2 ≤ 2 * T vs := by
  rw [T_eq_sum, mul_sum]
  apply sum_le_sum
  intro i _
  unfold ad
  split_ifs with h0
  · subst h0; simp
  · have hi : (1 : K) ≤ i := by exact_mod_cast Nat.one_le_iff_ne_zero.mpr h0
    have hp : (0 : K) < (i : K) + 1 := by linarith
    have hρ : (1 : K) / 2 ≤ (i : K) / ((i : K) + 1) := by
      rw [div_le_div_iff₀ (by norm_num) hp]; linarith
    rw [sq_abs]
    have := sq_nonneg (dev vs i)
    nlinarith

/-- **The double sum.** `Σ_{1≤i<n} (|d_i|/(i+1))·W(x_0..x_{i-1}) ≤ 4·T`. -/
theorem sum_rr_W_le (vs : List K) :
    ∑ i ∈ range vs.length, rr vs i * W (vs.take i) ≤ 4 * T vs := by
  have ha := ad_nonneg vs
  have hterm : ∀ i ∈ range vs.length, rr vs i * W (vs.take i) ≤ ad vs i * amean (ad vs) (i + 1) := by
    intro i hi
    have hi' := mem_range.mp hi
    have hW := W_take_le_psum vs i (le_of_lt hi')
    have hW0 := W_nonneg (vs.take i)
    unfold rr ad
    split_ifs with h0
    · simp
    · have hp : (0 : K) < (i : K) + 1 := by positivity
      have hps : psum (ad vs) i ≤ psum (ad vs) (i + 1) := by
        unfold psum; rw [sum_range_succ]; linarith [ha i]
      have hd0 : 0 ≤ |dev vs i| := abs_nonneg _
      unfold amean
      push_cast
      calc |dev vs i| / ((i : K) + 1) * W (vs.take i)
          = |dev vs i| * (W (vs.take i) / ((i : K) + 1)) := by ring
        _ ≤ |dev vs i| * (psum (ad vs) (i + 1) / ((i : K) + 1)) := by
            gcongr
            linarith
  refine le_trans (sum_le_sum hterm) ?_
  have h1 := hardy2_cross ha vs.length
  have h2 := sum_ad_sq_le vs
  linarith

end KurtErr

#print axioms KurtErr.hardy2
#print axioms KurtErr.sum_rr_W_le
