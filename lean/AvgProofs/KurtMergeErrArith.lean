import AvgProofs.SkewMergeErrArith

/-!
# Arithmetic of one step of the merge-tree induction for `sum_4`: how the inherited errors enter

Notation: `n = n_x + n_y`, `q·n = n_x·n_y`, `s·n = q`, `d = |δ|`, `ρ = d + B·n` (a bound on the computed difference of
the means), `H = n_x·T_y + n_y·T_x`, `K = n_x²·T_y + n_y²·T_x`, `Hv = n_x·V3_y + n_y·V3_x`,
`KK = (n² - n_x²)·T_x + (n² - n_y²)·T_y` (the growth of `n²·T` without the cross term). The monomials that carry the
errors: `M1 = B·d³·n_x·n_y`, `M2 = B·d·H`, `M3 = B·Hv`, `M4 = B²·KK`, `M5 = B²·n·d²·n_x·n_y`,
`M6 = B³·n²·d·n_x·n_y`, `M7 = B⁴·n³·n_x·n_y`.

* `KurtMerge.z2_bound`: the errors `Dx`, `Dy` of the two computed sums of squares (each below `P2·G` of
  `AvgProofs/VarMergeErrArith.lean` for *every* admissible pair of parameters, chosen here as `B/ρ`, `B·ρ`) enter
  through `(6/n²)·ρ²·(n_x²·Dy + n_y²·Dx)`.
* `KurtMerge.z3_bound`: the errors of the two computed third-order sums (each below `P3·G3` of
  `AvgProofs/SkewMergeErrArith.lean` for every admissible pair) enter through `(4/n)·ρ·(n_x·Dy + n_y·Dx)`.
* `KurtMerge.z2_split`, `KurtMerge.z3_split`: these contributions sorted by monomial.
* `KurtMerge.rel_family4`: the relative roundings are paid by the growth of `30·u·n·V4`.
* `KurtMerge.e4_le`: the first cross term perturbed by the error `B·n` of the difference of the means.
-/
variable {K : Type} [Field K] [LinearOrder K] [IsStrictOrderedRing K]

namespace KurtMerge
open VarMerge SkewMerge

/-- how the errors `Dx`, `Dy` of the two computed sums of squares enter the second cross term -/
theorem z2_bound (u B P2 nx ny Tx Ty Dx Dy ρ : K) (hu : 0 ≤ u) (hB : 0 ≤ B) (hP2 : 0 ≤ P2)
    (hnx : 0 < nx) (hny : 0 < ny) (hTx : 0 ≤ Tx) (hTy : 0 ≤ Ty) (hρ : 0 ≤ ρ)
    (hDx : ∀ Λ κ : K, 0 ≤ Λ → 0 ≤ κ → B^2 ≤ Λ * κ → Dx ≤ P2 * G u B Λ κ nx Tx)
    (hDy : ∀ Λ κ : K, 0 ≤ Λ → 0 ≤ κ → B^2 ≤ Λ * κ → Dy ≤ P2 * G u B Λ κ ny Ty) :
    6 / (nx + ny)^2 * (ρ^2 * (nx * nx * Dy + ny * ny * Dx))
      ≤ 6 * P2 * (nx * ny / (nx + ny)^2)
          * (ρ^2 * (19/2 * u * (nx * Ty + ny * Tx) + 2/5 * B^2 * (nx * ny * (nx + ny)))
              + 4/5 * B * (ρ * (nx * Ty + ny * Tx) + 2 * ρ^3 * (nx * ny))) := by
  have hn : 0 < nx + ny := by positivity
  rcases hρ.eq_or_lt with h0 | hpos
  · rw [← h0]
    have : 0 ≤ 6 * P2 * (nx * ny / (nx + ny)^2)
          * (0^2 * (19/2 * u * (nx * Ty + ny * Tx) + 2/5 * B^2 * (nx * ny * (nx + ny)))
              + 4/5 * B * (0 * (nx * Ty + ny * Tx) + 2 * 0^3 * (nx * ny))) := by positivity
    simp
  · have hΛκ : B^2 ≤ (B / ρ) * (B * ρ) := by
      have : (B / ρ) * (B * ρ) = B^2 := by field_simp
      rw [this]
    have hx := hDx (B / ρ) (B * ρ) (by positivity) (by positivity) hΛκ
    have hy := hDy (B / ρ) (B * ρ) (by positivity) (by positivity) hΛκ
    have hρ2 : 0 ≤ ρ^2 := by positivity
    have hx' : ρ^2 * Dx ≤ P2 * (ρ^2 * (19/2 * u * nx * Tx + 2/5 * B^2 * nx^3)
        + 4/5 * B * nx * (ρ * Tx + ρ^3 * nx)) := by
      have := mul_le_mul_of_nonneg_left hx hρ2
      refine le_trans this (le_of_eq ?_)
      unfold G; field_simp; ring
    have hy' : ρ^2 * Dy ≤ P2 * (ρ^2 * (19/2 * u * ny * Ty + 2/5 * B^2 * ny^3)
        + 4/5 * B * ny * (ρ * Ty + ρ^3 * ny)) := by
      have := mul_le_mul_of_nonneg_left hy hρ2
      refine le_trans this (le_of_eq ?_)
      unfold G; field_simp; ring
    have e : 6 / (nx + ny)^2 * (ρ^2 * (nx * nx * Dy + ny * ny * Dx))
        = 6 / (nx + ny)^2 * (nx * nx * (ρ^2 * Dy) + ny * ny * (ρ^2 * Dx)) := by ring
    rw [e]
    have h6 : (0 : K) ≤ 6 / (nx + ny)^2 := by positivity
    have hxx : 0 ≤ nx * nx := by positivity
    have hyy : 0 ≤ ny * ny := by positivity
    calc 6 / (nx + ny)^2 * (nx * nx * (ρ^2 * Dy) + ny * ny * (ρ^2 * Dx))
        ≤ 6 / (nx + ny)^2 * (nx * nx * (P2 * (ρ^2 * (19/2 * u * ny * Ty + 2/5 * B^2 * ny^3)
              + 4/5 * B * ny * (ρ * Ty + ρ^3 * ny)))
            + ny * ny * (P2 * (ρ^2 * (19/2 * u * nx * Tx + 2/5 * B^2 * nx^3)
              + 4/5 * B * nx * (ρ * Tx + ρ^3 * nx)))) := by gcongr
      _ = _ := by field_simp; ring

/-- how the errors `Dx`, `Dy` of the two computed third-order sums enter the third cross term -/
theorem z3_bound (u B P3 nx ny Tx Ty Vx Vy Dx Dy ρ : K) (hu : 0 ≤ u) (hB : 0 ≤ B) (hP3 : 0 ≤ P3)
    (hnx : 0 < nx) (hny : 0 < ny) (hTx : 0 ≤ Tx) (hTy : 0 ≤ Ty) (hVx : 0 ≤ Vx) (hVy : 0 ≤ Vy)
    (hρ : 0 ≤ ρ)
    (hDx : ∀ Λ κ : K, 0 ≤ Λ → 0 ≤ κ → B^2 ≤ Λ * κ → Dx ≤ P3 * G3 u B Λ κ nx Vx Tx)
    (hDy : ∀ Λ κ : K, 0 ≤ Λ → 0 ≤ κ → B^2 ≤ Λ * κ → Dy ≤ P3 * G3 u B Λ κ ny Vy Ty) :
    4 / (nx + ny) * (ρ * (nx * Dy + ny * Dx))
      ≤ 4 * P3 * (nx * ny / (nx + ny))
          * (ρ * (15 * u * (Vx + Vy) + 6 * B * (Tx + Ty) + 8/5 * B^3 * (nx^3 + ny^3))
              + 27/10 * B^2 * ((nx * Tx + ny * Ty) + ρ^2 * (nx^2 + ny^2))) := by
  have hn : 0 < nx + ny := by positivity
  rcases hρ.eq_or_lt with h0 | hpos
  · rw [← h0]
    have : 0 ≤ 4 * P3 * (nx * ny / (nx + ny))
          * (0 * (15 * u * (Vx + Vy) + 6 * B * (Tx + Ty) + 8/5 * B^3 * (nx^3 + ny^3))
              + 27/10 * B^2 * ((nx * Tx + ny * Ty) + 0^2 * (nx^2 + ny^2))) := by positivity
    simpa using this
  · have hΛκ : B^2 ≤ (B / ρ) * (B * ρ) := by
      have : (B / ρ) * (B * ρ) = B^2 := by field_simp
      rw [this]
    have hx := hDx (B / ρ) (B * ρ) (by positivity) (by positivity) hΛκ
    have hy := hDy (B / ρ) (B * ρ) (by positivity) (by positivity) hΛκ
    have hx' : ρ * Dx ≤ P3 * (ρ * (15 * u * nx * Vx + 6 * B * nx * Tx + 8/5 * B^3 * nx^4)
        + 27/10 * B^2 * (nx^2 * Tx + ρ^2 * nx^3)) := by
      have := mul_le_mul_of_nonneg_left hx hpos.le
      refine le_trans this (le_of_eq ?_)
      unfold G3; field_simp; ring
    have hy' : ρ * Dy ≤ P3 * (ρ * (15 * u * ny * Vy + 6 * B * ny * Ty + 8/5 * B^3 * ny^4)
        + 27/10 * B^2 * (ny^2 * Ty + ρ^2 * ny^3)) := by
      have := mul_le_mul_of_nonneg_left hy hpos.le
      refine le_trans this (le_of_eq ?_)
      unfold G3; field_simp; ring
    have e : 4 / (nx + ny) * (ρ * (nx * Dy + ny * Dx))
        = 4 / (nx + ny) * (nx * (ρ * Dy) + ny * (ρ * Dx)) := by ring
    rw [e]
    have h4 : (0 : K) ≤ 4 / (nx + ny) := by positivity
    calc 4 / (nx + ny) * (nx * (ρ * Dy) + ny * (ρ * Dx))
        ≤ 4 / (nx + ny) * (nx * (P3 * (ρ * (15 * u * ny * Vy + 6 * B * ny * Ty + 8/5 * B^3 * ny^4)
              + 27/10 * B^2 * (ny^2 * Ty + ρ^2 * ny^3)))
            + ny * (P3 * (ρ * (15 * u * nx * Vx + 6 * B * nx * Tx + 8/5 * B^3 * nx^4)
              + 27/10 * B^2 * (nx^2 * Tx + ρ^2 * nx^3)))) := by gcongr
      _ = _ := by field_simp; ring

theorem cube_sum_le (nx ny : K) (hnx : 0 ≤ nx) (hny : 0 ≤ ny) : nx^3 + ny^3 ≤ (nx + ny)^3 := by
  have : 0 ≤ nx * ny * (nx + ny) := by positivity
  nlinarith

theorem sq_sum_le (nx ny : K) (_hnx : 0 ≤ nx) (_hny : 0 ≤ ny) : nx^2 + ny^2 ≤ (nx + ny)^2 := by
  have : 0 ≤ nx * ny := by positivity
  nlinarith

/-- `2·n_x·n_y·(T_x+T_y) ≤ (n² - n_x²)·T_x + (n² - n_y²)·T_y` -/
theorem NT_le (nx ny Tx Ty : K) (_hnx : 0 ≤ nx) (_hny : 0 ≤ ny) (hTx : 0 ≤ Tx) (hTy : 0 ≤ Ty) :
    nx * ny * (Tx + Ty) ≤ 1/2 * (((nx + ny)^2 - nx^2) * Tx + ((nx + ny)^2 - ny^2) * Ty) := by
  have h1 : 0 ≤ ny^2 * Tx := by positivity
  have h2 : 0 ≤ nx^2 * Ty := by positivity
  have e : 1/2 * (((nx + ny)^2 - nx^2) * Tx + ((nx + ny)^2 - ny^2) * Ty) - nx * ny * (Tx + Ty)
      = 1/2 * (ny^2 * Tx) + 1/2 * (nx^2 * Ty) := by ring
  linarith

/-- `n·(n_x·T_y + n_y·T_x) ≤ (n² - n_x²)·T_x + (n² - n_y²)·T_y` -/
theorem nH_le (nx ny Tx Ty : K) (hnx : 0 ≤ nx) (hny : 0 ≤ ny) (hTx : 0 ≤ Tx) (hTy : 0 ≤ Ty) :
    (nx + ny) * (nx * Ty + ny * Tx) ≤ ((nx + ny)^2 - nx^2) * Tx + ((nx + ny)^2 - ny^2) * Ty := by
  have h1 : 0 ≤ nx * ny * Tx := by positivity
  have h2 : 0 ≤ nx * ny * Ty := by positivity
  have e : ((nx + ny)^2 - nx^2) * Tx + ((nx + ny)^2 - ny^2) * Ty - (nx + ny) * (nx * Ty + ny * Tx)
      = nx * ny * Tx + nx * ny * Ty := by ring
  linarith

/-- `n_x·n_y·(a_x + a_y) ≤ (n-1)·(n_x·a_y + n_y·a_x)` for `n_x, n_y ≥ 1` -/
theorem cross_weight_le (nx ny ax ay : K) (hnx : 1 ≤ nx) (hny : 1 ≤ ny) (hax : 0 ≤ ax) (hay : 0 ≤ ay) :
    nx * ny * (ax + ay) ≤ (nx + ny - 1) * (nx * ay + ny * ax) := by
  have h1 : 0 ≤ nx * ay * (nx - 1) := by
    have : 0 ≤ nx - 1 := by linarith
    have : 0 ≤ nx := by linarith
    positivity
  have h2 : 0 ≤ ny * ax * (ny - 1) := by
    have : 0 ≤ ny - 1 := by linarith
    have : 0 ≤ ny := by linarith
    positivity
  have e : (nx + ny - 1) * (nx * ay + ny * ax) - nx * ny * (ax + ay)
      = nx * ay * (nx - 1) + ny * ax * (ny - 1) := by ring
  linarith

/-- `n_x·n_y·(n_x·a_y + n_y·a_x) ≤ (n-1)·(n_x²·a_y + n_y²·a_x)` for `n_x, n_y ≥ 1` -/
theorem cross_weight2_le (nx ny ax ay : K) (hnx : 1 ≤ nx) (hny : 1 ≤ ny) (hax : 0 ≤ ax) (hay : 0 ≤ ay) :
    nx * ny * (nx * ay + ny * ax) ≤ (nx + ny - 1) * (nx * nx * ay + ny * ny * ax) := by
  have h1 : 0 ≤ nx * nx * ay * (nx - 1) := by
    have : 0 ≤ nx - 1 := by linarith
    have : 0 ≤ nx := by linarith
    positivity
  have h2 : 0 ≤ ny * ny * ax * (ny - 1) := by
    have : 0 ≤ ny - 1 := by linarith
    have : 0 ≤ ny := by linarith
    positivity
  have e : (nx + ny - 1) * (nx * nx * ay + ny * ny * ax) - nx * ny * (nx * ay + ny * ax)
      = nx * nx * ay * (nx - 1) + ny * ny * ax * (ny - 1) := by ring
  linarith

/-- elementary facts about the weights: `q·n = n_x·n_y`, `s·n = q`, `n_x, n_y ≥ 1` -/
theorem weight_facts (nx ny q s : K) (hnx : 1 ≤ nx) (hny : 1 ≤ ny)
    (hq : q * (nx + ny) = nx * ny) (hs : s * (nx + ny) = q) :
    0 ≤ q ∧ q ≤ nx ∧ q ≤ ny ∧ 0 ≤ s ∧ s ≤ 1/4 ∧ q ≤ 1/4 * (nx + ny) := by
  have hnx0 : 0 ≤ nx := by linarith
  have hny0 : 0 ≤ ny := by linarith
  have hn : 0 < nx + ny := by linarith
  have hq0 : 0 ≤ q := by
    have : 0 ≤ q * (nx + ny) := by rw [hq]; positivity
    exact nonneg_of_mul_nonneg_left this hn
  have hqx : q ≤ nx := by
    have : q * (nx + ny) ≤ nx * (nx + ny) := by rw [hq]; nlinarith
    exact le_of_mul_le_mul_right this hn
  have hqy : q ≤ ny := by
    have : q * (nx + ny) ≤ ny * (nx + ny) := by rw [hq]; nlinarith
    exact le_of_mul_le_mul_right this hn
  have hs0 : 0 ≤ s := by
    have : 0 ≤ s * (nx + ny) := by rw [hs]; exact hq0
    exact nonneg_of_mul_nonneg_left this hn
  have hq4 : q ≤ 1/4 * (nx + ny) := by
    have : q * (nx + ny) ≤ 1/4 * (nx + ny) * (nx + ny) := by
      rw [hq]; nlinarith [sq_nonneg (nx - ny)]
    exact le_of_mul_le_mul_right this hn
  have hs4 : s ≤ 1/4 := by
    have : s * (nx + ny) ≤ 1/4 * (nx + ny) := by rw [hs]; exact hq4
    exact le_of_mul_le_mul_right this hn
  exact ⟨hq0, hqx, hqy, hs0, hs4, hq4⟩

/-- core of `z2_split`, in abstract quantities -/
theorem z2_split_core (u B n H N2 KK d q s Qa : K) (hu : 0 ≤ u) (hB : 0 ≤ B) (hn0 : 0 ≤ n)
    (hnu : n * u ≤ 1/64) (hH0 : 0 ≤ H) (hN20 : 0 ≤ N2) (hd : 0 ≤ d) (hs0 : 0 ≤ s) (hs4 : s ≤ 1/4)
    (hq0 : 0 ≤ q) (hq4 : q ≤ 1/4 * n) (hs : s * n = q) (hqH : q * H ≤ 1/4 * KK)
    (pa : 6 * s * d^2 * H ≤ (n - 1) * Qa) :
    6 * s * ((d + B * n)^2 * (19/2 * u * H + 2/5 * B^2 * (N2 * n))
          + 4/5 * B * ((d + B * n) * H + 2 * (d + B * n)^3 * N2))
      ≤ 19/2 * u * ((n - 1) * Qa)
        + 12/5 * (B * (d^3 * N2))
        + 1053/640 * (B * (d * H))
        + 1821/1280 * (B^2 * KK)
        + 39/5 * (B^2 * (n * d^2 * N2))
        + 42/5 * (B^3 * (n^2 * d * N2))
        + 3 * (B^4 * (n^3 * N2)) := by
  have e : 6 * s * ((d + B * n)^2 * (19/2 * u * H + 2/5 * B^2 * (N2 * n))
          + 4/5 * B * ((d + B * n) * H + 2 * (d + B * n)^3 * N2))
      = 19/2 * (u * (6 * s * d^2 * H))
        + 114 * (((n * u) * s) * (B * (d * H)))
        + 57 * ((n * u) * (B^2 * ((s * n) * H)))
        + 12/5 * (B^2 * ((s * n) * (d^2 * N2)))
        + 24/5 * (B^3 * ((s * n) * (n * d * N2)))
        + 12/5 * (B^4 * ((s * n) * (n^2 * N2)))
        + 24/5 * (s * (B * (d * H)))
        + 24/5 * (B^2 * ((s * n) * H))
        + 48/5 * (s * (B * (d^3 * N2)))
        + 144/5 * (s * (B^2 * (n * d^2 * N2)))
        + 144/5 * (s * (B^3 * (n^2 * d * N2)))
        + 48/5 * (s * (B^4 * (n^3 * N2))) := by ring
  rw [e, hs]
  have hus : (n * u) * s ≤ 1/64 * (1/4) := by
    have : 0 ≤ n * u := by positivity
    exact mul_le_mul hnu hs4 hs0 (by norm_num)
  have hM1 : 0 ≤ B * (d^3 * N2) := by positivity
  have hM2 : 0 ≤ B * (d * H) := by positivity
  have hM5 : 0 ≤ B^2 * (n * d^2 * N2) := by positivity
  have hM6 : 0 ≤ B^3 * (n^2 * d * N2) := by positivity
  have hM7 : 0 ≤ B^4 * (n^3 * N2) := by positivity
  have hB2 : 0 ≤ B^2 := by positivity
  have t1 : u * (6 * s * d^2 * H) ≤ u * ((n - 1) * Qa) := mul_le_mul_of_nonneg_left pa hu
  have t2 : ((n * u) * s) * (B * (d * H)) ≤ 1/64 * (1/4) * (B * (d * H)) :=
    mul_le_mul_of_nonneg_right hus hM2
  have t8 : B^2 * (q * H) ≤ B^2 * (1/4 * KK) := mul_le_mul_of_nonneg_left hqH hB2
  have t3 : (n * u) * (B^2 * (q * H)) ≤ 1/64 * (B^2 * (1/4 * KK)) := by
    have h0 : 0 ≤ B^2 * (q * H) := by positivity
    calc (n * u) * (B^2 * (q * H)) ≤ 1/64 * (B^2 * (q * H)) := mul_le_mul_of_nonneg_right hnu h0
      _ ≤ 1/64 * (B^2 * (1/4 * KK)) := by linarith
  have t4 : B^2 * (q * (d^2 * N2)) ≤ B^2 * ((1/4 * n) * (d^2 * N2)) := by
    have : 0 ≤ d^2 * N2 := by positivity
    exact mul_le_mul_of_nonneg_left (mul_le_mul_of_nonneg_right hq4 this) hB2
  have t5 : B^3 * (q * (n * d * N2)) ≤ B^3 * ((1/4 * n) * (n * d * N2)) := by
    have : 0 ≤ n * d * N2 := by positivity
    exact mul_le_mul_of_nonneg_left (mul_le_mul_of_nonneg_right hq4 this) (by positivity)
  have t6 : B^4 * (q * (n^2 * N2)) ≤ B^4 * ((1/4 * n) * (n^2 * N2)) := by
    have : 0 ≤ n^2 * N2 := by positivity
    exact mul_le_mul_of_nonneg_left (mul_le_mul_of_nonneg_right hq4 this) (by positivity)
  have t7 : s * (B * (d * H)) ≤ 1/4 * (B * (d * H)) := mul_le_mul_of_nonneg_right hs4 hM2
  have t9 : s * (B * (d^3 * N2)) ≤ 1/4 * (B * (d^3 * N2)) := mul_le_mul_of_nonneg_right hs4 hM1
  have t10 : s * (B^2 * (n * d^2 * N2)) ≤ 1/4 * (B^2 * (n * d^2 * N2)) :=
    mul_le_mul_of_nonneg_right hs4 hM5
  have t11 : s * (B^3 * (n^2 * d * N2)) ≤ 1/4 * (B^3 * (n^2 * d * N2)) :=
    mul_le_mul_of_nonneg_right hs4 hM6
  have t12 : s * (B^4 * (n^3 * N2)) ≤ 1/4 * (B^4 * (n^3 * N2)) := mul_le_mul_of_nonneg_right hs4 hM7
  linarith

/-- the part of one step that comes through the errors of the sums of squares, sorted by monomial -/
theorem z2_split (u B nx ny Tx Ty d q s Qa : K) (hu : 0 ≤ u) (hB : 0 ≤ B)
    (hnx : 1 ≤ nx) (hny : 1 ≤ ny) (hnu : (nx + ny) * u ≤ 1/64)
    (hTx : 0 ≤ Tx) (hTy : 0 ≤ Ty) (hd : 0 ≤ d)
    (hq : q * (nx + ny) = nx * ny) (hs : s * (nx + ny) = q)
    (hQa : Qa * (nx + ny)^2 = 6 * d^2 * (nx * nx * Ty + ny * ny * Tx)) :
    6 * s * ((d + B * (nx + ny))^2 * (19/2 * u * (nx * Ty + ny * Tx) + 2/5 * B^2 * (nx * ny * (nx + ny)))
          + 4/5 * B * ((d + B * (nx + ny)) * (nx * Ty + ny * Tx) + 2 * (d + B * (nx + ny))^3 * (nx * ny)))
      ≤ 19/2 * u * ((nx + ny - 1) * Qa)
        + 12/5 * (B * (d^3 * (nx * ny)))
        + 1053/640 * (B * (d * (nx * Ty + ny * Tx)))
        + 1821/1280 * (B^2 * (((nx + ny)^2 - nx^2) * Tx + ((nx + ny)^2 - ny^2) * Ty))
        + 39/5 * (B^2 * ((nx + ny) * d^2 * (nx * ny)))
        + 42/5 * (B^3 * ((nx + ny)^2 * d * (nx * ny)))
        + 3 * (B^4 * ((nx + ny)^3 * (nx * ny))) := by
  obtain ⟨hq0, hqx, hqy, hs0, hs4, hq4⟩ := weight_facts nx ny q s hnx hny hq hs
  have hnx0 : 0 ≤ nx := by linarith
  have hny0 : 0 ≤ ny := by linarith
  have hn : 0 < nx + ny := by linarith
  have hH0 : 0 ≤ nx * Ty + ny * Tx := by positivity
  have hN20 : 0 ≤ nx * ny := by positivity
  have hnH := nH_le nx ny Tx Ty hnx0 hny0 hTx hTy
  have hqH : q * (nx * Ty + ny * Tx)
      ≤ 1/4 * (((nx + ny)^2 - nx^2) * Tx + ((nx + ny)^2 - ny^2) * Ty) := by
    calc q * (nx * Ty + ny * Tx) ≤ (1/4 * (nx + ny)) * (nx * Ty + ny * Tx) :=
          mul_le_mul_of_nonneg_right hq4 hH0
      _ = 1/4 * ((nx + ny) * (nx * Ty + ny * Tx)) := by ring
      _ ≤ _ := by linarith
  have pa : 6 * s * d^2 * (nx * Ty + ny * Tx) ≤ (nx + ny - 1) * Qa := by
    have key := cross_weight2_le nx ny Tx Ty hnx hny hTx hTy
    have : 6 * s * d^2 * (nx * Ty + ny * Tx) * (nx + ny)^2 ≤ (nx + ny - 1) * Qa * (nx + ny)^2 := by
      have hsn : s * (nx + ny)^2 = nx * ny := by
        calc s * (nx + ny)^2 = (s * (nx + ny)) * (nx + ny) := by ring
          _ = nx * ny := by rw [hs, hq]
      have e1 : 6 * s * d^2 * (nx * Ty + ny * Tx) * (nx + ny)^2
          = 6 * d^2 * (nx * ny * (nx * Ty + ny * Tx)) := by
        calc 6 * s * d^2 * (nx * Ty + ny * Tx) * (nx + ny)^2
            = 6 * d^2 * ((s * (nx + ny)^2) * (nx * Ty + ny * Tx)) := by ring
          _ = 6 * d^2 * (nx * ny * (nx * Ty + ny * Tx)) := by rw [hsn]
      have e2 : (nx + ny - 1) * Qa * (nx + ny)^2
          = 6 * d^2 * ((nx + ny - 1) * (nx * nx * Ty + ny * ny * Tx)) := by
        rw [mul_assoc, hQa]; ring
      rw [e1, e2]
      have : 0 ≤ 6 * d^2 := by positivity
      exact mul_le_mul_of_nonneg_left key this
    exact le_of_mul_le_mul_right this (by positivity)
  have h := z2_split_core u B (nx + ny) (nx * Ty + ny * Tx) (nx * ny)
    (((nx + ny)^2 - nx^2) * Tx + ((nx + ny)^2 - ny^2) * Ty) d q s Qa hu hB hn.le hnu hH0 hN20 hd hs0 hs4
    hq0 hq4 hs hqH pa
  exact h

/-- core of `z3_split`, in abstract quantities -/
theorem z3_split_core (u B n nx ny Tx Ty Vx Vy H Hv N2 KK d q Ra : K) (hu : 0 ≤ u) (hB : 0 ≤ B)
    (hn0 : 0 ≤ n) (_hnx0 : 0 ≤ nx) (_hny0 : 0 ≤ ny) (hnu : n * u ≤ 1/64) (hN20 : 0 ≤ N2) (hd : 0 ≤ d)
    (hq0 : 0 ≤ q) (_hT0 : 0 ≤ Tx + Ty) (hV0 : 0 ≤ Vx + Vy) (hq : q * n = N2)
    (hqV : q * (Vx + Vy) ≤ Hv) (hqT : q * (Tx + Ty) ≤ H) (hNT : N2 * (Tx + Ty) ≤ 1/2 * KK)
    (hqxT : q * (nx * Tx + ny * Ty) ≤ 1/2 * KK) (hc3 : nx^3 + ny^3 ≤ n^3) (hc2 : nx^2 + ny^2 ≤ n^2)
    (pa : 4 * d * (q * (Vx + Vy)) ≤ (n - 1) * Ra) :
    4 * q * ((d + B * n) * (15 * u * (Vx + Vy) + 6 * B * (Tx + Ty) + 8/5 * B^3 * (nx^3 + ny^3))
          + 27/10 * B^2 * ((nx * Tx + ny * Ty) + (d + B * n)^2 * (nx^2 + ny^2)))
      ≤ 15 * u * ((n - 1) * Ra)
        + 15/16 * (B * Hv)
        + 24 * (B * (d * H))
        + 87/5 * (B^2 * KK)
        + 54/5 * (B^2 * (n * d^2 * N2))
        + 28 * (B^3 * (n^2 * d * N2))
        + 86/5 * (B^4 * (n^3 * N2)) := by
  have hqn3 : q * n^3 = N2 * n^2 := by
    calc q * n^3 = (q * n) * n^2 := by ring
      _ = N2 * n^2 := by rw [hq]
  have hqn2 : q * n^2 = N2 * n := by
    calc q * n^2 = (q * n) * n := by ring
      _ = N2 * n := by rw [hq]
  have e : 4 * q * ((d + B * n) * (15 * u * (Vx + Vy) + 6 * B * (Tx + Ty) + 8/5 * B^3 * (nx^3 + ny^3))
          + 27/10 * B^2 * ((nx * Tx + ny * Ty) + (d + B * n)^2 * (nx^2 + ny^2)))
      = 15 * (u * (4 * d * (q * (Vx + Vy))))
        + 60 * ((n * u) * (B * (q * (Vx + Vy))))
        + 24 * (B * (d * (q * (Tx + Ty))))
        + 24 * (B^2 * ((q * n) * (Tx + Ty)))
        + 32/5 * (B^3 * (d * (q * (nx^3 + ny^3))))
        + 32/5 * (B^4 * ((q * n) * (nx^3 + ny^3)))
        + 54/5 * (B^2 * (q * (nx * Tx + ny * Ty)))
        + 54/5 * (B^2 * (d^2 * (q * (nx^2 + ny^2))))
        + 108/5 * (B^3 * (d * ((q * n) * (nx^2 + ny^2))))
        + 54/5 * (B^4 * ((q * n) * (n * (nx^2 + ny^2)))) := by ring
  rw [e, hq]
  have hB2 : 0 ≤ B^2 := by positivity
  have hB3 : 0 ≤ B^3 := by positivity
  have hB4 : 0 ≤ B^4 := by positivity
  have t1 : u * (4 * d * (q * (Vx + Vy))) ≤ u * ((n - 1) * Ra) := mul_le_mul_of_nonneg_left pa hu
  have t2 : (n * u) * (B * (q * (Vx + Vy))) ≤ 1/64 * (B * Hv) := by
    have h0 : 0 ≤ B * (q * (Vx + Vy)) := by positivity
    calc (n * u) * (B * (q * (Vx + Vy))) ≤ 1/64 * (B * (q * (Vx + Vy))) :=
          mul_le_mul_of_nonneg_right hnu h0
      _ ≤ 1/64 * (B * Hv) := by
          have := mul_le_mul_of_nonneg_left hqV hB
          linarith
  have t3 : B * (d * (q * (Tx + Ty))) ≤ B * (d * H) :=
    mul_le_mul_of_nonneg_left (mul_le_mul_of_nonneg_left hqT hd) hB
  have t4 : B^2 * (N2 * (Tx + Ty)) ≤ B^2 * (1/2 * KK) := mul_le_mul_of_nonneg_left hNT hB2
  have t5 : B^3 * (d * (q * (nx^3 + ny^3))) ≤ B^3 * (d * (N2 * n^2)) := by
    have : q * (nx^3 + ny^3) ≤ N2 * n^2 := by
      rw [← hqn3]; exact mul_le_mul_of_nonneg_left hc3 hq0
    exact mul_le_mul_of_nonneg_left (mul_le_mul_of_nonneg_left this hd) hB3
  have t6 : B^4 * (N2 * (nx^3 + ny^3)) ≤ B^4 * (N2 * n^3) :=
    mul_le_mul_of_nonneg_left (mul_le_mul_of_nonneg_left hc3 hN20) hB4
  have t7 : B^2 * (q * (nx * Tx + ny * Ty)) ≤ B^2 * (1/2 * KK) := mul_le_mul_of_nonneg_left hqxT hB2
  have t8 : B^2 * (d^2 * (q * (nx^2 + ny^2))) ≤ B^2 * (d^2 * (N2 * n)) := by
    have : q * (nx^2 + ny^2) ≤ N2 * n := by
      rw [← hqn2]; exact mul_le_mul_of_nonneg_left hc2 hq0
    exact mul_le_mul_of_nonneg_left (mul_le_mul_of_nonneg_left this (by positivity)) hB2
  have t9 : B^3 * (d * (N2 * (nx^2 + ny^2))) ≤ B^3 * (d * (N2 * n^2)) :=
    mul_le_mul_of_nonneg_left (mul_le_mul_of_nonneg_left (mul_le_mul_of_nonneg_left hc2 hN20) hd) hB3
  have t10 : B^4 * (N2 * (n * (nx^2 + ny^2))) ≤ B^4 * (N2 * (n * n^2)) :=
    mul_le_mul_of_nonneg_left
      (mul_le_mul_of_nonneg_left (mul_le_mul_of_nonneg_left hc2 hn0) hN20) hB4
  linarith

/-- the part of one step that comes through the errors of the third-order sums, sorted by monomial -/
theorem z3_split (u B nx ny Tx Ty Vx Vy d q Ra : K) (hu : 0 ≤ u) (hB : 0 ≤ B)
    (hnx : 1 ≤ nx) (hny : 1 ≤ ny) (hnu : (nx + ny) * u ≤ 1/64)
    (hTx : 0 ≤ Tx) (hTy : 0 ≤ Ty) (hVx : 0 ≤ Vx) (hVy : 0 ≤ Vy) (hd : 0 ≤ d)
    (hq : q * (nx + ny) = nx * ny)
    (hRa : Ra * (nx + ny) = 4 * d * (nx * Vy + ny * Vx)) :
    4 * q * ((d + B * (nx + ny)) * (15 * u * (Vx + Vy) + 6 * B * (Tx + Ty) + 8/5 * B^3 * (nx^3 + ny^3))
          + 27/10 * B^2 * ((nx * Tx + ny * Ty) + (d + B * (nx + ny))^2 * (nx^2 + ny^2)))
      ≤ 15 * u * ((nx + ny - 1) * Ra)
        + 15/16 * (B * (nx * Vy + ny * Vx))
        + 24 * (B * (d * (nx * Ty + ny * Tx)))
        + 87/5 * (B^2 * (((nx + ny)^2 - nx^2) * Tx + ((nx + ny)^2 - ny^2) * Ty))
        + 54/5 * (B^2 * ((nx + ny) * d^2 * (nx * ny)))
        + 28 * (B^3 * ((nx + ny)^2 * d * (nx * ny)))
        + 86/5 * (B^4 * ((nx + ny)^3 * (nx * ny))) := by
  have hne : nx + ny ≠ 0 := by linarith
  obtain ⟨hq0, hqx, hqy, _, _, _⟩ := weight_facts nx ny q (q / (nx + ny)) hnx hny hq
    (by field_simp)
  have hnx0 : 0 ≤ nx := by linarith
  have hny0 : 0 ≤ ny := by linarith
  have hn : 0 < nx + ny := by linarith
  have hN20 : 0 ≤ nx * ny := by positivity
  have hNT := NT_le nx ny Tx Ty hnx0 hny0 hTx hTy
  have hqV : q * (Vx + Vy) ≤ nx * Vy + ny * Vx := by
    have h1 : q * Vx ≤ ny * Vx := mul_le_mul_of_nonneg_right hqy hVx
    have h2 : q * Vy ≤ nx * Vy := mul_le_mul_of_nonneg_right hqx hVy
    linarith
  have hqT : q * (Tx + Ty) ≤ nx * Ty + ny * Tx := by
    have h1 : q * Tx ≤ ny * Tx := mul_le_mul_of_nonneg_right hqy hTx
    have h2 : q * Ty ≤ nx * Ty := mul_le_mul_of_nonneg_right hqx hTy
    linarith
  have pa : 4 * d * (q * (Vx + Vy)) ≤ (nx + ny - 1) * Ra := by
    have key := cross_weight_le nx ny Vx Vy hnx hny hVx hVy
    have : 4 * d * (q * (Vx + Vy)) * (nx + ny) ≤ (nx + ny - 1) * Ra * (nx + ny) := by
      have e1 : 4 * d * (q * (Vx + Vy)) * (nx + ny) = 4 * d * (nx * ny * (Vx + Vy)) := by
        calc 4 * d * (q * (Vx + Vy)) * (nx + ny) = 4 * d * ((q * (nx + ny)) * (Vx + Vy)) := by ring
          _ = 4 * d * (nx * ny * (Vx + Vy)) := by rw [hq]
      have e2 : (nx + ny - 1) * Ra * (nx + ny) = 4 * d * ((nx + ny - 1) * (nx * Vy + ny * Vx)) := by
        rw [mul_assoc, hRa]; ring
      rw [e1, e2]
      have : 0 ≤ 4 * d := by positivity
      exact mul_le_mul_of_nonneg_left key this
    exact le_of_mul_le_mul_right this hn
  have hc3 := cube_sum_le nx ny hnx0 hny0
  have hc2 := sq_sum_le nx ny hnx0 hny0
  have hqxT : q * (nx * Tx + ny * Ty)
      ≤ 1/2 * (((nx + ny)^2 - nx^2) * Tx + ((nx + ny)^2 - ny^2) * Ty) := by
    have h1 : q * (nx * Tx) ≤ ny * (nx * Tx) := mul_le_mul_of_nonneg_right hqy (by positivity)
    have h2 : q * (ny * Ty) ≤ nx * (ny * Ty) := mul_le_mul_of_nonneg_right hqx (by positivity)
    have : q * (nx * Tx + ny * Ty) ≤ nx * ny * (Tx + Ty) := by
      calc q * (nx * Tx + ny * Ty) = q * (nx * Tx) + q * (ny * Ty) := by ring
        _ ≤ ny * (nx * Tx) + nx * (ny * Ty) := by linarith only [h1, h2]
        _ = nx * ny * (Tx + Ty) := by ring
    linarith only [this, hNT]
  exact z3_split_core u B (nx + ny) nx ny Tx Ty Vx Vy (nx * Ty + ny * Tx) (nx * Vy + ny * Vx) (nx * ny)
    (((nx + ny)^2 - nx^2) * Tx + ((nx + ny)^2 - ny^2) * Ty) d q Ra hu hB hn.le hnx0 hny0 hnu hN20 hd hq0
    (by positivity) (by positivity) hq hqV hqT hNT hqxT hc3 hc2 pa

/-- the relative roundings are paid by the growth of `30·u·n·V4`: `a = d⁴·w`, `b = Qa`, `c = Ra` -/
theorem rel_family4 (u gA gB gC a b c Vx Vy nx ny : K) (hu : 0 ≤ u)
    (hgA : gA ≤ 55 * u) (hgB : gB ≤ 76/5 * u) (hgC : gC ≤ 81/10 * u)
    (ha : 0 ≤ a) (hb : 0 ≤ b) (hc : 0 ≤ c)
    (hnx : 1 ≤ nx) (hny : 1 ≤ ny) (hVx : 0 ≤ Vx) (hVy : 0 ≤ Vy) :
    gA * a + gB * b + gC * c + 4 * u * (Vx + Vy + (a + b + c))
        + 21/20 * (19/2 * u * ((nx + ny - 1) * b)) + 53/50 * (15 * u * ((nx + ny - 1) * c))
      ≤ 30 * u * (ny * Vx + nx * Vy + (nx + ny) * (a + b + c)) := by
  have h01 : gA * a ≤ 55 * u * a := by gcongr
  have h02 : gB * b ≤ 76/5 * u * b := by gcongr
  have h03 : gC * c ≤ 81/10 * u * c := by gcongr
  have h1 : u * Vx ≤ u * (ny * Vx) := by
    have : Vx ≤ ny * Vx := by nlinarith
    gcongr
  have h2 : u * Vy ≤ u * (nx * Vy) := by
    have : Vy ≤ nx * Vy := by nlinarith
    gcongr
  have hn2 : 2 ≤ nx + ny := by linarith
  have ha' : u * (2 * a) ≤ u * ((nx + ny) * a) := by
    have : 2 * a ≤ (nx + ny) * a := by nlinarith
    gcongr
  have hb' : u * (2 * b) ≤ u * ((nx + ny) * b) := by
    have : 2 * b ≤ (nx + ny) * b := by nlinarith
    gcongr
  have hc' : u * (2 * c) ≤ u * ((nx + ny) * c) := by
    have : 2 * c ≤ (nx + ny) * c := by nlinarith
    gcongr
  have h8 : 0 ≤ u * (ny * Vx) := by positivity
  have h9 : 0 ≤ u * (nx * Vy) := by positivity
  have hua : 0 ≤ u * a := by positivity
  have hub : 0 ≤ u * b := by positivity
  have huc : 0 ≤ u * c := by positivity
  have hnb : 0 ≤ u * ((nx + ny) * b) := by positivity
  have hnc : 0 ≤ u * ((nx + ny) * c) := by positivity
  have eb : u * ((nx + ny - 1) * b) = u * ((nx + ny) * b) - u * b := by ring
  have ec : u * ((nx + ny - 1) * c) = u * ((nx + ny) * c) - u * c := by ring
  have e1 : 21/20 * (19/2 * u * ((nx + ny - 1) * b)) = 399/40 * (u * ((nx + ny - 1) * b)) := by ring
  have e2 : 53/50 * (15 * u * ((nx + ny - 1) * c)) = 159/10 * (u * ((nx + ny - 1) * c)) := by ring
  rw [e1, e2, eb, ec]
  linarith

/-- the first cross term perturbed by the error `B·(n_x+n_y)` of the difference of the means -/
theorem e4_le (gA B nx ny d q w : K) (hgA0 : 0 ≤ gA) (hgA1 : 1 + gA ≤ 103/100) (hB : 0 ≤ B)
    (hnx : 0 ≤ nx) (hny : 0 ≤ ny) (hd : 0 ≤ d) (hq : q * (nx + ny) = nx * ny) (_hw0 : 0 ≤ w)
    (hw : w ≤ q) :
    (1 + gA) * (w * (4 * d^3 * (B * (nx + ny)) + 6 * d^2 * (B * (nx + ny))^2
        + 4 * d * (B * (nx + ny))^3 + (B * (nx + ny))^4))
      ≤ 103/100 * (4 * (B * (d^3 * (nx * ny))) + 6 * (B^2 * ((nx + ny) * d^2 * (nx * ny)))
          + 4 * (B^3 * ((nx + ny)^2 * d * (nx * ny))) + B^4 * ((nx + ny)^3 * (nx * ny))) := by
  have h0 : 0 ≤ 4 * d^3 * (B * (nx + ny)) + 6 * d^2 * (B * (nx + ny))^2
      + 4 * d * (B * (nx + ny))^3 + (B * (nx + ny))^4 := by positivity
  have h1 : w * (4 * d^3 * (B * (nx + ny)) + 6 * d^2 * (B * (nx + ny))^2
        + 4 * d * (B * (nx + ny))^3 + (B * (nx + ny))^4)
      ≤ q * (4 * d^3 * (B * (nx + ny)) + 6 * d^2 * (B * (nx + ny))^2
        + 4 * d * (B * (nx + ny))^3 + (B * (nx + ny))^4) := by gcongr
  have h2 : q * (4 * d^3 * (B * (nx + ny)) + 6 * d^2 * (B * (nx + ny))^2
        + 4 * d * (B * (nx + ny))^3 + (B * (nx + ny))^4)
      = 4 * (B * (d^3 * (nx * ny))) + 6 * (B^2 * ((nx + ny) * d^2 * (nx * ny)))
          + 4 * (B^3 * ((nx + ny)^2 * d * (nx * ny))) + B^4 * ((nx + ny)^3 * (nx * ny)) := by
    rw [← hq]; ring
  have h3 : 0 ≤ 4 * (B * (d^3 * (nx * ny))) + 6 * (B^2 * ((nx + ny) * d^2 * (nx * ny)))
      + 4 * (B^3 * ((nx + ny)^2 * d * (nx * ny))) + B^4 * ((nx + ny)^3 * (nx * ny)) := by positivity
  have h4 : 0 ≤ 1 + gA := by linarith
  calc _ ≤ (1 + gA) * (4 * (B * (d^3 * (nx * ny))) + 6 * (B^2 * ((nx + ny) * d^2 * (nx * ny)))
          + 4 * (B^3 * ((nx + ny)^2 * d * (nx * ny))) + B^4 * ((nx + ny)^3 * (nx * ny))) := by
        rw [← h2]; gcongr
    _ ≤ _ := by gcongr

end KurtMerge

#print axioms KurtMerge.z2_bound
#print axioms KurtMerge.z3_bound
#print axioms KurtMerge.z2_split
#print axioms KurtMerge.z3_split
#print axioms KurtMerge.rel_family4
