import AvgProofs.MeanMergeTransfer

/-!
# The `(avg_x, n, sum_x_2)` and `(avg_y, n, sum_y_2)` parts of `Covariance` are `Variance` folds

Any carrier, no Mathlib, all by unfolding: `Covariance.add` updates `avg_x`, `sum_x_2` (and `avg_y`,
`sum_y_2`) with the text of `Variance.add` (`delta_n = (x - avg)/n`,
`sum_2 += delta_n·delta_n·n·(n - 1)`), so after any add-only stream of pairs the triple
`(avg_x, n, sum_x_2)` is bit for bit the `Variance` state after the stream of the first components,
and likewise for `y`. (Through `merge` this is *not* so: `Covariance.merge` computes
`delta·delta·n_a·n_b/n` in the same order as `Variance.merge`, but this file is only about `add`.)

Also: `Covariance.fold_n_ce` (the count is the number of pairs) and the textual form of the `sum_prod`
update.
-/
namespace Avg
variable {α : Type} [Add α] [Sub α] [Mul α] [Div α] [NatCast α]

/-- the `x` part of a `Covariance` state, as a `Variance` state -/
def Covariance.varXState (s : Covariance α) : Variance α := ⟨⟨s.avg_x, s.n⟩, s.sum_x_2⟩
/-- the `y` part of a `Covariance` state, as a `Variance` state -/
def Covariance.varYState (s : Covariance α) : Variance α := ⟨⟨s.avg_y, s.n⟩, s.sum_y_2⟩

omit [Add α] [Sub α] [Mul α] [Div α] in
theorem Covariance.new_varXState : (Covariance.new : Covariance α).varXState = Variance.new := rfl
omit [Add α] [Sub α] [Mul α] [Div α] in
theorem Covariance.new_varYState : (Covariance.new : Covariance α).varYState = Variance.new := rfl

/-- one `add`: the `x` part is updated exactly as `Variance.add` updates a `Variance` -/
theorem Covariance.add_varXState (s : Covariance α) (x y : α) :
    (s.add x y).varXState = s.varXState.add x := rfl
/-- one `add`: the `y` part is updated exactly as `Variance.add` updates a `Variance` -/
theorem Covariance.add_varYState (s : Covariance α) (x y : α) :
    (s.add x y).varYState = s.varYState.add y := rfl

theorem Covariance.fold_varXState (ps : List (α × α)) (s : Covariance α) :
    (ps.foldl (fun s p => s.add p.1 p.2) s).varXState
      = (ps.map Prod.fst).foldl Variance.add s.varXState := by
  induction ps generalizing s with
  | nil => rfl
  | cons p ps ih => rw [List.foldl_cons, ih, Covariance.add_varXState]; rfl
theorem Covariance.fold_varYState (ps : List (α × α)) (s : Covariance α) :
    (ps.foldl (fun s p => s.add p.1 p.2) s).varYState
      = (ps.map Prod.snd).foldl Variance.add s.varYState := by
  induction ps generalizing s with
  | nil => rfl
  | cons p ps ih => rw [List.foldl_cons, ih, Covariance.add_varYState]; rfl

/-- **Bit for bit.** After any add-only stream of pairs the fields `avg_x`, `n`, `sum_x_2` of
`Covariance` are the fields of `Variance` after the stream of the first components. -/
theorem Covariance.fold_varX (ps : List (α × α)) :
    (ps.foldl (fun s p => s.add p.1 p.2) Covariance.new).varXState
      = (ps.map Prod.fst).foldl Variance.add Variance.new :=
  Covariance.fold_varXState ps Covariance.new
/-- likewise `avg_y`, `n`, `sum_y_2` and the second components -/
theorem Covariance.fold_varY (ps : List (α × α)) :
    (ps.foldl (fun s p => s.add p.1 p.2) Covariance.new).varYState
      = (ps.map Prod.snd).foldl Variance.add Variance.new :=
  Covariance.fold_varYState ps Covariance.new

theorem Covariance.fold_sum_x_2 (ps : List (α × α)) :
    (ps.foldl (fun s p => s.add p.1 p.2) Covariance.new).sum_x_2
      = ((ps.map Prod.fst).foldl Variance.add Variance.new).sum_2 :=
  congrArg Variance.sum_2 (Covariance.fold_varX ps)
theorem Covariance.fold_sum_y_2 (ps : List (α × α)) :
    (ps.foldl (fun s p => s.add p.1 p.2) Covariance.new).sum_y_2
      = ((ps.map Prod.snd).foldl Variance.add Variance.new).sum_2 :=
  congrArg Variance.sum_2 (Covariance.fold_varY ps)

theorem Covariance.fold_avg_x (ps : List (α × α)) :
    (ps.foldl (fun s p => s.add p.1 p.2) Covariance.new).avg_x
      = ((ps.map Prod.fst).foldl Mean.add Mean.new).avg :=
  congrArg Mean.avg (Covariance.fold_meanXState ps Covariance.new)
theorem Covariance.fold_avg_y (ps : List (α × α)) :
    (ps.foldl (fun s p => s.add p.1 p.2) Covariance.new).avg_y
      = ((ps.map Prod.snd).foldl Mean.add Mean.new).avg :=
  congrArg Mean.avg (Covariance.fold_meanYState ps Covariance.new)

/-- any carrier: the count kept by `Covariance` is the number of pairs added -/
theorem Covariance.fold_n_ce (ps : List (α × α)) (s : Covariance α) :
    (ps.foldl (fun s p => s.add p.1 p.2) s).n = s.n + ps.length := by
  induction ps generalizing s with
  | nil => rfl
  | cons p ps ih =>
    rw [List.foldl_cons, ih, List.length_cons]
    show s.n + 1 + ps.length = s.n + (ps.length + 1)
    omega

theorem Covariance.fold_n_new (ps : List (α × α)) :
    (ps.foldl (fun s p => s.add p.1 p.2) (Covariance.new : Covariance α)).n = ps.length := by
  rw [Covariance.fold_n_ce]; show 0 + ps.length = ps.length; omega

/-- the text of the `sum_prod` update: old `x`-mean, *new* `y`-mean -/
theorem Covariance.add_sum_prod (s : Covariance α) (x y : α) :
    (s.add x y).sum_prod = s.sum_prod + (x - s.avg_x) * (y - (s.add x y).avg_y) := rfl


section accessors
variable [FloatOps α]

omit [Add α] [Sub α] [Mul α] in
/-- `population_variance_x` is `Variance.population_variance` of the `x` part (same guard, same division) -/
theorem Covariance.populationVarianceX_eq (s : Covariance α) :
    s.populationVarianceX = s.varXState.populationVariance := rfl
omit [Add α] [Sub α] [Mul α] in
theorem Covariance.populationVarianceY_eq (s : Covariance α) :
    s.populationVarianceY = s.varYState.populationVariance := rfl
omit [Add α] [Sub α] [Mul α] in
/-- `sample_variance_x` is `Variance.sample_variance` of the `x` part -/
theorem Covariance.sampleVarianceX_eq (s : Covariance α) :
    s.sampleVarianceX = s.varXState.sampleVariance := rfl
omit [Add α] [Sub α] [Mul α] in
theorem Covariance.sampleVarianceY_eq (s : Covariance α) :
    s.sampleVarianceY = s.varYState.sampleVariance := rfl

end accessors

end Avg
