import AvgModel.Moments4
/-! Projections: each estimator of the chain Kurtosis → Skewness → Variance → Mean updates its inner
estimator exactly as that estimator updates itself. Any carrier; all by unfolding. -/
namespace Avg
variable {α : Type} [Add α] [Sub α] [Mul α] [Div α] [NatCast α]

theorem Kurtosis.add_avg (s : Kurtosis α) (x : α) : (s.add x).avg = s.avg.add x := rfl
theorem Skewness.add_avg (s : Skewness α) (x : α) : (s.add x).avg = s.avg.add x := rfl
theorem Variance.add_avg (s : Variance α) (x : α) : (s.add x).avg = s.avg.add x := rfl

theorem Kurtosis.merge_avg (s o : Kurtosis α) : (s.merge o).avg = s.avg.merge o.avg := by
  unfold Kurtosis.merge Skewness.merge
  by_cases h1 : o.avg.avg.avg.n = 0
  · simp only [h1, if_true]
  · by_cases h2 : s.avg.avg.avg.n = 0
    · simp only [h1, h2, if_true, if_false]
    · simp only [h1, h2, if_false]
theorem Skewness.merge_avg (s o : Skewness α) : (s.merge o).avg = s.avg.merge o.avg := by
  unfold Skewness.merge Variance.merge
  by_cases h1 : o.avg.avg.n = 0
  · simp only [h1, if_true]
  · by_cases h2 : s.avg.avg.n = 0
    · simp only [h1, h2, if_true, if_false]
    · simp only [h1, h2, if_false]
theorem Variance.merge_avg (s o : Variance α) : (s.merge o).avg = s.avg.merge o.avg := by
  unfold Variance.merge Mean.merge
  by_cases h1 : o.avg.n = 0
  · simp only [h1, if_true]
  · by_cases h2 : s.avg.n = 0
    · simp only [h1, h2, if_true, if_false]
    · simp only [h1, h2, if_false]

theorem Kurtosis.fold_avg (xs : List α) (s : Kurtosis α) :
    (xs.foldl Kurtosis.add s).avg = xs.foldl Skewness.add s.avg := by
  induction xs generalizing s with
  | nil => rfl
  | cons x xs ih => simp only [List.foldl_cons, ih, Kurtosis.add_avg]
theorem Skewness.fold_avg (xs : List α) (s : Skewness α) :
    (xs.foldl Skewness.add s).avg = xs.foldl Variance.add s.avg := by
  induction xs generalizing s with
  | nil => rfl
  | cons x xs ih => simp only [List.foldl_cons, ih, Skewness.add_avg]
theorem Variance.fold_avg (xs : List α) (s : Variance α) :
    (xs.foldl Variance.add s).avg = xs.foldl Mean.add s.avg := by
  induction xs generalizing s with
  | nil => rfl
  | cons x xs ih => simp only [List.foldl_cons, ih, Variance.add_avg]

end Avg
