import AvgProofs.KurtMergeErrArith

/-!
# The square-root-free invariant of the merge-tree induction for `sum_4` and its super-additivity

`KurtMerge.G4 u B Λ κ n V4 V3 T = 30·u·n·V4 + 14·B·n·V3 + 27·B²·n²·T + (25/2)·B²·Λ·n³·T + (25/2)·B²·κ·n⁴ + 6·B⁴·n⁵`
with two free parameters `Λ, κ ≥ 0`, `B² ≤ Λ·κ` (`B` = per-observation error budget of the mean, `V4` the scale
`V4T` of the tree, `V3` the third-order scale `V3S`, `T` the exact sum of squares). With `Λ = B·n/R₀`, `κ = B·R₀/n`,
`n·T ≤ R₀²` the two middle terms are at most `25·B³·n³·R₀`.

* `KurtMerge.superadd4`: `G4(n_x,…) + G4(n_y,…) + (errors committed by one merge) ≤ G4(n_x+n_y, …)` for the *same*
  `Λ, κ`:
  - the relative roundings (`γ·P`, `γ·Qc`, `γ·Ra`, the four final additions, the relative errors `(19/2)·n·u·T` of
    the sums of squares and `15·n·u·V3` of the third-order sums) are paid by
    `30·u·(n·V4 - n_x·V4_x - n_y·V4_y) = 30·u·(n_y·V4_x + n_x·V4_y + n·J4)`;
  - the terms linear in the budget `B` of the mean (`B·d³·n_x·n_y`, `B·d·H`, `B·Hv`) by
    `14·B·(n_y·V3_x + n_x·V3_y + n·J3)`, `n·J3 = d³·n_x·n_y + 3·d·H` - this is why the third-order scale carries
    the weight `n_x·n_y/n` of `d³`;
  - the terms in `B²` by `27·B²·(n²·T - n_x²·T_x - n_y²·T_y)`;
  - the terms `B³·n²·d·n_x·n_y` by AM-GM against `(25/2)·B²·Λ·n²·d²·n_x·n_y + (75/2)·B²·κ·n²·n_x·n_y`;
  - the terms `B⁴·n³·n_x·n_y` by `6·B⁴·(n⁵ - n_x⁵ - n_y⁵)`.
* `KurtMerge.node_arith4`: the whole arithmetic of one step of the induction, leading factor `(1+u)^(4n)`.
-/
variable {K : Type} [Field K] [LinearOrder K] [IsStrictOrderedRing K]

namespace KurtMerge
open VarMerge SkewMerge

/-- the envelope of `sum_4` carried through the merge tree -/
def G4 (u B Λ κ n V4 V3 Tn : K) : K :=
  30 * u * n * V4 + 14 * B * n * V3 + 27 * B^2 * n^2 * Tn + 25/2 * B^2 * Λ * n^3 * Tn
    + 25/2 * B^2 * κ * n^4 + 6 * B^4 * n^5

theorem G4_nonneg (u B Λ κ n V4 V3 Tn : K) (hu : 0 ≤ u) (hB : 0 ≤ B) (hΛ : 0 ≤ Λ) (hκ : 0 ≤ κ)
    (hn : 0 ≤ n) (hV4 : 0 ≤ V4) (hV3 : 0 ≤ V3) (hT : 0 ≤ Tn) : 0 ≤ G4 u B Λ κ n V4 V3 Tn := by
  unfold G4; positivity

/-- AM-GM in the form used by the merge step -/
theorem amgm4 (Λ κ B D : K) (hΛ : 0 ≤ Λ) (hκ : 0 ≤ κ) (hΛκ : B^2 ≤ Λ * κ) :
    427/10 * B * D ≤ 25/2 * Λ * D^2 + 75/2 * κ := by
  rcases hΛ.eq_or_lt with h0 | hpos
  · have hB0 : B = 0 := by
      rw [← h0, zero_mul] at hΛκ
      exact pow_eq_zero_iff (two_ne_zero) |>.mp (le_antisymm hΛκ (sq_nonneg B))
    rw [hB0, ← h0]
    have : 0 ≤ 75/2 * κ := by positivity
    simpa using this
  · have key : 0 ≤ (25/2 * Λ) * (25/2 * Λ * D^2 + 75/2 * κ - 427/10 * B * D) := by
      have hΛκ0 : 0 ≤ Λ * κ := by positivity
      nlinarith [sq_nonneg (25/2 * Λ * D - 427/20 * B)]
    by_contra h
    rw [not_le] at h
    have : (25/2 * Λ) * (25/2 * Λ * D^2 + 75/2 * κ - 427/10 * B * D) < 0 :=
      mul_neg_of_pos_of_neg (by positivity) (by linarith)
    linarith

/-- `(15/4)·n³·n_x·n_y ≤ n⁵ - n_x⁵ - n_y⁵` -/
theorem quintic_growth (nx ny : K) (hnx : 0 ≤ nx) (hny : 0 ≤ ny) :
    15/4 * ((nx + ny)^3 * (nx * ny)) ≤ (nx + ny)^5 - nx^5 - ny^5 := by
  have e : (nx + ny)^5 - nx^5 - ny^5 - 15/4 * ((nx + ny)^3 * (nx * ny))
      = 5/4 * (nx * ny * (nx + ny) * (nx - ny)^2) := by ring
  have : 0 ≤ nx * ny * (nx + ny) * (nx - ny)^2 := by positivity
  linarith

/-- `n³·T - n_x³·T_x - n_y³·T_y ≥ 0` -/
theorem cube_growth (nx ny Tx Ty : K) (hnx : 0 ≤ nx) (hny : 0 ≤ ny) (hTx : 0 ≤ Tx) (hTy : 0 ≤ Ty) :
    0 ≤ ((nx + ny)^3 - nx^3) * Tx + ((nx + ny)^3 - ny^3) * Ty := by
  have h1 : nx^3 ≤ (nx + ny)^3 := by
    have := cube_sum_le nx ny hnx hny
    have : 0 ≤ ny^3 := by positivity
    linarith
  have h2 : ny^3 ≤ (nx + ny)^3 := by
    have := cube_sum_le nx ny hnx hny
    have : 0 ≤ nx^3 := by positivity
    linarith
  have : 0 ≤ ((nx + ny)^3 - nx^3) * Tx := mul_nonneg (by linarith) hTx
  have : 0 ≤ ((nx + ny)^3 - ny^3) * Ty := mul_nonneg (by linarith) hTy
  linarith

/-- the growth of the envelope under one merge (pure algebra) -/
theorem G4_diff (u B Λ κ nx ny Tx Ty V3x V3y V4x V4y J4 J3 C : K) :
    G4 u B Λ κ (nx + ny) (V4x + V4y + J4) (V3x + V3y + J3) (Tx + Ty + C)
        - G4 u B Λ κ nx V4x V3x Tx - G4 u B Λ κ ny V4y V3y Ty
      = 30 * u * (ny * V4x + nx * V4y + (nx + ny) * J4)
        + 14 * (B * (nx * V3y + ny * V3x)) + 14 * (B * ((nx + ny) * J3))
        + 27 * (B^2 * (((nx + ny)^2 - nx^2) * Tx + ((nx + ny)^2 - ny^2) * Ty))
        + 27 * (B^2 * ((nx + ny)^2 * C))
        + 25/2 * (B^2 * Λ * (((nx + ny)^3 - nx^3) * Tx + ((nx + ny)^3 - ny^3) * Ty))
        + 25/2 * (B^2 * Λ * ((nx + ny)^3 * C))
        + 25/2 * (B^2 * κ * ((nx + ny)^4 - nx^4 - ny^4))
        + 6 * (B^4 * ((nx + ny)^5 - nx^5 - ny^5)) := by
  unfold G4; ring

/-- the new errors of one merge in the form in which they enter the super-additivity:
`gA, gB, gC` the relative errors of the three computed cross terms, `Z2t`, `Z3t` the contributions of the errors of
the sums of squares and of the third-order sums -/
def stepX4 (gA gB gC B nx ny d w Qa Ra H Kx Hv Z2t Z3t : K) : K :=
  gA * (d^4 * w) + gB * Qa + gC * Ra
    + (1 + gA) * (w * (4 * d^3 * (B * (nx + ny)) + 6 * d^2 * (B * (nx + ny))^2
        + 4 * d * (B * (nx + ny))^3 + (B * (nx + ny))^4))
    + (1 + gB) * (12 * (B * (d * H)) + 6 * (B^2 * Kx) + Z2t)
    + (1 + gC) * (4 * (B * Hv) + Z3t)

theorem stepX4_nonneg (gA gB gC B nx ny d w Qa Ra H Kx Hv Z2t Z3t : K) (hgA : 0 ≤ gA) (hgB : 0 ≤ gB)
    (hgC : 0 ≤ gC) (hB : 0 ≤ B) (hnx : 0 ≤ nx) (hny : 0 ≤ ny) (hd : 0 ≤ d) (hw : 0 ≤ w) (hQa : 0 ≤ Qa)
    (hRa : 0 ≤ Ra) (hH : 0 ≤ H) (hKx : 0 ≤ Kx) (hHv : 0 ≤ Hv) (hZ2 : 0 ≤ Z2t) (hZ3 : 0 ≤ Z3t) :
    0 ≤ stepX4 gA gB gC B nx ny d w Qa Ra H Kx Hv Z2t Z3t := by
  unfold stepX4; positivity

/-- the contribution of the errors of the two sums of squares to one step, sorted by monomial -/
theorem z2_total (u B gB P2 nx ny Tx Ty d q s Qa Z2t : K) (hu : 0 ≤ u) (hB : 0 ≤ B)
    (hgB0 : 0 ≤ gB) (hgB1 : 1 + gB ≤ 101/100) (hP2 : 0 ≤ P2) (hP2' : P2 ≤ 32/31)
    (hnx : 1 ≤ nx) (hny : 1 ≤ ny) (hnu : (nx + ny) * u ≤ 1/64)
    (hTx : 0 ≤ Tx) (hTy : 0 ≤ Ty) (hd : 0 ≤ d)
    (hq : q * (nx + ny) = nx * ny) (hs : s * (nx + ny) = q)
    (hQa0 : 0 ≤ Qa) (hQa : Qa * (nx + ny)^2 = 6 * d^2 * (nx * nx * Ty + ny * ny * Tx))
    (hZ2 : Z2t ≤ 6 * P2 * s
          * ((d + B * (nx + ny))^2 * (19/2 * u * (nx * Ty + ny * Tx) + 2/5 * B^2 * (nx * ny * (nx + ny)))
              + 4/5 * B * ((d + B * (nx + ny)) * (nx * Ty + ny * Tx)
                  + 2 * (d + B * (nx + ny))^3 * (nx * ny)))) :
    (1 + gB) * Z2t ≤ 21/20 * (19/2 * u * ((nx + ny - 1) * Qa)
        + 12/5 * (B * (d^3 * (nx * ny)))
        + 1053/640 * (B * (d * (nx * Ty + ny * Tx)))
        + 1821/1280 * (B^2 * (((nx + ny)^2 - nx^2) * Tx + ((nx + ny)^2 - ny^2) * Ty))
        + 39/5 * (B^2 * ((nx + ny) * d^2 * (nx * ny)))
        + 42/5 * (B^3 * ((nx + ny)^2 * d * (nx * ny)))
        + 3 * (B^4 * ((nx + ny)^3 * (nx * ny)))) := by
  have hnx0 : 0 ≤ nx := by linarith
  have hny0 : 0 ≤ ny := by linarith
  have hKK0 : 0 ≤ ((nx + ny)^2 - nx^2) * Tx + ((nx + ny)^2 - ny^2) * Ty := by
    have := nH_le nx ny Tx Ty hnx0 hny0 hTx hTy
    have : 0 ≤ (nx + ny) * (nx * Ty + ny * Tx) := by positivity
    linarith
  have hsplit2 := z2_split u B nx ny Tx Ty d q s Qa hu hB hnx hny hnu hTx hTy hd hq hs hQa
  have hI2 : 0 ≤ 19/2 * u * ((nx + ny - 1) * Qa)
        + 12/5 * (B * (d^3 * (nx * ny)))
        + 1053/640 * (B * (d * (nx * Ty + ny * Tx)))
        + 1821/1280 * (B^2 * (((nx + ny)^2 - nx^2) * Tx + ((nx + ny)^2 - ny^2) * Ty))
        + 39/5 * (B^2 * ((nx + ny) * d^2 * (nx * ny)))
        + 42/5 * (B^3 * ((nx + ny)^2 * d * (nx * ny)))
        + 3 * (B^4 * ((nx + ny)^3 * (nx * ny))) := by
    have : 0 ≤ nx + ny - 1 := by linarith
    positivity
  have hZ2' : (1 + gB) * Z2t ≤ 21/20 * (19/2 * u * ((nx + ny - 1) * Qa)
        + 12/5 * (B * (d^3 * (nx * ny)))
        + 1053/640 * (B * (d * (nx * Ty + ny * Tx)))
        + 1821/1280 * (B^2 * (((nx + ny)^2 - nx^2) * Tx + ((nx + ny)^2 - ny^2) * Ty))
        + 39/5 * (B^2 * ((nx + ny) * d^2 * (nx * ny)))
        + 42/5 * (B^3 * ((nx + ny)^2 * d * (nx * ny)))
        + 3 * (B^4 * ((nx + ny)^3 * (nx * ny)))) := by
    have h1 : Z2t ≤ P2 * (19/2 * u * ((nx + ny - 1) * Qa)
        + 12/5 * (B * (d^3 * (nx * ny)))
        + 1053/640 * (B * (d * (nx * Ty + ny * Tx)))
        + 1821/1280 * (B^2 * (((nx + ny)^2 - nx^2) * Tx + ((nx + ny)^2 - ny^2) * Ty))
        + 39/5 * (B^2 * ((nx + ny) * d^2 * (nx * ny)))
        + 42/5 * (B^3 * ((nx + ny)^2 * d * (nx * ny)))
        + 3 * (B^4 * ((nx + ny)^3 * (nx * ny)))) := by
      refine le_trans hZ2 ?_
      have := mul_le_mul_of_nonneg_left hsplit2 hP2
      refine le_trans (le_of_eq ?_) this
      ring
    have h2 : (1 + gB) * P2 ≤ 21/20 := by
      calc (1 + gB) * P2 ≤ 101/100 * (32/31) := by gcongr
        _ ≤ 21/20 := by norm_num
    have h3 : (1 + gB) * Z2t ≤ (1 + gB) * (P2 * (19/2 * u * ((nx + ny - 1) * Qa)
        + 12/5 * (B * (d^3 * (nx * ny)))
        + 1053/640 * (B * (d * (nx * Ty + ny * Tx)))
        + 1821/1280 * (B^2 * (((nx + ny)^2 - nx^2) * Tx + ((nx + ny)^2 - ny^2) * Ty))
        + 39/5 * (B^2 * ((nx + ny) * d^2 * (nx * ny)))
        + 42/5 * (B^3 * ((nx + ny)^2 * d * (nx * ny)))
        + 3 * (B^4 * ((nx + ny)^3 * (nx * ny))))) := by
      have : 0 ≤ 1 + gB := by linarith
      gcongr
    refine le_trans h3 ?_
    rw [← mul_assoc]
    gcongr
  exact hZ2'

/-- the contribution of the errors of the two third-order sums to one step, sorted by monomial -/
theorem z3_total (u B gC P3 nx ny Tx Ty V3x V3y d q Ra Z3t : K) (hu : 0 ≤ u) (hB : 0 ≤ B)
    (hgC0 : 0 ≤ gC) (hgC1 : 1 + gC ≤ 201/200) (hP3 : 0 ≤ P3) (hP3' : P3 ≤ 64/61)
    (hnx : 1 ≤ nx) (hny : 1 ≤ ny) (hnu : (nx + ny) * u ≤ 1/64)
    (hTx : 0 ≤ Tx) (hTy : 0 ≤ Ty) (hV3x : 0 ≤ V3x) (hV3y : 0 ≤ V3y) (hd : 0 ≤ d)
    (hq : q * (nx + ny) = nx * ny)
    (hRa0 : 0 ≤ Ra) (hRa : Ra * (nx + ny) = 4 * d * (nx * V3y + ny * V3x))
    (hZ3 : Z3t ≤ 4 * P3 * q
          * ((d + B * (nx + ny)) * (15 * u * (V3x + V3y) + 6 * B * (Tx + Ty) + 8/5 * B^3 * (nx^3 + ny^3))
              + 27/10 * B^2 * ((nx * Tx + ny * Ty) + (d + B * (nx + ny))^2 * (nx^2 + ny^2)))) :
    (1 + gC) * Z3t ≤ 53/50 * (15 * u * ((nx + ny - 1) * Ra)
        + 15/16 * (B * (nx * V3y + ny * V3x))
        + 24 * (B * (d * (nx * Ty + ny * Tx)))
        + 87/5 * (B^2 * (((nx + ny)^2 - nx^2) * Tx + ((nx + ny)^2 - ny^2) * Ty))
        + 54/5 * (B^2 * ((nx + ny) * d^2 * (nx * ny)))
        + 28 * (B^3 * ((nx + ny)^2 * d * (nx * ny)))
        + 86/5 * (B^4 * ((nx + ny)^3 * (nx * ny)))) := by
  have hnx0 : 0 ≤ nx := by linarith
  have hny0 : 0 ≤ ny := by linarith
  have hKK0 : 0 ≤ ((nx + ny)^2 - nx^2) * Tx + ((nx + ny)^2 - ny^2) * Ty := by
    have := nH_le nx ny Tx Ty hnx0 hny0 hTx hTy
    have : 0 ≤ (nx + ny) * (nx * Ty + ny * Tx) := by positivity
    linarith
  have hsplit3 := z3_split u B nx ny Tx Ty V3x V3y d q Ra hu hB hnx hny hnu hTx hTy hV3x hV3y hd hq hRa
  have hI3 : 0 ≤ 15 * u * ((nx + ny - 1) * Ra)
        + 15/16 * (B * (nx * V3y + ny * V3x))
        + 24 * (B * (d * (nx * Ty + ny * Tx)))
        + 87/5 * (B^2 * (((nx + ny)^2 - nx^2) * Tx + ((nx + ny)^2 - ny^2) * Ty))
        + 54/5 * (B^2 * ((nx + ny) * d^2 * (nx * ny)))
        + 28 * (B^3 * ((nx + ny)^2 * d * (nx * ny)))
        + 86/5 * (B^4 * ((nx + ny)^3 * (nx * ny))) := by
    have : 0 ≤ nx + ny - 1 := by linarith
    positivity
  have hZ3' : (1 + gC) * Z3t ≤ 53/50 * (15 * u * ((nx + ny - 1) * Ra)
        + 15/16 * (B * (nx * V3y + ny * V3x))
        + 24 * (B * (d * (nx * Ty + ny * Tx)))
        + 87/5 * (B^2 * (((nx + ny)^2 - nx^2) * Tx + ((nx + ny)^2 - ny^2) * Ty))
        + 54/5 * (B^2 * ((nx + ny) * d^2 * (nx * ny)))
        + 28 * (B^3 * ((nx + ny)^2 * d * (nx * ny)))
        + 86/5 * (B^4 * ((nx + ny)^3 * (nx * ny)))) := by
    have h1 : Z3t ≤ P3 * (15 * u * ((nx + ny - 1) * Ra)
        + 15/16 * (B * (nx * V3y + ny * V3x))
        + 24 * (B * (d * (nx * Ty + ny * Tx)))
        + 87/5 * (B^2 * (((nx + ny)^2 - nx^2) * Tx + ((nx + ny)^2 - ny^2) * Ty))
        + 54/5 * (B^2 * ((nx + ny) * d^2 * (nx * ny)))
        + 28 * (B^3 * ((nx + ny)^2 * d * (nx * ny)))
        + 86/5 * (B^4 * ((nx + ny)^3 * (nx * ny)))) := by
      refine le_trans hZ3 ?_
      have := mul_le_mul_of_nonneg_left hsplit3 hP3
      refine le_trans (le_of_eq ?_) this
      ring
    have h2 : (1 + gC) * P3 ≤ 53/50 := by
      calc (1 + gC) * P3 ≤ 201/200 * (64/61) := by gcongr
        _ ≤ 53/50 := by norm_num
    have h3 : (1 + gC) * Z3t ≤ (1 + gC) * (P3 * (15 * u * ((nx + ny - 1) * Ra)
        + 15/16 * (B * (nx * V3y + ny * V3x))
        + 24 * (B * (d * (nx * Ty + ny * Tx)))
        + 87/5 * (B^2 * (((nx + ny)^2 - nx^2) * Tx + ((nx + ny)^2 - ny^2) * Ty))
        + 54/5 * (B^2 * ((nx + ny) * d^2 * (nx * ny)))
        + 28 * (B^3 * ((nx + ny)^2 * d * (nx * ny)))
        + 86/5 * (B^4 * ((nx + ny)^3 * (nx * ny))))) := by
      have : 0 ≤ 1 + gC := by linarith
      gcongr
    refine le_trans h3 ?_
    rw [← mul_assoc]
    gcongr
  exact hZ3'

/-- **Super-additivity of the envelope under one merge.** `d = |δ|`, `q·n = n_x·n_y`, `s·n = q`, `w ≤ q` the weight
of `d⁴`, `Qa·n² = 6·d²·K`, `Ra·n = 4·d·Hv`, `Q3·n = 3·d·H`; `J4 = d⁴·w + Qa + Ra`, `J3 = d³·q + Q3`, `C = d²·q`;
`ε = B·n` the error of the difference of the computed means; `gA ≤ 55u`, `gB ≤ 15.2u`, `gC ≤ 8.1u`; `Z2t`, `Z3t`
bounded as in `z2_bound`, `z3_bound` (`P2 ≤ 32/31`, `P3 ≤ 64/61`). -/
theorem superadd4 (u B Λ κ gA gB gC P2 P3 nx ny Tx Ty V3x V3y V4x V4y d q s w Qa Ra Q3 Z2t Z3t : K)
    (hu : 0 ≤ u) (hu' : u ≤ 1/1856) (hB : 0 ≤ B) (hΛ : 0 ≤ Λ) (hκ : 0 ≤ κ) (hΛκ : B^2 ≤ Λ * κ)
    (hgA0 : 0 ≤ gA) (hgA : gA ≤ 55 * u) (hgB0 : 0 ≤ gB) (hgB : gB ≤ 76/5 * u)
    (hgC0 : 0 ≤ gC) (hgC : gC ≤ 81/10 * u)
    (hP2 : 0 ≤ P2) (hP2' : P2 ≤ 32/31) (hP3 : 0 ≤ P3) (hP3' : P3 ≤ 64/61)
    (hnx : 1 ≤ nx) (hny : 1 ≤ ny) (hnu : (nx + ny) * u ≤ 1/64)
    (hTx : 0 ≤ Tx) (hTy : 0 ≤ Ty) (hV3x : 0 ≤ V3x) (hV3y : 0 ≤ V3y) (hV4x : 0 ≤ V4x) (hV4y : 0 ≤ V4y)
    (hd : 0 ≤ d) (hq : q * (nx + ny) = nx * ny) (hs : s * (nx + ny) = q) (hw0 : 0 ≤ w) (hw : w ≤ q)
    (hQa0 : 0 ≤ Qa) (hQa : Qa * (nx + ny)^2 = 6 * d^2 * (nx * nx * Ty + ny * ny * Tx))
    (hRa0 : 0 ≤ Ra) (hRa : Ra * (nx + ny) = 4 * d * (nx * V3y + ny * V3x))
    (hQ3 : Q3 * (nx + ny) = 3 * d * (nx * Ty + ny * Tx))
    (hZ2 : Z2t ≤ 6 * P2 * s
          * ((d + B * (nx + ny))^2 * (19/2 * u * (nx * Ty + ny * Tx) + 2/5 * B^2 * (nx * ny * (nx + ny)))
              + 4/5 * B * ((d + B * (nx + ny)) * (nx * Ty + ny * Tx)
                  + 2 * (d + B * (nx + ny))^3 * (nx * ny))))
    (hZ3 : Z3t ≤ 4 * P3 * q
          * ((d + B * (nx + ny)) * (15 * u * (V3x + V3y) + 6 * B * (Tx + Ty) + 8/5 * B^3 * (nx^3 + ny^3))
              + 27/10 * B^2 * ((nx * Tx + ny * Ty) + (d + B * (nx + ny))^2 * (nx^2 + ny^2)))) :
    G4 u B Λ κ nx V4x V3x Tx + G4 u B Λ κ ny V4y V3y Ty
        + stepX4 gA gB gC B nx ny d w Qa Ra (nx * Ty + ny * Tx) (nx * nx * Ty + ny * ny * Tx)
            (nx * V3y + ny * V3x) Z2t Z3t
        + 4 * u * (V4x + V4y + (d^4 * w + Qa + Ra))
      ≤ G4 u B Λ κ (nx + ny) (V4x + V4y + (d^4 * w + Qa + Ra)) (V3x + V3y + (d^3 * q + Q3))
          (Tx + Ty + d^2 * q) := by
  have hnx0 : 0 ≤ nx := by linarith
  have hny0 : 0 ≤ ny := by linarith
  have hn0 : 0 ≤ nx + ny := by linarith
  have hgA1 : 1 + gA ≤ 103/100 := by linarith
  have hgB1 : 1 + gB ≤ 101/100 := by linarith
  have hgC1 : 1 + gC ≤ 201/200 := by linarith
  -- the monomials
  have hM1 : 0 ≤ B * (d^3 * (nx * ny)) := by positivity
  have hM2 : 0 ≤ B * (d * (nx * Ty + ny * Tx)) := by positivity
  have hM3 : 0 ≤ B * (nx * V3y + ny * V3x) := by positivity
  have hKK0 : 0 ≤ ((nx + ny)^2 - nx^2) * Tx + ((nx + ny)^2 - ny^2) * Ty := by
    have := nH_le nx ny Tx Ty hnx0 hny0 hTx hTy
    have : 0 ≤ (nx + ny) * (nx * Ty + ny * Tx) := by positivity
    linarith
  have hM4 : 0 ≤ B^2 * (((nx + ny)^2 - nx^2) * Tx + ((nx + ny)^2 - ny^2) * Ty) := by positivity
  have hM5 : 0 ≤ B^2 * ((nx + ny) * d^2 * (nx * ny)) := by positivity
  have hM6 : 0 ≤ B^3 * ((nx + ny)^2 * d * (nx * ny)) := by positivity
  have hM7 : 0 ≤ B^4 * ((nx + ny)^3 * (nx * ny)) := by positivity
  have hZ2' := z2_total u B gB P2 nx ny Tx Ty d q s Qa Z2t hu hB hgB0 hgB1 hP2 hP2' hnx hny hnu hTx hTy hd
    hq hs hQa0 hQa hZ2
  have hZ3' := z3_total u B gC P3 nx ny Tx Ty V3x V3y d q Ra Z3t hu hB hgC0 hgC1 hP3 hP3' hnx hny hnu hTx hTy
    hV3x hV3y hd hq hRa0 hRa hZ3
  -- the error of the means in the three cross terms
  have hE4 := e4_le gA B nx ny d q w hgA0 hgA1 hB hnx0 hny0 hd hq hw0 hw
  have hKxKK : B^2 * (nx * nx * Ty + ny * ny * Tx)
      ≤ B^2 * (((nx + ny)^2 - nx^2) * Tx + ((nx + ny)^2 - ny^2) * Ty) := by
    have h1 : 0 ≤ nx * ny * Tx := by positivity
    have h2 : 0 ≤ nx * ny * Ty := by positivity
    have : nx * nx * Ty + ny * ny * Tx ≤ ((nx + ny)^2 - nx^2) * Tx + ((nx + ny)^2 - ny^2) * Ty := by
      have e : ((nx + ny)^2 - nx^2) * Tx + ((nx + ny)^2 - ny^2) * Ty - (nx * nx * Ty + ny * ny * Tx)
          = 2 * (nx * ny * Tx) + 2 * (nx * ny * Ty) := by ring
      linarith
    gcongr
  have hBm : (1 + gB) * (12 * (B * (d * (nx * Ty + ny * Tx))) + 6 * (B^2 * (nx * nx * Ty + ny * ny * Tx)))
      ≤ 101/100 * (12 * (B * (d * (nx * Ty + ny * Tx)))
          + 6 * (B^2 * (((nx + ny)^2 - nx^2) * Tx + ((nx + ny)^2 - ny^2) * Ty))) := by
    have h0 : 0 ≤ 1 + gB := by linarith
    have hKx0 : 0 ≤ B^2 * (nx * nx * Ty + ny * ny * Tx) := by positivity
    calc (1 + gB) * (12 * (B * (d * (nx * Ty + ny * Tx))) + 6 * (B^2 * (nx * nx * Ty + ny * ny * Tx)))
        ≤ (1 + gB) * (12 * (B * (d * (nx * Ty + ny * Tx)))
          + 6 * (B^2 * (((nx + ny)^2 - nx^2) * Tx + ((nx + ny)^2 - ny^2) * Ty))) := by gcongr
      _ ≤ _ := by gcongr
  have hCm : (1 + gC) * (4 * (B * (nx * V3y + ny * V3x))) ≤ 201/200 * (4 * (B * (nx * V3y + ny * V3x))) := by
    gcongr
  -- the relative family
  have hU := rel_family4 u gA gB gC (d^4 * w) Qa Ra V4x V4y nx ny hu hgA hgB hgC (by positivity) hQa0
    hRa0 hnx hny hV4x hV4y
  -- AM-GM for the family B³·n²·d·n_x·n_y
  have hAG : 427/10 * (B^3 * ((nx + ny)^2 * d * (nx * ny)))
      ≤ 25/2 * (B^2 * Λ * ((nx + ny)^2 * d^2 * (nx * ny)))
        + 75/2 * (B^2 * κ * ((nx + ny)^2 * (nx * ny))) := by
    have h := amgm4 Λ κ B d hΛ hκ hΛκ
    have h0 : 0 ≤ B^2 * ((nx + ny)^2 * (nx * ny)) := by positivity
    have := mul_le_mul_of_nonneg_right h h0
    refine le_trans (le_of_eq ?_) (le_trans this (le_of_eq ?_))
    · ring
    · ring
  have hid := G4_diff u B Λ κ nx ny Tx Ty V3x V3y V4x V4y (d^4 * w + Qa + Ra) (d^3 * q + Q3) (d^2 * q)
  have hJ3 : B * ((nx + ny) * (d^3 * q + Q3))
      = B * (d^3 * (nx * ny)) + 3 * (B * (d * (nx * Ty + ny * Tx))) := by
    have : (nx + ny) * (d^3 * q + Q3) = d^3 * (nx * ny) + 3 * d * (nx * Ty + ny * Tx) := by
      calc (nx + ny) * (d^3 * q + Q3) = d^3 * (q * (nx + ny)) + Q3 * (nx + ny) := by ring
        _ = d^3 * (nx * ny) + 3 * d * (nx * Ty + ny * Tx) := by rw [hq, hQ3]
    rw [this]; ring
  have hC2 : B^2 * ((nx + ny)^2 * (d^2 * q)) = B^2 * ((nx + ny) * d^2 * (nx * ny)) := by
    have : (nx + ny)^2 * (d^2 * q) = (nx + ny) * d^2 * (q * (nx + ny)) := by ring
    rw [this, hq]
  have hC3 : B^2 * Λ * ((nx + ny)^3 * (d^2 * q)) = B^2 * Λ * ((nx + ny)^2 * d^2 * (nx * ny)) := by
    have : (nx + ny)^3 * (d^2 * q) = (nx + ny)^2 * d^2 * (q * (nx + ny)) := by ring
    rw [this, hq]
  have hΛT : 0 ≤ 25/2 * (B^2 * Λ * (((nx + ny)^3 - nx^3) * Tx + ((nx + ny)^3 - ny^3) * Ty)) := by
    have := cube_growth nx ny Tx Ty hnx0 hny0 hTx hTy
    positivity
  have hB4 : 25/2 * (B^2 * κ * (3 * ((nx + ny)^2 * (nx * ny))))
      ≤ 25/2 * (B^2 * κ * ((nx + ny)^4 - nx^4 - ny^4)) := by
    have := quartic_growth nx ny hnx0 hny0
    gcongr
  have hB5 : 6 * (B^4 * (15/4 * ((nx + ny)^3 * (nx * ny))))
      ≤ 6 * (B^4 * ((nx + ny)^5 - nx^5 - ny^5)) := by
    have := quintic_growth nx ny hnx0 hny0
    gcongr
  rw [hJ3, hC2, hC3] at hid
  unfold stepX4
  have e1 : (1 + gB) * (12 * (B * (d * (nx * Ty + ny * Tx))) + 6 * (B^2 * (nx * nx * Ty + ny * ny * Tx)) + Z2t)
      = (1 + gB) * (12 * (B * (d * (nx * Ty + ny * Tx))) + 6 * (B^2 * (nx * nx * Ty + ny * ny * Tx)))
        + (1 + gB) * Z2t := by ring
  have e2 : (1 + gC) * (4 * (B * (nx * V3y + ny * V3x)) + Z3t)
      = (1 + gC) * (4 * (B * (nx * V3y + ny * V3x))) + (1 + gC) * Z3t := by ring
  rw [e1, e2]
  linarith only [hZ2', hZ3', hE4, hBm, hCm, hU, hAG, hid, hΛT, hB4, hB5, hM1, hM2, hM3, hM4, hM5, hM6, hM7]

/-- the factors `(1+u)` of the four rounded additions of a merge and the four relative terms `u·|target|` are
absorbed by the growth `(1+u)⁴` of the leading factor -/
theorem merge_absorb4 (u Pm Ex Ey Gx Gy X a1 a2 a3 a4 V Gn : K) (hu : 0 ≤ u) (hPm : 1 ≤ Pm)
    (hEx : Ex ≤ Pm * Gx) (hEy : Ey ≤ Pm * Gy) (hX : 0 ≤ X) (hV : 0 ≤ V)
    (ha1 : a1 ≤ V) (ha2 : a2 ≤ V) (ha3 : a3 ≤ V) (ha4 : a4 ≤ V)
    (hsup : Gx + Gy + X + 4 * u * V ≤ Gn) :
    (1 + u)^4 * (Ex + Ey + X) + u * (1 + u)^3 * a1 + u * (1 + u)^2 * a2 + u * (1 + u) * a3 + u * a4
      ≤ (1 + u)^4 * Pm * Gn := by
  have hP0 : 0 ≤ Pm := by linarith
  have h1u : (1 : K) ≤ 1 + u := by linarith
  have hc4 : (0 : K) ≤ (1 + u)^4 := by positivity
  have hX' : X ≤ Pm * X := by nlinarith
  have h1 : (1 + u)^4 * (Ex + Ey + X) ≤ (1 + u)^4 * (Pm * Gx + Pm * Gy + Pm * X) := by
    gcongr
  have huV : 0 ≤ u * V := by positivity
  have p3 : (1 + u)^3 ≤ (1 + u)^4 := pow_le_pow_right₀ h1u (by norm_num)
  have p2 : (1 + u)^2 ≤ (1 + u)^4 := pow_le_pow_right₀ h1u (by norm_num)
  have p1 : (1 + u) ≤ (1 + u)^4 := by
    calc (1 + u) = (1 + u)^1 := (pow_one _).symm
      _ ≤ (1 + u)^4 := pow_le_pow_right₀ h1u (by norm_num)
  have p0 : (1 : K) ≤ (1 + u)^4 := one_le_pow₀ h1u
  have t1 : u * (1 + u)^3 * a1 ≤ (1 + u)^4 * (u * V) := by
    calc u * (1 + u)^3 * a1 = (1 + u)^3 * (u * a1) := by ring
      _ ≤ (1 + u)^3 * (u * V) := by gcongr
      _ ≤ (1 + u)^4 * (u * V) := by gcongr
  have t2 : u * (1 + u)^2 * a2 ≤ (1 + u)^4 * (u * V) := by
    calc u * (1 + u)^2 * a2 = (1 + u)^2 * (u * a2) := by ring
      _ ≤ (1 + u)^2 * (u * V) := by gcongr
      _ ≤ (1 + u)^4 * (u * V) := by gcongr
  have t3 : u * (1 + u) * a3 ≤ (1 + u)^4 * (u * V) := by
    calc u * (1 + u) * a3 = (1 + u) * (u * a3) := by ring
      _ ≤ (1 + u) * (u * V) := by gcongr
      _ ≤ (1 + u)^4 * (u * V) := by gcongr
  have t4 : u * a4 ≤ (1 + u)^4 * (u * V) := by
    calc u * a4 ≤ u * V := by gcongr
      _ = 1 * (u * V) := by ring
      _ ≤ (1 + u)^4 * (u * V) := by gcongr
  have t5 : (1 + u)^4 * (4 * u * V) ≤ (1 + u)^4 * (Pm * (4 * u * V)) := by
    have h0 : 0 ≤ 4 * u * V := by positivity
    have : 4 * u * V ≤ Pm * (4 * u * V) := by nlinarith
    gcongr
  have h5 : (1 + u)^4 * (Pm * (Gx + Gy + X + 4 * u * V)) ≤ (1 + u)^4 * (Pm * Gn) := by
    gcongr
  calc (1 + u)^4 * (Ex + Ey + X) + u * (1 + u)^3 * a1 + u * (1 + u)^2 * a2 + u * (1 + u) * a3 + u * a4
      ≤ (1 + u)^4 * (Pm * Gx + Pm * Gy + Pm * X) + (1 + u)^4 * (Pm * (4 * u * V)) := by
        have e : (1 + u)^4 * (4 * u * V) = 4 * ((1 + u)^4 * (u * V)) := by ring
        linarith
    _ = (1 + u)^4 * (Pm * (Gx + Gy + X + 4 * u * V)) := by ring
    _ ≤ (1 + u)^4 * (Pm * Gn) := h5
    _ = (1 + u)^4 * Pm * Gn := by ring

/-- the whole arithmetic of one step of the induction: `kx, ky ≥ 1` the two counts; `X` the new errors of the
step, `a1, …, a4` the absolute values of the four targets of the rounded additions -/
theorem node_arith4 (u B Λ κ V3x V3y V4x V4y Tx Ty V4' V3' T' Ex Ey X a1 a2 a3 a4 : K) (kx ky : ℕ)
    (hkx : 1 ≤ kx) (hky : 1 ≤ ky) (hu : 0 ≤ u) (hB : 0 ≤ B) (hΛ : 0 ≤ Λ) (hκ : 0 ≤ κ)
    (hV3x : 0 ≤ V3x) (hV3y : 0 ≤ V3y) (hV4x : 0 ≤ V4x) (hV4y : 0 ≤ V4y) (hTx : 0 ≤ Tx) (hTy : 0 ≤ Ty)
    (hX : 0 ≤ X) (hV' : 0 ≤ V4')
    (ha1 : a1 ≤ V4') (ha2 : a2 ≤ V4') (ha3 : a3 ≤ V4') (ha4 : a4 ≤ V4')
    (hEx : Ex ≤ (1 + u)^(4 * kx) * G4 u B Λ κ (kx : K) V4x V3x Tx)
    (hEy : Ey ≤ (1 + u)^(4 * ky) * G4 u B Λ κ (ky : K) V4y V3y Ty)
    (hsup : G4 u B Λ κ (kx : K) V4x V3x Tx + G4 u B Λ κ (ky : K) V4y V3y Ty + X + 4 * u * V4'
      ≤ G4 u B Λ κ ((kx : K) + (ky : K)) V4' V3' T') :
    (1 + u)^4 * (Ex + Ey + X) + u * (1 + u)^3 * a1 + u * (1 + u)^2 * a2 + u * (1 + u) * a3 + u * a4
      ≤ (1 + u)^(4 * (kx + ky)) * G4 u B Λ κ ((kx : K) + (ky : K)) V4' V3' T' := by
  have hnx0 : (0 : K) ≤ kx := Nat.cast_nonneg _
  have hny0 : (0 : K) ≤ ky := Nat.cast_nonneg _
  set Pm := (1 + u)^(4 * (kx + ky) - 4) with hPm
  have hPm1 : 1 ≤ Pm := one_le_pow₀ (by linarith)
  have hPl : (1 + u)^(4 * kx) ≤ Pm := pow_le_pow_right₀ (by linarith) (by omega)
  have hPr : (1 + u)^(4 * ky) ≤ Pm := pow_le_pow_right₀ (by linarith) (by omega)
  have hGx0 : 0 ≤ G4 u B Λ κ kx V4x V3x Tx := G4_nonneg _ _ _ _ _ _ _ _ hu hB hΛ hκ hnx0 hV4x hV3x hTx
  have hGy0 : 0 ≤ G4 u B Λ κ ky V4y V3y Ty := G4_nonneg _ _ _ _ _ _ _ _ hu hB hΛ hκ hny0 hV4y hV3y hTy
  have hEx' : Ex ≤ Pm * G4 u B Λ κ kx V4x V3x Tx := by
    refine le_trans hEx ?_; gcongr
  have hEy' : Ey ≤ Pm * G4 u B Λ κ ky V4y V3y Ty := by
    refine le_trans hEy ?_; gcongr
  have habs := merge_absorb4 u Pm Ex Ey (G4 u B Λ κ kx V4x V3x Tx) (G4 u B Λ κ ky V4y V3y Ty) X a1 a2 a3 a4
    V4' (G4 u B Λ κ ((kx : K) + (ky : K)) V4' V3' T') hu hPm1 hEx' hEy' hX hV' ha1 ha2 ha3 ha4 hsup
  have hpow : (1 + u)^4 * Pm = (1 + u)^(4 * (kx + ky)) := by
    rw [hPm, ← pow_add]; congr 1; omega
  rw [← hpow]
  exact habs

end KurtMerge

#print axioms KurtMerge.superadd4
#print axioms KurtMerge.node_arith4
