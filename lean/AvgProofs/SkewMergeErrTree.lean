import AvgProofs.SkewMergeErrState
import AvgProofs.SkewMergeErrLeaf
import AvgProofs.VarMergeErrTree
import AvgProofs.MeanMergeErr

/-!
# Forward error of `sum_3` through every merge tree: the square-root-free invariant

Carrier `RF2 r` (standard model of rounding). `SkewMerge.skew_mtree_inv`: for every merge tree `t` (any shape,
any chunk sizes, empty and one-element chunks included; leaves folded with `Skewness.add`, nodes merged with
`Skewness.merge`) over `n` observations with `|x| ≤ M`, `u ≤ 1/1856`, `n·u ≤ 1/64`, `B` a per-observation budget
of the mean kept by every merge tree, and any `Λ, κ ≥ 0` with `B² ≤ Λ·κ`:

`|sum_3 - U| ≤ (1+u)^(3n)·G3(n, V3T t, T)`,
`G3(n,V,T) = 15·u·n·V + 6·B·n·T + (27/10)·B·Λ·n²·T + (27/10)·B·κ·n³ + (8/5)·B³·n⁴`.
-/
open Avg MSpec Finset VarSpec SkewSpec SkewErr

namespace Avg
variable {α : Type} [Add α] [Sub α] [Mul α] [Div α] [NatCast α]

/-- A merge tree without data (all chunks empty) evaluates to the empty `Skewness`, any carrier. -/
theorem Skewness.mtree_eval_empty (t : MTree α) (h : t.flatten = []) :
    Skewness.evalTree t = Skewness.new := by
  induction t with
  | leaf xs => rw [MTree.flatten_leaf] at h; subst h; rfl
  | node l r ihl ihr =>
    rw [MTree.flatten_node, List.append_eq_nil_iff] at h
    show Skewness.merge (Skewness.evalTree l) (Skewness.evalTree r) = _
    rw [ihl h.1, ihr h.2]
    exact Skewness.merge_empty _ _ rfl
end Avg

namespace SkewMerge
variable {K : Type} [Field K] [LinearOrder K] [IsStrictOrderedRing K]

/-- the weight of `|δ|³` is at most the weight of `δ²` in the merge identity of the sums of squares -/
theorem w3a_le_mergeW (xs ys : List K) (hx : xs ≠ []) : w3a xs ys ≤ mergeW xs ys := by
  have h1 : (0 : K) < xs.length := by exact_mod_cast List.length_pos_of_ne_nil hx
  have h2 : (0 : K) ≤ ys.length := Nat.cast_nonneg _
  have hn : (0 : K) < (xs.length : K) + (ys.length : K) := by positivity
  unfold w3a mergeW
  rw [div_le_div_iff₀ (by positivity) hn]
  have habs : |(xs.length : K) - (ys.length : K)| ≤ (xs.length : K) + (ys.length : K) := by
    rw [abs_le]; constructor <;> linarith
  have h0 : 0 ≤ (xs.length : K) * (ys.length : K) := by positivity
  calc (xs.length : K) * (ys.length : K) * |(xs.length : K) - (ys.length : K)|
        * ((xs.length : K) + (ys.length : K))
      ≤ (xs.length : K) * (ys.length : K) * ((xs.length : K) + (ys.length : K))
        * ((xs.length : K) + (ys.length : K)) := by gcongr
    _ = (xs.length : K) * (ys.length : K) * ((xs.length : K) + (ys.length : K))^2 := by ring

/-- the sum of squares kept inside `Skewness` through a merge tree, in the form needed by `zt_bound` -/
theorem tree_D2 (r : Rnd2 K) (M B : K) (hM : 0 ≤ M) (hu64 : r.u ≤ 1/64)
    (hB : 2 * M * (2 * ((2*r.u + r.u^2) * (1 + r.u)) + r.u) ≤ B) (t : MTree (RF2 r))
    (hb : ∀ x ∈ t.flatten, |x.val| ≤ M) (hnu : (t.flatten.length : K) * r.u ≤ 1/64)
    (hs1 : (2*r.u + r.u^2) * (1 + r.u) + (t.flatten.length : K) * r.u ≤ 1/2)
    (hs2 : 5 * r.u * (M + B * (t.flatten.length : K)) ≤ B) :
    ∀ Λ κ : K, 0 ≤ Λ → 0 ≤ κ → B^2 ≤ Λ * κ →
      |(Skewness.evalTree t).avg.sum_2.val - T (t.flatten.map RF2.val)|
        ≤ 32/31 * VarMerge.G r.u B Λ κ (t.flatten.length : K) (T (t.flatten.map RF2.val)) := by
  intro Λ κ hΛ hκ hΛκ
  have hu := r.u_nonneg
  rw [Skewness.mtree_avg]
  have h := VarMerge.var_mtree_inv r M B Λ κ hM hu64 hB hΛ hκ hΛκ t hb hs1 hs2
  refine le_trans h ?_
  have hG := VarMerge.G_nonneg r.u B Λ κ (t.flatten.length : K) (T (t.flatten.map RF2.val)) hu hΛ hκ
    (Nat.cast_nonneg _) (T_nonneg _)
  have := VarMerge.lead_le r.u hu t.flatten.length hnu
  gcongr

/-- `Qa·(n_x+n_y) = 3·|δ|·(n_x·T ys + n_y·T xs)` -/
theorem absQ_mul (xs ys : List K) (hx : xs ≠ []) :
    absQ xs ys * ((xs.length : K) + (ys.length : K))
      = 3 * |mean ys - mean xs| * ((xs.length : K) * T ys + (ys.length : K) * T xs) := by
  have h1 : (0 : K) < xs.length := by exact_mod_cast List.length_pos_of_ne_nil hx
  have h2 : (0 : K) ≤ ys.length := Nat.cast_nonneg _
  have hn : (xs.length : K) + (ys.length : K) ≠ 0 := by positivity
  unfold absQ mixH
  field_simp

/-- the new errors of one merge (as in `sum3_merge_error`, with the budgets `B·n_x`, `B·n_y` of the two means)
in the form of `superadd3` -/
theorem stepX_eq (E gA gB B Z : K) (xs ys : List K) (hx : xs ≠ []) :
    E + gA * absP xs ys + gB * absQ xs ys
      + (1 + gA) * (w3a xs ys * (3 * (mean ys - mean xs)^2 * (B * (xs.length : K) + B * (ys.length : K))
          + 3 * |mean ys - mean xs| * (B * (xs.length : K) + B * (ys.length : K))^2
          + (B * (xs.length : K) + B * (ys.length : K))^3))
      + (1 + gB) * (3 / ((xs.length : K) + (ys.length : K))
          * ((B * (xs.length : K) + B * (ys.length : K)) * mixH xs ys
              + (|mean ys - mean xs| + (B * (xs.length : K) + B * (ys.length : K))) * Z))
    = E + (gA * (|mean ys - mean xs|^3 * w3a xs ys) + gB * absQ xs ys
      + (1 + gA) * (w3a xs ys * (3 * |mean ys - mean xs|^2 * (B * ((xs.length : K) + (ys.length : K)))
          + 3 * |mean ys - mean xs| * (B * ((xs.length : K) + (ys.length : K)))^2
          + (B * ((xs.length : K) + (ys.length : K)))^3))
      + (1 + gB) * (3 * B * ((xs.length : K) * T ys + (ys.length : K) * T xs)
          + 3 / ((xs.length : K) + (ys.length : K))
            * ((|mean ys - mean xs| + B * ((xs.length : K) + (ys.length : K))) * Z))) := by
  have h1 : (0 : K) < xs.length := by exact_mod_cast List.length_pos_of_ne_nil hx
  have h2 : (0 : K) ≤ ys.length := Nat.cast_nonneg _
  have hn : (xs.length : K) + (ys.length : K) ≠ 0 := by positivity
  unfold absP mixH
  rw [sq_abs]
  field_simp
  ring

/-- **One node of the tree.** Two non-empty chunks `xs`, `ys` summarised by the states `sl`, `sr` with exact
counts, means within `B·n_x`, `B·n_y`, sums of squares within `(32/31)·G` for every admissible pair of
parameters, `sum_3` within `(1+u)^(3n)·G3` with scales `Vx ≥ |U xs|`, `Vy ≥ |U ys|`: the merged `sum_3` is
within `(1+u)^(3(n_x+n_y))·G3(n_x+n_y, Vx+Vy+J, T(xs++ys))`. -/
theorem node_step (r : Rnd2 K) (B Λ κ : K) (hu' : r.u ≤ 1/1856) (hB0 : 0 ≤ B)
    (hΛ : 0 ≤ Λ) (hκ : 0 ≤ κ) (hΛκ : B^2 ≤ Λ * κ) (sl sr : Skewness (RF2 r)) (xs ys : List K)
    (Vx Vy : K) (hx : xs ≠ []) (hy : ys ≠ [])
    (hsn : sl.avg.avg.n = xs.length) (hon : sr.avg.avg.n = ys.length)
    (hle : |sl.avg.avg.avg.val - mean xs| ≤ B * (xs.length : K))
    (hre : |sr.avg.avg.avg.val - mean ys| ≤ B * (ys.length : K))
    (hD2l : ∀ Λ κ : K, 0 ≤ Λ → 0 ≤ κ → B^2 ≤ Λ * κ →
      |sl.avg.sum_2.val - T xs| ≤ 32/31 * VarMerge.G r.u B Λ κ (xs.length : K) (T xs))
    (hD2r : ∀ Λ κ : K, 0 ≤ Λ → 0 ≤ κ → B^2 ≤ Λ * κ →
      |sr.avg.sum_2.val - T ys| ≤ 32/31 * VarMerge.G r.u B Λ κ (ys.length : K) (T ys))
    (hVx0 : 0 ≤ Vx) (hVy0 : 0 ≤ Vy) (hUl : |U xs| ≤ Vx) (hUr : |U ys| ≤ Vy)
    (hEl : |sl.sum_3.val - U xs| ≤ (1 + r.u)^(3 * xs.length) * G3 r.u B Λ κ (xs.length : K) Vx (T xs))
    (hEr : |sr.sum_3.val - U ys| ≤ (1 + r.u)^(3 * ys.length) * G3 r.u B Λ κ (ys.length : K) Vy (T ys))
    (hnu : ((xs.length : K) + (ys.length : K)) * r.u ≤ 1/64) :
    |(sl.merge sr).sum_3.val - U (xs ++ ys)|
      ≤ (1 + r.u)^(3 * (xs.length + ys.length))
          * G3 r.u B Λ κ ((xs.length : K) + (ys.length : K)) (Vx + Vy + absJ xs ys) (T (xs ++ ys)) := by
  have hu0 := r.u_nonneg
  have hlnat : 1 ≤ xs.length := List.length_pos_of_ne_nil hx
  have hrnat : 1 ≤ ys.length := List.length_pos_of_ne_nil hy
  have hl1 : (1 : K) ≤ xs.length := by exact_mod_cast hlnat
  have hr1 : (1 : K) ≤ ys.length := by exact_mod_cast hrnat
  have step := sum3_merge_error r (by linarith) sl sr xs ys hx hy hsn hon _ _ hle hre
  rw [stepX_eq _ _ _ _ _ xs ys hx] at step
  refine le_trans step ?_
  rw [T_append xs ys hx hy, ← sq_abs (mean ys - mean xs)]
  have hg15 := g15_le r.u hu0 hu'
  have hg8 := g8_le r.u hu0 hu'
  have hq := mergeW_mul xs ys hx
  have hw := w3a_le_mergeW xs ys hx
  have hQa := absQ_mul xs ys hx
  have hZt := zt_bound r.u B (32/31) (xs.length : K) (ys.length : K) (T xs) (T ys)
    |sl.avg.sum_2.val - T xs| |sr.avg.sum_2.val - T ys|
    (|mean ys - mean xs| + B * ((xs.length : K) + (ys.length : K))) hu0 hB0 (by norm_num)
    (by linarith) (by linarith) (T_nonneg xs) (T_nonneg ys) (by positivity) hD2l hD2r
  have hsup := superadd3 r.u B Λ κ (g r.u 15) (g r.u 8) (32/31) (xs.length : K) (ys.length : K)
    (T xs) (T ys) Vx Vy |mean ys - mean xs| (mergeW xs ys) (w3a xs ys) (absQ xs ys)
    (3 / ((xs.length : K) + (ys.length : K))
      * ((|mean ys - mean xs| + B * ((xs.length : K) + (ys.length : K)))
          * ((xs.length : K) * |sr.avg.sum_2.val - T ys| + (ys.length : K) * |sl.avg.sum_2.val - T xs|)))
    hu0 hu' hB0 hΛ hκ hΛκ (g_nonneg hu0 15) hg15 (g_nonneg hu0 8) hg8 (by norm_num) le_rfl
    hl1 hr1 hnu (T_nonneg xs) (T_nonneg ys) hVx0 hVy0 (abs_nonneg _)
    (mergeW_nonneg xs ys) hq (w3a_nonneg xs ys) hw (absQ_nonneg xs ys) hQa hZt
  have hJ : |mean ys - mean xs|^3 * w3a xs ys + absQ xs ys = absJ xs ys := rfl
  rw [hJ] at hsup
  have hV'0 : 0 ≤ Vx + Vy + absJ xs ys := by have := absJ_nonneg xs ys; linarith
  -- the three targets of the rounded additions
  have hP := abs_crossP xs ys
  have hQ := abs_crossQ_le xs ys
  have hPJ : absP xs ys + absQ xs ys = absJ xs ys := rfl
  have hP0 := absP_nonneg xs ys
  have hQ0 := absQ_nonneg xs ys
  have ha1 : |U ys + crossP xs ys| ≤ Vx + Vy + absJ xs ys := by
    refine le_trans (abs_add_le _ _) ?_
    rw [hP]; linarith
  have ha2 : |U ys + crossP xs ys + crossQ xs ys| ≤ Vx + Vy + absJ xs ys := by
    refine le_trans (abs_add_le _ _) (le_trans (add_le_add (abs_add_le _ _) hQ) ?_)
    rw [hP]; linarith
  have ha3 : |U (xs ++ ys)| ≤ Vx + Vy + absJ xs ys := by
    have := abs_U_append_le xs ys
    linarith
  have hX0 : 0 ≤ g r.u 15 * (|mean ys - mean xs|^3 * w3a xs ys) + g r.u 8 * absQ xs ys
      + (1 + g r.u 15) * (w3a xs ys
          * (3 * |mean ys - mean xs|^2 * (B * ((xs.length : K) + (ys.length : K)))
            + 3 * |mean ys - mean xs| * (B * ((xs.length : K) + (ys.length : K)))^2
            + (B * ((xs.length : K) + (ys.length : K)))^3))
      + (1 + g r.u 8) * (3 * B * ((xs.length : K) * T ys + (ys.length : K) * T xs)
          + 3 / ((xs.length : K) + (ys.length : K))
            * ((|mean ys - mean xs| + B * ((xs.length : K) + (ys.length : K)))
                * ((xs.length : K) * |sr.avg.sum_2.val - T ys|
                    + (ys.length : K) * |sl.avg.sum_2.val - T xs|))) := by
    have := g_nonneg hu0 15
    have := g_nonneg hu0 8
    have := w3a_nonneg xs ys
    have := T_nonneg xs
    have := T_nonneg ys
    positivity
  exact node_arith3 r.u B Λ κ Vx Vy (T xs) (T ys) (Vx + Vy + absJ xs ys)
    (T xs + T ys + |mean ys - mean xs|^2 * mergeW xs ys) |sl.sum_3.val - U xs| |sr.sum_3.val - U ys| _
    |U ys + crossP xs ys| |U ys + crossP xs ys + crossQ xs ys| |U (xs ++ ys)|
    xs.length ys.length hlnat hrnat hu0 hB0 hΛ hκ hVx0 hVy0 (T_nonneg xs) (T_nonneg ys)
    hX0 hV'0 ha1 ha2 ha3 hEl hEr hsup

/-- **Every merge tree: the square-root-free invariant for `sum_3`.** -/
theorem skew_mtree_inv (r : Rnd2 K) (M B Λ κ : K) (hM : 0 ≤ M) (hu' : r.u ≤ 1/1856)
    (hB : 2 * M * (2 * ((2*r.u + r.u^2) * (1 + r.u)) + r.u) ≤ B)
    (hΛ : 0 ≤ Λ) (hκ : 0 ≤ κ) (hΛκ : B^2 ≤ Λ * κ) :
    ∀ t : MTree (RF2 r), (∀ x ∈ t.flatten, |x.val| ≤ M) →
      (t.flatten.length : K) * r.u ≤ 1/64 →
      5 * r.u * (M + B * (t.flatten.length : K)) ≤ B →
      |(Skewness.evalTree t).sum_3.val - U (t.flatten.map RF2.val)|
        ≤ (1 + r.u)^(3 * t.flatten.length)
            * G3 r.u B Λ κ (t.flatten.length : K) (V3T (t.map RF2.val)) (T (t.flatten.map RF2.val)) := by
  have hu0 := r.u_nonneg
  have hu64 : r.u ≤ 1/64 := by linarith
  have hB0 : 0 ≤ B := le_trans (by positivity) hB
  have hw3 : (2*r.u + r.u^2) * (1 + r.u) ≤ 3 * r.u := by nlinarith
  intro t
  induction t with
  | leaf xs =>
    intro hb hnu _
    exact leaf_inv3 r M B Λ κ hM hu' hB hΛ hκ hΛκ xs hb hnu
  | node l rt ihl ihr =>
    intro hb hnu hs2
    rw [MTree.flatten_node] at hb hnu hs2 ⊢
    rw [List.length_append, Nat.cast_add] at hnu hs2
    have hl0 : (0:K) ≤ (l.flatten.length : K) := Nat.cast_nonneg _
    have hr0 : (0:K) ≤ (rt.flatten.length : K) := Nat.cast_nonneg _
    have hbl : ∀ x ∈ l.flatten, |x.val| ≤ M := fun x hx => hb x (List.mem_append_left _ hx)
    have hbr : ∀ x ∈ rt.flatten, |x.val| ≤ M := fun x hx => hb x (List.mem_append_right _ hx)
    have hnul : (l.flatten.length : K) * r.u ≤ 1/64 := by nlinarith
    have hnur : (rt.flatten.length : K) * r.u ≤ 1/64 := by nlinarith
    have hs1l : (2*r.u + r.u^2) * (1 + r.u) + (l.flatten.length : K) * r.u ≤ 1/2 := by linarith
    have hs1r : (2*r.u + r.u^2) * (1 + r.u) + (rt.flatten.length : K) * r.u ≤ 1/2 := by linarith
    have hs2l : 5 * r.u * (M + B * (l.flatten.length : K)) ≤ B := by
      nlinarith [mul_nonneg hu0 (mul_nonneg hB0 hr0)]
    have hs2r : 5 * r.u * (M + B * (rt.flatten.length : K)) ≤ B := by
      nlinarith [mul_nonneg hu0 (mul_nonneg hB0 hl0)]
    have hEl := ihl hbl hnul hs2l
    have hEr := ihr hbr hnur hs2r
    obtain ⟨hln, hle⟩ := mean_mtree_error_gen r M B hM (by linarith) hB l hbl hs1l hs2l
    obtain ⟨hrn, hre⟩ := mean_mtree_error_gen r M B hM (by linarith) hB rt hbr hs1r hs2r
    have hD2l := tree_D2 r M B hM hu64 hB l hbl hnul hs1l hs2l
    have hD2r := tree_D2 r M B hM hu64 hB rt hbr hnur hs1r hs2r
    have hlavg : (Skewness.evalTree l).avg.avg = Mean.evalTree l := by
      rw [Skewness.mtree_avg, Variance.mtree_avg]
    have hravg : (Skewness.evalTree rt).avg.avg = Mean.evalTree rt := by
      rw [Skewness.mtree_avg, Variance.mtree_avg]
    have hVnode : V3T ((MTree.node l rt).map RF2.val)
        = V3T (l.map RF2.val) + V3T (rt.map RF2.val)
          + absJ (l.flatten.map RF2.val) (rt.flatten.map RF2.val) := by
      rw [MTree.map_node, V3T_node, MTree.flatten_map, MTree.flatten_map]
    have hVl0 := V3T_nonneg (l.map RF2.val)
    have hVr0 := V3T_nonneg (rt.map RF2.val)
    show |(Skewness.merge (Skewness.evalTree l) (Skewness.evalTree rt)).sum_3.val - _| ≤ _
    by_cases hy : rt.flatten = []
    · have h0 : (Skewness.evalTree rt).avg.avg.n = 0 := by rw [hravg, hrn, hy]; rfl
      have hVr : V3T (rt.map RF2.val) = 0 := V3T_empty _ (by rw [MTree.flatten_map, hy]; rfl)
      rw [Skewness.merge_empty _ _ h0, hVnode, hVr, hy, List.append_nil, List.map_nil, absJ_nil_right,
        add_zero, add_zero]
      exact hEl
    by_cases hx : l.flatten = []
    · have h0 : (Skewness.evalTree l).avg.avg.n = 0 := by rw [hlavg, hln, hx]; rfl
      have h1 : (Skewness.evalTree rt).avg.avg.n ≠ 0 := by
        rw [hravg, hrn]; exact fun h => hy (List.length_eq_zero_iff.mp h)
      have hVl : V3T (l.map RF2.val) = 0 := V3T_empty _ (by rw [MTree.flatten_map, hx]; rfl)
      rw [Skewness.empty_merge _ _ h0 h1, hVnode, hVl, hx, List.nil_append, List.map_nil, absJ_nil_left,
        zero_add, add_zero]
      exact hEr
    -- both operands non-empty
    have hxl : (l.flatten.map RF2.val).length = l.flatten.length := List.length_map _
    have hyl : (rt.flatten.map RF2.val).length = rt.flatten.length := List.length_map _
    have hxne : l.flatten.map RF2.val ≠ [] := by simpa using hx
    have hyne : rt.flatten.map RF2.val ≠ [] := by simpa using hy
    have hUl : |U (l.flatten.map RF2.val)| ≤ V3T (l.map RF2.val) := by
      have := abs_U_le_V3T (l.map RF2.val); rwa [MTree.flatten_map] at this
    have hUr : |U (rt.flatten.map RF2.val)| ≤ V3T (rt.map RF2.val) := by
      have := abs_U_le_V3T (rt.map RF2.val); rwa [MTree.flatten_map] at this
    have key := node_step r B Λ κ hu' hB0 hΛ hκ hΛκ (Skewness.evalTree l) (Skewness.evalTree rt)
      (l.flatten.map RF2.val) (rt.flatten.map RF2.val) (V3T (l.map RF2.val)) (V3T (rt.map RF2.val))
      hxne hyne (by rw [hlavg, hln, hxl]) (by rw [hravg, hrn, hyl])
      (by rw [hlavg, hxl]; exact hle) (by rw [hravg, hyl]; exact hre)
      (by rw [hxl]; exact hD2l) (by rw [hyl]; exact hD2r) hVl0 hVr0 hUl hUr
      (by rw [hxl]; exact hEl) (by rw [hyl]; exact hEr) (by rw [hxl, hyl]; exact hnu)
    rw [hxl, hyl] at key
    rw [List.map_append, List.length_append, Nat.cast_add, hVnode]
    exact key

end SkewMerge

#print axioms SkewMerge.node_step
#print axioms SkewMerge.skew_mtree_inv
