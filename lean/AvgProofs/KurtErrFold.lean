import AvgProofs.KurtErrStep
import AvgProofs.KurtErrSpec
import AvgProofs.SkewErrFold

/-!
# The fourth-order sum of `Kurtosis.add` under the standard model of rounding: induction over the stream

`kurt_fold_error_gen`: for every add-only stream `xs` at the carrier `RF2 r`, if for every prefix `ys`
the running mean is within `E |ys|` of the exact mean, the computed sum of squares within `F |ys|` of the
exact one and the computed third-order sum within `H |ys|` of the exact one, then with `n = |xs|`,
`γ_i = (1+u)^i - 1`, `d_i = dev_i`, `T_i`, `U_i` the exact sums of the prefix `x_0..x_{i-1}`,
`c_i = i(i²-i+1)/(i+1)³`:

`|sum_4 - Q| ≤ (1+u)^n · ( Σ_{i<n} [ γ54·d_i⁴c_i + γ9·6d_i²T_i/(i+1)² + γ5·4|d_i||U_i|/(i+1)
      + (1+γ54)·c_i·(4|d_i|³E_i + 6d_i²E_i² + 4|d_i|E_i³ + E_i⁴)
      + (1+γ9)·(6/(i+1)²)·(d_i²F_i + (2|d_i|E_i + E_i²)(T_i + F_i))
      + (1+γ5)·(4/(i+1))·(|d_i|H_i + E_i|U_i| + E_i·H_i) ]
      + n·u·V4p )`.
-/
open Avg MSpec Finset VarSpec SkewSpec KurtSpec SkewErr

namespace KurtErr
variable {K : Type} [Field K] [LinearOrder K] [IsStrictOrderedRing K]

/-- the value computed by `Kurtosis.add` for `sum_4` at the carrier `RF2 r`, operation by operation:
`k` the new count, `δ = fl(x - a)`, `δn = fl(δ/k)`; `k - 1` is a rounded subtraction of exactly converted
counts, `k·k`, `3·k`, their difference and the sum with `3` are rounded, `3`, `6`, `4` are exact
conversions; `sum_2`, `sum_3` are the values before the observation. -/
theorem sum4_add_val (r : Rnd2 K) (s : Kurtosis (RF2 r)) (x : RF2 r) :
    (s.add x).sum_4.val =
      r.fl (s.sum_4.val +
        r.fl (r.fl (
            r.fl (r.fl (r.fl (r.fl (r.fl (x.val - s.avg.avg.avg.avg.val)
                      * r.fl (r.fl (x.val - s.avg.avg.avg.avg.val) / ((s.avg.avg.avg.n + 1 : ℕ) : K)))
                    * r.fl (((s.avg.avg.avg.n + 1 : ℕ) : K) - 1))
                  * r.fl (r.fl (r.fl (x.val - s.avg.avg.avg.avg.val) / ((s.avg.avg.avg.n + 1 : ℕ) : K))
                      * r.fl (r.fl (x.val - s.avg.avg.avg.avg.val) / ((s.avg.avg.avg.n + 1 : ℕ) : K))))
                * r.fl (r.fl (r.fl (((s.avg.avg.avg.n + 1 : ℕ) : K) * ((s.avg.avg.avg.n + 1 : ℕ) : K))
                      - r.fl (3 * ((s.avg.avg.avg.n + 1 : ℕ) : K))) + 3))
            + r.fl (r.fl (6
                  * r.fl (r.fl (r.fl (x.val - s.avg.avg.avg.avg.val) / ((s.avg.avg.avg.n + 1 : ℕ) : K))
                      * r.fl (r.fl (x.val - s.avg.avg.avg.avg.val) / ((s.avg.avg.avg.n + 1 : ℕ) : K))))
                * s.avg.avg.sum_2.val))
          - r.fl (r.fl (4
                * r.fl (r.fl (x.val - s.avg.avg.avg.avg.val) / ((s.avg.avg.avg.n + 1 : ℕ) : K)))
              * s.avg.sum_3.val))) := by
  have h : (s.add x).sum_4.val =
      r.fl (s.sum_4.val +
        r.fl (r.fl (
            r.fl (r.fl (r.fl (r.fl (r.fl (x.val - s.avg.avg.avg.avg.val)
                      * r.fl (r.fl (x.val - s.avg.avg.avg.avg.val) / ((s.avg.avg.avg.n + 1 : ℕ) : K)))
                    * r.fl (((s.avg.avg.avg.n + 1 : ℕ) : K) - ((1 : ℕ) : K)))
                  * r.fl (r.fl (r.fl (x.val - s.avg.avg.avg.avg.val) / ((s.avg.avg.avg.n + 1 : ℕ) : K))
                      * r.fl (r.fl (x.val - s.avg.avg.avg.avg.val) / ((s.avg.avg.avg.n + 1 : ℕ) : K))))
                * r.fl (r.fl (r.fl (((s.avg.avg.avg.n + 1 : ℕ) : K) * ((s.avg.avg.avg.n + 1 : ℕ) : K))
                      - r.fl (((3 : ℕ) : K) * ((s.avg.avg.avg.n + 1 : ℕ) : K))) + ((3 : ℕ) : K)))
            + r.fl (r.fl (((6 : ℕ) : K)
                  * r.fl (r.fl (r.fl (x.val - s.avg.avg.avg.avg.val) / ((s.avg.avg.avg.n + 1 : ℕ) : K))
                      * r.fl (r.fl (x.val - s.avg.avg.avg.avg.val) / ((s.avg.avg.avg.n + 1 : ℕ) : K))))
                * s.avg.avg.sum_2.val))
          - r.fl (r.fl (((4 : ℕ) : K)
                * r.fl (r.fl (x.val - s.avg.avg.avg.avg.val) / ((s.avg.avg.avg.n + 1 : ℕ) : K)))
              * s.avg.sum_3.val))) := rfl
  rw [h]
  simp only [Nat.cast_one, Nat.cast_ofNat]

/-- the contribution of one observation (index `i`, deviation `d`, exact sums `Ti`, `Ui` of its
predecessors) to the error bound of `sum_4`: the relative roundings of the three parts of the increment
(52+2, 7+2 and 4+1), and the perturbations by the error of the mean (`≤ E i`), of the sum of squares
(`≤ F i`) and of the third-order sum (`≤ H i`) -/
def stepTerm4 (u : K) (E F H : ℕ → K) (i : ℕ) (d Ti Ui : K) : K :=
  g u 54 * incA4 i d + g u 9 * incB4 i d Ti + g u 5 * incC4 i d Ui
    + (1 + g u 54) * (cQ i * (4 * |d|^3 * E i + 6 * d^2 * (E i)^2 + 4 * |d| * (E i)^3 + (E i)^4))
    + (1 + g u 9) * (6 / ((i : K) + 1)^2
        * (d^2 * F i + (2 * |d| * E i + (E i)^2) * (Ti + F i)))
    + (1 + g u 5) * (4 / ((i : K) + 1) * (|d| * H i + E i * |Ui| + E i * H i))

/-- the accumulated bound: sum of `stepTerm4` over the stream -/
def errSum4 (u : K) (E F H : ℕ → K) (vs : List K) : K :=
  ∑ i ∈ range vs.length, stepTerm4 u E F H i (dev vs i) (T (vs.take i)) (U (vs.take i))

omit [IsStrictOrderedRing K] in
theorem errSum4_snoc (u : K) (E F H : ℕ → K) (vs : List K) (x : K) :
    errSum4 u E F H (vs ++ [x])
      = errSum4 u E F H vs + stepTerm4 u E F H vs.length (x - mean vs) (T vs) (U vs) :=
  sum_pref2_snoc (fun i d t w => stepTerm4 u E F H i d t w) vs x

theorem stepTerm4_nonneg {u : K} (hu : 0 ≤ u) {E F H : ℕ → K} (hE : ∀ i, 0 ≤ E i)
    (hF : ∀ i, 0 ≤ F i) (hH : ∀ i, 0 ≤ H i) (i : ℕ) (d Ti Ui : K) (hT : 0 ≤ Ti) :
    0 ≤ stepTerm4 u E F H i d Ti Ui := by
  have h54 := g_nonneg hu 54
  have h9 := g_nonneg hu 9
  have h5 := g_nonneg hu 5
  have hA := incA4_nonneg i d
  have hB := incB4_nonneg i d Ti hT
  have hC := incC4_nonneg i d Ui
  have hc := cQ_nonneg (K := K) i
  have hEi := hE i
  have hFi := hF i
  have hHi := hH i
  unfold stepTerm4
  positivity

/-- the one-step lemma with the errors of the mean, of the sum of squares and of the third-order sum
replaced by bounds -/
theorem kurt_step_bd (r : Rnd2 K) (E F H : ℕ → K) (i : ℕ) (x a μ S2 Tv S3 Uv S4 Qv : K)
    (hT : 0 ≤ Tv) (he : |a - μ| ≤ E i) (hD2 : |S2 - Tv| ≤ F i) (hD3 : |S3 - Uv| ≤ H i) :
    let k : K := (i : K) + 1
    let δn := r.fl (r.fl (x - a) / k)
    let A := r.fl (r.fl (r.fl (r.fl (r.fl (x - a) * δn) * r.fl (k - 1)) * r.fl (δn * δn))
      * r.fl (r.fl (r.fl (k * k) - r.fl (3 * k)) + 3))
    let B := r.fl (r.fl (6 * r.fl (δn * δn)) * S2)
    let C := r.fl (r.fl (4 * δn) * S3)
    |r.fl (S4 + r.fl (r.fl (A + B) - C))
        - (Qv + ((x - μ)^4 * cQ i + 6 * (x - μ)^2 * Tv / ((i : K) + 1)^2
            - 4 * (x - μ) * Uv / ((i : K) + 1)))|
      ≤ (1 + r.u) * (|S4 - Qv| + stepTerm4 r.u E F H i (x - μ) Tv Uv)
        + r.u * |Qv + ((x - μ)^4 * cQ i + 6 * (x - μ)^2 * Tv / ((i : K) + 1)^2
            - 4 * (x - μ) * Uv / ((i : K) + 1))| := by
  intro k δn A B C
  have hu := r.u_nonneg
  have hkpos : (0 : K) < (i : K) + 1 := by positivity
  have hc' : ((i : K) + 1 - 1) * (((i : K) + 1) * ((i : K) + 1) - 3 * ((i : K) + 1) + 3)
      / ((i : K) + 1)^3 = cQ i := by
    unfold cQ; congr 1; ring
  have hc0 : (0 : K) ≤ ((i : K) + 1 - 1) * (((i : K) + 1) * ((i : K) + 1) - 3 * ((i : K) + 1) + 3)
      / ((i : K) + 1)^3 := by
    rw [hc']; exact cQ_nonneg i
  have step := kurt_step_error r.fl r.u hu r.err x a μ S2 Tv S3 Uv S4 Qv ((i : K) + 1) hkpos
    (poly_ratio i) hc0 hT
  simp only [hc'] at step
  refine le_trans step ?_
  have h54 := g_nonneg hu 54
  have h9 := g_nonneg hu 9
  have h5 := g_nonneg hu 5
  have hcQ := cQ_nonneg (K := K) i
  have he0 : 0 ≤ |a - μ| := abs_nonneg _
  have hD20 : 0 ≤ |S2 - Tv| := abs_nonneg _
  have hD30 : 0 ≤ |S3 - Uv| := abs_nonneg _
  have hd0 : 0 ≤ |x - μ| := abs_nonneg _
  have hE0 : 0 ≤ E i := le_trans he0 he
  have hAs : |(x - μ)^4 * cQ i| = incA4 i (x - μ) := by
    unfold incA4; exact abs_of_nonneg (mul_nonneg (by positivity) hcQ)
  have hBs : |6 * (x - μ)^2 * Tv / ((i : K) + 1)^2| = incB4 i (x - μ) Tv := by
    unfold incB4; exact abs_of_nonneg (by positivity)
  have hCs : |4 * (x - μ) * Uv / ((i : K) + 1)| = incC4 i (x - μ) Uv := by
    unfold incC4
    rw [abs_div, abs_mul, abs_mul, abs_of_pos hkpos, abs_of_pos (by norm_num : (0:K) < 4)]
  have hsq : (a - μ)^2 ≤ (E i)^2 := by
    rw [← sq_abs (a - μ)]; gcongr
  have hcu : |a - μ|^3 ≤ (E i)^3 := by gcongr
  have hqu : (a - μ)^4 ≤ (E i)^4 := by
    have : (a - μ)^4 = |a - μ|^4 := by
      rw [← abs_pow, abs_of_nonneg (by positivity : 0 ≤ (a - μ)^4)]
    rw [this]; gcongr
  have hΔA : cQ i * (4 * |x - μ|^3 * |a - μ| + 6 * (x - μ)^2 * (a - μ)^2
        + 4 * |x - μ| * |a - μ|^3 + (a - μ)^4)
      ≤ cQ i * (4 * |x - μ|^3 * E i + 6 * (x - μ)^2 * (E i)^2 + 4 * |x - μ| * (E i)^3
        + (E i)^4) := by gcongr
  have hΔB : 6 / ((i : K) + 1)^2 * ((x - μ)^2 * |S2 - Tv|
        + (2 * |x - μ| * |a - μ| + (a - μ)^2) * (Tv + |S2 - Tv|))
      ≤ 6 / ((i : K) + 1)^2 * ((x - μ)^2 * F i
        + (2 * |x - μ| * E i + (E i)^2) * (Tv + F i)) := by gcongr
  have hΔC : 4 / ((i : K) + 1) * (|x - μ| * |S3 - Uv| + |a - μ| * |Uv| + |a - μ| * |S3 - Uv|)
      ≤ 4 / ((i : K) + 1) * (|x - μ| * H i + E i * |Uv| + E i * H i) := by gcongr
  rw [hAs, hBs, hCs]
  have hbr : |S4 - Qv| + g r.u 54 * incA4 i (x - μ) + g r.u 9 * incB4 i (x - μ) Tv
        + g r.u 5 * incC4 i (x - μ) Uv
        + (1 + g r.u 54) * (cQ i * (4 * |x - μ|^3 * |a - μ| + 6 * (x - μ)^2 * (a - μ)^2
            + 4 * |x - μ| * |a - μ|^3 + (a - μ)^4))
        + (1 + g r.u 9) * (6 / ((i : K) + 1)^2 * ((x - μ)^2 * |S2 - Tv|
            + (2 * |x - μ| * |a - μ| + (a - μ)^2) * (Tv + |S2 - Tv|)))
        + (1 + g r.u 5) * (4 / ((i : K) + 1)
            * (|x - μ| * |S3 - Uv| + |a - μ| * |Uv| + |a - μ| * |S3 - Uv|))
      ≤ |S4 - Qv| + stepTerm4 r.u E F H i (x - μ) Tv Uv := by
    unfold stepTerm4
    have := mul_le_mul_of_nonneg_left hΔA (by linarith : 0 ≤ 1 + g r.u 54)
    have := mul_le_mul_of_nonneg_left hΔB (by linarith : 0 ≤ 1 + g r.u 9)
    have := mul_le_mul_of_nonneg_left hΔC (by linarith : 0 ≤ 1 + g r.u 5)
    linarith
  have := mul_le_mul_of_nonneg_left hbr (by linarith : 0 ≤ 1 + r.u)
  linarith

/-- **General induction.** If for every prefix `ys` of the stream the running mean is within `E |ys|` of
the exact mean, the computed `sum_2` within `F |ys|` of the exact sum of squares and the computed `sum_3`
within `H |ys|` of the exact third-order sum, then `|sum_4 - Q| ≤ (1+u)^n·(errSum4 + n·u·V4p)`.
No bound on the data is needed here. -/
theorem kurt_fold_error_gen (r : Rnd2 K) (E F H : ℕ → K) (hE0 : ∀ i, 0 ≤ E i) (hF0 : ∀ i, 0 ≤ F i)
    (hH0 : ∀ i, 0 ≤ H i) :
    ∀ xs : List (RF2 r),
      (∀ ys, ys <+: xs →
        |(ys.foldl Mean.add Mean.new).avg.val - mean (ys.map RF2.val)| ≤ E ys.length) →
      (∀ ys, ys <+: xs →
        |(ys.foldl Variance.add Variance.new).sum_2.val - T (ys.map RF2.val)| ≤ F ys.length) →
      (∀ ys, ys <+: xs →
        |(ys.foldl Skewness.add Skewness.new).sum_3.val - U (ys.map RF2.val)| ≤ H ys.length) →
      |(xs.foldl Kurtosis.add Kurtosis.new).sum_4.val - Q (xs.map RF2.val)|
        ≤ (1 + r.u)^xs.length *
            (errSum4 r.u E F H (xs.map RF2.val) + xs.length * r.u * V4p (xs.map RF2.val)) := by
  intro xs
  induction xs using List.reverseRecOn with
  | nil =>
    intro _ _ _
    have h0 : (Kurtosis.new : Kurtosis (RF2 r)).sum_4.val = 0 :=
      (Nat.cast_zero : ((0 : ℕ) : K) = 0)
    simp [h0, Q_nil, errSum4]
  | append_singleton xs x ih =>
    intro hE hF hH
    have hu := r.u_nonneg
    have ih' := ih (fun ys hys => hE ys (hys.trans (List.prefix_append xs [x])))
      (fun ys hys => hF ys (hys.trans (List.prefix_append xs [x])))
      (fun ys hys => hH ys (hys.trans (List.prefix_append xs [x])))
    have hmean := hE xs (List.prefix_append xs [x])
    have hvar := hF xs (List.prefix_append xs [x])
    have hskew := hH xs (List.prefix_append xs [x])
    rw [List.foldl_append, List.foldl_cons, List.foldl_nil, List.map_append, List.map_cons,
      List.map_nil, List.length_append, List.length_singleton]
    set s := xs.foldl Kurtosis.add Kurtosis.new with hs
    set vs := xs.map RF2.val with hvs
    have hlen : vs.length = xs.length := by simp [hvs]
    have hss : s.avg = xs.foldl Skewness.add Skewness.new := by
      rw [hs, Kurtosis.fold_avg]; rfl
    have hsv : s.avg.avg = xs.foldl Variance.add Variance.new := by
      rw [hss, Skewness.fold_avg]; rfl
    have hn : s.avg.avg.avg.n = xs.length := by rw [hsv]; exact Variance.fold_n_ve xs
    have havg : s.avg.avg.avg.avg = (xs.foldl Mean.add Mean.new).avg := by
      rw [hsv, Variance.fold_avg]; rfl
    rw [← havg] at hmean
    rw [← hsv] at hvar
    rw [← hss] at hskew
    rw [sum4_add_val, hn, Q_snoc, errSum4_snoc, hlen]
    push_cast
    have step := kurt_step_bd r E F H xs.length x.val s.avg.avg.avg.avg.val (mean vs)
      s.avg.avg.sum_2.val (T vs) s.avg.sum_3.val (U vs) s.sum_4.val (Q vs) (T_nonneg vs)
      hmean hvar hskew
    simp only at step
    refine le_trans step ?_
    have hQ' : |Q vs + ((x.val - mean vs)^4 * cQ xs.length
        + 6 * (x.val - mean vs)^2 * T vs / ((xs.length : K) + 1)^2
        - 4 * (x.val - mean vs) * U vs / ((xs.length : K) + 1))| ≤ V4p (vs ++ [x.val]) := by
      have := abs_Q_le (vs ++ [x.val])
      rw [Q_snoc, hlen] at this
      exact this
    have hst := stepTerm4_nonneg hu hE0 hF0 hH0 xs.length (x.val - mean vs) (T vs) (U vs)
      (T_nonneg vs)
    have hab := skew_absorb r.u ((1 + r.u)^xs.length) (errSum4 r.u E F H vs)
      (stepTerm4 r.u E F H xs.length (x.val - mean vs) (T vs) (U vs)) (V4p vs)
      (V4p (vs ++ [x.val])) (xs.length : K) |s.sum_4.val - Q vs| hu (RE.one_le_pow hu _) hst
      (V4p_nonneg vs) (V4p_mono vs x.val) (Nat.cast_nonneg _) ih'
    rw [pow_succ (1 + r.u) xs.length, mul_comm ((1 + r.u)^xs.length) (1 + r.u)]
    have : r.u * |Q vs + ((x.val - mean vs)^4 * cQ xs.length
        + 6 * (x.val - mean vs)^2 * T vs / ((xs.length : K) + 1)^2
        - 4 * (x.val - mean vs) * U vs / ((xs.length : K) + 1))| ≤ r.u * V4p (vs ++ [x.val]) := by
      gcongr
    linarith

end KurtErr

#print axioms KurtErr.sum4_add_val
#print axioms KurtErr.kurt_fold_error_gen
