import AvgProofs.KurtMergeErrSuper
import AvgProofs.KurtMergeErrSpec
import AvgProofs.SkewMergeErrLin
import AvgProofs.KurtMergeErrRel

/-!
# The leaf case of the merge-tree induction for `sum_4`: add-only chunks in the square-root-free form

An `add` of one observation to a state over `i ≥ 1` observations has the same error structure as a merge with a
one-element chunk (`n_y = 1`, `T_y = 0`, scales `0`): the weight of `d⁴` is `cQ i = i(i²-i+1)/(i+1)³ ≤ i/(i+1)`,
`Qa = 6d²T/(i+1)²`, `Ra = 4|d|·V3L/(i+1)`, the relative errors are `γ54`, `γ9`, `γ5`, and there is one rounded
addition instead of four. Hence the same super-additivity lemma (`KurtMerge.superadd4`) carries the same envelope
through a chunk:

`KurtMerge.leaf_inv4`: `|sum_4 - Q| ≤ (1+u)^(4m)·G4(m, V4L, V3L, T)` for every add-only chunk of `m` observations,
for every `Λ, κ ≥ 0` with `B² ≤ Λ·κ`.
-/
open Avg MSpec Finset VarSpec SkewSpec KurtSpec SkewErr KurtErr VarErr SkewMerge

namespace KurtMerge
variable {K : Type} [Field K] [LinearOrder K] [IsStrictOrderedRing K]

/-- the envelope of `sum_3` is monotone in the scale -/
theorem G3_mono_V (u B Λ κ n V V' Tn : K) (hu : 0 ≤ u) (hn : 0 ≤ n) (hV : V ≤ V') :
    G3 u B Λ κ n V Tn ≤ G3 u B Λ κ n V' Tn := by
  unfold G3
  have : 15 * u * n * V ≤ 15 * u * n * V' := by gcongr
  linarith

/-- the contribution of one `add` is at most that of one merge with a one-element chunk -/
theorem stepTerm4_le_stepX4 (u B : K) (i : ℕ) (dd Tv Uv V3v F H' : K) (hu : 0 ≤ u) (hB : 0 ≤ B)
    (hT : 0 ≤ Tv) (hUV : |Uv| ≤ V3v) :
    stepTerm4 u (fun _ => B * ((i : K) + 1)) (fun _ => F) (fun _ => H') i dd Tv Uv
      ≤ stepX4 (g u 54) (g u 9) (g u 5) B (i : K) 1 |dd| (cQ i) (incB4 i dd Tv) (incD4 i dd V3v)
          ((i : K) * 0 + 1 * Tv) ((i : K) * (i : K) * 0 + 1 * 1 * Tv) ((i : K) * 0 + 1 * V3v)
          (6 / ((i : K) + 1)^2 * ((|dd| + B * ((i : K) + 1))^2 * ((i : K) * (i : K) * 0 + 1 * 1 * F)))
          (4 / ((i : K) + 1) * ((|dd| + B * ((i : K) + 1)) * ((i : K) * 0 + 1 * H'))) := by
  have hi0 : (0 : K) ≤ i := Nat.cast_nonneg i
  have hk1 : (1 : K) ≤ (i : K) + 1 := by linarith
  have hkpos : (0 : K) < (i : K) + 1 := by linarith
  have hd0 : 0 ≤ |dd| := abs_nonneg dd
  have h54 := g_nonneg hu 54
  have h9 := g_nonneg hu 9
  have h5 := g_nonneg hu 5
  have hsq : dd^2 = |dd|^2 := (sq_abs dd).symm
  have hq4 : dd^4 = |dd|^4 := by
    have : dd^4 = (dd^2)^2 := by ring
    rw [this, hsq]; ring
  unfold stepTerm4 stepX4
  simp only []
  have tA : g u 54 * incA4 i dd = g u 54 * (|dd|^4 * cQ i) := by unfold incA4; rw [hq4]
  have tC : g u 5 * incC4 i dd Uv ≤ g u 5 * incD4 i dd V3v := by
    unfold incC4 incD4
    gcongr
  have tAs : cQ i * (4 * |dd|^3 * (B * ((i : K) + 1)) + 6 * dd^2 * (B * ((i : K) + 1))^2
        + 4 * |dd| * (B * ((i : K) + 1))^3 + (B * ((i : K) + 1))^4)
      = cQ i * (4 * |dd|^3 * (B * ((i : K) + 1 )) + 6 * |dd|^2 * (B * ((i : K) + 1))^2
        + 4 * |dd| * (B * ((i : K) + 1))^3 + (B * ((i : K) + 1))^4) := by rw [hsq]
  have tB : 6 / ((i : K) + 1)^2 * (dd^2 * F
        + (2 * |dd| * (B * ((i : K) + 1)) + (B * ((i : K) + 1))^2) * (Tv + F))
      ≤ 12 * (B * (|dd| * ((i : K) * 0 + 1 * Tv))) + 6 * (B^2 * ((i : K) * (i : K) * 0 + 1 * 1 * Tv))
        + 6 / ((i : K) + 1)^2 * ((|dd| + B * ((i : K) + 1))^2 * ((i : K) * (i : K) * 0 + 1 * 1 * F)) := by
    have e : 6 / ((i : K) + 1)^2 * (dd^2 * F
          + (2 * |dd| * (B * ((i : K) + 1)) + (B * ((i : K) + 1))^2) * (Tv + F))
        = 12 * (B * (|dd| * Tv)) / ((i : K) + 1) + 6 * (B^2 * Tv)
          + 6 / ((i : K) + 1)^2 * ((|dd| + B * ((i : K) + 1))^2 * F) := by
      rw [hsq]; field_simp; ring
    rw [e]
    have h0 : 0 ≤ 12 * (B * (|dd| * Tv)) := by positivity
    have := div_le_self h0 hk1
    have e2 : 12 * (B * (|dd| * ((i : K) * 0 + 1 * Tv))) = 12 * (B * (|dd| * Tv)) := by ring
    have e3 : 6 * (B^2 * ((i : K) * (i : K) * 0 + 1 * 1 * Tv)) = 6 * (B^2 * Tv) := by ring
    have e4 : 6 / ((i : K) + 1)^2 * ((|dd| + B * ((i : K) + 1))^2 * ((i : K) * (i : K) * 0 + 1 * 1 * F))
        = 6 / ((i : K) + 1)^2 * ((|dd| + B * ((i : K) + 1))^2 * F) := by ring
    rw [e2, e3, e4]
    linarith
  have tCs : 4 / ((i : K) + 1) * (|dd| * H' + B * ((i : K) + 1) * |Uv| + B * ((i : K) + 1) * H')
      ≤ 4 * (B * ((i : K) * 0 + 1 * V3v))
        + 4 / ((i : K) + 1) * ((|dd| + B * ((i : K) + 1)) * ((i : K) * 0 + 1 * H')) := by
    have e : 4 / ((i : K) + 1) * (|dd| * H' + B * ((i : K) + 1) * |Uv| + B * ((i : K) + 1) * H')
        = 4 * (B * |Uv|) + 4 / ((i : K) + 1) * ((|dd| + B * ((i : K) + 1)) * H') := by
      field_simp
      ring
    rw [e]
    have : 4 * (B * |Uv|) ≤ 4 * (B * V3v) := by gcongr
    have e2 : 4 * (B * ((i : K) * 0 + 1 * V3v)) = 4 * (B * V3v) := by ring
    have e3 : 4 / ((i : K) + 1) * ((|dd| + B * ((i : K) + 1)) * ((i : K) * 0 + 1 * H'))
        = 4 / ((i : K) + 1) * ((|dd| + B * ((i : K) + 1)) * H') := by ring
    rw [e2, e3]
    linarith
  rw [tA, tAs]
  have hB' := mul_le_mul_of_nonneg_left tB (by linarith : 0 ≤ 1 + g u 9)
  have hC' := mul_le_mul_of_nonneg_left tCs (by linarith : 0 ≤ 1 + g u 5)
  linarith

/-- the error of the third-order sum of an add-only chunk in the form needed by `z3_bound` -/
theorem leaf_D3 (r : Rnd2 K) (M B : K) (hM : 0 ≤ M) (hu' : r.u ≤ 1/1856)
    (hB : 2 * M * (2 * ((2*r.u + r.u^2) * (1 + r.u)) + r.u) ≤ B) (xs : List (RF2 r))
    (hb : ∀ x ∈ xs, |x.val| ≤ M) (hnu : (xs.length : K) * r.u ≤ 1/64) :
    ∀ Λ κ : K, 0 ≤ Λ → 0 ≤ κ → B^2 ≤ Λ * κ →
      |(xs.foldl Skewness.add Skewness.new).sum_3.val - U (xs.map RF2.val)|
        ≤ 64/61 * G3 r.u B Λ κ (xs.length : K) (V3L (xs.map RF2.val)) (T (xs.map RF2.val)) := by
  intro Λ κ hΛ hκ hΛκ
  have hu := r.u_nonneg
  have hB0 : 0 ≤ B := le_trans (by positivity) hB
  have h := leaf_inv3 r M B Λ κ hM hu' hB hΛ hκ hΛκ xs hb hnu
  refine le_trans h ?_
  have hG := G3_nonneg r.u B Λ κ (xs.length : K) (V3p (xs.map RF2.val)) (T (xs.map RF2.val)) hu hB0 hΛ hκ
    (Nat.cast_nonneg _) (V3p_nonneg _) (T_nonneg _)
  have hmono := G3_mono_V r.u B Λ κ (xs.length : K) (V3p (xs.map RF2.val)) (V3L (xs.map RF2.val))
    (T (xs.map RF2.val)) hu (Nat.cast_nonneg _) (V3p_le_V3L _)
  have hlead := lead3_le r.u hu xs.length hnu
  calc (1 + r.u)^(3 * xs.length) * G3 r.u B Λ κ (xs.length : K) (V3p (xs.map RF2.val)) (T (xs.map RF2.val))
      ≤ 64/61 * G3 r.u B Λ κ (xs.length : K) (V3p (xs.map RF2.val)) (T (xs.map RF2.val)) := by gcongr
    _ ≤ _ := by gcongr

/-- the exact increment of `Q` is at most the sum of the absolute values of its three parts (any `T ≥ 0`, `U`) -/
theorem abs_incr4_gen (i : ℕ) (d Tv Uv : K) (hT : 0 ≤ Tv) :
    |d^4 * cQ i + 6 * d^2 * Tv / ((i : K) + 1)^2 - 4 * d * Uv / ((i : K) + 1)|
      ≤ incA4 i d + incB4 i d Tv + incC4 i d Uv := by
  have hp : (0 : K) < (i : K) + 1 := by positivity
  have hA := incA4_nonneg i d
  have hB := incB4_nonneg i d Tv hT
  refine le_trans (abs_sub _ _) ?_
  have h1 : |d^4 * cQ i + 6 * d^2 * Tv / ((i : K) + 1)^2| = incA4 i d + incB4 i d Tv := by
    unfold incA4 incB4 at *
    exact abs_of_nonneg (add_nonneg hA hB)
  have h2 : |4 * d * Uv / ((i : K) + 1)| = incC4 i d Uv := by
    unfold incC4
    rw [abs_div, abs_mul, abs_mul, abs_of_pos hp, abs_of_pos (by norm_num : (0:K) < 4)]
  rw [h1, h2]

/-- **One `add` after `i ≥ 1` observations, as a merge with a one-element chunk.** -/
theorem leaf_step4 (r : Rnd2 K) (B Λ κ : K) (hu' : r.u ≤ 1/1856) (hB0 : 0 ≤ B)
    (hΛ : 0 ≤ Λ) (hκ : 0 ≤ κ) (hΛκ : B^2 ≤ Λ * κ) (i : ℕ) (hpos : 0 < i)
    (x a μ S2 Tv S3 Uv S4 Qv V3v V4v : K) (hT : 0 ≤ Tv) (hUV : |Uv| ≤ V3v) (hQV : |Qv| ≤ V4v)
    (hmean' : |a - μ| ≤ B * (i : K))
    (hD2 : ∀ Λ κ : K, 0 ≤ Λ → 0 ≤ κ → B^2 ≤ Λ * κ →
      |S2 - Tv| ≤ 32/31 * VarMerge.G r.u B Λ κ (i : K) Tv)
    (hD3 : ∀ Λ κ : K, 0 ≤ Λ → 0 ≤ κ → B^2 ≤ Λ * κ →
      |S3 - Uv| ≤ 64/61 * G3 r.u B Λ κ (i : K) V3v Tv)
    (ih' : |S4 - Qv| ≤ (1 + r.u)^(4 * i) * G4 r.u B Λ κ (i : K) V4v V3v Tv)
    (hnu : ((i : K) + 1) * r.u ≤ 1/64) :
    let k : K := (i : K) + 1
    let δn := r.fl (r.fl (x - a) / k)
    let A := r.fl (r.fl (r.fl (r.fl (r.fl (x - a) * δn) * r.fl (k - 1)) * r.fl (δn * δn))
      * r.fl (r.fl (r.fl (k * k) - r.fl (3 * k)) + 3))
    let Bc := r.fl (r.fl (6 * r.fl (δn * δn)) * S2)
    let C := r.fl (r.fl (4 * δn) * S3)
    |r.fl (S4 + r.fl (r.fl (A + Bc) - C))
        - (Qv + ((x - μ)^4 * cQ i + 6 * (x - μ)^2 * Tv / ((i : K) + 1)^2
            - 4 * (x - μ) * Uv / ((i : K) + 1)))|
      ≤ (1 + r.u)^(4 * (i + 1))
          * G4 r.u B Λ κ ((i : K) + 1)
              (V4v + (incA4 i (x - μ) + incB4 i (x - μ) Tv + incD4 i (x - μ) V3v))
              (V3v + (|x - μ|^3 * ((i : K) / ((i : K) + 1)) + incB i (x - μ) Tv))
              (Tv + (x - μ)^2 * ((i : K) / ((i : K) + 1))) := by
  intro k δn A Bc C
  have hi1 : (1 : K) ≤ (i : K) := by exact_mod_cast hpos
  have he : |a - μ| ≤ (fun _ : ℕ => B * ((i : K) + 1)) i := by
    refine le_trans hmean' ?_
    show B * (i : K) ≤ B * ((i : K) + 1)
    gcongr; linarith
  have hV3v0 : 0 ≤ V3v := le_trans (abs_nonneg _) hUV
  have hV4v0 : 0 ≤ V4v := le_trans (abs_nonneg _) hQV
  have hu := r.u_nonneg
  set d := x - μ with hd
  have hDz2 : |S2 - Tv| ≤ (fun _ : ℕ => |S2 - Tv|) i := le_rfl
  have hDz3 : |S3 - Uv| ≤ (fun _ : ℕ => |S3 - Uv|) i := le_rfl
  have step := kurt_step_bd r (fun _ => B * ((i : K) + 1)) (fun _ => |S2 - Tv|)
    (fun _ => |S3 - Uv|) i x a (μ)
    S2 (Tv) S3 (Uv) S4 (Qv) hT he hDz2 hDz3
  simp only at step
  rw [← hd] at step
  refine le_trans step ?_
  -- the data of the abstract step
  have hg54 : g r.u 54 ≤ 55 * r.u := g54_le r.u hu hu'
  have hg9 : g r.u 9 ≤ 76/5 * r.u := le_trans (g_mono hu (by norm_num)) (g15_le r.u hu hu')
  have hg5 : g r.u 5 ≤ 81/10 * r.u := le_trans (g_mono hu (by norm_num)) (g8_le r.u hu hu')
  have hip : (0 : K) < (i : K) + 1 := by positivity
  have hZ2 := z2_bound r.u B (32/31) (i : K) 1 (Tv) 0 |S2 - Tv| 0
    (|d| + B * ((i : K) + 1)) hu hB0 (by norm_num) (by linarith) one_pos hT le_rfl
    (by positivity) hD2
    (fun Λ' κ' hΛ' hκ' _ => by
      have := VarMerge.G_nonneg r.u B Λ' κ' 1 0 hu hΛ' hκ' zero_le_one le_rfl
      positivity)
  have hZ3 := z3_bound r.u B (64/61) (i : K) 1 (Tv) 0 (V3v) 0 |S3 - Uv| 0
    (|d| + B * ((i : K) + 1)) hu hB0 (by norm_num) (by linarith) one_pos hT le_rfl
    hV3v0 le_rfl (by positivity) hD3
    (fun Λ' κ' hΛ' hκ' _ => by
      have := G3_nonneg r.u B Λ' κ' 1 0 0 hu hB0 hΛ' hκ' zero_le_one le_rfl le_rfl
      positivity)
  have hsup := superadd4 r.u B Λ κ (g r.u 54) (g r.u 9) (g r.u 5) (32/31) (64/61) (i : K) 1
    (Tv) 0 (V3v) 0 (V4v) 0 |d| ((i : K) * 1 / ((i : K) + 1)) ((i : K) * 1 / ((i : K) + 1)^2)
    (cQ i) (incB4 i d (Tv)) (incD4 i d (V3v)) (incB i d (Tv))
    (6 / ((i : K) + 1)^2 * ((|d| + B * ((i : K) + 1))^2
      * ((i : K) * (i : K) * 0 + 1 * 1 * |S2 - Tv|)))
    (4 / ((i : K) + 1) * ((|d| + B * ((i : K) + 1)) * ((i : K) * 0 + 1 * |S3 - Uv|)))
    hu hu' hB0 hΛ hκ hΛκ (g_nonneg hu 54) hg54 (g_nonneg hu 9) hg9 (g_nonneg hu 5) hg5
    (by norm_num) le_rfl (by norm_num) le_rfl
    hi1 le_rfl hnu hT le_rfl hV3v0 le_rfl hV4v0 le_rfl (abs_nonneg d)
    (by field_simp) (by field_simp) (cQ_nonneg i)
    (by rw [mul_one]; exact cQ_le_ratio i)
    (incB4_nonneg i d (Tv) hT)
    (by unfold incB4; rw [sq_abs]; field_simp; ring)
    (incD4_nonneg i d (V3v) hV3v0)
    (by unfold incD4; field_simp; ring)
    (by unfold incB; field_simp; ring)
    hZ2 hZ3
  -- the scales and the sum of squares of the longer chunk
  have hq4 : |d|^4 = d^4 := by
    have : d^4 = (d^2)^2 := by ring
    rw [this, ← sq_abs d]; ring
  have hV4' : V4v + 0 + (|d|^4 * cQ i + incB4 i d (Tv) + incD4 i d (V3v))
      = V4v + (incA4 i d + incB4 i d (Tv) + incD4 i d (V3v)) := by
    unfold incA4; rw [hq4]; ring
  have hV3' : V3v + 0 + (|d|^3 * ((i : K) * 1 / ((i : K) + 1)) + incB i d (Tv))
      = V3v + (|d|^3 * ((i : K) / ((i : K) + 1)) + incB i d (Tv)) := by rw [mul_one]; ring
  have hT' : Tv + 0 + |d|^2 * ((i : K) * 1 / ((i : K) + 1))
      = Tv + d^2 * ((i : K) / ((i : K) + 1)) := by rw [sq_abs, mul_one]; ring
  rw [hV4', hV3', hT'] at hsup
  set V4' := V4v + (incA4 i d + incB4 i d (Tv) + incD4 i d (V3v)) with hV4'def
  set V3' := V3v + (|d|^3 * ((i : K) / ((i : K) + 1)) + incB i d (Tv)) with hV3'def
  set T' := Tv + d^2 * ((i : K) / ((i : K) + 1)) with hT'def
  have hV4'0 : 0 ≤ V4' := by
    have := hV4v0; have := incA4_nonneg i d
    have := incB4_nonneg i d (Tv) hT
    have := incD4_nonneg i d (V3v) hV3v0; rw [hV4'def]; linarith
  have hQ' : |Qv + (d^4 * cQ i + 6 * d^2 * Tv / ((i : K) + 1)^2 - 4 * d * Uv / ((i : K) + 1))|
      ≤ V4' := by
    have h1 := hQV
    have h2 := abs_incr4_gen i d Tv Uv hT
    have h3 : incC4 i d (Uv) ≤ incD4 i d (V3v) := by
      unfold incC4 incD4
      have := hUV
      gcongr
    refine le_trans (abs_add_le _ _) ?_
    rw [hV4'def]; linarith
  set X := stepX4 (g r.u 54) (g r.u 9) (g r.u 5) B (i : K) 1 |d| (cQ i) (incB4 i d (Tv))
    (incD4 i d (V3v)) ((i : K) * 0 + 1 * Tv) ((i : K) * (i : K) * 0 + 1 * 1 * Tv)
    ((i : K) * 0 + 1 * V3v)
    (6 / ((i : K) + 1)^2 * ((|d| + B * ((i : K) + 1))^2
      * ((i : K) * (i : K) * 0 + 1 * 1 * |S2 - Tv|)))
    (4 / ((i : K) + 1) * ((|d| + B * ((i : K) + 1)) * ((i : K) * 0 + 1 * |S3 - Uv|)))
    with hX
  have hstX := stepTerm4_le_stepX4 r.u B i d (Tv) (Uv) (V3v) |S2 - Tv|
    |S3 - Uv| hu hB0 hT hUV
  rw [← hX] at hstX
  have hX0 : 0 ≤ X := by
    rw [hX]
    exact stepX4_nonneg _ _ _ _ _ _ _ _ _ _ _ _ _ _ _ (g_nonneg hu 54) (g_nonneg hu 9) (g_nonneg hu 5)
      hB0 (by positivity) zero_le_one (abs_nonneg d) (cQ_nonneg i)
      (incB4_nonneg i d (Tv) hT) (incD4_nonneg i d (V3v) hV3v0)
      (by have := hT; positivity) (by have := hT; positivity)
      (by have := hV3v0; positivity) (by positivity) (by positivity)
  have hGy : (0 : K) ≤ (1 + r.u)^(4 * 1) * G4 r.u B Λ κ ((1 : ℕ) : K) 0 0 0 :=
    mul_nonneg (by positivity)
      (G4_nonneg _ _ _ _ _ _ _ _ hu hB0 hΛ hκ (Nat.cast_nonneg _) le_rfl le_rfl le_rfl)
  have hsup' : G4 r.u B Λ κ (i : K) (V4v) (V3v) (Tv) + G4 r.u B Λ κ ((1 : ℕ) : K) 0 0 0 + X
      + 4 * r.u * V4' ≤ G4 r.u B Λ κ ((i : K) + ((1 : ℕ) : K)) V4' V3' T' := by
    rw [Nat.cast_one]; exact hsup
  have hfin := node_arith4 r.u B Λ κ (V3v) 0 (V4v) 0 (Tv) 0 V4' V3' T' |S4 - Qv| 0 X
    0 0 0 |Qv + (d^4 * cQ i + 6 * d^2 * Tv / ((i : K) + 1)^2 - 4 * d * Uv / ((i : K) + 1))|
    i 1 hpos le_rfl hu hB0 hΛ hκ hV3v0 le_rfl hV4v0 le_rfl hT le_rfl
    hX0 hV4'0 hV4'0 hV4'0 hV4'0 hQ' ih' hGy hsup'
  rw [Nat.cast_one] at hfin
  refine le_trans ?_ hfin
  have h1le : (1 : K) ≤ 1 + r.u := by linarith
  have hE0 : 0 ≤ |S4 - Qv| + X := by positivity
  have p1 : (1 + r.u) ≤ (1 + r.u)^4 := by
    calc (1 + r.u) = (1 + r.u)^1 := (pow_one _).symm
      _ ≤ (1 + r.u)^4 := pow_le_pow_right₀ h1le (by norm_num)
  have := mul_le_mul_of_nonneg_right p1 hE0
  have hst' : (1 + r.u) * (|S4 - Qv| + stepTerm4 r.u (fun _ => B * ((i : K) + 1))
      (fun _ => |S2 - Tv|) (fun _ => |S3 - Uv|) i d (Tv) (Uv))
      ≤ (1 + r.u) * (|S4 - Qv| + X) := by
    have : 0 ≤ 1 + r.u := by linarith
    gcongr
  have e : (1 + r.u)^4 * (|S4 - Qv| + 0 + X) + r.u * (1 + r.u)^3 * 0
      + r.u * (1 + r.u)^2 * 0 + r.u * (1 + r.u) * 0
      + r.u * |Qv + (d^4 * cQ i + 6 * d^2 * Tv / ((i : K) + 1)^2 - 4 * d * Uv / ((i : K) + 1))|
      = (1 + r.u)^4 * (|S4 - Qv| + X)
        + r.u * |Qv + (d^4 * cQ i + 6 * d^2 * Tv / ((i : K) + 1)^2
            - 4 * d * Uv / ((i : K) + 1))| := by ring
  rw [e]
  linarith

/-- **The leaf case.** `B ≥ 2M(2w+u)` the per-observation budget of the running mean, `u ≤ 1/1856`,
`m·u ≤ 1/64`; any `Λ, κ ≥ 0` with `B² ≤ Λ·κ`:  `|sum_4 - Q| ≤ (1+u)^(4m)·G4(m, V4L, V3L, T)`. -/
theorem leaf_inv4 (r : Rnd2 K) (M B Λ κ : K) (hM : 0 ≤ M) (hu' : r.u ≤ 1/1856)
    (hB : 2 * M * (2 * ((2*r.u + r.u^2) * (1 + r.u)) + r.u) ≤ B)
    (hΛ : 0 ≤ Λ) (hκ : 0 ≤ κ) (hΛκ : B^2 ≤ Λ * κ) :
    ∀ xs : List (RF2 r), (∀ x ∈ xs, |x.val| ≤ M) → (xs.length : K) * r.u ≤ 1/64 →
      |(xs.foldl Kurtosis.add Kurtosis.new).sum_4.val - Q (xs.map RF2.val)|
        ≤ (1 + r.u)^(4 * xs.length)
            * G4 r.u B Λ κ (xs.length : K) (V4L (xs.map RF2.val)) (V3L (xs.map RF2.val))
                (T (xs.map RF2.val)) := by
  have hu := r.u_nonneg
  have hu64 : r.u ≤ 1/64 := by linarith
  have hB0 : 0 ≤ B := le_trans (by positivity) hB
  have hw3 : (2*r.u + r.u^2) * (1 + r.u) ≤ 3 * r.u := by nlinarith
  intro xs
  induction xs using List.reverseRecOn with
  | nil =>
    intro _ _
    have h0 : (Kurtosis.new : Kurtosis (RF2 r)).sum_4.val = 0 :=
      (Nat.cast_zero : ((0 : ℕ) : K) = 0)
    simp [h0, Q_nil, G4]
  | append_singleton xs x ih =>
    intro hb hnu
    have hb' : ∀ y ∈ xs, |y.val| ≤ M := fun y hy => hb y (by simp [hy])
    have hlen : ((xs ++ [x]).length : K) = (xs.length : K) + 1 := by simp
    rw [hlen] at hnu
    have hn0 : (0 : K) ≤ xs.length := Nat.cast_nonneg _
    have hnu' : (xs.length : K) * r.u ≤ 1/64 := by nlinarith
    have hs1 : (2*r.u + r.u^2) * (1 + r.u) + xs.length * r.u ≤ 1/2 := by linarith
    have ih' := ih hb' hnu'
    obtain ⟨_, hmean⟩ := mean_fold_error r M hM xs hb' hs1
    have hD2 := leaf_D2 r M B hM hu64 hB xs hb' hnu' hs1
    have hD3 := leaf_D3 r M B hM hu' hB xs hb' hnu'
    rw [List.foldl_append, List.foldl_cons, List.foldl_nil, List.map_append, List.map_cons,
      List.map_nil, List.length_append, List.length_singleton]
    set s := xs.foldl Kurtosis.add Kurtosis.new with hs
    set vs := xs.map RF2.val with hvs
    have hvl : vs.length = xs.length := by simp [hvs]
    have hss : s.avg = xs.foldl Skewness.add Skewness.new := by
      rw [hs, Kurtosis.fold_avg]; rfl
    have hsv : s.avg.avg = xs.foldl Variance.add Variance.new := by
      rw [hss, Skewness.fold_avg]; rfl
    have hn : s.avg.avg.avg.n = xs.length := by rw [hsv]; exact Variance.fold_n_ve xs
    have havg : s.avg.avg.avg.avg = (xs.foldl Mean.add Mean.new).avg := by
      rw [hsv, Variance.fold_avg]; rfl
    rw [← havg] at hmean
    rw [← hsv] at hD2
    rw [← hss] at hD3
    have hmean' : |s.avg.avg.avg.avg.val - mean vs| ≤ B * (xs.length : K) := by
      refine le_trans hmean ?_
      gcongr
    rw [sum4_add_val, hn, Q_snoc, V4L_snoc, V3L_snoc, T_snoc, hvl]
    push_cast
    set d := x.val - mean vs with hd
    rcases Nat.eq_zero_or_pos xs.length with h0 | hpos
    · -- the first observation of the chunk: no error at all
      have hxs : xs = [] := List.length_eq_zero_iff.mp h0
      have he : |s.avg.avg.avg.avg.val - mean vs| ≤ (fun _ : ℕ => (0 : K)) xs.length := by
        rw [h0, Nat.cast_zero, mul_zero] at hmean'; exact hmean'
      have hTv : T vs = 0 := by rw [hvs, hxs]; simp [T_nil]
      have hUv : U vs = 0 := by rw [hvs, hxs]; simp [U_nil]
      have hQv : Q vs = 0 := by rw [hvs, hxs]; simp [Q_nil]
      have hS4 : s.sum_4.val = 0 := by
        rw [hs, hxs]; exact (Nat.cast_zero : ((0 : ℕ) : K) = 0)
      have hS3 : s.avg.sum_3.val = 0 := by
        rw [hs, hxs]; exact (Nat.cast_zero : ((0 : ℕ) : K) = 0)
      have hS2 : s.avg.avg.sum_2.val = 0 := by
        rw [hs, hxs]; exact (Nat.cast_zero : ((0 : ℕ) : K) = 0)
      have hDz2 : |s.avg.avg.sum_2.val - T vs| ≤ (fun _ : ℕ => (0 : K)) xs.length := by
        rw [hS2, hTv]; simp
      have hDz3 : |s.avg.sum_3.val - U vs| ≤ (fun _ : ℕ => (0 : K)) xs.length := by
        rw [hS3, hUv]; simp
      have step := kurt_step_bd r (fun _ => 0) (fun _ => 0) (fun _ => 0) xs.length x.val
        s.avg.avg.avg.avg.val (mean vs) s.avg.avg.sum_2.val (T vs) s.avg.sum_3.val (U vs) s.sum_4.val
        (Q vs) (T_nonneg vs) he hDz2 hDz3
      simp only at step
      have hc0 : (cQ 0 : K) = 0 := cQ_zero
      rw [← hd] at step
      rw [h0, hTv, hUv, hQv, hS4] at step
      simp only [stepTerm4, incA4, incB4, incC4, hc0, Nat.cast_zero] at step
      rw [h0, hTv, hUv, hQv, hS4]
      simp only [hc0, Nat.cast_zero]
      refine le_trans step ?_
      have hG := G4_nonneg r.u B Λ κ ((0 : K) + 1)
        (V4L vs + (incA4 0 d + incB4 0 d 0 + incD4 0 d (V3L vs)))
        (V3L vs + (|d|^3 * ((0 : K) / (0 + 1)) + incB 0 d 0)) (0 + d^2 * (0 / (0 + 1))) hu hB0 hΛ hκ
        (by norm_num)
        (by have := V4L_nonneg vs; have := incA4_nonneg 0 d
            have := incB4_nonneg 0 d (0 : K) le_rfl
            have := incD4_nonneg 0 d (V3L vs) (V3L_nonneg vs); linarith)
        (by have := V3L_nonneg vs; have := incB_nonneg 0 d (0 : K) le_rfl
            have : (0 : K) ≤ |d|^3 * ((0 : K) / (0 + 1)) := by positivity
            linarith) (by simp)
      have hP : (0 : K) ≤ (1 + r.u)^(4 * (0 + 1)) := by positivity
      have := mul_nonneg hP hG
      refine le_trans (le_of_eq ?_) this
      simp
    · -- `i ≥ 1` observations before: one merge with a one-element chunk
      have step := leaf_step4 r B Λ κ hu' hB0 hΛ hκ hΛκ xs.length hpos x.val s.avg.avg.avg.avg.val (mean vs)
        s.avg.avg.sum_2.val (T vs) s.avg.sum_3.val (U vs) s.sum_4.val (Q vs) (V3L vs) (V4L vs)
        (T_nonneg vs) (abs_U_le_V3L vs) (abs_Q_le_V4L vs) hmean' hD2 hD3 ih' hnu
      simp only at step
      rw [← hd] at step
      exact step

end KurtMerge

#print axioms KurtMerge.leaf_inv4
