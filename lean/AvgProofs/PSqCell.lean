import Mathlib.Order.Basic
import Mathlib.Order.Defs.LinearOrder
import Mathlib.Tactic.Linarith

/-! P² boxes B.1/B.2: the code's cell search and position increments vs the order-free spec. -/
structure V5 (α : Type) where
  (a0 a1 a2 a3 a4 : α)
deriving DecidableEq, Repr

variable {α : Type} [LinearOrder α]

/-- `quantile.rs:149-170` with the new-minimum branch starting at index `kmin`
    (`kmin = 0` is the code as found, `kmin = 1` the repaired code). -/
def codeCell (kmin : Nat) (q : V5 α) (x : α) : V5 α × Nat :=
  if x < q.a0 then ({ q with a0 := x }, kmin)
  else
    let k := if x < q.a1 then 1 else if x < q.a2 then 2 else if x < q.a3 then 3
             else if x < q.a4 then 4 else 4
    let q := if q.a4 < x then { q with a4 := x } else q
    (q, k)

/-- `for i in k..5 { n[i] += 1 }` -/
def incrFrom (k : Nat) (n : V5 Int) : V5 Int :=
  ⟨if k ≤ 0 then n.a0 + 1 else n.a0, if k ≤ 1 then n.a1 + 1 else n.a1,
   if k ≤ 2 then n.a2 + 1 else n.a2, if k ≤ 3 then n.a3 + 1 else n.a3,
   if k ≤ 4 then n.a4 + 1 else n.a4⟩

/-- Spec (Jain & Chlamtac B.1-B.2, order-free reading): extremes absorb x; an interior marker's
    position grows iff the observation is below its height; the maximum's always, the minimum's never. -/
def specHeights (q : V5 α) (x : α) : V5 α :=
  { q with a0 := min q.a0 x, a4 := max q.a4 x }
def specPositions (q : V5 α) (x : α) (n : V5 Int) : V5 Int :=
  ⟨n.a0, if x < q.a1 then n.a1 + 1 else n.a1, if x < q.a2 then n.a2 + 1 else n.a2,
   if x < q.a3 then n.a3 + 1 else n.a3, n.a4 + 1⟩

def Sorted5 (q : V5 α) : Prop := q.a0 ≤ q.a1 ∧ q.a1 ≤ q.a2 ∧ q.a2 ≤ q.a3 ∧ q.a3 ≤ q.a4

theorem cell_fixed_eq_spec (q : V5 α) (x : α) (n : V5 Int) (h : Sorted5 q) :
    (codeCell 1 q x).1 = specHeights q x ∧
    incrFrom (codeCell 1 q x).2 n = specPositions q x n := by
  obtain ⟨h01, h12, h23, h34⟩ := h
  unfold codeCell specHeights specPositions incrFrom
  by_cases c0 : x < q.a0
  · have c1 : x < q.a1 := lt_of_lt_of_le c0 h01
    have c2 : x < q.a2 := lt_of_lt_of_le c1 h12
    have c3 : x < q.a3 := lt_of_lt_of_le c2 h23
    have c4 : x < q.a4 := lt_of_lt_of_le c3 h34
    simp [c0, c1, c2, c3, min_eq_right (le_of_lt c0), max_eq_left (le_of_lt c4)]
  · have m0 : min q.a0 x = q.a0 := min_eq_left (not_lt.mp c0)
    simp only [c0, if_false, m0]
    by_cases c1 : x < q.a1
    · have c2 : x < q.a2 := lt_of_lt_of_le c1 h12
      have c3 : x < q.a3 := lt_of_lt_of_le c2 h23
      have c4 : x < q.a4 := lt_of_lt_of_le c3 h34
      simp [c1, c2, c3, not_lt.mpr (le_of_lt c4), max_eq_left (le_of_lt c4)]
    · by_cases c2 : x < q.a2
      · have c3 : x < q.a3 := lt_of_lt_of_le c2 h23
        have c4 : x < q.a4 := lt_of_lt_of_le c3 h34
        simp [c1, c2, c3, not_lt.mpr (le_of_lt c4), max_eq_left (le_of_lt c4)]
      · by_cases c3 : x < q.a3
        · have c4 : x < q.a4 := lt_of_lt_of_le c3 h34
          simp [c1, c2, c3, not_lt.mpr (le_of_lt c4), max_eq_left (le_of_lt c4)]
        · by_cases c4 : x < q.a4
          · simp [c1, c2, c3, c4, not_lt.mpr (le_of_lt c4), max_eq_left (le_of_lt c4)]
          · by_cases c5 : q.a4 < x
            · simp [c1, c2, c3, c4, c5, max_eq_right (le_of_lt c5)]
            · have : q.a4 = x := le_antisymm (not_lt.mp c4) (not_lt.mp c5)
              simp [c1, c2, c3, c4, c5, this]
              cases q; simp_all

/-- The code as found (`kmin = 0`) violates the spec on a new minimum: marker 0 leaves position 1. -/
example : (incrFrom (codeCell 0 (⟨1,2,3,4,5⟩ : V5 Int) 0).2 ⟨1,2,3,4,5⟩).a0 = 2 := by decide
example : (specPositions (⟨1,2,3,4,5⟩ : V5 Int) 0 ⟨1,2,3,4,5⟩).a0 = 1 := by decide

#print axioms cell_fixed_eq_spec
