import AvgProofs.VarMergeErrSpec
import AvgProofs.VarMergeErrStep
import AvgProofs.VarMergeErrArith
import AvgProofs.VarErr
import AvgProofs.MeanMergeErr
import AvgProofs.MomentsTree

/-!
# Forward error of `sum_2` (Welford / Chan) through `Variance.merge` and through every merge tree

Carrier `RF2 r` (standard model of rounding, `AvgProofs/MeanErr2.lean`).

* `VarMerge.sum2_merge_val`: what `Variance.merge` computes for two non-empty states, operation by
  operation (eight rounded operations: six for the cross term, two additions).
* `VarMerge.sum2_merge_error`: **one-step state lemma** - explicit error of the merged `sum_2` from the
  errors of the operands (`sum_2` and mean of each).
* `VarMerge.var_fold_error_Bgen`: the add-only bound of `VarErr.var_fold_error_cs` for any budget `B` of
  the running mean not below the add-only constant.
* `VarMerge.var_mtree_inv`: **every merge tree** - the square-root-free invariant
  `|sum_2 - T| ≤ (1+u)^(2n)·G(n,T)` (`VarMerge.G`) for every `Λ, κ ≥ 0` with `B² ≤ Λ·κ`.
-/
open Avg MSpec Finset VarSpec VarErr

namespace VarMerge
variable {K : Type} [Field K] [LinearOrder K] [IsStrictOrderedRing K]

/-- `sum_2` after `Variance.merge` of two non-empty states at the carrier `RF2 r`: eight
rounded operations (six for the cross term, two additions) -/
theorem sum2_merge_val (r : Rnd2 K) (s o : Variance (RF2 r)) (hs : s.avg.n ≠ 0) (ho : o.avg.n ≠ 0) :
    (s.merge o).sum_2.val
      = r.fl (s.sum_2.val + r.fl (o.sum_2.val +
          r.fl (r.fl (r.fl (r.fl (r.fl (o.avg.avg.val - s.avg.avg.val)
                                  * r.fl (o.avg.avg.val - s.avg.avg.val))
                            * (s.avg.n : K))
                      * (o.avg.n : K))
                / r.fl ((s.avg.n : K) + (o.avg.n : K))))) := by
  rw [Variance.merge, if_neg ho, if_neg hs]; rfl

/-- **One merge step (state lemma).** `s`, `o` hold the exact counts of the non-empty chunks `xs`, `ys`
and means within `εx`, `εy` of the exact ones. With `C = (μ_y-μ_x)²·n_x·n_y/(n_x+n_y)`,
`η = (1+u)^6/(1-u) - 1`, `ε = εx + εy`:
`|sum_2' - T(xs++ys)| ≤ (1+u)²·(|s.sum_2 - T xs| + |o.sum_2 - T ys| + η·C + (1+η)·(2ε|μ_y-μ_x| + ε²)·q)
   + (1+u)·u·(T ys + C) + u·T(xs++ys)`. -/
theorem sum2_merge_error (r : Rnd2 K) (hu1 : r.u < 1) (s o : Variance (RF2 r)) (xs ys : List K)
    (hx : xs ≠ []) (hy : ys ≠ []) (hsn : s.avg.n = xs.length) (hon : o.avg.n = ys.length)
    (εx εy : K) (hsx : |s.avg.avg.val - mean xs| ≤ εx) (hoy : |o.avg.avg.val - mean ys| ≤ εy) :
    |(s.merge o).sum_2.val - T (xs ++ ys)|
      ≤ (1 + r.u)^2 * (|s.sum_2.val - T xs| + |o.sum_2.val - T ys|
            + eta r.u * ((mean ys - mean xs)^2 * mergeW xs ys)
            + (1 + eta r.u) * ((2 * (εx + εy) * |mean ys - mean xs| + (εx + εy)^2) * mergeW xs ys))
        + (1 + r.u) * r.u * (T ys + (mean ys - mean xs)^2 * mergeW xs ys)
        + r.u * T (xs ++ ys) := by
  have hs0 : s.avg.n ≠ 0 := by rw [hsn]; exact fun h => hx (List.length_eq_zero_iff.mp h)
  have ho0 : o.avg.n ≠ 0 := by rw [hon]; exact fun h => hy (List.length_eq_zero_iff.mp h)
  have hnx : (0 : K) < xs.length := by exact_mod_cast List.length_pos_of_ne_nil hx
  have hny : (0 : K) < ys.length := by exact_mod_cast List.length_pos_of_ne_nil hy
  rw [sum2_merge_val r s o hs0 ho0, hsn, hon, T_append xs ys hx hy]
  have hε : |(o.avg.avg.val - s.avg.avg.val) - (mean ys - mean xs)| ≤ εx + εy := by
    have : (o.avg.avg.val - s.avg.avg.val) - (mean ys - mean xs)
        = (o.avg.avg.val - mean ys) - (s.avg.avg.val - mean xs) := by ring
    rw [this]
    exact le_trans (abs_sub _ _) (by linarith)
  exact merge_step_error r.fl r.u r.u_nonneg hu1 r.err s.avg.avg.val o.avg.avg.val (mean xs) (mean ys)
    s.sum_2.val o.sum_2.val (T xs) (T ys) xs.length ys.length (εx + εy) hnx hny
    (T_nonneg xs) (T_nonneg ys) hε

/-- The add-only bound for any per-observation budget `B ≥ 2M(2w+u)` of the running mean. -/
theorem var_fold_error_Bgen (r : Rnd2 K) (M B : K) (hM : 0 ≤ M)
    (hB : 2 * M * (2 * ((2*r.u + r.u^2) * (1 + r.u)) + r.u) ≤ B) (xs : List (RF2 r))
    (hb : ∀ x ∈ xs, |x.val| ≤ M)
    (hsmall : (2*r.u + r.u^2) * (1 + r.u) + xs.length * r.u ≤ 1/2)
    (R : K) (hR : 0 ≤ R) (hRT : B^2 * ((xs.length : K)^3 / 3) * T (xs.map RF2.val) ≤ R^2) :
    |(xs.foldl Variance.add Variance.new).sum_2.val - T (xs.map RF2.val)|
      ≤ (1 + r.u)^xs.length *
          ((gam r.u + xs.length * r.u) * T (xs.map RF2.val)
            + (1 + gam r.u) * (2 * R + B^2 * ((xs.length : K)^3 / 3))) := by
  have hu := r.u_nonneg
  have hB0 : 0 ≤ B := le_trans (by positivity) hB
  have hT0 := T_nonneg (xs.map RF2.val)
  have hsumE : ∑ i ∈ range xs.length, (B * (i : K))^2 ≤ B^2 * ((xs.length : K)^3 / 3) := by
    have h := sum_sq_le (K := K) xs.length
    calc ∑ i ∈ range xs.length, (B * (i : K))^2 = B^2 * ∑ i ∈ range xs.length, ((i : K))^2 := by
          rw [mul_sum]; apply sum_congr rfl; intro i _; ring
      _ ≤ B^2 * ((xs.length : K)^3 / 3) := by gcongr
  have hE : ∀ ys, ys <+: xs →
      |(ys.foldl Mean.add Mean.new).avg.val - mean (ys.map RF2.val)| ≤ B * (ys.length : K) := by
    intro ys hys
    have hlen : (ys.length : K) ≤ xs.length := by exact_mod_cast hys.length_le
    have h := (mean_fold_error r M hM ys (fun y hy => hb y (hys.subset hy))
      (by nlinarith)).2
    refine le_trans h ?_
    have : (0 : K) ≤ ys.length := Nat.cast_nonneg _
    gcongr
  have hcs := var_fold_error_cs r (fun i => B * (i : K)) (fun i => by positivity) xs hE R hR
    (le_trans (by gcongr) hRT)
  refine le_trans hcs ?_
  have hg := gam_nonneg hu
  gcongr

/-- the leaf case of the tree induction -/
theorem leaf_inv (r : Rnd2 K) (M B Λ κ : K) (hM : 0 ≤ M) (hu64 : r.u ≤ 1/64)
    (hB : 2 * M * (2 * ((2*r.u + r.u^2) * (1 + r.u)) + r.u) ≤ B)
    (hΛ : 0 ≤ Λ) (hκ : 0 ≤ κ) (hΛκ : B^2 ≤ Λ * κ) (xs : List (RF2 r))
    (hb : ∀ x ∈ xs, |x.val| ≤ M)
    (hsmall : (2*r.u + r.u^2) * (1 + r.u) + xs.length * r.u ≤ 1/2) :
    |(xs.foldl Variance.add Variance.new).sum_2.val - T (xs.map RF2.val)|
      ≤ (1 + r.u)^(2 * xs.length) * G r.u B Λ κ (xs.length : K) (T (xs.map RF2.val)) := by
  have hu := r.u_nonneg
  by_cases hnil : xs = []
  · subst hnil
    have h0 : (Variance.new : Variance (RF2 r)).sum_2.val = 0 :=
      (Nat.cast_zero : ((0 : ℕ) : K) = 0)
    simp [h0, T_nil, G]
  have hn1 : (1 : K) ≤ xs.length := by exact_mod_cast List.length_pos_of_ne_nil hnil
  set n : K := (xs.length : K) with hn
  have hn0 : 0 ≤ n := by linarith
  set Tn := T (xs.map RF2.val) with hTn
  have hT0 : 0 ≤ Tn := T_nonneg _
  have hg0 := gam_nonneg hu
  have hgle := gam_le r.u hu hu64
  have hg1 : 1 + gam r.u ≤ 6/5 := by linarith
  have hg2 : (1 + gam r.u)^2 ≤ 48/25 := by nlinarith
  obtain ⟨hR0, hRT, hRe⟩ := leaf_R Λ κ B n Tn (gam r.u) hΛ hκ hn0 hT0 hg0 hg2 hΛκ
  set R := (4/5 * Λ * n * Tn + 4/5 * κ * n^2) / (2 * (1 + gam r.u)) with hRdef
  have main := var_fold_error_Bgen r M B hM hB xs hb hsmall R hR0 hRT
  refine le_trans main ?_
  have hG0 : 0 ≤ G r.u B Λ κ n Tn := G_nonneg _ _ _ _ _ _ hu hΛ hκ hn0 hT0
  have hP : (1 + r.u)^xs.length ≤ (1 + r.u)^(2 * xs.length) :=
    pow_le_pow_right₀ (by linarith) (by omega)
  have hP0 : 0 ≤ (1 + r.u)^xs.length := by positivity
  have hinner : (gam r.u + n * r.u) * Tn + (1 + gam r.u) * (2 * R + B^2 * (n^3 / 3))
      ≤ G r.u B Λ κ n Tn := by
    have e : (1 + gam r.u) * (2 * R + B^2 * (n^3 / 3))
        = 4/5 * Λ * n * Tn + 4/5 * κ * n^2 + (1 + gam r.u) * (B^2 * (n^3 / 3)) := by
      rw [mul_add, hRe]
    rw [e]
    exact leaf_arith r.u (gam r.u) B Λ κ n Tn hu hn1 hT0 hgle hg1
  calc _ ≤ (1 + r.u)^xs.length * G r.u B Λ κ n Tn := by gcongr
    _ ≤ (1 + r.u)^(2 * xs.length) * G r.u B Λ κ n Tn := by gcongr

/-- **Every merge tree: the square-root-free invariant.** `B` a per-observation budget of the mean
that every merge tree keeps (`mean_mtree_error_gen`), `Λ, κ ≥ 0` free with `B² ≤ Λ·κ`, `u ≤ 1/64`:
`|sum_2 - T| ≤ (1+u)^(2n)·G(n,T)`,
`G(n,T) = (19/2)·u·n·T + (4/5)·Λ·n·T + (4/5)·κ·n² + (2/5)·B²·n³`. Any shape, any chunk sizes, empty chunks
included. -/
theorem var_mtree_inv (r : Rnd2 K) (M B Λ κ : K) (hM : 0 ≤ M) (hu64 : r.u ≤ 1/64)
    (hB : 2 * M * (2 * ((2*r.u + r.u^2) * (1 + r.u)) + r.u) ≤ B)
    (hΛ : 0 ≤ Λ) (hκ : 0 ≤ κ) (hΛκ : B^2 ≤ Λ * κ) :
    ∀ t : MTree (RF2 r), (∀ x ∈ t.flatten, |x.val| ≤ M) →
      (2*r.u + r.u^2) * (1 + r.u) + (t.flatten.length : K) * r.u ≤ 1/2 →
      5 * r.u * (M + B * (t.flatten.length : K)) ≤ B →
      |(Variance.evalTree t).sum_2.val - T (t.flatten.map RF2.val)|
        ≤ (1 + r.u)^(2 * t.flatten.length)
            * G r.u B Λ κ (t.flatten.length : K) (T (t.flatten.map RF2.val)) := by
  have hu0 := r.u_nonneg
  have hB0 : 0 ≤ B := le_trans (by positivity) hB
  intro t
  induction t with
  | leaf xs =>
    intro hb hs1 _
    exact leaf_inv r M B Λ κ hM hu64 hB hΛ hκ hΛκ xs hb hs1
  | node l rt ihl ihr =>
    intro hb hs1 hs2
    rw [MTree.flatten_node] at hb hs1 hs2 ⊢
    rw [List.length_append, Nat.cast_add] at hs1 hs2
    have hl0 : (0:K) ≤ (l.flatten.length : K) := Nat.cast_nonneg _
    have hr0 : (0:K) ≤ (rt.flatten.length : K) := Nat.cast_nonneg _
    have hbl : ∀ x ∈ l.flatten, |x.val| ≤ M := fun x hx => hb x (List.mem_append_left _ hx)
    have hbr : ∀ x ∈ rt.flatten, |x.val| ≤ M := fun x hx => hb x (List.mem_append_right _ hx)
    have hs1l : (2*r.u + r.u^2) * (1 + r.u) + (l.flatten.length : K) * r.u ≤ 1/2 := by nlinarith
    have hs1r : (2*r.u + r.u^2) * (1 + r.u) + (rt.flatten.length : K) * r.u ≤ 1/2 := by nlinarith
    have hs2l : 5 * r.u * (M + B * (l.flatten.length : K)) ≤ B := by
      nlinarith [mul_nonneg hu0 (mul_nonneg hB0 hr0)]
    have hs2r : 5 * r.u * (M + B * (rt.flatten.length : K)) ≤ B := by
      nlinarith [mul_nonneg hu0 (mul_nonneg hB0 hl0)]
    have hEl := ihl hbl hs1l hs2l
    have hEr := ihr hbr hs1r hs2r
    obtain ⟨hln, hle⟩ := mean_mtree_error_gen r M B hM (by linarith) hB l hbl hs1l hs2l
    obtain ⟨hrn, hre⟩ := mean_mtree_error_gen r M B hM (by linarith) hB rt hbr hs1r hs2r
    have hlavg : (Variance.evalTree l).avg = Mean.evalTree l := Variance.mtree_avg l
    have hravg : (Variance.evalTree rt).avg = Mean.evalTree rt := Variance.mtree_avg rt
    show |(Variance.merge (Variance.evalTree l) (Variance.evalTree rt)).sum_2.val - _| ≤ _
    by_cases hy : rt.flatten = []
    · have h0 : (Variance.evalTree rt).avg.n = 0 := by rw [hravg, hrn, hy]; rfl
      rw [Variance.merge_empty _ _ h0, hy, List.append_nil]
      exact hEl
    by_cases hx : l.flatten = []
    · have h0 : (Variance.evalTree l).avg.n = 0 := by rw [hlavg, hln, hx]; rfl
      have h1 : (Variance.evalTree rt).avg.n ≠ 0 := by
        rw [hravg, hrn]; exact fun h => hy (List.length_eq_zero_iff.mp h)
      rw [Variance.empty_merge _ _ h0 h1, hx, List.nil_append]
      exact hEr
    -- both operands non-empty
    set sl := Variance.evalTree l with hsl
    set sr := Variance.evalTree rt with hsr
    set xs := l.flatten.map RF2.val with hxs
    set ys := rt.flatten.map RF2.val with hys
    have hxl : xs.length = l.flatten.length := List.length_map _
    have hyl : ys.length = rt.flatten.length := List.length_map _
    have hxne : xs ≠ [] := by rw [hxs]; simpa using hx
    have hyne : ys ≠ [] := by rw [hys]; simpa using hy
    have hlnat : 1 ≤ l.flatten.length := List.length_pos_of_ne_nil hx
    have hrnat : 1 ≤ rt.flatten.length := List.length_pos_of_ne_nil hy
    have hle' : |sl.avg.avg.val - mean xs| ≤ B * (xs.length : K) := by
      rw [hlavg, hxl]; exact hle
    have hre' : |sr.avg.avg.val - mean ys| ≤ B * (ys.length : K) := by
      rw [hravg, hyl]; exact hre
    have step := sum2_merge_error r (by linarith) sl sr xs ys hxne hyne
      (by rw [hlavg, hln, hxl]) (by rw [hravg, hrn, hyl]) _ _ hle' hre'
    rw [← mul_add, hxl, hyl] at step
    rw [List.map_append, List.length_append, Nat.cast_add]
    refine le_trans step ?_
    rw [T_append xs ys hxne hyne]
    have hq0 := mergeW_nonneg xs ys
    have hq := mergeW_mul xs ys hxne
    rw [hxl, hyl] at hq
    exact node_arith r.u B Λ κ (eta r.u) (T xs) (T ys) (mean ys - mean xs) (mergeW xs ys)
      |sl.sum_2.val - T xs| |sr.sum_2.val - T ys| l.flatten.length rt.flatten.length hlnat hrnat
      hu0 hΛ hκ hB0 hΛκ (eta_nonneg hu0 (by linarith)) (eta_le r.u hu0 hu64) (eta_sq_le r.u hu0 hu64)
      (T_nonneg _) (T_nonneg _) hq0 hq hEl hEr

end VarMerge

#print axioms VarMerge.sum2_merge_error
#print axioms VarMerge.leaf_inv
#print axioms VarMerge.var_mtree_inv
