import AvgProofs.SqFoldErr
import AvgProofs.VarErrSharp

/-!
# Abstract sum-of-squares fold: numerical forms of the forward-error bound

For a rounded sum-of-squares fold (`SqFold.IsSqFold`) whose increment has relative error `γ`:

* `sq_fold_error_sharp_num`: if `γ ≤ 12.04·u`, the running means of the prefixes obey the sharp bound
  `Esharp ((65/128)·u·M)` of `mean_fold_error_sharp`, `(n+28)·u ≤ 1/64`, `n·T ≤ R₀²`, then
  `|S - T| ≤ (29/4)·n·u·T + (99/25)·n·u·M·R₀ + (15/4)·n³·u²·M²`.
* `sq_fold_error_lin_num`: if `γ ≤ 13.2·u`, the running means obey `B·i`, `B = 2M(2w+u)` (`mean_fold_error`),
  `n·u ≤ 1/64`, `n·T ≤ R₀²`, then `|S - T| ≤ 15·n·u·T + 15·n·u·M·R₀ + 44·n³·u²·M²`.
* `gam12_le_sharp`, `gam12_le`: `(1+u)^12 - 1 ≤ 12.04·u` for `u ≤ 1/1856`, `≤ 13.2·u` for `u ≤ 1/64`.
-/
open Avg MSpec Finset VarSpec VarErr

namespace SqFold
variable {K : Type} [Field K] [LinearOrder K] [IsStrictOrderedRing K]

/-- twelve roundings cost at most `12.04·u` relative, for `u ≤ 1/1856` -/
theorem gam12_le_sharp (u : K) (hu : 0 ≤ u) (h : u ≤ 1/1856) : (1 + u)^12 - 1 ≤ 301/25 * u := by
  have h2 : (1 + u)^2 ≤ 1 + 20006/10000 * u := by nlinarith
  have h4 : (1 + u)^4 ≤ 1 + 40034/10000 * u := by
    have : (1 + u)^4 = ((1 + u)^2)^2 := by ring
    rw [this]
    calc ((1 + u)^2)^2 ≤ (1 + 20006/10000 * u)^2 := by gcongr
      _ ≤ 1 + 40034/10000 * u := by nlinarith
  have h8 : (1 + u)^8 ≤ 1 + 80155/10000 * u := by
    have : (1 + u)^8 = ((1 + u)^4)^2 := by ring
    rw [this]
    calc ((1 + u)^4)^2 ≤ (1 + 40034/10000 * u)^2 := by gcongr
      _ ≤ 1 + 80155/10000 * u := by nlinarith
  have h40 : 0 ≤ (1 + u)^4 := by positivity
  have : (1 + u)^12 = (1 + u)^8 * (1 + u)^4 := by ring
  rw [this]
  have : (1 + u)^8 * (1 + u)^4 ≤ (1 + 80155/10000 * u) * (1 + 40034/10000 * u) := by gcongr
  nlinarith

/-- twelve roundings cost at most `13.2·u` relative, for `u ≤ 1/64` -/
theorem gam12_le (u : K) (hu : 0 ≤ u) (h : u ≤ 1/64) : (1 + u)^12 - 1 ≤ 66/5 * u := by
  have h2 : (1 + u)^2 ≤ 1 + 129/64 * u := by nlinarith
  have h4 : (1 + u)^4 ≤ 1 + 41/10 * u := by
    have : (1 + u)^4 = ((1 + u)^2)^2 := by ring
    rw [this]
    calc ((1 + u)^2)^2 ≤ (1 + 129/64 * u)^2 := by gcongr
      _ ≤ 1 + 41/10 * u := by nlinarith
  have h8 : (1 + u)^8 ≤ 1 + 17/2 * u := by
    have : (1 + u)^8 = ((1 + u)^4)^2 := by ring
    rw [this]
    calc ((1 + u)^4)^2 ≤ (1 + 41/10 * u)^2 := by gcongr
      _ ≤ 1 + 17/2 * u := by nlinarith
  have h40 : 0 ≤ (1 + u)^4 := by positivity
  have : (1 + u)^12 = (1 + u)^8 * (1 + u)^4 := by ring
  rw [this]
  have : (1 + u)^8 * (1 + u)^4 ≤ (1 + 17/2 * u) * (1 + 41/10 * u) := by gcongr
  nlinarith

/-- the last algebraic step of `sq_fold_error_sharp_num` -/
theorem sharp_arith12 (P γ u M n Tn R₀ Q : K) (hu : 0 ≤ u) (hM : 0 ≤ M) (hn : 1 ≤ n) (hT : 0 ≤ Tn)
    (hR : 0 ≤ R₀) (hγ0 : 0 ≤ γ) (hQ0 : 0 ≤ Q)
    (hP : P ≤ 33/32) (hγ : γ ≤ 301/25 * u) (hu64 : u ≤ 1/1856) (hQ : Q ≤ 14 * n^3)
    (hn2 : 2 ≤ n ∨ Tn = 0) :
    P * ((γ + n * u) * Tn + (1 + γ) * (2 * (15/4 * (65/128 * u * M) * n * R₀)
          + (65/128 * u * M)^2 * Q))
      ≤ 29/4 * n * u * Tn + 99/25 * n * u * M * R₀ + 15/4 * n^3 * u^2 * M^2 := by
  have hn0 : 0 ≤ n := by linarith
  have h1γ : 1 + γ ≤ 1 + 301/46400 := by linarith
  have huM : 0 ≤ u * M := by positivity
  have t1 : P * ((γ + n * u) * Tn) ≤ 29/4 * n * u * Tn := by
    rcases hn2 with h2 | h0
    · have hc : γ + n * u ≤ 351/50 * (n * u) := by nlinarith
      calc P * ((γ + n * u) * Tn) ≤ 33/32 * ((351/50 * (n * u)) * Tn) := by gcongr
        _ ≤ 29/4 * n * u * Tn := by
            have : 0 ≤ n * u * Tn := by positivity
            nlinarith
    · rw [h0]; simp
  have t2 : P * ((1 + γ) * (2 * (15/4 * (65/128 * u * M) * n * R₀) + (65/128 * u * M)^2 * Q))
      ≤ 33/32 * ((1 + 301/46400) * (2 * (15/4 * (65/128 * u * M) * n * R₀)
          + (65/128 * u * M)^2 * (14 * n^3))) := by
    gcongr
  have a2 : 0 ≤ n * u * M * R₀ := by positivity
  have a3 : 0 ≤ n^3 * u^2 * M^2 := by positivity
  have e : P * ((γ + n * u) * Tn + (1 + γ) * (2 * (15/4 * (65/128 * u * M) * n * R₀)
          + (65/128 * u * M)^2 * Q))
      = P * ((γ + n * u) * Tn) + P * ((1 + γ) * (2 * (15/4 * (65/128 * u * M) * n * R₀)
          + (65/128 * u * M)^2 * Q)) := by ring
  rw [e]
  nlinarith

/-- **Sharp numerals, abstract fold.** Increment error `γ ≤ 12.04·u`, running means of the prefixes within
`Esharp ((65/128)·u·M)`, `(n+28)·u ≤ 1/64`, any `R₀ ≥ 0` with `n·T ≤ R₀²`:
`|S - T| ≤ (29/4)·n·u·T + (99/25)·n·u·M·R₀ + (15/4)·n³·u²·M²`. -/
theorem sq_fold_error_sharp_num (r : Rnd2 K) (γ : K) (hγ0 : 0 ≤ γ) (hγ : γ ≤ 301/25 * r.u)
    {β : Type} (val : β → K) (Sf af : List β → K) (M : K) (hM : 0 ≤ M) (xs : List β)
    (hF : IsSqFold r γ val Sf af xs)
    (hE : ∀ ys, ys <+: xs → |af ys - mean (ys.map val)| ≤ Esharp (65/128 * r.u * M) ys.length)
    (hsmall : ((xs.length : K) + 28) * r.u ≤ 1/64)
    (R₀ : K) (hR : 0 ≤ R₀) (hRT : (xs.length : K) * T (xs.map val) ≤ R₀^2) :
    |Sf xs - T (xs.map val)|
      ≤ 29/4 * xs.length * r.u * T (xs.map val) + 99/25 * xs.length * r.u * M * R₀
        + 15/4 * (xs.length : K)^3 * r.u^2 * M^2 := by
  have hu := r.u_nonneg
  by_cases hnil : xs = []
  · subst hnil
    simp [hF.1, T_nil]
  have hnat : 1 ≤ xs.length := List.length_pos_of_ne_nil hnil
  have hn1 : (1 : K) ≤ xs.length := by exact_mod_cast hnat
  have hn2 : (2 : K) ≤ xs.length ∨ T (xs.map val) = 0 := by
    rcases Nat.eq_or_lt_of_le hnat with h | h
    · right
      obtain ⟨x, hx⟩ := List.length_eq_one_iff.mp h.symm
      rw [hx]; exact T_singleton _
    · left; exact_mod_cast h
  set n : K := (xs.length : K) with hn
  have hn0 : 0 ≤ n := by linarith
  have hu1856 : r.u ≤ 1/1856 := by nlinarith
  have hnu : n * r.u ≤ 1/64 := by nlinarith
  set Tn := T (xs.map val) with hTn
  have hT0 : 0 ≤ Tn := T_nonneg _
  set b := 65/128 * r.u * M with hb
  have hb0 : 0 ≤ b := by positivity
  have hQle := Qc_le (K := K) xs.length hnat
  have hQ0 := Qc_nonneg (K := K) xs.length hnat
  have hRR : b^2 * Qc n * Tn ≤ (15/4 * b * n * R₀)^2 := by
    have h2 : (15/4 * b * n * R₀)^2 = (b^2 * n^2 * (225/16)) * R₀^2 := by ring
    rw [h2]
    have h4 : 0 ≤ n * Tn := by positivity
    calc b^2 * Qc n * Tn ≤ b^2 * (14 * n^3) * Tn := by gcongr
      _ = (b^2 * n^2 * 14) * (n * Tn) := by ring
      _ ≤ (b^2 * n^2 * (225/16)) * (n * Tn) := by
          have : 0 ≤ b^2 * n^2 := by positivity
          nlinarith
      _ ≤ (b^2 * n^2 * (225/16)) * R₀^2 := by gcongr
  have main := sq_fold_error_cs r γ hγ0 val Sf af (Esharp b) (Esharp_nonneg hb0) xs hF hE
    (15/4 * b * n * R₀) (by positivity) (by rw [sum_Esharp_sq _ _ hnat]; exact hRR)
  rw [sum_Esharp_sq _ _ hnat] at main
  refine le_trans main ?_
  have hP : (1 + r.u)^xs.length ≤ 33/32 := by
    have := one_add_pow_le r.u hu xs.length (by linarith)
    linarith
  exact sharp_arith12 _ _ r.u M n Tn R₀ _ hu hM hn1 hT0 hR hγ0 hQ0 hP hγ hu1856 hQle hn2

/-- the last algebraic step of `sq_fold_error_lin_num` -/
theorem lin_arith12 (P γ B u M n Tn R₀ : K) (hu : 0 ≤ u) (hM : 0 ≤ M) (hn : 1 ≤ n) (hT : 0 ≤ Tn)
    (hR : 0 ≤ R₀) (hB0 : 0 ≤ B) (hP0 : 0 ≤ P)
    (hP : P ≤ 33/32) (hγ : γ ≤ 66/5 * u) (hB : B ≤ 41/4 * u * M) (hu64 : u ≤ 1/64) :
    P * ((γ + n * u) * Tn + (1 + γ) * (2 * (B * n * R₀ * (37/64)) + B^2 * (n^3 / 3)))
      ≤ 15 * n * u * Tn + 15 * n * u * M * R₀ + 44 * n^3 * u^2 * M^2 := by
  have hn0 : 0 ≤ n := by linarith
  have h1γ : 1 + γ ≤ 193/160 := by linarith
  have huM : 0 ≤ u * M := by positivity
  have hB2 : B^2 ≤ (41/4 * u * M)^2 := by gcongr
  have t1 : (γ + n * u) * Tn ≤ (71/5 * (n * u)) * Tn := by
    have : u ≤ n * u := by nlinarith
    gcongr; linarith
  have t2 : (1 + γ) * (2 * (B * n * R₀ * (37/64)) + B^2 * (n^3 / 3))
      ≤ 193/160 * (2 * ((41/4 * u * M) * n * R₀ * (37/64)) + (41/4 * u * M)^2 * (n^3 / 3)) := by
    gcongr
  have hnonneg : 0 ≤ (71/5 * (n * u)) * Tn
      + 193/160 * (2 * ((41/4 * u * M) * n * R₀ * (37/64)) + (41/4 * u * M)^2 * (n^3 / 3)) := by
    positivity
  calc P * ((γ + n * u) * Tn + (1 + γ) * (2 * (B * n * R₀ * (37/64)) + B^2 * (n^3 / 3)))
      ≤ P * ((71/5 * (n * u)) * Tn
          + 193/160 * (2 * ((41/4 * u * M) * n * R₀ * (37/64)) + (41/4 * u * M)^2 * (n^3 / 3))) := by
        gcongr
    _ ≤ 33/32 * ((71/5 * (n * u)) * Tn
          + 193/160 * (2 * ((41/4 * u * M) * n * R₀ * (37/64)) + (41/4 * u * M)^2 * (n^3 / 3))) := by
        gcongr
    _ ≤ 15 * n * u * Tn + 15 * n * u * M * R₀ + 44 * n^3 * u^2 * M^2 := by
        have a1 : 0 ≤ n * u * Tn := by positivity
        have a2 : 0 ≤ n * u * M * R₀ := by positivity
        have a3 : 0 ≤ n^3 * u^2 * M^2 := by positivity
        nlinarith

/-- **Numerals under `n·u ≤ 1/64` only, abstract fold.** Increment error `γ ≤ 13.2·u`, running means of the
prefixes within `B·i`, `B = 2M(2w+u)`, `w = (2u+u²)(1+u)`; any `R₀ ≥ 0` with `n·T ≤ R₀²`:
`|S - T| ≤ 15·n·u·T + 15·n·u·M·R₀ + 44·n³·u²·M²`. -/
theorem sq_fold_error_lin_num (r : Rnd2 K) (γ : K) (hγ0 : 0 ≤ γ) (hγ : γ ≤ 66/5 * r.u)
    {β : Type} (val : β → K) (Sf af : List β → K) (M : K) (hM : 0 ≤ M) (xs : List β)
    (hF : IsSqFold r γ val Sf af xs)
    (hE : ∀ ys, ys <+: xs → |af ys - mean (ys.map val)|
        ≤ 2 * M * (2 * ((2*r.u + r.u^2) * (1 + r.u)) + r.u) * (ys.length : K))
    (hsmall : (xs.length : K) * r.u ≤ 1/64)
    (R₀ : K) (hR : 0 ≤ R₀) (hRT : (xs.length : K) * T (xs.map val) ≤ R₀^2) :
    |Sf xs - T (xs.map val)|
      ≤ 15 * xs.length * r.u * T (xs.map val) + 15 * xs.length * r.u * M * R₀
        + 44 * (xs.length : K)^3 * r.u^2 * M^2 := by
  have hu := r.u_nonneg
  by_cases hnil : xs = []
  · subst hnil
    simp [hF.1, T_nil]
  have hn1 : (1 : K) ≤ xs.length := by
    exact_mod_cast List.length_pos_of_ne_nil hnil
  set n : K := (xs.length : K) with hn
  have hn0 : 0 ≤ n := by linarith
  have hu64 : r.u ≤ 1/64 := by nlinarith
  set Tn := T (xs.map val) with hTn
  have hT0 : 0 ≤ Tn := T_nonneg _
  set B := 2 * M * (2 * ((2*r.u + r.u^2) * (1 + r.u)) + r.u) with hB
  have hB0 : 0 ≤ B := by positivity
  have hBle := B_le r.u M hu hM hu64
  have hsumE : ∑ i ∈ range xs.length, (B * (i : K))^2 ≤ B^2 * (n^3 / 3) := by
    have h := sum_sq_le (K := K) xs.length
    calc ∑ i ∈ range xs.length, (B * (i : K))^2 = B^2 * ∑ i ∈ range xs.length, ((i : K))^2 := by
          rw [mul_sum]; apply sum_congr rfl; intro i _; ring
      _ ≤ B^2 * (n^3 / 3) := by gcongr
  have hRR : B^2 * (n^3 / 3) * Tn ≤ (B * n * R₀ * (37/64))^2 := by
    have h1 : B^2 * (n^3 / 3) * Tn = (B^2 * n^2 / 3) * (n * Tn) := by ring
    have h2 : (B * n * R₀ * (37/64))^2 = (B^2 * n^2 * (1369/4096)) * R₀^2 := by ring
    rw [h1, h2]
    have h3 : B^2 * n^2 / 3 ≤ B^2 * n^2 * (1369/4096) := by
      have : 0 ≤ B^2 * n^2 := by positivity
      linarith
    have h4 : 0 ≤ n * Tn := by positivity
    calc (B^2 * n^2 / 3) * (n * Tn) ≤ (B^2 * n^2 * (1369/4096)) * (n * Tn) := by gcongr
      _ ≤ (B^2 * n^2 * (1369/4096)) * R₀^2 := by gcongr
  have hcs := sq_fold_error_cs r γ hγ0 val Sf af (fun i => B * (i : K)) (fun i => by positivity) xs
    hF hE (B * n * R₀ * (37/64)) (by positivity) (le_trans (by gcongr) hRR)
  refine le_trans hcs ?_
  have hP : (1 + r.u)^xs.length ≤ 33/32 := by
    have := one_add_pow_le r.u hu xs.length (by linarith)
    linarith
  have hmono : (1 + r.u)^xs.length *
        ((γ + n * r.u) * Tn + (1 + γ) * (2 * (B * n * R₀ * (37/64))
          + ∑ i ∈ range xs.length, (B * (i : K))^2))
      ≤ (1 + r.u)^xs.length *
        ((γ + n * r.u) * Tn + (1 + γ) * (2 * (B * n * R₀ * (37/64)) + B^2 * (n^3 / 3))) := by
    gcongr
  refine le_trans hmono ?_
  exact lin_arith12 _ _ B r.u M n Tn R₀ hu hM hn1 hT0 hR hB0 (by positivity) hP hγ hBle hu64

end SqFold

#print axioms SqFold.sq_fold_error_sharp_num
#print axioms SqFold.sq_fold_error_lin_num
