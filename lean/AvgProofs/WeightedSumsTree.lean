import AvgProofs.WeightedSumsErr

/-!
# `sum_weights`, `sum_weights_sq`, `effective_len` of `WeightedMeanWithError` through merge trees

`weight_sum_sq` merges by a plain rounded addition - *without* an early return for an empty operand - so
in the standard model (`fl(a + 0)` need not be `a`) the number of roundings on a path from an observation
to the root is what counts: `MTree.rounds` (`leaf xs ↦ |xs| + 1`, `node l r ↦ max + 1`).
`rounds t ≤ n + merges + 1`; for a balanced tree over `p` chunks of `n/p` observations it is
`n/p + 1 + ⌈log₂ p⌉`.

* `tree_sums_MB`: both stored sums lie between `(1-u)^R` and `(1+u)^R` times their exact values, `R = rounds t`.
* `efflen_tree_MB`: `effective_len` between `(1-u)^(2R+2)/(1+u)^R` and `(1+u)^(2R+2)/(1-u)^R` times `(Σw)²/Σw²`.
-/
open Avg MSpec
set_option linter.unusedSectionVars false

namespace MTree
/-- the largest number of rounded additions that an observation's weight goes through, plus one for the
rounded square: `|xs| + 1` at a leaf, one more per merge level -/
def rounds {α : Type} : MTree α → ℕ
  | leaf xs => xs.length + 1
  | node l r => max l.rounds r.rounds + 1

theorem rounds_pos {α : Type} (t : MTree α) : 1 ≤ t.rounds := by
  cases t <;> simp [rounds]

theorem rounds_le {α : Type} (t : MTree α) : t.rounds ≤ t.flatten.length + t.merges + 1 := by
  induction t with
  | leaf xs => simp [rounds, merges]
  | node l r ihl ihr =>
    simp only [rounds, merges, flatten_node, List.length_append]
    omega
end MTree

variable {K : Type} [Field K] [LinearOrder K] [IsStrictOrderedRing K]

namespace Avg
/-- any carrier: the count of a merged `Variance` is the sum of the counts -/
theorem Variance.merge_n_any {α : Type} [Add α] [Sub α] [Mul α] [Div α] [NatCast α] (s o : Variance α) :
    (s.merge o).avg.n = s.avg.n + o.avg.n := by
  unfold Variance.merge Mean.merge
  by_cases h1 : o.avg.n = 0
  · simp only [h1, if_true, Nat.add_zero]
  by_cases h2 : s.avg.n = 0
  · simp only [h1, h2, if_true, if_false, Nat.zero_add]
  simp only [h1, h2, if_false]
end Avg

section tree
variable {r : Rnd2 K} [FloatOps (RF2 r)]

/-- the count kept by `WeightedMeanWithError` through every merge tree is the number of observations -/
theorem wmwe_tree_n (t : MTree (RF2 r × RF2 r)) :
    (WeightedMeanWithError.evalTree t).unweighted_avg.avg.n = t.flatten.length := by
  induction t with
  | leaf ps => exact wmwe_fold_n ps
  | node l rt ihl ihr =>
    show ((WeightedMeanWithError.evalTree l).unweighted_avg.merge
      (WeightedMeanWithError.evalTree rt).unweighted_avg).avg.n = _
    rw [Variance.merge_n_any, ihl, ihr, MTree.flatten_node, List.length_append]

/-- the stored weight sum of a merged `WeightedMean`, by cases on the early returns -/
theorem wmean_merge_wsum_MB (heq : ValEqb r) (hu1 : r.u < 1) (a b : WeightedMean (RF2 r)) (Wa Wb : K)
    (m : ℕ) (hWa : 0 ≤ Wa) (hWb : 0 ≤ Wb)
    (ha : MB ((1 - r.u)^m) ((1 + r.u)^m) a.weight_sum.val Wa)
    (hb : MB ((1 - r.u)^m) ((1 + r.u)^m) b.weight_sum.val Wb) :
    MB ((1 - r.u)^(m + 1)) ((1 + r.u)^(m + 1)) (a.merge b).weight_sum.val (Wa + Wb) := by
  have hu0 := r.u_nonneg
  have h1u : 0 < 1 - r.u := by linarith
  have hlo : 0 < (1 - r.u)^m := pow_pos h1u m
  have h0K : ((0:Nat) : K) = 0 := Nat.cast_zero
  have hemp : ∀ s : WeightedMean (RF2 r), s.isEmpty = true ↔ s.weight_sum.val = 0 := by
    intro s; unfold WeightedMean.isEmpty; rw [heq]
    show s.weight_sum.val = ((0:Nat) : K) ↔ _; rw [h0K]
  have hzero : ∀ (c W' : K), 0 ≤ W' → MB ((1 - r.u)^m) ((1 + r.u)^m) c W' → c = 0 → W' = 0 := by
    intro c W' hW' h hc
    have := h.1; rw [hc] at this
    nlinarith
  have hstep : ∀ (c W' : K), 0 ≤ W' → MB ((1 - r.u)^m) ((1 + r.u)^m) c W' →
      MB ((1 - r.u)^(m + 1)) ((1 + r.u)^(m + 1)) c W' := fun c W' hW' h =>
    h.mono hW' (pow_one_sub_le_pow r.u hu0 hu1.le (Nat.le_succ m))
      (pow_one_add_le_pow r.u hu0 (Nat.le_succ m))
  by_cases hbz : b.weight_sum.val = 0
  · rw [WeightedMean.merge_empty a b ((hemp b).mpr hbz), hzero _ _ hWb hb hbz, add_zero]
    exact hstep _ _ hWa ha
  have hbne : b.isEmpty = false := by
    cases h : b.isEmpty
    · rfl
    · exact absurd ((hemp b).mp h) hbz
  by_cases haz : a.weight_sum.val = 0
  · rw [WeightedMean.empty_merge a b ((hemp a).mpr haz) hbne, hzero _ _ hWa ha haz, zero_add]
    exact hstep _ _ hWb hb
  have hane : a.isEmpty = false := by
    cases h : a.isEmpty
    · rfl
    · exact absurd ((hemp a).mp h) haz
  rw [(WeightedMean.merge_val a b hane hbne).1, pow_succ, pow_succ]
  exact (ha.add hb).round r.fl r.u hu0 hu1.le r.err hlo.le (add_nonneg hWa hWb)

/-- **Both sums through every merge tree.** Weights `≥ 0`, `u < 1`, `R = rounds t`:
`(1-u)^R·Σw ≤ weight_sum ≤ (1+u)^R·Σw` and `(1-u)^R·Σw² ≤ weight_sum_sq ≤ (1+u)^R·Σw²`. -/
theorem tree_sums_MB (heq : ValEqb r) (hu1 : r.u < 1) (t : MTree (RF2 r × RF2 r))
    (hw : ∀ p ∈ t.flatten, 0 ≤ p.2.val) :
    0 ≤ W (pairVals t.flatten) ∧ 0 ≤ W2 (pairVals t.flatten) ∧
    MB ((1 - r.u)^t.rounds) ((1 + r.u)^t.rounds)
      (WeightedMeanWithError.evalTree t).weighted_avg.weight_sum.val (W (pairVals t.flatten)) ∧
    MB ((1 - r.u)^t.rounds) ((1 + r.u)^t.rounds)
      (WeightedMeanWithError.evalTree t).weight_sum_sq.val (W2 (pairVals t.flatten)) := by
  have hu0 := r.u_nonneg
  have h1u : 0 < 1 - r.u := by linarith
  induction t with
  | leaf ps =>
    obtain ⟨hW0, hW⟩ := wsum_fold_MB hu1.le ps hw
    obtain ⟨hW20, hW2⟩ := wsumsq_fold_MB hu1.le ps
    refine ⟨hW0, hW20, ?_, hW2⟩
    show MB _ _ (ps.foldl WeightedMeanWithError.addP WeightedMeanWithError.new).weighted_avg.weight_sum.val _
    rw [wmwe_fold_wsum]
    exact hW.mono hW0 (pow_one_sub_le_pow r.u hu0 hu1.le (Nat.le_succ _))
      (pow_one_add_le_pow r.u hu0 (Nat.le_succ _))
  | node l rt ihl ihr =>
    have hwl : ∀ p ∈ l.flatten, 0 ≤ p.2.val := fun p hp => hw p (List.mem_append_left _ hp)
    have hwr : ∀ p ∈ rt.flatten, 0 ≤ p.2.val := fun p hp => hw p (List.mem_append_right _ hp)
    obtain ⟨l0, l20, lW, lW2⟩ := ihl hwl
    obtain ⟨r0, r20, rW, rW2⟩ := ihr hwr
    rw [MTree.flatten_node, pairVals_append, W_append, W2_append]
    refine ⟨add_nonneg l0 r0, add_nonneg l20 r20, ?_, ?_⟩
    all_goals
      have hml : l.rounds ≤ max l.rounds rt.rounds := le_max_left _ _
      have hmr : rt.rounds ≤ max l.rounds rt.rounds := le_max_right _ _
    · show MB _ _ ((WeightedMeanWithError.evalTree l).weighted_avg.merge
        (WeightedMeanWithError.evalTree rt).weighted_avg).weight_sum.val _
      exact wmean_merge_wsum_MB heq hu1 _ _ _ _ _ l0 r0
        (lW.mono l0 (pow_one_sub_le_pow r.u hu0 hu1.le hml) (pow_one_add_le_pow r.u hu0 hml))
        (rW.mono r0 (pow_one_sub_le_pow r.u hu0 hu1.le hmr) (pow_one_add_le_pow r.u hu0 hmr))
    · show MB ((1 - r.u)^(max l.rounds rt.rounds + 1)) ((1 + r.u)^(max l.rounds rt.rounds + 1))
        (r.fl ((WeightedMeanWithError.evalTree l).weight_sum_sq.val
          + (WeightedMeanWithError.evalTree rt).weight_sum_sq.val)) _
      rw [pow_succ, pow_succ]
      exact ((lW2.mono l20 (pow_one_sub_le_pow r.u hu0 hu1.le hml) (pow_one_add_le_pow r.u hu0 hml)).add
        (rW2.mono r20 (pow_one_sub_le_pow r.u hu0 hu1.le hmr) (pow_one_add_le_pow r.u hu0 hmr))).round
        r.fl r.u hu0 hu1.le r.err (pow_pos h1u _).le (add_nonneg l20 r20)

/-- what `effective_len` computes for a tree with at least one observation -/
theorem efflen_tree_val (t : MTree (RF2 r × RF2 r)) (hne : t.flatten ≠ []) :
    (WeightedMeanWithError.evalTree t).effectiveLen.val
      = r.fl (r.fl ((WeightedMeanWithError.evalTree t).weighted_avg.weight_sum.val
                    * (WeightedMeanWithError.evalTree t).weighted_avg.weight_sum.val)
              / (WeightedMeanWithError.evalTree t).weight_sum_sq.val) := by
  have hn := wmwe_tree_n t
  have h0 : t.flatten.length ≠ 0 := fun h => hne (List.length_eq_zero_iff.mp h)
  have he : (WeightedMeanWithError.evalTree t).isEmpty = false := by
    simp only [WeightedMeanWithError.isEmpty, Variance.isEmpty, Mean.isEmpty, hn]
    simpa using h0
  unfold WeightedMeanWithError.effectiveLen
  rw [he]
  rfl

/-- **`effective_len` through every merge tree, multiplicative form.** Weights `≥ 0`, `Σw > 0`, `u < 1`,
`R = rounds t`: `(1-u)^(2R+2)/(1+u)^R · E ≤ effective_len ≤ (1+u)^(2R+2)/(1-u)^R · E`, `E = (Σw)²/Σw²`. -/
theorem efflen_tree_MB (heq : ValEqb r) (hu1 : r.u < 1) (t : MTree (RF2 r × RF2 r))
    (hw : ∀ p ∈ t.flatten, 0 ≤ p.2.val) (hpos : 0 < W (pairVals t.flatten)) :
    MB ((1 - r.u)^(2 * t.rounds + 2) / (1 + r.u)^t.rounds)
       ((1 + r.u)^(2 * t.rounds + 2) / (1 - r.u)^t.rounds)
       (WeightedMeanWithError.evalTree t).effectiveLen.val
       (W (pairVals t.flatten) * W (pairVals t.flatten) / W2 (pairVals t.flatten)) := by
  have hne : t.flatten ≠ [] := by intro h; rw [h] at hpos; simp [pairVals] at hpos
  have hu0 := r.u_nonneg
  have h1u : 0 < 1 - r.u := by linarith
  obtain ⟨_, _, hW, hW2⟩ := tree_sums_MB heq hu1 t hw
  have hW2pos : 0 < W2 (pairVals t.flatten) := W2_pos hpos.ne'
  rw [efflen_tree_val t hne]
  have hl : 0 ≤ (1 - r.u)^t.rounds := (pow_pos h1u _).le
  have hE0 := div_nonneg (mul_nonneg hpos.le hpos.le) hW2pos.le
  have hWW := ((hW.mul hW hl hl hpos.le hpos.le).round r.fl r.u hu0 hu1.le r.err
    (by positivity) (mul_nonneg hpos.le hpos.le))
  have hq := (hWW.div hW2 (by positivity) (pow_pos h1u _) (mul_nonneg hpos.le hpos.le) hW2pos).round
    r.fl r.u hu0 hu1.le r.err (by positivity) hE0
  refine hq.mono hE0 (le_of_eq ?_) (le_of_eq ?_)
  · rw [div_mul_eq_mul_div]; congr 1; ring
  · rw [div_mul_eq_mul_div]; congr 1; ring

end tree
