import AvgProofs.VarMergeErrLin
import AvgProofs.SqrtErr

/-!
# `variance_of_mean` and `error` through every merge tree (R2 carrier)

* `merge_sum2_nonneg`, `mtree_sum2_nonneg`: at `RF2 r` with `u ≤ 1` the stored sum of squares is `≥ 0` after
  every merge tree (any data): the cross term of `Variance.merge` is a rounded quotient of rounded products
  of non-negative factors.
* `vom_mtree_val`: `variance_of_mean = fl(fl(sum_2/(n-1))/n)` for `n ≥ 2`; `vom_mtree_nonneg`.
* `vom_mtree_error`: `n ≥ 2`, `|x| ≤ M`, `n·u ≤ 1/64`, `v = T/((n-1)·n)`, any `σ ≥ 0` with `T/n ≤ σ²`:
  `|variance_of_mean - v| ≤ 12·n·u·v + (18·n·u·M·σ + 46·n²·u²·M²)/(n-1)`
  (add-only stream, `SqrtErr.vom_error_sharp`: `13/2, 99/25, 94/25`).
-/
open Avg MSpec VarSpec VarErr VarMerge
set_option linter.unusedSectionVars false

namespace VomMerge
variable {K : Type} [Field K] [LinearOrder K] [IsStrictOrderedRing K]

/-- `Variance.merge` keeps `sum_2 ≥ 0` at `RF2 r` (`u ≤ 1`), whatever the operands' means and counts -/
theorem merge_sum2_nonneg (r : Rnd2 K) (hu1 : r.u ≤ 1) (s o : Variance (RF2 r))
    (hs : 0 ≤ s.sum_2.val) (ho : 0 ≤ o.sum_2.val) : 0 ≤ (s.merge o).sum_2.val := by
  by_cases h1 : o.avg.n = 0
  · rw [Variance.merge, if_pos h1]; exact hs
  by_cases h2 : s.avg.n = 0
  · rw [Variance.merge, if_neg h1, if_pos h2]; exact ho
  rw [sum2_merge_val r s o h2 h1]
  have hn1 : (0:K) ≤ (s.avg.n : K) := Nat.cast_nonneg _
  have hn2 : (0:K) ≤ (o.avg.n : K) := Nat.cast_nonneg _
  apply fl_nonneg r hu1
  apply add_nonneg hs
  apply fl_nonneg r hu1
  apply add_nonneg ho
  apply fl_nonneg r hu1
  apply div_nonneg
  · apply fl_nonneg r hu1
    apply mul_nonneg _ hn2
    apply fl_nonneg r hu1
    apply mul_nonneg _ hn1
    apply fl_nonneg r hu1
    exact mul_self_nonneg _
  · apply fl_nonneg r hu1
    exact add_nonneg hn1 hn2

/-- the stored `sum_2` is `≥ 0` after every merge tree (`u ≤ 1`, no hypothesis on the data) -/
theorem mtree_sum2_nonneg (r : Rnd2 K) (hu1 : r.u ≤ 1) (t : MTree (RF2 r)) :
    0 ≤ (Variance.evalTree t).sum_2.val := by
  induction t with
  | leaf xs => exact var_fold_sum2_nonneg r hu1 xs
  | node l rt ihl ihr =>
    show 0 ≤ (Variance.merge (Variance.evalTree l) (Variance.evalTree rt)).sum_2.val
    exact merge_sum2_nonneg r hu1 _ _ ihl ihr

section access
variable {r : Rnd2 K} [FloatOps (RF2 r)]

/-- what `variance_of_mean` computes at `RF2 r` after a merge tree over `n ≥ 2` observations:
`fl(fl(sum_2/(n-1))/n)` -/
theorem vom_mtree_val (t : MTree (RF2 r)) (h2 : 2 ≤ t.flatten.length)
    (hcount : (Variance.evalTree t).avg.n = t.flatten.length) :
    (Variance.evalTree t).varianceOfMean.val
      = r.fl (r.fl ((Variance.evalTree t).sum_2.val / ((t.flatten.length - 1 : ℕ) : K))
          / (t.flatten.length : K)) := by
  have hsv := samplevar_mtree_val t h2 hcount
  unfold Variance.varianceOfMean
  rw [hcount, if_neg (by omega), if_neg (by omega)]
  show r.fl ((Variance.evalTree t).sampleVariance.val / (t.flatten.length : K)) = _
  rw [hsv]

/-- `variance_of_mean ≥ 0` after every merge tree over `n ≥ 2` observations (`u ≤ 1`) -/
theorem vom_mtree_nonneg (hu1 : r.u ≤ 1) (t : MTree (RF2 r)) (h2 : 2 ≤ t.flatten.length)
    (hcount : (Variance.evalTree t).avg.n = t.flatten.length) :
    0 ≤ (Variance.evalTree t).varianceOfMean.val := by
  rw [vom_mtree_val t h2 hcount]
  apply fl_nonneg r hu1
  apply div_nonneg _ (Nat.cast_nonneg _)
  apply fl_nonneg r hu1
  exact div_nonneg (mtree_sum2_nonneg r hu1 t) (Nat.cast_nonneg _)

/-- **`variance_of_mean` through every merge tree.** `n ≥ 2`, `|x| ≤ M`, `n·u ≤ 1/64`, `v = T/((n-1)·n)` the
exact value, any `σ ≥ 0` with `T/n ≤ σ²` (population variance):
`|variance_of_mean - v| ≤ 12·n·u·v + (18·n·u·M·σ + 46·n²·u²·M²)/(n-1)`. -/
theorem vom_mtree_error (M : K) (hM : 0 ≤ M) (t : MTree (RF2 r)) (h2 : 2 ≤ t.flatten.length)
    (hb : ∀ x ∈ t.flatten, |x.val| ≤ M) (hsmall : (t.flatten.length : K) * r.u ≤ 1/64)
    (σ : K) (hσ : 0 ≤ σ) (hvar : T (t.flatten.map RF2.val) / (t.flatten.length : K) ≤ σ^2) :
    |(Variance.evalTree t).varianceOfMean.val
        - T (t.flatten.map RF2.val) / ((t.flatten.length - 1 : ℕ) : K) / (t.flatten.length : K)|
      ≤ 12 * (t.flatten.length : K) * r.u
            * (T (t.flatten.map RF2.val) / ((t.flatten.length - 1 : ℕ) : K) / (t.flatten.length : K))
        + (18 * (t.flatten.length : K) * r.u * M * σ
            + 46 * (t.flatten.length : K)^2 * r.u^2 * M^2) / ((t.flatten.length - 1 : ℕ) : K) := by
  have hu := r.u_nonneg
  have hn2 : (2 : K) ≤ t.flatten.length := by exact_mod_cast h2
  rw [vom_mtree_val t h2 (mtree_count M hM t hb hsmall)]
  have hm : ((t.flatten.length - 1 : ℕ) : K) = (t.flatten.length : K) - 1 := by
    rw [Nat.cast_sub (by omega)]; simp
  rw [hm]
  set n : K := (t.flatten.length : K) with hn
  have hnpos : 0 < n := by linarith
  have hmpos : 0 < n - 1 := by linarith
  set Tn := T (t.flatten.map RF2.val) with hTn
  have hT0 : 0 ≤ Tn := T_nonneg _
  have hu128 : r.u ≤ 1/128 := by nlinarith
  have hu2 : r.u^2 ≤ r.u * (1/128) := by rw [sq]; exact mul_le_mul_of_nonneg_left hu128 hu
  have hnu2 : 2 * r.u ≤ n * r.u := mul_le_mul_of_nonneg_right hn2 hu
  have hTle : Tn ≤ n * σ^2 := by rwa [div_le_iff₀ hnpos, mul_comm] at hvar
  have hd := var_mtree_error_lin r M hM t hb hsmall (n * σ) (by positivity)
    (by rw [mul_pow]; nlinarith)
  set S := (Variance.evalTree t).sum_2.val with hS
  set D := |S - Tn| with hD
  have hD0 : 0 ≤ D := abs_nonneg _
  have h1 := div_round_error r S Tn (n - 1) hmpos hT0
  have h2' := div_round_error r (r.fl (S / (n - 1))) (Tn / (n - 1)) n hnpos
    (div_nonneg hT0 hmpos.le)
  refine le_trans h2' ?_
  rw [div_le_iff₀ hnpos]
  have h3 : (1 + r.u) * |r.fl (S / (n - 1)) - Tn / (n - 1)| + r.u * (Tn / (n - 1))
      ≤ ((1 + r.u)^2 * D + (2 * r.u + r.u^2) * Tn) / (n - 1) := by
    calc _ ≤ (1 + r.u) * (((1 + r.u) * D + r.u * Tn) / (n - 1)) + r.u * (Tn / (n - 1)) := by gcongr
      _ = _ := by field_simp; ring
  refine le_trans h3 ?_
  rw [div_le_iff₀ hmpos]
  have e1 : (12 * n * r.u * (Tn / (n - 1) / n)
        + (18 * n * r.u * M * σ + 46 * n^2 * r.u^2 * M^2) / (n - 1)) * n * (n - 1)
      = 12 * n * r.u * Tn + 18 * n^2 * r.u * M * σ + 46 * n^3 * r.u^2 * M^2 := by
    field_simp
    ring
  rw [e1]
  have hc : (1 + r.u)^2 ≤ 1 + 129/64 * r.u := by
    have : (1 + r.u)^2 = 1 + 2 * r.u + r.u^2 := by ring
    rw [this]; linarith
  have hc' : (1 + r.u)^2 ≤ 64/63 := by linarith
  have hd' : D ≤ 10 * n * r.u * Tn + 17 * n * r.u * M * (n * σ) + 45 * n^3 * r.u^2 * M^2 := hd
  have hB0 : 0 ≤ 10 * n * r.u * Tn + 17 * n * r.u * M * (n * σ) + 45 * n^3 * r.u^2 * M^2 := by
    positivity
  have hD' : (1 + r.u)^2 * D ≤ 64/63 * (10 * n * r.u * Tn + 17 * n * r.u * M * (n * σ)
        + 45 * n^3 * r.u^2 * M^2) := mul_le_mul hc' hd' hD0 (by norm_num)
  have a2 : 0 ≤ n^2 * r.u * M * σ := by positivity
  have a3 : 0 ≤ n^3 * r.u^2 * M^2 := by positivity
  have a4 : 0 ≤ n * r.u * Tn := by positivity
  have t1 : (2 * r.u + r.u^2) * Tn ≤ 129/128 * (n * r.u * Tn) := by
    have : 2 * r.u + r.u^2 ≤ 129/128 * (n * r.u) := by linarith
    calc _ ≤ (129/128 * (n * r.u)) * Tn := mul_le_mul_of_nonneg_right this hT0
      _ = _ := by ring
  have e2 : 17 * n * r.u * M * (n * σ) = 17 * (n^2 * r.u * M * σ) := by ring
  rw [e2] at hD'
  linarith

end access

/-! ## `error` over ℝ -/

section real
variable {r : Rnd2 ℝ} [FloatOps (RF2 r)]

/-- **`error` through every merge tree, general form** (no side condition). Over ℝ: `n ≥ 2`, `|x| ≤ M`,
`n·u ≤ 1/64`, `T > 0`, `v = T/((n-1)n)`, `e = √v`, any `σ ≥ 0` with `T/n ≤ σ²`:
`|error - e| ≤ (1+u)·(12·n·u·v + (18·n·u·M·σ + 46·n²·u²·M²)/(n-1))/e + u·e`. -/
theorem error_mtree_error (q : RndSqrt r) (hs : SqrtIs q) (M : ℝ) (hM : 0 ≤ M) (t : MTree (RF2 r))
    (h2 : 2 ≤ t.flatten.length) (hb : ∀ x ∈ t.flatten, |x.val| ≤ M)
    (hsmall : (t.flatten.length : ℝ) * r.u ≤ 1/64) (hpos : 0 < T (t.flatten.map RF2.val))
    (σ : ℝ) (hσ : 0 ≤ σ) (hvar : T (t.flatten.map RF2.val) / (t.flatten.length : ℝ) ≤ σ^2) :
    |(Variance.evalTree t).error.val
        - Real.sqrt (T (t.flatten.map RF2.val) / ((t.flatten.length - 1 : ℕ) : ℝ)
            / (t.flatten.length : ℝ))|
      ≤ (1 + r.u) * ((12 * (t.flatten.length : ℝ) * r.u
              * (T (t.flatten.map RF2.val) / ((t.flatten.length - 1 : ℕ) : ℝ)
                  / (t.flatten.length : ℝ))
            + (18 * (t.flatten.length : ℝ) * r.u * M * σ
                + 46 * (t.flatten.length : ℝ)^2 * r.u^2 * M^2) / ((t.flatten.length - 1 : ℕ) : ℝ))
          / Real.sqrt (T (t.flatten.map RF2.val) / ((t.flatten.length - 1 : ℕ) : ℝ)
              / (t.flatten.length : ℝ)))
        + r.u * Real.sqrt (T (t.flatten.map RF2.val) / ((t.flatten.length - 1 : ℕ) : ℝ)
            / (t.flatten.length : ℝ)) := by
  have hu := r.u_nonneg
  have hn2 : (2:ℝ) ≤ (t.flatten.length : ℝ) := by exact_mod_cast h2
  have hu1 : r.u ≤ 1 := by nlinarith
  have hmpos : (0:ℝ) < ((t.flatten.length - 1 : ℕ) : ℝ) := by
    have : 0 < t.flatten.length - 1 := by omega
    exact_mod_cast this
  have hvpos : 0 < T (t.flatten.map RF2.val) / ((t.flatten.length - 1 : ℕ) : ℝ)
      / (t.flatten.length : ℝ) := div_pos (div_pos hpos hmpos) (by linarith)
  rw [variance_error_val q hs]
  exact sqrtfl_error_abs q _ _ _ (vom_mtree_nonneg hu1 t h2 (mtree_count M hM t hb hsmall)) hvpos
    (vom_mtree_error M hM t h2 hb hsmall σ hσ hvar)

end real
end VomMerge

#print axioms VomMerge.mtree_sum2_nonneg
#print axioms VomMerge.vom_mtree_val
#print axioms VomMerge.vom_mtree_error
#print axioms VomMerge.error_mtree_error
